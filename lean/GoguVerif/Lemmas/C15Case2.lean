import GoguVerif.Lemmas.C15Case
/-!
# C15 — helper lemmas for the case styles, part 2:
word initials of CamelCase; idempotence of SnakeCase / KebabCase
-/
namespace GoguVerif.Lemmas.C15
open GoguVerif.Go.Utf8 GoguVerif.Model.C15 GoguVerif.Spec.C15

/-! ### CamelCase: upper case only at word initials -/

theorem trimSpace_domain (s : Str) (h : inDomain s = true) : trimSpace s = s := by
  obtain ⟨_, hs⟩ := inDomain_cases s h
  rcases hs with rfl | ⟨b, rest, z, rfl, hb, hz, hza⟩
  · exact trimSpace_nil
  · exact trimSpace_dom b rest z hb hz hza

theorem isUpper_lowerB (b : UInt8) : isUpper (lowerB b) = false := by
  cases h : isUpper (lowerB b) with
  | false => rfl
  | true =>
    rw [isUpper_iff, lowerB_toNat] at h
    split at h
    · rename_i hy; rw [isUpper_iff] at hy; omega
    · rename_i hn; rw [isUpper_iff] at hn; omega

/-- the flags of one word: its first byte is an initial -/
def flagsOf : Str → List Bool
  | [] => []
  | _ :: t => true :: t.map (fun _ => false)

def wordFlags (ws : List Str) : List Bool := ws.flatMap flagsOf

theorem flagsOf_length (w : Str) : (flagsOf w).length = w.length := by
  cases w <;> simp [flagsOf]

theorem flagsOf_snoc (cur : Str) (b : UInt8) : flagsOf (cur ++ [b]) = flagsOf cur ++ [decide (cur = [])] := by
  cases cur <;> simp [flagsOf]

/-- the separator scanner does not move the word initials -/
theorem initials_replaceSeps (s : Str) (h : DomBytes s) (a f : Bool) (haf : f = true → a = true) :
    initials a (replaceSeps f s) = initials a s := by
  induction s generalizing a f with
  | nil => rfl
  | cons b rest ih =>
    rcases h b List.mem_cons_self with ha | hs
    · simp only [replaceSeps, isSep_of_alnum ha, Bool.false_eq_true, if_false, initials, ha, if_true]
      rw [ih h.tail false false (fun h => nomatch h)]
    · have hna : isAlnum b = false := by
        rcases isSepB_cases hs with rfl | hsep
        · decide
        · cases hb : isAlnum b with
          | false => rfl
          | true => rw [isSep_of_alnum hb] at hsep; exact absurd hsep (by decide)
      rcases isSepB_cases hs with rfl | hsep
      · have h1 : isSep 0x20 = false := by decide
        have h2 : isAlnum 0x20 = false := by decide
        simp only [replaceSeps, h1, Bool.false_eq_true, if_false, initials, h2]
        exact ih h.tail true false (fun h => nomatch h)
      · simp only [replaceSeps, hsep, if_true]
        have h2 : isAlnum 0x20 = false := by decide
        cases f with
        | true =>
          have := haf rfl
          subst this
          simp only [if_true, initials, hna, Bool.false_eq_true, if_false]
          exact ih h.tail true true (fun _ => rfl)
        | false =>
          simp only [Bool.false_eq_true, if_false, initials, h2, hna]
          exact ih h.tail true true (fun _ => rfl)

/-- the initial flags of the split pieces are the specification's `initials` -/
theorem wordFlags_splitSpace (t : Str) (h : ∀ b ∈ t, isAlnum b = true ∨ b = 0x20) (cur : Str) :
    wordFlags (splitSpace cur t) = flagsOf cur ++ initials (decide (cur = [])) t := by
  induction t generalizing cur with
  | nil => simp [splitSpace, wordFlags, initials]
  | cons b rest ih =>
    have hr : ∀ b ∈ rest, isAlnum b = true ∨ b = 0x20 := fun c hc => h c (List.mem_cons_of_mem _ hc)
    rcases h b List.mem_cons_self with ha | rfl
    · simp only [splitSpace, not_space_of_alnum ha, Bool.false_eq_true, if_false, initials, ha, if_true]
      rw [ih hr, flagsOf_snoc]
      simp
    · have h20 : isAlnum 0x20 = false := by decide
      simp only [splitSpace, beq_self_eq_true, if_true, initials, h20, Bool.false_eq_true, if_false]
      have := ih hr []
      simp only [flagsOf, List.nil_append, decide_true] at this
      simp only [wordFlags, List.flatMap_cons] at this ⊢
      rw [this]

theorem initials_domain (s : Str) (h : inDomain s = true) :
    wordFlags (splitSpace [] (replaceSeps false (trimSpace s))) = initials true s := by
  obtain ⟨hdom, _⟩ := inDomain_cases s h
  rw [trimSpace_domain s h, wordFlags_splitSpace _ (replaceSeps_spec s hdom false).1 []]
  simp only [flagsOf, List.nil_append, decide_true]
  exact initials_replaceSeps s hdom true false (fun h => nomatch h)

theorem zip_all_append {p : UInt8 × Bool → Bool} (a1 a2 : Str) (b1 b2 : List Bool) (hl : a1.length = b1.length)
    (h1 : (a1.zip b1).all p = true) (h2 : (a2.zip b2).all p = true) :
    ((a1 ++ a2).zip (b1 ++ b2)).all p = true := by
  rw [List.zip_append hl, List.all_append, h1, h2]; rfl

theorem zip_lower_ok (w : Str) (fl : List Bool) :
    ((w.map lowerB).zip fl).all (fun p => !isUpper p.1 || p.2) = true := by
  rw [List.all_eq_true]
  intro p hp
  have := (List.of_mem_zip hp).1
  obtain ⟨c, _, hc⟩ := List.mem_map.mp this
  rw [← hc, isUpper_lowerB]; rfl

theorem zip_capB_ok (w : Str) :
    ((capB w).zip (flagsOf w)).all (fun p => !isUpper p.1 || p.2) = true := by
  cases w with
  | nil => rfl
  | cons c t =>
    simp only [capB, flagsOf, List.zip_cons_cons, List.all_cons, Bool.or_true, Bool.true_and]
    exact zip_lower_ok t _

/-- in what the CamelCase loop writes, an upper-case byte can only stand at a word initial -/
theorem camelWords_initials (ws : List Str) (first : Bool) :
    ((camelWords first ws).zip (wordFlags ws)).all (fun p => !isUpper p.1 || p.2) = true := by
  induction ws generalizing first with
  | nil => rfl
  | cons w rest ih =>
    unfold camelWords
    simp only [wordFlags, List.flatMap_cons]
    by_cases he : w = []
    · subst he; simpa [flagsOf, wordFlags] using ih first
    · rw [if_neg he]
      apply zip_all_append
      · cases first
        · cases w <;> simp [capB, flagsOf]
        · simp [flagsOf_length]
      · cases first
        · exact zip_capB_ok w
        · exact zip_lower_ok w _
      · exact ih false

/-! ### SnakeCase / KebabCase: the written text is a `join` of non-empty lower-case pieces -/

theorem join_append (d : Str) (ps qs : List Str) (hp : ps ≠ []) (hq : qs ≠ []) :
    join d (ps ++ qs) = join d ps ++ d ++ join d qs := by
  induction ps with
  | nil => exact absurd rfl hp
  | cons p r ih =>
    cases r with
    | nil =>
      obtain ⟨q, qr, rfl⟩ := List.exists_cons_of_ne_nil hq
      simp [join]
    | cons p' r' =>
      have := ih (by simp)
      simp only [List.cons_append, join] at this ⊢
      rw [this]
      simp

/-- a piece: non-empty, only lower-case letters and digits -/
def Piece (p : Str) : Prop := p ≠ [] ∧ ∀ b ∈ p, isLowerAlnum b = true

theorem Piece.word {p : Str} (h : Piece p) : Word p := fun b hb => isAlnum_of_lowerAlnum (h.2 b hb)

theorem Starts.tail {n m : Nat} {ms : List Nat} (h : Starts n (m :: ms)) : Starts n ms := by
  cases ms with
  | nil => trivial
  | cons m' ms => exact h.2

theorem cutsFrom_nonempty (w : Str) (m : Nat) (ms : List Nat) (h : Starts w.length (m :: ms)) :
    ∀ p ∈ cutsFrom w (m :: ms), p ≠ [] := by
  induction ms generalizing m with
  | nil =>
    have hm : m + 2 ≤ w.length := h
    simp only [cutsFrom, List.mem_singleton]
    rintro p rfl hp
    have := congrArg List.length hp
    simp only [List.length_drop, List.length_nil] at this
    omega
  | cons m' ms ih =>
    have hm := h.head_le
    have h1 : m < m' := h.1
    simp only [cutsFrom, List.mem_cons]
    rintro p (rfl | hp)
    · intro hp
      have := congrArg List.length hp
      simp only [List.length_take, List.length_drop, List.length_nil] at this
      omega
    · exact ih m' h.2 p hp

theorem cuts_nonempty (w : Str) (hw : w ≠ []) (L : List Nat) (h : Starts w.length L) :
    ∀ p ∈ cuts w L, p ≠ [] := by
  cases L with
  | nil => simp [cuts, hw]
  | cons m ms =>
    simp only [cuts, List.mem_cons]
    rintro p (rfl | hp)
    · intro hp
      have := congrArg List.length hp
      have hl : 0 < w.length := List.length_pos_iff.mpr hw
      simp only [List.length_take, List.length_nil] at this
      omega
    · exact cutsFrom_nonempty w m ms h p hp

theorem piecesB_piece {w : Str} (hw : Word w) (hne : w ≠ []) : ∀ p ∈ piecesB w, Piece p := by
  intro p hp
  refine ⟨?_, piecesB_bytes hw p hp⟩
  unfold piecesB at hp
  obtain ⟨c, hc, rfl⟩ := List.mem_map.mp hp
  have := cuts_nonempty w hne _ (starts_ok w) c hc
  simpa using this

theorem piecesB_ne_nil (w : Str) : piecesB w ≠ [] := by
  unfold piecesB cuts
  cases starts w <;> simp

/-- all pieces of all non-empty words, in order -/
def allPieces (ws : List Str) : List Str := ws.flatMap fun w => if w = [] then [] else piecesB w

theorem allPieces_piece (ws : List Str) (hw : ∀ w ∈ ws, Word w) : ∀ p ∈ allPieces ws, Piece p := by
  intro p hp
  unfold allPieces at hp
  obtain ⟨w, hwm, hpw⟩ := List.mem_flatMap.mp hp
  by_cases he : w = []
  · simp [he] at hpw
  · rw [if_neg he] at hpw
    exact piecesB_piece (hw w hwm) he p hpw

theorem allPieces_snoc_ne_nil (init : List Str) (wl : Str) (hwl : wl ≠ []) : allPieces (init ++ [wl]) ≠ [] := by
  unfold allPieces
  rw [List.flatMap_append]
  simp only [List.flatMap_cons, List.flatMap_nil, List.append_nil, if_neg hwl]
  intro h
  exact piecesB_ne_nil wl (List.append_eq_nil_iff.mp h).2

/-- if the last word is not empty there is no trailing delimiter: the text is the join of all pieces -/
theorem snakeWords_join (d : UInt8) (init : List Str) (wl : Str) (hwl : wl ≠ []) :
    snakeWords d (init ++ [wl]) = join [d] (allPieces (init ++ [wl])) := by
  induction init with
  | nil => simp [snakeWords, allPieces, hwl]
  | cons w rest ih =>
    have hne : rest ++ [wl] ≠ [] := by simp
    simp only [List.cons_append]
    unfold snakeWords
    by_cases he : w = []
    · subst he
      simpa [allPieces] using ih
    · rw [if_neg he, if_neg hne, ih]
      have : allPieces (w :: (rest ++ [wl])) = piecesB w ++ allPieces (rest ++ [wl]) := by
        simp [allPieces, he]
      rw [this, join_append _ _ _ (piecesB_ne_nil w) (allPieces_snoc_ne_nil rest wl hwl)]

/-! ### re-scanning a join of pieces -/

theorem replaceSeps_word_append (p : Str) (hp : Word p) (hne : p ≠ []) (rest : Str) (f : Bool) :
    replaceSeps f (p ++ rest) = p ++ replaceSeps false rest := by
  induction p generalizing f with
  | nil => exact absurd rfl hne
  | cons b t ih =>
    simp only [List.cons_append, replaceSeps, isSep_of_alnum hp.head, Bool.false_eq_true, if_false]
    cases t with
    | nil => rfl
    | cons c t' => rw [ih hp.tail (by simp) false]

theorem replaceSeps_word (p : Str) (hp : Word p) (f : Bool) : replaceSeps f p = p := by
  induction p generalizing f with
  | nil => rfl
  | cons b t ih =>
    simp only [replaceSeps, isSep_of_alnum hp.head, Bool.false_eq_true, if_false]
    rw [ih hp.tail false]

theorem replaceSeps_join (d : UInt8) (hd : isSep d = true) (ps : List Str) (hps : ∀ p ∈ ps, Piece p) (f : Bool) :
    replaceSeps f (join [d] ps) = join [0x20] ps := by
  induction ps generalizing f with
  | nil => rfl
  | cons p r ih =>
    have hp := hps p List.mem_cons_self
    cases r with
    | nil => simp only [join]; exact replaceSeps_word p hp.word f
    | cons q r' =>
      have ih' := ih (fun x hx => hps x (List.mem_cons_of_mem _ hx)) true
      simp only [join, List.append_assoc] at ih' ⊢
      rw [replaceSeps_word_append p hp.word hp.1]
      simp only [List.singleton_append, replaceSeps, hd, if_true, Bool.false_eq_true, if_false]
      rw [ih']

theorem splitSpace_word_append (p : Str) (hp : Word p) (rest cur : Str) :
    splitSpace cur (p ++ rest) = splitSpace (cur ++ p) rest := by
  induction p generalizing cur with
  | nil => simp
  | cons b t ih =>
    simp only [List.cons_append, splitSpace, not_space_of_alnum hp.head, Bool.false_eq_true, if_false]
    rw [ih hp.tail]
    simp

theorem splitSpace_join (p : Str) (qs : List Str) (hps : ∀ x ∈ p :: qs, Word x) (cur : Str) :
    splitSpace cur (join [0x20] (p :: qs)) = (cur ++ p) :: qs := by
  induction qs generalizing p cur with
  | nil =>
    simp only [join]
    have := splitSpace_word_append p (hps p List.mem_cons_self) [] cur
    simp only [List.append_nil] at this
    rw [this]; rfl
  | cons q r ih =>
    simp only [join, List.append_assoc]
    rw [splitSpace_word_append p (hps p List.mem_cons_self)]
    simp only [List.singleton_append, splitSpace, beq_self_eq_true, if_true]
    rw [ih q (fun x hx => hps x (List.mem_cons_of_mem _ hx)) []]
    rfl

/-- a piece has no match of `[a-zö][A-ZÖ]+` -/
theorem upperRun_lower (t : Str) (h : ∀ b ∈ t, isLowerAlnum b = true) : upperRun t = 0 := by
  cases t with
  | nil => rfl
  | cons b rest =>
    have hb := h b List.mem_cons_self
    have ha := (isAlnum_iff b).mp (isAlnum_of_lowerAlnum hb)
    simp only [isLowerAlnum, Bool.or_eq_true, isDigit_iff, isLower_iff] at hb
    unfold upperRun
    split
    · rename_i heq
      have := (List.cons.injEq _ _ _ _ ▸ heq : b = 0xC3 ∧ _).1
      subst this
      have e : (0xC3 : UInt8).toNat = 0xC3 := rfl
      omega
    · rename_i heq
      have hbe := (List.cons.injEq _ _ _ _ ▸ heq : b = _ ∧ _).1
      subst hbe
      rw [if_neg]
      simp only [Bool.and_eq_true, decide_eq_true_eq]
      omega
    · rename_i heq; exact nomatch heq

theorem findCamel_lower (t : Str) (h : ∀ b ∈ t, isLowerAlnum b = true) (i k : Nat) : findCamel i k t = [] := by
  induction t generalizing i k with
  | nil => rfl
  | cons b rest ih =>
    have hr : ∀ b ∈ rest, isLowerAlnum b = true := fun c hc => h c (List.mem_cons_of_mem _ hc)
    cases k with
    | succ k => simp only [findCamel]; exact ih hr _ _
    | zero =>
      simp only [findCamel]
      split
      · rename_i w _
        have : upperRun ((b :: rest).drop w) = 0 :=
          upperRun_lower _ (fun c hc => h c (List.mem_of_mem_drop hc))
        rw [this]
        simp only [Nat.lt_irrefl, if_false]
        exact ih hr _ _
      · exact ih hr _ _

theorem lowerB_lower {b : UInt8} (h : isLowerAlnum b = true) : lowerB b = b := by
  have ha := (isAlnum_iff b).mp (isAlnum_of_lowerAlnum h)
  simp only [isLowerAlnum, Bool.or_eq_true, isDigit_iff, isLower_iff] at h
  unfold lowerB
  rw [if_neg]
  rw [isUpper_iff]; omega

theorem piecesB_piece_self {p : Str} (hp : Piece p) : piecesB p = [p] := by
  unfold piecesB starts
  rw [findCamel_lower p hp.2]
  simp only [List.map_nil, cuts, List.map_cons]
  congr 1
  conv => rhs; rw [← List.map_id p]
  apply List.map_congr_left
  intro b hb
  exact lowerB_lower (hp.2 b hb)

theorem allPieces_pieces (ps : List Str) (hps : ∀ p ∈ ps, Piece p) : allPieces ps = ps := by
  induction ps with
  | nil => rfl
  | cons p r ih =>
    have hp := hps p List.mem_cons_self
    have := ih (fun x hx => hps x (List.mem_cons_of_mem _ hx))
    simp only [allPieces, List.flatMap_cons] at this ⊢
    rw [this, if_neg hp.1, piecesB_piece_self hp]
    rfl

theorem join_head? (d : UInt8) (p : Str) (qs : List Str) (hp : p ≠ []) :
    (join [d] (p :: qs)).head? = p.head? := by
  cases qs with
  | nil => rfl
  | cons q r =>
    obtain ⟨b, t, rfl⟩ := List.exists_cons_of_ne_nil hp
    simp [join]

theorem join_getLast? (d : UInt8) (ps : List Str) (hps : ∀ p ∈ ps, p ≠ []) (hne : ps ≠ []) :
    ∃ z pl, pl ∈ ps ∧ pl.getLast? = some z ∧ (join [d] ps).getLast? = some z := by
  induction ps with
  | nil => exact absurd rfl hne
  | cons p r ih =>
    cases r with
    | nil =>
      have hp := hps p List.mem_cons_self
      exact ⟨p.getLast hp, p, List.mem_cons_self, List.getLast?_eq_some_getLast hp, by
        simp only [join]; exact List.getLast?_eq_some_getLast hp⟩
    | cons q r' =>
      obtain ⟨z, pl, hpl, hz, hj⟩ := ih (fun x hx => hps x (List.mem_cons_of_mem _ hx)) (by simp)
      refine ⟨z, pl, List.mem_cons_of_mem _ hpl, hz, ?_⟩
      simp only [join]
      rw [List.getLast?_append, hj]
      rfl

/-- **Re-scan.**  Applying the function to a join of pieces gives the same text back. -/
theorem split_join_pieces {lo up : Rune → Rune} (ht : AsciiTable lo up) (d : UInt8) (hd : isSep d = true)
    (ps : List Str) (hps : ∀ p ∈ ps, Piece p) :
    splitStringWithDelimiter lo (join [d] ps) [d] = .ok (join [d] ps) := by
  cases ps with
  | nil =>
    simp only [join]
    unfold splitStringWithDelimiter
    rw [trimSpace_nil]
    simp [replaceSeps, splitSpace, snakeLoop, runes, rangeStr, rangeAux]
  | cons p qs =>
    have hp := hps p List.mem_cons_self
    have hwords : ∀ x ∈ p :: qs, Word x := fun x hx => (hps x hx).word
    -- TrimSpace changes nothing: the text starts and ends with a letter or digit
    obtain ⟨b, t, rfl⟩ := List.exists_cons_of_ne_nil hp.1
    have hhead : (join [d] ((b :: t) :: qs)).head? = some b := by
      rw [join_head? d _ _ (by simp)]; rfl
    obtain ⟨z, pl, hpl, hz, hlast⟩ := join_getLast? d ((b :: t) :: qs) (fun x hx => (hps x hx).1) (by simp)
    have hza : isAlnum z = true := (hps pl hpl).word z (List.mem_of_getLast? hz)
    obtain ⟨b', rest, hx⟩ : ∃ b' rest, join [d] ((b :: t) :: qs) = b' :: rest := by
      cases hj : join [d] ((b :: t) :: qs) with
      | nil => rw [hj] at hhead; simp at hhead
      | cons b' rest => exact ⟨b', rest, rfl⟩
    have hb' : b' = b := by rw [hx] at hhead; simpa using hhead
    subst hb'
    have htrim : trimSpace (join [d] ((b' :: t) :: qs)) = join [d] ((b' :: t) :: qs) := by
      rw [hx] at hlast ⊢
      exact trimSpace_dom b' rest z hp.word.head hlast hza
    unfold splitStringWithDelimiter
    simp only []
    rw [htrim, replaceSeps_join d hd _ hps false, splitSpace_join _ _ hwords [], List.nil_append]
    rw [snakeLoop_words ht d _ _ hwords (fun w _ => starts_ok w) 0 [] (Nat.zero_add _), List.nil_append]
    congr 1
    obtain ⟨init, wl, hinit⟩ : ∃ init wl, (b' :: t) :: qs = init ++ [wl] :=
      ⟨_, _, (List.dropLast_concat_getLast (by simp)).symm⟩
    have hwl : wl ≠ [] := (hps wl (by rw [hinit]; simp)).1
    rw [hinit, snakeWords_join d init wl hwl, ← hinit, allPieces_pieces _ hps]

/-! ### from the stated domain to a join of pieces -/

/-- on a non-empty domain string the last piece of the split is not empty -/
theorem chars_last_nonempty (s : Str) (h : inDomain s = true) (hne : s ≠ []) :
    ∃ init wl, splitSpace [] (replaceSeps false (trimSpace s)) = init ++ [wl] ∧ wl ≠ [] := by
  obtain ⟨_, hs⟩ := inDomain_cases s h
  rcases hs with rfl | ⟨b, rest, z, hsb, _, hz, hza⟩
  · exact absurd rfl hne
  · obtain ⟨s', hs'⟩ := List.getLast?_eq_some_iff.mp hz
    rw [trimSpace_domain s h, hs', replaceSeps_snoc s' z (isSep_of_alnum hza) false]
    obtain ⟨init, w, hw⟩ := splitSpace_snoc (replaceSeps false s') z (not_space_of_alnum hza) []
    exact ⟨init, w ++ [z], hw, by simp⟩

/-- what Snake/Kebab write on a domain string is a join of pieces -/
theorem snakeWords_domain_join (d : UInt8) (s : Str) (h : inDomain s = true) :
    ∃ ps, (∀ p ∈ ps, Piece p) ∧
      snakeWords d (splitSpace [] (replaceSeps false (trimSpace s))) = join [d] ps := by
  by_cases hne : s = []
  · subst hne
    refine ⟨[], by simp, ?_⟩
    rw [trimSpace_nil]
    simp [replaceSeps, splitSpace, snakeWords, join]
  · obtain ⟨init, wl, hc, hwl⟩ := chars_last_nonempty s h hne
    have hw := (chars_of_domain s h).1
    rw [hc] at hw ⊢
    exact ⟨allPieces (init ++ [wl]), allPieces_piece _ hw, snakeWords_join d init wl hwl⟩

/-- evaluation of the whole function on the domain -/
theorem split_domain_eval {lo up : Rune → Rune} (ht : AsciiTable lo up) (d : UInt8) (s : Str)
    (h : inDomain s = true) :
    splitStringWithDelimiter lo s [d] =
      .ok (snakeWords d (splitSpace [] (replaceSeps false (trimSpace s)))) := by
  have hw := (chars_of_domain s h).1
  unfold splitStringWithDelimiter
  simp only []
  rw [snakeLoop_words ht d _ _ hw (fun w _ => starts_ok w) 0 [] (Nat.zero_add _), List.nil_append]

/-- **Idempotence** on the domain. -/
theorem split_domain_idem {lo up : Rune → Rune} (ht : AsciiTable lo up) (d : UInt8) (hd : isSep d = true)
    (s : Str) (h : inDomain s = true) :
    splitStringWithDelimiter lo (snakeWords d (splitSpace [] (replaceSeps false (trimSpace s)))) [d] =
      .ok (snakeWords d (splitSpace [] (replaceSeps false (trimSpace s)))) := by
  obtain ⟨ps, hps, hj⟩ := snakeWords_domain_join d s h
  rw [hj]
  exact split_join_pieces ht d hd ps hps

end GoguVerif.Lemmas.C15
