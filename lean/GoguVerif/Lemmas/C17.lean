import GoguVerif.Model.C17
/-!
# C17 — the invariant of the Memoize protocol LTS and its preservation (helper lemmas)
-/
namespace GoguVerif.Lemmas.C17
open GoguVerif.Model.C17

/-- the caller is the registered call of its key (between `doEnter` as leader and `doFinish`) -/
def active : PC → Bool
  | .leader | .running | .ran _ | .setDone _ => true
  | _ => false

/-- what is known about one caller, by where it is -/
def Local (cfg : Cfg) (s : State) (c : Nat) : Prop :=
  match s.pc c with
  | .idle | .start | .missed =>
    s.src c = none ∧ s.started c = false ∧ s.execRes c = none ∧ s.result c = none
  | .waiting l =>
    s.src c = some (.exec l) ∧ s.started c = false ∧ s.execRes c = none ∧ s.result c = none ∧
      cfg.key l = cfg.key c
  | .leader =>
    s.src c = some (.exec c) ∧ s.started c = false ∧ s.execRes c = none ∧ s.result c = none
  | .running =>
    s.src c = some (.exec c) ∧ s.started c = true ∧ s.execRes c = none ∧ s.result c = none
  | .ran r | .setDone r =>
    s.src c = some (.exec c) ∧ s.started c = true ∧ s.execRes c = some r ∧ s.result c = none
  | .done r =>
    (∃ v, r = .ok v ∧ s.src c = some (.hit v) ∧ s.started c = false ∧ s.execRes c = none ∧ s.result c = none)
    ∨ (s.src c = some (.exec c) ∧ s.started c = true ∧ s.execRes c = some r ∧ s.result c = some r)
    ∨ (∃ l, s.src c = some (.exec l) ∧ cfg.key l = cfg.key c ∧ s.result l = some r ∧
          s.started c = false ∧ s.execRes c = none ∧ s.result c = none)

/-- the invariant of the protocol (`c0` = the cache before the first step) -/
structure Inv (cfg : Cfg) (c0 : Nat → Cell) (s : State) : Prop where
  lead : ∀ c, active (s.pc c) = true → s.flight (cfg.key c) = some c
  fkey : ∀ k c, s.flight k = some c → cfg.key c = k
  infl : ∀ k, s.inflight k = (match s.flight k with
            | some c => if s.pc c = .running then 1 else 0
            | none => 0)
  loc  : ∀ c, Local cfg s c
  cach : ∀ k v e, s.cache k = some (v, e) →
            c0 k = some (v, e) ∨ ∃ l, cfg.key l = k ∧ s.execRes l = some (.ok v)

theorem inv_init (cfg : Cfg) (c0 : Nat → Cell) (now : Int) : Inv cfg c0 (init c0 now) where
  lead := by intro c h; simp [init, active] at h
  fkey := by intro k c h; simp [init] at h
  infl := by intro k; simp [init]
  loc := by intro c; simp [Local, init]
  cach := by intro k v e h; exact Or.inl h

/-- `Local` only looks at the caller's own components and at the published results -/
theorem local_congr {cfg : Cfg} {s s' : State} {c : Nat}
    (hpc : s'.pc c = s.pc c) (hsrc : s'.src c = s.src c) (hst : s'.started c = s.started c)
    (hex : s'.execRes c = s.execRes c) (hres : ∀ l, s.result l = none ∨ s'.result l = s.result l)
    (hresc : s'.result c = s.result c)
    (h : Local cfg s c) : Local cfg s' c := by
  unfold Local at h ⊢
  rw [hpc]
  split <;> simp_all
  · rename_i r
    rcases h with h | h | ⟨l, h1, h2, h3, h4⟩
    · exact Or.inl h
    · exact Or.inr (Or.inl h)
    · refine Or.inr (Or.inr ⟨l, h1, h2, ?_, h4⟩)
      rcases hres l with h5 | h5
      · rw [h5] at h3; cases h3
      · rw [h5]; exact h3

theorem cellSet_cases (e now : Int) (c : Cell) (v : Int) :
    cellSet e now c v = c ∨ cellSet e now c v = some (v, defaultExp e now) := by
  unfold cellSet
  split
  · split
    · exact Or.inl rfl
    · exact Or.inr rfl
  · exact Or.inr rfl

theorem upd_apply {α : Type} (f : Nat → α) (a x : Nat) (b : α) : upd f a b x = if x = a then b else f x := rfl

/-- callers other than the one that moved keep their `Local` fact (no result published in this step) -/
macro "others " s:term:max hca:term:max h:term:max : tactic =>
  `(tactic| exact local_congr (s := $s) (by first | rfl | exact upd_other _ _ _ _ $hca)
      (by first | rfl | exact upd_other _ _ _ _ $hca) (by first | rfl | exact upd_other _ _ _ _ $hca)
      (by first | rfl | exact upd_other _ _ _ _ $hca) (fun _ => Or.inr rfl) rfl $h)


/-- the in-flight clause when the leader `a` of its key moves from `old` to `new` -/
theorem infl_leader_move {cfg : Cfg} {s : State} {a : Nat} {new : PC} {n : Nat}
    (h2 : ∀ k c, s.flight k = some c → cfg.key c = k)
    (h3 : ∀ k, s.inflight k = (match s.flight k with
            | some c => if s.pc c = .running then 1 else 0
            | none => 0))
    (hfa : s.flight (cfg.key a) = some a)
    (hn : n = if new = .running then 1 else 0) (k : Nat) :
    upd s.inflight (cfg.key a) n k = (match s.flight k with
            | some c => if upd s.pc a new c = .running then 1 else 0
            | none => 0) := by
  by_cases hk : k = cfg.key a
  · subst hk
    rw [upd_same, hfa]
    simp only [upd_same]
    exact hn
  · rw [upd_other _ _ _ _ hk, h3 k]
    cases hf : s.flight k with
    | none => rfl
    | some c =>
      have hca : c ≠ a := by
        intro hca; subst hca; exact hk (h2 k c hf).symm
      simp only [upd_other _ _ _ _ hca]

theorem inv_cacheCheck {cfg : Cfg} {c0 : Nat → Cell} {s s' : State} {a : Nat}
    (h : Inv cfg c0 s) (hs : step cfg s (.cacheCheck a) = some s') : Inv cfg c0 s' := by
  simp only [step] at hs
  obtain ⟨h1, h2, h3, h4, h5⟩ := h
  split at hs <;> try (simp at hs)
  rename_i hpc
  have ha := h4 a
  simp only [Local, hpc] at ha
  split at hs <;> simp at hs <;> subst hs
  · refine ⟨?_, h2, ?_, ?_, h5⟩
    · intro c hc
      have := h1 c
      grind [upd_apply, active]
    · intro k
      have := h3 k
      grind [upd_apply]
    · intro c
      by_cases hca : c = a
      · subst hca
        simp only [Local, upd_same]
        simp [ha]
      · others s hca (h4 c)
  · refine ⟨?_, h2, ?_, ?_, h5⟩
    · intro c hc
      have := h1 c
      grind [upd_apply, active]
    · intro k
      have := h3 k
      grind [upd_apply]
    · intro c
      by_cases hca : c = a
      · subst hca
        simp only [Local, upd_same]
        simp [ha]
      · others s hca (h4 c)

theorem inv_doEnter {cfg : Cfg} {c0 : Nat → Cell} {s s' : State} {a : Nat}
    (h : Inv cfg c0 s) (hs : step cfg s (.doEnter a) = some s') : Inv cfg c0 s' := by
  simp only [step] at hs
  obtain ⟨h1, h2, h3, h4, h5⟩ := h
  split at hs <;> try (simp at hs)
  rename_i hpc
  have ha := h4 a
  simp only [Local, hpc] at ha
  split at hs <;> simp at hs <;> subst hs
  · rename_i l hl
    refine ⟨?_, h2, ?_, ?_, h5⟩
    · intro c hc
      have := h1 c
      grind [upd_apply, active]
    · intro k
      have := h3 k
      grind [upd_apply]
    · intro c
      by_cases hca : c = a
      · subst hca
        have := h2 _ _ hl
        simp only [Local, upd_same]
        simp [ha, this]
      · others s hca (h4 c)
  · rename_i hl
    refine ⟨?_, ?_, ?_, ?_, h5⟩
    · intro c hc
      have := h1 c
      grind [upd_apply, active]
    · intro k c hc
      have := h2 k c
      grind [upd_apply]
    · intro k
      have := h3 k
      have := h3 (cfg.key a)
      grind [upd_apply]
    · intro c
      by_cases hca : c = a
      · subst hca
        simp only [Local, upd_same]
        simp [ha]
      · others s hca (h4 c)

theorem inv_invoke {cfg : Cfg} {c0 : Nat → Cell} {s s' : State} {a : Nat}
    (h : Inv cfg c0 s) (hs : step cfg s (.invoke a) = some s') : Inv cfg c0 s' := by
  simp only [step] at hs
  obtain ⟨h1, h2, h3, h4, h5⟩ := h
  split at hs <;> try (simp at hs)
  rename_i hpc
  have ha := h4 a
  simp only [Local, hpc] at ha
  subst hs
  refine ⟨?_, h2, ?_, ?_, h5⟩
  · intro c hc
    have := h1 c
    grind [upd_apply, active]
  · intro k
    have := h3 k
    grind [upd_apply]
  · intro c
    by_cases hca : c = a
    · subst hca
      simp only [Local, upd_same]
      simp [ha]
    · others s hca (h4 c)

theorem inv_fnStart {cfg : Cfg} {c0 : Nat → Cell} {s s' : State} {a : Nat}
    (h : Inv cfg c0 s) (hs : step cfg s (.fnStart a) = some s') : Inv cfg c0 s' := by
  simp only [step] at hs
  obtain ⟨h1, h2, h3, h4, h5⟩ := h
  split at hs <;> try (simp at hs)
  rename_i hpc
  have ha := h4 a
  simp only [Local, hpc] at ha
  have hfa := h1 a (by simp [hpc, active])
  subst hs
  refine ⟨?_, h2, ?_, ?_, h5⟩
  · intro c hc
    have := h1 c
    grind [upd_apply, active]
  · intro k
    refine infl_leader_move h2 h3 hfa ?_ k
    have := h3 (cfg.key a)
    rw [hfa] at this
    simp [this, hpc]
  · intro c
    by_cases hca : c = a
    · subst hca
      simp only [Local, upd_same]
      simp [ha]
    · others s hca (h4 c)

theorem inv_fnEnd {cfg : Cfg} {c0 : Nat → Cell} {s s' : State} {a : Nat} {r : Res}
    (h : Inv cfg c0 s) (hs : step cfg s (.fnEnd a r) = some s') : Inv cfg c0 s' := by
  simp only [step] at hs
  obtain ⟨h1, h2, h3, h4, h5⟩ := h
  split at hs <;> try (simp at hs)
  rename_i hpc
  have ha := h4 a
  simp only [Local, hpc] at ha
  have hfa := h1 a (by simp [hpc, active])
  subst hs
  refine ⟨?_, h2, ?_, ?_, ?_⟩
  · intro c hc
    have := h1 c
    grind [upd_apply, active]
  · intro k
    refine infl_leader_move h2 h3 hfa ?_ k
    have := h3 (cfg.key a)
    rw [hfa] at this
    simp [this, hpc]
  · intro c
    by_cases hca : c = a
    · subst hca
      simp only [Local, upd_same]
      simp [ha]
    · others s hca (h4 c)
  · intro k v e hk
    rcases h5 k v e hk with h | ⟨l, hl1, hl2⟩
    · exact Or.inl h
    · refine Or.inr ⟨l, hl1, ?_⟩
      have : l ≠ a := by
        intro hla; subst hla; rw [ha.2.2.1] at hl2; cases hl2
      simp only [upd_apply, this, if_false]
      exact hl2

theorem inv_cacheSet {cfg : Cfg} {c0 : Nat → Cell} {s s' : State} {a : Nat}
    (h : Inv cfg c0 s) (hs : step cfg s (.cacheSet a) = some s') : Inv cfg c0 s' := by
  simp only [step] at hs
  obtain ⟨h1, h2, h3, h4, h5⟩ := h
  split at hs <;> try (simp at hs)
  · rename_i v hpc
    have ha := h4 a
    simp only [Local, hpc] at ha
    subst hs
    refine ⟨?_, h2, ?_, ?_, ?_⟩
    · intro c hc
      have := h1 c
      have := h1 a
      grind [upd_apply, active]
    · intro k
      have := h3 k
      grind [upd_apply]
    · intro c
      by_cases hca : c = a
      · subst hca
        simp only [Local, upd_same]
        simp [ha]
      · others s hca (h4 c)
    · intro k v' e hk
      simp only [upd_apply] at hk
      split at hk
      · rename_i hkk
        rcases cellSet_cases cfg.expTime s.now (s.cache (cfg.key a)) v with hc | hc
        · rw [hc, ← hkk] at hk; exact h5 k v' e hk
        · rw [hc] at hk
          simp only [Option.some.injEq, Prod.mk.injEq] at hk
          exact Or.inr ⟨a, hkk.symm, by rw [ha.2.2.1, hk.1]⟩
      · exact h5 k v' e hk
  · rename_i hpc
    have ha := h4 a
    simp only [Local, hpc] at ha
    subst hs
    refine ⟨?_, h2, ?_, ?_, h5⟩
    · intro c hc
      have := h1 c
      have := h1 a
      grind [upd_apply, active]
    · intro k
      have := h3 k
      grind [upd_apply]
    · intro c
      by_cases hca : c = a
      · subst hca
        simp only [Local, upd_same]
        simp [ha]
      · others s hca (h4 c)

theorem inv_doFinish {cfg : Cfg} {c0 : Nat → Cell} {s s' : State} {a : Nat}
    (h : Inv cfg c0 s) (hs : step cfg s (.doFinish a) = some s') : Inv cfg c0 s' := by
  simp only [step] at hs
  obtain ⟨h1, h2, h3, h4, h5⟩ := h
  split at hs <;> try (simp at hs)
  rename_i r hpc
  have ha := h4 a
  simp only [Local, hpc] at ha
  have hfa := h1 a (by simp [hpc, active])
  subst hs
  refine ⟨?_, ?_, ?_, ?_, h5⟩
  · intro c hc
    have := h1 c
    grind [upd_apply, active]
  · intro k c hc
    have := h2 k c
    grind [upd_apply]
  · intro k
    have := h3 k
    have := h3 (cfg.key a)
    have := h2 k a
    grind [upd_apply]
  · intro c
    by_cases hca : c = a
    · subst hca
      simp only [Local, upd_same]
      simp [ha]
    · exact local_congr (s := s) (upd_other _ _ _ _ hca) rfl rfl rfl
        (fun l => by
          by_cases hla : l = a
          · subst hla; exact Or.inl ha.2.2.2
          · exact Or.inr (upd_other _ _ _ _ hla))
        (upd_other _ _ _ _ hca) (h4 c)

theorem inv_wake {cfg : Cfg} {c0 : Nat → Cell} {s s' : State} {a : Nat}
    (h : Inv cfg c0 s) (hs : step cfg s (.wake a) = some s') : Inv cfg c0 s' := by
  simp only [step] at hs
  obtain ⟨h1, h2, h3, h4, h5⟩ := h
  split at hs <;> try (simp at hs)
  rename_i l hpc
  have ha := h4 a
  simp only [Local, hpc] at ha
  split at hs <;> simp at hs
  rename_i r hr
  subst hs
  refine ⟨?_, h2, ?_, ?_, h5⟩
  · intro c hc
    have := h1 c
    grind [upd_apply, active]
  · intro k
    have := h3 k
    grind [upd_apply]
  · intro c
    by_cases hca : c = a
    · subst hca
      simp only [Local, upd_same]
      exact Or.inr (Or.inr ⟨l, ha.1, ha.2.2.2.2, hr, ha.2.1, ha.2.2.1, ha.2.2.2.1⟩)
    · others s hca (h4 c)

theorem inv_tick {cfg : Cfg} {c0 : Nat → Cell} {s s' : State} {d : Nat}
    (h : Inv cfg c0 s) (hs : step cfg s (.tick d) = some s') : Inv cfg c0 s' := by
  simp only [step, Option.some.injEq] at hs
  subst hs
  exact ⟨h.lead, h.fkey, h.infl, h.loc, h.cach⟩

/-- every step preserves the invariant -/
theorem inv_step {cfg : Cfg} {c0 : Nat → Cell} {s s' : State} {l : Label}
    (h : Inv cfg c0 s) (hs : step cfg s l = some s') : Inv cfg c0 s' := by
  cases l with
  | invoke a => exact inv_invoke h hs
  | cacheCheck a => exact inv_cacheCheck h hs
  | doEnter a => exact inv_doEnter h hs
  | fnStart a => exact inv_fnStart h hs
  | fnEnd a r => exact inv_fnEnd h hs
  | cacheSet a => exact inv_cacheSet h hs
  | doFinish a => exact inv_doFinish h hs
  | wake a => exact inv_wake h hs
  | tick d => exact inv_tick h hs

/-- the invariant holds in every reachable state -/
theorem inv_reachable {cfg : Cfg} {c0 : Nat → Cell} {now : Int} {s : State}
    (h : Reachable cfg (init c0 now) s) : Inv cfg c0 s := by
  induction h with
  | refl => exact inv_init cfg c0 now
  | step l _ hs ih => exact inv_step ih hs

end GoguVerif.Lemmas.C17
