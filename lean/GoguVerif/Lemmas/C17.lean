import GoguVerif.Model.C17
/-!
# C17 — the invariant of the Memoize protocol LTS and its preservation (helper lemmas)
-/
namespace GoguVerif.Lemmas.C17
open GoguVerif.Model.C17

/-- the caller is the registered call of its key (between `doEnter` as leader and `doFinish`) -/
def active : PC → Bool
  | .leader | .running | .ran _ | .setDone _ => true
  | _ => false

/-- what is known about one caller, by where it is -/
def Local (cfg : Cfg) (s : State) (c : Nat) : Prop :=
  match s.pc c with
  | .idle | .start | .missed =>
    s.src c = none ∧ s.started c = false ∧ s.execRes c = none ∧ s.result c = none
  | .waiting l =>
    s.src c = some (.exec l) ∧ s.started c = false ∧ s.execRes c = none ∧ s.result c = none ∧
      cfg.key l = cfg.key c
  | .leader =>
    s.src c = some (.exec c) ∧ s.started c = false ∧ s.execRes c = none ∧ s.result c = none
  | .running =>
    s.src c = some (.exec c) ∧ s.started c = true ∧ s.execRes c = none ∧ s.result c = none
  | .ran r =>
    s.src c = some (.exec c) ∧ s.started c = true ∧ s.execRes c = some r ∧ s.result c = none
  | .setDone r =>
    -- after the caller's own execution …
    (s.src c = some (.exec c) ∧ s.started c = true ∧ s.execRes c = some r ∧ s.result c = none)
    -- … or after its re-check as leader found a live value: nothing ran
    ∨ (∃ v, r = .ok v ∧ s.src c = some (.lhit c v) ∧ s.started c = false ∧ s.execRes c = none ∧ s.result c = none)
  | .done r =>
    (∃ v, r = .ok v ∧ s.src c = some (.hit v) ∧ s.started c = false ∧ s.execRes c = none ∧ s.result c = none)
    ∨ (s.src c = some (.exec c) ∧ s.started c = true ∧ s.execRes c = some r ∧ s.result c = some r)
    ∨ (∃ l, s.src c = some (.exec l) ∧ cfg.key l = cfg.key c ∧ s.result l = some r ∧
          s.started c = false ∧ s.execRes c = none ∧ s.result c = none ∧ s.src l = some (.exec l))
    -- the leader whose re-check hit the cache …
    ∨ (∃ v, r = .ok v ∧ s.src c = some (.lhit c v) ∧ s.started c = false ∧ s.execRes c = none ∧
          s.result c = some r)
    -- … and the joiners of its flight
    ∨ (∃ l v, r = .ok v ∧ s.src c = some (.lhit l v) ∧ cfg.key l = cfg.key c ∧ s.result l = some r ∧
          s.started c = false ∧ s.execRes c = none ∧ s.result c = none ∧ s.src l = some (.lhit l v))

/-- the invariant of the protocol (`c0` = the cache before the first step) -/
structure Inv (cfg : Cfg) (c0 : Nat → Cell) (s : State) : Prop where
  lead : ∀ c, active (s.pc c) = true → s.flight (cfg.key c) = some c
  fkey : ∀ k c, s.flight k = some c → cfg.key c = k
  infl : ∀ k, s.inflight k = (match s.flight k with
            | some c => if s.pc c = .running then 1 else 0
            | none => 0)
  loc  : ∀ c, Local cfg s c
  cach : ∀ k v e, s.cache k = some (v, e) →
            c0 k = some (v, e) ∨ ∃ l, cfg.key l = k ∧ s.execRes l = some (.ok v)

theorem inv_init (cfg : Cfg) (c0 : Nat → Cell) (now : Int) : Inv cfg c0 (init c0 now) where
  lead := by intro c h; simp [init, active] at h
  fkey := by intro k c h; simp [init] at h
  infl := by intro k; simp [init]
  loc := by intro c; simp [Local, init]
  cach := by intro k v e h; exact Or.inl h

/-- `Local` only looks at the caller's own components and at the published results -/
theorem local_congr {cfg : Cfg} {s s' : State} {c : Nat}
    (hpc : s'.pc c = s.pc c) (hsrc : s'.src c = s.src c) (hst : s'.started c = s.started c)
    (hex : s'.execRes c = s.execRes c) (hres : ∀ l, s.result l = none ∨ s'.result l = s.result l)
    (hsl : ∀ l, s.result l = none ∨ s'.src l = s.src l)
    (hresc : s'.result c = s.result c)
    (h : Local cfg s c) : Local cfg s' c := by
  unfold Local at h ⊢
  rw [hpc, hsrc, hst, hex, hresc]
  cases hp : s.pc c with
  | done r =>
    simp only [hp] at h ⊢
    rcases h with h | h | ⟨l, h1, h2, h3, h4, h5, h6, h7⟩ | h | ⟨l, v, h0, h1, h2, h3, h4, h5, h6, h7⟩
    · exact Or.inl h
    · exact Or.inr (Or.inl h)
    · have e1 : s'.result l = some r := by
        rcases hres l with h8 | h8
        · rw [h8] at h3; cases h3
        · rw [h8]; exact h3
      have e2 : s'.src l = some (.exec l) := by
        rcases hsl l with h8 | h8
        · rw [h8] at h3; cases h3
        · rw [h8]; exact h7
      exact Or.inr (Or.inr (Or.inl ⟨l, h1, h2, e1, h4, h5, h6, e2⟩))
    · exact Or.inr (Or.inr (Or.inr (Or.inl h)))
    · have e1 : s'.result l = some r := by
        rcases hres l with h8 | h8
        · rw [h8] at h3; cases h3
        · rw [h8]; exact h3
      have e2 : s'.src l = some (.lhit l v) := by
        rcases hsl l with h8 | h8
        · rw [h8] at h3; cases h3
        · rw [h8]; exact h7
      exact Or.inr (Or.inr (Or.inr (Or.inr ⟨l, v, h0, h1, h2, e1, h4, h5, h6, e2⟩)))
  | idle => simp only [hp] at h ⊢; exact h
  | start => simp only [hp] at h ⊢; exact h
  | missed => simp only [hp] at h ⊢; exact h
  | waiting l => simp only [hp] at h ⊢; exact h
  | leader => simp only [hp] at h ⊢; exact h
  | running => simp only [hp] at h ⊢; exact h
  | ran r => simp only [hp] at h ⊢; exact h
  | setDone r => simp only [hp] at h ⊢; exact h

/-- the ghost source of a caller that has published nothing is the only one a step of that caller may change -/
theorem src_keep {s : State} {a : Nat} {x : Option Src} (hra : s.result a = none) (l : Nat) :
    s.result l = none ∨ upd s.src a x l = s.src l := by
  by_cases h : l = a
  · subst h; exact Or.inl hra
  · exact Or.inr (upd_other _ _ _ _ h)

/-- what a published result says about its leader: it has returned that result, which is the result of its
own execution or the value its re-check read from the cache (and then nothing ran) -/
theorem published_cases {cfg : Cfg} {s : State} {l : Nat} {r : Res} (hl : Local cfg s l)
    (hr : s.result l = some r) :
    s.pc l = .done r ∧
      ((s.src l = some (.exec l) ∧ s.started l = true ∧ s.execRes l = some r) ∨
       (∃ v, r = .ok v ∧ s.src l = some (.lhit l v) ∧ s.started l = false ∧ s.execRes l = none)) := by
  unfold Local at hl
  cases hp : s.pc l with
  | done r' =>
    simp only [hp] at hl
    rcases hl with ⟨v, _, _, _, _, h⟩ | ⟨h1, h2, h3, h4⟩ | ⟨l', _, _, _, _, _, h, _⟩ | ⟨v, h0, h1, h2, h3, h4⟩ |
      ⟨l', v, _, _, _, _, _, _, h, _⟩
    · rw [h] at hr; cases hr
    · rw [h4] at hr; cases hr; exact ⟨rfl, Or.inl ⟨h1, h2, h3⟩⟩
    · rw [h] at hr; cases hr
    · rw [h4] at hr; cases hr; exact ⟨rfl, Or.inr ⟨v, h0, h1, h2, h3⟩⟩
    · rw [h] at hr; cases hr
  | idle => simp only [hp] at hl; rw [hl.2.2.2] at hr; cases hr
  | start => simp only [hp] at hl; rw [hl.2.2.2] at hr; cases hr
  | missed => simp only [hp] at hl; rw [hl.2.2.2] at hr; cases hr
  | waiting x => simp only [hp] at hl; rw [hl.2.2.2.1] at hr; cases hr
  | leader => simp only [hp] at hl; rw [hl.2.2.2] at hr; cases hr
  | running => simp only [hp] at hl; rw [hl.2.2.2] at hr; cases hr
  | ran x => simp only [hp] at hl; rw [hl.2.2.2] at hr; cases hr
  | setDone x =>
    simp only [hp] at hl
    rcases hl with h | ⟨v, _, _, _, _, h⟩
    · rw [h.2.2.2] at hr; cases hr
    · rw [h] at hr; cases hr

theorem cellSet_cases (e now : Int) (c : Cell) (v : Int) :
    cellSet e now c v = c ∨ cellSet e now c v = some (v, defaultExp e now) := by
  unfold cellSet
  split
  · split
    · exact Or.inl rfl
    · exact Or.inr rfl
  · exact Or.inr rfl

theorem upd_apply {α : Type} (f : Nat → α) (a x : Nat) (b : α) : upd f a b x = if x = a then b else f x := rfl

/-- callers other than the one that moved keep their `Local` fact (no result published in this step) -/
macro "others " s:term:max hca:term:max hra:term:max h:term:max : tactic =>
  `(tactic| exact local_congr (s := $s) (by first | rfl | exact upd_other _ _ _ _ $hca)
      (by first | rfl | exact upd_other _ _ _ _ $hca) (by first | rfl | exact upd_other _ _ _ _ $hca)
      (by first | rfl | exact upd_other _ _ _ _ $hca) (fun _ => Or.inr rfl)
      (by first | exact fun _ => Or.inr rfl | exact src_keep $hra) rfl $h)


/-- the in-flight clause when the leader `a` of its key moves from `old` to `new` -/
theorem infl_leader_move {cfg : Cfg} {s : State} {a : Nat} {new : PC} {n : Nat}
    (h2 : ∀ k c, s.flight k = some c → cfg.key c = k)
    (h3 : ∀ k, s.inflight k = (match s.flight k with
            | some c => if s.pc c = .running then 1 else 0
            | none => 0))
    (hfa : s.flight (cfg.key a) = some a)
    (hn : n = if new = .running then 1 else 0) (k : Nat) :
    upd s.inflight (cfg.key a) n k = (match s.flight k with
            | some c => if upd s.pc a new c = .running then 1 else 0
            | none => 0) := by
  by_cases hk : k = cfg.key a
  · subst hk
    rw [upd_same, hfa]
    simp only [upd_same]
    exact hn
  · rw [upd_other _ _ _ _ hk, h3 k]
    cases hf : s.flight k with
    | none => rfl
    | some c =>
      have hca : c ≠ a := by
        intro hca; subst hca; exact hk (h2 k c hf).symm
      simp only [upd_other _ _ _ _ hca]

theorem inv_cacheCheck {cfg : Cfg} {c0 : Nat → Cell} {s s' : State} {a : Nat}
    (h : Inv cfg c0 s) (hs : step cfg s (.cacheCheck a) = some s') : Inv cfg c0 s' := by
  simp only [step] at hs
  obtain ⟨h1, h2, h3, h4, h5⟩ := h
  split at hs <;> try (simp at hs)
  rename_i hpc
  have ha := h4 a
  simp only [Local, hpc] at ha
  have hra : s.result a = none := ha.2.2.2
  split at hs <;> simp at hs <;> subst hs
  · refine ⟨?_, h2, ?_, ?_, h5⟩
    · intro c hc
      have := h1 c
      grind [upd_apply, active]
    · intro k
      have := h3 k
      grind [upd_apply]
    · intro c
      by_cases hca : c = a
      · subst hca
        simp only [Local, upd_same]
        simp [ha]
      · others s hca hra (h4 c)
  · refine ⟨?_, h2, ?_, ?_, h5⟩
    · intro c hc
      have := h1 c
      grind [upd_apply, active]
    · intro k
      have := h3 k
      grind [upd_apply]
    · intro c
      by_cases hca : c = a
      · subst hca
        simp only [Local, upd_same]
        simp [ha]
      · others s hca hra (h4 c)

theorem inv_doEnter {cfg : Cfg} {c0 : Nat → Cell} {s s' : State} {a : Nat}
    (h : Inv cfg c0 s) (hs : step cfg s (.doEnter a) = some s') : Inv cfg c0 s' := by
  simp only [step] at hs
  obtain ⟨h1, h2, h3, h4, h5⟩ := h
  split at hs <;> try (simp at hs)
  rename_i hpc
  have ha := h4 a
  simp only [Local, hpc] at ha
  have hra : s.result a = none := ha.2.2.2
  split at hs <;> simp at hs <;> subst hs
  · rename_i l hl
    refine ⟨?_, h2, ?_, ?_, h5⟩
    · intro c hc
      have := h1 c
      grind [upd_apply, active]
    · intro k
      have := h3 k
      grind [upd_apply]
    · intro c
      by_cases hca : c = a
      · subst hca
        have := h2 _ _ hl
        simp only [Local, upd_same]
        simp [ha, this]
      · others s hca hra (h4 c)
  · rename_i hl
    refine ⟨?_, ?_, ?_, ?_, h5⟩
    · intro c hc
      have := h1 c
      grind [upd_apply, active]
    · intro k c hc
      have := h2 k c
      grind [upd_apply]
    · intro k
      have := h3 k
      have := h3 (cfg.key a)
      grind [upd_apply]
    · intro c
      by_cases hca : c = a
      · subst hca
        simp only [Local, upd_same]
        simp [ha]
      · others s hca hra (h4 c)

theorem inv_invoke {cfg : Cfg} {c0 : Nat → Cell} {s s' : State} {a : Nat}
    (h : Inv cfg c0 s) (hs : step cfg s (.invoke a) = some s') : Inv cfg c0 s' := by
  simp only [step] at hs
  obtain ⟨h1, h2, h3, h4, h5⟩ := h
  split at hs <;> try (simp at hs)
  rename_i hpc
  have ha := h4 a
  simp only [Local, hpc] at ha
  have hra : s.result a = none := ha.2.2.2
  subst hs
  refine ⟨?_, h2, ?_, ?_, h5⟩
  · intro c hc
    have := h1 c
    grind [upd_apply, active]
  · intro k
    have := h3 k
    grind [upd_apply]
  · intro c
    by_cases hca : c = a
    · subst hca
      simp only [Local, upd_same]
      simp [ha]
    · others s hca hra (h4 c)

/-- the leader's re-check finds a live value: nothing about executions or the cache changes -/
theorem inv_leadHit {cfg : Cfg} {c0 : Nat → Cell} {s s' : State} {a : Nat}
    (h : Inv cfg c0 s) (hs : step cfg s (.leadHit a) = some s') : Inv cfg c0 s' := by
  simp only [step] at hs
  obtain ⟨h1, h2, h3, h4, h5⟩ := h
  split at hs <;> try (simp at hs)
  rename_i hpc
  have ha := h4 a
  simp only [Local, hpc] at ha
  have hra : s.result a = none := ha.2.2.2
  split at hs <;> simp at hs
  rename_i v hv
  subst hs
  refine ⟨?_, h2, ?_, ?_, h5⟩
  · intro c hc
    have := h1 c
    have := h1 a
    grind [upd_apply, active]
  · intro k
    have := h3 k
    grind [upd_apply]
  · intro c
    by_cases hca : c = a
    · subst hca
      simp only [Local, upd_same]
      exact Or.inr ⟨v, rfl, rfl, ha.2.1, ha.2.2.1, ha.2.2.2⟩
    · others s hca hra (h4 c)

theorem inv_fnStart {cfg : Cfg} {c0 : Nat → Cell} {s s' : State} {a : Nat}
    (h : Inv cfg c0 s) (hs : step cfg s (.fnStart a) = some s') : Inv cfg c0 s' := by
  simp only [step] at hs
  obtain ⟨h1, h2, h3, h4, h5⟩ := h
  split at hs <;> try (simp at hs)
  rename_i hpc
  have ha := h4 a
  simp only [Local, hpc] at ha
  have hra : s.result a = none := ha.2.2.2
  have hfa := h1 a (by simp [hpc, active])
  split at hs <;> simp at hs
  subst hs
  refine ⟨?_, h2, ?_, ?_, h5⟩
  · intro c hc
    have := h1 c
    grind [upd_apply, active]
  · intro k
    refine infl_leader_move h2 h3 hfa ?_ k
    have := h3 (cfg.key a)
    rw [hfa] at this
    simp [this, hpc]
  · intro c
    by_cases hca : c = a
    · subst hca
      simp only [Local, upd_same]
      simp [ha]
    · others s hca hra (h4 c)

theorem inv_fnEnd {cfg : Cfg} {c0 : Nat → Cell} {s s' : State} {a : Nat} {r : Res}
    (h : Inv cfg c0 s) (hs : step cfg s (.fnEnd a r) = some s') : Inv cfg c0 s' := by
  simp only [step] at hs
  obtain ⟨h1, h2, h3, h4, h5⟩ := h
  split at hs <;> try (simp at hs)
  rename_i hpc
  have ha := h4 a
  simp only [Local, hpc] at ha
  have hra : s.result a = none := ha.2.2.2
  have hfa := h1 a (by simp [hpc, active])
  subst hs
  refine ⟨?_, h2, ?_, ?_, ?_⟩
  · intro c hc
    have := h1 c
    grind [upd_apply, active]
  · intro k
    refine infl_leader_move h2 h3 hfa ?_ k
    have := h3 (cfg.key a)
    rw [hfa] at this
    simp [this, hpc]
  · intro c
    by_cases hca : c = a
    · subst hca
      simp only [Local, upd_same]
      simp [ha]
    · others s hca hra (h4 c)
  · intro k v e hk
    rcases h5 k v e hk with h | ⟨l, hl1, hl2⟩
    · exact Or.inl h
    · refine Or.inr ⟨l, hl1, ?_⟩
      have : l ≠ a := by
        intro hla; subst hla; rw [ha.2.2.1] at hl2; cases hl2
      simp only [upd_apply, this, if_false]
      exact hl2

theorem inv_cacheSet {cfg : Cfg} {c0 : Nat → Cell} {s s' : State} {a : Nat}
    (h : Inv cfg c0 s) (hs : step cfg s (.cacheSet a) = some s') : Inv cfg c0 s' := by
  simp only [step] at hs
  obtain ⟨h1, h2, h3, h4, h5⟩ := h
  split at hs <;> try (simp at hs)
  · rename_i v hpc
    have ha := h4 a
    simp only [Local, hpc] at ha
    have hra : s.result a = none := ha.2.2.2
    subst hs
    refine ⟨?_, h2, ?_, ?_, ?_⟩
    · intro c hc
      have := h1 c
      have := h1 a
      grind [upd_apply, active]
    · intro k
      have := h3 k
      grind [upd_apply]
    · intro c
      by_cases hca : c = a
      · subst hca
        simp only [Local, upd_same]
        exact Or.inl ha
      · others s hca hra (h4 c)
    · intro k v' e hk
      simp only [upd_apply] at hk
      split at hk
      · rename_i hkk
        rcases cellSet_cases cfg.expTime s.now (s.cache (cfg.key a)) v with hc | hc
        · rw [hc, ← hkk] at hk; exact h5 k v' e hk
        · rw [hc] at hk
          simp only [Option.some.injEq, Prod.mk.injEq] at hk
          exact Or.inr ⟨a, hkk.symm, by rw [ha.2.2.1, hk.1]⟩
      · exact h5 k v' e hk
  · rename_i hpc
    have ha := h4 a
    simp only [Local, hpc] at ha
    have hra : s.result a = none := ha.2.2.2
    subst hs
    refine ⟨?_, h2, ?_, ?_, h5⟩
    · intro c hc
      have := h1 c
      have := h1 a
      grind [upd_apply, active]
    · intro k
      have := h3 k
      grind [upd_apply]
    · intro c
      by_cases hca : c = a
      · subst hca
        simp only [Local, upd_same]
        exact Or.inl ha
      · others s hca hra (h4 c)

theorem inv_doFinish {cfg : Cfg} {c0 : Nat → Cell} {s s' : State} {a : Nat}
    (h : Inv cfg c0 s) (hs : step cfg s (.doFinish a) = some s') : Inv cfg c0 s' := by
  simp only [step] at hs
  obtain ⟨h1, h2, h3, h4, h5⟩ := h
  split at hs <;> try (simp at hs)
  rename_i r hpc
  have ha := h4 a
  simp only [Local, hpc] at ha
  have hra : s.result a = none := by
    rcases ha with ha | ⟨v, _, _, _, _, ha⟩
    · exact ha.2.2.2
    · exact ha
  have hfa := h1 a (by simp [hpc, active])
  subst hs
  refine ⟨?_, ?_, ?_, ?_, h5⟩
  · intro c hc
    have := h1 c
    grind [upd_apply, active]
  · intro k c hc
    have := h2 k c
    grind [upd_apply]
  · intro k
    have := h3 k
    have := h3 (cfg.key a)
    have := h2 k a
    grind [upd_apply]
  · intro c
    by_cases hca : c = a
    · subst hca
      simp only [Local, upd_same]
      rcases ha with ha | ⟨v, k0, k1, k2, k3, _⟩
      · exact Or.inr (Or.inl ⟨ha.1, ha.2.1, ha.2.2.1, trivial⟩)
      · exact Or.inr (Or.inr (Or.inr (Or.inl ⟨v, k0, k1, k2, k3, trivial⟩)))
    · exact local_congr (s := s) (upd_other _ _ _ _ hca) rfl rfl rfl
        (fun l => by
          by_cases hla : l = a
          · subst hla; exact Or.inl hra
          · exact Or.inr (upd_other _ _ _ _ hla))
        (fun _ => Or.inr rfl)
        (upd_other _ _ _ _ hca) (h4 c)

theorem inv_wake {cfg : Cfg} {c0 : Nat → Cell} {s s' : State} {a : Nat}
    (h : Inv cfg c0 s) (hs : step cfg s (.wake a) = some s') : Inv cfg c0 s' := by
  simp only [step] at hs
  obtain ⟨h1, h2, h3, h4, h5⟩ := h
  split at hs <;> try (simp at hs)
  rename_i l hpc
  have ha := h4 a
  simp only [Local, hpc] at ha
  have hra : s.result a = none := ha.2.2.2.1
  split at hs <;> simp at hs
  rename_i r hr
  subst hs
  refine ⟨?_, h2, ?_, ?_, h5⟩
  · intro c hc
    have := h1 c
    grind [upd_apply, active]
  · intro k
    have := h3 k
    grind [upd_apply]
  · intro c
    by_cases hca : c = a
    · subst hca
      have hlc : l ≠ c := by intro h; subst h; rw [hra] at hr; cases hr
      simp only [Local, upd_same]
      rcases (published_cases (h4 l) hr).2 with ⟨k1, _, _⟩ | ⟨v, k0, k1, _, _⟩
      · have e1 : wakeSrc s c l = some (.exec l) := by simp only [wakeSrc, k1]; exact ha.1
        rw [e1]
        exact Or.inr (Or.inr (Or.inl ⟨l, rfl, ha.2.2.2.2, hr, ha.2.1, ha.2.2.1, ha.2.2.2.1,
          (upd_other _ _ _ _ hlc).trans k1⟩))
      · have e1 : wakeSrc s c l = some (.lhit l v) := by simp only [wakeSrc, k1]
        rw [e1]
        exact Or.inr (Or.inr (Or.inr (Or.inr ⟨l, v, k0, rfl, ha.2.2.2.2, hr, ha.2.1, ha.2.2.1, ha.2.2.2.1,
          (upd_other _ _ _ _ hlc).trans k1⟩)))
    · others s hca hra (h4 c)

theorem inv_tick {cfg : Cfg} {c0 : Nat → Cell} {s s' : State} {d : Nat}
    (h : Inv cfg c0 s) (hs : step cfg s (.tick d) = some s') : Inv cfg c0 s' := by
  simp only [step, Option.some.injEq] at hs
  subst hs
  exact ⟨h.lead, h.fkey, h.infl, h.loc, h.cach⟩

/-- every step preserves the invariant -/
theorem inv_step {cfg : Cfg} {c0 : Nat → Cell} {s s' : State} {l : Label}
    (h : Inv cfg c0 s) (hs : step cfg s l = some s') : Inv cfg c0 s' := by
  cases l with
  | invoke a => exact inv_invoke h hs
  | cacheCheck a => exact inv_cacheCheck h hs
  | doEnter a => exact inv_doEnter h hs
  | leadHit a => exact inv_leadHit h hs
  | fnStart a => exact inv_fnStart h hs
  | fnEnd a r => exact inv_fnEnd h hs
  | cacheSet a => exact inv_cacheSet h hs
  | doFinish a => exact inv_doFinish h hs
  | wake a => exact inv_wake h hs
  | tick d => exact inv_tick h hs

/-- the invariant holds in every reachable state -/
theorem inv_reachable {cfg : Cfg} {c0 : Nat → Cell} {now : Int} {s : State}
    (h : Reachable cfg (init c0 now) s) : Inv cfg c0 s := by
  induction h with
  | refl => exact inv_init cfg c0 now
  | step l _ hs ih => exact inv_step ih hs

end GoguVerif.Lemmas.C17
