import GoguVerif.Lemmas.C03.Sift
import GoguVerif.Lemmas.C03.Up
/-!
# C03 helper lemmas, part 4: the heap methods `Push`, `Peek`, `Pop`, `Clear`, `Delete`, `Merge`, `Meld`
-/
namespace GoguVerif.Lemmas.C03
open GoguVerif.Model.Heap GoguVerif.Spec.C03

variable {α : Type}

/-- The representation invariant: the comparator is a strict weak order and `data` is in heap order. -/
def Inv (h : Heap α) : Prop := SWO h.comp ∧ IsHeap h.comp h.data h.data.size

theorem IsHeap.congr {comp : Comp α} {d d2 : Array α} {n : Nat} (hd : ∀ m, m < n → d2[m]? = d[m]?)
    (h : IsHeap comp d n) : IsHeap comp d2 n := by
  intro i h0 hn x y hx hy
  rw [hd i hn] at hx; rw [hd _ (by omega)] at hy
  exact h i h0 hn x y hx hy

theorem IsHeap.mono {comp : Comp α} {d : Array α} {n m : Nat} (hm : m ≤ n)
    (h : IsHeap comp d n) : IsHeap comp d m :=
  fun i h0 hi => h i h0 (by omega)

/-- In a heap nothing precedes the root. -/
theorem root_extremal {comp : Comp α} (hc : SWO comp) {d : Array α} {n : Nat} (hn : n ≤ d.size)
    (h : IsHeap comp d n) : ∀ m, m < n → Ok comp d m 0 := by
  intro m
  induction m using Nat.strongRecOn with
  | _ m ih =>
    intro hm
    rcases Nat.eq_zero_or_pos m with e | e
    · subst e; exact Ok.self hc d 0
    · intro x z hx hz
      have hp : (m - 1) / 2 < d.size := by omega
      have h1 := h m e hm x d[(m - 1) / 2] hx (Array.getElem?_eq_getElem hp)
      have h2 := ih ((m - 1) / 2) (by omega) (by omega) d[(m - 1) / 2] z (Array.getElem?_eq_getElem hp) hz
      exact hc.negTrans _ _ _ h1 h2

theorem extremal_root {comp : Comp α} (hc : SWO comp) {d : Array α} (h : IsHeap comp d d.size)
    {x : α} (hx : d[0]? = some x) : Extremal comp d.toList x := by
  constructor
  · rw [Array.mem_toList_iff, Array.mem_iff_getElem?]; exact ⟨0, hx⟩
  · intro y hy
    rw [Array.mem_toList_iff, Array.mem_iff_getElem?] at hy
    obtain ⟨m, hm⟩ := hy
    have hlt : m < d.size := by
      rcases Nat.lt_or_ge m d.size with h | h
      · exact h
      · rw [Array.getElem?_eq_none h] at hm; cases hm
    exact root_extremal hc (Nat.le_refl _) h m hlt y x hm hx

/-! ## removing the last slot -/

theorem pop_perm {e : Array α} {v : α} (hv : e[e.size - 1]? = some v) :
    (v :: e.pop.toList).Perm e.toList := by
  have hsz : 0 < e.size := by
    rcases Nat.eq_zero_or_pos e.size with h | h
    · rw [Array.getElem?_eq_none (by omega)] at hv; cases hv
    · exact h
  have : e = e.pop.push v := by
    apply Array.ext_getElem?
    intro i
    rw [Array.getElem?_push, Array.getElem?_pop, Array.size_pop]
    by_cases h1 : i = e.size - 1
    · subst h1; simp [hv]
    · by_cases h2 : i < e.size - 1
      · simp [h1, h2]
      · have h3 : e[i]? = none := Array.getElem?_eq_none (by omega)
        simp [h1, h2, h3]
  have h2 : e.toList = e.pop.toList ++ [v] := by
    conv => lhs; rw [this]
    exact Array.toList_push
  rw [h2]
  exact (List.perm_append_comm (l₁ := e.pop.toList) (l₂ := [v])).symm

/-- `swap(data, idx, len-1); data = data[:len-1]` removes one occurrence of `data[idx]`. -/
theorem removeAt_spec {d d1 d2 : Array α} {idx : Nat} {v : α}
    (hs : swap d idx (d.size - 1) = some d1) (hv : d[idx]? = some v) (hd : dropLast? d1 = some d2) :
    (v :: d2.toList).Perm d.toList ∧ d2.size = d.size - 1 ∧
    ∀ m, m < d.size - 1 → d2[m]? = if m = idx then d[d.size - 1]? else d[m]? := by
  have hg := fun m => getElem?_swap' hs m
  have hsz := swap_size hs
  unfold dropLast? at hd
  split at hd
  · cases hd
  · simp at hd; subst hd
    have hlast : d1[d1.size - 1]? = some v := by
      rw [hg, hsz]
      by_cases e : d.size - 1 = idx
      · subst e; simp [hv]
      · simp [e, hv]
    refine ⟨(pop_perm hlast).trans (Array.perm_iff_toList_perm.mp (swap_perm hs)), by simp [hsz], ?_⟩
    intro m hm
    rw [Array.getElem?_pop, hsz, hg]
    have : m ≠ d.size - 1 := by omega
    simp [hm, this]

/-! ## Push -/

theorem push_spec (h : Heap α) (hi : Inv h) (v : α) :
    ∃ h', push h v = .ok h' ∧ h'.comp = h.comp ∧ Inv h' ∧ h'.data.toList.Perm (v :: h.data.toList) := by
  obtain ⟨hc, hh⟩ := hi
  have hsz : (h.data.push v).size = h.data.size + 1 := by simp
  obtain ⟨d', hd'⟩ := moveUpF_total hc.irrefl (h.data.size + 1) (h.data.push v) h.data.size
    (by omega) (by omega)
  have hex : UpExcept h.comp (h.data.push v) (h.data.size + 1) h.data.size := by
    constructor
    · intro c hc0 hcn hne x y hx hy
      rw [Array.getElem?_push] at hx hy
      have h1 : ¬ c = h.data.size := hne
      have h2 : ¬ (c - 1) / 2 = h.data.size := by omega
      simp [h1, h2] at hx hy
      exact hh c hc0 (by omega) x y hx hy
    · intro h0 g hg0 hgn hpg
      omega
  have hheap := moveUpF_heap hc (h.data.size + 1) (h.data.push v) h.data.size d' (by omega) (by omega) hex hd'
  obtain ⟨hs1, hp1⟩ := moveUpF_frame _ _ _ _ hd'
  refine ⟨{ h with data := d' }, ?_, rfl, ⟨hc, ?_⟩, ?_⟩
  · simp only [push, moveUp, hsz, Nat.add_sub_cancel, hd']
  · show IsHeap h.comp d' d'.size
    rw [hs1, hsz]; exact hheap
  · show d'.toList.Perm (v :: h.data.toList)
    refine (Array.perm_iff_toList_perm.mp hp1).trans ?_
    rw [Array.toList_push]
    exact List.perm_append_comm

theorem pushAll_spec (h : Heap α) (hi : Inv h) (vs : List α) :
    ∃ h', pushAll h vs = .ok h' ∧ h'.comp = h.comp ∧ Inv h' ∧ h'.data.toList.Perm (vs ++ h.data.toList) := by
  induction vs generalizing h with
  | nil => exact ⟨h, rfl, rfl, hi, List.Perm.refl _⟩
  | cons v vs ih =>
    obtain ⟨h1, e1, c1, i1, p1⟩ := push_spec h hi v
    obtain ⟨h2, e2, c2, i2, p2⟩ := ih h1 i1
    refine ⟨h2, by simp only [pushAll, e1, e2], c2.trans c1, i2, ?_⟩
    refine p2.trans ?_
    refine (List.Perm.append_left vs p1).trans ?_
    simp only [List.cons_append]
    exact List.perm_middle

theorem inv_new {comp : Comp α} (hc : SWO comp) : Inv (new comp) :=
  ⟨hc, fun i h0 hn => by simp [new] at hn⟩

/-! ## Peek / Pop -/

theorem peek_spec [Inhabited α] (h : Heap α) (hi : Inv h) :
    ∃ x, peek h = .ok x ∧
      ((h.data.toList = [] ∧ x = default) ∨ Extremal h.comp h.data.toList x) := by
  unfold peek
  split
  · rename_i h0
    exact ⟨default, rfl, Or.inl ⟨by simpa using h0, rfl⟩⟩
  · rename_i h0
    have hlt : 0 < h.data.size := by omega
    simp only [Array.getElem?_eq_getElem hlt]
    exact ⟨_, rfl, Or.inr (extremal_root hi.1 hi.2 (Array.getElem?_eq_getElem hlt))⟩

/-- `h.data[0] = h.data[size-1]; h.data = h.data[:size-1]` is `swap(0, size-1)` + truncation. -/
theorem set_as_swap {d d1 d2 : Array α} {last : α} (hl : d[d.size - 1]? = some last)
    (h1 : set? d 0 last = some d1) (h2 : dropLast? d1 = some d2) :
    ∃ ds, swap d 0 (d.size - 1) = some ds ∧ dropLast? ds = some d2 := by
  unfold set? at h1
  split at h1
  · rename_i h0
    simp at h1; subst h1
    obtain ⟨ds, hs⟩ := swap_isSome (d := d) (i := 0) (j := d.size - 1) h0 (by omega)
    refine ⟨ds, hs, ?_⟩
    have hg := fun m => getElem?_swap' hs m
    have hsz := swap_size hs
    unfold dropLast? at h2 ⊢
    simp at h2
    have : ¬ ds.size = 0 := by omega
    simp only [this, if_false]
    rw [← h2.2]
    congr 1
    apply Array.ext_getElem?
    intro i
    rw [Array.getElem?_pop, Array.getElem?_pop, hg, Array.getElem?_set, hsz]
    simp only [Array.size_set]
    by_cases hi : i < d.size - 1
    · by_cases hi0 : i = 0
      · subst hi0; simp [hi, hl]
      · have h3 : ¬ 0 = i := fun e => hi0 e.symm
        have h4 : ¬ i = d.size - 1 := by omega
        simp [hi, hi0, h3, h4]
    · simp [hi]
  · cases h1

theorem pop_spec [Inhabited α] [DecidableEq α] (h : Heap α) (hi : Inv h) :
    ∃ h' x, pop h = .ok (h', x) ∧ h'.comp = h.comp ∧ Inv h' ∧
      ((h.data.toList = [] ∧ x = default ∧ h'.data.toList = []) ∨
       (Extremal h.comp h.data.toList x ∧ h'.data.toList.Perm (h.data.toList.erase x))) := by
  obtain ⟨hc, hh⟩ := hi
  unfold pop
  split
  · rename_i h0
    have : h.data.toList = [] := by simpa using h0
    exact ⟨h, default, rfl, rfl, ⟨hc, hh⟩, Or.inl ⟨this, rfl, this⟩⟩
  · rename_i h0
    have hlt : 0 < h.data.size := by omega
    have hl : h.data.size - 1 < h.data.size := by omega
    simp only [Array.getElem?_eq_getElem hlt, Array.getElem?_eq_getElem hl]
    have hs1 : ∃ d1, set? h.data 0 h.data[h.data.size - 1] = some d1 := by
      unfold set?; simp [hlt]
    obtain ⟨d1, hd1⟩ := hs1
    have hs2 : ∃ d2, dropLast? d1 = some d2 := by
      have hsz1 : d1.size = h.data.size := by
        unfold set? at hd1; simp [hlt] at hd1; subst hd1; simp
      unfold dropLast?
      rw [if_neg (by omega)]
      exact ⟨_, rfl⟩
    obtain ⟨d2, hd2⟩ := hs2
    obtain ⟨ds, hsw, hdl⟩ := set_as_swap (Array.getElem?_eq_getElem hl) hd1 hd2
    obtain ⟨hperm, hsz, hget⟩ := removeAt_spec hsw (Array.getElem?_eq_getElem hlt) hdl
    obtain ⟨d3, hd3⟩ := moveDown_total h.comp (n := d2.size) d2 0 (Nat.le_refl _)
    simp only [hd1, hd2, hd3]
    have hex : HeapExcept h.comp d2 d2.size 0 0 := by
      refine ⟨?_, fun hk => absurd hk (Nat.lt_irrefl 0)⟩
      intro i hi0 hin _ hpi x y hx hy
      rw [hsz] at hin
      rw [hget i hin] at hx
      rw [hget _ (by omega)] at hy
      have : ¬ i = 0 := by omega
      simp [this, hpi] at hx hy
      exact hh i hi0 (by omega) x y hx hy
    have hheap := moveDown_heap hc (Nat.le_refl _) hex (Nat.le_refl _) hd3
    obtain ⟨hs3, hp3, _, _⟩ := moveDown_frame hd3
    refine ⟨{ h with data := d3 }, _, rfl, rfl, ⟨hc, ?_⟩, Or.inr ⟨?_, ?_⟩⟩
    · show IsHeap h.comp d3 d3.size
      rw [hs3]; exact isHeap_iff_heapFrom.mpr hheap
    · exact extremal_root hc hh (Array.getElem?_eq_getElem hlt)
    · show d3.toList.Perm _
      refine (Array.perm_iff_toList_perm.mp hp3).trans ?_
      have := List.Perm.erase h.data[0] hperm
      simpa using this

/-! ## Clear -/

theorem clear_spec (h : Heap α) (hi : Inv h) :
    (clear h).comp = h.comp ∧ Inv (clear h) ∧ (clear h).data.toList = [] := by
  unfold clear
  split
  · rename_i h0
    exact ⟨rfl, hi, by simpa using h0⟩
  · exact ⟨rfl, ⟨hi.1, fun i h0 hn => by simp at hn⟩, rfl⟩

/-! ## Delete -/

theorem getIndexL_spec [DecidableEq α] (val : α) (l : List α) (k : Nat) :
    (getIndexL val l k = none ∧ val ∉ l) ∨
    (∃ idx, getIndexL val l k = some idx ∧ k ≤ idx ∧ l[idx - k]? = some val) := by
  induction l generalizing k with
  | nil => left; simp [getIndexL]
  | cons x r ih =>
    unfold getIndexL
    by_cases hx : x = val
    · right; exact ⟨k, by simp [hx], Nat.le_refl _, by simp [hx]⟩
    · rcases ih (k + 1) with ⟨h1, h2⟩ | ⟨idx, h1, h2, h3⟩
      · left; simp [hx, h1, h2]; exact fun e => hx e.symm
      · right
        refine ⟨idx, by simp [hx, h1], by omega, ?_⟩
        have : idx - k = (idx - (k + 1)) + 1 := by omega
        rw [this]; simpa using h3

theorem getIndex_spec [DecidableEq α] (d : Array α) (val : α) :
    (getIndex d val = none ∧ val ∉ d.toList) ∨
    (∃ idx, getIndex d val = some idx ∧ d[idx]? = some val) := by
  unfold getIndex
  rcases getIndexL_spec val d.toList 0 with h | ⟨idx, h1, _, h3⟩
  · exact Or.inl h
  · exact Or.inr ⟨idx, h1, by simpa using h3⟩

/-- **`Delete`: conservation, in full** (no invariant needed): it never panics, removes exactly one
occurrence of a held value and reports absence otherwise, leaving the heap alone. -/
theorem delete_spec [DecidableEq α] (h : Heap α) (v : α) :
    ∃ h' b, delete h v = .ok (h', b) ∧ h'.comp = h.comp ∧
      ((b = true ∧ v ∈ h.data.toList ∧ h'.data.toList.Perm (h.data.toList.erase v)) ∨
       (b = false ∧ v ∉ h.data.toList ∧ h' = h)) := by
  unfold delete
  simp only
  split
  · rename_i h0
    have : h.data.toList = [] := by simpa using h0
    exact ⟨h, false, rfl, rfl, Or.inr ⟨rfl, by simp [this], rfl⟩⟩
  · rename_i h0
    rcases getIndex_spec h.data v with ⟨e, hn⟩ | ⟨idx, e, hv⟩
    · simp only [e]
      exact ⟨h, false, rfl, rfl, Or.inr ⟨rfl, hn, rfl⟩⟩
    · simp only [e]
      have hidx : idx < h.data.size := by
        rcases Nat.lt_or_ge idx h.data.size with h | h
        · exact h
        · rw [Array.getElem?_eq_none h] at hv; cases hv
      obtain ⟨d1, hs⟩ := swap_isSome (d := h.data) (i := idx) (j := h.data.size - 1) hidx (by omega)
      have hd : ∃ d2, dropLast? d1 = some d2 := by
        unfold dropLast?; have := swap_size hs
        rw [if_neg (by omega)]
        exact ⟨_, rfl⟩
      obtain ⟨d2, hd2⟩ := hd
      obtain ⟨hperm, hsz, _⟩ := removeAt_spec hs hv hd2
      obtain ⟨d3, hd3⟩ := moveDown_total h.comp (n := h.data.size - 1) d2 0 (by omega)
      obtain ⟨_, hp3, _, _⟩ := moveDown_frame hd3
      simp only [hs, hd2, hd3]
      refine ⟨{ h with data := d3 }, true, rfl, rfl, Or.inl ⟨rfl, ?_, ?_⟩⟩
      · rw [Array.mem_toList_iff, Array.mem_iff_getElem?]; exact ⟨idx, hv⟩
      · show d3.toList.Perm _
        refine (Array.perm_iff_toList_perm.mp hp3).trans ?_
        have := List.Perm.erase v hperm
        simpa using this

/-- **`Delete` keeps heap order when the victim sits at the root or in the last slot** (or is
absent) — the exact side condition of the known finding `heap.delete-no-resift`. -/
theorem delete_inv_partial [DecidableEq α] (h : Heap α) (hi : Inv h) (v : α)
    (hsafe : ∀ idx, getIndex h.data v = some idx → idx = 0 ∨ idx = h.data.size - 1)
    {h' : Heap α} {b : Bool} (hd : delete h v = .ok (h', b)) : Inv h' := by
  obtain ⟨hc, hh⟩ := hi
  unfold delete at hd
  simp only at hd
  split at hd
  · cases hd; exact ⟨hc, hh⟩
  · rename_i h0
    split at hd
    · cases hd; exact ⟨hc, hh⟩
    · rename_i idx e
      rcases getIndex_spec h.data v with ⟨e', _⟩ | ⟨idx', e', hv⟩
      · rw [e] at e'; cases e'
      · rw [e] at e'; cases e'
        split at hd
        · cases hd
        · rename_i d1 hs
          split at hd
          · cases hd
          · rename_i d2 hd2
            split at hd
            · rename_i d3 hd3
              cases hd
              obtain ⟨_, hsz, hget⟩ := removeAt_spec hs hv hd2
              have hex : HeapExcept h.comp d2 (h.data.size - 1) 0 0 := by
                rcases hsafe idx e with e0 | el
                · subst e0
                  refine ⟨?_, fun hk => absurd hk (Nat.lt_irrefl 0)⟩
                  intro i hi0 hin _ hpi x y hx hy
                  rw [hget i hin] at hx
                  rw [hget _ (by omega)] at hy
                  have : ¬ i = 0 := by omega
                  simp [this, hpi] at hx hy
                  exact hh i hi0 (by omega) x y hx hy
                · refine IsHeap.toExcept (IsHeap.congr (d := h.data) ?_ (IsHeap.mono (by omega) hh))
                  intro m hm
                  rw [hget m hm]
                  have : ¬ m = idx := by omega
                  simp [this]
              have hheap := moveDown_heap hc (by omega) hex (Nat.le_refl _) hd3
              obtain ⟨hs3, _, _, _⟩ := moveDown_frame hd3
              refine ⟨hc, ?_⟩
              show IsHeap h.comp d3 d3.size
              rw [hs3, hsz]; exact isHeap_iff_heapFrom.mpr hheap
            · cases hd
            · cases hd

/-! ## Merge / Meld -/

theorem merge_spec (h h2 : Heap α) (hi : Inv h) :
    ∃ nh, merge h h2 = .ok nh ∧ nh.comp = h.comp ∧ Inv nh ∧
      nh.data.toList.Perm (h.data.toList ++ h2.data.toList) := by
  obtain ⟨n1, e1, c1, i1, p1⟩ := pushAll_spec (new h.comp) (inv_new hi.1) h.data.toList
  obtain ⟨n2, e2, c2, i2, p2⟩ := pushAll_spec n1 i1 h2.data.toList
  refine ⟨n2, by simp only [merge, e1, e2], by rw [c2, c1]; rfl, i2, ?_⟩
  refine p2.trans ?_
  have : n1.data.toList.Perm h.data.toList := by simpa [new] using p1
  exact (List.Perm.append_left _ this).trans List.perm_append_comm

theorem meld_spec (h h2 : Heap α) (hi : Inv h) :
    ∃ h' h2' nh, meld h h2 = .ok (h', h2', nh) ∧ nh.comp = h.comp ∧ Inv nh ∧
      nh.data.toList.Perm (h.data.toList ++ h2.data.toList) ∧
      h'.data = #[] ∧ h2'.data = #[] := by
  obtain ⟨n1, e1, c1, i1, p1⟩ := pushAll_spec (new h.comp) (inv_new hi.1) h.data.toList
  obtain ⟨n2, e2, c2, i2, p2⟩ := pushAll_spec n1 i1 h2.data.toList
  refine ⟨{ h with data := #[] }, { h2 with data := #[] }, n2, by simp only [meld, e1, e2],
    by rw [c2, c1]; rfl, i2, ?_, rfl, rfl⟩
  refine p2.trans ?_
  have : n1.data.toList.Perm h.data.toList := by simpa [new] using p1
  exact (List.Perm.append_left _ this).trans List.perm_append_comm

/-- **What `Delete` does to heap order when the victim sits at an inner slot** (neither root nor
last): the last element is moved into the victim's slot and nothing else happens, so heap order
survives iff that element fits there — it does not precede the slot's parent and no child of the
slot precedes it. -/
theorem delete_heap_iff [DecidableEq α] (h : Heap α) (hi : Inv h) (v : α) {idx : Nat}
    (hidx : getIndex h.data v = some idx) (hmid : 0 < idx ∧ idx < h.data.size - 1)
    {h' : Heap α} {b : Bool} (hd : delete h v = .ok (h', b)) :
    Inv h' ↔
      Ok h.comp h.data (h.data.size - 1) ((idx - 1) / 2) ∧
      (∀ c, (c - 1) / 2 = idx → 0 < c → c < h.data.size - 1 → Ok h.comp h.data c (h.data.size - 1)) := by
  obtain ⟨hc, hh⟩ := hi
  have hv : h.data[idx]? = some v := by
    rcases getIndex_spec h.data v with ⟨e', _⟩ | ⟨idx', e', hv⟩
    · rw [hidx] at e'; cases e'
    · rw [hidx] at e'; cases e'; exact hv
  unfold delete at hd
  simp only [hidx] at hd
  split at hd
  · omega
  · split at hd
    · cases hd
    · rename_i d1 hs
      split at hd
      · cases hd
      · rename_i d2 hd2
        obtain ⟨_, hsz, hget⟩ := removeAt_spec hs hv hd2
        have hroot := root_extremal hc (Nat.le_refl _) hh
        have hnoop : moveDown h.comp (h.data.size - 1) d2 0 = .ok d2 := by
          unfold moveDown
          apply moveDownF_noop _ d2 0 (by omega)
          · intro hl x y hx hy
            rw [hget 1 (by omega)] at hx; rw [hget 0 (by omega)] at hy
            have : ¬ 0 = idx := by omega
            simp only [this, if_false] at hy
            split at hx
            · exact hroot _ (by omega) x y hx hy
            · exact hroot 1 (by omega) x y hx hy
          · intro hl x y hx hy
            rw [hget 2 (by omega)] at hx; rw [hget 0 (by omega)] at hy
            have : ¬ 0 = idx := by omega
            simp only [this, if_false] at hy
            split at hx
            · exact hroot _ (by omega) x y hx hy
            · exact hroot 2 (by omega) x y hx hy
        rw [hnoop] at hd
        cases hd
        show (SWO h.comp ∧ IsHeap h.comp d2 d2.size) ↔ _
        rw [hsz]
        constructor
        · intro ⟨_, hh2⟩
          constructor
          · intro x y hx hy
            have := hh2 idx hmid.1 hmid.2 x y
            rw [hget idx hmid.2, hget _ (by omega)] at this
            have hne : ¬ (idx - 1) / 2 = idx := by omega
            simp only [if_true, hne, if_false] at this
            exact this hx hy
          · intro c hpc hc0 hcn x y hx hy
            have := hh2 c hc0 hcn x y
            rw [hget c hcn, hget _ (by omega), hpc] at this
            have hne : ¬ c = idx := by omega
            simp only [hne, if_false, if_true] at this
            exact this hx hy
        · intro ⟨h1, h2⟩
          refine ⟨hc, ?_⟩
          intro i hi0 hin x y hx hy
          rw [hget i hin] at hx; rw [hget _ (by omega)] at hy
          by_cases e1 : i = idx
          · subst e1
            have hne : ¬ (i - 1) / 2 = i := by omega
            simp only [if_true, hne, if_false] at hx hy
            exact h1 x y hx hy
          · by_cases e2 : (i - 1) / 2 = idx
            · simp only [e1, if_false, e2, if_true] at hx hy
              exact h2 i e2 hi0 hin x y hx hy
            · simp only [e1, if_false, e2] at hx hy
              exact hh i hi0 (by omega) x y hx hy

end GoguVerif.Lemmas.C03
