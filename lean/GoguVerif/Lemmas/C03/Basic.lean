import GoguVerif.Model.Heap
/-!
# C03 helper lemmas, part 1: slice primitives, heap-order predicates, the two sift steps

`Ok comp d i j` : what sits at slot `i` does not precede what sits at slot `j`.
`HeapFrom comp d n j` : among the first `n` slots every node whose parent index is `≥ j` respects its
parent ("all nodes `≥ j` are roots of heaps"); `IsHeap = HeapFrom … 0`.
`HeapExcept comp d n j k` : the same except between `k` and its children, whose children however
already respect `k`'s parent — the auxiliary invariant of sift-down.
-/
namespace GoguVerif.Lemmas.C03
open GoguVerif.Model.Heap GoguVerif.Spec.C03

variable {α : Type}

theorem SWO.asymm {comp : Comp α} (h : SWO comp) {a b : α} (hab : comp a b = true) : comp b a = false := by
  cases hba : comp b a with
  | false => rfl
  | true => have := h.trans a b a hab hba; rw [h.irrefl] at this; cases this

/-- Go's `(i - 1) / 2` on `int` (truncating) is the model's `parent` for every index `i ≥ 0`. -/
theorem parent_int (i : Nat) : ((i : Int) - 1).tdiv 2 = ((parent i : Nat) : Int) := by
  unfold parent
  cases i with
  | zero => decide
  | succ k =>
    have : ((k + 1 : Nat) : Int) - 1 = ((k : Nat) : Int) := by omega
    rw [this]
    simp [Int.tdiv]

theorem parent_def (i : Nat) : parent i = (i - 1) / 2 := rfl

/-! ## swap / set? / dropLast? -/

theorem getElem?_swap' {d d' : Array α} {i j : Nat} (h : swap d i j = some d') (k : Nat) :
    d'[k]? = if k = i then d[j]? else if k = j then d[i]? else d[k]? := by
  unfold swap at h
  split at h
  · rename_i hb
    simp at h; subst h
    rw [Array.getElem?_swap]
    by_cases hki : k = i
    · subst hki
      by_cases hkj : j = k
      · subst hkj; simp
      · simp [hkj, hb.2]
    · by_cases hkj : k = j
      · subst hkj; simp [hki, hb.1]
      · have h1 : ¬ j = k := fun e => hkj e.symm
        have h2 : ¬ i = k := fun e => hki e.symm
        simp [hki, hkj, h1, h2]
  · simp at h

theorem swap_size {d d' : Array α} {i j} (h : swap d i j = some d') : d'.size = d.size := by
  unfold swap at h; split at h <;> simp_all; subst h; simp

theorem swap_perm {d d' : Array α} {i j} (h : swap d i j = some d') : d'.Perm d := by
  unfold swap at h; split at h <;> simp_all; subst h
  exact Array.swap_perm _ _

theorem swap_isSome {d : Array α} {i j : Nat} (hi : i < d.size) (hj : j < d.size) :
    ∃ d', swap d i j = some d' := by
  unfold swap; simp [hi, hj]

theorem swap_bounds {d d' : Array α} {i j} (h : swap d i j = some d') : i < d.size ∧ j < d.size := by
  unfold swap at h; split at h
  · assumption
  · simp at h

/-! ## pick -/

/-- What `pick` returns. -/
theorem pick_spec {comp : Comp α} {n : Nat} {d : Array α} {cur c r : Nat}
    (h : pick comp n d cur c = some r) :
    (r = cur ∧ (c < n → ∀ x y, d[c]? = some x → d[cur]? = some y → comp x y = false)) ∨
    (r = c ∧ c < n ∧ ∃ x y, d[c]? = some x ∧ d[cur]? = some y ∧ comp x y = true) := by
  unfold pick at h
  split at h
  · rename_i hc
    split at h
    · rename_i x y hx hy
      simp at h
      by_cases hxy : comp x y = true
      · right; simp [hxy] at h; exact ⟨h.symm, hc, x, y, hx, hy, hxy⟩
      · left; simp [hxy] at h
        refine ⟨h.symm, fun _ x' y' hx' hy' => ?_⟩
        rw [hx] at hx'; rw [hy] at hy'; cases hx'; cases hy'; simpa using hxy
    · simp at h
  · rename_i hc
    left; simp at h; exact ⟨h.symm, fun hlt => absurd hlt hc⟩

/-- `pick` does not panic when its reads are in range. -/
theorem pick_isSome (comp : Comp α) {n : Nat} {d : Array α} {cur c : Nat}
    (hn : n ≤ d.size) (hcur : c < n → cur < d.size) : ∃ r, pick comp n d cur c = some r := by
  unfold pick
  split
  · rename_i hc
    have h1 : c < d.size := by omega
    have h2 : cur < d.size := hcur hc
    simp [Array.getElem?_eq_getElem h1, Array.getElem?_eq_getElem h2]
  · exact ⟨cur, rfl⟩

/-! ## heap-order predicates -/

def Ok (comp : Comp α) (d : Array α) (i j : Nat) : Prop :=
  ∀ x y, d[i]? = some x → d[j]? = some y → comp x y = false

def HeapFrom (comp : Comp α) (d : Array α) (n j : Nat) : Prop :=
  ∀ i, 0 < i → i < n → j ≤ (i - 1) / 2 → Ok comp d i ((i - 1) / 2)

/-- Heap order on the first `n` slots: no node precedes its parent. -/
def IsHeap (comp : Comp α) (d : Array α) (n : Nat) : Prop :=
  ∀ i, 0 < i → i < n → Ok comp d i ((i - 1) / 2)

theorem isHeap_iff_heapFrom {comp : Comp α} {d : Array α} {n : Nat} :
    IsHeap comp d n ↔ HeapFrom comp d n 0 :=
  ⟨fun h i h0 hn _ => h i h0 hn, fun h i h0 hn => h i h0 hn (Nat.zero_le _)⟩

def HeapExcept (comp : Comp α) (d : Array α) (n j k : Nat) : Prop :=
  (∀ i, 0 < i → i < n → j ≤ (i - 1) / 2 → (i - 1) / 2 ≠ k → Ok comp d i ((i - 1) / 2)) ∧
  (0 < k → j ≤ (k - 1) / 2 → ∀ c, 0 < c → c < n → (c - 1) / 2 = k → Ok comp d c ((k - 1) / 2))

theorem Ok.self {comp : Comp α} (hc : SWO comp) (d : Array α) (i : Nat) : Ok comp d i i := by
  intro x y hx hy; rw [hx] at hy; cases hy; exact hc.irrefl x

/-- Entering a bottom-up heapify step at `k`: nodes above `k` are heaps, so the order is broken at
most at `k`. -/
theorem HeapFrom.toExcept {comp : Comp α} {d : Array α} {n k : Nat}
    (h : HeapFrom comp d n (k + 1)) : HeapExcept comp d n k k := by
  constructor
  · intro i h0 hn hj hne
    exact h i h0 hn (by omega)
  · intro hk hj
    omega

theorem IsHeap.toExcept {comp : Comp α} {d : Array α} {n : Nat}
    (h : IsHeap comp d n) : HeapExcept comp d n 0 0 :=
  ⟨fun i h0 hn _ _ => h i h0 hn, fun hk => absurd hk (Nat.lt_irrefl 0)⟩

/-- Sift-down stops at `k`: both children respect `k`. -/
theorem sift_stop {comp : Comp α} {d : Array α} {n j k : Nat}
    (hex : HeapExcept comp d n j k)
    (okL : 2 * k + 1 < n → Ok comp d (2 * k + 1) k) (okR : 2 * k + 2 < n → Ok comp d (2 * k + 2) k) :
    HeapFrom comp d n j := by
  intro i hi0 hin hj
  by_cases hpk : (i - 1) / 2 = k
  · have : i = 2 * k + 1 ∨ i = 2 * k + 2 := by omega
    rw [hpk]
    rcases this with e | e
    · subst e; exact okL hin
    · subst e; exact okR hin
  · exact hex.1 i hi0 hin hj hpk

/-- Sift-down moves from `k` to its child `c`: `c` beats `k` and no child of `k` beats `c`. -/
theorem sift_step {comp : Comp α} (hc : SWO comp) {d d1 : Array α} {n j k c : Nat}
    (hex : HeapExcept comp d n j k) (hjk : j ≤ k)
    (hch : c = 2 * k + 1 ∨ c = 2 * k + 2) (hcn : c < n)
    (hbeat : ∃ x y, d[c]? = some x ∧ d[k]? = some y ∧ comp x y = true)
    (okL : 2 * k + 1 < n → Ok comp d (2 * k + 1) c) (okR : 2 * k + 2 < n → Ok comp d (2 * k + 2) c)
    (hs : swap d k c = some d1) : HeapExcept comp d1 n j c := by
  have hg := fun m => getElem?_swap' hs m
  obtain ⟨bx, by_, hbx, hby, hbeat⟩ := hbeat
  constructor
  · intro i hi0 hin hj hpi x y hx hy
    rw [hg] at hx hy
    by_cases hik : i = k
    · subst hik
      have hp1 : (i - 1) / 2 ≠ i := by omega
      have hp2 : (i - 1) / 2 ≠ c := by omega
      simp [hp1, hp2] at hx hy
      exact hex.2 hi0 hj c (by omega) hcn (by omega) x y hx hy
    · by_cases hic : i = c
      · subst hic
        have hpk : (i - 1) / 2 = k := by omega
        simp [hik, hpk] at hx hy
        rw [hbx] at hy; rw [hby] at hx; cases hx; cases hy
        exact SWO.asymm hc hbeat
      · simp [hik, hic] at hx
        by_cases hpk : (i - 1) / 2 = k
        · simp [hpk] at hy
          have : i = 2 * k + 1 ∨ i = 2 * k + 2 := by omega
          rcases this with e | e
          · subst e; exact okL hin x y hx hy
          · subst e; exact okR hin x y hx hy
        · simp [hpk, hpi] at hy
          exact hex.1 i hi0 hin hj hpk x y hx hy
  · intro hc0 hjc g hg0 hgn hpg x y hx hy
    rw [hg] at hx hy
    have h1 : g ≠ k := by omega
    have h2 : g ≠ c := by omega
    have h3 : (c - 1) / 2 = k := by omega
    simp [h1, h2] at hx
    simp [h3] at hy
    exact hex.1 g hg0 hgn (by omega) (by omega) x y hx (by rw [hpg]; exact hy)

end GoguVerif.Lemmas.C03
