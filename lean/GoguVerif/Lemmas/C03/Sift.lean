import GoguVerif.Lemmas.C03.Basic
/-!
# C03 helper lemmas, part 2: `moveDown`

`moveDownF_heap` (the central sift lemma), and what `moveDown` never does: change the size, lose an
element, touch a slot outside `[k, n)`, panic (when `n ≤ len(data)`), run out of fuel.
-/
namespace GoguVerif.Lemmas.C03
open GoguVerif.Model.Heap GoguVerif.Spec.C03

variable {α : Type}

/-- Facts about the slot chosen by the two `pick`s of `moveDown`. -/
theorem choose_spec {comp : Comp α} (hc : SWO comp) {n : Nat} {d : Array α} {k cur cur' : Nat}
    (h1 : pick comp n d k (2 * k + 1) = some cur) (h2 : pick comp n d cur (2 * k + 2) = some cur') :
    (cur' = k ∧ (2 * k + 1 < n → Ok comp d (2 * k + 1) k) ∧ (2 * k + 2 < n → Ok comp d (2 * k + 2) k)) ∨
    ((cur' = 2 * k + 1 ∨ cur' = 2 * k + 2) ∧ cur' < n ∧
      (∃ x y, d[cur']? = some x ∧ d[k]? = some y ∧ comp x y = true) ∧
      (2 * k + 1 < n → Ok comp d (2 * k + 1) cur') ∧ (2 * k + 2 < n → Ok comp d (2 * k + 2) cur')) := by
  rcases pick_spec h1 with ⟨e1, noL⟩ | ⟨e1, hl, l, y, hl1, hy1, hly⟩
  · subst e1
    rcases pick_spec h2 with ⟨e2, noR⟩ | ⟨e2, hr, r, y, hr1, hy1, hry⟩
    · subst e2
      exact Or.inl ⟨rfl, fun h => fun x y hx hy => noL h x y hx hy, fun h => fun x y hx hy => noR h x y hx hy⟩
    · subst e2
      refine Or.inr ⟨Or.inr rfl, hr, ⟨r, y, hr1, hy1, hry⟩, ?_, fun _ => Ok.self hc d _⟩
      intro hl x z hx hz
      rw [hr1] at hz; cases hz
      cases hxr : comp x r with
      | false => rfl
      | true =>
        have := hc.trans x r y hxr hry
        rw [noL hl x y hx hy1] at this; cases this
  · subst e1
    rcases pick_spec h2 with ⟨e2, noR⟩ | ⟨e2, hr, r, l', hr1, hl1', hrl⟩
    · subst e2
      exact Or.inr ⟨Or.inl rfl, hl, ⟨l, y, hl1, hy1, hly⟩, fun _ => Ok.self hc d _,
        fun h => fun x z hx hz => noR h x z hx hz⟩
    · subst e2
      rw [hl1] at hl1'; cases hl1'
      refine Or.inr ⟨Or.inr rfl, hr, ⟨r, y, hr1, hy1, hc.trans r l y hrl hly⟩, ?_, fun _ => Ok.self hc d _⟩
      intro _ x z hx hz
      rw [hl1] at hx; cases hx
      rw [hr1] at hz; cases hz
      exact SWO.asymm hc hrl

/-- The slot chosen by `moveDown` is `k` itself or one of its children inside `[0, n)` (no
hypothesis on the comparator). -/
theorem choose_range {comp : Comp α} {n : Nat} {d : Array α} {k cur cur' : Nat}
    (h1 : pick comp n d k (2 * k + 1) = some cur) (h2 : pick comp n d cur (2 * k + 2) = some cur') :
    cur' = k ∨ ((cur' = 2 * k + 1 ∨ cur' = 2 * k + 2) ∧ cur' < n) := by
  rcases pick_spec h1 with ⟨e1, _⟩ | ⟨e1, hl, _⟩ <;> rcases pick_spec h2 with ⟨e2, _⟩ | ⟨e2, hr, _⟩ <;>
    subst e1 <;> subst e2
  · exact Or.inl rfl
  · exact Or.inr ⟨Or.inr rfl, hr⟩
  · exact Or.inr ⟨Or.inl rfl, hl⟩
  · exact Or.inr ⟨Or.inr rfl, hr⟩

/-- **Sift-down** from `k` repairs a heap that is broken only at `k` (bottom-up form: nodes `≥ j`). -/
theorem moveDownF_heap {comp : Comp α} (hc : SWO comp) {n j : Nat} (fuel : Nat) (d : Array α) (k : Nat)
    (d' : Array α) (hn : n ≤ d.size) (hex : HeapExcept comp d n j k) (hjk : j ≤ k)
    (h : moveDownF comp n fuel d k = .ok d') : HeapFrom comp d' n j := by
  induction fuel generalizing d k with
  | zero => simp [moveDownF] at h
  | succ fuel ih =>
    simp only [moveDownF] at h
    split at h
    · cases h
    · rename_i cur hcur
      split at h
      · cases h
      · rename_i cur' hcur'
        rcases choose_spec hc hcur hcur' with ⟨e, okL, okR⟩ | ⟨hch, hcn, hbeat, okL, okR⟩
        · subst e
          simp at h; subst h
          exact sift_stop hex okL okR
        · have hne : cur' ≠ k := by omega
          simp only [ne_eq, hne, not_false_eq_true, if_true] at h
          split at h
          · cases h
          · rename_i d1 hs
            exact ih d1 cur' (by rw [swap_size hs]; exact hn)
              (sift_step hc hex hjk hch hcn hbeat okL okR hs) (by omega) h

/-- `moveDown` keeps the size and the multiset, and leaves every slot outside `[k, n)` alone;
every element of the prefix `[0, n)` stays in the prefix. -/
theorem moveDownF_frame {comp : Comp α} {n : Nat} (fuel : Nat) (d : Array α) (k : Nat) (d' : Array α)
    (h : moveDownF comp n fuel d k = .ok d') :
    d'.size = d.size ∧ d'.Perm d ∧ (∀ m, (m < k ∨ n ≤ m) → d'[m]? = d[m]?) ∧
    (k < n → ∀ a, a < n → ∃ a', a' < n ∧ d'[a]? = d[a']?) := by
  induction fuel generalizing d k with
  | zero => simp [moveDownF] at h
  | succ fuel ih =>
    simp only [moveDownF] at h
    split at h
    · cases h
    · rename_i cur hcur
      split at h
      · cases h
      · rename_i cur' hcur'
        split at h
        · rename_i hne
          split at h
          · cases h
          · rename_i d1 hs
            have hr := choose_range hcur hcur'
            have hcn : cur' < n ∧ k < cur' := by omega
            obtain ⟨h1, h2, h3, h4⟩ := ih d1 cur' h
            have hg := fun m => getElem?_swap' hs m
            refine ⟨h1.trans (swap_size hs), h2.trans (swap_perm hs), ?_, ?_⟩
            · intro m hm
              rw [h3 m (by omega), hg]
              have : m ≠ k := by omega
              have : m ≠ cur' := by omega
              simp [*]
            · intro hkn a ha
              obtain ⟨a', ha', e⟩ := h4 hcn.1 a ha
              rw [e, hg]
              by_cases e1 : a' = k
              · exact ⟨cur', hcn.1, by simp [e1]⟩
              · by_cases e2 : a' = cur'
                · refine ⟨k, hkn, ?_⟩
                  subst e2
                  have : ¬ a' = k := e1
                  simp [this]
                · exact ⟨a', ha', by simp [e1, e2]⟩
        · simp at h; subst h
          exact ⟨rfl, Array.Perm.refl _, fun _ _ => rfl, fun _ a ha => ⟨a, ha, rfl⟩⟩

/-- `moveDown(n, k)` neither panics (the reads are `< n ≤ len(data)`) nor runs out of fuel. -/
theorem moveDownF_total (comp : Comp α) {n : Nat} (fuel : Nat) (d : Array α) (k : Nat)
    (hn : n ≤ d.size) (hf : n - k < fuel) : ∃ d', moveDownF comp n fuel d k = .ok d' := by
  induction fuel generalizing d k with
  | zero => omega
  | succ fuel ih =>
    simp only [moveDownF]
    obtain ⟨cur, hcur⟩ := pick_isSome comp (cur := k) (c := 2 * k + 1) hn (by omega)
    simp only [hcur]
    have hcur_lt : 2 * k + 2 < n → cur < d.size := by
      intro h
      rcases pick_spec hcur with ⟨e, _⟩ | ⟨e, _, _⟩ <;> omega
    obtain ⟨cur', hcur'⟩ := pick_isSome comp (cur := cur) (c := 2 * k + 2) hn hcur_lt
    simp only [hcur']
    split
    · rename_i hne
      have hr := choose_range hcur hcur'
      have hcn : cur' < n ∧ k < cur' := by omega
      obtain ⟨d1, hs⟩ := swap_isSome (d := d) (i := k) (j := cur') (by omega) (by omega)
      rw [hs]
      exact ih d1 cur' (by rw [swap_size hs]; exact hn) (by omega)
    · exact ⟨d, rfl⟩

theorem moveDown_total (comp : Comp α) {n : Nat} (d : Array α) (k : Nat) (hn : n ≤ d.size) :
    ∃ d', moveDown comp n d k = .ok d' :=
  moveDownF_total comp _ d k hn (by omega)

theorem moveDown_heap {comp : Comp α} (hc : SWO comp) {n j : Nat} {d : Array α} {k : Nat}
    {d' : Array α} (hn : n ≤ d.size) (hex : HeapExcept comp d n j k) (hjk : j ≤ k)
    (h : moveDown comp n d k = .ok d') : HeapFrom comp d' n j :=
  moveDownF_heap hc _ d k d' hn hex hjk h

theorem moveDown_frame {comp : Comp α} {n : Nat} {d : Array α} {k : Nat} {d' : Array α}
    (h : moveDown comp n d k = .ok d') :
    d'.size = d.size ∧ d'.Perm d ∧ (∀ m, (m < k ∨ n ≤ m) → d'[m]? = d[m]?) ∧
    (k < n → ∀ a, a < n → ∃ a', a' < n ∧ d'[a]? = d[a']?) :=
  moveDownF_frame _ d k d' h

/-- where both children already respect `k`, `moveDown(n, k)` changes nothing -/
theorem moveDownF_noop {comp : Comp α} {n : Nat} (fuel : Nat) (d : Array α) (k : Nat)
    (hn : n ≤ d.size)
    (okL : 2 * k + 1 < n → Ok comp d (2 * k + 1) k) (okR : 2 * k + 2 < n → Ok comp d (2 * k + 2) k) :
    moveDownF comp n (fuel + 1) d k = .ok d := by
  have h1 : pick comp n d k (2 * k + 1) = some k := by
    unfold pick
    split
    · rename_i hl
      have a : 2 * k + 1 < d.size := by omega
      have b : k < d.size := by omega
      simp only [Array.getElem?_eq_getElem a, Array.getElem?_eq_getElem b]
      have := okL hl _ _ (Array.getElem?_eq_getElem a) (Array.getElem?_eq_getElem b)
      simp [this]
    · rfl
  have h2 : pick comp n d k (2 * k + 2) = some k := by
    unfold pick
    split
    · rename_i hl
      have a : 2 * k + 2 < d.size := by omega
      have b : k < d.size := by omega
      simp only [Array.getElem?_eq_getElem a, Array.getElem?_eq_getElem b]
      have := okR hl _ _ (Array.getElem?_eq_getElem a) (Array.getElem?_eq_getElem b)
      simp [this]
    · rfl
  simp [moveDownF, h1, h2]

end GoguVerif.Lemmas.C03
