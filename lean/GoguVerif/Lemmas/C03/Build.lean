import GoguVerif.Lemmas.C03.Ops
/-!
# C03 helper lemmas, part 5: bottom-up heapify — `Convert` and `FromSlice`

`FromSlice`'s inner loop overwrites the outer loop variable `i`; after the sift from `j` ended at
`i' ≥ j` the outer `i--` walks `i'-1, …, j` once more.  All those nodes are already roots of heaps,
so each of these extra iterations breaks at once (`fsInner_noop`, `fs_descend`) and the loop arrives
at `j - 1`: partial correctness by the usual invariant, termination within `n² + 1` outer iterations.
-/
namespace GoguVerif.Lemmas.C03
open GoguVerif.Model.Heap GoguVerif.Spec.C03

variable {α : Type}

/-! ## Convert -/

theorem convertLoop_spec {comp : Comp α} (hc : SWO comp) (k : Nat) (d : Array α)
    (h : HeapFrom comp d d.size k) :
    ∃ d', convertLoop comp k d = .ok d' ∧ IsHeap comp d' d'.size ∧ d'.size = d.size ∧ d'.Perm d := by
  induction k generalizing d with
  | zero => exact ⟨d, rfl, isHeap_iff_heapFrom.mpr h, rfl, Array.Perm.refl _⟩
  | succ k ih =>
    obtain ⟨d1, hd1⟩ := moveDown_total comp (n := d.size) d k (Nat.le_refl _)
    have hheap := moveDown_heap hc (Nat.le_refl _) h.toExcept (Nat.le_refl _) hd1
    obtain ⟨hs1, hp1, _, _⟩ := moveDown_frame hd1
    rw [← hs1] at hheap
    obtain ⟨d2, e2, i2, s2, p2⟩ := ih d1 hheap
    exact ⟨d2, by simp only [convertLoop, hd1, e2], i2, s2.trans hs1, p2.trans hp1⟩

/-- Above `Convert`'s first loop index there are only leaves. -/
theorem convertStart_bound (n i : Nat) (h0 : 0 < i) (hn : i < n) :
    (i - 1) / 2 < (convertStart n + 1).toNat := by
  unfold convertStart
  rw [Int.tdiv_eq_ediv_of_nonneg (by omega)]
  omega

theorem convert_spec (h : Heap α) (c : Comp α) (hc : SWO c) :
    ∃ h', convert h c = .ok h' ∧ h'.comp = c ∧ Inv h' ∧ h'.data.toList.Perm h.data.toList := by
  have h0 : HeapFrom c h.data h.data.size (convertStart h.data.size + 1).toNat := by
    intro i hi0 hin hj
    have := convertStart_bound h.data.size i hi0 hin
    omega
  obtain ⟨d', e, ih, _, p⟩ := convertLoop_spec hc _ h.data h0
  exact ⟨{ comp := c, data := d' }, by simp only [convert, e], rfl, ⟨hc, ih⟩,
    Array.perm_iff_toList_perm.mp p⟩

/-! ## FromSlice -/

/-- the child chosen by `FromSlice`'s inner loop -/
theorem fs_choose {comp : Comp α} (hc : SWO comp) {n : Nat} {d : Array α} {i cur : Nat}
    (hl : 2 * i + 1 < n) (h : pick comp n d (2 * i + 1) (2 * i + 2) = some cur) :
    (cur = 2 * i + 1 ∨ cur = 2 * i + 2) ∧ cur < n ∧
    (2 * i + 1 < n → Ok comp d (2 * i + 1) cur) ∧ (2 * i + 2 < n → Ok comp d (2 * i + 2) cur) := by
  rcases pick_spec h with ⟨e, hno⟩ | ⟨e, hr, x, y, hx, hy, hxy⟩
  · subst e
    exact ⟨Or.inl rfl, hl, fun _ => Ok.self hc d _, fun hr a b ha hb => hno hr a b ha hb⟩
  · subst e
    refine ⟨Or.inr rfl, hr, ?_, fun _ => Ok.self hc d _⟩
    intro _ a b ha hb
    rw [hy] at ha; rw [hx] at hb; cases ha; cases hb
    exact SWO.asymm hc hxy

theorem fsInner_spec {comp : Comp α} (hc : SWO comp) (fuel : Nat) (d : Array α) (i : Nat) {j : Nat}
    (hi : i < d.size) (hf : d.size - i ≤ fuel) (hex : HeapExcept comp d d.size j i) (hji : j ≤ i) :
    ∃ d' i', fsInner comp fuel d i = .ok (d', i') ∧ HeapFrom comp d' d'.size j ∧
      d'.size = d.size ∧ d'.Perm d ∧ i ≤ i' ∧ i' < d.size := by
  induction fuel generalizing d i with
  | zero => omega
  | succ fuel ih =>
    simp only [fsInner]
    split
    · exact ⟨d, i, rfl, sift_stop hex (fun h => by omega) (fun h => by omega), rfl,
        Array.Perm.refl _, Nat.le_refl _, hi⟩
    · rename_i hl
      have hl : 2 * i + 1 < d.size := by omega
      obtain ⟨cur, hcur⟩ := pick_isSome comp (n := d.size) (d := d) (cur := 2 * i + 1) (c := 2 * i + 2)
        (Nat.le_refl _) (fun _ => hl)
      obtain ⟨hch, hcn, okL, okR⟩ := fs_choose hc hl hcur
      simp only [hcur, Array.getElem?_eq_getElem hcn, Array.getElem?_eq_getElem hi]
      split
      · rename_i hcmp
        simp at hcmp
        refine ⟨d, i, rfl, sift_stop hex ?_ ?_, rfl, Array.Perm.refl _, Nat.le_refl _, hi⟩
        · intro h a b ha hb
          rw [Array.getElem?_eq_getElem hi] at hb; cases hb
          exact hc.negTrans _ _ _ (okL h a d[cur] ha (Array.getElem?_eq_getElem hcn)) hcmp
        · intro h a b ha hb
          rw [Array.getElem?_eq_getElem hi] at hb; cases hb
          exact hc.negTrans _ _ _ (okR h a d[cur] ha (Array.getElem?_eq_getElem hcn)) hcmp
      · rename_i hcmp
        simp at hcmp
        obtain ⟨d1, hs⟩ := swap_isSome (d := d) (i := i) (j := cur) hi hcn
        have hsz := swap_size hs
        have hex1 : HeapExcept comp d1 d1.size j cur := by
          rw [hsz]
          exact sift_step hc hex hji hch hcn
            ⟨_, _, Array.getElem?_eq_getElem hcn, Array.getElem?_eq_getElem hi, hcmp⟩ okL okR hs
        obtain ⟨d2, i2, e2, h2, s2, p2, l2, u2⟩ := ih d1 cur (by omega) (by omega) hex1 (by omega)
        simp only [hs]
        exact ⟨d2, i2, e2, h2, s2.trans hsz, p2.trans (swap_perm hs), by omega, by omega⟩

/-- at a node that already is the root of a heap the inner loop breaks at once -/
theorem fsInner_noop {comp : Comp α} (hc : SWO comp) (fuel : Nat) (d : Array α) (i : Nat) {j : Nat}
    (hi : i < d.size) (hh : HeapFrom comp d d.size j) (hji : j ≤ i) :
    fsInner comp (fuel + 1) d i = .ok (d, i) := by
  simp only [fsInner]
  split
  · rfl
  · rename_i hl
    have hl : 2 * i + 1 < d.size := by omega
    obtain ⟨cur, hcur⟩ := pick_isSome comp (n := d.size) (d := d) (cur := 2 * i + 1) (c := 2 * i + 2)
      (Nat.le_refl _) (fun _ => hl)
    obtain ⟨hch, hcn, _, _⟩ := fs_choose hc hl hcur
    simp only [hcur, Array.getElem?_eq_getElem hcn, Array.getElem?_eq_getElem hi]
    have hpar : (cur - 1) / 2 = i := by omega
    have := hh cur (by omega) hcn (by omega) d[cur] d[i] (Array.getElem?_eq_getElem hcn)
      (by rw [hpar]; exact Array.getElem?_eq_getElem hi)
    simp [this]

/-- the clobbered outer loop walks back down over nodes that are already heaps -/
theorem fs_descend {comp : Comp α} (hc : SWO comp) (d : Array α) {j : Nat}
    (hh : HeapFrom comp d d.size j) (t f : Nat) (hb : j + t ≤ d.size) :
    fsOuter comp (f + t) d ((j : Int) - 1 + t) = fsOuter comp f d ((j : Int) - 1) := by
  induction t with
  | zero => simp
  | succ t ih =>
    have e1 : f + (t + 1) = (f + t) + 1 := by omega
    rw [e1]
    simp only [fsOuter]
    have hnn : ¬ ((j : Int) - 1 + ((t + 1 : Nat) : Int) < 0) := by omega
    have htn : ((j : Int) - 1 + ((t + 1 : Nat) : Int)).toNat = j + t := by omega
    simp only [hnn, if_false, htn]
    have hpos : d.size = (d.size - 1) + 1 := by omega
    rw [hpos, fsInner_noop hc (d.size - 1) d (j + t) (by omega) hh (by omega)]
    simp only
    have e2 : (((j + t : Nat) : Int) - 1) = (j : Int) - 1 + (t : Int) := by omega
    rw [e2]
    exact ih (by omega)

theorem fsOuter_spec {comp : Comp α} (hc : SWO comp) (k : Nat) (d : Array α) (fuel : Nat)
    (hk : k ≤ d.size) (hf : k * d.size + 1 ≤ fuel) (hh : HeapFrom comp d d.size k) :
    ∃ d', fsOuter comp fuel d ((k : Int) - 1) = .ok d' ∧ IsHeap comp d' d'.size ∧
      d'.size = d.size ∧ d'.Perm d := by
  induction k generalizing d fuel with
  | zero =>
    obtain ⟨f, rfl⟩ : ∃ f, fuel = f + 1 := ⟨fuel - 1, by omega⟩
    refine ⟨d, ?_, isHeap_iff_heapFrom.mpr hh, rfl, Array.Perm.refl _⟩
    simp [fsOuter]
  | succ k ih =>
    obtain ⟨f, rfl⟩ : ∃ f, fuel = f + 1 := ⟨fuel - 1, by omega⟩
    have hmul : (k + 1) * d.size = k * d.size + d.size := by rw [Nat.add_mul, Nat.one_mul]
    simp only [fsOuter]
    have hnn : ¬ (((k + 1 : Nat) : Int) - 1 < 0) := by omega
    have htn : (((k + 1 : Nat) : Int) - 1).toNat = k := by omega
    simp only [hnn, if_false, htn]
    obtain ⟨d1, i1, e1, h1, s1, p1, l1, u1⟩ :=
      fsInner_spec hc d.size d k (by omega) (by omega) hh.toExcept (Nat.le_refl _)
    simp only [e1]
    have ef : f = (f - (i1 - k)) + (i1 - k) := by omega
    have ei : ((i1 : Int) - 1) = (k : Int) - 1 + ((i1 - k : Nat) : Int) := by omega
    rw [ef, ei, fs_descend hc d1 h1 (i1 - k) (f - (i1 - k)) (by omega)]
    obtain ⟨d2, e2, i2, s2, p2⟩ := ih d1 (f - (i1 - k)) (by omega) (by rw [s1]; omega) h1
    exact ⟨d2, e2, i2, s2.trans s1, p2.trans p1⟩

/-- **`FromSlice` terminates (within the model's fuel), does not panic, establishes heap order and
keeps the elements** — for every input slice. -/
theorem fromSlice_spec (data : Array α) (c : Comp α) (hc : SWO c) :
    ∃ h', fromSlice data c = .ok h' ∧ h'.comp = c ∧ Inv h' ∧ h'.data.toList.Perm data.toList ∧
      h'.data.size = data.size := by
  have hstart : (data.size : Int).tdiv 2 - 1 = ((data.size / 2 : Nat) : Int) - 1 := by
    rw [Int.tdiv_eq_ediv_of_nonneg (by omega)]; omega
  have h0 : HeapFrom c data data.size (data.size / 2) := by
    intro i hi0 hin hj; omega
  have hfuel : data.size / 2 * data.size + 1 ≤ fsFuel data.size := by
    unfold fsFuel
    have := Nat.mul_le_mul_right data.size (Nat.div_le_self data.size 2)
    omega
  obtain ⟨d', e, ih, s, p⟩ := fsOuter_spec hc (data.size / 2) data (fsFuel data.size)
    (Nat.div_le_self _ _) hfuel h0
  exact ⟨{ comp := c, data := d' }, by simp only [fromSlice, hstart, e], rfl, ⟨hc, ih⟩,
    Array.perm_iff_toList_perm.mp p, s⟩

end GoguVerif.Lemmas.C03
