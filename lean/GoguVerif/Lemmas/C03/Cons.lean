import GoguVerif.Lemmas.C03.Ops
/-!
# C03 helper lemmas, part 7: conservation and totality WITHOUT the heap-order invariant

These hold in every state, in particular after a `Delete` that broke heap order (known finding
`heap.delete-no-resift`): no method panics, none hangs (irreflexive comparator), and the multiset
bookkeeping is exact.
-/
namespace GoguVerif.Lemmas.C03
open GoguVerif.Model.Heap GoguVerif.Spec.C03

variable {α : Type}

theorem push_cons (h : Heap α) (hirr : ∀ a, h.comp a a = false) (v : α) :
    ∃ h', push h v = .ok h' ∧ h'.comp = h.comp ∧ h'.data.toList.Perm (v :: h.data.toList) := by
  have hsz : (h.data.push v).size = h.data.size + 1 := by simp
  obtain ⟨d', hd'⟩ := moveUpF_total hirr (h.data.size + 1) (h.data.push v) h.data.size
    (by omega) (by omega)
  obtain ⟨_, hp1⟩ := moveUpF_frame _ _ _ _ hd'
  refine ⟨{ h with data := d' }, ?_, rfl, ?_⟩
  · simp only [push, moveUp, hsz, Nat.add_sub_cancel, hd']
  · show d'.toList.Perm (v :: h.data.toList)
    refine (Array.perm_iff_toList_perm.mp hp1).trans ?_
    rw [Array.toList_push]
    exact List.perm_append_comm

theorem pushAll_cons (h : Heap α) (hirr : ∀ a, h.comp a a = false) (vs : List α) :
    ∃ h', pushAll h vs = .ok h' ∧ h'.comp = h.comp ∧ h'.data.toList.Perm (vs ++ h.data.toList) := by
  induction vs generalizing h with
  | nil => exact ⟨h, rfl, rfl, List.Perm.refl _⟩
  | cons v vs ih =>
    obtain ⟨h1, e1, c1, p1⟩ := push_cons h hirr v
    obtain ⟨h2, e2, c2, p2⟩ := ih h1 (by rw [c1]; exact hirr)
    refine ⟨h2, by simp only [pushAll, e1, e2], c2.trans c1, ?_⟩
    refine p2.trans ((List.Perm.append_left vs p1).trans ?_)
    simp only [List.cons_append]
    exact List.perm_middle

theorem peek_cons [Inhabited α] (h : Heap α) :
    ∃ x, peek h = .ok x ∧ ((h.data.toList = [] ∧ x = default) ∨ x ∈ h.data.toList) := by
  unfold peek
  split
  · rename_i h0
    exact ⟨default, rfl, Or.inl ⟨by simpa using h0, rfl⟩⟩
  · rename_i h0
    have hlt : 0 < h.data.size := by omega
    simp only [Array.getElem?_eq_getElem hlt]
    exact ⟨_, rfl, Or.inr (by simp)⟩

theorem pop_cons [Inhabited α] [DecidableEq α] (h : Heap α) :
    ∃ h' x, pop h = .ok (h', x) ∧ h'.comp = h.comp ∧
      ((h.data.toList = [] ∧ x = default ∧ h'.data.toList = []) ∨
       (x ∈ h.data.toList ∧ h'.data.toList.Perm (h.data.toList.erase x))) := by
  unfold pop
  split
  · rename_i h0
    have : h.data.toList = [] := by simpa using h0
    exact ⟨h, default, rfl, rfl, Or.inl ⟨this, rfl, this⟩⟩
  · rename_i h0
    have hlt : 0 < h.data.size := by omega
    have hl : h.data.size - 1 < h.data.size := by omega
    simp only [Array.getElem?_eq_getElem hlt, Array.getElem?_eq_getElem hl]
    have hs1 : ∃ d1, set? h.data 0 h.data[h.data.size - 1] = some d1 := by
      unfold set?; simp [hlt]
    obtain ⟨d1, hd1⟩ := hs1
    have hs2 : ∃ d2, dropLast? d1 = some d2 := by
      have hsz1 : d1.size = h.data.size := by
        unfold set? at hd1; simp [hlt] at hd1; subst hd1; simp
      unfold dropLast?
      rw [if_neg (by omega)]
      exact ⟨_, rfl⟩
    obtain ⟨d2, hd2⟩ := hs2
    obtain ⟨ds, hsw, hdl⟩ := set_as_swap (Array.getElem?_eq_getElem hl) hd1 hd2
    obtain ⟨hperm, _, _⟩ := removeAt_spec hsw (Array.getElem?_eq_getElem hlt) hdl
    obtain ⟨d3, hd3⟩ := moveDown_total h.comp (n := d2.size) d2 0 (Nat.le_refl _)
    simp only [hd1, hd2, hd3]
    obtain ⟨_, hp3, _, _⟩ := moveDown_frame hd3
    refine ⟨{ h with data := d3 }, _, rfl, rfl, Or.inr ⟨by simp, ?_⟩⟩
    show d3.toList.Perm _
    refine (Array.perm_iff_toList_perm.mp hp3).trans ?_
    have := List.Perm.erase h.data[0] hperm
    simpa using this

theorem merge_cons (h h2 : Heap α) (hirr : ∀ a, h.comp a a = false) :
    ∃ nh, merge h h2 = .ok nh ∧ nh.comp = h.comp ∧
      nh.data.toList.Perm (h.data.toList ++ h2.data.toList) := by
  obtain ⟨n1, e1, c1, p1⟩ := pushAll_cons (new h.comp) hirr h.data.toList
  obtain ⟨n2, e2, c2, p2⟩ := pushAll_cons n1 (by rw [c1]; exact hirr) h2.data.toList
  refine ⟨n2, by simp only [merge, e1, e2], by rw [c2, c1]; rfl, ?_⟩
  refine p2.trans ?_
  have : n1.data.toList.Perm h.data.toList := by simpa [new] using p1
  exact (List.Perm.append_left _ this).trans List.perm_append_comm

theorem meld_cons (h h2 : Heap α) (hirr : ∀ a, h.comp a a = false) :
    ∃ h' h2' nh, meld h h2 = .ok (h', h2', nh) ∧ nh.comp = h.comp ∧
      nh.data.toList.Perm (h.data.toList ++ h2.data.toList) ∧ h'.data = #[] ∧ h2'.data = #[] := by
  obtain ⟨n1, e1, c1, p1⟩ := pushAll_cons (new h.comp) hirr h.data.toList
  obtain ⟨n2, e2, c2, p2⟩ := pushAll_cons n1 (by rw [c1]; exact hirr) h2.data.toList
  refine ⟨{ h with data := #[] }, { h2 with data := #[] }, n2, by simp only [meld, e1, e2],
    by rw [c2, c1]; rfl, ?_, rfl, rfl⟩
  refine p2.trans ?_
  have : n1.data.toList.Perm h.data.toList := by simpa [new] using p1
  exact (List.Perm.append_left _ this).trans List.perm_append_comm

end GoguVerif.Lemmas.C03
