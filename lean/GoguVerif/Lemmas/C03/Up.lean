import GoguVerif.Lemmas.C03.Basic
/-!
# C03 helper lemmas, part 3: `moveUp`

`UpExcept comp d n i` : heap order everywhere except between `i` and its parent, and the children of
`i` already respect `i`'s parent — the auxiliary invariant of sift-up.
-/
namespace GoguVerif.Lemmas.C03
open GoguVerif.Model.Heap GoguVerif.Spec.C03

variable {α : Type}

def UpExcept (comp : Comp α) (d : Array α) (n i : Nat) : Prop :=
  (∀ c, 0 < c → c < n → c ≠ i → Ok comp d c ((c - 1) / 2)) ∧
  (0 < i → ∀ g, 0 < g → g < n → (g - 1) / 2 = i → Ok comp d g ((i - 1) / 2))

/-- one swap of sift-up -/
theorem up_step {comp : Comp α} (hc : SWO comp) {d d1 : Array α} {n i : Nat} {x y : α}
    (_hn : n ≤ d.size) (hin : i < n) (hi0 : 0 < i)
    (hex : UpExcept comp d n i) (hx : d[i]? = some x) (hy : d[(i - 1) / 2]? = some y)
    (hbeat : comp x y = true) (hs : swap d i ((i - 1) / 2) = some d1) :
    UpExcept comp d1 n ((i - 1) / 2) := by
  have hg := fun m => getElem?_swap' hs m
  have hpi : (i - 1) / 2 < i := by omega
  constructor
  · intro c hc0 hcn hcp a b ha hb
    rw [hg] at ha hb
    by_cases hci : c = i
    · -- slot i now holds the old parent value; its parent holds x
      subst hci
      have h1 : ¬ (c - 1) / 2 = c := by omega
      simp [h1] at ha hb
      rw [hy] at ha; rw [hx] at hb; cases ha; cases hb
      exact SWO.asymm hc hbeat
    · simp [hci, hcp] at ha
      by_cases hpc : (c - 1) / 2 = i
      · -- child of i: its parent slot now holds y = old d[parent i]
        have h1 : ¬ i = (i - 1) / 2 := by omega
        simp [hpc] at hb
        exact hex.2 hi0 c hc0 hcn hpc a b ha hb
      · by_cases hpp : (c - 1) / 2 = (i - 1) / 2
        · -- sibling of i: its parent slot now holds x
          have h1 : ¬ (i - 1) / 2 = i := by omega
          simp [hpp, h1] at hb
          rw [hx] at hb; cases hb
          cases hab : comp a x with
          | false => rfl
          | true =>
            have h1 := hc.trans a x y hab hbeat
            have h2 := hex.1 c hc0 hcn hci a y ha (by rw [hpp]; exact hy)
            rw [h1] at h2; cases h2
        · simp [hpc, hpp] at hb
          exact hex.1 c hc0 hcn hci a b ha hb
  · intro hp0 g hg0 hgn hpg a b ha hb
    rw [hg] at ha hb
    have h1 : ¬ (((i - 1) / 2 - 1) / 2 = i) := by omega
    have h2 : ¬ (((i - 1) / 2 - 1) / 2 = (i - 1) / 2) := by omega
    simp [h1, h2] at hb
    have hpn : (i - 1) / 2 < n := by omega
    have hyb := hex.1 ((i - 1) / 2) hp0 hpn (by omega) y b hy hb
    by_cases hgi : g = i
    · subst hgi
      have h3 : ¬ g = (g - 1) / 2 := by omega
      simp at ha
      rw [hy] at ha; cases ha
      exact hyb
    · have h3 : ¬ g = (i - 1) / 2 := by omega
      simp [hgi, h3] at ha
      have hay := hex.1 g hg0 hgn hgi a y ha (by rw [hpg]; exact hy)
      exact hc.negTrans a y b hay hyb

/-- **Sift-up** from `i` repairs a heap that is broken only between `i` and its parent. -/
theorem moveUpF_heap {comp : Comp α} (hc : SWO comp) {n : Nat} (fuel : Nat) (d : Array α) (i : Nat)
    (d' : Array α) (hn : n ≤ d.size) (hin : i < n) (hex : UpExcept comp d n i)
    (h : moveUpF comp fuel d i = .ok d') : IsHeap comp d' n := by
  induction fuel generalizing d i with
  | zero => simp [moveUpF] at h
  | succ fuel ih =>
    simp only [moveUpF, parent_def] at h
    split at h
    · rename_i x y hx hy
      split at h
      · rename_i hcmp
        simp at h hcmp; subst h
        intro c hc0 hcn
        by_cases hci : c = i
        · subst hci
          intro a b ha hb
          rw [hx] at ha; rw [hy] at hb; cases ha; cases hb; exact hcmp
        · exact hex.1 c hc0 hcn hci
      · rename_i hcmp
        simp at hcmp
        have hi0 : 0 < i := by
          rcases Nat.eq_zero_or_pos i with e | e
          · subst e
            simp at hx hy
            rw [hx] at hy; cases hy
            rw [hc.irrefl] at hcmp; cases hcmp
          · exact e
        split at h
        · cases h
        · rename_i d1 hs
          exact ih d1 ((i - 1) / 2) (by rw [swap_size hs]; exact hn) (by omega)
            (up_step hc hn hin hi0 hex hx hy hcmp hs) h
    · cases h

/-- `moveUp` keeps the size and the multiset. -/
theorem moveUpF_frame {comp : Comp α} (fuel : Nat) (d : Array α) (i : Nat) (d' : Array α)
    (h : moveUpF comp fuel d i = .ok d') : d'.size = d.size ∧ d'.Perm d := by
  induction fuel generalizing d i with
  | zero => simp [moveUpF] at h
  | succ fuel ih =>
    simp only [moveUpF] at h
    split at h
    · split at h
      · simp at h; subst h; exact ⟨rfl, Array.Perm.refl _⟩
      · split at h
        · cases h
        · rename_i d1 hs
          obtain ⟨h1, h2⟩ := ih d1 _ h
          exact ⟨h1.trans (swap_size hs), h2.trans (swap_perm hs)⟩
    · cases h

/-- `moveUp(i)` with `i` in range neither panics nor — for an irreflexive comparator — spins. -/
theorem moveUpF_total {comp : Comp α} (hirr : ∀ a, comp a a = false) (fuel : Nat) (d : Array α)
    (i : Nat) (hi : i < d.size) (hf : i < fuel) : ∃ d', moveUpF comp fuel d i = .ok d' := by
  induction fuel generalizing d i with
  | zero => omega
  | succ fuel ih =>
    simp only [moveUpF, parent_def]
    have hp : (i - 1) / 2 < d.size := by omega
    simp only [Array.getElem?_eq_getElem hi, Array.getElem?_eq_getElem hp]
    split
    · exact ⟨d, rfl⟩
    · rename_i hcmp
      simp at hcmp
      have hi0 : 0 < i := by
        rcases Nat.eq_zero_or_pos i with e | e
        · subst e
          simp [hirr] at hcmp
        · exact e
      obtain ⟨d1, hs⟩ := swap_isSome (d := d) (i := i) (j := (i - 1) / 2) hi hp
      simp only [hs]
      exact ih d1 _ (by rw [swap_size hs]; omega) (by omega)

end GoguVerif.Lemmas.C03
