import GoguVerif.Lemmas.C03.Build
/-!
# C03 helper lemmas, part 6: `Sort` (heapsort.go)

Loop invariant at prefix length `m`: the prefix `[0, m)` is a heap, no prefix element is preceded…
precisely: `comp d[a] d[b] = false` for every `a < m ≤ b` and for every `m ≤ a < b`.
-/
namespace GoguVerif.Lemmas.C03
open GoguVerif.Model.Heap GoguVerif.Spec.C03

variable {α : Type}

def SortInv (comp : Comp α) (d : Array α) (m : Nat) : Prop :=
  IsHeap comp d m ∧
  (∀ a b, a < m → m ≤ b → b < d.size → Ok comp d a b) ∧
  (∀ a b, m ≤ a → a < b → b < d.size → Ok comp d a b)

theorem sortLoop_spec {comp : Comp α} (hc : SWO comp) (i : Nat) (d : Array α)
    (hi : i < d.size) (hinv : SortInv comp d (i + 1)) :
    ∃ d', sortLoop comp i d = .ok d' ∧ (∀ a b, a < b → b < d'.size → Ok comp d' a b) ∧
      d'.Perm d ∧ d'.size = d.size := by
  induction i generalizing d with
  | zero =>
    refine ⟨d, rfl, ?_, Array.Perm.refl _, rfl⟩
    intro a b hab hb
    rcases Nat.eq_zero_or_pos a with e | e
    · subst e; exact hinv.2.1 0 b (by omega) (by omega) hb
    · exact hinv.2.2 a b (by omega) hab hb
  | succ i ih =>
    obtain ⟨hheap, hps, hss⟩ := hinv
    obtain ⟨d1, hs⟩ := swap_isSome (d := d) (i := 0) (j := i + 1) (by omega) hi
    have hsz1 := swap_size hs
    have hg := fun m => getElem?_swap' hs m
    obtain ⟨d2, hd2⟩ := moveDown_total comp (n := i + 1) d1 0 (by omega)
    obtain ⟨hsz2, hp2, hfr, hpre⟩ := moveDown_frame hd2
    have hex : HeapExcept comp d1 (i + 1) 0 0 := by
      refine ⟨?_, fun hk => absurd hk (Nat.lt_irrefl 0)⟩
      intro c hc0 hcn _ hpc x y hx hy
      rw [hg] at hx hy
      have h1 : ¬ c = 0 := by omega
      have h2 : ¬ c = i + 1 := by omega
      have h3 : ¬ (c - 1) / 2 = i + 1 := by omega
      simp [h1, h2, h3, hpc] at hx hy
      exact hheap c hc0 (by omega) x y hx hy
    have hheap2 := isHeap_iff_heapFrom.mpr (moveDown_heap hc (by omega) hex (Nat.le_refl _) hd2)
    have hroot := root_extremal hc (by omega : i + 1 + 1 ≤ d.size) hheap
    -- every prefix slot of d2 holds what some slot `< i + 2` of d held
    have hfrom : ∀ a, a < i + 1 → ∃ a'', a'' < i + 1 + 1 ∧ d2[a]? = d[a'']? := by
      intro a ha
      obtain ⟨a', ha', e⟩ := hpre (by omega) a ha
      rw [e, hg]
      by_cases h0 : a' = 0
      · exact ⟨i + 1, by omega, by simp [h0]⟩
      · have : ¬ a' = i + 1 := by omega
        exact ⟨a', by omega, by simp [h0, this]⟩
    have hinv2 : SortInv comp d2 (i + 1) := by
      refine ⟨hheap2, ?_, ?_⟩
      · intro a b ha hmb hb x y hx hy
        obtain ⟨a'', ha'', e⟩ := hfrom a ha
        rw [e] at hx
        rw [hfr b (Or.inr hmb), hg] at hy
        have hb0 : ¬ b = 0 := by omega
        by_cases hb1 : b = i + 1
        · simp [hb1] at hy
          exact hroot a'' ha'' x y hx hy
        · simp [hb0, hb1] at hy
          exact hps a'' b ha'' (by omega) (by omega) x y hx hy
      · intro a b hma hab hb x y hx hy
        rw [hfr a (Or.inr hma), hg] at hx
        rw [hfr b (Or.inr (by omega)), hg] at hy
        have hb0 : ¬ b = 0 := by omega
        have hb1 : ¬ b = i + 1 := by omega
        have ha0 : ¬ a = 0 := by omega
        simp [hb0, hb1] at hy
        by_cases ha1 : a = i + 1
        · simp [ha1] at hx
          exact hps 0 b (by omega) (by omega) (by omega) x y hx hy
        · simp [ha0, ha1] at hx
          exact hss a b (by omega) hab (by omega) x y hx hy
    obtain ⟨d3, e3, h3, p3, s3⟩ := ih d2 (by omega) hinv2
    exact ⟨d3, by simp only [sortLoop, hs, hd2, e3], h3, p3.trans (hp2.trans (swap_perm hs)),
      s3.trans (hsz2.trans hsz1)⟩

theorem sortedOpp_of_index {comp : Comp α} (l : List α)
    (h : ∀ a b, a < b → b < l.length → ∀ x y, l[a]? = some x → l[b]? = some y → comp x y = false) :
    SortedOpp comp l := by
  induction l with
  | nil => trivial
  | cons x r ih =>
    refine ⟨?_, ih ?_⟩
    · intro y hy
      obtain ⟨k, hk⟩ := List.mem_iff_getElem?.mp hy
      have hlt : k < r.length := by
        rcases Nat.lt_or_ge k r.length with h | h
        · exact h
        · rw [List.getElem?_eq_none h] at hk; cases hk
      exact h 0 (k + 1) (by omega) (by simp; omega) x y (by simp) (by simpa using hk)
    · intro a b hab hb u v hu hv
      exact h (a + 1) (b + 1) (by omega) (by simp; omega) u v (by simpa using hu) (by simpa using hv)

/-- **`Sort` returns a permutation of its input ordered oppositely to the comparator**, never
panics, always terminates. -/
theorem sort_spec' (data : Array α) (c : Comp α) (hc : SWO c) :
    ∃ out, sort data c = .ok out ∧ out.toList.Perm data.toList ∧ SortedOpp c out.toList := by
  obtain ⟨h', e, hcomp, hinv, hperm, hsize⟩ := fromSlice_spec data c hc
  rcases Nat.eq_zero_or_pos h'.data.size with e0 | e0
  · refine ⟨h'.data, by simp only [sort, e, e0]; rfl, hperm, ?_⟩
    have : h'.data.toList = [] := by simpa using e0
    rw [this]; trivial
  · have hheap : IsHeap c h'.data h'.data.size := by rw [← hcomp]; exact hinv.2
    have hinv0 : SortInv c h'.data (h'.data.size - 1 + 1) := by
      have : h'.data.size - 1 + 1 = h'.data.size := by omega
      rw [this]
      exact ⟨hheap, fun a b _ h1 h2 => by omega, fun a b h1 h2 h3 => by omega⟩
    obtain ⟨out, eo, hidx, po, so⟩ := sortLoop_spec hc (h'.data.size - 1) h'.data (by omega) hinv0
    refine ⟨out, by simp only [sort, e, eo], (Array.perm_iff_toList_perm.mp po).trans hperm, ?_⟩
    apply sortedOpp_of_index
    intro a b hab hb x y hx hy
    exact hidx a b hab (by simpa using hb) x y (by simpa using hx) (by simpa using hy)

end GoguVerif.Lemmas.C03
