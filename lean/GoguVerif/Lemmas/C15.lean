import GoguVerif.Spec.C15
import GoguVerif.Model.C15
/-!
# C15 — helper lemmas (lists, the pad token, the rune loops)
-/
namespace GoguVerif.Lemmas.C15
open GoguVerif.Go.Utf8 GoguVerif.Model.C15 GoguVerif.Spec.C15

theorem isCyc_iff (tok p : Str) :
    isCyc tok p = true ↔ ∀ i, i < p.length → p[i]? = tok[i % tok.length]? := by
  simp [isCyc, List.all_eq_true, List.mem_range]

theorem flatten_replicate_getElem? (tok : Str) (htok : tok ≠ []) :
    ∀ (k i : Nat), i < k * tok.length → (List.replicate k tok).flatten[i]? = tok[i % tok.length]? := by
  have hpos : 0 < tok.length := List.length_pos_iff.mpr htok
  intro k
  induction k with
  | zero => intro i h; simp at h
  | succ k ih =>
    intro i h
    rw [List.replicate_succ, List.flatten_cons]
    by_cases hi : i < tok.length
    · rw [List.getElem?_append_left hi, Nat.mod_eq_of_lt hi]
    · have hi' : tok.length ≤ i := Nat.le_of_not_lt hi
      rw [List.getElem?_append_right hi', ih (i - tok.length) (by rw [Nat.succ_mul] at h; omega)]
      rw [Nat.mod_eq_sub_mod hi']

theorem padToken_spec (tok : Str) (htok : tok ≠ []) (rep : Bool) (count c : Int) (hc : 0 ≤ c)
    (h1 : rep = true → count = c) (h2 : rep = false → c ≤ tok.length) :
    ∃ p, padToken tok rep count c = .ok p ∧ p.length = c.toNat ∧ isCyc tok p = true := by
  have hpos : 0 < tok.length := List.length_pos_iff.mpr htok
  cases rep with
  | true =>
    have hcount := h1 rfl
    subst hcount
    have hlen : (List.replicate count.toNat tok).flatten.length = count.toNat * tok.length := by
      simp [List.length_flatten, List.sum_replicate_nat]
    have hge : count.toNat ≤ count.toNat * tok.length := Nat.le_mul_of_pos_right _ hpos
    refine ⟨(List.replicate count.toNat tok).flatten.take count.toNat, ?_, ?_, ?_⟩
    · unfold padToken goRepeat goSlice Outcome.bind
      simp only [if_true]
      rw [if_neg (by omega)]
      simp only []
      rw [if_pos (by rw [hlen]; omega)]
      simp
    · rw [List.length_take, hlen]; omega
    · rw [isCyc_iff]
      intro i hi
      rw [List.length_take, hlen] at hi
      rw [List.getElem?_take_of_lt (by omega)]
      exact flatten_replicate_getElem? tok htok _ _ (by omega)
  | false =>
    have hle := h2 rfl
    refine ⟨tok.take c.toNat, ?_, ?_, ?_⟩
    · unfold padToken goSlice Outcome.bind
      simp only [Bool.false_eq_true, if_false]
      rw [if_pos (by omega)]
      simp
    · rw [List.length_take]; omega
    · rw [isCyc_iff]
      intro i hi
      rw [List.length_take] at hi
      rw [List.getElem?_take_of_lt (by omega), Nat.mod_eq_of_lt (by omega)]

theorem isPrefixOf_iff_take (t s : Str) : t.isPrefixOf s = true ↔ s.take t.length = t := by
  rw [List.isPrefixOf_iff_prefix, List.prefix_iff_eq_take]
  exact eq_comm

theorem isSuffixOf_iff_drop (t s : Str) : t.isSuffixOf s = true ↔ s.drop (s.length - t.length) = t := by
  rw [List.isSuffixOf_iff_suffix, List.suffix_iff_eq_drop]
  exact eq_comm

theorem foldl_snoc_eq_map {α β : Type} (f : α → β) (l : List α) (acc : List β) :
    l.foldl (fun res p => res ++ [f p]) acc = acc ++ l.map f := by
  induction l generalizing acc with
  | nil => simp
  | cons x r ih => simp [ih]

theorem foldl_append_eq_flatMap {α β : Type} (f : α → List β) (l : List α) (acc : List β) :
    l.foldl (fun sb p => sb ++ f p) acc = acc ++ l.flatMap f := by
  induction l generalizing acc with
  | nil => simp
  | cons x r ih => simp [ih]

theorem rangeAux_index_ge (i k : Nat) (s : Str) : ∀ p ∈ rangeAux i k s, i ≤ p.1 := by
  induction s generalizing i k with
  | nil => simp [rangeAux]
  | cons b rest ih =>
    cases k with
    | zero =>
      simp only [rangeAux, List.mem_cons]
      rintro p (rfl | hp)
      · exact Nat.le_refl _
      · exact Nat.le_of_succ_le (ih _ _ p hp)
    | succ k =>
      simp only [rangeAux]
      intro p hp
      exact Nat.le_of_succ_le (ih _ _ p hp)

/-- a list with at least two elements is `x :: mid ++ [y]` -/
theorem two_ends {α : Type} (l : List α) (h : 2 ≤ l.length) : ∃ x mid y, l = x :: (mid ++ [y]) := by
  cases l with
  | nil => simp at h
  | cons x t =>
    have ht : t ≠ [] := by intro e; subst e; simp at h
    exact ⟨x, t.dropLast, t.getLast ht, by rw [List.dropLast_concat_getLast ht]⟩

theorem revLoop_spec (fuel : Nat) : ∀ (pre mid post : List Rune), mid.length ≤ 2 * fuel + 1 →
    revLoop fuel (pre ++ mid ++ post) pre.length ((pre.length : Int) + mid.length - 1) =
      .ok (pre ++ mid.reverse ++ post) := by
  induction fuel with
  | zero =>
    intro pre mid post h
    have : mid.reverse = mid := by
      match mid, h with
      | [], _ => rfl
      | [_], _ => rfl
    simp [revLoop, this]
  | succ fuel ih =>
    intro pre mid post h
    by_cases h2 : 2 ≤ mid.length
    · obtain ⟨x, m, y, rfl⟩ := two_ends mid h2
      simp only [List.length_cons, List.length_append, List.length_nil] at h ⊢
      unfold revLoop
      rw [if_pos (by omega), if_neg (by omega)]
      have hj : ((pre.length : Int) + ((m.length + (0 + 1) + 1 : Nat) : Int) - 1).toNat = pre.length + m.length + 1 := by omega
      rw [hj]
      have hx : (pre ++ x :: (m ++ [y]) ++ post)[pre.length]? = some x := by simp
      have hy : (pre ++ x :: (m ++ [y]) ++ post)[pre.length + m.length + 1]? = some y := by
        simp [Nat.add_assoc]
      rw [hx, hy]
      simp only []
      have hset : ((pre ++ x :: (m ++ [y]) ++ post).set pre.length y).set (pre.length + m.length + 1) x =
          (pre ++ [y]) ++ m ++ (x :: post) := by
        simp [Nat.add_assoc]
      rw [hset]
      have := ih (pre ++ [y]) m (x :: post) (by omega)
      simp only [List.length_append, List.length_cons, List.length_nil] at this
      have hjj : ((pre.length : Int) + ((m.length + (0 + 1) + 1 : Nat) : Int) - 1 - 1) = ((pre.length + (0 + 1) : Nat) : Int) + m.length - 1 := by omega
      rw [hjj, this]
      simp
    · have : mid.reverse = mid := by
        match mid, h2 with
        | [], _ => rfl
        | [_], _ => rfl
        | _ :: _ :: _, h2 => simp at h2
      unfold revLoop
      rw [if_neg (by omega), this]

theorem substr_eq_spec_aux (s : Str) (offset length : Int) :
    substr s offset length = .ok (substrSpec s offset length) := by
  unfold substr substrLen substrEnd goSlice substrSpec Model.C15.abs inRange
  simp only [Bool.not_and, Bool.or_eq_true, Bool.not_eq_eq_eq_not, Bool.not_true, decide_eq_false_iff_not,
    ge_iff_le, gt_iff_lt]
  have hn : (0 : Int) ≤ (s.length : Int) := Int.natCast_nonneg _
  generalize (s.length : Int) = n at *
  repeat' split
  all_goals first | rfl | omega | (congr 3 <;> omega)

theorem toLower_eq_spec_aux (lo : Rune → Rune) (s : Str) : toLower lo s = lowerSpec lo s := by
  unfold toLower lowerSpec runes
  rw [foldl_snoc_eq_map (fun p : Nat × Rune => lo p.2)]
  simp [List.map_map, Function.comp_def]

theorem toUpper_eq_spec_aux (up : Rune → Rune) (s : Str) : toUpper up s = upperSpec up s := by
  unfold toUpper upperSpec runes
  rw [foldl_snoc_eq_map (fun p : Nat × Rune => up p.2)]
  simp [List.map_map, Function.comp_def]

theorem capitalize_eq_spec_aux (lo up : Rune → Rune) (s : Str) : capitalize lo up s = capSpec lo up s := by
  unfold capitalize capSpec runes rangeStr
  rw [foldl_snoc_eq_map (fun p : Nat × Rune => if p.1 = 0 then up p.2 else lo p.2)]
  cases s with
  | nil => simp [rangeAux, encodeAll]
  | cons b rest =>
    simp only [rangeAux, List.map_cons, List.nil_append, if_true]
    congr 2
    rw [List.map_map]
    apply List.map_congr_left
    intro p hp
    have := rangeAux_index_ge _ _ _ p hp
    simp only [Function.comp]
    rw [if_neg (by omega)]

end GoguVerif.Lemmas.C15
