import GoguVerif.Model.StoreHelpers4
import GoguVerif.Lemmas.C16Helpers3
import GoguVerif.Theorems.C16Helpers
import GoguVerif.Theorems.C13
import GoguVerif.Theorems.C14
/-!
# Lemmas for the fourth batch of store-level helper models (C16)
-/
set_option autoImplicit false
namespace GoguVerif.Lemmas.C16Helpers4
open GoguVerif Model.Store Model.StoreHelpers Model.StoreHelpers3 Model.StoreHelpers4 Lemmas.C16Helpers
open Theorems.C16

/-! ## Flatten: what the `any` argument shows -/

mutual
/-- the value the `any` argument shows in store `σ`, for `Model.C12.flatten` -/
def vals12 (σ : Store) : SNested → Model.C12.Nested Int
  | .leaf v => .leaf v
  | .slice s => .slice (elems σ s)
  | .list vs => .list (vals12List σ vs)
  | .bad => .bad
def vals12List (σ : Store) : List SNested → List (Model.C12.Nested Int)
  | [] => []
  | v :: vs => vals12 σ v :: vals12List σ vs
end

mutual
/-- the same value as a `Spec.C11.Nested`, for `Model.C11.union` -/
def vals11 (σ : Store) : SNested → Spec.C11.Nested Int
  | .leaf v => .leaf v
  | .slice s => .slice (elems σ s)
  | .list vs => .list (vals11List σ vs)
  | .bad => .bad
def vals11List (σ : Store) : List SNested → List (Spec.C11.Nested Int)
  | [] => []
  | v :: vs => vals11 σ v :: vals11List σ vs
end

/-- the store-level run `r` simulates the value-level answer `o` (an error is an error; a result is a
result showing the same elements, with the builder invariant kept) -/
def FlatSim (σ0 : Store) (o : Option (List Int)) (r : Option (Store × Slice)) : Prop :=
  match o with
  | none => r = none
  | some l => ∃ σ' acc', r = some (σ', acc') ∧ Inv σ0 σ' acc' ∧ elems σ' acc' = l

mutual
theorem baseFlattenStore_sim12 {σ0 : Store} : (n : SNested) → (σ : Store) → (acc : Slice) →
    SNested.WFAll σ0 n → Inv σ0 σ acc →
    FlatSim σ0 (Model.C12.baseFlatten (elems σ acc) (vals12 σ0 n)) (baseFlattenStore σ acc n)
  | .leaf v, σ, acc, _, hinv => by
    simp only [vals12, Model.C12.baseFlatten, baseFlattenStore, FlatSim]
    exact ⟨_, _, rfl, hinv.append v, (append_spec hinv.wf v).2.1⟩
  | .slice s, σ, acc, hw, hinv => by
    simp only [vals12, Model.C12.baseFlatten, baseFlattenStore, FlatSim]
    have hw' : WF σ0 s := by simpa [SNested.WFAll] using hw
    refine ⟨(appendMany σ acc (elems σ s)).1, (appendMany σ acc (elems σ s)).2, rfl, hinv.appendMany _, ?_⟩
    rw [(appendMany_post hinv.wf _).elems, (hinv.arg hw').2.2]
  | .bad, σ, acc, _, _ => by
    simp only [vals12, Model.C12.baseFlatten, baseFlattenStore, FlatSim]
  | .list vs, σ, acc, hw, hinv => by
    simp only [vals12, Model.C12.baseFlatten, baseFlattenStore]
    exact flattenRangeStore_sim12 vs σ acc (by simpa [SNested.WFAll] using hw) hinv
theorem flattenRangeStore_sim12 {σ0 : Store} : (vs : List SNested) → (σ : Store) → (acc : Slice) →
    SNested.WFList σ0 vs → Inv σ0 σ acc →
    FlatSim σ0 (Model.C12.flattenRange (elems σ acc) (vals12List σ0 vs)) (flattenRangeStore σ acc vs)
  | [], σ, acc, _, hinv => by
    simp only [vals12List, Model.C12.flattenRange, flattenRangeStore, FlatSim]
    exact ⟨_, _, rfl, hinv, rfl⟩
  | v :: rest, σ, acc, hw, hinv => by
    have hw' : SNested.WFAll σ0 v ∧ SNested.WFList σ0 rest := by simpa [SNested.WFList] using hw
    have h1 := baseFlattenStore_sim12 v σ acc hw'.1 hinv
    simp only [vals12List, Model.C12.flattenRange, flattenRangeStore]
    cases ho : Model.C12.baseFlatten (elems σ acc) (vals12 σ0 v) with
    | none =>
      rw [ho] at h1
      simp only [FlatSim] at h1
      simp only [h1, FlatSim]
    | some l =>
      rw [ho] at h1
      obtain ⟨σ', acc', e, hinv', he⟩ := h1
      simp only [e]
      have h2 := flattenRangeStore_sim12 rest σ' acc' hw'.2 hinv'
      rw [he] at h2
      exact h2
end

mutual
theorem baseFlattenStore_sim11 {σ0 : Store} : (n : SNested) → (σ : Store) → (acc : Slice) →
    SNested.WFAll σ0 n → Inv σ0 σ acc →
    FlatSim σ0 (Model.C11.baseFlatten (elems σ acc) (vals11 σ0 n)) (baseFlattenStore σ acc n)
  | .leaf v, σ, acc, _, hinv => by
    simp only [vals11, Model.C11.baseFlatten, baseFlattenStore, FlatSim]
    exact ⟨_, _, rfl, hinv.append v, (append_spec hinv.wf v).2.1⟩
  | .slice s, σ, acc, hw, hinv => by
    simp only [vals11, Model.C11.baseFlatten, baseFlattenStore, FlatSim]
    have hw' : WF σ0 s := by simpa [SNested.WFAll] using hw
    refine ⟨(appendMany σ acc (elems σ s)).1, (appendMany σ acc (elems σ s)).2, rfl, hinv.appendMany _, ?_⟩
    rw [(appendMany_post hinv.wf _).elems, (hinv.arg hw').2.2]
  | .bad, σ, acc, _, _ => by
    simp only [vals11, Model.C11.baseFlatten, baseFlattenStore, FlatSim]
  | .list vs, σ, acc, hw, hinv => by
    simp only [vals11, Model.C11.baseFlatten, baseFlattenStore]
    exact flattenRangeStore_sim11 vs σ acc (by simpa [SNested.WFAll] using hw) hinv
theorem flattenRangeStore_sim11 {σ0 : Store} : (vs : List SNested) → (σ : Store) → (acc : Slice) →
    SNested.WFList σ0 vs → Inv σ0 σ acc →
    FlatSim σ0 (Model.C11.flattenLoop (elems σ acc) (vals11List σ0 vs)) (flattenRangeStore σ acc vs)
  | [], σ, acc, _, hinv => by
    simp only [vals11List, Model.C11.flattenLoop, flattenRangeStore, FlatSim]
    exact ⟨_, _, rfl, hinv, rfl⟩
  | v :: rest, σ, acc, hw, hinv => by
    have hw' : SNested.WFAll σ0 v ∧ SNested.WFList σ0 rest := by simpa [SNested.WFList] using hw
    have h1 := baseFlattenStore_sim11 v σ acc hw'.1 hinv
    simp only [vals11List, Model.C11.flattenLoop, flattenRangeStore]
    cases ho : Model.C11.baseFlatten (elems σ acc) (vals11 σ0 v) with
    | none =>
      rw [ho] at h1
      simp only [FlatSim] at h1
      simp only [h1, FlatSim]
    | some l =>
      rw [ho] at h1
      obtain ⟨σ', acc', e, hinv', he⟩ := h1
      simp only [e]
      have h2 := flattenRangeStore_sim11 rest σ' acc' hw'.2 hinv'
      rw [he] at h2
      exact h2
end

/-! ## Range -/

/-- what the store-level call answers when the value-level model answers `o`: `make([]T, 0, 0)` + one
`append` per element of the answer -/
def liftOut (σ : Store) : Spec.C13.Out (List Int) → Res (Store × Slice)
  | .ok l => .ok (appendEach (alloc σ 0 0).1 (alloc σ 0 0).2 l)
  | .err => .err
  | .panic => .panic
  | .hang => .hang

theorem rangeUpLoop_eq (step e : Int) (f : Nat) (i : Int) (σ : Store) (res : Slice) (acc : List Int) :
    (Model.C13.rangeUp f i step e acc = .hang ∧ rangeUpLoop f i step e σ res = none) ∨
    ∃ ws, Model.C13.rangeUp f i step e acc = .ok (acc ++ ws) ∧
      rangeUpLoop f i step e σ res = some (appendEach σ res ws) := by
  induction f generalizing i σ res acc with
  | zero => exact Or.inl ⟨rfl, rfl⟩
  | succ f ih =>
    by_cases hi : i < e
    · simp only [Model.C13.rangeUp, rangeUpLoop, hi, if_true]
      rcases ih (i + step) (append σ res i).1 (append σ res i).2 (acc ++ [i]) with ⟨h1, h2⟩ | ⟨ws, h1, h2⟩
      · exact Or.inl ⟨h1, h2⟩
      · exact Or.inr ⟨i :: ws, by rw [h1, List.append_assoc]; rfl, by rw [h2]; rfl⟩
    · simp only [Model.C13.rangeUp, rangeUpLoop, hi, if_false]
      exact Or.inr ⟨[], by simp, rfl⟩

theorem abs_eq (x : Int) : Model.StoreHelpers.abs x = Model.C13.Abs x := rfl

theorem rangeDownLoop_eq (step e : Int) (f : Nat) (i : Int) (σ : Store) (res : Slice) (acc : List Int) :
    (Model.C13.rangeDown f i step e acc = .hang ∧ rangeDownLoop f i step e σ res = none) ∨
    ∃ ws, Model.C13.rangeDown f i step e acc = .ok (acc ++ ws) ∧
      rangeDownLoop f i step e σ res = some (appendEach σ res ws) := by
  induction f generalizing i σ res acc with
  | zero => exact Or.inl ⟨rfl, rfl⟩
  | succ f ih =>
    by_cases hi : e < i
    · simp only [Model.C13.rangeDown, rangeDownLoop, hi, if_true, abs_eq]
      rcases ih (i - Model.C13.Abs step) (append σ res i).1 (append σ res i).2 (acc ++ [i]) with
        ⟨h1, h2⟩ | ⟨ws, h1, h2⟩
      · exact Or.inl ⟨h1, h2⟩
      · exact Or.inr ⟨i :: ws, by rw [h1, List.append_assoc]; rfl, by rw [h2]; rfl⟩
    · simp only [Model.C13.rangeDown, rangeDownLoop, hi, if_false]
      exact Or.inr ⟨[], by simp, rfl⟩

/-- the two loops of `Range` on the slice `make([]T, 0, 0)` answer what the value-level loops answer -/
theorem rangeLoopsStore_eq (σ : Store) (start step e : Int) :
    (match (if e > 0 then rangeUpLoop (Model.StoreHelpers4.rangeFuel start e) start step e (alloc σ 0 0).1 (alloc σ 0 0).2
            else rangeDownLoop (Model.StoreHelpers4.rangeFuel start e) start step e (alloc σ 0 0).1 (alloc σ 0 0).2) with
      | some q => Res.ok q
      | none => Res.hang) = liftOut σ (Model.C13.rangeLoops start step e) := by
  unfold Model.C13.rangeLoops
  have hf : Model.StoreHelpers4.rangeFuel start e = Model.C13.rangeFuel start e := rfl
  rw [hf]
  by_cases he : e > 0
  · simp only [he, if_true]
    rcases rangeUpLoop_eq step e (Model.C13.rangeFuel start e) start (alloc σ 0 0).1 (alloc σ 0 0).2 [] with
      ⟨h1, h2⟩ | ⟨ws, h1, h2⟩
    · rw [h1, h2]; rfl
    · rw [h1, h2]; rfl
  · simp only [he, if_false]
    rcases rangeDownLoop_eq step e (Model.C13.rangeFuel start e) start (alloc σ 0 0).1 (alloc σ 0 0).2 [] with
      ⟨h1, h2⟩ | ⟨ws, h1, h2⟩
    · rw [h1, h2]; rfl
    · rw [h1, h2]; rfl

/-- **Range** is what the value-level model answers, built by `make` + `append`s -/
theorem rangeStore_eq (σ : Store) (args : Slice) (h : WF σ args) :
    rangeStore σ args = liftOut σ (Model.C13.Range (elems σ args)) := by
  have harg := (Inv.alloc σ 0 0).arg h
  have hlen := elems_length h
  have hrd : ∀ i, Model.Store.read (alloc σ 0 0).1 args i = (elems σ args)[i]? := fun i => by
    rw [read_eq harg.2.1, harg.2.2]
  unfold rangeStore Model.C13.Range
  simp only
  rcases hl : elems σ args with _ | ⟨a, _ | ⟨b, _ | ⟨c, _ | ⟨d, l⟩⟩⟩⟩
  · have h0 : args.len = 0 := by rw [← hlen, hl]; rfl
    simp only [rangeArgs, h0, List.length_nil, show ¬ (0 > 3) by omega, if_false]
    exact rangeLoopsStore_eq σ 0 0 0
  · have h0 : args.len = 1 := by rw [← hlen, hl]; rfl
    have r0 := hrd 0
    rw [hl] at r0
    simp only [rangeArgs, h0, List.length_cons, List.length_nil, show ¬ (0 + 1 > 3) by omega,
      if_false, r0, List.getElem?_cons_zero]
    exact rangeLoopsStore_eq σ 0 1 a
  · have h0 : args.len = 2 := by rw [← hlen, hl]; rfl
    have r0 := hrd 0
    have r1 := hrd 1
    rw [hl] at r0 r1
    simp only [rangeArgs, h0, List.length_cons, List.length_nil, show ¬ (0 + 1 + 1 > 3) by omega,
      if_false, r0, r1, List.getElem?_cons_zero, List.getElem?_cons_succ]
    exact rangeLoopsStore_eq σ a 1 b
  · have h0 : args.len = 3 := by rw [← hlen, hl]; rfl
    have r0 := hrd 0
    have r1 := hrd 1
    have r2 := hrd 2
    rw [hl] at r0 r1 r2
    simp only [rangeArgs, h0, List.length_cons, List.length_nil, show ¬ (0 + 1 + 1 + 1 > 3) by omega,
      if_false, r0, r1, r2, List.getElem?_cons_zero, List.getElem?_cons_succ]
    by_cases c1 : a > c ∧ c > 0
    · simp only [c1, and_self, if_true]; rfl
    · simp only [c1, if_false]
      by_cases c2 : b = 0
      · simp only [c2, if_true]; rfl
      · simp only [c2, if_false]
        by_cases c3 : b < 0 ∧ c > a
        · simp only [c3, and_self, if_true]; rfl
        · simp only [c3, if_false]
          exact rangeLoopsStore_eq σ a b c
  · have h0 : args.len = l.length + 4 := by rw [← hlen, hl]; rfl
    have h1 : args.len > 3 := by omega
    have h2 : (a :: b :: c :: d :: l).length > 3 := by simp only [List.length_cons]; omega
    simp only [h1, h2, if_true]; rfl

/-! ## Keys, Values, MapCollection -/

theorem mapFillLoop_eq_writeAll (g : Int → Int → Int) (res : Slice) (l : List (Int × Int)) (idx : Nat) (σ : Store) :
    mapFillLoop g res l idx σ = writeAll σ res idx (l.map (fun e => g e.1 e.2)) := by
  induction l generalizing idx σ with
  | nil => rfl
  | cons e rest ih =>
    obtain ⟨k, v⟩ := e
    simp only [mapFillLoop, List.map_cons, writeAll]
    cases write σ res idx (g k v) with
    | none => rfl
    | some σ' => exact ih (idx + 1) σ'

/-- a run of indexed writes into the (fresh) result is a program of the discipline -/
theorem run_writeAll {σ0 : Store} (res : Slice) (regs : List Slice) (r : Nat) (hr : regs[r]? = some res)
    (vs : List Int) (idx : Nat) (σ : Store) (hinv : Inv σ0 σ res) (hi : idx + vs.length ≤ res.len) :
    ∃ σ', writeAll σ res idx vs = some σ' ∧
      run σ0.length { σ := σ, regs := regs } (Theorems.C16Helpers.writesFrom r idx vs) = { σ := σ', regs := regs } := by
  induction vs generalizing idx σ with
  | nil => exact ⟨σ, rfl, rfl⟩
  | cons v vs ih =>
    simp only [List.length_cons] at hi
    obtain ⟨σ1, hw, hinv1, _⟩ := hinv.write (show idx < res.len by omega) v
    obtain ⟨σ', h1, h2⟩ := ih (idx + 1) σ1 hinv1 (by omega)
    refine ⟨σ', by simp only [writeAll, hw]; exact h1, ?_⟩
    simp only [Theorems.C16Helpers.writesFrom, run, step, hr, hinv.fresh, if_true, hw]
    exact h2

/-- the common body of `Keys` / `Values` / `MapCollection`: never panics; the result shows one value per
entry, in the visiting order; builder invariant; and it is a program of the discipline -/
theorem mapFillStoreIn_spec (g : Int → Int → Int) (order : List (Int × Int) → List (Int × Int)) (σ : Store)
    (μ : MStore) (m : Nat) (hlen : (order (mget μ m)).length = (mget μ m).length) (regs : List Slice) :
    ∃ σ' res, mapFillStoreIn g order σ μ m = some (σ', res) ∧
      elems σ' res = (order (mget μ m)).map (fun e => g e.1 e.2) ∧ Inv σ σ' res ∧
      run σ.length { σ := σ, regs := regs }
        (Instr.alloc (mget μ m).length (mget μ m).length ::
          Theorems.C16Helpers.writesFrom regs.length 0 ((order (mget μ m)).map (fun e => g e.1 e.2))) =
        { σ := σ', regs := regs ++ [res] } := by
  have hinv := Inv.alloc σ (mget μ m).length (mget μ m).length
  have hspec := alloc_spec σ (mget μ m).length (mget μ m).length
  have hvl : ((order (mget μ m)).map (fun e => g e.1 e.2)).length = (mget μ m).length := by
    rw [List.length_map, hlen]
  have hrl : (alloc σ (mget μ m).length (mget μ m).length).2.len = (mget μ m).length := rfl
  obtain ⟨σ', w1, w2, w3⟩ := writeAll_spec hinv.wf ((order (mget μ m)).map (fun e => g e.1 e.2)) 0
    (by rw [hvl, hrl]; omega)
  obtain ⟨σ'', r1, r2⟩ := run_writeAll (alloc σ (mget μ m).length (mget μ m).length).2
    (regs ++ [(alloc σ (mget μ m).length (mget μ m).length).2]) regs.length (by simp)
    ((order (mget μ m)).map (fun e => g e.1 e.2)) 0 _ hinv (by rw [hvl, hrl]; omega)
  rw [w1] at r1
  cases r1
  refine ⟨σ', (alloc σ (mget μ m).length (mget μ m).length).2, ?_, ?_, hinv.inplace w3, ?_⟩
  · simp only [mapFillStoreIn, mapFillLoop_eq_writeAll, w1]
  · rw [w2, hspec.2.1, Nat.zero_add, hvl]
    simp
  · simp only [run, step]
    exact r2

/-! ## Pluck -/

theorem c14_pluckLoop_acc (key : Int) (ms : List (Model.C14.GoMap Int Int)) (res : List Int) :
    Model.C14.pluckLoop key ms res = res ++ Model.C14.pluckLoop key ms [] := by
  rw [Lemmas.C14.pluckLoop_eq, Lemmas.C14.pluckLoop_eq key ms []]
  simp

theorem pluckLoopS_eq (μ : MStore) (key : Int) (ms : List Nat) (σ : Store) (res : Slice) :
    pluckLoopS μ key ms σ res = appendEach σ res (Model.C14.pluckLoop key (ms.map (mget μ)) []) := by
  induction ms generalizing σ res with
  | nil => rfl
  | cons m rest ih =>
    simp only [pluckLoopS, List.map_cons, Model.C14.pluckLoop]
    cases hg : Model.C14.get? (Model.C14.FindByKey (fun k => decide (k = key)) (mget μ m)) key with
    | some x =>
      simp only []
      rw [ih, c14_pluckLoop_acc key _ ([] ++ _)]
      rfl
    | none => exact ih σ res

/-! ## FindAll, SliceToMap -/

/-- `m[k] = v` on a map that does not have the key appends the entry -/
theorem put_fresh (m : List (Int × Int)) (k v : Int) (h : ∀ e ∈ m, e.1 ≠ k) :
    Model.C14.put m k v = m ++ [(k, v)] := by
  induction m with
  | nil => rfl
  | cons e r ih =>
    obtain ⟨k', v'⟩ := e
    have hne : k' ≠ k := h (k', v') (by simp)
    simp only [Model.C14.put, hne, if_false, List.cons_append]
    rw [ih (fun e he => h e (by simp [he]))]

theorem findAllLoopS_eq (fn : Int → Bool) {σ : Store} {s : Slice} (h : WF σ s) (n k : Nat) (m : List (Int × Int))
    (hk : k + n = s.len) (hm : ∀ e ∈ m, e.1 < (k : Int)) :
    findAllLoopS fn σ s n k m = some (Model.C13.findAllLoop fn ((elems σ s).drop k) k m) := by
  induction n generalizing k m with
  | zero => simp [findAllLoopS, drop_len_nil h (show k = s.len by omega), Model.C13.findAllLoop]
  | succ n ih =>
    obtain ⟨v, hr, hd⟩ := read_drop h (show k < s.len by omega)
    simp only [findAllLoopS, hr, hd, Model.C13.findAllLoop]
    split
    · rw [put_fresh m k v (fun e he => by have := hm e he; omega)]
      refine ih (k + 1) _ (by omega) (fun e he => ?_)
      simp only [List.mem_append, List.mem_singleton] at he
      rcases he with he | rfl
      · have := hm e he; omega
      · simp only; omega
    · exact ih (k + 1) m (by omega) (fun e he => by have := hm e he; omega)

/-- a panic of the value-level model is `none` -/
def toOpt {α : Type} : Model.C14.Outcome α → Option α
  | .ok a => some a
  | .panic => none

theorem sliceToMapLoopS_eq {σ : Store} {s1 s2 : Slice} (h1 : WF σ s1) (h2 : WF σ s2) (n i : Nat)
    (r : List (Int × Int)) :
    sliceToMapLoopS σ s1 s2 n i r = toOpt (Model.C14.sliceToMapLoop (elems σ s1) (elems σ s2) n i r) := by
  induction n generalizing i r with
  | zero => rfl
  | succ n ih =>
    simp only [sliceToMapLoopS, Model.C14.sliceToMapLoop, read_eq h1, read_eq h2]
    cases (elems σ s1)[i]? <;> cases (elems σ s2)[i]? <;> first | rfl | exact ih _ _

end GoguVerif.Lemmas.C16Helpers4
