import GoguVerif.Theorems.C01NoPanicGen
#print axioms GoguVerif.Theorems.C01NoPanic.queue_go_total
#print axioms GoguVerif.Theorems.C01NoPanic.stack_go_total
#print axioms GoguVerif.Theorems.C01NoPanic.queue_concurrent_never_panics
#print axioms GoguVerif.Theorems.C01NoPanic.stack_concurrent_never_panics
