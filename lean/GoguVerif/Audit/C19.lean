import GoguVerif.Theorems.C19
import GoguVerif.Theorems.C19Handles
import GoguVerif.Theorems.C19Handles2
open GoguVerif.Theorems.C19
#print axioms SList.slist_init_repr
#print axioms SList.slist_each_observes
#print axioms SList.slist_step_refines
#print axioms SList.slist_step_inv
#print axioms SList.slist_run_from
#print axioms SList.slist_sequence
#print axioms SList.slist_no_panic
#print axioms DList.dlist_init_repr
#print axioms DList.dlist_each_observes
#print axioms DList.dlist_relink_repairs
#print axioms DList.dlist_next_ops_refine
#print axioms DList.dlist_step_refines
#print axioms DList.dlist_step_inv
#print axioms DList.dlist_run_from
#print axioms DList.dlist_sequence
#print axioms DList.dlist_no_panic
#print axioms DList.dlist_clear_repr
#print axioms DList.dlist_realises_dseq
#print axioms DList.f31_unshift_without_relink_loses_element
#print axioms Clauses.allowed_preserves_others
#print axioms Clauses.next_allowed
#print axioms Clauses.allowed_eq_next
#print axioms Clauses.fillFront_steps
#print axioms Clauses.deleteH_fresh
#print axioms Clauses.insertAfterH_fresh
#print axioms Clauses.insertBeforeH_fresh
#print axioms Clauses.moveIdx_follows_element
-- kept handles on the pointer-level models (Theorems/C19Handles.lean)
#print axioms GoguVerif.Theorems.C19H.SList.slist_find_handle
#print axioms GoguVerif.Theorems.C19H.SList.slist_deleteH_refines
#print axioms GoguVerif.Theorems.C19H.SList.slist_insertAfterH_refines
#print axioms GoguVerif.Theorems.C19H.SList.slist_nil_handle_refused
#print axioms GoguVerif.Theorems.C19H.SList.slist_step_tracks
#print axioms GoguVerif.Theorems.C19H.SList.excluded_stale_handle_slist
#print axioms GoguVerif.Theorems.C19H.SList.excluded_head_handle_slist
#print axioms GoguVerif.Theorems.C19H.DList.dlist_find_handle
#print axioms GoguVerif.Theorems.C19H.DList.dlist_nil_handle_refused
#print axioms GoguVerif.Theorems.C19H.DList.dlist_deleteH_refines_partial
#print axioms GoguVerif.Theorems.C19H.DList.dlist_insertAfterH_refines_partial
#print axioms GoguVerif.Theorems.C19H.DList.dlist_insertBeforeH_refines_partial
#print axioms GoguVerif.Theorems.C19H.moveIdx_pos
#print axioms GoguVerif.Theorems.C19H.SList.slist_kept_handle
#print axioms GoguVerif.Theorems.C19H.DList.excluded_stale_handle_dlist
-- kept handles, part 2 (Theorems/C19Handles2.lean): the DList side at any position, tracking, whole histories
#print axioms GoguVerif.Theorems.C19H.DList.dlist_deleteH_refines
#print axioms GoguVerif.Theorems.C19H.DList.dlist_insertAfterH_refines
#print axioms GoguVerif.Theorems.C19H.DList.dlist_insertBeforeH_refines
#print axioms GoguVerif.Theorems.C19H.DList.dlist_step_tracks
#print axioms GoguVerif.Theorems.C19H.DList.dlist_kept_handle
#print axioms GoguVerif.Theorems.C19H.DList.excluded_head_handle_dlist
#print axioms GoguVerif.Theorems.C19H.DList.excluded_copied_handle_dlist
-- mixed histories: handle operations in the middle (Theorems/C19Handles2.lean, section 3)
#print axioms GoguVerif.Theorems.C19H.allowedH_iff_nextH
#print axioms GoguVerif.Theorems.C19H.valid_move
#print axioms GoguVerif.Theorems.C19H.SList.slist_step_tracks_next
#print axioms GoguVerif.Theorems.C19H.SList.slist_mixed_history
#print axioms GoguVerif.Theorems.C19H.SList.excluded_mixed_slist
#print axioms GoguVerif.Theorems.C19H.DList.nextD_allowed
#print axioms GoguVerif.Theorems.C19H.DList.dlist_step_tracks_next
#print axioms GoguVerif.Theorems.C19H.DList.dlist_mixed_history
#print axioms GoguVerif.Theorems.C19H.DList.excluded_mixed_dlist
