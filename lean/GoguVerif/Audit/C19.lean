import GoguVerif.Theorems.C19
open GoguVerif.Theorems.C19
#print axioms SList.slist_init_repr
#print axioms SList.slist_each_observes
#print axioms SList.slist_step_refines
#print axioms SList.slist_step_inv
#print axioms SList.slist_run_from
#print axioms SList.slist_sequence
#print axioms SList.slist_no_panic
#print axioms DList.dlist_init_repr
#print axioms DList.dlist_each_observes
#print axioms DList.dlist_relink_repairs
#print axioms DList.dlist_next_ops_refine
#print axioms DList.dlist_step_refines
#print axioms DList.dlist_step_inv
#print axioms DList.dlist_run_from
#print axioms DList.dlist_sequence
#print axioms DList.dlist_no_panic
#print axioms DList.dlist_clear_repr
#print axioms DList.dlist_realises_dseq
#print axioms DList.f31_unshift_without_relink_loses_element
#print axioms Clauses.allowed_preserves_others
#print axioms Clauses.next_allowed
#print axioms Clauses.allowed_eq_next
#print axioms Clauses.fillFront_steps
