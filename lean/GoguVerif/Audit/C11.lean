import GoguVerif.Theorems.C11
open GoguVerif.Theorems.C11
#print axioms firstOccs_characterised
#print axioms firstOccs_append
#print axioms firstBy_characterised
#print axioms unique_spec
#print axioms uniqueBy_spec
#print axioms union_spec
#print axioms union_error_iff
#print axioms intersection_spec
#print axioms intersection_no_argument
#print axioms difference_spec
#print axioms without_spec
#print axioms differenceBy_eq
#print axioms differenceBy_spec
#print axioms intersectionBy_eq
#print axioms intersectionBy_spec
#print axioms intersectionBy_no_argument
#print axioms duplicate_spec
#print axioms duplicate_spec_insertion_order
#print axioms duplicateWithIndex_spec
#print axioms duplicateWithIndex_spec_insertion_order
#print axioms plain_results_nodup
#print axioms results_within_first_input
#print axioms dupCheck_iff
#print axioms dupIdxCheck_iff
#print axioms byCheck_iff
#print axioms unionCheck_iff
