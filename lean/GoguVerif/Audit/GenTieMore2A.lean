import GoguVerif.Theorems.GenTieMore2A
open GoguVerif.Theorems.GenTieMore2
#print axioms reverse_loop_tie
#print axioms reverse_loop_ok
#print axioms reverse_eq_reverse
#print axioms reverse_tie
#print axioms reverse_tie_arg
#print axioms reverse_zero_fuel
#print axioms reject_loop_tie
#print axioms reject_tie
#print axioms reject_tie_toList
#print axioms reject_eq_filter
#print axioms reject_zero_fuel
