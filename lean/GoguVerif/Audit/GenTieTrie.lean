import GoguVerif.Theorems.GenTieTrie
#print axioms GoguVerif.Theorems.GenTieTrie.toM_ofM
#print axioms GoguVerif.Theorems.GenTieTrie.byteAt_nat
#print axioms GoguVerif.Theorems.GenTieTrie.get_tie
#print axioms GoguVerif.Theorems.GenTieTrie.Get_tie
#print axioms GoguVerif.Theorems.GenTieTrie.Contains_tie
#print axioms GoguVerif.Theorems.GenTieTrie.Size_tie
#print axioms GoguVerif.Theorems.GenTieTrie.put_nil_tie
#print axioms GoguVerif.Theorems.GenTieTrie.put_nil_eq
#print axioms GoguVerif.Theorems.GenTieTrie.put_tie
#print axioms GoguVerif.Theorems.GenTieTrie.Put_tie
#print axioms GoguVerif.Theorems.GenTieTrie.collect_tie
#print axioms GoguVerif.Theorems.GenTieTrie.Keys_tie
#print axioms GoguVerif.Theorems.GenTieTrie.StartsWith_tie
