import GoguVerif.Theorems.GenTieMore
open GoguVerif.Theorems.GenTieMore
#print axioms duplicate_tie
#print axioms zip_tie
#print axioms unzip_tie
#print axioms findMinByKey_tie
#print axioms findMaxByKey_tie
#print axioms toSlice_tie
