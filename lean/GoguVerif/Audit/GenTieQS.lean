import GoguVerif.Theorems.GenTieQS
open GoguVerif.Theorems.GenTieQS
#print axioms queue_enqueue_tie
#print axioms queue_dequeue_tie
#print axioms queue_peek_tie
#print axioms queue_search_tie
#print axioms queue_size_tie
#print axioms queue_clear_tie
#print axioms stack_push_tie
#print axioms stack_pop_tie
#print axioms stack_peek_tie
#print axioms stack_search_tie
#print axioms stack_size_tie
