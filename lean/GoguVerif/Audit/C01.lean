import GoguVerif.Theorems.C01
open GoguVerif.Theorems.C01
#print axioms race_free
#print axioms deadlock_free
#print axioms table_ok
#print axioms table_sections_wellLocked
#print axioms containers_race_free
#print axioms containers_deadlock_free
#print axioms quiescent_is_init
#print axioms quiescent_admits_everyone
#print axioms can_always_leave
