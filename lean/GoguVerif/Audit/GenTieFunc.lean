import GoguVerif.Theorems.GenTieFunc
#print axioms GoguVerif.Theorems.GenTieFunc.get_cell
#print axioms GoguVerif.Theorems.GenTieFunc.val_get_cell
#print axioms GoguVerif.Theorems.GenTieFunc.isNone_get_cell
#print axioms GoguVerif.Theorems.GenTieFunc.set_cell
#print axioms GoguVerif.Theorems.GenTieFunc.set_cell_other
#print axioms GoguVerif.Theorems.GenTieFunc.after_tie
#print axioms GoguVerif.Theorems.GenTieFunc.before_tie
#print axioms GoguVerif.Theorems.GenTieFunc.once_tie
#print axioms GoguVerif.Theorems.GenTieFunc.retry_loop_tie
#print axioms GoguVerif.Theorems.GenTieFunc.retry_tie
#print axioms GoguVerif.Theorems.GenTieFunc.retryDelay_loop_tie
#print axioms GoguVerif.Theorems.GenTieFunc.retryWithDelay_tie
