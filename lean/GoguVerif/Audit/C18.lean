import GoguVerif.Theorems.C18
open GoguVerif.Theorems.C18
#print axioms after_runs_iff
#print axioms before_spec
#print axioms beforeTrace_post
#print axioms beforeTrace_pre
#print axioms once_runs_when_absent
#print axioms once_cached_when_live
#print axioms once_entry_life
#print axioms once_spec_no_expiry
#print axioms once_spec_within_life
#print axioms once_refines
#print axioms retry_spec
#print axioms retry_calls
#print axioms retryDelay_spaced
#print axioms retryDelay_gapped
#print axioms retryDelayTimes_instant
