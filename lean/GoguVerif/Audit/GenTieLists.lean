import GoguVerif.Theorems.GenTieLists
import GoguVerif.Theorems.GenTieDLists
/-! Axiom audit of the regenerated tie for the pointer-level linked lists. -/
#print axioms GoguVerif.Theorems.GenTieLists.slist_init_tie
#print axioms GoguVerif.Theorems.GenTieLists.slist_unshift_tie
#print axioms GoguVerif.Theorems.GenTieLists.slist_shift_tie
#print axioms GoguVerif.Theorems.GenTieLists.find_loop_tie
#print axioms GoguVerif.Theorems.GenTieLists.slist_find_tie
#print axioms GoguVerif.Theorems.GenTieLists.append_loop_tie
#print axioms GoguVerif.Theorems.GenTieLists.slist_append_tie
#print axioms GoguVerif.Theorems.GenTieLists.pop_loop_tie
#print axioms GoguVerif.Theorems.GenTieLists.slist_pop_tie
#print axioms GoguVerif.Theorems.GenTieLists.replace_loop_tie
#print axioms GoguVerif.Theorems.GenTieLists.slist_replace_tie
#print axioms GoguVerif.Theorems.GenTieLists.slist_insertAfter_tie
#print axioms GoguVerif.Theorems.GenTieLists.delete_loop_tie
#print axioms GoguVerif.Theorems.GenTieLists.slist_delete_tie
#print axioms GoguVerif.Theorems.GenTieLists.each_loop_tie
#print axioms GoguVerif.Theorems.GenTieLists.slist_each_tie
#print axioms GoguVerif.Theorems.GenTieLists.slist_each_log_tie
#print axioms GoguVerif.Theorems.GenTieLists.dlist_init_tie
#print axioms GoguVerif.Theorems.GenTieLists.dlist_find_loop_tie
#print axioms GoguVerif.Theorems.GenTieLists.dlist_find_tie
#print axioms GoguVerif.Theorems.GenTieLists.dlist_first_tie
#print axioms GoguVerif.Theorems.GenTieLists.dlist_val_tie
#print axioms GoguVerif.Theorems.GenTieLists.dlist_last_loop_tie
#print axioms GoguVerif.Theorems.GenTieLists.dlist_last_tie
