import GoguVerif.Theorems.C02
open GoguVerif.Theorems.C02
#print axioms lin_legal
#print axioms ret_after_lin
#print axioms lin_after_inv
#print axioms nothing_before_inv
#print axioms real_time_order
#print axioms lin_table_ok
#print axioms queue_linearizable
#print axioms stack_linearizable
#print axioms GoguVerif.Theorems.C02Fine.inv_step
#print axioms GoguVerif.Theorems.C02Fine.fine_refines_atomic
#print axioms fine_linearizable
#print axioms fine_history_is_atomic
#print axioms queueMeth_atomic
#print axioms queueMeth_readOnly
#print axioms queue_fine_linearizable
