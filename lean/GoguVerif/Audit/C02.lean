import GoguVerif.Theorems.C02
open GoguVerif.Theorems.C02
#print axioms lin_legal
#print axioms ret_after_lin
#print axioms lin_after_inv
#print axioms nothing_before_inv
#print axioms real_time_order
#print axioms lin_table_ok
#print axioms queue_linearizable
#print axioms stack_linearizable
