import GoguVerif.Theorems.C03
open GoguVerif.Theorems.C03
#print axioms swo_lt
#print axioms swo_gt
#print axioms swo_klt
#print axioms swo_kgt
#print axioms inv_init
#print axioms step_refines
#print axioms C03_partial
#print axioms delete_preserves_inv_false
#print axioms C03_full_false
#print axioms step_conserves
#print axioms C03_conservation
#print axioms delete_multiset
#print axioms peek_extremal
#print axioms pop_extremal
#print axioms peek_checked
#print axioms fromSlice_establishes
#print axioms convert_establishes
#print axioms fromSlice_terminates
#print axioms sort_spec
#print axioms sort_checked
#print axioms parent_matches_go
#print axioms step_patched
#print axioms C03_patched_partial
#print axioms delete_order_iff
