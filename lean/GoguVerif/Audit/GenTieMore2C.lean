import GoguVerif.Theorems.GenTieMore2C
open GoguVerif.Theorems.GenTieMore2
#print axioms contains_tie
#print axioms inter_scan_tie
#print axioms inter_loop_tie
#print axioms intersection_tie
#print axioms hasImage_tie
#print axioms interBy_scan_tie
#print axioms interBy_loop_tie
#print axioms intersectionBy_tie
