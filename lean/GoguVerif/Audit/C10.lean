import GoguVerif.Theorems.C10
open GoguVerif.Theorems.C10
#print axioms new_inv
#print axioms put_preserves_inv
#print axioms remove_preserves_inv
#print axioms step_refines
#print axioms run_refines_from
#print axioms btree_refines
#print axioms btree_never_panics
#print axioms get_put
#print axioms get_remove
#print axioms get_after_history
#print axioms traverse_ascending
#print axioms mem_traverse_iff
#print axioms size_eq_traverse_length
#print axioms ever_is_distinct_keys_put
#print axioms height_bound
#print axioms height_bound_strong
#print axioms fillAsc_exec
#print axioms dropAsc_exec
