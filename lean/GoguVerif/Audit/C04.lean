import GoguVerif.Theorems.C04
open GoguVerif.Theorems.C04
-- hypothesis on the comparator is satisfied by the harness comparators
#print axioms sto_lt
#print axioms sto_gt
-- invariant, abstraction, per-operation refinement
#print axioms inv_init
#print axioms abs_init
#print axioms absP_init
#print axioms inv_iff_sorted
#print axioms step_refines_patched
#print axioms inv_preserved
#print axioms step_no_panic
#print axioms step_refines_spec
-- whole histories
#print axioms bst_refines_spec_partial
#print axioms bst_refines_spec_partial_init
#print axioms bst_refines_spec_false
#print axioms bst_refines_spec_except_size
#print axioms size_characterisation
#print axioms size_partial
-- clauses of the property
#print axioms get?_eq_lookup
#print axioms after_spec
#print axioms abs_upsert
#print axioms abs_delete
#print axioms get_after_upsert_same
#print axioms get_after_upsert_other
#print axioms get_after_delete_same
#print axioms get_after_delete_other
#print axioms delete_errs_iff_absent
#print axioms delete_absent_root
#print axioms delete_two_children_successor
#print axioms traverse_eq_abs
#print axioms traverse_sorted
#print axioms traverse_keys_nodup
#print axioms traverse_mem_iff_get
-- tree-level lemmas the above rest on (Lemmas/C04.lean)
#print axioms GoguVerif.Lemmas.C04.isBst_iff_sorted
#print axioms GoguVerif.Lemmas.C04.get_spec
#print axioms GoguVerif.Lemmas.C04.min_spec
#print axioms GoguVerif.Lemmas.C04.upsertNode_spec
#print axioms GoguVerif.Lemmas.C04.delete_spec
#print axioms GoguVerif.Lemmas.C04.delete_absent
