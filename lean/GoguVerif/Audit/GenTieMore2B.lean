import GoguVerif.Theorems.GenTieMore2B
open GoguVerif.Theorems.GenTieMore2
#print axioms abs_tie
#print axioms range_loop1_tie
#print axioms range_loop2_tie
#print axioms range_loop3_tie
#print axioms range_loop4_tie
#print axioms range_loop5_tie
#print axioms range_loop6_tie
#print axioms range_loop7_tie
#print axioms range_loop8_tie
#print axioms range_tie
#print axioms range_tie_0
#print axioms range_tie_1
#print axioms range_tie_2
#print axioms range_tie_3
#print axioms range_tie_many
#print axioms range_tie_model
#print axioms range_tie_enough
#print axioms rangeRight_tie_of
#print axioms rangeRight_tie_model_of
#print axioms rangeRight_tie_enough_of
