import GoguVerif.Theorems.C16
open GoguVerif.Theorems.C16
#print axioms allow_lists_agree
#print axioms effects_ok
#print axioms effects_exact
#print axioms run_frame
#print axioms step_frame
#print axioms step_regs_fresh_or_view
#print axioms run_views_only
#print axioms write_back_same
#print axioms runInPlace_frame
#print axioms undisciplined_append_writes
