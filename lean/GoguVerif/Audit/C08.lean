import GoguVerif.Theorems.C08
open GoguVerif.Theorems.C08
-- A. refinement
#print axioms inv_init
#print axioms abs_init
#print axioms step_refines
#print axioms step_admitted
#print axioms run_admitted
#print axioms cache_refines_deadline_map
#print axioms run_refines
-- B. clauses, every instant
#print axioms expiry_pos
#print axioms expiry_nonpos
#print axioms get_some_iff
#print axioms get_none_iff
#print axioms set_ok
#print axioms set_blocked
#print axioms set_rejected
#print axioms set_ok_iff
#print axioms update_stores
#print axioms update_rejected
#print axioms get_assign
#print axioms delete_spec
#print axioms flush_spec
#print axioms deleteExpired_exact
#print axioms lookup_deleteExpired_iff
#print axioms deleteExpired_keeps_unexpiring
#print axioms isExpired_iff
#print axioms isExpired_iff_get
#print axioms count_eq
#print axioms listObs_spec
#print axioms mapToCache_spec
#print axioms mapToCache_order_irrelevant
-- C. all instants, all histories
#print axioms live_before_deadline
#print axioms expired_after_deadline
#print axioms unexpiring_forever
#print axioms positive_duration_entry
#print axioms janitor_purges
#print axioms cleanup_within_interval
#print axioms ticks_keep_live
-- D. clocked machine
#print axioms clocked_entry_lifecycle
