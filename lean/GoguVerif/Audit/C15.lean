import GoguVerif.Theorems.C15
open GoguVerif.Theorems.C15
#print axioms substr_eq_spec
#print axioms substr_never_panics
#print axioms splitAtIndex_spec
#print axioms splitAtIndex_monitor
#print axioms padLeft_spec
#print axioms padRight_spec
#print axioms pad_spec
#print axioms padLeft_empty_token
#print axioms padRight_empty_token
#print axioms pad_empty_token
#print axioms wrap_eq_spec
#print axioms unwrap_eq_spec
#print axioms unwrapSpec_holds
#print axioms unwrapHolds_unique
#print axioms unwrap_wrap
#print axioms unwrap_not_wrapped
#print axioms unwrap_holds
#print axioms wrapAllRune_eq_spec
#print axioms reverseStr_eq_spec
#print axioms toLower_eq_spec
#print axioms toUpper_eq_spec
#print axioms capitalize_eq_spec
#print axioms camelCase_domain_partial
#print axioms snakeCase_domain_partial
#print axioms asciiTable_ascii
