import GoguVerif.Theorems.GenTieHeap
open GoguVerif.Theorems.GenTieHeap
#print axioms swap_tie
#print axioms swap_neg
#print axioms parent_tie
#print axioms leftChild_tie
#print axioms rightChild_tie
#print axioms moveUp_tie
#print axioms moveDown_tie
#print axioms moveUp_model_tie
#print axioms moveDown_model_tie
#print axioms size_tie
#print axioms isEmpty_tie
#print axioms clear_tie
#print axioms peek_tie
#print axioms getValues_tie
#print axioms pop_tie
#print axioms push_step_tie
#print axioms push_tie
#print axioms moveUpF_mono
#print axioms moveUpF_hang
#print axioms moveUpF_enough
#print axioms pushAll_loop_tie
#print axioms pushAll_tie
