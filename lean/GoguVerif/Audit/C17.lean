import GoguVerif.Theorems.C17
open GoguVerif.Theorems.C17
#print axioms one_execution_per_key
#print axioms running_unique
#print axioms no_second_start
#print axioms running_until_fnEnd
#print axioms result_has_source
#print axioms hit_reads_cache
#print axioms cached_value_origin
#print axioms joiners_equal
#print axioms hit_never_starts
#print axioms live_value_served_without_invoking
#print axioms error_not_cached
#print axioms cache_written_only_on_success
#print axioms error_only_history_leaves_cache_empty
#print axioms execution_result_returned
#print axioms step_frame
#print axioms step_depends_on_own_key_only
#print axioms never_disabled_by_other_key
#print axioms lts_seq_hit
#print axioms lts_seq_miss
#print axioms memoizeSeq_meets_spec
