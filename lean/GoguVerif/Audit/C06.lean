import GoguVerif.Theorems.C06
open GoguVerif.Theorems.C06
#print axioms stack_step_refines
#print axioms stack_refines
#print axioms lifo_order
#print axioms peek_is_next_pop
#print axioms pop_empty
#print axioms size_step
#print axioms search_iff
#print axioms lstack_step_patched
#print axioms lstack_refines_patched_partial
#print axioms lstack_agrees_until_pop_partial
#print axioms lstack_full_fails_beneath
#print axioms lstack_full_fails_bottom
