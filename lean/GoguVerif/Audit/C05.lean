import GoguVerif.Theorems.C05
open GoguVerif.Theorems.C05
#print axioms queue_step_refines
#print axioms queue_refines
#print axioms lqueue_step_refines
#print axioms lqueue_run_refines
#print axioms lqueue_refines
#print axioms fifo_order
#print axioms peek_is_next_dequeue
#print axioms dequeue_empty
#print axioms size_step
#print axioms size_nonneg
#print axioms search_iff
