import GoguVerif.Theorems.C05
open GoguVerif.Theorems.C05
#print axioms queue_step_refines
#print axioms queue_refines
