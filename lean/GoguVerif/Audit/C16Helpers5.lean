import GoguVerif.Theorems.C16Helpers5
-- store-level models, fifth batch (Model/StoreHelpers5.lean): map-returning helpers
#print axioms GoguVerif.Theorems.C16Helpers5.MFresh.push
#print axioms GoguVerif.Theorems.C16Helpers5.MFresh.arg
#print axioms GoguVerif.Theorems.C16Helpers5.filterMap_refines
#print axioms GoguVerif.Theorems.C16Helpers5.filterMap_any_order
#print axioms GoguVerif.Theorems.C16Helpers5.mapValues_refines
#print axioms GoguVerif.Theorems.C16Helpers5.mapKeys_refines
#print axioms GoguVerif.Theorems.C16Helpers5.mapUnique_refines
#print axioms GoguVerif.Theorems.C16Helpers5.findByKey_refines
#print axioms GoguVerif.Theorems.C16Helpers5.pickBy_refines
#print axioms GoguVerif.Theorems.C16Helpers5.pick_refines
#print axioms GoguVerif.Theorems.C16Helpers5.c14_find_eq
#print axioms GoguVerif.Theorems.C16Helpers5.find_refines
#print axioms GoguVerif.Theorems.C16Helpers5.invert_refines
#print axioms GoguVerif.Theorems.C16Helpers5.filterMapCollection_refines
#print axioms GoguVerif.Theorems.C16Helpers5.filter2DMapCollection_refines
#print axioms GoguVerif.Theorems.C16Helpers5.partitionMap_refines
#print axioms GoguVerif.Theorems.C16Helpers5.groupBy_frame_partial
#print axioms GoguVerif.Theorems.C16Helpers5.duplicateWithIndex_frame_partial
#print axioms GoguVerif.Theorems.C16Helpers5.covered5_agree_with_table
#print axioms GoguVerif.Theorems.C16Helpers5.covered5_partial_agree_with_table
