import GoguVerif.Theorems.GenTieC14
open GoguVerif.Theorems.GenTieC14
#print axioms keys_tie
#print axioms values_tie
#print axioms mapValues_tie
#print axioms mapKeys_tie
#print axioms mapEvery_tie
#print axioms mapSome_tie
#print axioms mapContains_tie
#print axioms mapUnique_tie
#print axioms find_tie
#print axioms findKey_tie
#print axioms findByKey_tie
#print axioms invert_tie
#print axioms pluck_tie
#print axioms pick_tie
#print axioms pickBy_tie
#print axioms omit_tie
#print axioms omitBy_tie
#print axioms partitionMap_tie
#print axioms sliceToMap_tie
#print axioms filterMap_tie
#print axioms filterMapCollection_tie
#print axioms filter2DMapCollection_tie
