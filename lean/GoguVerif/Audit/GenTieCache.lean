import GoguVerif.Theorems.GenTieCache
open GoguVerif.Theorems.GenTieCache
#print axioms GoguVerif.Theorems.GenTieCache.rel_nil
#print axioms GoguVerif.Theorems.GenTieCache.consts_tie
#print axioms GoguVerif.Theorems.GenTieCache.store_eq
#print axioms GoguVerif.Theorems.GenTieCache.store_tie
#print axioms GoguVerif.Theorems.GenTieCache.add_tie
#print axioms GoguVerif.Theorems.GenTieCache.set_tie
#print axioms GoguVerif.Theorems.GenTieCache.setDefault_tie
#print axioms GoguVerif.Theorems.GenTieCache.get_tie
#print axioms GoguVerif.Theorems.GenTieCache.update_tie
#print axioms GoguVerif.Theorems.GenTieCache.delete_tie
#print axioms GoguVerif.Theorems.GenTieCache.Delete_tie
#print axioms GoguVerif.Theorems.GenTieCache.gDeleteExpiredLoop_spec
#print axioms GoguVerif.Theorems.GenTieCache.deleteExpired_tie
#print axioms GoguVerif.Theorems.GenTieCache.flush_tie
#print axioms GoguVerif.Theorems.GenTieCache.gListLoop_spec
#print axioms GoguVerif.Theorems.GenTieCache.list_tie
#print axioms GoguVerif.Theorems.GenTieCache.listObs_tie
#print axioms GoguVerif.Theorems.GenTieCache.count_tie
#print axioms GoguVerif.Theorems.GenTieCache.mapToCacheLoop_tie
#print axioms GoguVerif.Theorems.GenTieCache.mapToCache_tie
#print axioms GoguVerif.Theorems.GenTieCache.isExpired_tie
