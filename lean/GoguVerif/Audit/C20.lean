import GoguVerif.Theorems.C20More
import GoguVerif.Theorems.C20
import GoguVerif.Theorems.C20M
import GoguVerif.Theorems.C20Late
open GoguVerif.Theorems.C20
-- debounce
#print axioms debounce_fire_ok
#print axioms debounce_fire_exact
#print axioms debounce_between_advances
#print axioms debounce_at_most_once
#print axioms debounce_unique
#print axioms debounce_pending
#print axioms debounce_completeness
#print axioms fireOKb_iff
-- throttle
#print axioms throttle_spacing
#print axioms throttle_spacing_pairs
#print axioms throttle_triggered
#print axioms throttle_calls_epoch
#print axioms wake_one_permission
#print axioms throttle_blocked
#print axioms tcancel_spec
#print axioms stop_step
#print axioms no_permission_after_cancel
#print axioms cancel_releases_blocked
#print axioms in_period_trigger_dropped
#print axioms waiting_trigger_coalesced
-- delay
#print axioms delay_never_early
-- throttle: steps and positions
#print axioms throttle_step_one_permission
#print axioms trun_now
#print axioms trun_grants_prefix
#print axioms calls_positions
#print axioms throttle_trigger_position
-- delay: specification, at most once, not after stop, completeness
#print axioms delay_ok
#print axioms delay_at_most_once
#print axioms delay_no_run_after_stop
#print axioms delay_completeness
-- the debounce monitor accepts the model
#print axioms dmon_accepts_model
-- the delay monitor accepts the model
#print axioms lmon_accepts_model
-- the throttle monitor accepts the model (Theorems/C20M.lean)
#print axioms tmonStep_sync
#print axioms tmon_accepts_model
-- the delay monitor accepts the sorted log; the debounce kind's call-number translation
#print axioms lonFired_accepts_perm
#print axioms sortFires_perm
#print axioms lmon_accepts_model_sorted
#print axioms noOfPos_roundtrip
-- throttle: the callback as in the code; timers that run late (F36)
#print axioms GoguVerif.Theorems.C20Late.trunCode_eq_trun
#print axioms GoguVerif.Theorems.C20Late.late_spacing
#print axioms GoguVerif.Theorems.C20Late.late_spacing_pairs
#print axioms GoguVerif.Theorems.C20Late.late_old_violates
-- C20More
#print axioms GoguVerif.Theorems.C20More.pickFrom_mem
#print axioms GoguVerif.Theorems.C20More.wake_outcome
#print axioms GoguVerif.Theorems.C20More.advanceTo_none
#print axioms GoguVerif.Theorems.C20More.tcall_after_period
#print axioms GoguVerif.Theorems.C20More.wake_step_fields
#print axioms GoguVerif.Theorems.C20More.trigger_after_period_granted
#print axioms GoguVerif.Theorems.C20More.next_takes_waiting_permission
#print axioms GoguVerif.Theorems.C20More.tcall_in_period_trailing
#print axioms GoguVerif.Theorems.C20More.advanceTo_fires
#print axioms GoguVerif.Theorems.C20More.tstep_call_armed
#print axioms GoguVerif.Theorems.C20More.tstep_call_at_end
#print axioms GoguVerif.Theorems.C20More.trailing_trigger_kept
#print axioms GoguVerif.Theorems.C20More.kept_step
#print axioms GoguVerif.Theorems.C20More.kept_fold
#print axioms GoguVerif.Theorems.C20More.trailing_trigger_kept_eventually
#print axioms GoguVerif.Theorems.C20More.wake_shift
#print axioms GoguVerif.Theorems.C20More.advanceTo_shift
#print axioms GoguVerif.Theorems.C20More.tcall_shift
#print axioms GoguVerif.Theorems.C20More.tstep_shift
#print axioms GoguVerif.Theorems.C20More.fold_shift
#print axioms GoguVerif.Theorems.C20More.wake_n
#print axioms GoguVerif.Theorems.C20More.wake_congr
#print axioms GoguVerif.Theorems.C20More.fire_congr
#print axioms GoguVerif.Theorems.C20More.advanceTo_congr
#print axioms GoguVerif.Theorems.C20More.tcall_congr
#print axioms GoguVerif.Theorems.C20More.tpre_n
#print axioms GoguVerif.Theorems.C20More.advanceTo_n
#print axioms GoguVerif.Theorems.C20More.tstep_n
#print axioms GoguVerif.Theorems.C20More.tstep_congr
#print axioms GoguVerif.Theorems.C20More.fold_congr
#print axioms GoguVerif.Theorems.C20More.fold_n
#print axioms GoguVerif.Theorems.C20More.trun_n
#print axioms GoguVerif.Theorems.C20More.lost_forever_state
#print axioms GoguVerif.Theorems.C20More.not_trailing_trigger_in_period_lost_forever
#print axioms GoguVerif.Theorems.C20More.skipAt_const
#print axioms GoguVerif.Theorems.C20More.not_trailing_trigger_in_period_lost_forever'
-- debounce: goroutines of expired timers that start late (F37, F46)
#print axioms GoguVerif.Theorems.C20Late.dlrun_inv
#print axioms GoguVerif.Theorems.C20Late.dlate_runs_ok_partial
#print axioms GoguVerif.Theorems.C20Late.dlate_full_false
#print axioms GoguVerif.Theorems.C20Late.dl_lastEv
#print axioms GoguVerif.Theorems.C20Late.dlate_old_runs_after_cancel
#print axioms GoguVerif.Theorems.C20Late.dlate_old_runs_early
