import GoguVerif.Theorems.C09
open GoguVerif.Theorems.C09
#print axioms trie_init
#print axioms trie_step_refines
#print axioms trie_run_refines
#print axioms trie_refines
#print axioms reached_exists
#print axioms reached_spec
#print axioms put_empty_panics
#print axioms get_exact
#print axioms contains_exact
#print axioms not_put_not_reported
#print axioms size_distinct
#print axioms keys_sorted_complete
#print axioms startsWith_exact
#print axioms longestPrefix_exact
#print axioms observers_keep_map
#print axioms empty_rules
#print axioms size_eq_distinct
#print axioms inv_sorted
#print axioms lexLt_strict_total
