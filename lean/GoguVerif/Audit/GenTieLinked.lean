import GoguVerif.Theorems.GenTieLinked
#print axioms GoguVerif.Theorems.GenTieLinked.lqueue_new_tie
#print axioms GoguVerif.Theorems.GenTieLinked.lqueue_enqueue_tie
#print axioms GoguVerif.Theorems.GenTieLinked.lqueue_dequeue_tie
#print axioms GoguVerif.Theorems.GenTieLinked.lqueue_peek_tie
#print axioms GoguVerif.Theorems.GenTieLinked.lqueue_search_tie
#print axioms GoguVerif.Theorems.GenTieLinked.lqueue_size_tie
#print axioms GoguVerif.Theorems.GenTieLinked.lqueue_clear_tie
#print axioms GoguVerif.Theorems.GenTieLinked.lqueue_step_tie
#print axioms GoguVerif.Theorems.GenTieLinked.lqueue_run_tie
#print axioms GoguVerif.Theorems.GenTieLinked.lstack_new_tie
#print axioms GoguVerif.Theorems.GenTieLinked.lstack_push_tie
#print axioms GoguVerif.Theorems.GenTieLinked.lstack_pop_tie
#print axioms GoguVerif.Theorems.GenTieLinked.lstack_peek_tie
#print axioms GoguVerif.Theorems.GenTieLinked.lstack_search_tie
#print axioms GoguVerif.Theorems.GenTieLinked.lstack_size_tie
#print axioms GoguVerif.Theorems.GenTieLinked.lstack_step_tie
#print axioms GoguVerif.Theorems.GenTieLinked.lstack_run_tie
