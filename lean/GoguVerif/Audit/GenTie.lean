import GoguVerif.Theorems.GenTie
open GoguVerif.Theorems.GenTie
#print axioms sum_tie
#print axioms sumBy_tie
#print axioms indexOf_tie
#print axioms contains_tie
#print axioms every_tie
#print axioms some_tie
#print axioms findIndex_tie
#print axioms findMin_tie
#print axioms findMax_tie
#print axioms findMinBy_tie
#print axioms findMaxBy_tie
#print axioms min_tie
#print axioms max_tie
#print axioms abs_tie
#print axioms clamp_tie
#print axioms inRange_tie
#print axioms compare_tie
#print axioms equal_tie
#print axioms less_tie
#print axioms filter_tie
#print axioms partition_tie
