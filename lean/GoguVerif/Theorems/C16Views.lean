import GoguVerif.Theorems.C16Helpers
/-!
# C16 — views and in-place helpers: the exception to "an earlier result is never altered", stated and proved

The clause "a result a helper has returned is never altered by a later call on the same arguments" has one family of
exceptions that the property's own text creates: `Drop` and `Chunk` return VIEWS of their argument, and `Reverse` /
`Reject` (and the other in-place helpers) are allowed to rewrite their one argument.  A view of `s` taken earlier is
then altered by a later in-place call on `s`.  This file makes the exception precise:

* `inplace_alters_only_overlapping` — an in-place call on `s` can alter an earlier result `t` ONLY if `t` lies in the
  same backing array as `s` and overlaps the window of `s`: so results of non-view helpers (fresh storage, by the
  `…_refines` theorems) and views of OTHER arguments are never altered;
* `reverse_after_drop_alters_view` — the kernel-checked witness that the exception is real (so the monitor's rule
  `Spec.C16.pairOk`, which excuses exactly this case, does not excuse too much and the literal clause is indeed false
  for the pair (view helper, in-place helper on the same argument)).
-/
namespace GoguVerif.Theorems.C16Views
open GoguVerif.Model GoguVerif.Model.Store GoguVerif.Model.StoreHelpers GoguVerif.Theorems.C16Helpers

/-- An in-place run on `s` alters an earlier result `t` only when `t` is a view into the window of `s`. -/
theorem inplace_alters_only_overlapping {σ σ' : Store} {s t : Slice} (hp : InPlace σ σ' s) (ht : WF σ t)
    (hchg : elems σ' t ≠ elems σ t) :
    t.arr = s.arr ∧ s.off < t.off + t.len ∧ t.off < s.off + s.len := by
  by_cases h1 : t.arr = s.arr
  · by_cases h2 : t.off + t.len ≤ s.off
    · exact absurd (inplace_keeps hp ht (Or.inr (Or.inl h2))).1 hchg
    · by_cases h3 : s.off + s.len ≤ t.off
      · exact absurd (inplace_keeps hp ht (Or.inr (Or.inr h3))).1 hchg
      · exact ⟨h1, by omega, by omega⟩
  · exact absurd (inplace_keeps hp ht (Or.inl h1)).1 hchg

/-- the store and argument of the examples of `Theorems/C16Helpers.lean`: `arg0 = [1, 2, 3, 4]` inside a larger array -/
example : elems σx arg0 = [1, 2, 3, 4] := by decide

/-- **The exception is real**: `v := Drop(s, 2)` shows `[3, 4]`; after `Reverse(s)` the very same result shows `[2, 1]`. -/
theorem reverse_σx :
    reverseStore σx arg0 = some ([[-555, 4, 3, 2, 1, -777, -777], [2, 9, -888]], arg0) := by
  have h1 : swapStore σx arg0 0 3 = some [[-555, 4, 2, 3, 1, -777, -777], [2, 9, -888]] := by decide
  have h2 : swapStore [[-555, 4, 2, 3, 1, -777, -777], [2, 9, -888]] arg0 1 2 =
      some [[-555, 4, 3, 2, 1, -777, -777], [2, 9, -888]] := by decide
  have e : arg0.len = 4 := rfl
  unfold reverseStore
  rw [e, reverseLoop, if_pos (by decide)]
  simp only [Nat.add_one_sub_one, Nat.zero_add, h1]
  rw [reverseLoop, if_pos (by decide)]
  simp only [Nat.add_one_sub_one, h2]
  rw [reverseLoop, if_neg (by decide)]

theorem reverse_after_drop_alters_view :
    ∃ v σ', dropStore σx arg0 2 = some (σx, v) ∧ elems σx v = [3, 4] ∧
      reverseStore σx arg0 = some (σ', arg0) ∧ elems σ' v = [2, 1] := by
  refine ⟨{ arr := 0, off := 3, len := 2, cap := 4 }, [[-555, 4, 3, 2, 1, -777, -777], [2, 9, -888]], ?_, ?_, reverse_σx, ?_⟩ <;> decide

end GoguVerif.Theorems.C16Views
