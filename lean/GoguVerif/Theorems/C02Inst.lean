import GoguVerif.Theorems.C02
import GoguVerif.Spec.C03
import GoguVerif.Spec.C04
import GoguVerif.Spec.C08
import GoguVerif.Spec.C09
import GoguVerif.Model.Heap
import GoguVerif.Model.Cache
import GoguVerif.Model.Queue
import GoguVerif.Model.Stack
import GoguVerif.Model.LQueue
import GoguVerif.Model.LStack
import GoguVerif.Theorems.C03
/-!
# C02 — fine-grained instances of "Theorem 2" for every container

`Theorems/C02.lean` instantiates the fine-grained system (`Model/Fine.lean`) for ONE container, the
slice queue.  This file provides the instances for the others, generically.

## The generic construction `oneStep`

For any sequential object `step : σ → Op → σ × Ret` and any classification `mode : Op → Mode` of its
operations into read-lock / write-lock methods, `oneStep step mode` is the method table whose body
is ONE micro-step performing `step` (local state `Option Ret`: the answer, once computed).

Justification.  Within a critical section the decomposition of the body into micro-steps is
irrelevant: Theorem 2 (`C02Fine.fine_refines_atomic`) quantifies over ALL bodies, and under mutual
exclusion two bodies with the same atomic effect (`Fine.atomic`) generate the same events with the
same values — the only thing Theorem 2 needs from a body is (a) its atomic effect and (b), for a
read-mode body, that no micro-step writes the shared state.  Hence the sequential model of the whole
method is a legitimate body: `Fine.atomic (oneStep step mode op) s = step s op` holds by `rfl`, and
(b) is exactly `∀ op, mode op = .r → ∀ s, (step s op).1 = s` (`oneStep_readOnly_iff`).

## The instances

Slice stack and slice queue (specifications `Spec.C06.step` / `Spec.C05.step` and the code models
`Model.Stack.step` / `Model.Queue.step`), linked queue and linked stack (code models
`Model.LQueue.step` / `Model.LStack.step`; for the linked stack also `Spec.C06.Patched.step`), BST
(`Spec.C04.step`, `Spec.C04.Patched.step`), trie (`Spec.C09.step`), expiring cache at a fixed instant
(`Spec.C08.step cfg c`, `Model.Cache.call cfg now`), heap (`Model.Heap.step`, totalised).

## The tie to the regenerated lock table

Every instance comes with the list `<container>Modes` of (Go type, method, isWrite) of its
operations, proved to be exactly what its `mode` function says (`*_modes_listed`);
`modes_agree_with_table` checks these lists against `Gen.lockTable` (regenerated from the Go source
on every run): whenever the code changes the lock a method takes, the theorem fails.  Where the code
takes the write lock for a method that is an observer in the model (`LQueue.Search`), the instance
follows the CODE.
-/
namespace GoguVerif.Theorems.C02Inst
open GoguVerif.Model GoguVerif.Model.Lin
open GoguVerif.Model.Lock (Mode MethodEntry PathEntry Sect)

/-! ## 1. The generic construction -/
section Generic
variable {σ Op Ret : Type} [Inhabited Ret]

/-- The method table of a sequential object: the body of `op` is ONE micro-step performing
`step · op`; the local state is the answer (`none` before the micro-step has run). -/
def oneStep (step : σ → Op → σ × Ret) (mode : Op → Mode) (op : Op) : Fine.Meth σ (Option Ret) Ret :=
  ⟨mode op, [fun p => ((step p.1 op).1, some (step p.1 op).2)], none, fun o => o.getD default⟩

variable (step : σ → Op → σ × Ret) (mode : Op → Mode)

/-- the sequential meaning of the one-step body is the sequential object itself -/
theorem oneStep_atomic (op : Op) (s : σ) : Fine.atomic (oneStep step mode op) s = step s op := rfl

theorem oneStep_mode (op : Op) : (oneStep step mode op).mode = mode op := rfl

/-- the sequential object implemented by the table is the given one -/
theorem oneStep_obj (init : σ) : Fine.obj (oneStep step mode) init = ⟨init, step⟩ := rfl

/-- The side condition of Theorem 2 for the one-step table is EXACTLY: operations classified as
read-mode leave the state unchanged. -/
theorem oneStep_readOnly_iff :
    Fine.ReadOnly (oneStep step mode) ↔ ∀ op, mode op = .r → ∀ s, (step s op).1 = s := by
  constructor
  · intro ro op hm s
    have := ro op hm (fun p => ((step p.1 op).1, some (step p.1 op).2)) (by simp [oneStep]) (s, none)
    exact this
  · intro h op hm f hf p
    simp only [oneStep, List.mem_singleton] at hf
    subst hf
    exact h op hm p.1

theorem oneStep_readOnly (h : ∀ op, mode op = .r → ∀ s, (step s op).1 = s) :
    Fine.ReadOnly (oneStep step mode) := (oneStep_readOnly_iff step mode).2 h

variable {step mode}

/-- **Generic instance of Theorem 1 ∘ Theorem 2.**  Any number of goroutines calling the operations
of a lock-guarded object, each call one critical section under the `r`/`w` lock its `mode` says,
interleaved at micro-step granularity: the operations in lock-acquisition order are a legal
sequential run of `⟨init, step⟩` producing exactly the returned values and the abstract state. -/
theorem oneStep_fine_linearizable (ro : ∀ op, mode op = .r → ∀ s, (step s op).1 = s)
    {init : σ} {h s} (r : Fine.Reach (oneStep step mode) init h s) :
    Legal ⟨init, step⟩ init (linOps h) s.absObj :=
  C02.fine_linearizable (oneStep_readOnly step mode ro) r

/-- … and the fine-grained history IS a history of the atomic system of `⟨init, step⟩`, so
`ret_after_lin`, `lin_after_inv`, `real_time_order` of Theorem 1 apply to it verbatim. -/
theorem oneStep_history_is_atomic (ro : ∀ op, mode op = .r → ∀ s, (step s op).1 = s)
    {init : σ} {h s} (r : Fine.Reach (oneStep step mode) init h s) :
    Reach ⟨init, step⟩ h (Fine.abs s) :=
  C02.fine_history_is_atomic (oneStep_readOnly step mode ro) r

/-! ### Non-vacuity, generically: two overlapping calls

Thread 0 invokes `a`, thread 1 invokes `b`, thread 1 gets the lock first.  `overlap_serial`: any two
operations (thread 0 waits for the lock until thread 1 has released it).  `overlap_readers`: two
read-mode operations are inside their critical sections AT THE SAME TIME and their micro-steps
interleave. -/

omit [Inhabited Ret] in
theorem canEnter_of_free {lam : Type} (s : Fine.State σ lam Op Ret) (i : Nat) (m : Mode)
    (h : ∀ j, j ≠ i → Fine.holds (s.th j) = none) : Fine.canEnter s i m := by
  cases m with
  | r => intro j hj; rw [h j hj]; simp
  | w => exact h

/-- history (newest first) of the serial overlap -/
def serialHist (step : σ → Op → σ × Ret) (init : σ) (a b : Op) : List (Ev Op Ret) :=
  [.ret 0 0 a (step (step init b).1 a).2, .ret 1 1 b (step init b).2,
   .lin 0 0 a (step (step init b).1 a).2, .lin 1 1 b (step init b).2, .inv 1 1 b, .inv 0 0 a]

theorem overlap_serial (step : σ → Op → σ × Ret) (mode : Op → Mode) (init : σ) (a b : Op) :
    ∃ s, Fine.Reach (oneStep step mode) init (serialHist step init a b) s ∧
      s.shared = (step (step init b).1 a).1 ∧ s.absObj = s.shared := by
  -- inv 0 a ; inv 1 b
  have r0 : Fine.Reach (oneStep step mode) init [] (Fine.initState init) := Fine.Reach.init
  have r1 := Fine.Reach.step r0 (Fine.Step.inv _ 0 a rfl)
  have r2 := Fine.Reach.step r1 (Fine.Step.inv _ 1 b rfl)
  -- thread 1: acquire, micro-step, release
  have r3 := Fine.Reach.step r2 (Fine.Step.acquire _ 1 1 b rfl
    (canEnter_of_free _ _ _ (by
      intro j hj
      by_cases h0 : j = 0
      · subst h0; rfl
      · simp [Fine.initState, Lin.upd, hj, h0, Fine.holds])))
  have r4 := Fine.Reach.silent r3 (Fine.Step.micro _ 1 1 b _ _ _ _ _ rfl)
  have r5 := Fine.Reach.silent r4 (Fine.Step.release _ 1 1 b _ _ _ rfl)
  -- thread 0: acquire, micro-step, release
  have r6 := Fine.Reach.step r5 (Fine.Step.acquire _ 0 0 a rfl
    (canEnter_of_free _ _ _ (by
      intro j hj
      by_cases h1 : j = 1
      · subst h1; rfl
      · simp [Fine.initState, Lin.upd, hj, h1, Fine.holds])))
  have r7 := Fine.Reach.silent r6 (Fine.Step.micro _ 0 0 a _ _ _ _ _ rfl)
  have r8 := Fine.Reach.silent r7 (Fine.Step.release _ 0 0 a _ _ _ rfl)
  -- both return
  have r9 := Fine.Reach.step r8 (Fine.Step.ret _ 1 1 b _ rfl)
  have r10 := Fine.Reach.step r9 (Fine.Step.ret _ 0 0 a _ rfl)
  exact ⟨_, r10, rfl, rfl⟩

/-- Two read-mode operations hold the read lock AT THE SAME TIME (state `m`) and their micro-steps
interleave; the resulting history is the one of `overlap_serial`. -/
theorem overlap_readers (step : σ → Op → σ × Ret) (mode : Op → Mode) (init : σ) (a b : Op)
    (ha : mode a = .r) (hb : mode b = .r) :
    ∃ m s, Fine.Reach (oneStep step mode) init (List.drop 2 (serialHist step init a b)) m ∧
      Fine.holds (m.th 0) = some .r ∧ Fine.holds (m.th 1) = some .r ∧
      Fine.Reach (oneStep step mode) init (serialHist step init a b) s := by
  have r0 : Fine.Reach (oneStep step mode) init [] (Fine.initState init) := Fine.Reach.init
  have r1 := Fine.Reach.step r0 (Fine.Step.inv _ 0 a rfl)
  have r2 := Fine.Reach.step r1 (Fine.Step.inv _ 1 b rfl)
  -- thread 1 acquires the read lock
  have r3 := Fine.Reach.step r2 (Fine.Step.acquire _ 1 1 b rfl
    (canEnter_of_free _ _ _ (by
      intro j hj
      by_cases h0 : j = 0
      · subst h0; rfl
      · simp [Fine.initState, Lin.upd, hj, h0, Fine.holds])))
  -- thread 0 acquires the read lock while thread 1 is inside
  have r4 := Fine.Reach.step r3 (Fine.Step.acquire _ 0 0 a rfl (by
    show Fine.canEnter _ 0 (mode a)
    rw [ha]
    intro j hj
    by_cases h1 : j = 1
    · subst h1; simp [Lin.upd, Fine.holds, oneStep, hb]
    · simp [Fine.initState, Lin.upd, hj, h1, Fine.holds]))
  -- the two micro-steps, then the two releases in the other order
  have r5 := Fine.Reach.silent r4 (Fine.Step.micro _ 1 1 b _ _ _ _ _ rfl)
  have r6 := Fine.Reach.silent r5 (Fine.Step.micro _ 0 0 a _ _ _ _ _ rfl)
  have r7 := Fine.Reach.silent r6 (Fine.Step.release _ 0 0 a _ _ _ rfl)
  have r8 := Fine.Reach.silent r7 (Fine.Step.release _ 1 1 b _ _ _ rfl)
  have r9 := Fine.Reach.step r8 (Fine.Step.ret _ 1 1 b _ rfl)
  have r10 := Fine.Reach.step r9 (Fine.Step.ret _ 0 0 a _ rfl)
  exact ⟨_, _, r4, by simp [Lin.upd, Fine.holds, oneStep, ha], by simp [Lin.upd, Fine.holds, oneStep, hb], r10⟩

end Generic

/-! ## 2. The instances -/

def isWrite : Mode → Bool
  | .w => true
  | .r => false

/-- closes the goals `(step s op).1 = s` of the operations classified `w` (hypothesis absurd) and
of the observers whose step returns the state syntactically -/
local macro "observer" h:ident : tactic =>
  `(tactic| first | rfl | cases $h:ident)

instance instInhabitedOutC05 {α : Type} : Inhabited (Spec.C05.Out α) := ⟨.unit⟩
instance instInhabitedOutC06 {α : Type} : Inhabited (Spec.C06.Out α) := ⟨.unit⟩
instance instInhabitedOutC04 {κ ν : Type} : Inhabited (Spec.C04.Out κ ν) := ⟨.unit⟩
instance instInhabitedOutC09 : Inhabited Spec.C09.Out := ⟨.unit⟩
instance instInhabitedOutC08 : Inhabited Spec.C08.Out := ⟨.unit⟩
/-- the answer of a call that has not answered -/
instance instInhabitedOutcome {β : Type} : Inhabited (Heap.Outcome β) := ⟨.hang⟩

/-! ### Slice stack `stack.Stack` (and the shared operation names of `stack.LStack`) -/
section Stack
variable {α : Type} [Inhabited α] [DecidableEq α]

def stackName : Spec.C06.Op α → String
  | .push _ => "Push" | .pop => "Pop" | .peek => "Peek" | .search _ => "Search" | .size => "Size"

/-- `Push`/`Pop` take the write lock, `Peek`/`Search`/`Size` the read lock -/
def stackMode : Spec.C06.Op α → Mode
  | .push _ => .w | .pop => .w | .peek => .r | .search _ => .r | .size => .r

def stackModes : List (String × String × Bool) := [
  ("stack.Stack", "Push", true), ("stack.Stack", "Pop", true), ("stack.Stack", "Peek", false),
  ("stack.Stack", "Search", false), ("stack.Stack", "Size", false)]

omit [Inhabited α] [DecidableEq α] in
theorem stack_modes_listed (op : Spec.C06.Op α) :
    ("stack.Stack", stackName op, isWrite (stackMode op)) ∈ stackModes := by
  cases op <;> simp [stackModes, stackName, stackMode, isWrite]

/-- the observers of the LIFO specification leave the state unchanged -/
theorem stack_observers (op : Spec.C06.Op α) (h : stackMode op = .r) (s : List α) :
    (Spec.C06.step s op).1 = s := by
  cases op <;> observer h

/-- Any number of goroutines calling `Push`/`Pop`/`Peek`/`Search`/`Size` of a slice stack, interleaved
at micro-step granularity under the RWMutex rules: a legal LIFO run in lock-acquisition order. -/
theorem stack_fine_linearizable {init : List α} {h s}
    (r : Fine.Reach (oneStep Spec.C06.step stackMode) init h s) :
    Legal ⟨init, Spec.C06.step⟩ init (linOps h) s.absObj :=
  oneStep_fine_linearizable stack_observers r

/-- the same for the code model `Model.Stack.step` of `stack.go` -/
theorem stackModel_observers (op : Spec.C06.Op α) (h : stackMode op = .r) (s : List α) :
    (Model.Stack.step s op).1 = s := by
  cases op
  case peek =>
    simp only [Model.Stack.step]
    split
    · rfl
    · split <;> rfl
  all_goals observer h

theorem stackModel_fine_linearizable {init : List α} {h s}
    (r : Fine.Reach (oneStep Model.Stack.step stackMode) init h s) :
    Legal ⟨init, Model.Stack.step⟩ init (linOps h) s.absObj :=
  oneStep_fine_linearizable stackModel_observers r

end Stack

/-- for `Int` elements and the empty stack: the object `lifoObj` of `Theorems/C02.lean` -/
theorem stack_fine_linearizable_int {h s}
    (r : Fine.Reach (oneStep Spec.C06.step (stackMode (α := Int))) [] h s) :
    Legal C02.lifoObj [] (linOps h) s.absObj := stack_fine_linearizable r

/-- non-vacuity: `Pop` (thread 0) and `Push 7` (thread 1) overlap, the push gets the lock first,
the pop answers 7 -/
example : ∃ s, Fine.Reach (oneStep Spec.C06.step (stackMode (α := Int))) []
    [.ret 0 0 .pop (.val 7), .ret 1 1 (.push 7) .unit, .lin 0 0 .pop (.val 7),
     .lin 1 1 (.push 7) .unit, .inv 1 1 (.push 7), .inv 0 0 .pop] s ∧ s.shared = [] :=
  (overlap_serial Spec.C06.step stackMode [] .pop (.push 7)).imp fun _ h => ⟨h.1, h.2.1⟩

/-- non-vacuity of the read-only hypothesis: `Peek` and `Size` inside at the same time -/
example : ∃ m s, Fine.Reach (oneStep Spec.C06.step (stackMode (α := Int))) ([3] : List Int)
    [.lin 0 0 .peek (.val 3), .lin 1 1 .size (.int 1), .inv 1 1 .size, .inv 0 0 .peek] m ∧
    Fine.holds (m.th 0) = some .r ∧ Fine.holds (m.th 1) = some .r ∧
    Fine.Reach (oneStep Spec.C06.step (stackMode (α := Int))) [3]
      [.ret 0 0 .peek (.val 3), .ret 1 1 .size (.int 1), .lin 0 0 .peek (.val 3),
       .lin 1 1 .size (.int 1), .inv 1 1 .size, .inv 0 0 .peek] s :=
  overlap_readers (Spec.C06.step (α := Int)) stackMode [3] .peek .size rfl rfl

/-! ### Slice queue `queue.Queue` — again, via the generic construction — and linked queue `queue.LQueue` -/
section Queue
variable {α : Type} [Inhabited α] [DecidableEq α]

def queueName : Spec.C05.Op α → String
  | .enqueue _ => "Enqueue" | .dequeue => "Dequeue" | .peek => "Peek" | .search _ => "Search"
  | .size => "Size" | .clear => "Clear"

/-- `Enqueue`/`Dequeue`/`Clear` take the write lock, `Peek`/`Search`/`Size` the read lock -/
def queueMode : Spec.C05.Op α → Mode
  | .enqueue _ => .w | .dequeue => .w | .peek => .r | .search _ => .r | .size => .r | .clear => .w

def queueModes : List (String × String × Bool) := [
  ("queue.Queue", "Enqueue", true), ("queue.Queue", "Dequeue", true), ("queue.Queue", "Peek", false),
  ("queue.Queue", "Search", false), ("queue.Queue", "Size", false), ("queue.Queue", "Clear", true)]

omit [Inhabited α] [DecidableEq α] in
theorem queue_modes_listed (op : Spec.C05.Op α) :
    ("queue.Queue", queueName op, isWrite (queueMode op)) ∈ queueModes := by
  cases op <;> simp [queueModes, queueName, queueMode, isWrite]

theorem queue_observers (op : Spec.C05.Op α) (h : queueMode op = .r) (s : List α) :
    (Spec.C05.step s op).1 = s := by
  cases op <;> observer h

/-- the slice queue through the generic construction (compare `C02.queue_fine_linearizable`, whose
`Dequeue` body is two micro-steps: same sequential object, same conclusion) -/
theorem queue_fine_linearizable {init : List α} {h s}
    (r : Fine.Reach (oneStep Spec.C05.step queueMode) init h s) :
    Legal ⟨init, Spec.C05.step⟩ init (linOps h) s.absObj :=
  oneStep_fine_linearizable queue_observers r

/-- the hand-written table of `Theorems/C02.lean` and the generic one have the same modes and the
same atomic effect — they differ only in how the body is cut into micro-steps -/
theorem queueMeth_same (op : Spec.C05.Op Int) (s : List Int) :
    (C02.queueMeth op).mode = (oneStep Spec.C05.step queueMode op).mode ∧
    Fine.atomic (C02.queueMeth op) s = Fine.atomic (oneStep Spec.C05.step queueMode op) s := by
  refine ⟨by cases op <;> rfl, ?_⟩
  rw [C02.queueMeth_atomic, oneStep_atomic]

theorem queueModel_observers (op : Spec.C05.Op α) (h : queueMode op = .r) (s : List α) :
    (Model.Queue.step s op).1 = s := by
  cases op
  case peek =>
    simp only [Model.Queue.step]
    split
    · rfl
    · split <;> rfl
  all_goals observer h

/-- the same for the code model `Model.Queue.step` of `queue.go` -/
theorem queueModel_fine_linearizable {init : List α} {h s}
    (r : Fine.Reach (oneStep Model.Queue.step queueMode) init h s) :
    Legal ⟨init, Model.Queue.step⟩ init (linOps h) s.absObj :=
  oneStep_fine_linearizable queueModel_observers r

/-- `queue.LQueue`: as the slice queue, except that `Search` takes the WRITE lock in the code
(`lockTable`: `queue.LQueue.Search` is a `w` section).  In the model `Search` is an observer; the
instance follows the code and classifies it `w` (which costs nothing: `w` has no side condition). -/
def lqueueMode : Spec.C05.Op α → Mode
  | .enqueue _ => .w | .dequeue => .w | .peek => .r | .search _ => .w | .size => .r | .clear => .w

def lqueueModes : List (String × String × Bool) := [
  ("queue.LQueue", "Enqueue", true), ("queue.LQueue", "Dequeue", true), ("queue.LQueue", "Peek", false),
  ("queue.LQueue", "Search", true), ("queue.LQueue", "Size", false), ("queue.LQueue", "Clear", true)]

omit [Inhabited α] [DecidableEq α] in
theorem lqueue_modes_listed (op : Spec.C05.Op α) :
    ("queue.LQueue", queueName op, isWrite (lqueueMode op)) ∈ lqueueModes := by
  cases op <;> simp [lqueueModes, queueName, lqueueMode, isWrite]

/-- `Peek` and `Size` of the linked-queue model return the state they were given -/
theorem lqueue_observers (op : Spec.C05.Op α) (h : lqueueMode op = .r) (s : LQueue.St α) :
    (LQueue.step s op).1 = s := by
  cases op
  case peek => simp only [LQueue.step]; split <;> rfl
  all_goals observer h

/-- linked queue, against its MODEL `Model.LQueue.step` (state: the `DList` sequence and the counter) -/
theorem lqueue_fine_linearizable {init : LQueue.St α} {h s}
    (r : Fine.Reach (oneStep LQueue.step lqueueMode) init h s) :
    Legal ⟨init, LQueue.step⟩ init (linOps h) s.absObj :=
  oneStep_fine_linearizable lqueue_observers r

end Queue

/-- for `Int` elements and the empty queue: the object `fifoObj` of `Theorems/C02.lean` -/
theorem queue_fine_linearizable_int {h s}
    (r : Fine.Reach (oneStep Spec.C05.step (queueMode (α := Int))) [] h s) :
    Legal C02.fifoObj [] (linOps h) s.absObj := queue_fine_linearizable r

/-- non-vacuity: `Dequeue` (thread 0) overlaps `Enqueue 7` (thread 1), which gets the lock first -/
example : ∃ s, Fine.Reach (oneStep Spec.C05.step (queueMode (α := Int))) []
    [.ret 0 0 .dequeue (.deq 7 false), .ret 1 1 (.enqueue 7) .unit, .lin 0 0 .dequeue (.deq 7 false),
     .lin 1 1 (.enqueue 7) .unit, .inv 1 1 (.enqueue 7), .inv 0 0 .dequeue] s ∧ s.shared = [] :=
  (overlap_serial Spec.C05.step queueMode [] .dequeue (.enqueue 7)).imp fun _ h => ⟨h.1, h.2.1⟩

/-- two readers of the slice queue inside at the same time -/
example : ∃ m s, Fine.Reach (oneStep Spec.C05.step (queueMode (α := Int))) [3]
    [.lin 0 0 (.search 3) (.bool true), .lin 1 1 .size (.int 1), .inv 1 1 .size, .inv 0 0 (.search 3)] m ∧
    Fine.holds (m.th 0) = some .r ∧ Fine.holds (m.th 1) = some .r ∧
    Fine.Reach (oneStep Spec.C05.step (queueMode (α := Int))) [3]
      [.ret 0 0 (.search 3) (.bool true), .ret 1 1 .size (.int 1), .lin 0 0 (.search 3) (.bool true),
       .lin 1 1 .size (.int 1), .inv 1 1 .size, .inv 0 0 (.search 3)] s :=
  overlap_readers (Spec.C05.step (α := Int)) queueMode [3] (.search 3) .size rfl rfl

/-- linked queue created by `NewLinked(1)`: `Dequeue` overlaps `Enqueue 7`; the dequeue (second in
lock order) answers the initial element -/
example : ∃ s, Fine.Reach (oneStep LQueue.step (lqueueMode (α := Int))) (LQueue.new 1)
    [.ret 0 0 .dequeue (.val 1), .ret 1 1 (.enqueue 7) .unit, .lin 0 0 .dequeue (.val 1),
     .lin 1 1 (.enqueue 7) .unit, .inv 1 1 (.enqueue 7), .inv 0 0 .dequeue] s ∧ s.shared = ⟨[7], 1⟩ :=
  (overlap_serial LQueue.step lqueueMode (LQueue.new 1) .dequeue (.enqueue 7)).imp fun _ h => ⟨h.1, h.2.1⟩

/-- `Peek` and `Size` of the linked queue inside at the same time -/
example : ∃ m s, Fine.Reach (oneStep LQueue.step (lqueueMode (α := Int))) (LQueue.new 1)
    [.lin 0 0 .peek (.val 1), .lin 1 1 .size (.int 1), .inv 1 1 .size, .inv 0 0 .peek] m ∧
    Fine.holds (m.th 0) = some .r ∧ Fine.holds (m.th 1) = some .r ∧
    Fine.Reach (oneStep LQueue.step (lqueueMode (α := Int))) (LQueue.new 1)
      [.ret 0 0 .peek (.val 1), .ret 1 1 .size (.int 1), .lin 0 0 .peek (.val 1),
       .lin 1 1 .size (.int 1), .inv 1 1 .size, .inv 0 0 .peek] s :=
  overlap_readers (LQueue.step (α := Int)) lqueueMode (LQueue.new 1) .peek .size rfl rfl

/-! ### Linked stack `stack.LStack` (model `Model.LStack.step`, and the patched specification) -/
section LStack
variable {α : Type} [Inhabited α] [DecidableEq α]

/-- same lock modes as the slice stack (`lockTable`: `Push`/`Pop` `w`, `Peek`/`Search`/`Size` `r`) -/
def lstackModes : List (String × String × Bool) := [
  ("stack.LStack", "Push", true), ("stack.LStack", "Pop", true), ("stack.LStack", "Peek", false),
  ("stack.LStack", "Search", false), ("stack.LStack", "Size", false)]

omit [Inhabited α] [DecidableEq α] in
theorem lstack_modes_listed (op : Spec.C06.Op α) :
    ("stack.LStack", stackName op, isWrite (stackMode op)) ∈ lstackModes := by
  cases op <;> simp [lstackModes, stackName, stackMode, isWrite]

/-- `Peek`, `Search`, `Size` of the linked-stack model return the state they were given (the model
works on the sequence held by the `DList`; no observer rewrites a pointer) -/
theorem lstack_observers (op : Spec.C06.Op α) (h : stackMode op = .r) (s : LStack.St α) :
    (LStack.step s op).1 = s := by
  cases op <;> observer h

/-- linked stack, against its MODEL `Model.LStack.step`: the code deviates from the LIFO
specification by the known findings F12a/F12b, which are sequential deviations — concurrency adds
nothing to them: every concurrent history is a sequential run of the model. -/
theorem lstack_fine_linearizable {init : LStack.St α} {h s}
    (r : Fine.Reach (oneStep LStack.step stackMode) init h s) :
    Legal ⟨init, LStack.step⟩ init (linOps h) s.absObj :=
  oneStep_fine_linearizable lstack_observers r

theorem lstackPatched_observers (op : Spec.C06.Op α) (h : stackMode op = .r) (s : Spec.C06.Patched.St α) :
    (Spec.C06.Patched.step s op).1 = s := by
  cases op <;> observer h

/-- … and against the patched specification `S_patched` (LIFO with F12a/F12b allowed) -/
theorem lstackPatched_fine_linearizable {init : Spec.C06.Patched.St α} {h s}
    (r : Fine.Reach (oneStep Spec.C06.Patched.step stackMode) init h s) :
    Legal ⟨init, Spec.C06.Patched.step⟩ init (linOps h) s.absObj :=
  oneStep_fine_linearizable lstackPatched_observers r

end LStack

/-- linked stack created by `NewLinked(1)`: `Pop` overlaps `Push 7`, the push gets the lock first; the
pop then answers the element BENEATH the top (finding F12a), exactly as in a sequential run -/
example : ∃ s, Fine.Reach (oneStep LStack.step (stackMode (α := Int))) (LStack.new 1)
    [.ret 0 0 .pop (.val 1), .ret 1 1 (.push 7) .unit, .lin 0 0 .pop (.val 1),
     .lin 1 1 (.push 7) .unit, .inv 1 1 (.push 7), .inv 0 0 .pop] s ∧ s.shared = ⟨[1], 1⟩ :=
  (overlap_serial LStack.step stackMode (LStack.new 1) .pop (.push 7)).imp fun _ h => ⟨h.1, h.2.1⟩

example : ∃ m s, Fine.Reach (oneStep LStack.step (stackMode (α := Int))) (LStack.new 1)
    [.lin 0 0 .peek (.val 1), .lin 1 1 (.search 2) (.bool false), .inv 1 1 (.search 2), .inv 0 0 .peek] m ∧
    Fine.holds (m.th 0) = some .r ∧ Fine.holds (m.th 1) = some .r ∧
    Fine.Reach (oneStep LStack.step (stackMode (α := Int))) (LStack.new 1)
      [.ret 0 0 .peek (.val 1), .ret 1 1 (.search 2) (.bool false), .lin 0 0 .peek (.val 1),
       .lin 1 1 (.search 2) (.bool false), .inv 1 1 (.search 2), .inv 0 0 .peek] s :=
  overlap_readers (LStack.step (α := Int)) stackMode (LStack.new 1) .peek (.search 2) rfl rfl

/-! ### BST `bstree.BsTree`: `Upsert`/`Get`/`Delete`/`Size` -/
section Bst
variable {κ ν : Type}

/-- the single-element operations (`Traverse` streams over a channel and is not one of them) -/
inductive BstOp (κ ν : Type) where
  | upsert (k : κ) (v : ν)
  | get (k : κ)
  | delete (k : κ)
  | size

def BstOp.toOp : BstOp κ ν → Spec.C04.Op κ ν
  | .upsert k v => .upsert k v | .get k => .get k | .delete k => .delete k | .size => .size

def bstName : BstOp κ ν → String
  | .upsert _ _ => "Upsert" | .get _ => "Get" | .delete _ => "Delete" | .size => "Size"

def bstMode : BstOp κ ν → Mode
  | .upsert _ _ => .w | .get _ => .r | .delete _ => .w | .size => .r

def bstModes : List (String × String × Bool) := [
  ("bstree.BsTree", "Upsert", true), ("bstree.BsTree", "Get", false),
  ("bstree.BsTree", "Delete", true), ("bstree.BsTree", "Size", false)]

theorem bst_modes_listed (op : BstOp κ ν) :
    ("bstree.BsTree", bstName op, isWrite (bstMode op)) ∈ bstModes := by
  cases op <;> simp [bstModes, bstName, bstMode, isWrite]

/-- the ordered-map specification restricted to the single-element operations -/
def bstStep (comp : κ → κ → Bool) (m : List (κ × ν)) (o : BstOp κ ν) : List (κ × ν) × Spec.C04.Out κ ν :=
  Spec.C04.step comp m o.toOp

theorem bst_observers (comp : κ → κ → Bool) (op : BstOp κ ν) (h : bstMode op = .r) (m : List (κ × ν)) :
    (bstStep comp m op).1 = m := by
  cases op <;> observer h

/-- BST against the ordered-map specification `Spec.C04.step comp` (any comparator) -/
theorem bst_fine_linearizable (comp : κ → κ → Bool) {init : List (κ × ν)} {h s}
    (r : Fine.Reach (oneStep (bstStep comp) bstMode) init h s) :
    Legal ⟨init, bstStep comp⟩ init (linOps h) s.absObj :=
  oneStep_fine_linearizable (bst_observers comp) r

/-- … and against the patched specification (finding F10: `Delete` of an absent key decrements the
size counter), which is what the code implements -/
def bstPatchedStep (comp : κ → κ → Bool) (p : Spec.C04.Patched.St κ ν) (o : BstOp κ ν) :
    Spec.C04.Patched.St κ ν × Spec.C04.Out κ ν :=
  Spec.C04.Patched.step comp p o.toOp

theorem bstPatched_observers (comp : κ → κ → Bool) (op : BstOp κ ν) (h : bstMode op = .r)
    (p : Spec.C04.Patched.St κ ν) : (bstPatchedStep comp p op).1 = p := by
  cases op <;> observer h

theorem bstPatched_fine_linearizable (comp : κ → κ → Bool) {init : Spec.C04.Patched.St κ ν} {h s}
    (r : Fine.Reach (oneStep (bstPatchedStep comp) bstMode) init h s) :
    Legal ⟨init, bstPatchedStep comp⟩ init (linOps h) s.absObj :=
  oneStep_fine_linearizable (bstPatched_observers comp) r

end Bst

/-- `Get 5` (thread 0) overlaps `Upsert 5 ↦ 50` (thread 1), which gets the lock first: found -/
example : ∃ s, Fine.Reach (oneStep (bstStep (fun a b : Int => decide (a < b))) (bstMode (ν := Int))) []
    [.ret 0 0 (.get 5) (.got (some 50)), .ret 1 1 (.upsert 5 50) .unit, .lin 0 0 (.get 5) (.got (some 50)),
     .lin 1 1 (.upsert 5 50) .unit, .inv 1 1 (.upsert 5 50), .inv 0 0 (.get 5)] s ∧ s.shared = [(5, 50)] :=
  (overlap_serial (bstStep (fun a b : Int => decide (a < b))) bstMode [] (.get 5) (.upsert 5 50)).imp
    fun _ h => ⟨h.1, h.2.1⟩

/-- `Get` and `Size` inside at the same time -/
example : ∃ m s, Fine.Reach (oneStep (bstStep (fun a b : Int => decide (a < b))) (bstMode (ν := Int))) [(5, 50)]
    [.lin 0 0 (.get 5) (.got (some 50)), .lin 1 1 .size (.int 1), .inv 1 1 .size, .inv 0 0 (.get 5)] m ∧
    Fine.holds (m.th 0) = some .r ∧ Fine.holds (m.th 1) = some .r ∧
    Fine.Reach (oneStep (bstStep (fun a b : Int => decide (a < b))) (bstMode (ν := Int))) [(5, 50)]
      [.ret 0 0 (.get 5) (.got (some 50)), .ret 1 1 .size (.int 1), .lin 0 0 (.get 5) (.got (some 50)),
       .lin 1 1 .size (.int 1), .inv 1 1 .size, .inv 0 0 (.get 5)] s :=
  overlap_readers (bstStep (fun a b : Int => decide (a < b))) bstMode [(5, 50)] (.get 5) .size rfl rfl

/-! ### Trie `trie.Trie`: `Put`/`Get`/`Contains`/`Size` -/

/-- the single-element operations (`Keys`, `StartsWith`, `LongestPrefix` are not among them; `Keys` and
`StartsWith` moreover fill the instance's result queue under the WRITE lock) -/
inductive TrieOp where
  | put (k : Spec.C09.Key) (v : Int)
  | get (k : Spec.C09.Key)
  | contains (k : Spec.C09.Key)
  | size

def TrieOp.toOp : TrieOp → Spec.C09.Op
  | .put k v => .put k v | .get k => .get k | .contains k => .contains k | .size => .size

def trieName : TrieOp → String
  | .put _ _ => "Put" | .get _ => "Get" | .contains _ => "Contains" | .size => "Size"

def trieMode : TrieOp → Mode
  | .put _ _ => .w | .get _ => .r | .contains _ => .r | .size => .r

def trieModes : List (String × String × Bool) := [
  ("trie.Trie", "Put", true), ("trie.Trie", "Get", false),
  ("trie.Trie", "Contains", false), ("trie.Trie", "Size", false)]

theorem trie_modes_listed (op : TrieOp) : ("trie.Trie", trieName op, isWrite (trieMode op)) ∈ trieModes := by
  cases op <;> simp [trieModes, trieName, trieMode, isWrite]

def trieStep (m : List (Spec.C09.Key × Int)) (o : TrieOp) : List (Spec.C09.Key × Int) × Spec.C09.Out :=
  Spec.C09.step m o.toOp

theorem trie_observers (op : TrieOp) (h : trieMode op = .r) (m : List (Spec.C09.Key × Int)) :
    (trieStep m op).1 = m := by
  cases op <;> observer h

/-- trie against the string-keyed map specification `Spec.C09.step` -/
theorem trie_fine_linearizable {init : List (Spec.C09.Key × Int)} {h s}
    (r : Fine.Reach (oneStep trieStep trieMode) init h s) :
    Legal ⟨init, trieStep⟩ init (linOps h) s.absObj :=
  oneStep_fine_linearizable trie_observers r

/-- `Contains "a"` (thread 0) overlaps `Put "a" ↦ 1` (thread 1), which gets the lock first -/
example : ∃ s, Fine.Reach (oneStep trieStep trieMode) []
    [.ret 0 0 (.contains [97]) (.bool true), .ret 1 1 (.put [97] 1) .unit, .lin 0 0 (.contains [97]) (.bool true),
     .lin 1 1 (.put [97] 1) .unit, .inv 1 1 (.put [97] 1), .inv 0 0 (.contains [97])] s ∧ s.shared = [([97], 1)] :=
  (overlap_serial trieStep trieMode [] (.contains [97]) (.put [97] 1)).imp fun _ h => ⟨h.1, h.2.1⟩

/-- `Get` and `Size` inside at the same time -/
example : ∃ m s, Fine.Reach (oneStep trieStep trieMode) [([97], 1)]
    [.lin 0 0 (.get [97]) (.got (some 1)), .lin 1 1 .size (.int 1), .inv 1 1 .size, .inv 0 0 (.get [97])] m ∧
    Fine.holds (m.th 0) = some .r ∧ Fine.holds (m.th 1) = some .r ∧
    Fine.Reach (oneStep trieStep trieMode) [([97], 1)]
      [.ret 0 0 (.get [97]) (.got (some 1)), .ret 1 1 .size (.int 1), .lin 0 0 (.get [97]) (.got (some 1)),
       .lin 1 1 .size (.int 1), .inv 1 1 .size, .inv 0 0 (.get [97])] s :=
  overlap_readers trieStep trieMode [([97], 1)] (.get [97]) .size rfl rfl

/-! ### Expiring cache `cache.Cache` at a fixed instant: `Set`/`Get`/`Update`/`Delete`/`Count` -/

/-- the single-element operations; time does not pass (no `sleep`), so `now` is a parameter of the run
(`cache_now_fixed`) -/
inductive CacheOp where
  | set (k v d : Int)
  | get (k : Int)
  | update (k v d : Int)
  | delete (k : Int)
  | count

def CacheOp.toOp : CacheOp → Spec.C08.Op
  | .set k v d => .set k v d | .get k => .get k | .update k v d => .update k v d
  | .delete k => .delete k | .count => .count

def cacheName : CacheOp → String
  | .set _ _ _ => "Set" | .get _ => "Get" | .update _ _ _ => "Update" | .delete _ => "Delete" | .count => "Count"

/-- `Update` is one of the two-section methods of `C02.lastSectionOps`: its first (read-mode) section is
a look-up whose result is never used; effect and answer are those of the LAST section, a `w` one -/
def cacheMode : CacheOp → Mode
  | .set _ _ _ => .w | .get _ => .r | .update _ _ _ => .w | .delete _ => .w | .count => .r

def cacheModes : List (String × String × Bool) := [
  ("cache.Cache", "Set", true), ("cache.Cache", "Get", false), ("cache.Cache", "Update", true),
  ("cache.Cache", "Delete", true), ("cache.Cache", "Count", false)]

theorem cache_modes_listed (op : CacheOp) : ("cache.Cache", cacheName op, isWrite (cacheMode op)) ∈ cacheModes := by
  cases op <;> simp [cacheModes, cacheName, cacheMode, isWrite]

/-- the specification at configuration `cfg`, with choice `c` for the instant `now = deadline` -/
def cacheStep (cfg : Spec.C08.Cfg) (c : Bool) (s : Spec.C08.St) (o : CacheOp) : Spec.C08.St × Spec.C08.Out :=
  Spec.C08.step cfg c s o.toOp

theorem cache_observers (cfg : Spec.C08.Cfg) (c : Bool) (op : CacheOp) (h : cacheMode op = .r) (s : Spec.C08.St) :
    (cacheStep cfg c s op).1 = s := by
  cases op
  case get k => simp only [cacheStep, CacheOp.toOp, Spec.C08.step]; split <;> rfl
  all_goals observer h

/-- none of these operations moves the clock: the whole run happens at the instant `init.now` -/
theorem cache_now_fixed (cfg : Spec.C08.Cfg) (c : Bool) (op : CacheOp) (s : Spec.C08.St) :
    (cacheStep cfg c s op).1.now = s.now := by
  cases op
  case set k v d =>
    simp only [cacheStep, CacheOp.toOp, Spec.C08.step, Spec.C08.setOne]
    repeat' split
    all_goals rfl
  case get k => simp only [cacheStep, CacheOp.toOp, Spec.C08.step]; split <;> rfl
  case update k v d => simp only [cacheStep, CacheOp.toOp, Spec.C08.step]; split <;> rfl
  case delete k => simp only [cacheStep, CacheOp.toOp, Spec.C08.step]; split <;> rfl
  case count => rfl

/-- expiring cache against `Spec.C08.step cfg c`, any configuration, either choice for the boundary
instant, any initial content and instant -/
theorem cache_fine_linearizable (cfg : Spec.C08.Cfg) (c : Bool) {init : Spec.C08.St} {h s}
    (r : Fine.Reach (oneStep (cacheStep cfg c) cacheMode) init h s) :
    Legal ⟨init, cacheStep cfg c⟩ init (linOps h) s.absObj :=
  oneStep_fine_linearizable (cache_observers cfg c) r

/-- the code model `Model.Cache.call cfg now` (the map `c.items` as an association list) -/
def cacheCall (cfg : Cache.Cfg) (now : Int) (m : Cache.Items) (o : CacheOp) : Cache.Items × Spec.C08.Out :=
  Cache.call cfg now m o.toOp

theorem cacheModel_observers (cfg : Cache.Cfg) (now : Int) (op : CacheOp) (h : cacheMode op = .r)
    (m : Cache.Items) : (cacheCall cfg now m op).1 = m := by
  cases op
  case get k => simp only [cacheCall, CacheOp.toOp, Cache.call]; split <;> rfl
  all_goals observer h

theorem cacheModel_fine_linearizable (cfg : Cache.Cfg) (now : Int) {init : Cache.Items} {h s}
    (r : Fine.Reach (oneStep (cacheCall cfg now) cacheMode) init h s) :
    Legal ⟨init, cacheCall cfg now⟩ init (linOps h) s.absObj :=
  oneStep_fine_linearizable (cacheModel_observers cfg now) r

/-- two `Set`s of the same key race (no expiry): the one that gets the lock first succeeds, the other
is refused — in every interleaving exactly the sequential outcome -/
example : ∃ s, Fine.Reach (oneStep (cacheStep ⟨0, 0, false⟩ true) cacheMode) {}
    [.ret 0 0 (.set 1 10 0) (.err true), .ret 1 1 (.set 1 11 0) (.err false),
     .lin 0 0 (.set 1 10 0) (.err true), .lin 1 1 (.set 1 11 0) (.err false),
     .inv 1 1 (.set 1 11 0), .inv 0 0 (.set 1 10 0)] s ∧ s.shared = { now := 0, es := [⟨1, 11, 0⟩] } :=
  (overlap_serial (cacheStep ⟨0, 0, false⟩ true) cacheMode {} (.set 1 10 0) (.set 1 11 0)).imp
    fun _ h => ⟨h.1, h.2.1⟩

/-- `Get` and `Count` inside at the same time -/
example : ∃ m s, Fine.Reach (oneStep (cacheStep ⟨0, 0, false⟩ true) cacheMode) { now := 0, es := [⟨1, 11, 0⟩] }
    [.lin 0 0 (.get 1) (.got (some 11)), .lin 1 1 .count (.int 1), .inv 1 1 .count, .inv 0 0 (.get 1)] m ∧
    Fine.holds (m.th 0) = some .r ∧ Fine.holds (m.th 1) = some .r ∧
    Fine.Reach (oneStep (cacheStep ⟨0, 0, false⟩ true) cacheMode) { now := 0, es := [⟨1, 11, 0⟩] }
      [.ret 0 0 (.get 1) (.got (some 11)), .ret 1 1 .count (.int 1), .lin 0 0 (.get 1) (.got (some 11)),
       .lin 1 1 .count (.int 1), .inv 1 1 .count, .inv 0 0 (.get 1)] s :=
  overlap_readers (cacheStep ⟨0, 0, false⟩ true) cacheMode { now := 0, es := [⟨1, 11, 0⟩] } (.get 1) .count rfl rfl

/-! ### Heap `heap.Heap`: `Push` (one value)/`Pop`/`Peek`/`Size`/`Clear`

The heap specification `Spec.C03.SpecStep` is relational (ties between extremal elements are left
open), so the sequential object is the array MODEL `Model.Heap.step`.  The model answers an
`Outcome` (`ok`, or Go's index `panic`, or `hang` for the `moveUp` loop under a comparator with
`comp x x`); `heapStep` makes it total by reporting `panic`/`hang` as the call's answer with the state
as it was at the lock acquisition.  From a state satisfying the representation invariant neither
occurs (`heapStep_refines`, from `C03.step_refines`), so for real heaps the totalisation is moot:
`heap_fine_linearizable_spec`. -/
section HeapInst
variable {α : Type} [Inhabited α] [DecidableEq α]

inductive HeapOp (α : Type) where
  | push (v : α)
  | pop
  | peek
  | size
  | clear

def HeapOp.toOp : HeapOp α → Spec.C03.Op α
  | .push v => .push v | .pop => .pop | .peek => .peek | .size => .size | .clear => .clear

def heapName : HeapOp α → String
  | .push _ => "Push" | .pop => "Pop" | .peek => "Peek" | .size => "Size" | .clear => "Clear"

/-- `Clear` is one of the two-section methods of `C02.lastSectionOps`: an emptiness pre-check under the
read lock, then an unconditional truncation under the write lock -/
def heapMode : HeapOp α → Mode
  | .push _ => .w | .pop => .w | .peek => .r | .size => .r | .clear => .w

def heapModes : List (String × String × Bool) := [
  ("heap.Heap", "Push", true), ("heap.Heap", "Pop", true), ("heap.Heap", "Peek", false),
  ("heap.Heap", "Size", false), ("heap.Heap", "Clear", true)]

omit [Inhabited α] [DecidableEq α] in
theorem heap_modes_listed (op : HeapOp α) : ("heap.Heap", heapName op, isWrite (heapMode op)) ∈ heapModes := by
  cases op <;> simp [heapModes, heapName, heapMode, isWrite]

/-- the array model, total: a panicking / hanging call answers `.panic` / `.hang` and leaves the state -/
def heapStep (h : Heap.Heap α) (o : HeapOp α) : Heap.Heap α × Heap.Outcome (Spec.C03.Out α) :=
  match Heap.step h o.toOp with
  | .ok (h', out) => (h', .ok out)
  | .panic => (h, .panic)
  | .hang => (h, .hang)

theorem heapStep_ok {h : Heap.Heap α} {o : HeapOp α} {h' out} (e : Heap.step h o.toOp = .ok (h', out)) :
    heapStep h o = (h', .ok out) := by
  simp only [heapStep, e]

theorem heap_observers (op : HeapOp α) (hm : heapMode op = .r) (h : Heap.Heap α) :
    (heapStep h op).1 = h := by
  cases op
  case peek =>
    simp only [heapStep, HeapOp.toOp, Heap.step]
    cases Heap.peek h <;> rfl
  all_goals observer hm

/-- on the path of `Clear` that consists of the read-mode pre-check alone (the heap is empty) the
method has no effect -/
theorem heapStep_clear_empty (h : Heap.Heap α) (e : h.data.size = 0) : (heapStep h .clear).1 = h := by
  simp [heapStep, HeapOp.toOp, Heap.step, Heap.clear, e]

/-- heap against its MODEL `Model.Heap.step` (totalised), any initial state -/
theorem heap_fine_linearizable {init : Heap.Heap α} {h s}
    (r : Fine.Reach (oneStep heapStep heapMode) init h s) :
    Legal ⟨init, heapStep⟩ init (linOps h) s.absObj :=
  oneStep_fine_linearizable heap_observers r

/-- from a state with the representation invariant (comparator a strict weak order, `data` in heap
order) an operation neither panics nor hangs, keeps the invariant, and its answer and successor are
allowed by the relational specification -/
theorem heapStep_refines (h : Heap.Heap α) (o : HeapOp α) (hi : Lemmas.C03.Inv h) :
    ∃ h' out, heapStep h o = (h', .ok out) ∧ Lemmas.C03.Inv h' ∧
      Spec.C03.SpecStep (C03.abs h) o.toOp out (C03.abs h') := by
  obtain ⟨h', out, e, i, sp⟩ := C03.step_refines h o.toOp hi (by cases o <;> trivial) (by cases o <;> trivial)
  exact ⟨h', out, heapStep_ok e, i, sp⟩

/-- a legal sequential run of the totalised model from an invariant state is a run of the relational
heap specification: all answers are `ok`, each allowed by `SpecStep` -/
theorem heap_legal_spec {O0 : Heap.Heap α} {s ops s'} (l : Legal ⟨O0, heapStep⟩ s ops s')
    (hi : Lemmas.C03.Inv s) :
    Lemmas.C03.Inv s' ∧ ∃ outs, ops.map (·.2) = outs.map Heap.Outcome.ok ∧
      Spec.C03.SpecRun (C03.abs s) (ops.map (·.1.toOp)) outs (C03.abs s') := by
  induction l with
  | nil s => exact ⟨hi, [], rfl, .nil _⟩
  | @cons s op rest s' _ ih =>
    obtain ⟨h', out, e, i, sp⟩ := heapStep_refines s op hi
    have e1 : (heapStep s op).1 = h' := by rw [e]
    have e2 : (heapStep s op).2 = .ok out := by rw [e]
    obtain ⟨i', outs, eo, run⟩ := ih (by show Lemmas.C03.Inv (heapStep s op).1; rw [e1]; exact i)
    refine ⟨i', out :: outs, ?_, ?_⟩
    · show (heapStep s op).2 :: _ = _
      rw [e2, List.map_cons, eo]
    · refine .cons sp ?_
      have run' : Spec.C03.SpecRun (C03.abs (heapStep s op).1) (rest.map (·.1.toOp)) outs (C03.abs s') := run
      rw [e1] at run'
      exact run'

/-- **C02 ∘ C03 for the heap.**  Any number of goroutines calling `Push`/`Pop`/`Peek`/`Size`/`Clear`
on a heap that starts in an invariant state (e.g. `NewHeap(comp)` with a strict weak order): no call
panics or hangs, and the calls in lock-acquisition order, with the values they returned, are a run
allowed by the heap specification (comparator order and conservation). -/
theorem heap_fine_linearizable_spec {init : Heap.Heap α} (hi : Lemmas.C03.Inv init) {h s}
    (r : Fine.Reach (oneStep heapStep heapMode) init h s) :
    Lemmas.C03.Inv s.absObj ∧ ∃ outs, (linOps h).map (·.2) = outs.map Heap.Outcome.ok ∧
      Spec.C03.SpecRun (C03.abs init) ((linOps h).map (·.1.toOp)) outs (C03.abs s.absObj) :=
  heap_legal_spec (heap_fine_linearizable r) hi

end HeapInst

/-- min-heap on `Int` (`NewHeap(<)`): `Pop` (thread 0) overlaps `Push 7` (thread 1), which gets the lock
first; the model's `moveUp`/`moveDown` are evaluated -/
example : ∃ s, Fine.Reach (oneStep heapStep (heapMode (α := Int))) (Heap.new C03.ltI)
    [.ret 0 0 .pop (.ok (.val 7)), .ret 1 1 (.push 7) (.ok .unit), .lin 0 0 .pop (.ok (.val 7)),
     .lin 1 1 (.push 7) (.ok .unit), .inv 1 1 (.push 7), .inv 0 0 .pop] s ∧ s.shared.data = #[] :=
  (overlap_serial heapStep heapMode (Heap.new C03.ltI) .pop (.push 7)).imp
    fun _ h => ⟨h.1, by rw [h.2.1]; rfl⟩

/-- `Peek` and `Size` inside at the same time -/
example : ∃ m s, Fine.Reach (oneStep heapStep (heapMode (α := Int))) ⟨C03.ltI, #[3, 5]⟩
      [.lin 0 0 .peek (.ok (.val 3)), .lin 1 1 .size (.ok (.int 2)), .inv 1 1 .size, .inv 0 0 .peek] m ∧
    Fine.holds (m.th 0) = some .r ∧ Fine.holds (m.th 1) = some .r ∧
    Fine.Reach (oneStep heapStep (heapMode (α := Int))) ⟨C03.ltI, #[3, 5]⟩
      [.ret 0 0 .peek (.ok (.val 3)), .ret 1 1 .size (.ok (.int 2)), .lin 0 0 .peek (.ok (.val 3)),
       .lin 1 1 .size (.ok (.int 2)), .inv 1 1 .size, .inv 0 0 .peek] s :=
  overlap_readers (heapStep (α := Int)) heapMode ⟨C03.ltI, #[3, 5]⟩ .peek .size rfl rfl

/-- the hypothesis of `heap_fine_linearizable_spec` is met by `NewHeap(<)` -/
example : Lemmas.C03.Inv (Heap.new C03.ltI) := C03.inv_init C03.swo_lt

/-! ## 3. The tie to the regenerated lock table -/

/-- the modes of all instances -/
def allModes : List (String × String × Bool) :=
  stackModes ++ lstackModes ++ queueModes ++ lqueueModes ++ bstModes ++ trieModes ++ cacheModes ++ heapModes

def modeOf (isW : Bool) : Mode := if isW then .w else .r

theorem modeOf_isWrite (m : Mode) : modeOf (isWrite m) = m := by cases m <;> rfl

/-- a section is unlocked, or locked in the listed mode -/
def sectAgrees (isW : Bool) (s : Sect) : Bool := s.mode == none || s.mode == some (modeOf isW)

/-- the path performs no write access at all -/
def readOnlyPath (p : PathEntry) : Bool := p.sects.all (fun s => s.accs.all (fun a => !a.write))

/-- the last locked section of a path -/
def lastLocked (p : PathEntry) : Option Sect := (p.sects.filter (fun s => s.mode.isSome)).getLast?

/-- One path of method `(ty, me)` agrees with the listed mode:
* ordinary methods: ALL locked sections of the path are in the listed mode;
* the two-section methods of `C02.lastSectionOps` (`Heap.Clear`, `Cache.Update`), treated as in
  `C02.lin_table_ok`: all sections but the last are read-only (`C02.onlyLastWrites`), and the LAST locked
  section has the listed mode — or the path performs no write at all (the early-return paths: the
  read-mode pre-check alone; there the call is an observer, `heapStep_clear_empty`). -/
def pathAgrees (ty me : String) (isW : Bool) (p : PathEntry) : Bool :=
  if C02.lastSectionOps.contains (ty, me) then
    C02.onlyLastWrites p &&
      (match lastLocked p with
       | none => true
       | some s => sectAgrees isW s || readOnlyPath p)
  else p.sects.all (sectAgrees isW)

/-- every listed (type, method, isWrite): the method exists in the table (instance 0 = the receiver) and
every one of its paths agrees with the listed mode -/
def modesAgree (t : List MethodEntry) (l : List (String × String × Bool)) : Bool :=
  l.all fun e =>
    t.any (fun m => m.type == e.1 && m.method == e.2.1 && m.inst == 0) &&
    t.all (fun m =>
      if m.type == e.1 && m.method == e.2.1 && m.inst == 0 then m.paths.all (pathAgrees e.1 e.2.1 e.2.2)
      else true)

/-- **Obligation re-checked against the current source on every run**: the lock mode each instance
gives each operation is the lock the Go method takes. -/
theorem modes_agree_with_table : modesAgree GoguVerif.Gen.lockTable allModes = true := by decide

/-- every single-element operation named by the property (`C02.singleOps`) belongs to an instance -/
theorem singleOps_covered :
    C02.singleOps.all (fun o => allModes.any (fun e => e.1 == o.1 && e.2.1 == o.2)) = true := by decide

/-- the check is not vacuous: it rejects the model's own classification of `LQueue.Search` (an
observer in `Model.LQueue.step`, but a `w` section in the code), and a `Peek` declared `w` -/
example : modesAgree GoguVerif.Gen.lockTable [("queue.LQueue", "Search", false)] = false := by decide
example : modesAgree GoguVerif.Gen.lockTable [("stack.Stack", "Peek", true)] = false := by decide
example : modesAgree GoguVerif.Gen.lockTable [("trie.Trie", "Keys", false)] = false := by decide
example : modesAgree GoguVerif.Gen.lockTable [("heap.Heap", "Clear", false)] = false := by decide

/-- what `modesAgree` gives for one listed entry, one table row, one path -/
theorem listed_paths_agree {t : List MethodEntry} {l : List (String × String × Bool)}
    (h : modesAgree t l = true) {ty me : String} {isW : Bool} (he : (ty, me, isW) ∈ l)
    {m : MethodEntry} (hm : m ∈ t) (h1 : m.type = ty) (h2 : m.method = me) (h3 : m.inst = 0)
    {p : PathEntry} (hp : p ∈ m.paths) : pathAgrees ty me isW p = true := by
  simp only [modesAgree, List.all_eq_true, Bool.and_eq_true] at h
  have := (h _ he).2 m hm
  simp [h1, h2, h3] at this
  exact this p hp

/-- For every operation of an instance that is not one of the two-section methods: in the CURRENT
Go source, every section of every path of the method is unlocked or locked in exactly the mode the
instance's `mode` function gives (use with `*_modes_listed` and `modeOf_isWrite`). -/
theorem listed_sections {ty me : String} {isW : Bool} (he : (ty, me, isW) ∈ allModes)
    (hn : C02.lastSectionOps.contains (ty, me) = false)
    {m : MethodEntry} (hm : m ∈ GoguVerif.Gen.lockTable) (h1 : m.type = ty) (h2 : m.method = me)
    (h3 : m.inst = 0) {p : PathEntry} (hp : p ∈ m.paths) {sec : Sect} (hs : sec ∈ p.sects) :
    sec.mode = none ∨ sec.mode = some (modeOf isW) := by
  have := listed_paths_agree modes_agree_with_table he hm h1 h2 h3 hp
  simp only [pathAgrees, hn, Bool.false_eq_true, if_false, List.all_eq_true] at this
  have := this sec hs
  simpa [sectAgrees] using this

/-- e.g. the slice stack: the lock `stackMode op` IS the lock the Go method `stackName op` takes -/
theorem stack_lock_is_table_lock {α : Type} (op : Spec.C06.Op α)
    {m : MethodEntry} (hm : m ∈ GoguVerif.Gen.lockTable) (h1 : m.type = "stack.Stack")
    (h2 : m.method = stackName op) (h3 : m.inst = 0) {p : PathEntry} (hp : p ∈ m.paths)
    {sec : Sect} (hs : sec ∈ p.sects) : sec.mode = none ∨ sec.mode = some (stackMode op) := by
  have he : ("stack.Stack", stackName op, isWrite (stackMode op)) ∈ allModes := by
    simp only [allModes, List.mem_append]; exact Or.inl (Or.inl (Or.inl (Or.inl (Or.inl (Or.inl (Or.inl (stack_modes_listed op)))))))
  have := listed_sections he (by cases op <;> simp [stackName, C02.lastSectionOps]) hm h1 h2 h3 hp hs
  rwa [modeOf_isWrite] at this

end GoguVerif.Theorems.C02Inst
