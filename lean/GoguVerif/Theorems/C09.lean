import GoguVerif.Lemmas.C09
/-!
# C09 — property theorems: the trie is a string-keyed map with exact prefix queries

All theorems are about the model `Model.Trie` of `trie/trie.go` (tied to the code by the
correspondence run) and hold for every history, key and value — no bound.

* `trie_step_refines`, `trie_run_refines`, `trie_refines` — representation invariant + refinement to
  the specification `Spec.C09` (finite map from non-empty byte strings, kept as a sorted list);
* the clauses of the property statement as corollaries, for the state `t` reached from the empty
  trie by ANY history `ops` of calls whose `Put`s have non-empty keys (`Reached ops t`); `puts` is the
  list of `Put`s of that history in order.

There is no open known finding for C09 (F18, F19 and the C02 part of F08 are repaired in /repo; the
model mirrors the repaired code), so no `_partial` theorem and no negated statement.
-/
namespace GoguVerif.Theorems.C09
open GoguVerif GoguVerif.Spec GoguVerif.Spec.C09 GoguVerif.Model.Trie GoguVerif.Lemmas.C09

/-! ## Refinement -/

/-- Initial state: the empty trie satisfies the invariant and represents the empty map. -/
theorem trie_init : Inv {} ∧ abs {} = [] := ⟨inv_init, abs_init⟩

/-- One call (any operation; `Put` with a non-empty key): the model does not panic, answers what the
specification prescribes, moves to a state representing the specification's next state, keeps `Inv`. -/
theorem trie_step_refines (t : Trie) (op : Op) (hi : Inv t) (hv : ValidOp op) :
    ∃ t', Model.Trie.step t op = some (t', (Spec.C09.step (abs t) op).2) ∧
      abs t' = (Spec.C09.step (abs t) op).1 ∧ Inv t' :=
  step_refines' t op hi hv

/-- Whole histories from any state satisfying the invariant. -/
theorem trie_run_refines (ops : List Op) : ∀ (t : Trie), Inv t → (∀ op ∈ ops, ValidOp op) →
    ∃ t', Model.Trie.run t ops = some (t', (specRun (abs t) ops).2) ∧
      abs t' = (specRun (abs t) ops).1 ∧ Inv t' := by
  induction ops with
  | nil => intro t hi _; exact ⟨t, rfl, rfl, hi⟩
  | cons op ops ih =>
    intro t hi hv
    obtain ⟨t1, s1, s2, s3⟩ := trie_step_refines t op hi (hv op (by simp))
    obtain ⟨t2, r1, r2, r3⟩ := ih t1 s3 (fun o ho => hv o (by simp [ho]))
    refine ⟨t2, ?_, ?_, r3⟩
    · simp only [Model.Trie.run, s1, r1, specRun, s2]
    · simp only [specRun, r2, s2]

/-- Every history on a fresh trie: no panic, the answers are exactly the specification's. -/
theorem trie_refines (ops : List Op) (hv : ∀ op ∈ ops, ValidOp op) :
    ∃ t', Model.Trie.run {} ops = some (t', (specRun [] ops).2) ∧
      abs t' = build (putsOf ops) ∧ Inv t' := by
  obtain ⟨t', h1, h2, h3⟩ := trie_run_refines ops {} inv_init hv
  refine ⟨t', h1, ?_, h3⟩
  rw [h2, abs_init, specRun_state]; rfl

/-- In EVERY state satisfying the invariant (reached by a history or not) the represented map is strictly
increasing in byte-lexicographic order, so `Keys` (= its key list, `Keys_refines`) is sorted and
duplicate-free. -/
theorem inv_sorted (t : Trie) (hi : Inv t) :
    OrdMap.Sorted lexLt (abs t) ∧ (keys (abs t)).Pairwise (fun a b => lexLt a b = true) ∧
      (keys (abs t)).Nodup :=
  ⟨ents_sorted t.root hi.1, sorted_pairwise _ (ents_sorted t.root hi.1),
    sorted_nodup _ (ents_sorted t.root hi.1)⟩

/-- The comparator of the specification, byte-lexicographic `<`, is a strict total order. -/
theorem lexLt_strict_total : OrdMap.STO lexLt := lexLt_sto

example : lexLt [0x61] [0x61, 0x00] = true ∧ lexLt [0x61, 0xFF] [0x62] = true ∧
    lexLt [0x7F] [0x80] = true := by decide

example : ValidOp (.put [0x61, 0xC3] 7) ∧ ValidOp (.get []) ∧ ValidOp .keys :=
  ⟨by simp [ValidOp], trivial, trivial⟩

/-- `t` is the state of the model after running the history `ops` on a fresh trie. -/
def Reached (ops : List Op) (t : Trie) : Prop := ∃ outs, Model.Trie.run {} ops = some (t, outs)

/-- The hypothesis of the clause theorems: all `Put` keys of the history are non-empty. -/
def ValidHist (ops : List Op) : Prop := ∀ op ∈ ops, ValidOp op

/-- Every valid history reaches a state (the model never panics on it) … -/
theorem reached_exists (ops : List Op) (hv : ValidHist ops) : ∃ t, Reached ops t := by
  obtain ⟨t', h1, _, _⟩ := trie_refines ops hv
  exact ⟨t', _, h1⟩

/-- … and that state satisfies the invariant and represents the map built from the history's `Put`s. -/
theorem reached_spec (ops : List Op) (t : Trie) (hv : ValidHist ops) (hr : Reached ops t) :
    Inv t ∧ abs t = build (putsOf ops) := by
  obtain ⟨t', h1, h2, h3⟩ := trie_refines ops hv
  obtain ⟨outs, ho⟩ := hr
  rw [h1] at ho
  cases ho
  exact ⟨h3, h2⟩

/-- Outside the property's domain: `Put` with an empty key panics in the model (as `key[0]` does in Go). -/
theorem put_empty_panics (t : Trie) (v : Int) : Model.Trie.step t (.put [] v) = none := by
  have hp : put t.root [] v 0 true = none := by cases t.root <;> rfl
  have hg : Model.Trie.get t.root [] 0 = some (T.nil, true) := by cases t.root <;> rfl
  simp [Model.Trie.step, Put, hg, hp]

/-! ## The clauses of the property, for every history -/

section clauses
variable (ops : List Op) (t : Trie) (hv : ValidHist ops) (hr : Reached ops t)
include hv hr

/-- **Get is exact, latest value wins.**  `Get k` reports the value of the last `Put k _` of the history
and absence if there was none (in particular for proper prefixes and extensions of stored keys, and for
the empty key); the state does not change. -/
theorem get_exact (k : Key) :
    Model.Trie.step t (.get k) = some (t, .got (if k.isEmpty then none else latest k (putsOf ops))) := by
  obtain ⟨hi, ha⟩ := reached_spec ops t hv hr
  have hg := Get_refines t k hi
  simp only [Model.Trie.step, hg, ha, build_lookup]

/-- **Contains is exact.**  `Contains k` is true iff `k` was put. -/
theorem contains_exact (k : Key) :
    Model.Trie.step t (.contains k) = some (t, .bool (decide (k ∈ (putsOf ops).map (·.1)))) := by
  obtain ⟨hi, ha⟩ := reached_spec ops t hv hr
  have hc := Contains_refines t k hi
  simp only [Model.Trie.step, hc, ha]
  congr 3
  cases k with
  | nil =>
    -- the empty key is never stored
    have : ([] : Key) ∉ (putsOf ops).map (·.1) := by
      intro hm
      have := (build_keys (putsOf ops) []).mpr hm
      rw [← ha] at this
      simp only [keys, abs, List.mem_map] at this
      obtain ⟨e, he, h0⟩ := this
      exact ents_ne_nil _ e he h0
    simp [this]
  | cons c ks =>
    simp only [List.isEmpty_cons, Bool.false_eq_true, if_false]
    by_cases hm : (c :: ks) ∈ (putsOf ops).map (·.1)
    · have : (c :: ks) ∈ keys (build (putsOf ops)) := (build_keys _ _).mpr hm
      cases hl : OrdMap.lookup lexLt (c :: ks) (build (putsOf ops)) with
      | none => exact absurd this ((lookup_eq_none_iff _ _ (build_sorted _)).mp hl)
      | some v => simp [hm]
    · have : (c :: ks) ∉ keys (build (putsOf ops)) := fun h => hm ((build_keys _ _).mp h)
      rw [(lookup_eq_none_iff _ _ (build_sorted _)).mpr this]
      simp [hm]

/-- **Proper prefixes and extensions are not reported**: a key that was never put (whatever its relation
to the stored keys) is absent for `Get` and `Contains`. -/
theorem not_put_not_reported (k : Key) (hk : k ∉ (putsOf ops).map (·.1)) :
    Model.Trie.step t (.get k) = some (t, .got none) ∧
    Model.Trie.step t (.contains k) = some (t, .bool false) := by
  refine ⟨?_, ?_⟩
  · rw [get_exact ops t hv hr k]
    have : latest k (putsOf ops) = none := by
      rw [← build_lookup, lookup_eq_none_iff _ _ (build_sorted _)]
      exact fun h => hk ((build_keys _ _).mp h)
    simp [this]
  · rw [contains_exact ops t hv hr k]; simp [hk]

/-- **Size = number of distinct keys**: there is a duplicate-free list of exactly the keys that were put,
and `Size` is its length. -/
theorem size_distinct :
    ∃ ks : List Key, ks.Nodup ∧ (∀ k, k ∈ ks ↔ k ∈ (putsOf ops).map (·.1)) ∧
      Model.Trie.step t .size = some (t, .int ks.length) := by
  obtain ⟨hi, ha⟩ := reached_spec ops t hv hr
  refine ⟨keys (abs t), ?_, ?_, ?_⟩
  · rw [ha]; exact sorted_nodup _ (build_sorted _)
  · intro k; rw [ha]; exact build_keys _ k
  · simp [Model.Trie.step, hi.2, keys, abs]

/-- **Size = number of distinct keys**, computed: the length of the history's key list with duplicates
erased. -/
theorem size_eq_distinct :
    Model.Trie.step t .size = some (t, .int ((putsOf ops).map (·.1)).eraseDups.length) := by
  obtain ⟨hi, ha⟩ := reached_spec ops t hv hr
  simp only [Model.Trie.step, hi.2]
  rw [← build_length, ← ha]; rfl

/-- **Keys**: every key that was put, exactly once, unaltered, strictly increasing in byte-lexicographic
order; no error; the map is unchanged. -/
theorem keys_sorted_complete :
    ∃ t' ks, Model.Trie.step t .keys = some (t', .keyList ks false) ∧ abs t' = abs t ∧
      ks.Pairwise (fun a b => lexLt a b = true) ∧ ks.Nodup ∧
      (∀ k, k ∈ ks ↔ k ∈ (putsOf ops).map (·.1)) := by
  obtain ⟨hi, ha⟩ := reached_spec ops t hv hr
  obtain ⟨h1, h2, h3, _⟩ := Keys_refines t
  refine ⟨(Keys t).1, keys (abs t), ?_, h3, ?_, ?_, ?_⟩
  · simp only [Model.Trie.step]; rw [h1, h2]; rfl
  · rw [ha]; exact sorted_pairwise _ (build_sorted _)
  · rw [ha]; exact sorted_nodup _ (build_sorted _)
  · intro k; rw [ha]; exact build_keys _ k

/-- **StartsWith p** (`p` non-empty) = the sub-list of the `Keys` answer consisting of the keys that begin
with `p` — hence exactly the stored keys with prefix `p`, in the same (lexicographic) order. -/
theorem startsWith_exact (p : Key) (hp : p ≠ []) :
    ∃ t' t'' ks, Model.Trie.step t .keys = some (t', .keyList ks false) ∧
      Model.Trie.step t (.startsWith p) = some (t'', .keyList (ks.filter (isPrefix p)) false) ∧
      abs t'' = abs t ∧
      (∀ k, k ∈ ks.filter (isPrefix p) ↔ k ∈ (putsOf ops).map (·.1) ∧ ∃ s, k = p ++ s) := by
  obtain ⟨hi, ha⟩ := reached_spec ops t hv hr
  obtain ⟨h1, h2, _, _⟩ := Keys_refines t
  obtain ⟨t'', e, s1, s2, _, s4⟩ := StartsWith_refines t p hi
  cases p with
  | nil => exact absurd rfl hp
  | cons c ps =>
    simp only [Spec.C09.step, List.isEmpty_cons, Bool.false_eq_true, if_false, Out.keyList.injEq] at s4
    refine ⟨(Keys t).1, t'', keys (abs t), ?_, ?_, s2, ?_⟩
    · simp only [Model.Trie.step]; rw [h1, h2]; rfl
    · simp only [Model.Trie.step, s1, s4.1, s4.2, keys]
    · intro k
      rw [List.mem_filter, ha, build_keys, isPrefix_iff]

/-- **LongestPrefix q** (`q` non-empty) returns, without error and without changing the trie, the longest
stored key that is a prefix of `q`, and the empty string iff no stored key is a prefix of `q`. -/
theorem longestPrefix_exact (q : Key) (hq : q ≠ []) :
    ∃ r, Model.Trie.step t (.longestPrefix q) = some (t, .key r false) ∧
      ((r = [] ∧ ∀ k ∈ (putsOf ops).map (·.1), isPrefix k q = false) ∨
       (r ∈ (putsOf ops).map (·.1) ∧ isPrefix r q = true ∧
        ∀ k ∈ (putsOf ops).map (·.1), isPrefix k q = true → k.length ≤ r.length)) := by
  obtain ⟨hi, ha⟩ := reached_spec ops t hv hr
  have hl := LongestPrefix_refines t q hi
  cases q with
  | nil => exact absurd rfl hq
  | cons c qs =>
    simp only [List.isEmpty_cons, Bool.false_eq_true, if_false] at hl
    refine ⟨longest (c :: qs) (abs t), by simp [Model.Trie.step, hl], ?_⟩
    obtain ⟨_, hge⟩ := foldl_longest_ge (c :: qs) (abs t) []
    have hmem : ∀ k, k ∈ (putsOf ops).map (·.1) ↔ ∃ e ∈ abs t, e.1 = k := by
      intro k; rw [← build_keys, ← ha]; simp [keys]
    rcases foldl_lf_result (c :: qs) (abs t) [] with h | ⟨e, he, h1, h2⟩
    · left
      refine ⟨h, ?_⟩
      intro k hk
      obtain ⟨e, he, rfl⟩ := (hmem k).mp hk
      cases hp : isPrefix e.1 (c :: qs) with
      | false => rfl
      | true =>
        have h3 := hge e he hp
        have h4 : (longest (c :: qs) (abs t)).length = 0 := by rw [longest_eq, h]; rfl
        have h5 : e.1 ≠ [] := ents_ne_nil _ e he
        have : 0 < e.1.length := List.length_pos_iff.mpr h5
        rw [longest] at h4
        omega
    · right
      rw [longest_eq, h1]
      refine ⟨(hmem _).mpr ⟨e, he, rfl⟩, h2, ?_⟩
      intro k hk hp
      obtain ⟨e', he', rfl⟩ := (hmem k).mp hk
      have := hge e' he' hp
      rw [← longest, longest_eq, h1] at this
      exact this

/-- **Observers do not change the map**: after any non-`Put` call the abstract state (hence every later
answer) is the same. -/
theorem observers_keep_map (op : Op) (hop : ∀ k v, op ≠ .put k v) :
    ∃ t' o, Model.Trie.step t op = some (t', o) ∧ abs t' = abs t ∧ t'.n = t.n := by
  obtain ⟨hi, _⟩ := reached_spec ops t hv hr
  have hvo : ValidOp op := by cases op <;> first | trivial | exact absurd rfl (hop _ _)
  obtain ⟨t', h1, h2, h3⟩ := trie_step_refines t op hi hvo
  refine ⟨t', _, h1, ?_, ?_⟩
  · rw [h2, spec_step_state]; cases op <;> first | rfl | exact absurd rfl (hop _ _)
  · have e : abs t' = abs t := by
      rw [h2, spec_step_state]; cases op <;> first | rfl | exact absurd rfl (hop _ _)
    have := h3.2; rw [hi.2]; simp only [abs] at e; rw [this, e]

end clauses

/-- **Empty key / prefix / query**: `Get ""` and `Contains ""` report absence, `StartsWith ""` and
`LongestPrefix ""` are rejected with an error and an empty result; the map and the counter are unchanged in all four.  Holds in every state. -/
theorem empty_rules (t : Trie) :
    Model.Trie.step t (.get []) = some (t, .got none) ∧
    Model.Trie.step t (.contains []) = some (t, .bool false) ∧
    (∃ t', Model.Trie.step t (.startsWith []) = some (t', .keyList [] true) ∧ abs t' = abs t ∧ t'.n = t.n) ∧
    Model.Trie.step t (.longestPrefix []) = some (t, .key [] true) := by
  refine ⟨rfl, rfl, ⟨{ t with q := [] }, rfl, rfl, rfl⟩, rfl⟩

/-! ## Non-vacuity: concrete histories evaluated on the model -/

/-- the F18 witness on the (repaired) model: nested keys, proper prefixes are not reported, Size counts
both keys -/
example :
    (Model.Trie.run {} [.put [0x61, 0x62, 0x63] 1, .get [0x61, 0x62], .contains [0x61],
        .put [0x61, 0x62] 2, .size, .keys]).map (·.2) =
      some [.unit, .got none, .bool false, .unit, .int 2,
        .keyList [[0x61, 0x62], [0x61, 0x62, 0x63]] false] := by decide

/-- the F19 witness: bytes ≥ 0x80 come back unaltered; StartsWith / LongestPrefix on them -/
example :
    (Model.Trie.run {} [.put [0x61, 0xC3, 0xA9, 0x61, 0xFF] 221, .keys, .put [0xA9, 0x80] 5,
        .startsWith [0xA9], .longestPrefix [0xA9, 0x80, 0xFF]]).map (·.2) =
      some [.unit, .keyList [[0x61, 0xC3, 0xA9, 0x61, 0xFF]] false, .unit,
        .keyList [[0xA9, 0x80]] false, .key [0xA9, 0x80] false] := by decide

/-- a history satisfying the hypotheses of the clause theorems, and the state it reaches -/
example : ValidHist [.put [1] 10, .keys, .put [1, 2] 11, .put [1] 12] ∧
    ∃ t, Reached [.put [1] 10, .keys, .put [1, 2] 11, .put [1] 12] t ∧ t.n = 2 := by
  refine ⟨?_, _, ⟨_, rfl⟩, by decide⟩
  intro op hop
  simp only [List.mem_cons, List.not_mem_nil, or_false] at hop
  rcases hop with rfl | rfl | rfl | rfl <;> simp [ValidOp]

end GoguVerif.Theorems.C09
