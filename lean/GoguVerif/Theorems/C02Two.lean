import GoguVerif.Model.Fine2
import GoguVerif.Theorems.C02Inst
import GoguVerif.Theorems.C02More
/-!
# C02 — methods made of several critical sections (`Heap.Clear`, `Cache.Update`) at micro-step granularity

`Model/Fine2.lean`: a method is a list of read-mode pre-sections (each may decide to return early)
followed by one final section; between two sections of one call the lock is free and other threads
may run whole operations.

`fine2_refines_atomic` (generic, any number of threads, any interleaving admitted by the RWMutex
rules): under `Fine2.Cond meth step` —

* pre-sections and read-mode final sections do not write the shared state,
* the final section's effect and result do not depend on what the earlier sections read and are
  the sequential meaning `step` of the operation at the state it finds,
* an early return with `r` is taken only when `step` at the state read is a no-op with result `r` —

every fine-grained execution is an execution of the ATOMIC system of `Model/Lin.lean` for the
sequential object `step`, with the same events (`inv`, `tau` = a pre-section entered, `lin`, `ret`);
linearization point: the acquisition of the final section, or the release of the deciding
pre-section on an early-return path.  Hence (`fine2_linearizable`, Theorem 1 of `Theorems/C02.lean`)
the operations in `lin` order are a `Legal` run of `step` producing exactly the returned values, and
`ret_after_lin`, `lin_after_inv`, `real_time_order` apply verbatim (`fine2_real_time_order`).
`atomic_eq_step`: under the same condition the sections of a method run back to back in isolation
ARE `step` — `step` is the method's own sequential meaning, not an arbitrary object.

Instances (`twoStep`: the `oneStep` table of `C02Inst` with a pre-check section in front of the
designated operations): `heap.Heap` with `Clear` = {`r`: `Size() == 0` → return} ; {`w`: truncate}
against `heapStep`; `cache.Cache` with `Update` = {`r`: `Get`} ; {`w`: `add`} against
`Model.Cache.call`.  `clear_push_between`: a concrete history in which another thread's `Push` runs
between the two sections of `Clear`.

This closes the residual gap noted at `C02Inst.pathAgrees`: here the early-return path of `Clear`
takes only the READ lock, as the code does.
-/
namespace GoguVerif.Theorems.C02Two
open GoguVerif.Model GoguVerif.Model.Fine2
open GoguVerif.Model.Fine (runSteps)
open GoguVerif.Model.Lock (Mode)
open GoguVerif.Theorems.C02Fine (runSteps_cons runSteps_readonly)

section Generic
variable {σ lam Op Ret : Type}

/-- what a thread's state must satisfy, given the shared state `sh` and the abstract state `ab` -/
def Good (meth : Op → Meth σ lam Ret) (step : σ → Op → σ × Ret) (sh ab : σ) : TState σ lam Op Ret → Prop
  | .idle => True
  | .waiting _ op pre _ => ∀ x ∈ pre, x ∈ (meth op).pre
  | .inPre _ op rest sec pre loc =>
      ab = sh ∧ RO rest ∧ (∀ x ∈ pre, x ∈ (meth op).pre) ∧
      (∀ r, sec.early (runSteps rest (sh, loc)).2 = some r → step sh op = (sh, r))
  | .inFinal _ op m rest loc r =>
      m = (meth op).mode ∧ (meth op).result (runSteps rest (sh, loc)).2 = r ∧
      (m = .r → RO rest ∧ ab = sh) ∧ (m = .w → ab = (runSteps rest (sh, loc)).1)
  | .finished _ _ _ => True

/-- invariant of the fine-grained system -/
structure Inv (meth : Op → Meth σ lam Ret) (step : σ → Op → σ × Ret) (s : State σ lam Op Ret) : Prop where
  /-- a writer inside excludes everybody else -/
  excl : ∀ i j, i ≠ j → holds (s.th i) = some .w → holds (s.th j) = none
  good : ∀ i, Good meth step s.shared s.absObj (s.th i)
  /-- without a writer inside the abstract object is the shared state -/
  noWriter : (∀ i, holds (s.th i) ≠ some .w) → s.absObj = s.shared

theorem good_frame {meth : Op → Meth σ lam Ret} {step : σ → Op → σ × Ret} {sh ab sh' ab' : σ}
    {t : TState σ lam Op Ret} (hn : holds t = none) (g : Good meth step sh ab t) : Good meth step sh' ab' t := by
  cases t with
  | idle => trivial
  | waiting c op pre loc => exact g
  | inPre c op rest sec pre loc => simp [holds] at hn
  | inFinal c op m rest loc r => simp [holds] at hn
  | finished c op r => trivial

theorem upd_self (th : Nat → TState σ lam Op Ret) (t : Nat) (x) : Lin.upd th t x t = x := by simp [Lin.upd]

theorem upd_ne (th : Nat → TState σ lam Op Ret) (t j : Nat) (x) (h : j ≠ t) : Lin.upd th t x j = th j := by
  simp [Lin.upd, h]

theorem excl_upd {th : Nat → TState σ lam Op Ret} {t : Nat} {x : TState σ lam Op Ret}
    (old : ∀ i j, i ≠ j → holds (th i) = some .w → holds (th j) = none)
    (hw : holds x = some .w → ∀ j, j ≠ t → holds (th j) = none)
    (hh : holds x ≠ none → ∀ j, j ≠ t → holds (th j) ≠ some .w) :
    ∀ i j, i ≠ j → holds (Lin.upd th t x i) = some .w → holds (Lin.upd th t x j) = none := by
  intro i j hij h
  by_cases ei : i = t
  · subst ei
    rw [upd_self] at h
    rw [upd_ne _ _ _ _ (Ne.symm hij)]
    exact hw h j (Ne.symm hij)
  · rw [upd_ne _ _ _ _ ei] at h
    by_cases ej : j = t
    · subst ej
      rw [upd_self]
      by_cases hx : holds x = none
      · exact hx
      · exact absurd h (hh hx i ei)
    · rw [upd_ne _ _ _ _ ej]
      exact old i j hij h

theorem good_upd {meth : Op → Meth σ lam Ret} {step : σ → Op → σ × Ret} {sh ab : σ}
    {th : Nat → TState σ lam Op Ret} {t : Nat} {x : TState σ lam Op Ret}
    (others : ∀ i, i ≠ t → Good meth step sh ab (th i)) (self : Good meth step sh ab x) :
    ∀ i, Good meth step sh ab (Lin.upd th t x i) := by
  intro i
  by_cases ei : i = t
  · subst ei; rw [upd_self]; exact self
  · rw [upd_ne _ _ _ _ ei]; exact others i ei

theorem noWriter_old {th : Nat → TState σ lam Op Ret} {t : Nat} {x : TState σ lam Op Ret}
    (ht : holds (th t) ≠ some .w) (h : ∀ i, holds (Lin.upd th t x i) ≠ some .w) :
    ∀ i, holds (th i) ≠ some .w := by
  intro i
  by_cases ei : i = t
  · subst ei; exact ht
  · have := h i; rwa [upd_ne _ _ _ _ ei] at this

theorem inv_init (meth : Op → Meth σ lam Ret) (step : σ → Op → σ × Ret) (init : σ) :
    Inv meth step (initState init : State σ lam Op Ret) :=
  ⟨fun i j _ h => by simp [initState, holds] at h, fun i => by simp [initState, Good], fun _ => rfl⟩

/-- a reader inside means no writer inside -/
theorem no_writer_of_reader {meth : Op → Meth σ lam Ret} {step : σ → Op → σ × Ret} {s : State σ lam Op Ret}
    (hi : Inv meth step s) (t : Nat) (h : holds (s.th t) = some .r) : ∀ i, holds (s.th i) ≠ some .w := by
  intro i hw
  by_cases e : i = t
  · subst e; rw [h] at hw; cases hw
  · have := hi.excl i t e hw
    rw [h] at this; cases this

theorem ro_tail {f : σ × lam → σ × lam} {rest} (h : RO (f :: rest)) : RO rest :=
  fun g hg p => h g (by simp [hg]) p

theorem inv_step {meth : Op → Meth σ lam Ret} {step : σ → Op → σ × Ret} (cond : Cond meth step)
    {s s' : State σ lam Op Ret} {e} (hi : Inv meth step s) (st : Step meth s e s') : Inv meth step s' := by
  cases st with
  | inv t op h =>
    refine ⟨?_, ?_, ?_⟩
    · exact excl_upd hi.excl (fun hw => by simp [holds] at hw) (fun hh => absurd rfl hh)
    · exact good_upd (fun i _ => hi.good i) (fun x hx => hx)
    · intro hnw
      exact hi.noWriter (noWriter_old (by rw [h]; simp [holds]) hnw)
  | acquirePre t c op sec pre loc h ok =>
    have hg := hi.good t
    rw [h] at hg
    have hnw : ∀ i, holds (s.th i) ≠ some .w := by
      intro i
      by_cases ei : i = t
      · subst ei; rw [h]; simp [holds]
      · exact ok i ei
    refine ⟨?_, ?_, ?_⟩
    · exact excl_upd hi.excl (fun hw => by simp [holds] at hw) (fun _ => ok)
    · refine good_upd (fun i _ => hi.good i) ⟨hi.noWriter hnw, ?_, ?_, ?_⟩
      · exact cond.preRO op sec (hg sec (by simp))
      · exact fun x hx => hg x (by simp [hx])
      · exact fun r hr => cond.early op sec (hg sec (by simp)) s.shared loc r hr
    · intro _; exact hi.noWriter hnw
  | microPre t c op f rest sec pre loc h =>
    have hg := hi.good t
    rw [h] at hg
    obtain ⟨g1, g2, g3, g4⟩ := hg
    have hf : (f (s.shared, loc)).1 = s.shared := g2 f (by simp) _
    have hfe : f (s.shared, loc) = (s.shared, (f (s.shared, loc)).2) := Prod.ext hf rfl
    have hnw : ∀ i, holds (s.th i) ≠ some .w := no_writer_of_reader hi t (by rw [h]; rfl)
    refine ⟨?_, ?_, ?_⟩
    · exact excl_upd hi.excl (fun hw => by simp [holds] at hw) (fun _ j _ => hnw j)
    · dsimp only
      rw [hf]
      refine good_upd (fun i _ => hi.good i) ⟨g1, ro_tail g2, g3, ?_⟩
      intro r hr
      apply g4 r
      rw [runSteps_cons, hfe]; exact hr
    · intro _; dsimp only; rw [hf]; exact g1
  | releaseEarly t c op sec pre loc r h e =>
    have hg := hi.good t
    rw [h] at hg
    refine ⟨?_, ?_, ?_⟩
    · exact excl_upd hi.excl (fun hw => by simp [holds] at hw) (fun hh => absurd rfl hh)
    · exact good_upd (fun i _ => hi.good i) trivial
    · intro _; exact hg.1
  | releaseCont t c op sec pre loc h e =>
    have hg := hi.good t
    rw [h] at hg
    refine ⟨?_, ?_, ?_⟩
    · exact excl_upd hi.excl (fun hw => by simp [holds] at hw) (fun hh => absurd rfl hh)
    · exact good_upd (fun i _ => hi.good i) hg.2.2.1
    · intro _; exact hg.1
  | acquireFinal t c op loc h ok =>
    have hnw : ∀ i, holds (s.th i) ≠ some .w := by
      intro i hw
      by_cases ei : i = t
      · subst ei; rw [h] at hw; simp [holds] at hw
      · cases hm : (meth op).mode with
        | r => rw [hm] at ok; exact ok i ei hw
        | w => rw [hm] at ok; have := ok i ei; rw [this] at hw; cases hw
    have habs : s.absObj = s.shared := hi.noWriter hnw
    have hro : (meth op).mode = .r → (finalAtomic (meth op) s.absObj loc).1 = s.absObj := fun hm =>
      runSteps_readonly _ (cond.finalRO op hm) _
    refine ⟨?_, ?_, ?_⟩
    · refine excl_upd hi.excl (fun hw => ?_) (fun _ j _ => hnw j)
      have hm : (meth op).mode = .w := by simpa [holds] using hw
      rw [hm] at ok; exact ok
    · dsimp only
      refine good_upd (fun i ei => ?_) ⟨rfl, ?_, ?_, ?_⟩
      · cases hm : (meth op).mode with
        | r => rw [hro hm]; exact hi.good i
        | w => rw [hm] at ok; exact good_frame (ok i ei) (hi.good i)
      · simp only [finalAtomic, habs]
      · intro hm; exact ⟨cond.finalRO op hm, by rw [hro hm]; exact habs⟩
      · intro _; simp only [finalAtomic, habs]
    · intro hnw'
      dsimp only at hnw' ⊢
      have hm : (meth op).mode = .r := by
        cases hmm : (meth op).mode with
        | r => rfl
        | w => exact absurd (by simp [upd_self, holds, hmm]) (hnw' t)
      rw [hro hm]; exact habs
  | microFinal t c op m f rest loc r h =>
    have hg := hi.good t
    rw [h] at hg
    obtain ⟨g1, g2, g3, g4⟩ := hg
    cases m with
    | w =>
      have hothers : ∀ j, j ≠ t → holds (s.th j) = none := fun j hj =>
        hi.excl t j (Ne.symm hj) (by rw [h]; rfl)
      refine ⟨?_, ?_, ?_⟩
      · exact excl_upd hi.excl (fun _ => hothers) (fun _ j hj => by rw [hothers j hj]; simp)
      · dsimp only
        refine good_upd (fun i ei => good_frame (hothers i ei) (hi.good i)) ⟨g1, ?_, ?_, ?_⟩
        · simpa [runSteps_cons] using g2
        · intro hm; cases hm
        · intro _; simpa [runSteps_cons] using g4 rfl
      · intro hnw
        exact absurd (by simp [upd_self, holds]) (hnw t)
    | r =>
      obtain ⟨gro, gab⟩ := g3 rfl
      have hf : (f (s.shared, loc)).1 = s.shared := gro f (by simp) _
      have hfe : f (s.shared, loc) = (s.shared, (f (s.shared, loc)).2) := Prod.ext hf rfl
      have hnw : ∀ i, holds (s.th i) ≠ some .w := no_writer_of_reader hi t (by rw [h]; rfl)
      refine ⟨?_, ?_, ?_⟩
      · exact excl_upd hi.excl (fun hw => by simp [holds] at hw) (fun _ j _ => hnw j)
      · dsimp only
        rw [hf]
        refine good_upd (fun i _ => hi.good i) ⟨g1, ?_, fun _ => ⟨ro_tail gro, gab⟩, fun hm => by cases hm⟩
        rw [runSteps_cons, hfe] at g2; exact g2
      · intro _; dsimp only; rw [hf]; exact gab
  | releaseFinal t c op m loc r h =>
    have hg := hi.good t
    rw [h] at hg
    obtain ⟨g1, g2, g3, g4⟩ := hg
    refine ⟨?_, ?_, ?_⟩
    · exact excl_upd hi.excl (fun hw => by simp [holds] at hw) (fun hh => absurd rfl hh)
    · exact good_upd (fun i _ => hi.good i) trivial
    · intro _
      cases m with
      | w => simpa [runSteps] using g4 rfl
      | r => exact (g3 rfl).2
  | ret t c op r h =>
    refine ⟨?_, ?_, ?_⟩
    · exact excl_upd hi.excl (fun hw => by simp [holds] at hw) (fun hh => absurd rfl hh)
    · exact good_upd (fun i _ => hi.good i) trivial
    · intro hnw
      exact hi.noWriter (noWriter_old (by rw [h]; simp [holds]) hnw)

theorem absPc_upd (th : Nat → TState σ lam Op Ret) (t : Nat) (x : TState σ lam Op Ret) :
    (fun j => absPc (Lin.upd th t x j)) = Lin.upd (fun j => absPc (th j)) t (absPc x) := by
  funext j
  by_cases e : j = t <;> simp [Lin.upd, e]

/-- a step that changes neither the abstract object nor the thread's abstract program counter is
invisible in the atomic system -/
theorem abs_upd_same (s : State σ lam Op Ret) (t : Nat) (x : TState σ lam Op Ret) (sh' : σ)
    (h : absPc x = absPc (s.th t)) : abs { s with shared := sh', th := Lin.upd s.th t x } = abs s := by
  simp only [abs]
  congr 1
  funext j
  by_cases e : j = t
  · subst e; simp [Lin.upd, h]
  · simp [Lin.upd, e]

/-- the `lin` step of the atomic system, with the outcome of `step` named -/
theorem lin_step_eq {O : Lin.Obj σ Op Ret} (s : Lin.CState σ Op Ret) (t c : Nat) (op : Op)
    (hp : s.pcs t = .pending c op) (s1 : σ) (r : Ret) (hs : O.step s.obj op = (s1, r)) :
    Lin.Step O s (.lin t c op r) { s with obj := s1, pcs := Lin.upd s.pcs t (.done c op r) } := by
  have := Lin.Step.lin (O := O) s t c op hp
  rw [hs] at this
  exact this

/-- **Theorem 2 for multi-section methods.**  Every fine-grained execution is an execution of the
atomic system of the sequential object `step` with the same events, and the invariant (mutual
exclusion, ghost consistency) holds in every reachable state. -/
theorem fine2_refines_atomic {meth : Op → Meth σ lam Ret} {step : σ → Op → σ × Ret} (cond : Cond meth step)
    {init : σ} {h s} (r : Fine2.Reach meth init h s) :
    Inv meth step s ∧ Lin.Reach ⟨init, step⟩ h (abs s) := by
  induction r with
  | init => exact ⟨inv_init meth step init, Lin.Reach.init⟩
  | @step h0 s0 e0 s1 rprev st ih =>
    obtain ⟨hi, hr⟩ := ih
    refine ⟨inv_step cond hi st, ?_⟩
    cases st with
    | inv t op h =>
      have st' := Lin.Step.inv (O := ⟨init, step⟩) (abs s0) t op (by simp [abs, h, absPc])
      have e : abs ({ s0 with th := Lin.upd s0.th t (.waiting s0.next op (meth op).pre (meth op).init),
                              next := s0.next + 1 }) =
          { abs s0 with pcs := Lin.upd (abs s0).pcs t (.pending (abs s0).next op), next := (abs s0).next + 1 } := by
        simp only [abs, absPc_upd]; rfl
      rw [e]; exact Lin.Reach.step hr st'
    | acquirePre t c op sec pre loc h ok =>
      have st' := Lin.Step.tau (O := ⟨init, step⟩) (abs s0) t c op (by simp [abs, h, absPc])
      have e : abs ({ s0 with th := Lin.upd s0.th t (.inPre c op sec.steps sec pre loc) }) = abs s0 :=
        abs_upd_same s0 t _ s0.shared (by rw [h]; rfl)
      rw [e]; exact Lin.Reach.step hr st'
    | releaseEarly t c op sec pre loc r h e =>
      have hg := hi.good t
      rw [h] at hg
      obtain ⟨g1, _, _, g4⟩ := hg
      have hs : step s0.absObj op = (s0.absObj, r) := by
        rw [g1]; exact g4 r (by simpa [runSteps] using e)
      have st' := lin_step_eq (O := ⟨init, step⟩) (abs s0) t c op (by simp [abs, h, absPc]) s0.absObj r hs
      have e : abs ({ s0 with th := Lin.upd s0.th t (.finished c op r) }) =
          { abs s0 with obj := s0.absObj, pcs := Lin.upd (abs s0).pcs t (.done c op r) } := by
        simp only [abs, absPc_upd]; rfl
      rw [e]; exact Lin.Reach.step hr st'
    | acquireFinal t c op loc h ok =>
      have hs : step s0.absObj op =
          ((finalAtomic (meth op) s0.absObj loc).1, (finalAtomic (meth op) s0.absObj loc).2) := by
        rw [← cond.final op s0.absObj loc]
      have st' := lin_step_eq (O := ⟨init, step⟩) (abs s0) t c op (by simp [abs, h, absPc]) _ _ hs
      have e : abs ({ s0 with absObj := (finalAtomic (meth op) s0.absObj loc).1
                              th := Lin.upd s0.th t (.inFinal c op (meth op).mode (meth op).steps loc
                                      (finalAtomic (meth op) s0.absObj loc).2) }) =
          { abs s0 with obj := (finalAtomic (meth op) s0.absObj loc).1
                        pcs := Lin.upd (abs s0).pcs t (.done c op (finalAtomic (meth op) s0.absObj loc).2) } := by
        simp only [abs, absPc_upd]; rfl
      rw [e]; exact Lin.Reach.step hr st'
    | ret t c op r h =>
      have st' := Lin.Step.ret (O := ⟨init, step⟩) (abs s0) t c op r (by simp [abs, h, absPc])
      have e : abs ({ s0 with th := Lin.upd s0.th t .idle }) =
          { abs s0 with pcs := Lin.upd (abs s0).pcs t .idle } := by
        simp only [abs, absPc_upd]; rfl
      rw [e]; exact Lin.Reach.step hr st'
  | @silent h0 s0 s1 rprev st ih =>
    obtain ⟨hi, hr⟩ := ih
    refine ⟨inv_step cond hi st, ?_⟩
    cases st with
    | microPre t c op f rest sec pre loc h =>
      rw [abs_upd_same s0 t _ _ (by rw [h]; rfl)]; exact hr
    | releaseCont t c op sec pre loc h e =>
      have : abs ({ s0 with th := Lin.upd s0.th t (.waiting c op pre loc) }) = abs s0 :=
        abs_upd_same s0 t _ s0.shared (by rw [h]; rfl)
      rw [this]; exact hr
    | microFinal t c op m f rest loc r h =>
      rw [abs_upd_same s0 t _ _ (by rw [h]; rfl)]; exact hr
    | releaseFinal t c op m loc r h =>
      have hg := hi.good t
      rw [h] at hg
      have h2 : (meth op).result loc = r := by simpa [runSteps] using hg.2.1
      have : abs ({ s0 with th := Lin.upd s0.th t (.finished c op ((meth op).result loc)) }) = abs s0 :=
        abs_upd_same s0 t _ s0.shared (by rw [h, h2]; rfl)
      rw [this]; exact hr

/-- **Linearizability of multi-section methods.**  The operations in the order of their linearization
points (acquisition of the final section / release of the deciding pre-section) are a legal
sequential run of `step` producing exactly the values returned and ending in the abstract state. -/
theorem fine2_linearizable {meth : Op → Meth σ lam Ret} {step : σ → Op → σ × Ret} (cond : Cond meth step)
    {init : σ} {h s} (r : Fine2.Reach meth init h s) :
    Lin.Legal ⟨init, step⟩ init (Lin.linOps h) s.absObj :=
  C02.lin_legal (fine2_refines_atomic cond r).2

/-- a call returns the value of its own `lin` event -/
theorem fine2_ret_after_lin {meth : Op → Meth σ lam Ret} {step : σ → Op → σ × Ret} (cond : Cond meth step)
    {init : σ} {h s} (r : Fine2.Reach meth init h s) (newer older : List (Lin.Ev Op Ret)) (t c : Nat) (op : Op)
    (res : Ret) (e : h = newer ++ Lin.Ev.ret t c op res :: older) : Lin.Ev.lin t c op res ∈ older :=
  C02.ret_after_lin (fine2_refines_atomic cond r).2 newer older t c op res e

/-- real-time order: a call that returned before another was invoked is linearized before it -/
theorem fine2_real_time_order {meth : Op → Meth σ lam Ret} {step : σ → Op → σ × Ret} (cond : Cond meth step)
    {init : σ} {h s} (r : Fine2.Reach meth init h s)
    (n1 n2 older : List (Lin.Ev Op Ret)) (ta a tb b : Nat) (opa opb : Op) (ra : Ret)
    (hsplit : h = n1 ++ Lin.Ev.inv tb b opb :: (n2 ++ Lin.Ev.ret ta a opa ra :: older)) :
    (Lin.Ev.lin ta a opa ra ∈ older) ∧
      (∀ t' op' res, Lin.Ev.lin t' b op' res ∉ n2 ++ Lin.Ev.ret ta a opa ra :: older) :=
  C02.real_time_order (fine2_refines_atomic cond r).2 n1 n2 older ta a tb b opa opb ra hsplit

/-- without a writer inside, the CONCRETE shared state is the abstract one -/
theorem fine2_shared_eq_abs {meth : Op → Meth σ lam Ret} {step : σ → Op → σ × Ret} (cond : Cond meth step)
    {init : σ} {h s} (r : Fine2.Reach meth init h s) (hq : ∀ i, holds (s.th i) ≠ some .w) :
    s.absObj = s.shared :=
  (fine2_refines_atomic cond r).1.noWriter hq

/-- every returned value is the result of a linearized operation -/
theorem fine2_ret_mem_linOps {meth : Op → Meth σ lam Ret} {step : σ → Op → σ × Ret} (cond : Cond meth step)
    {init : σ} {h s} (r : Fine2.Reach meth init h s) {t c : Nat} {op : Op} {res : Ret}
    (hm : Lin.Ev.ret t c op res ∈ h) : (op, res) ∈ Lin.linOps h := by
  obtain ⟨n1, o1, e1⟩ := List.append_of_mem hm
  have hl := fine2_ret_after_lin cond r n1 o1 t c op res e1
  exact C02More.lin_mem_linOps (t := t) (c := c)
    (by rw [e1]; exact List.mem_append_right _ (List.mem_cons_of_mem _ hl))

theorem runPre_eq_step {meth : Op → Meth σ lam Ret} {step : σ → Op → σ × Ret} (cond : Cond meth step)
    (op : Op) (pre : List (RSect σ lam Ret)) (hp : ∀ x ∈ pre, x ∈ (meth op).pre) (s : σ) (loc : lam) :
    runPre (meth op) pre (s, loc) = step s op := by
  induction pre generalizing loc with
  | nil => exact cond.final op s loc
  | cons sec rest ih =>
    have hro := cond.preRO op sec (hp sec (by simp))
    have h1 : (runSteps sec.steps (s, loc)).1 = s := runSteps_readonly _ hro _
    simp only [runPre]
    cases he : sec.early (runSteps sec.steps (s, loc)).2 with
    | some r =>
      rw [cond.early op sec (hp sec (by simp)) s loc r he]
      simp only [h1]
    | none =>
      have : runSteps sec.steps (s, loc) = (s, (runSteps sec.steps (s, loc)).2) := Prod.ext h1 rfl
      simp only
      rw [this]
      exact ih (fun x hx => hp x (by simp [hx])) _

/-- under `Cond`, the sections of a method run back to back in isolation ARE the sequential object -/
theorem atomic_eq_step {meth : Op → Meth σ lam Ret} {step : σ → Op → σ × Ret} (cond : Cond meth step)
    (op : Op) (s : σ) : Fine2.atomic (meth op) s = step s op :=
  runPre_eq_step cond op _ (fun _ hx => hx) s _

end Generic


/-! ## The construction `twoStep`: a pre-check section in front of designated operations -/
section TwoStep
open GoguVerif.Theorems.C02Inst (oneStep)
variable {σ Op Ret : Type} [Inhabited Ret]

/-- The method table of a sequential object `step` in which the operations with `check op = some g`
consist of TWO critical sections:

* a read-mode pre-section with one micro-step that evaluates the pre-check `g` on the shared state
  into the local state (`some r`: return `r` now; `none`: go on), and
* a final section in mode `mode op` with one micro-step performing `fin op` (the code of the second
  section — NOT `step`, which is the meaning of the whole method).

All other operations are the one-section methods `oneStep step mode op` of `C02Inst`. -/
def twoStep (step : σ → Op → σ × Ret) (mode : Op → Mode) (check : Op → Option (σ → Option Ret))
    (fin : Op → σ → σ × Ret) (op : Op) : Fine2.Meth σ (Option Ret) Ret :=
  match check op with
  | none => ofFine (oneStep step mode op)
  | some g => ⟨[⟨[fun p => (p.1, g p.1)], id⟩], mode op,
               [fun p => ((fin op p.1).1, some (fin op p.1).2)], none, fun o => o.getD default⟩

variable {step : σ → Op → σ × Ret} {mode : Op → Mode} {check : Op → Option (σ → Option Ret)}
  {fin : Op → σ → σ × Ret}

/-- `Cond` for a `twoStep` table is: observers observe (as for `oneStep`); the second section alone
has the sequential meaning of the whole operation; the pre-check returns early with `r` only where
the operation is a no-op answering `r`. -/
theorem twoStep_cond (ro : ∀ op, mode op = .r → ∀ s, (step s op).1 = s)
    (hfin : ∀ op g, check op = some g → ∀ s, fin op s = step s op)
    (hearly : ∀ op g, check op = some g → ∀ s r, g s = some r → step s op = (s, r)) :
    Cond (twoStep step mode check fin) step := by
  refine ⟨?_, ?_, ?_, ?_⟩
  · intro op sec hsec
    cases hc : check op with
    | none => simp [twoStep, hc, ofFine] at hsec
    | some g =>
      simp only [twoStep, hc, List.mem_singleton] at hsec
      subst hsec
      intro f hf p
      simp only [List.mem_singleton] at hf
      subst hf; rfl
  · intro op hm
    cases hc : check op with
    | none =>
      simp only [twoStep, hc, ofFine, oneStep] at hm ⊢
      intro f hf p
      simp only [List.mem_singleton] at hf
      subst hf
      exact ro op hm p.1
    | some g =>
      simp only [twoStep, hc] at hm ⊢
      intro f hf p
      simp only [List.mem_singleton] at hf
      subst hf
      show (fin op p.1).1 = p.1
      rw [hfin op g hc]; exact ro op hm p.1
  · intro op s loc
    cases hc : check op with
    | none => simp [twoStep, hc, ofFine, oneStep, finalAtomic, runSteps]
    | some g =>
      simp only [twoStep, hc, finalAtomic, runSteps, List.foldl, Option.getD]
      exact hfin op g hc s
  · intro op sec hsec s loc r he
    cases hc : check op with
    | none => simp [twoStep, hc, ofFine] at hsec
    | some g =>
      simp only [twoStep, hc, List.mem_singleton] at hsec
      subst hsec
      exact hearly op g hc s r he

/-- **Linearizability of a `twoStep` table**: legal run of `step` in linearization order, and the
history is a history of the atomic system of `⟨init, step⟩` (so Theorem 1's `ret_after_lin`,
`lin_after_inv`, `real_time_order` apply). -/
theorem twoStep_fine_linearizable (ro : ∀ op, mode op = .r → ∀ s, (step s op).1 = s)
    (hfin : ∀ op g, check op = some g → ∀ s, fin op s = step s op)
    (hearly : ∀ op g, check op = some g → ∀ s r, g s = some r → step s op = (s, r))
    {init : σ} {h s} (r : Fine2.Reach (twoStep step mode check fin) init h s) :
    Lin.Legal ⟨init, step⟩ init (Lin.linOps h) s.absObj ∧ Lin.Reach ⟨init, step⟩ h (abs s) :=
  ⟨fine2_linearizable (twoStep_cond ro hfin hearly) r, (fine2_refines_atomic (twoStep_cond ro hfin hearly) r).2⟩

/-- the sections of a `twoStep` method run back to back are `step` -/
theorem twoStep_atomic (ro : ∀ op, mode op = .r → ∀ s, (step s op).1 = s)
    (hfin : ∀ op g, check op = some g → ∀ s, fin op s = step s op)
    (hearly : ∀ op g, check op = some g → ∀ s r, g s = some r → step s op = (s, r)) (op : Op) (s : σ) :
    Fine2.atomic (twoStep step mode check fin op) s = step s op :=
  atomic_eq_step (twoStep_cond ro hfin hearly) op s

end TwoStep


/-! ## Instance: `heap.Heap` with the two-section `Clear` -/
section HeapTwo
open GoguVerif.Theorems.C02Inst
variable {α : Type} [Inhabited α] [DecidableEq α]

/-- `Clear`'s first section: `if h.Size() == 0 { return }` — `Size()` takes the read lock, reads
`len(h.data)`, releases it.  No other operation has a pre-check. -/
def heapCheck : HeapOp α → Option (Heap.Heap α → Option (Heap.Outcome (Spec.C03.Out α)))
  | .clear => some (fun h => if h.data.size = 0 then some (.ok .unit) else none)
  | _ => none

/-- `Clear`'s second section: `h.mu.Lock(); h.data = h.data[:0]; h.mu.Unlock()` — an UNCONDITIONAL
truncation (it does not look at what the first section saw). -/
def heapFin (o : HeapOp α) (h : Heap.Heap α) : Heap.Heap α × Heap.Outcome (Spec.C03.Out α) :=
  match o with
  | .clear => ({ h with data := #[] }, .ok .unit)
  | o => heapStep h o

/-- the heap's method table with `Clear` as in the code: two sections -/
def heapMeth2 : HeapOp α → Fine2.Meth (Heap.Heap α) (Option (Heap.Outcome (Spec.C03.Out α)))
    (Heap.Outcome (Spec.C03.Out α)) :=
  twoStep heapStep heapMode heapCheck heapFin

theorem heapStep_clear (h : Heap.Heap α) :
    heapStep h .clear = (if h.data.size = 0 then h else { h with data := #[] }, .ok .unit) := by
  simp [heapStep, HeapOp.toOp, Heap.step, Heap.clear]

/-- the truncation alone has the meaning of the whole `Clear` (on an empty heap it changes nothing) -/
theorem heapFin_eq (op : HeapOp α) (g) (hc : heapCheck op = some g) (h : Heap.Heap α) :
    heapFin op h = heapStep h op := by
  cases op <;> simp [heapCheck] at hc
  rw [heapStep_clear]
  simp only [heapFin]
  split
  · next e =>
    have : h.data = #[] := Array.eq_empty_of_size_eq_zero e
    cases h; simp_all
  · rfl

/-- `Clear` returns early only on an empty heap, where `Clear` as a whole is a no-op -/
theorem heapCheck_early (op : HeapOp α) (g) (hc : heapCheck op = some g) (h : Heap.Heap α) (r)
    (e : g h = some r) : heapStep h op = (h, r) := by
  cases op with
  | clear =>
    simp only [heapCheck, Option.some.injEq] at hc
    subst hc
    dsimp only at e
    rw [heapStep_clear]
    split at e
    · next e0 => cases e; simp [e0]
    · cases e
  | _ => simp [heapCheck] at hc

theorem heapMeth2_cond : Cond (heapMeth2 (α := α)) heapStep :=
  twoStep_cond heap_observers heapFin_eq heapCheck_early

/-- **Heap with the real two-section `Clear`.**  Any number of goroutines calling
`Push`/`Pop`/`Peek`/`Size`/`Clear`, interleaved at micro-step granularity, other calls running between
`Clear`'s emptiness check and its truncation: the calls in linearization order are a legal run of the
(totalised) heap model with the values returned, and the history is one of the atomic system. -/
theorem heap_two_linearizable {init : Heap.Heap α} {h s} (r : Fine2.Reach heapMeth2 init h s) :
    Lin.Legal ⟨init, heapStep⟩ init (Lin.linOps h) s.absObj ∧ Lin.Reach ⟨init, heapStep⟩ h (abs s) :=
  twoStep_fine_linearizable heap_observers heapFin_eq heapCheck_early r

/-- … and from an invariant state: no call panics or hangs, the invariant holds of the abstract state,
and the run is allowed by the heap specification -/
theorem heap_two_linearizable_spec {init : Heap.Heap α} (hi : Lemmas.C03.Inv init) {h s}
    (r : Fine2.Reach heapMeth2 init h s) :
    Lemmas.C03.Inv s.absObj ∧ ∃ outs, (Lin.linOps h).map (·.2) = outs.map Heap.Outcome.ok ∧
      Spec.C03.SpecRun (C03.abs init) ((Lin.linOps h).map (·.1.toOp)) outs (C03.abs s.absObj) :=
  heap_legal_spec (heap_two_linearizable r).1 hi

/-- **C01's "no call panics, the instance stays usable" for the heap with the real `Clear`.**  From an
invariant state, in every reachable state of the fine-grained two-section system: the abstract state
satisfies the invariant, every RETURNED value is an `ok` outcome (neither Go's index panic nor the
`moveUp` hang), and whenever no writer is inside, the concrete `data` array itself satisfies the
invariant — so whatever is called next is covered by the same theorems. -/
theorem heap_two_concurrent_never_panics {init : Heap.Heap α} (hi : Lemmas.C03.Inv init) {h s}
    (r : Fine2.Reach heapMeth2 init h s) :
    Lemmas.C03.Inv s.absObj ∧
      (∀ t c op res, Lin.Ev.ret t c op res ∈ h → ∃ out, res = Heap.Outcome.ok out) ∧
      ((∀ i, holds (s.th i) ≠ some .w) → Lemmas.C03.Inv s.shared) := by
  obtain ⟨i, outs, eo, _⟩ := heap_two_linearizable_spec hi r
  refine ⟨i, ?_, fun hq => ?_⟩
  · intro t c op res hm
    have hmem := fine2_ret_mem_linOps heapMeth2_cond r hm
    have : res ∈ (Lin.linOps h).map (·.2) := List.mem_map.2 ⟨(op, res), hmem, rfl⟩
    rw [eo] at this
    obtain ⟨out, _, e⟩ := List.mem_map.1 this
    exact ⟨out, e.symm⟩
  · rw [← fine2_shared_eq_abs heapMeth2_cond r hq]; exact i

/-- the sections of `Clear` run back to back are the model's `Clear` -/
theorem heapMeth2_atomic (op : HeapOp α) (h : Heap.Heap α) : Fine2.atomic (heapMeth2 op) h = heapStep h op :=
  atomic_eq_step heapMeth2_cond op h

end HeapTwo

/-! ## Instance: `cache.Cache` with the two-section `Update` -/
section CacheTwo
open GoguVerif.Theorems.C02Inst

/-- `Update`'s first section: `item, err := c.Get(key); if item != nil && err != nil { return err }`.
`Get` (read lock) answers an item XOR an error, so neither branch returns. -/
def cacheCheck (now : Int) : CacheOp → Option (Cache.Items → Option Spec.C08.Out)
  | .update k _ _ => some (fun m =>
      match Cache.get now m k with
      | some _ => none      -- item != nil, err == nil
      | none => none)       -- item == nil
  | _ => none

/-- `Update`'s second section: `return c.add(key, val, d)` (write lock; `store`) -/
def cacheFin (cfg : Cache.Cfg) (now : Int) (o : CacheOp) (m : Cache.Items) : Cache.Items × Spec.C08.Out :=
  match o with
  | .update k v d => match Cache.add cfg now m k v d with | (m', e) => (m', .err e)
  | o => cacheCall cfg now m o

def cacheMeth2 (cfg : Cache.Cfg) (now : Int) : CacheOp → Fine2.Meth Cache.Items (Option Spec.C08.Out) Spec.C08.Out :=
  twoStep (cacheCall cfg now) cacheMode (cacheCheck now) (cacheFin cfg now)

theorem cacheFin_eq (cfg : Cache.Cfg) (now : Int) (op : CacheOp) (g) (hc : cacheCheck now op = some g)
    (m : Cache.Items) : cacheFin cfg now op m = cacheCall cfg now m op := by
  cases op <;> simp [cacheCheck] at hc
  simp only [cacheFin, cacheCall, CacheOp.toOp, Cache.call, Cache.update]
  cases Cache.get now m _ <;> rfl

theorem cacheCheck_early (cfg : Cache.Cfg) (now : Int) (op : CacheOp) (g) (hc : cacheCheck now op = some g)
    (m : Cache.Items) (r) (e : g m = some r) : cacheCall cfg now m op = (m, r) := by
  cases op <;> simp [cacheCheck] at hc
  subst hc
  dsimp only at e
  cases hg : Cache.get now m _ <;> rw [hg] at e <;> cases e

theorem cacheMeth2_cond (cfg : Cache.Cfg) (now : Int) : Cond (cacheMeth2 cfg now) (cacheCall cfg now) :=
  twoStep_cond (cacheModel_observers cfg now) (cacheFin_eq cfg now) (cacheCheck_early cfg now)

/-- **Cache with the real two-section `Update`** (code model `Model.Cache.call cfg now`): other calls
— a `Delete`, a `Set`, another `Update` of the same key — may run between `Update`'s `Get` and its
`add`; every history is a legal sequential run in linearization order (the `add`'s acquisition). -/
theorem cache_two_linearizable (cfg : Cache.Cfg) (now : Int) {init : Cache.Items} {h s}
    (r : Fine2.Reach (cacheMeth2 cfg now) init h s) :
    Lin.Legal ⟨init, cacheCall cfg now⟩ init (Lin.linOps h) s.absObj ∧
      Lin.Reach ⟨init, cacheCall cfg now⟩ h (abs s) :=
  twoStep_fine_linearizable (cacheModel_observers cfg now) (cacheFin_eq cfg now) (cacheCheck_early cfg now) r

theorem cacheMeth2_atomic (cfg : Cache.Cfg) (now : Int) (op : CacheOp) (m : Cache.Items) :
    Fine2.atomic (cacheMeth2 cfg now op) m = cacheCall cfg now m op :=
  atomic_eq_step (cacheMeth2_cond cfg now) op m

end CacheTwo

/-! ## The tie to the regenerated lock table -/
section Table
open GoguVerif.Model.Lock (MethodEntry PathEntry Sect)

def readOnlySect (a : Sect) : Bool := a.mode == some .r && a.accs.all (fun x => !x.write)

/-- a path of a two-section method: the read-only `r` pre-section alone (early return), or followed
by one `w` section — the shape of a `twoStep` method whose final mode is `w` -/
def twoShape (p : PathEntry) : Bool :=
  match p.sects with
  | [a] => readOnlySect a
  | [a, b] => readOnlySect a && b.mode == some .w
  | _ => false

def twoShapeOk (t : List MethodEntry) : Bool :=
  C02.lastSectionOps.all fun o =>
    t.any (fun m => m.type == o.1 && m.method == o.2 && m.inst == 0) &&
    t.all (fun m => if m.type == o.1 && m.method == o.2 && m.inst == 0 then m.paths.all twoShape else true)

/-- **Obligation re-checked against the current source on every run**: `Heap.Clear` and `Cache.Update`
have, on every path, exactly the section structure `heapMeth2` / `cacheMeth2` give them. -/
theorem two_section_shape_ok : twoShapeOk GoguVerif.Gen.lockTable = true := by decide

/-- the modes `twoStep` uses for the final sections are the listed ones (`w`) -/
theorem two_section_modes : (heapMeth2 (α := Int) .clear).mode = .w ∧
    ∀ cfg now k v d, (cacheMeth2 cfg now (.update k v d)).mode = .w :=
  ⟨rfl, fun _ _ _ _ _ => rfl⟩

/-- not vacuous: a single write-locked section is not of this shape -/
example : twoShape { sects := [⟨some .w, [⟨0, true⟩]⟩], flags := [] } = false := by decide

end Table


/-! ## Non-vacuity: another thread's `Push` runs BETWEEN the two sections of `Clear` -/
section Examples
open GoguVerif.Theorems.C02Inst

theorem canEnter_of_free {σ lam Op Ret : Type} (s : Fine2.State σ lam Op Ret) (i : Nat) (m : Mode)
    (h : ∀ j, j ≠ i → Fine2.holds (s.th j) = none) : Fine2.canEnter s i m := by
  cases m with
  | r => intro j hj; rw [h j hj]; simp
  | w => exact h

/-- Min-heap `[3]`.  Thread 0 calls `Clear`, thread 1 calls `Push 7`.
Thread 0 runs its first section (`Size() == 0`? no) and releases the read lock; THEN thread 1 runs its
whole `Push` (acquire, micro-step, release, return); then thread 0 takes the write lock and truncates.
The history (newest first) is reachable, the final heap is empty (the pushed 7 is cleared as well),
and the linearization order is `Push 7 ; Clear`. -/
theorem clear_push_between :
    ∃ s, Fine2.Reach (heapMeth2 (α := Int)) ⟨C03.ltI, #[3]⟩
      [.ret 0 0 .clear (.ok .unit), .lin 0 0 .clear (.ok .unit),
       .ret 1 1 (.push 7) (.ok .unit), .lin 1 1 (.push 7) (.ok .unit),
       .tau 0 0, .inv 1 1 (.push 7), .inv 0 0 .clear] s ∧
      s.shared.data = #[] ∧ s.absObj = s.shared ∧
      Lin.linOps ([.ret 0 0 .clear (.ok .unit), .lin 0 0 .clear (.ok .unit),
       .ret 1 1 (.push 7) (.ok .unit), .lin 1 1 (.push 7) (.ok .unit),
       .tau 0 0, .inv 1 1 (.push 7), .inv 0 0 .clear] :
         List (Lin.Ev (HeapOp Int) (Heap.Outcome (Spec.C03.Out Int)))) =
        [(.push 7, .ok .unit), (.clear, .ok .unit)] := by
  have r0 : Fine2.Reach (heapMeth2 (α := Int)) ⟨C03.ltI, #[3]⟩ [] (Fine2.initState _) := Fine2.Reach.init
  have r1 := Fine2.Reach.step r0 (Fine2.Step.inv _ 0 .clear rfl)
  have r2 := Fine2.Reach.step r1 (Fine2.Step.inv _ 1 (.push 7) rfl)
  -- thread 0: first section of Clear (the heap is not empty: go on), lock released
  have r3 := Fine2.Reach.step r2 (Fine2.Step.acquirePre _ 0 0 .clear _ _ _ rfl
    (canEnter_of_free _ _ _ (by
      intro j hj
      by_cases h1 : j = 1
      · subst h1; rfl
      · simp [Fine2.initState, Lin.upd, hj, h1, Fine2.holds])))
  have r4 := Fine2.Reach.silent r3 (Fine2.Step.microPre _ 0 0 .clear _ _ _ _ _ rfl)
  have r5 := Fine2.Reach.silent r4 (Fine2.Step.releaseCont _ 0 0 .clear _ _ _ rfl rfl)
  -- thread 1: the whole Push, between Clear's two sections
  have r6 := Fine2.Reach.step r5 (Fine2.Step.acquireFinal _ 1 1 (.push 7) _ rfl
    (canEnter_of_free _ _ _ (by
      intro j hj
      by_cases h0 : j = 0
      · subst h0; rfl
      · simp [Fine2.initState, Lin.upd, hj, h0, Fine2.holds])))
  have r7 := Fine2.Reach.silent r6 (Fine2.Step.microFinal _ 1 1 (.push 7) _ _ _ _ _ rfl)
  have r8 := Fine2.Reach.silent r7 (Fine2.Step.releaseFinal _ 1 1 (.push 7) _ _ _ rfl)
  have r9 := Fine2.Reach.step r8 (Fine2.Step.ret _ 1 1 (.push 7) _ rfl)
  -- thread 0: second section of Clear
  have r10 := Fine2.Reach.step r9 (Fine2.Step.acquireFinal _ 0 0 .clear _ rfl
    (canEnter_of_free _ _ _ (by
      intro j hj
      by_cases h1 : j = 1
      · subst h1; rfl
      · simp [Fine2.initState, Lin.upd, hj, h1, Fine2.holds])))
  have r11 := Fine2.Reach.silent r10 (Fine2.Step.microFinal _ 0 0 .clear _ _ _ _ _ rfl)
  have r12 := Fine2.Reach.silent r11 (Fine2.Step.releaseFinal _ 0 0 .clear _ _ _ rfl)
  have r13 := Fine2.Reach.step r12 (Fine2.Step.ret _ 0 0 .clear _ rfl)
  exact ⟨_, r13, rfl, rfl, rfl⟩

/-- The early-return path: on the empty heap `Clear` is its read-locked first section alone; it is
linearized at the release of that section and never takes the write lock. -/
theorem clear_early_return :
    ∃ s, Fine2.Reach (heapMeth2 (α := Int)) (Heap.new C03.ltI)
      [.ret 0 0 .clear (.ok .unit), .lin 0 0 .clear (.ok .unit), .tau 0 0, .inv 0 0 .clear] s ∧
      s.shared.data = #[] := by
  have r0 : Fine2.Reach (heapMeth2 (α := Int)) (Heap.new C03.ltI) [] (Fine2.initState _) := Fine2.Reach.init
  have r1 := Fine2.Reach.step r0 (Fine2.Step.inv _ 0 .clear rfl)
  have r2 := Fine2.Reach.step r1 (Fine2.Step.acquirePre _ 0 0 .clear _ _ _ rfl
    (canEnter_of_free _ _ _ (by intro j hj; simp [Fine2.initState, Lin.upd, hj, Fine2.holds])))
  have r3 := Fine2.Reach.silent r2 (Fine2.Step.microPre _ 0 0 .clear _ _ _ _ _ rfl)
  have r4 := Fine2.Reach.step r3 (Fine2.Step.releaseEarly _ 0 0 .clear _ _ _ (.ok .unit) rfl rfl)
  have r5 := Fine2.Reach.step r4 (Fine2.Step.ret _ 0 0 .clear _ rfl)
  exact ⟨_, r5, rfl⟩

/-- `Update 1 ↦ 11` (thread 0) with `Delete 1` (thread 1) running between its `Get` and its `add`: the
update still stores (its second section does not depend on what `Get` saw) — sequentially `Delete ; Update`. -/
theorem update_delete_between :
    ∃ s, Fine2.Reach (cacheMeth2 ⟨0, 0, false⟩ 0) [(1, ⟨10, 0⟩)]
      [.ret 0 0 (.update 1 11 0) (.err false), .lin 0 0 (.update 1 11 0) (.err false),
       .ret 1 1 (.delete 1) (.err false), .lin 1 1 (.delete 1) (.err false),
       .tau 0 0, .inv 1 1 (.delete 1), .inv 0 0 (.update 1 11 0)] s ∧
      s.shared = [(1, ⟨11, 0⟩)] := by
  have r0 : Fine2.Reach (cacheMeth2 ⟨0, 0, false⟩ 0) [(1, ⟨10, 0⟩)] [] (Fine2.initState _) := Fine2.Reach.init
  have r1 := Fine2.Reach.step r0 (Fine2.Step.inv _ 0 (.update 1 11 0) rfl)
  have r2 := Fine2.Reach.step r1 (Fine2.Step.inv _ 1 (.delete 1) rfl)
  have r3 := Fine2.Reach.step r2 (Fine2.Step.acquirePre _ 0 0 (.update 1 11 0) _ _ _ rfl
    (canEnter_of_free _ _ _ (by
      intro j hj
      by_cases h1 : j = 1
      · subst h1; rfl
      · simp [Fine2.initState, Lin.upd, hj, h1, Fine2.holds])))
  have r4 := Fine2.Reach.silent r3 (Fine2.Step.microPre _ 0 0 (.update 1 11 0) _ _ _ _ _ rfl)
  have r5 := Fine2.Reach.silent r4 (Fine2.Step.releaseCont _ 0 0 (.update 1 11 0) _ _ _ rfl rfl)
  have r6 := Fine2.Reach.step r5 (Fine2.Step.acquireFinal _ 1 1 (.delete 1) _ rfl
    (canEnter_of_free _ _ _ (by
      intro j hj
      by_cases h0 : j = 0
      · subst h0; rfl
      · simp [Fine2.initState, Lin.upd, hj, h0, Fine2.holds])))
  have r7 := Fine2.Reach.silent r6 (Fine2.Step.microFinal _ 1 1 (.delete 1) _ _ _ _ _ rfl)
  have r8 := Fine2.Reach.silent r7 (Fine2.Step.releaseFinal _ 1 1 (.delete 1) _ _ _ rfl)
  have r9 := Fine2.Reach.step r8 (Fine2.Step.ret _ 1 1 (.delete 1) _ rfl)
  have r10 := Fine2.Reach.step r9 (Fine2.Step.acquireFinal _ 0 0 (.update 1 11 0) _ rfl
    (canEnter_of_free _ _ _ (by
      intro j hj
      by_cases h1 : j = 1
      · subst h1; rfl
      · simp [Fine2.initState, Lin.upd, hj, h1, Fine2.holds])))
  have r11 := Fine2.Reach.silent r10 (Fine2.Step.microFinal _ 0 0 (.update 1 11 0) _ _ _ _ _ rfl)
  have r12 := Fine2.Reach.silent r11 (Fine2.Step.releaseFinal _ 0 0 (.update 1 11 0) _ _ _ rfl)
  have r13 := Fine2.Reach.step r12 (Fine2.Step.ret _ 0 0 (.update 1 11 0) _ rfl)
  exact ⟨_, r13, rfl⟩

/-- the hypothesis of `heap_two_linearizable_spec` is met by `NewHeap(<)` -/
example : Lemmas.C03.Inv (Heap.new C03.ltI) := C03.inv_init C03.swo_lt

end Examples

end GoguVerif.Theorems.C02Two
