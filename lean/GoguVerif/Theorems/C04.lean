import GoguVerif.Spec.C04
import GoguVerif.Model.Bst
import GoguVerif.Lemmas.C04
import GoguVerif.Kinds.Bst
/-!
# C04 — property theorems (the binary search tree behaves as an ordered map)

Everything is about `Model.Bst` (the model of `bstree/bstree.go` as it is in /repo), for every
history, every key/value type and every comparator that is a strict total order (`OrdMap.STO`).

* `Inv` — representation invariant: the tree is a binary search tree (`IsBst`);
* `abs` — abstraction function: the in-order traversal, an ordered association list;
* `absP` — abstraction into the PATCHED specification's state: `abs` plus the number of failed
  deletes, recovered from the state as `|abs| − size`.

Known finding `bstree.delete-absent-decrements-size`: the full-strength statement (the model refines
`Spec.C04.run` including `Size`) is FALSE (`bst_refines_spec_false`); what holds for every history is
the refinement to `Spec.C04.Patched.run` (`bst_refines_spec_partial`), the refinement to the unpatched
specification on everything except the `Size` answers (`bst_refines_spec_except_size`), and the exact
characterisation `size = |abs| − failed deletes` (`size_characterisation`).
-/
namespace GoguVerif.Theorems.C04
open GoguVerif GoguVerif.Spec GoguVerif.Spec.OrdMap GoguVerif.Spec.C04
open GoguVerif.Model.Bst (Tree traverse)
open GoguVerif.Lemmas.C04

variable {κ ν : Type} {comp : κ → κ → Bool}

/-! ## Hypothesis on the comparator, and the comparators the harness uses -/

/-- `<` on `Int` (harness comparator `lt`) is a strict total order. -/
theorem sto_lt : STO (fun a b : Int => decide (a < b)) where
  irrefl := by intro a; simp
  trans := by intro a b c; simp only [decide_eq_true_eq]; omega
  total := by intro a b; simp only [decide_eq_false_iff_not]; omega

/-- `>` on `Int` (harness comparator `gt`) is a strict total order. -/
theorem sto_gt : STO (fun a b : Int => decide (a > b)) where
  irrefl := by intro a; simp
  trans := by intro a b c; simp only [decide_eq_true_eq]; omega
  total := by intro a b; simp only [decide_eq_false_iff_not]; omega

/-- these are literally the comparators the driver runs the model with -/
example : Kinds.Bst.compOf "lt" = some (fun a b : Int => decide (a < b)) := rfl
example : Kinds.Bst.compOf "gt" = some (fun a b : Int => decide (a > b)) := rfl

/-! ## Invariant and abstraction -/

/-- Representation invariant of a `BsTree` state: the root is a binary search tree.
(Nothing is required of `size`: it is *characterised*, see `absP`.) -/
def Inv (comp : κ → κ → Bool) (s : Model.Bst.St κ ν) : Prop := IsBst comp s.root

/-- Abstraction function: the ordered association list held by the tree = its in-order traversal. -/
def abs (s : Model.Bst.St κ ν) : List (κ × ν) := traverse s.root

/-- Abstraction into the patched specification: the failed deletes are `|abs| − size`. -/
def absP (s : Model.Bst.St κ ν) : Patched.St κ ν :=
  { m := abs s, failedDeletes := (abs s).length - s.size }

theorem inv_init : Inv comp ({} : Model.Bst.St κ ν) := trivial
theorem abs_init : abs ({} : Model.Bst.St κ ν) = [] := rfl
theorem absP_init : absP ({} : Model.Bst.St κ ν) = { m := [] } := rfl

/-- The invariant says exactly that the abstraction is a well-formed ordered map. -/
theorem inv_iff_sorted (h : STO comp) (s : Model.Bst.St κ ν) : Inv comp s ↔ Sorted comp (abs s) :=
  isBst_iff_sorted h s.root

/-! ## Per-operation refinement (patched specification) -/

/-- One call: from a state satisfying the invariant the model does not panic, re-establishes the
invariant, answers what the patched specification answers in the abstract state, and lands in the
abstraction of the patched specification's next state. -/
theorem step_refines_patched (h : STO comp) (s : Model.Bst.St κ ν) (op : Op κ ν) (hi : Inv comp s) :
    ∃ s' o, Model.Bst.step comp s op = some (s', o) ∧ Inv comp s' ∧
      Patched.step comp (absP s) op = (absP s', o) := by
  obtain ⟨root, size⟩ := s
  simp only [Inv] at hi
  cases op with
  | upsert key val =>
    cases root with
    | nil =>
      refine ⟨_, _, rfl, ?_, ?_⟩
      · simp [Inv, IsBst, traverse]
      · simp only [Patched.step, C04.step, absP, abs, traverse, OrdMap.insert, Prod.mk.injEq, and_true,
          Patched.St.mk.injEq, true_and, List.length_nil, List.length_cons, List.nil_append]
        omega
    | node l k v r =>
      obtain ⟨t', e1, e2⟩ := upsertNode_spec h key val (.node l k v r) size (by simp) hi
      refine ⟨{ root := t', size := size + (if (lookup comp key (traverse (.node l k v r))).isSome then 0 else 1) },
        .unit, ?_, ?_, ?_⟩
      · simp only [Model.Bst.step, e1]
      · simp only [Inv]
        rw [isBst_iff_sorted h, e2]
        exact sorted_insert h key val ((isBst_iff_sorted h _).1 hi)
      · simp only [Patched.step, C04.step, absP, abs, e2, Prod.mk.injEq, and_true, Patched.St.mk.injEq,
          true_and, length_insert]
        split <;> simp <;> omega
  | get key =>
    have hg := get_spec h key root hi
    refine ⟨⟨root, size⟩, .got (lookup comp key (traverse root)), ?_, hi, rfl⟩
    simp only [Model.Bst.step]
    cases hgr : Model.Bst.get comp key root with
    | none => rw [hgr] at hg; simp only [← hg]; rfl
    | some kv => obtain ⟨k', v'⟩ := kv; rw [hgr] at hg; simp only [← hg]; rfl
  | delete key =>
    obtain ⟨t', e1, e2⟩ := delete_spec h root key hi
    refine ⟨{ root := t', size := size - 1 }, .deleted (lookup comp key (traverse root)).isSome, ?_, ?_, ?_⟩
    · simp only [Model.Bst.step, e1]
    · simp only [Inv]
      rw [isBst_iff_sorted h, e2]
      exact sorted_erase key ((isBst_iff_sorted h _).1 hi)
    · have hlen := length_erase (comp := comp) key (traverse root)
      simp only [Patched.step, absP, abs, e2, Prod.mk.injEq, and_true, Patched.St.mk.injEq, true_and]
      by_cases hf : (lookup comp key (traverse root)).isSome = true
      · rw [if_pos hf] at hlen; simp only [hf, ↓reduceIte]; omega
      · rw [if_neg hf] at hlen; simp only [hf, Bool.false_eq_true, ↓reduceIte]; omega
  | size =>
    refine ⟨⟨root, size⟩, .int size, rfl, hi, ?_⟩
    simp only [Patched.step, absP, abs, Prod.mk.injEq, true_and, Out.int.injEq]
    omega
  | traverse => exact ⟨⟨root, size⟩, .items (traverse root), rfl, hi, rfl⟩

/-- The BST invariant is preserved by every operation (in particular by `Upsert` and `Delete`). -/
theorem inv_preserved (h : STO comp) (s s' : Model.Bst.St κ ν) (op : Op κ ν) (o : Out κ ν)
    (hi : Inv comp s) (hs : Model.Bst.step comp s op = some (s', o)) : Inv comp s' := by
  obtain ⟨s'', o', e, hi', _⟩ := step_refines_patched h s op hi
  rw [e] at hs; cases hs; exact hi'

/-- No call panics from a state satisfying the invariant (the nil dereferences in `upsert`/`min` are
unreachable). -/
theorem step_no_panic (h : STO comp) (s : Model.Bst.St κ ν) (op : Op κ ν) (hi : Inv comp s) :
    (Model.Bst.step comp s op).isSome = true := by
  obtain ⟨s', o, e, _, _⟩ := step_refines_patched h s op hi
  rw [e]; rfl

/-! ## Whole histories -/

/--
FULL-STRENGTH STATEMENT (false for the code as it is — known finding
`bstree.delete-absent-decrements-size`; kept for the record, negated below):

  theorem bst_refines_spec (h : STO comp) (ops : List (Op κ ν)) :
      (Model.Bst.run comp {} ops).2 = (Spec.C04.run comp [] ops).2.map some

What holds instead, for EVERY history: the model refines the PATCHED specification (the ordered map,
with `Size` = present keys minus failed deletes): same answers, never a panic, and the final state
abstracts to the patched specification's final state.
-/
theorem bst_refines_spec_partial (h : STO comp) (ops : List (Op κ ν)) (s : Model.Bst.St κ ν)
    (hi : Inv comp s) :
    (Model.Bst.run comp s ops).2 = (Patched.run comp (absP s) ops).2.map some ∧
    absP (Model.Bst.run comp s ops).1 = (Patched.run comp (absP s) ops).1 ∧
    Inv comp (Model.Bst.run comp s ops).1 := by
  induction ops generalizing s with
  | nil => exact ⟨rfl, rfl, hi⟩
  | cons op ops ih =>
    obtain ⟨s', o, e, hi', ep⟩ := step_refines_patched h s op hi
    obtain ⟨i1, i2, i3⟩ := ih s' hi'
    simp only [Model.Bst.run, Patched.run, e, ep]
    exact ⟨by rw [i1]; rfl, i2, i3⟩

/-- …from the empty tree (`bstree.New`). -/
theorem bst_refines_spec_partial_init (h : STO comp) (ops : List (Op κ ν)) :
    (Model.Bst.run comp {} ops).2 = (Patched.run comp { m := [] } ops).2.map some :=
  (bst_refines_spec_partial h ops {} inv_init).1

/-- Negation of the full-strength statement, by the recorded witness
`Upsert(1,10); Delete(5); Size()`: the model (like the code) answers `Size = 0`, the property
demands `1`. -/
theorem bst_refines_spec_false :
    ¬ ∀ ops : List (Op Int Int),
        (Model.Bst.run (fun a b => decide (a < b)) {} ops).2 =
          (Spec.C04.run (fun a b => decide (a < b)) [] ops).2.map some := by
  intro hall
  have := hall [.upsert 1 10, .delete 5, .size]
  revert this
  decide

/-- the witness, evaluated on the model and on the specification -/
example : (Model.Bst.run (fun a b : Int => decide (a < b)) {} [.upsert 1 (10 : Int), .delete 5, .size]).2
    = [some .unit, some (.deleted false), some (.int 0)] := by decide
example : (Spec.C04.run (fun a b : Int => decide (a < b)) [] [.upsert 1 (10 : Int), .delete 5, .size]).2
    = [.unit, .deleted false, .int 1] := by decide

/-! ### Everything except `Size` refines the unpatched specification -/

/-- One call other than `Size`: the model answers what the (unpatched) ordered-map specification
answers, and the abstraction of its next state is the specification's next state. -/
theorem step_refines_spec (h : STO comp) (s : Model.Bst.St κ ν) (op : Op κ ν) (hi : Inv comp s) :
    ∃ s' o, Model.Bst.step comp s op = some (s', o) ∧ Inv comp s' ∧
      abs s' = (Spec.C04.step comp (abs s) op).1 ∧
      (op ≠ .size → o = (Spec.C04.step comp (abs s) op).2) := by
  obtain ⟨s', o, e, hi', ep⟩ := step_refines_patched h s op hi
  refine ⟨s', o, e, hi', ?_, ?_⟩
  · have := patched_step_m (comp := comp) (absP s) op
    rw [ep] at this; exact this
  · intro hne
    have ho : (Patched.step comp (absP s) op).2 = o := by rw [ep]
    rw [← ho]
    cases op with
    | size => exact absurd rfl hne
    | _ => rfl

/-- For EVERY history, all answers except those of `Size` calls are the ordered-map specification's
(Get, Delete's error flag, the Traverse sequence), no call panics, and the tree's in-order content is
the specification's map. -/
theorem bst_refines_spec_except_size (h : STO comp) (ops : List (Op κ ν)) :
    (Model.Bst.run comp {} ops).2.map (Option.map maskSize) =
      (Spec.C04.run comp [] ops).2.map (fun o => some (maskSize o)) ∧
    abs (Model.Bst.run comp {} ops).1 = (Spec.C04.run comp [] ops).1 := by
  obtain ⟨r1, r2, _⟩ := bst_refines_spec_partial h ops ({} : Model.Bst.St κ ν) inv_init
  obtain ⟨p1, p2⟩ := patched_run_spec (comp := comp) (absP ({} : Model.Bst.St κ ν)) ops
  constructor
  · rw [r1, List.map_map]
    have : (Spec.C04.run comp [] ops).2.map (fun o => some (maskSize o)) =
        ((Spec.C04.run comp [] ops).2.map maskSize).map some := by rw [List.map_map]; rfl
    have p2' : (Patched.run comp (absP ({} : Model.Bst.St κ ν)) ops).2.map maskSize =
        (Spec.C04.run comp [] ops).2.map maskSize := p2
    rw [this, ← p2', List.map_map]
    rfl
  · have : abs (Model.Bst.run comp {} ops).1 = (absP (Model.Bst.run comp {} ops).1).m := rfl
    rw [this, r2, p1]; rfl

/-! ### `Size`: the exact characterisation -/

/-- `Size` after ANY history = number of present keys − number of failed deletes so far
(so it also goes below zero).  This is the exact content of the known finding. -/
theorem size_characterisation (h : STO comp) (ops : List (Op κ ν)) :
    (Model.Bst.run comp {} ops).1.size =
      ((Spec.C04.run comp [] ops).1.length : Int) - failedDeletes comp [] ops := by
  obtain ⟨_, r2, _⟩ := bst_refines_spec_partial h ops ({} : Model.Bst.St κ ν) inv_init
  have hf := patched_run_failed (comp := comp) (absP ({} : Model.Bst.St κ ν)) ops
  have hm := (patched_run_spec (comp := comp) (absP ({} : Model.Bst.St κ ν)) ops).1
  rw [← r2] at hf hm
  simp only [absP, abs, traverse, List.length_nil] at hf hm
  rw [← hm]
  omega

/-- `Size` clause under the exact side condition: a history without a failed `Delete` gets the
answers of the UNPATCHED specification on every call, `Size` included. -/
theorem size_partial (h : STO comp) (ops : List (Op κ ν)) (hnf : failedDeletes comp [] ops = 0) :
    (Model.Bst.run comp {} ops).2 = (Spec.C04.run comp [] ops).2.map some := by
  rw [bst_refines_spec_partial_init h]
  congr 1
  -- with no failed delete ahead, patched and unpatched specification answer alike
  have key : ∀ (p : Patched.St κ ν), p.failedDeletes = 0 → failedDeletes comp p.m ops = 0 →
      (Patched.run comp p ops).2 = (Spec.C04.run comp p.m ops).2 := by
    clear hnf
    induction ops with
    | nil => intros; rfl
    | cons op ops ih =>
      intro p hp hf
      simp only [failedDeletes, Nat.add_eq_zero_iff] at hf
      have hp' : (Patched.step comp p op).1.failedDeletes = 0 := by
        cases op with
        | delete k =>
          simp only [Patched.step]
          split
          · exact hp
          · rename_i hc; simp [hc] at hf
        | _ => simpa [Patched.step, C04.step] using hp
      have hm := patched_step_m (comp := comp) p op
      have ho : (Patched.step comp p op).2 = (Spec.C04.step comp p.m op).2 := by
        cases op with
        | size => simp [Patched.step, C04.step, hp]
        | _ => rfl
      have := ih (Patched.step comp p op).1 hp' (by rw [hm]; exact hf.2)
      simp only [Patched.run, Spec.C04.run]
      rw [this, hm, ho]
  exact key { m := [] } rfl hnf

/-! ## The clauses of the property, on model states satisfying the invariant

`get? comp s k` below is the value `Get(k)` answers in state `s` (`none` = not found). -/

/-- what `Get(k)` answers: the value, or `none` for `ErrorNotFound` -/
def get? (comp : κ → κ → Bool) (s : Model.Bst.St κ ν) (k : κ) : Option ν :=
  (Model.Bst.get comp k s.root).map (·.2)

/-- what state `Upsert(k, v)` / `Delete(k)` leads to (they do not panic under `Inv`) -/
def after (comp : κ → κ → Bool) (s : Model.Bst.St κ ν) (op : Op κ ν) : Model.Bst.St κ ν :=
  match Model.Bst.step comp s op with
  | some (s', _) => s'
  | none => s

theorem get?_eq_lookup (h : STO comp) (s : Model.Bst.St κ ν) (hi : Inv comp s) (k : κ) :
    get? comp s k = lookup comp k (abs s) := get_spec h k s.root hi

theorem after_spec (h : STO comp) (s : Model.Bst.St κ ν) (op : Op κ ν) (hi : Inv comp s) :
    Inv comp (after comp s op) ∧ abs (after comp s op) = (Spec.C04.step comp (abs s) op).1 := by
  obtain ⟨s', o, e, hi', ea, _⟩ := step_refines_spec h s op hi
  simp only [after, e]
  exact ⟨hi', ea⟩

/-- `abs (upsert t k v) = insert k v (abs t)` -/
theorem abs_upsert (h : STO comp) (s : Model.Bst.St κ ν) (hi : Inv comp s) (k : κ) (v : ν) :
    abs (after comp s (.upsert k v)) = OrdMap.insert comp k v (abs s) := (after_spec h s _ hi).2

/-- `abs (delete t k) = erase k (abs t)` — in particular the two-child case (successor splice) -/
theorem abs_delete (h : STO comp) (s : Model.Bst.St κ ν) (hi : Inv comp s) (k : κ) :
    abs (after comp s (.delete k)) = OrdMap.erase comp k (abs s) := (after_spec h s _ hi).2

/-- Get returns the most recently upserted value … -/
theorem get_after_upsert_same (h : STO comp) (s : Model.Bst.St κ ν) (hi : Inv comp s) (k : κ) (v : ν) :
    get? comp (after comp s (.upsert k v)) k = some v := by
  rw [get?_eq_lookup h _ (after_spec h s _ hi).1, abs_upsert h s hi]
  exact lookup_insert_self h k v _

/-- … and an `Upsert` of one key does not disturb any other key. -/
theorem get_after_upsert_other (h : STO comp) (s : Model.Bst.St κ ν) (hi : Inv comp s) (k k' : κ) (v : ν)
    (hne : k' ≠ k) : get? comp (after comp s (.upsert k v)) k' = get? comp s k' := by
  rw [get?_eq_lookup h _ (after_spec h s _ hi).1, abs_upsert h s hi, get?_eq_lookup h s hi]
  exact lookup_insert_other h hne v ((inv_iff_sorted h s).1 hi)

/-- A deleted key is not found afterwards … -/
theorem get_after_delete_same (h : STO comp) (s : Model.Bst.St κ ν) (hi : Inv comp s) (k : κ) :
    get? comp (after comp s (.delete k)) k = none := by
  rw [get?_eq_lookup h _ (after_spec h s _ hi).1, abs_delete h s hi]
  exact lookup_erase_self h k ((inv_iff_sorted h s).1 hi)

/-- … and `Delete` removes only that key. -/
theorem get_after_delete_other (h : STO comp) (s : Model.Bst.St κ ν) (hi : Inv comp s) (k k' : κ)
    (hne : k' ≠ k) : get? comp (after comp s (.delete k)) k' = get? comp s k' := by
  rw [get?_eq_lookup h _ (after_spec h s _ hi).1, abs_delete h s hi, get?_eq_lookup h s hi]
  exact lookup_erase_other h hne ((inv_iff_sorted h s).1 hi)

/-- `Delete` reports not-found exactly for absent keys. -/
theorem delete_errs_iff_absent (h : STO comp) (s : Model.Bst.St κ ν) (hi : Inv comp s) (k : κ) :
    ∃ s', Model.Bst.step comp s (.delete k) = some (s', .deleted (get? comp s k).isSome) := by
  obtain ⟨s', o, e, _, _, ho⟩ := step_refines_spec h s (.delete k) hi
  refine ⟨s', ?_⟩
  rw [e, ho (by simp), get?_eq_lookup h s hi]
  rfl

/-- A failed `Delete` leaves the tree itself untouched (only the counter moves: the finding). -/
theorem delete_absent_root (h : STO comp) (s : Model.Bst.St κ ν) (hi : Inv comp s) (k : κ)
    (ha : get? comp s k = none) :
    Model.Bst.step comp s (.delete k) = some ({ root := s.root, size := s.size - 1 }, .deleted false) := by
  rw [get?_eq_lookup h s hi] at ha
  simp only [Model.Bst.step, delete_absent h s.root k hi ha]

/-- Two-child deletion, explicitly: the node keeps its place and its left subtree, takes over the
item of its in-order successor (the first item of the right subtree's traversal), and the successor is
removed from the right subtree; the call reports success. -/
theorem delete_two_children_successor (h : STO comp) (ll lr rl rr : Tree κ ν) (lk k rk : κ) (lv v rv : ν)
    (hb : IsBst comp (.node (.node ll lk lv lr) k v (.node rl rk rv rr))) :
    ∃ mk mv r', Model.Bst.delete comp k (.node (.node ll lk lv lr) k v (.node rl rk rv rr)) =
        some (.node (.node ll lk lv lr) mk mv r', true) ∧
      traverse (.node rl rk rv rr) = (mk, mv) :: traverse r' := by
  obtain ⟨_, hr, _, _⟩ := hb
  obtain ⟨⟨mk, mv⟩, rest, hm, htr⟩ := min_spec (.node rl rk rv rr) (by simp)
  obtain ⟨r', e1, e2⟩ := delete_spec h (.node rl rk rv rr) mk hr
  have hl1 : lookup comp mk (traverse (.node rl rk rv rr)) = some mv := by
    rw [htr]; simp [lookup, h.irrefl]
  have he1 : erase comp mk (traverse (.node rl rk rv rr)) = rest := by
    rw [htr]; simp [erase, h.irrefl]
  rw [hl1] at e1
  rw [he1] at e2
  refine ⟨mk, mv, r', ?_, by rw [htr, e2]⟩
  have c1 : ¬ Model.Bst.compare comp k k = 1 := fun hc => by
    have := compare_eq_one.1 hc; rw [h.irrefl] at this; cases this
  have c2 : ¬ Model.Bst.compare comp k k = -1 := fun hc => by
    have := (compare_eq_neg_one.1 hc).2; rw [h.irrefl] at this; cases this
  rw [delete_node, if_neg c1, if_neg c2]
  simp only [hm, e1]
  rfl

/-- `Traverse` = the abstraction: every present key exactly once, with its current value, in
comparator order. -/
theorem traverse_eq_abs (s : Model.Bst.St κ ν) :
    Model.Bst.step comp s .traverse = some (s, .items (abs s)) := rfl

theorem traverse_sorted (h : STO comp) (s : Model.Bst.St κ ν) (hi : Inv comp s) :
    (abs s).Pairwise (fun a b => comp a.1 b.1 = true) :=
  sorted_iff_pairwise.1 ((inv_iff_sorted h s).1 hi)

theorem traverse_keys_nodup (h : STO comp) (s : Model.Bst.St κ ν) (hi : Inv comp s) :
    ((abs s).map (·.1)).Nodup := keys_nodup h ((inv_iff_sorted h s).1 hi)

theorem traverse_mem_iff_get (h : STO comp) (s : Model.Bst.St κ ν) (hi : Inv comp s) (k : κ) (v : ν) :
    (k, v) ∈ abs s ↔ get? comp s k = some v := by
  rw [get?_eq_lookup h s hi]
  exact mem_iff_lookup h ((inv_iff_sorted h s).1 hi) k v

/-! ## Non-vacuity -/

/-- a state reached by a history with a two-child deletion: the invariant holds there, and the
two-child branch of `delete` (successor splice) is really taken -/
example :
    let lt : Int → Int → Bool := fun a b => decide (a < b)
    let s := (Model.Bst.run lt {} [.upsert 2 20, .upsert 1 (10 : Int), .upsert 4 40, .upsert 3 30]).1
    Model.Bst.deleteCase lt 2 s.root = "two-children" ∧
    (Model.Bst.run lt s [.delete 2, .traverse, .get 3, .get 2, .size]).2 =
      [some (.deleted true), some (.items [(1, 10), (3, 30), (4, 40)]), some (.got (some 30)),
       some (.got none), some (.int 3)] := by decide

/-- `Inv` is satisfiable by a non-trivial state, and `size_partial`'s side condition by a non-trivial
history -/
example : Inv (fun a b : Int => decide (a < b))
    (Model.Bst.run (fun a b : Int => decide (a < b)) {}
      [.upsert 2 20, .upsert 1 (10 : Int), .upsert 4 40, .upsert 3 30, .delete 2]).1 :=
  (bst_refines_spec_partial sto_lt _ _ inv_init).2.2

/-- the hypothesis of `delete_two_children_successor` is satisfiable -/
example : IsBst (fun a b : Int => decide (a < b))
    (Tree.node (.node .nil 1 (10 : Int) .nil) 2 20 (.node (.node .nil 3 30 .nil) 4 40 .nil)) := by
  simp [IsBst, traverse]

example : failedDeletes (fun a b : Int => decide (a < b)) []
    [.upsert 2 20, .upsert 1 (10 : Int), .delete 2, .size] = 0 := by decide

example : failedDeletes (fun a b : Int => decide (a < b)) []
    [.upsert 1 (10 : Int), .delete 5, .size] = 1 := by decide

end GoguVerif.Theorems.C04
