import GoguVerif.Gen.Lru
import GoguVerif.Model.LruPtr
/-!
# The regenerated tie for the LRU cache at POINTER level (C07)

`Gen/Lru.lean` is produced on every run by the translator (translator/frag_lru.go) from `cache/lrucache.go`, statement
by statement, over the store of `Model/LruPtr.lean` (its types `PNode/Heap/PList/PSt/PRes` and its primitive field
reads / writes only): a `*node` is an address, every pointer dereference one store read (`none` / `.fault` = nil
dereference), every field assignment one store write, `newNode := node{…}` an allocation at `heap.length`; the nil
pointer is a universally quantified parameter `nilp`.

The theorems below state, for ALL stores (also ill-formed ones no history reaches: dangling addresses, broken rings),
all addresses, keys and values, that each regenerated function computes exactly what the hand-written function of
`Model/LruPtr.lean` computes — same new store, same answer, and a nil dereference in exactly the same cases.
`Theorems/C07.lean` (how `LruPtr` refines the abstract `Model/Lru.lean`, and that `.fault` is unreachable) is about
those hand-written functions; through these ties it is about the regenerated code.
-/
namespace GoguVerif.Theorems.GenTieLru
open GoguVerif
open GoguVerif.Model.LruPtr (PNode Heap PList PSt PRes)
open GoguVerif.Spec.C07 (Op)

/-- case analysis on every store read / write / branch of both sides, in program order -/
macro "lru_tie" : tactic => `(tactic| repeat' (first | rfl | (split <;> (try simp_all))))

/-! ## the list helpers -/

/-- `newLRUList()`: never faults and builds the model's empty ring, whatever the nil pointer is. -/
theorem newLRUList_tie (nilp : Nat) : Gen.Lru.newLRUList nilp = some Model.LruPtr.newLRUList := by
  rfl

/-- `moveAfter(current, nd)`: the six pointer assignments, read by read and write by write. -/
theorem moveAfter_tie (l : PList) (current nd : Nat) :
    Gen.Lru.moveAfter l current nd = Model.LruPtr.moveAfter l current nd := by
  unfold Gen.Lru.moveAfter Model.LruPtr.moveAfter
  lru_tie

theorem moveFront_tie (l : PList) (nd : Nat) :
    Gen.Lru.moveFront l nd = Model.LruPtr.moveFront l nd := by
  unfold Gen.Lru.moveFront Model.LruPtr.moveFront
  rw [moveAfter_tie]
  lru_tie

theorem length_tie (l : PList) : Gen.Lru.length l = Model.LruPtr.length l := rfl

/-- `addAfter(current, key, value)`: allocation at `heap.length`, the two re-linking writes, `len++`, the new address. -/
theorem addAfter_tie (l : PList) (current : Nat) (key value : Int) :
    Gen.Lru.addAfter l current key value = Model.LruPtr.addAfter l current key value := by
  unfold Gen.Lru.addAfter Model.LruPtr.addAfter
  lru_tie

theorem addFront_tie (l : PList) (key value : Int) :
    Gen.Lru.addFront l key value = Model.LruPtr.addFront l key value := by
  unfold Gen.Lru.addFront Model.LruPtr.addFront
  rw [addAfter_tie]
  lru_tie

theorem last_tie (l : PList) : Gen.Lru.last l = Model.LruPtr.last l := by
  unfold Gen.Lru.last Model.LruPtr.last
  lru_tie

theorem first_tie (l : PList) : Gen.Lru.first l = Model.LruPtr.first l := by
  unfold Gen.Lru.first Model.LruPtr.first
  lru_tie

theorem remove_tie (l : PList) (node : Nat) :
    Gen.Lru.remove l node = Model.LruPtr.remove l node := by
  unfold Gen.Lru.remove Model.LruPtr.remove
  lru_tie

theorem removeLast_tie (l : PList) : Gen.Lru.removeLast l = Model.LruPtr.removeLast l := by
  unfold Gen.Lru.removeLast Model.LruPtr.removeLast
  rw [last_tie]
  simp only [remove_tie]
  lru_tie

/-! ## the cache methods -/

theorem count_tie (c : PSt) : Gen.Lru.Count c = Model.LruPtr.count c := rfl

theorem removeOldest_tie (c : PSt) : Gen.Lru.RemoveOldest c = Model.LruPtr.removeOldest c := by
  unfold Gen.Lru.RemoveOldest Model.LruPtr.removeOldest
  simp only [last_tie, removeLast_tie]
  lru_tie

theorem add_tie (c : PSt) (key value : Int) : Gen.Lru.Add c key value = Model.LruPtr.add c key value := by
  unfold Gen.Lru.Add Model.LruPtr.add
  simp only [moveFront_tie, addFront_tie, removeOldest_tie, count_tie]
  lru_tie

theorem getOldest_tie (c : PSt) : Gen.Lru.GetOldest c = Model.LruPtr.getOldest c := by
  unfold Gen.Lru.GetOldest Model.LruPtr.getOldest
  simp only [last_tie, moveFront_tie]
  lru_tie

theorem get_tie (c : PSt) (key : Int) : Gen.Lru.Get c key = Model.LruPtr.get c key := by
  unfold Gen.Lru.Get Model.LruPtr.get
  simp only [moveFront_tie]
  lru_tie

theorem getYoungest_tie (c : PSt) : Gen.Lru.GetYoungest c = Model.LruPtr.getYoungest c := by
  unfold Gen.Lru.GetYoungest Model.LruPtr.getYoungest
  simp only [first_tie]
  lru_tie

theorem remove_key_tie (c : PSt) (key : Int) : Gen.Lru.Remove c key = Model.LruPtr.removeKey c key := by
  unfold Gen.Lru.Remove Model.LruPtr.removeKey
  simp only [remove_tie]
  lru_tie

/-- `RemoveYoungest()` unlinks the FIRST node (`remove(item)`, the repaired code; the pre-repair `removeLast()` of
finding F13 is `Model.LruPtr.removeYoungestPreFix`, which this theorem would not hold for). -/
theorem removeYoungest_tie (c : PSt) : Gen.Lru.RemoveYoungest c = Model.LruPtr.removeYoungest c := by
  unfold Gen.Lru.RemoveYoungest Model.LruPtr.removeYoungest
  simp only [first_tie, remove_tie]
  lru_tie

theorem flush_tie (c : PSt) (nilp : Nat) : Gen.Lru.Flush c nilp = Model.LruPtr.flush c := by
  unfold Gen.Lru.Flush Model.LruPtr.flush
  simp only [newLRUList_tie]

/-! ## whole histories -/

/-- one operation of the regenerated cache (dispatch only; every arm is a regenerated method) -/
def genStep (nilp : Nat) (c : PSt) : Op → PRes
  | .add k v => Gen.Lru.Add c k v
  | .get k => Gen.Lru.Get c k
  | .getOldest => Gen.Lru.GetOldest c
  | .getYoungest => Gen.Lru.GetYoungest c
  | .remove k => Gen.Lru.Remove c k
  | .removeOldest => Gen.Lru.RemoveOldest c
  | .removeYoungest => Gen.Lru.RemoveYoungest c
  | .flush => Gen.Lru.Flush c nilp
  | .count => .ok c (.int (Gen.Lru.Count c))

def genRun (nilp : Nat) (c : PSt) : List Op → Option (PSt × List Model.Lru.Ret)
  | [] => some (c, [])
  | op :: ops =>
    match genStep nilp c op with
    | .fault => none
    | .ok c' r =>
      match genRun nilp c' ops with
      | none => none
      | some (c'', rs) => some (c'', r :: rs)

theorem step_tie (nilp : Nat) (c : PSt) (op : Op) : genStep nilp c op = Model.LruPtr.step c op := by
  cases op <;>
    simp only [genStep, Model.LruPtr.step, add_tie, get_tie, getOldest_tie, getYoungest_tie, remove_key_tie,
      removeOldest_tie, removeYoungest_tie, flush_tie, count_tie]

/-- every history: the regenerated methods, run one after the other from ANY state, give the states and answers of
`Model.LruPtr.run` (and fault exactly when it does) — so `Theorems.C07`'s refinement theorems about `run` are theorems
about the regenerated code. -/
theorem run_tie (nilp : Nat) (c : PSt) (ops : List Op) : genRun nilp c ops = Model.LruPtr.run c ops := by
  induction ops generalizing c with
  | nil => rfl
  | cons op ops ih =>
    simp only [genRun, Model.LruPtr.run, step_tie]
    cases Model.LruPtr.step c op with
    | fault => rfl
    | ok c' r =>
      simp only [ih]
      cases Model.LruPtr.run c' ops <;> rfl

/-- the ties are not vacuous: a concrete history through the regenerated code (eviction at capacity 2, then the
youngest is removed) -/
example : (genRun 7 { items := [], evictList := Model.LruPtr.newLRUList, size := 2 }
    [.add 1 10, .add 2 20, .add 3 30, .get 2, .removeYoungest, .count]).map (·.2) =
    some [.kvb 0 0 false, .kvb 0 0 false, .kvb 1 10 true, .vb 20 true, .kvb 2 20 true, .int 1] := by decide

end GoguVerif.Theorems.GenTieLru
