import GoguVerif.Gen.Lists
/-!
# Regenerated tie for the pointer-level singly linked list (`list/slist.go`)

`Gen/Lists.lean` is regenerated from /repo's current source by `translator/frag_list.go` (statement by statement, over
the store `Heap = List Node` of `Model/SList.lean`).  Each theorem here says that a regenerated method equals the
hand-written model function for ALL stores (also ill-formed ones: dangling or cyclic), handles and values; the fuel
of every walk is the model's (`h.length + 1`).
-/
namespace GoguVerif.Theorems.GenTieLists
open GoguVerif.Model GoguVerif.Model.SList
open GoguVerif.Spec.C19 (Ans)
namespace G
export GoguVerif.Gen.Lists.SList (Init Unshift Append Append_loop1 Find Find_loop1 InsertAfter Replace Replace_loop1
  Pop Pop_loop1 Delete Delete_loop1 Shift Each Each_loop1)
end G

/-- `Init` -/
theorem slist_init_tie (v : Int) : G.Init v = SList.init v := rfl

/-- `Unshift` -/
theorem slist_unshift_tie (h : Heap) (v : Int) : G.Unshift h v = SList.unshift h v := by
  unfold G.Unshift SList.unshift
  cases load h 0 <;> rfl

/-- `Shift` -/
theorem slist_shift_tie (h : Heap) : G.Shift h = SList.shift h := by
  unfold G.Shift SList.shift
  cases hl : load h 0 with
  | ok hd =>
    simp only [ListRes.deref, ListRes.ok_bind, hl]
    cases hn : hd.next with
    | none => simp
    | some b => simp
  | _ => simp [ListRes.deref, hl]

/-- the walk of `Find`: the regenerated loop is the model's `findLoop`; a hit writes the saved head back. -/
theorem find_loop_tie (fuel : Nat) (h : Heap) (head : Node) (v : Int) (n : Option Nat) :
    G.Find_loop1 fuel h head v n =
      (findLoop fuel h n v >>= fun r =>
        match r with
        | some a => pure (some (some a, true), h.set 0 head, some a)
        | none => pure (none, h, none)) := by
  induction fuel generalizing n with
  | zero => simp [G.Find_loop1, Gen.Lists.SList.Find_loop1, findLoop]
  | succ k ih =>
    unfold Gen.Lists.SList.Find_loop1 findLoop
    cases n with
    | none => simp
    | some a =>
      simp only [ListRes.deref, load, reduceCtorEq, if_false, ListRes.ok_bind]
      cases h[a]? with
      | none => simp
      | some nd =>
        simp only [ListRes.ok_bind]
        by_cases hv : nd.val = v
        · simp [hv]
        · simp [hv, ih]

/-- `Find`: the model's store and handle; the flag is "the handle is not nil". -/
theorem slist_find_tie (h : Heap) (v : Int) :
    G.Find h v = (SList.find h v >>= fun p => pure (p.1, p.2, p.2.isSome)) := by
  unfold Gen.Lists.SList.Find SList.find
  cases hl : load h 0 with
  | ok hd =>
    simp only [ListRes.ok_bind, find_loop_tie]
    cases findLoop (h.length + 1) h (some 0) v with
    | ok r => cases r <;> simp
    | _ => simp
  | _ => simp

theorem load_ok_lt {h : Heap} {a : Nat} {c : Node} (hl : load h a = .ok c) : a < h.length := by
  unfold load at hl
  cases hg : h[a]? with
  | none => simp [hg] at hl
  | some n => exact (List.getElem?_eq_some_iff.mp hg).1

/-- a freshly allocated cell is where it was put, after a write to an older cell -/
theorem load_new (h : Heap) (a : Nat) (x y : Node) (ha : a < h.length) :
    load ((h ++ [x]).set a y) h.length = .ok x := by
  unfold load
  rw [List.getElem?_set_ne (by omega)]
  simp

/-- writing a cell's own contents back changes nothing -/
theorem set_self (h : Heap) (a : Nat) (x : Node) (hl : load h a = .ok x) : h.set a x = h := by
  unfold load at hl
  cases hg : h[a]? with
  | none => simp [hg] at hl
  | some n =>
    simp [hg] at hl
    subst hl
    apply List.ext_getElem? ; intro i
    by_cases hi : a = i
    · subst hi; simp [List.getElem?_set, hg]; exact (List.getElem?_eq_some_iff.mp hg).1
    · simp [List.getElem?_set_ne hi]

/-- the walk of `Append` is the model's `lastAddr` -/
theorem append_loop_tie (fuel : Nat) (h : Heap) (a : Nat) :
    G.Append_loop1 fuel h (some a) = (lastAddr fuel h a >>= fun b => pure (h, some b)) := by
  induction fuel generalizing a with
  | zero => simp [Gen.Lists.SList.Append_loop1, lastAddr]
  | succ k ih =>
    unfold Gen.Lists.SList.Append_loop1 lastAddr
    simp only [ListRes.deref, load, ListRes.ok_bind]
    cases h[a]? with
    | none => simp
    | some nd =>
      simp only [ListRes.ok_bind]
      cases hn : nd.next with
      | none => simp
      | some b => simp [ih]

/-- `Append` -/
theorem slist_append_tie (h : Heap) (v : Int) : G.Append h v = SList.append h v := by
  unfold Gen.Lists.SList.Append SList.append
  cases hl : load h 0 with
  | ok hd =>
    have fin : (do
          let p ← G.Append_loop1 (h.length + 1) h (some 0)
          let a8 ← ListRes.deref p.2
          let c9 ← load p.1 a8
          let c10 ← load ((p.1 ++ [(⟨v, none⟩ : Node)]).set a8 { c9 with next := some p.1.length }) p.1.length
          pure (((p.1 ++ [(⟨v, none⟩ : Node)]).set a8 { c9 with next := some p.1.length }).set p.1.length
              { c10 with next := none })) =
        (do
          let a ← lastAddr (h.length + 1) h 0
          let n ← load h a
          pure ((h ++ [(⟨v, none⟩ : Node)]).set a { n with next := some h.length }) : ListRes Heap) := by
      rw [append_loop_tie]
      cases lastAddr (h.length + 1) h 0 with
      | ok a =>
        simp only [ListRes.ok_bind, ListRes.pure_eq, ListRes.deref]
        cases hla : load h a with
        | ok n =>
          have hlt := load_ok_lt hla
          simp only [ListRes.ok_bind, load_new h a _ _ hlt]
          rw [set_self _ _ _ (load_new h a _ _ hlt)]
        | _ => simp
      | _ => simp
    simp only [ListRes.ok_bind, ListRes.deref, hl, set_self h 0 hd hl]
    cases hn : hd.next with
    | none => simpa [ListRes.deref] using fin
    | some b => simpa [ListRes.deref] using fin
  | _ => simp

/-- the walk of `Pop` is the model's `popLoop` -/
theorem pop_loop_tie (fuel : Nat) (h : Heap) (a : Nat) :
    G.Pop_loop1 fuel h (some a) = (popLoop fuel h a >>= fun b => pure (h, some b)) := by
  induction fuel generalizing a with
  | zero => simp [Gen.Lists.SList.Pop_loop1, popLoop]
  | succ k ih =>
    unfold Gen.Lists.SList.Pop_loop1 popLoop
    simp only [ListRes.deref, load, ListRes.ok_bind]
    cases h[a]? with
    | none => simp
    | some nd =>
      simp only [ListRes.ok_bind]
      cases hn : nd.next with
      | none => simp
      | some b =>
        simp only [ListRes.ok_bind]
        cases h[b]? with
        | none => simp
        | some bn =>
          simp only [ListRes.ok_bind]
          cases hbn : bn.next with
          | none => simp
          | some c => simp [ih]

/-- `Pop` -/
theorem slist_pop_tie (h : Heap) : G.Pop h = SList.pop h := by
  unfold Gen.Lists.SList.Pop SList.pop
  cases hl : load h 0 with
  | ok hd =>
    simp only [ListRes.ok_bind, ListRes.deref, hl]
    cases hn : hd.next with
    | none => simp
    | some b =>
      simp only [reduceCtorEq, if_false, pop_loop_tie]
      cases popLoop (h.length + 1) h 0 with
      | ok t => simp
      | _ => simp
  | _ => simp [ListRes.deref, hl]

/-- the loop of `Replace` is the model's `replaceLoop` (a `break` is the answer `ok`) -/
theorem replace_loop_tie (fuel : Nat) (h : Heap) (o n : Int) (a : Nat) :
    (G.Replace_loop1 fuel h n o (some a) >>= fun p =>
        match p.1 with
        | some r => pure (p.2.1, r)
        | none => pure (p.2.1, Ans.ok)) = replaceLoop fuel h a o n := by
  induction fuel generalizing a with
  | zero => simp [Gen.Lists.SList.Replace_loop1, replaceLoop]
  | succ k ih =>
    unfold Gen.Lists.SList.Replace_loop1 replaceLoop
    simp only [ListRes.deref, load, ListRes.ok_bind]
    cases h[a]? with
    | none => simp
    | some nd =>
      simp only [ListRes.ok_bind]
      cases hn : nd.next with
      | none => by_cases hv : nd.val = o <;> simp [hv]
      | some b =>
        by_cases hv : nd.val = o
        · simp [hv]
        · simpa [hv] using ih b

/-- `Replace` -/
theorem slist_replace_tie (h : Heap) (o n : Int) : G.Replace h o n = SList.replace h o n := by
  unfold Gen.Lists.SList.Replace SList.replace
  rw [← replace_loop_tie]
  cases hr : Gen.Lists.SList.Replace_loop1 (h.length + 1) h n o (some 0) with
  | ok p => obtain ⟨r, h', hd⟩ := p; cases r <;> simp [hr]
  | _ => simp [hr]

/-- `InsertAfter` -/
theorem slist_insertAfter_tie (h : Heap) (prev : Option Nat) (v : Int) :
    G.InsertAfter h prev v = SList.insertAfter h prev v := by
  unfold Gen.Lists.SList.InsertAfter SList.insertAfter
  cases prev with
  | none => simp
  | some p =>
    simp only [reduceCtorEq, if_false, ListRes.deref, ListRes.ok_bind]
    cases hl : load h p with
    | ok pn =>
      simp only [ListRes.ok_bind, slist_find_tie]
      cases hf : SList.find h pn.val with
      | ok q =>
        obtain ⟨h1, r⟩ := q
        cases r with
        | none => simp
        | some a =>
          simp only [ListRes.ok_bind, ListRes.pure_eq, Option.isSome_some, if_true]
          cases load h1 p <;> simp
      | _ => simp
    | _ => simp

/-- the walk of `Delete` is the model's `deleteLoop` -/
theorem delete_loop_tie (fuel : Nat) (h : Heap) (node a : Nat) (prev : Node) :
    G.Delete_loop1 fuel h (some node) (some a) prev =
      (deleteLoop fuel h a node prev >>= fun p => pure (h, some p.1, p.2)) := by
  induction fuel generalizing a prev with
  | zero => simp [Gen.Lists.SList.Delete_loop1, deleteLoop]
  | succ k ih =>
    unfold Gen.Lists.SList.Delete_loop1 deleteLoop
    simp only [ListRes.deref, load, ListRes.ok_bind]
    cases h[a]? with
    | none => simp
    | some hn =>
      simp only [ListRes.ok_bind]
      cases hnx : hn.next with
      | none => simp
      | some b =>
        by_cases he : a = node
        · simp [he]
        · simp [he, ih]

/-- `Delete` -/
theorem slist_delete_tie (h : Heap) (node : Option Nat) :
    G.Delete h node = SList.delete h node := by
  unfold Gen.Lists.SList.Delete SList.delete
  cases node with
  | none => simp
  | some a =>
    simp only [reduceCtorEq, if_false, ListRes.deref, ListRes.ok_bind]
    cases hl : load h a with
    | ok nd =>
      simp only [ListRes.ok_bind, slist_find_tie]
      cases hf : SList.find h nd.val with
      | ok q =>
        obtain ⟨h1, r⟩ := q
        cases r with
        | none => simp
        | some f =>
          simp only [ListRes.ok_bind, ListRes.pure_eq, Option.isSome_some, if_true, Option.some.injEq]
          by_cases h0 : 0 = a
          · simp only [h0, if_true]
            cases load h1 a with
            | ok hd =>
              simp only [ListRes.ok_bind]
              cases hd.next with
              | none => simp
              | some b => simp
            | _ => simp
          · simp only [h0, if_false, delete_loop_tie, slist_pop_tie]
            cases deleteLoop (h1.length + 1) h1 0 a ⟨0, none⟩ with
            | ok p =>
              obtain ⟨head, pv⟩ := p
              simp only [ListRes.ok_bind, ListRes.pure_eq]
              cases load h1 head with
              | ok hn =>
                simp only [ListRes.ok_bind]
                cases hn.next with
                | none => simp
                | some s =>
                  simp only [reduceCtorEq, if_false]
                  cases ListRes.deref pv.next with
                  | ok t => simp
                  | _ => simp
              | _ => simp
            | _ => simp
      | _ => simp
    | _ => simp

/-- the walk of `Each`: the callback (a state transformer) is folded over the values the model's `eachLoop` lists -/
theorem each_loop_tie {σ : Type} (fuel : Nat) (h : Heap) (fn : σ → Int → σ) (n : Option Nat) (s : σ) :
    G.Each_loop1 fuel h fn n s = (eachLoop fuel h n >>= fun vs => pure (h, none, vs.foldl fn s)) := by
  induction fuel generalizing n s with
  | zero => simp [Gen.Lists.SList.Each_loop1, eachLoop]
  | succ k ih =>
    unfold Gen.Lists.SList.Each_loop1 eachLoop
    cases n with
    | none => simp
    | some a =>
      simp only [reduceCtorEq, if_false, ListRes.deref, load, ListRes.ok_bind]
      cases h[a]? with
      | none => simp
      | some nd =>
        simp only [ListRes.ok_bind, ih]
        cases eachLoop k h nd.next <;> simp

/-- `Each` with an arbitrary state-transformer callback: the store is unchanged and the callback has been folded over
the values of the model's `each`, in order. -/
theorem slist_each_tie {σ : Type} (h : Heap) (fn : σ → Int → σ) (s : σ) :
    G.Each h fn s = (SList.each h >>= fun p => pure (p.1, p.2.foldl fn s)) := by
  unfold Gen.Lists.SList.Each SList.each
  simp only [each_loop_tie]
  cases eachLoop (h.length + 1) h (some 0) <;> simp

/-- `Each` with the logging callback of the harness is the model's `each`. -/
theorem slist_each_log_tie (h : Heap) :
    G.Each h (fun (s : List Int) v => s ++ [v]) [] = SList.each h := by
  rw [slist_each_tie]
  have hf : ∀ (vs acc : List Int), vs.foldl (fun s v => s ++ [v]) acc = acc ++ vs := by
    intro vs; induction vs with
    | nil => simp
    | cons x xs ih => intro acc; simp [ih]
  cases SList.each h with
  | ok p => simp [hf]
  | _ => simp

/-- a concrete run of the regenerated code: Init 1; Append 2; Unshift 0; Delete (the handle of 1) -/
example :
    (do
      let h ← G.Append (G.Init 1) 2
      let h ← G.Unshift h 0
      let (h, n, _) ← G.Find h 1
      let (h, r) ← G.Delete h n
      let (_, vs) ← G.Each h (fun (s : List Int) v => s ++ [v]) []
      pure (r, vs)) = ListRes.ok (Ans.ok, [0, 2]) := by decide

end GoguVerif.Theorems.GenTieLists
