import GoguVerif.Theorems.C02Inst
import GoguVerif.Theorems.C02More
import GoguVerif.Theorems.C04
import GoguVerif.Theorems.C08
import GoguVerif.Theorems.C09
import GoguVerif.Theorems.C19
/-!
# C01, remaining clause — "no call panics, and the instance stays usable", along concurrent histories

`Theorems/C01.lean` proves race- and deadlock-freedom of the lock discipline; `Theorems/C02Inst.lean`
proves that every concurrent (micro-step interleaved, RWMutex-admitted) history of each container is
a legal sequential run of the container's sequential object.  This file composes the latter with the
SEQUENTIAL no-panic / invariant-preservation theorems of the containers (C03, C04, C05/C06 regenerated
tie, C08, C09, C19):

* generic: `legal_preserves` (an invariant `I` that every step preserves, and a property `Good` that
  every step taken from an `I`-state has, hold along every legal run), `legal_preserves_at` (the same
  with `Good` a property of the PRE-state of the operation), `oneStep_preserves` /
  `oneStep_preserves_at` (… along every reachable state of the fine-grained system `oneStep step mode`:
  the abstract object satisfies `I`, every linearized and every RETURNED result is `Good`), and
  `oneStep_shared_inv` (the concrete shared state satisfies `I` whenever nobody holds the write lock);
* per container `<type>_concurrent_never_panics`.

"Stays usable": the conclusion `I s.absObj` is the hypothesis `I init` of the same theorem (and of
the sequential theorems of the container) again, so any continuation — sequential or concurrent — is
covered by the same theorems.
-/
namespace GoguVerif.Theorems.C01NoPanic
open GoguVerif GoguVerif.Model GoguVerif.Model.Lin
open GoguVerif.Model.Lock (Mode)
open GoguVerif.Theorems.C02Inst

/-! ## 1. Generic -/
section Generic
variable {σ Op Ret : Type}

/-- Along a legal sequential run from an `I`-state: `I` holds at the end, and every operation's
recorded result is `Good` (for that operation). -/
theorem legal_preserves {O : Obj σ Op Ret} (I : σ → Prop) (Good : Op → Ret → Prop)
    (hstep : ∀ s op, I s → I (O.step s op).1 ∧ Good op (O.step s op).2)
    {s ops s'} (l : Legal O s ops s') (hi : I s) : I s' ∧ ∀ p ∈ ops, Good p.1 p.2 := by
  induction l with
  | nil s => exact ⟨hi, fun p hp => by simp at hp⟩
  | @cons s op rest s' _ ih =>
    obtain ⟨i1, g1⟩ := hstep s op hi
    obtain ⟨i2, g2⟩ := ih i1
    refine ⟨i2, fun p hp => ?_⟩
    rcases List.mem_cons.1 hp with rfl | hp
    · exact g1
    · exact g2 p hp

/-- The same with a property `Q` of the operation's PRE-state: every operation of a legal run from
an `I`-state was applied to some `I`-state `s0` with `Q s0 op`, and its result is the one the object
gives there. -/
theorem legal_preserves_at {O : Obj σ Op Ret} (I : σ → Prop) (Q : σ → Op → Prop)
    (hstep : ∀ s op, I s → I (O.step s op).1 ∧ Q s op)
    {s ops s'} (l : Legal O s ops s') (hi : I s) :
    I s' ∧ ∀ p ∈ ops, ∃ s0, I s0 ∧ Q s0 p.1 ∧ p.2 = (O.step s0 p.1).2 :=
  legal_preserves (O := O) I (fun op res => ∃ s0, I s0 ∧ Q s0 op ∧ res = (O.step s0 op).2)
    (fun s op hi => ⟨(hstep s op hi).1, s, hi, (hstep s op hi).2, rfl⟩) l hi

variable [Inhabited Ret] {step : σ → Op → σ × Ret} {mode : Op → Mode}

/-- every returned value of a fine-grained history is the result of a linearized operation -/
theorem ret_mem_linOps (ro : ∀ op, mode op = .r → ∀ s, (step s op).1 = s)
    {init : σ} {h s} (r : Fine.Reach (oneStep step mode) init h s)
    {t c : Nat} {op : Op} {res : Ret} (hm : Ev.ret t c op res ∈ h) : (op, res) ∈ linOps h := by
  obtain ⟨n1, o1, e1⟩ := List.append_of_mem hm
  have hl := C02.ret_after_lin (oneStep_history_is_atomic ro r) n1 o1 t c op res e1
  exact C02More.lin_mem_linOps (t := t) (c := c)
    (by rw [e1]; exact List.mem_append_right _ (List.mem_cons_of_mem _ hl))

/-- **Generic concurrent corollary.**  In every reachable state of the fine-grained system of a
lock-guarded object (read-mode operations being observers), started in an `I`-state: the abstract
object state satisfies `I`, every linearized result is `Good`, every RETURNED value is `Good`. -/
theorem oneStep_preserves (ro : ∀ op, mode op = .r → ∀ s, (step s op).1 = s)
    (I : σ → Prop) (Good : Op → Ret → Prop)
    (hstep : ∀ s op, I s → I (step s op).1 ∧ Good op (step s op).2)
    {init : σ} (hi : I init) {h s} (r : Fine.Reach (oneStep step mode) init h s) :
    I s.absObj ∧ (∀ p ∈ linOps h, Good p.1 p.2) ∧
      (∀ t c op res, Ev.ret t c op res ∈ h → Good op res) := by
  obtain ⟨i, g⟩ := legal_preserves (O := ⟨init, step⟩) I Good hstep (oneStep_fine_linearizable ro r) hi
  exact ⟨i, g, fun t c op res hm => g (op, res) (ret_mem_linOps ro r hm)⟩

/-- … with a property `Q` of the pre-state at the linearization point. -/
theorem oneStep_preserves_at (ro : ∀ op, mode op = .r → ∀ s, (step s op).1 = s)
    (I : σ → Prop) (Q : σ → Op → Prop)
    (hstep : ∀ s op, I s → I (step s op).1 ∧ Q s op)
    {init : σ} (hi : I init) {h s} (r : Fine.Reach (oneStep step mode) init h s) :
    I s.absObj ∧ (∀ p ∈ linOps h, ∃ s0, I s0 ∧ Q s0 p.1 ∧ p.2 = (step s0 p.1).2) ∧
      (∀ t c op res, Ev.ret t c op res ∈ h → ∃ s0, I s0 ∧ Q s0 op ∧ res = (step s0 op).2) :=
  oneStep_preserves ro I (fun op res => ∃ s0, I s0 ∧ Q s0 op ∧ res = (step s0 op).2)
    (fun s op hi => ⟨(hstep s op hi).1, s, hi, (hstep s op hi).2, rfl⟩) hi r

/-- The CONCRETE shared state (what the next lock holder will find) satisfies the invariant whenever
nobody is inside a write-mode critical section — in particular in every quiescent state. -/
theorem oneStep_shared_inv (ro : ∀ op, mode op = .r → ∀ s, (step s op).1 = s)
    (I : σ → Prop) (hstep : ∀ s op, I s → I (step s op).1)
    {init : σ} (hi : I init) {h s} (r : Fine.Reach (oneStep step mode) init h s)
    (hw : ∀ i, Fine.holds (s.th i) ≠ some .w) : I s.shared := by
  have hinv := (C02Fine.fine_refines_atomic (oneStep_readOnly step mode ro) r).1
  rw [← hinv.noWriter hw]
  exact (oneStep_preserves ro I (fun _ _ => True) (fun s op hi => ⟨hstep s op hi, trivial⟩) hi r).1

end Generic

/-! ## 2. Heap `heap.Heap`

The model `Model.Heap.step` has explicit `panic` / `hang` outcomes; `heapStep` reports them as the
call's answer. -/
section HeapNP
variable {α : Type} [Inhabited α] [DecidableEq α]

/-- **Heap.**  Goroutines calling `Push`/`Pop`/`Peek`/`Size`/`Clear` concurrently on a heap that
starts in a state with the representation invariant (strict-weak-order comparator, heap-ordered
array): every linearized and every returned answer is `ok` (neither Go's index panic nor the
`moveUp` hang), and the abstract heap state satisfies the invariant again. -/
theorem heap_concurrent_never_panics {init : Heap.Heap α} (hi : Lemmas.C03.Inv init) {h s}
    (r : Fine.Reach (oneStep heapStep heapMode) init h s) :
    Lemmas.C03.Inv s.absObj ∧ (∀ p ∈ linOps h, ∃ out, p.2 = Heap.Outcome.ok out) ∧
      (∀ t c op res, Ev.ret t c op res ∈ h → ∃ out, res = Heap.Outcome.ok out) :=
  oneStep_preserves heap_observers Lemmas.C03.Inv (fun _ res => ∃ out, res = Heap.Outcome.ok out)
    (fun s op hi => by
      obtain ⟨h', out, e, i, _⟩ := heapStep_refines s op hi
      rw [e]; exact ⟨i, out, rfl⟩) hi r

/-- … and the array itself is a heap whenever no writer is inside -/
theorem heap_shared_inv {init : Heap.Heap α} (hi : Lemmas.C03.Inv init) {h s}
    (r : Fine.Reach (oneStep heapStep heapMode) init h s)
    (hw : ∀ i, Fine.holds (s.th i) ≠ some .w) : Lemmas.C03.Inv s.shared :=
  oneStep_shared_inv heap_observers Lemmas.C03.Inv
    (fun s op hi => by obtain ⟨h', out, e, i, _⟩ := heapStep_refines s op hi; rw [e]; exact i) hi r hw

end HeapNP

/-- hypotheses satisfiable: `NewHeap(<)` on `Int`, and a non-trivial reachable history -/
example : Lemmas.C03.Inv (Heap.new C03.ltI) := C03.inv_init C03.swo_lt
example : ∃ s, Fine.Reach (oneStep heapStep (heapMode (α := Int))) (Heap.new C03.ltI)
    (serialHist heapStep (Heap.new C03.ltI) .pop (.push 7)) s :=
  (overlap_serial heapStep heapMode (Heap.new C03.ltI) .pop (.push 7)).imp fun _ h => h.1

/-! ## 3. Slice queue and slice stack: see `Theorems/C01NoPanicGen.lean` (these theorems speak about the REGENERATED Go
methods and therefore live with the advisory regenerated tie, so that a rewrite of `queue.go` / `stack.go` that leaves the
translated fragment cannot take the other theorems of this file down with it). -/

/-! ## 4. BST `bstree.BsTree`

The sequential objects of the instances, `bstStep comp` (ordered-map specification) and
`bstPatchedStep comp` (… with finding F10), have NO panic outcome.  The code model `Model.Bst.step`
has one (`none`: the nil dereferences in `upsert`/`min`).  Invariant: the association list is sorted
by a strict total order `comp`; at every linearization point, EVERY tree `t` that is a binary search
tree representing the abstract state answers without panic, is a BST again and represents the
successor state (`C04.step_refines_patched` / `C04.step_refines_spec`). -/
section BstNP
variable {κ ν : Type} {comp : κ → κ → Bool}
open GoguVerif.Spec.OrdMap

/-- the code model, run on any BST representing the patched-specification state `p0`, does not panic,
answers the specification's answer and represents the specification's successor -/
def bstPatchedCodeOk (comp : κ → κ → Bool) (p0 : Spec.C04.Patched.St κ ν) (op : BstOp κ ν) : Prop :=
  ∀ t : Model.Bst.St κ ν, C04.Inv comp t → C04.absP t = p0 →
    ∃ t', Model.Bst.step comp t op.toOp = some (t', (bstPatchedStep comp p0 op).2) ∧
      C04.Inv comp t' ∧ C04.absP t' = (bstPatchedStep comp p0 op).1

/-- … on any BST whose in-order traversal is `m0`: no panic, BST again, represents the successor -/
def bstCodeOk (comp : κ → κ → Bool) (m0 : List (κ × ν)) (op : BstOp κ ν) : Prop :=
  ∀ t : Model.Bst.St κ ν, C04.Inv comp t → C04.abs t = m0 →
    ∃ t' o, Model.Bst.step comp t op.toOp = some (t', o) ∧
      C04.Inv comp t' ∧ C04.abs t' = (bstStep comp m0 op).1

theorem bstStep_sorted (hc : STO comp) (m : List (κ × ν)) (op : BstOp κ ν) (hs : Sorted comp m) :
    Sorted comp (bstStep comp m op).1 := by
  cases op with
  | upsert k v => exact Lemmas.C04.sorted_insert hc k v hs
  | get k => exact hs
  | delete k => exact Lemmas.C04.sorted_erase k hs
  | size => exact hs

theorem bstPatchedStep_sorted (hc : STO comp) (p : Spec.C04.Patched.St κ ν) (op : BstOp κ ν)
    (hs : Sorted comp p.m) : Sorted comp (bstPatchedStep comp p op).1.m := by
  cases op with
  | upsert k v => exact Lemmas.C04.sorted_insert hc k v hs
  | get k => exact hs
  | delete k => exact Lemmas.C04.sorted_erase k hs
  | size => exact hs

/-- **BST, ordered-map specification.**  Concurrent `Upsert`/`Get`/`Delete`/`Size` from a sorted map
(comparator a strict total order): the abstract map stays sorted, and every linearized / returned
answer was computed in a sorted state `m0` on which the code model cannot panic. -/
theorem bst_concurrent_never_panics (hc : STO comp) {init : List (κ × ν)} (hi : Sorted comp init) {h s}
    (r : Fine.Reach (oneStep (bstStep comp) bstMode) init h s) :
    Sorted comp s.absObj ∧
      (∀ p ∈ linOps h, ∃ m0, Sorted comp m0 ∧ bstCodeOk comp m0 p.1 ∧ p.2 = (bstStep comp m0 p.1).2) ∧
      (∀ t c op res, Ev.ret t c op res ∈ h →
        ∃ m0, Sorted comp m0 ∧ bstCodeOk comp m0 op ∧ res = (bstStep comp m0 op).2) :=
  oneStep_preserves_at (bst_observers comp) (Sorted comp) (bstCodeOk comp)
    (fun m op hs => ⟨bstStep_sorted hc m op hs, fun t ht ha => by
      obtain ⟨t', o, e, i, a, _⟩ := C04.step_refines_spec hc t op.toOp ht
      exact ⟨t', o, e, i, by rw [a, ha]; rfl⟩⟩) hi r

/-- **BST, patched specification (what the code implements).**  As above; here the code model's
answer IS the linearized answer. -/
theorem bstPatched_concurrent_never_panics (hc : STO comp) {init : Spec.C04.Patched.St κ ν}
    (hi : Sorted comp init.m) {h s}
    (r : Fine.Reach (oneStep (bstPatchedStep comp) bstMode) init h s) :
    Sorted comp s.absObj.m ∧
      (∀ p ∈ linOps h, ∃ p0 : Spec.C04.Patched.St κ ν, Sorted comp p0.m ∧ bstPatchedCodeOk comp p0 p.1 ∧
        p.2 = (bstPatchedStep comp p0 p.1).2) ∧
      (∀ t c op res, Ev.ret t c op res ∈ h →
        ∃ p0 : Spec.C04.Patched.St κ ν, Sorted comp p0.m ∧ bstPatchedCodeOk comp p0 op ∧
          res = (bstPatchedStep comp p0 op).2) :=
  oneStep_preserves_at (bstPatched_observers comp) (fun p => Sorted comp p.m) (bstPatchedCodeOk comp)
    (fun p op hs => ⟨bstPatchedStep_sorted hc p op hs, fun t ht ha => by
      obtain ⟨t', o, e, i, a⟩ := C04.step_refines_patched hc t op.toOp ht
      rw [ha] at a
      have a1 : (bstPatchedStep comp p op).1 = C04.absP t' := by
        show (Spec.C04.Patched.step comp p op.toOp).1 = _; rw [a]
      have a2 : (bstPatchedStep comp p op).2 = o := by
        show (Spec.C04.Patched.step comp p op.toOp).2 = _; rw [a]
      exact ⟨t', by rw [a2]; exact e, i, a1.symm⟩⟩) hi r

end BstNP

/-- hypotheses satisfiable: `<` on `Int`, the empty tree -/
example : Spec.OrdMap.Sorted (fun a b : Int => decide (a < b)) ([] : List (Int × Int)) := trivial
example : Spec.OrdMap.STO (fun a b : Int => decide (a < b)) := C04.sto_lt
/-- … and `bstCodeOk` is about existing trees: the empty tree represents `[]` -/
example : C04.Inv (fun a b : Int => decide (a < b)) ({} : Model.Bst.St Int Int) ∧
    C04.abs ({} : Model.Bst.St Int Int) = [] := ⟨C04.inv_init, C04.abs_init⟩

/-! ## 5. Trie `trie.Trie`

The specification object `trieStep` has NO panic outcome; the code model `Model.Trie.step` has
(`none`), and `Put` with the EMPTY key does panic (`C09.put_empty_panics`, as `key[0]` does in Go):
that call is outside the property's domain (`ValidOp`).  Invariant: the map is sorted in
byte-lexicographic order; at every linearization point of a valid operation every trie with the
representation invariant that represents the abstract state answers without panic, keeps its
invariant and represents the successor (`C09.trie_step_refines`). -/
section TrieNP
open GoguVerif.Spec.OrdMap

def trieCodeOk (m0 : List (Spec.C09.Key × Int)) (op : TrieOp) : Prop :=
  Lemmas.C09.ValidOp op.toOp → ∀ t : Model.Trie.Trie, Lemmas.C09.Inv t → Lemmas.C09.abs t = m0 →
    ∃ t', Model.Trie.step t op.toOp = some (t', (trieStep m0 op).2) ∧
      Lemmas.C09.abs t' = (trieStep m0 op).1 ∧ Lemmas.C09.Inv t'

theorem trieStep_sorted (m : List (Spec.C09.Key × Int)) (op : TrieOp) (hs : Sorted Spec.C09.lexLt m) :
    Sorted Spec.C09.lexLt (trieStep m op).1 := by
  cases op with
  | put k v => exact Lemmas.C04.sorted_insert C09.lexLt_strict_total k v hs
  | get k => exact hs
  | contains k => exact hs
  | size => exact hs

/-- **Trie.**  Concurrent `Put`/`Get`/`Contains`/`Size` from a sorted map: the abstract map stays
sorted, and every linearized / returned answer was computed in a sorted state `m0` on which the code
model cannot panic (for `Put`: provided the key is non-empty). -/
theorem trie_concurrent_never_panics {init : List (Spec.C09.Key × Int)} (hi : Sorted Spec.C09.lexLt init)
    {h s} (r : Fine.Reach (oneStep trieStep trieMode) init h s) :
    Sorted Spec.C09.lexLt s.absObj ∧
      (∀ p ∈ linOps h, ∃ m0, Sorted Spec.C09.lexLt m0 ∧ trieCodeOk m0 p.1 ∧ p.2 = (trieStep m0 p.1).2) ∧
      (∀ t c op res, Ev.ret t c op res ∈ h →
        ∃ m0, Sorted Spec.C09.lexLt m0 ∧ trieCodeOk m0 op ∧ res = (trieStep m0 op).2) :=
  oneStep_preserves_at trie_observers (Sorted Spec.C09.lexLt) trieCodeOk
    (fun m op hs => ⟨trieStep_sorted m op hs, fun hv t ht ha => by
      obtain ⟨t', e, a, i⟩ := C09.trie_step_refines t op.toOp ht hv
      rw [ha] at e a
      exact ⟨t', e, a, i⟩⟩) hi r

end TrieNP

/-- hypotheses satisfiable: the empty trie -/
example : Spec.OrdMap.Sorted Spec.C09.lexLt ([] : List (Spec.C09.Key × Int)) := trivial
example : Lemmas.C09.Inv {} ∧ Lemmas.C09.abs {} = [] := C09.trie_init
example : Lemmas.C09.ValidOp (TrieOp.put [97] 1).toOp := by simp [TrieOp.toOp, Lemmas.C09.ValidOp]

/-! ## 6. Expiring cache `cache.Cache` at a fixed instant

Neither the specification `cacheStep cfg c` nor the code model `cacheCall cfg now`
(`Model.Cache.call`: Go map operations on a map created by `New`) has a panic outcome — both are total
functions into `Spec.C08.Out`.  What is proved is invariant preservation along concurrent histories:
unique keys (the association list is a map) and, for the specification, the fixed clock. -/
section CacheNP

def specKeys (s : Spec.C08.St) : List Int := s.es.map (·.key)

theorem specKeys_filter (p : Spec.C08.Entry → Bool) (es : List Spec.C08.Entry)
    (hn : (es.map (·.key)).Nodup) : ((es.filter p).map (·.key)).Nodup :=
  (List.Sublist.map _ List.filter_sublist).nodup hn

theorem specKeys_store (k v x : Int) (es : List Spec.C08.Entry) (hn : (es.map (·.key)).Nodup) :
    ((Spec.C08.store k v x es).map (·.key)).Nodup := by
  simp only [Spec.C08.store, List.map_cons, List.nodup_cons]
  refine ⟨?_, specKeys_filter _ es hn⟩
  intro hm
  obtain ⟨e, he, hk⟩ := List.mem_map.1 hm
  have := (List.mem_filter.1 he).2
  simp [hk] at this

/-- invariant of the specification state: unique keys, clock at `now0` -/
def CacheInv (now0 : Int) (s : Spec.C08.St) : Prop := (specKeys s).Nodup ∧ s.now = now0

theorem cacheStep_inv (cfg : Spec.C08.Cfg) (c : Bool) (now0 : Int) (s : Spec.C08.St) (op : CacheOp)
    (hi : CacheInv now0 s) : CacheInv now0 (cacheStep cfg c s op).1 := by
  refine ⟨?_, by rw [cache_now_fixed]; exact hi.2⟩
  have hn := hi.1
  cases op with
  | set k v d =>
    simp only [cacheStep, CacheOp.toOp, Spec.C08.step, Spec.C08.setOne]
    repeat' split
    all_goals first | exact hn | exact specKeys_store _ _ _ _ hn
  | get k => simp only [cacheStep, CacheOp.toOp, Spec.C08.step]; split <;> exact hn
  | update k v d =>
    simp only [cacheStep, CacheOp.toOp, Spec.C08.step]
    split
    · exact specKeys_store _ _ _ _ hn
    · exact hn
  | delete k =>
    simp only [cacheStep, CacheOp.toOp, Spec.C08.step]
    split
    · exact specKeys_filter _ _ hn
    · exact hn
  | count => exact hn

/-- **Cache, specification.**  Concurrent `Set`/`Get`/`Update`/`Delete`/`Count` at a fixed instant, from
a state with unique keys: keys stay unique and the clock stays put (the object has no panic outcome;
every answer is the total specification's answer in a state with the invariant). -/
theorem cache_concurrent_never_panics (cfg : Spec.C08.Cfg) (c : Bool) {init : Spec.C08.St}
    (hi : (specKeys init).Nodup) {h s}
    (r : Fine.Reach (oneStep (cacheStep cfg c) cacheMode) init h s) :
    CacheInv init.now s.absObj ∧
      (∀ p ∈ linOps h, ∃ s0, CacheInv init.now s0 ∧ p.2 = (cacheStep cfg c s0 p.1).2) ∧
      (∀ t c' op res, Ev.ret t c' op res ∈ h →
        ∃ s0, CacheInv init.now s0 ∧ res = (cacheStep cfg c s0 op).2) := by
  obtain ⟨i, g1, g2⟩ := oneStep_preserves_at (cache_observers cfg c) (CacheInv init.now) (fun _ _ => True)
    (fun s op hs => ⟨cacheStep_inv cfg c init.now s op hs, trivial⟩) (init := init) ⟨hi, rfl⟩ r
  exact ⟨i, fun p hp => (g1 p hp).imp fun _ h => ⟨h.1, h.2.2⟩,
    fun t c' op res hm => (g2 t c' op res hm).imp fun _ h => ⟨h.1, h.2.2⟩⟩

/-- **Cache, code model** `Model.Cache.call cfg now` (the Go map as an association list): from a map
with unique keys, the keys stay unique (the representation invariant of `Lemmas.C08.Inv` that the
single-element calls can touch; `Lemmas.C08.nodup_call`), in the abstract state and — when no writer
is inside — in the shared map itself. -/
theorem cacheModel_concurrent_never_panics (cfg : Cache.Cfg) (now : Int) {init : Cache.Items}
    (hi : (Lemmas.C08.keys init).Nodup) {h s}
    (r : Fine.Reach (oneStep (cacheCall cfg now) cacheMode) init h s) :
    (Lemmas.C08.keys s.absObj).Nodup ∧
      (∀ p ∈ linOps h, ∃ m0, (Lemmas.C08.keys m0).Nodup ∧ p.2 = (cacheCall cfg now m0 p.1).2) ∧
      (∀ t c op res, Ev.ret t c op res ∈ h →
        ∃ m0, (Lemmas.C08.keys m0).Nodup ∧ res = (cacheCall cfg now m0 op).2) ∧
      ((∀ i, Fine.holds (s.th i) ≠ some .w) → (Lemmas.C08.keys s.shared).Nodup) := by
  have hstep : ∀ (m : Cache.Items) (op : CacheOp), (Lemmas.C08.keys m).Nodup →
      (Lemmas.C08.keys (cacheCall cfg now m op).1).Nodup :=
    fun m op hn => Lemmas.C08.nodup_call op.toOp hn
  obtain ⟨i, g1, g2⟩ := oneStep_preserves_at (cacheModel_observers cfg now)
    (fun m => (Lemmas.C08.keys m).Nodup) (fun _ _ => True)
    (fun m op hn => ⟨hstep m op hn, trivial⟩) hi r
  exact ⟨i, fun p hp => (g1 p hp).imp fun _ h => ⟨h.1, h.2.2⟩,
    fun t c op res hm => (g2 t c op res hm).imp fun _ h => ⟨h.1, h.2.2⟩,
    oneStep_shared_inv (cacheModel_observers cfg now) (fun m => (Lemmas.C08.keys m).Nodup) hstep hi r⟩

end CacheNP

/-- hypotheses satisfiable: the empty cache, and a one-entry cache -/
example : (specKeys {}).Nodup := by simp [specKeys]
example : (specKeys { now := 0, es := [⟨1, 11, 0⟩] }).Nodup := by simp [specKeys]
example : (Lemmas.C08.keys []).Nodup := by simp

/-! ## 7. Linked queue `queue.LQueue` and linked stack `stack.LStack`: sequence level

The models `Model.LQueue.step` / `Model.LStack.step` work on the sequence held by the `list.DList`
(`Model/DSeq.lean`) and the counter `n`; their result types have NO panic outcome.  The invariants
below are the ones the models maintain: the `DList` is never empty (its head node is embedded), and
the counter is consistent with it. -/
section LinkedSeq
variable {α : Type} [Inhabited α] [DecidableEq α]

/-- `LQueue`: the list is non-empty; the counter is its length — or `0` with a single (stale) node
left, the state after `Clear` or after dequeuing the last element -/
def LQInv (s : LQueue.St α) : Prop :=
  s.list ≠ [] ∧ (s.n = s.list.length ∨ (s.n = 0 ∧ s.list.length = 1))

theorem lqueue_step_inv (s : LQueue.St α) (op : Spec.C05.Op α) (hi : LQInv s) :
    LQInv (LQueue.step s op).1 := by
  obtain ⟨l, n⟩ := s
  obtain ⟨hne, hn⟩ := hi
  simp only at hne hn
  cases op with
  | enqueue x =>
    simp only [LQueue.step]
    split
    · simp [LQInv, DSeq.init, *]
    · refine ⟨by simp [DSeq.append], Or.inl ?_⟩
      simp only [DSeq.append, List.length_append, List.length_singleton]
      omega
  | dequeue =>
    simp only [LQueue.step]
    split
    · exact ⟨hne, hn⟩
    · match l, hne with
      | [x], _ => simp [LQInv, DSeq.shift] at hn ⊢; omega
      | x :: y :: r, _ =>
        refine ⟨by simp [DSeq.shift], ?_⟩
        simp only [DSeq.shift, List.length_cons] at hn ⊢
        omega
  | peek => simp only [LQueue.step]; split <;> exact ⟨hne, hn⟩
  | search x => simp only [LQueue.step]; split <;> exact ⟨hne, hn⟩
  | size => exact ⟨hne, hn⟩
  | clear =>
    match l, hne with
    | x :: r, _ => simp [LQueue.step, LQInv, DSeq.clear]

/-- `LStack` (with the findings F12a/F12b the counter may lag behind): non-empty list, `0 ≤ n ≤ length` -/
def LSInv (s : LStack.St α) : Prop := s.list ≠ [] ∧ 0 ≤ s.n ∧ s.n ≤ s.list.length

theorem lstack_step_inv (s : LStack.St α) (op : Spec.C06.Op α) (hi : LSInv s) :
    LSInv (LStack.step s op).1 := by
  obtain ⟨l, n⟩ := s
  obtain ⟨hne, h0, hn⟩ := hi
  simp only at hne h0 hn
  cases op with
  | push x =>
    refine ⟨by simp [LStack.step, DSeq.append], ?_, ?_⟩
    · simp only [LStack.step]; omega
    · simp only [LStack.step, DSeq.append, List.length_append, List.length_singleton]; omega
  | pop =>
    simp only [LStack.step, DSeq.pop]
    by_cases hl : l.length ≤ 1
    · simp only [hl, if_true]
      refine ⟨hne, ?_, ?_⟩ <;> (simp only; split <;> omega)
    · simp only [hl, if_false]
      refine ⟨?_, ?_, ?_⟩
      · intro he
        have := congrArg List.length he
        simp only [List.length_dropLast, List.length_nil] at this
        omega
      · simp only; split <;> omega
      · simp only [List.length_dropLast]; split <;> omega
  | peek => exact ⟨hne, h0, hn⟩
  | search x => exact ⟨hne, h0, hn⟩
  | size => exact ⟨hne, h0, hn⟩

end LinkedSeq

/-! ## 8. Linked queue / linked stack: concurrent histories, down to the pointer store

Element type `Int` (the type of the pointer-level model `Model/DList.lean` of C19).
`lqueuePtrOk s0 op` / `lstackPtrOk s0 op`: on EVERY pointer store `h` that represents the sequence of
the model state `s0` (`Lemmas.C19.DList.Repr`), the `list.DList` method that the Go method of `op` calls
(in the branch the counter `s0.n` selects) returns `.ok` — no nil dereference (`panic`), no endless
pointer walk (`hang`), no dangling address (`stuck`) —, hands out the value the model answers, and
leaves a store representing the model's successor sequence (`C19.DList.dlist_realises_dseq`). -/
section LinkedPtr
open GoguVerif.Model.DList (Heap)
open GoguVerif.Lemmas.C19.DList (Repr)

def lqueuePtrOk (s0 : LQueue.St Int) (op : Spec.C05.Op Int) : Prop :=
  ∀ (h : Heap) (as : List Nat), Repr h as s0.list →
    ∃ h' as', Repr h' as' (LQueue.step s0 op).1.list ∧
      match op with
      | .enqueue x => if s0.n = 0 then h' = DList.init x else DList.append h x = .ok h'
      | .dequeue => if s0.n = 0 then h' = h
          else ∃ nd, DList.shift h = .ok (h', nd) ∧ (LQueue.step s0 op).2 = .val nd.val
      | .peek => h' = h ∧ (s0.n = 0 ∨ ∃ v, DList.first h = .ok v ∧ (LQueue.step s0 op).2 = .val v)
      | .search x => h' = h ∧
          (s0.n = 0 ∨ ∃ o, DList.find h x = .ok o ∧ (LQueue.step s0 op).2 = .bool o.isSome)
      | .size => h' = h
      | .clear => DList.clear h = .ok h'

theorem lqueue_ptr_ok (s0 : LQueue.St Int) (op : Spec.C05.Op Int) : lqueuePtrOk s0 op := by
  intro h as r
  obtain ⟨happ, hshift, _, hfirst, _, hfind, hclear⟩ := C19.DList.dlist_realises_dseq r
  cases op with
  | enqueue x =>
    by_cases hn : s0.n = 0
    · refine ⟨DList.init x, [0], ?_, by simp [hn]⟩
      simp only [LQueue.step, hn, if_true]
      exact C19.DList.dlist_init_repr x
    · obtain ⟨h', as', e, r'⟩ := happ x
      refine ⟨h', as', ?_, by simp [hn, e]⟩
      simp only [LQueue.step, hn, if_false]
      exact r'
  | dequeue =>
    by_cases hn : s0.n = 0
    · refine ⟨h, as, ?_, by simp [hn]⟩
      simp only [LQueue.step, hn, if_true]
      exact r
    · obtain ⟨h', nd, as', e, r', hv⟩ := hshift
      refine ⟨h', as', ?_, ?_⟩
      · simp only [LQueue.step, hn, if_false]
        exact r'
      · simp only [hn, if_false]
        exact ⟨nd, e, by simp only [LQueue.step, hn, if_false, hv]⟩
  | peek =>
    refine ⟨h, as, ?_, rfl, ?_⟩
    · rw [lqueue_observers .peek rfl]; exact r
    · by_cases hn : s0.n = 0
      · exact Or.inl hn
      · exact Or.inr ⟨_, hfirst, by simp only [LQueue.step, hn, if_false]⟩
  | search x =>
    refine ⟨h, as, ?_, rfl, ?_⟩
    · simp only [LQueue.step]; split <;> exact r
    · by_cases hn : s0.n = 0
      · exact Or.inl hn
      · obtain ⟨o, e, ho⟩ := hfind x
        exact Or.inr ⟨o, e, by simp only [LQueue.step, hn, if_false, ho]⟩
  | size => exact ⟨h, as, r, rfl⟩
  | clear =>
    obtain ⟨h', e, r'⟩ := hclear
    exact ⟨h', [0], r', e⟩

def lstackPtrOk (s0 : LStack.St Int) (op : Spec.C06.Op Int) : Prop :=
  ∀ (h : Heap) (as : List Nat), Repr h as s0.list →
    ∃ h' as', Repr h' as' (LStack.step s0 op).1.list ∧
      match op with
      | .push x => DList.append h x = .ok h'
      | .pop => ∃ nd, DList.pop h = .ok (h', nd) ∧ (LStack.step s0 op).2 = .val nd.val
      | .peek => h' = h ∧ ∃ v, DList.last h = .ok v ∧ (LStack.step s0 op).2 = .val v
      | .search x => h' = h ∧ ∃ o, DList.find h x = .ok o ∧ (LStack.step s0 op).2 = .bool o.isSome
      | .size => h' = h

theorem lstack_ptr_ok (s0 : LStack.St Int) (op : Spec.C06.Op Int) : lstackPtrOk s0 op := by
  intro h as r
  obtain ⟨happ, _, hpop, _, hlast, hfind, _⟩ := C19.DList.dlist_realises_dseq r
  cases op with
  | push x =>
    obtain ⟨h', as', e, r'⟩ := happ x
    exact ⟨h', as', r', e⟩
  | pop =>
    obtain ⟨h', nd, as', e, r', hv⟩ := hpop
    exact ⟨h', as', r', nd, e, by simp only [LStack.step, hv]⟩
  | peek => exact ⟨h, as, r, rfl, _, hlast, rfl⟩
  | search x =>
    obtain ⟨o, e, ho⟩ := hfind x
    exact ⟨h, as, r, rfl, o, e, by simp only [LStack.step, ho]⟩
  | size => exact ⟨h, as, r, rfl⟩

/-- every non-empty sequence is represented by some pointer store (so the quantifier "every store
representing `s0.list`" in `lqueuePtrOk` / `lstackPtrOk` ranges over a non-empty set) -/
theorem repr_exists (x : Int) (ys : List Int) : ∃ h as, Repr h as (x :: ys) := by
  have key : ∀ (ys : List Int) (h : Heap) (as : List Nat) (xs : List Int), Repr h as xs →
      ∃ h' as', Repr h' as' (xs ++ ys) := by
    intro ys
    induction ys with
    | nil => intro h as xs r; exact ⟨h, as, by simpa using r⟩
    | cons y ys ih =>
      intro h as xs r
      obtain ⟨h1, as1, _, r1⟩ := (C19.DList.dlist_realises_dseq r).1 y
      obtain ⟨h2, as2, r2⟩ := ih h1 as1 _ r1
      exact ⟨h2, as2, by simpa [DSeq.append, List.append_assoc] using r2⟩
  obtain ⟨h, as, r⟩ := key ys _ _ _ (C19.DList.dlist_init_repr x)
  exact ⟨h, as, by simpa using r⟩

/-- **Linked queue.**  Goroutines calling `Enqueue`/`Dequeue`/`Peek`/`Search`/`Size`/`Clear`
concurrently on an `LQueue` whose state satisfies `LQInv` (e.g. `NewLinked(t)`): the abstract state
satisfies `LQInv` again, and every linearized / returned answer was computed in a state `s0` with
`LQInv` in which the underlying `DList` calls do not fault on any store representing `s0.list`, hand
out the answered value and leave a store representing the successor.  (Since this holds for EVERY
representing store, it holds in particular for the store threaded through the history from any store
representing `init.list`.) -/
theorem lqueue_concurrent_never_panics {init : LQueue.St Int} (hi : LQInv init) {h s}
    (r : Fine.Reach (oneStep LQueue.step (lqueueMode (α := Int))) init h s) :
    LQInv s.absObj ∧
      (∀ p ∈ linOps h, ∃ s0, LQInv s0 ∧ lqueuePtrOk s0 p.1 ∧ p.2 = (LQueue.step s0 p.1).2) ∧
      (∀ t c op res, Ev.ret t c op res ∈ h →
        ∃ s0, LQInv s0 ∧ lqueuePtrOk s0 op ∧ res = (LQueue.step s0 op).2) :=
  oneStep_preserves_at lqueue_observers LQInv lqueuePtrOk
    (fun s op hs => ⟨lqueue_step_inv s op hs, lqueue_ptr_ok s op⟩) hi r

/-- **Linked stack.**  As `lqueue_concurrent_never_panics`, for `Push`/`Pop`/`Peek`/`Search`/`Size` and
the invariant `LSInv` (the answers are those of the model, i.e. with the sequential findings
F12a/F12b; no fault at the pointer level). -/
theorem lstack_concurrent_never_panics {init : LStack.St Int} (hi : LSInv init) {h s}
    (r : Fine.Reach (oneStep LStack.step (stackMode (α := Int))) init h s) :
    LSInv s.absObj ∧
      (∀ p ∈ linOps h, ∃ s0, LSInv s0 ∧ lstackPtrOk s0 p.1 ∧ p.2 = (LStack.step s0 p.1).2) ∧
      (∀ t c op res, Ev.ret t c op res ∈ h →
        ∃ s0, LSInv s0 ∧ lstackPtrOk s0 op ∧ res = (LStack.step s0 op).2) :=
  oneStep_preserves_at lstack_observers LSInv lstackPtrOk
    (fun s op hs => ⟨lstack_step_inv s op hs, lstack_ptr_ok s op⟩) hi r

end LinkedPtr

/-- the sequence-level part for every element type: the invariant along concurrent histories, in the
abstract state and — when no writer is inside — in the shared state -/
theorem lqueue_concurrent_inv {α : Type} [Inhabited α] [DecidableEq α] {init : LQueue.St α}
    (hi : LQInv init) {h s} (r : Fine.Reach (oneStep LQueue.step lqueueMode) init h s) :
    LQInv s.absObj ∧ ((∀ i, Fine.holds (s.th i) ≠ some .w) → LQInv s.shared) :=
  ⟨(oneStep_preserves lqueue_observers LQInv (fun _ _ => True)
      (fun s op hs => ⟨lqueue_step_inv s op hs, trivial⟩) hi r).1,
   oneStep_shared_inv lqueue_observers LQInv lqueue_step_inv hi r⟩

theorem lstack_concurrent_inv {α : Type} [Inhabited α] [DecidableEq α] {init : LStack.St α}
    (hi : LSInv init) {h s} (r : Fine.Reach (oneStep LStack.step stackMode) init h s) :
    LSInv s.absObj ∧ ((∀ i, Fine.holds (s.th i) ≠ some .w) → LSInv s.shared) :=
  ⟨(oneStep_preserves lstack_observers LSInv (fun _ _ => True)
      (fun s op hs => ⟨lstack_step_inv s op hs, trivial⟩) hi r).1,
   oneStep_shared_inv lstack_observers LSInv lstack_step_inv hi r⟩

/-- hypotheses satisfiable: `NewLinked(1)`, and the state after `Clear` (counter 0, one stale node) -/
example : LQInv (LQueue.new (1 : Int)) := by simp [LQInv, LQueue.new, DSeq.init]
example : LQInv (LQueue.step (LQueue.new (1 : Int)) .clear).1 := lqueue_step_inv _ _ (by simp [LQInv, LQueue.new, DSeq.init])
example : LSInv (LStack.new (1 : Int)) := by simp [LSInv, LStack.new, DSeq.init]
/-- `NewLinked(1)`'s sequence is represented by the store `InitDList(1)` builds -/
example : Lemmas.C19.DList.Repr (DList.init 1) [0] (LQueue.new (1 : Int)).list := C19.DList.dlist_init_repr 1

end GoguVerif.Theorems.C01NoPanic
