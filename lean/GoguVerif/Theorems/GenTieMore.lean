import GoguVerif.Theorems.GenTie
/-!
# The regenerated tie, continued: Duplicate, Zip, Unzip

Same statement forms as `Theorems/GenTie.lean`: the definition the translator regenerates from the Go
source equals the hand-written model, for ALL inputs, with no hypothesis.

* `Duplicate`: the Go `map[T]int` `keyCount` is an association list in both the regenerated definition
  (`mapHas`/`mapGet`/`mapSet`, counts in `Int`) and the model (`hasKey`/`incrKey`, counts in `Nat`).  The
  proofs carry the representation invariant "the regenerated association list is the model's list with
  the counts cast to `Int`" (`castKC`).
* `Zip` / `Unzip`: the regenerated definition panics (`Except.error Exc.panic`) exactly where the model
  yields `Outcome.panic` (the explicit `panic(...)` calls on non-square input and every index
  expression).  Both are loops over indices, and are tied loop by loop, iteration by iteration, for an
  arbitrary current `result` — so no invariant on the shape of `result` is needed.
-/
namespace GoguVerif.Theorems.GenTieMore
open GoguVerif
open GoguVerif.Theorems.GenTie
open GoguVerif.Gen.Funcs (Res Exc goIdx goSet mapHas mapSet mapGet)

/-! ## Duplicate -/

/-- the model's `keyCount` (counts in `Nat`) as the regenerated code's `keyCount` (counts in `Int`) -/
def castKC (m : List (Int × Nat)) : List (Int × Int) := m.map (fun e => (e.1, (e.2 : Int)))

theorem castKC_nil : castKC [] = [] := rfl

theorem castKC_cons (e : Int × Nat) (m : List (Int × Nat)) :
    castKC (e :: m) = (e.1, (e.2 : Int)) :: castKC m := rfl

theorem castKC_append (m1 m2 : List (Int × Nat)) : castKC (m1 ++ m2) = castKC m1 ++ castKC m2 := by
  simp only [castKC, List.map_append]

theorem mapHas_castKC (m : List (Int × Nat)) (k : Int) : mapHas (castKC m) k = Model.C11.hasKey k m := by
  induction m with
  | nil => rfl
  | cons e r ih =>
    obtain ⟨k', c⟩ := e
    simp only [castKC_cons, mapHas, Model.C11.hasKey, ih]

theorem mapSet_incr_castKC (m : List (Int × Nat)) (k : Int) (h : mapHas (castKC m) k = true) :
    mapSet (castKC m) k (mapGet (castKC m) k (0 : Int) + (1 : Int)) = castKC (Model.C11.incrKey k m) := by
  induction m with
  | nil => simp [castKC_nil, mapHas] at h
  | cons e r ih =>
    obtain ⟨k', c⟩ := e
    simp only [castKC_cons, mapHas] at h
    simp only [castKC_cons, mapSet, mapGet, Model.C11.incrKey]
    by_cases he : k' = k
    · subst he
      simp only [if_true, castKC_cons, Int.natCast_add, Int.natCast_one]
    · simp only [he, if_false] at h
      simp only [he, if_false, castKC_cons, ih h]

theorem duplicate_loop1 (s0 s : List Int) (i : Int) (m : List (Int × Nat)) :
    Gen.Funcs.Duplicate.loop1 s0 s i (castKC m) = castKC (Model.C11.dupCountLoop m s) := by
  induction s generalizing i m with
  | nil => rfl
  | cons v r ih =>
    simp only [Gen.Funcs.Duplicate.loop1, Model.C11.dupCountLoop]
    cases hh : mapHas (castKC m) v
    · have hk : Model.C11.hasKey v m = false := by rw [← mapHas_castKC]; exact hh
      simp only [Bool.not_false, if_true, hk, Bool.false_eq_true, if_false]
      rw [mapSet_fresh _ _ _ hh]
      have := ih (i + 1) (m ++ [(v, 1)])
      rw [castKC_append] at this
      exact this
    · have hk : Model.C11.hasKey v m = true := by rw [← mapHas_castKC]; exact hh
      simp only [Bool.not_true, Bool.false_eq_true, if_false, hk, if_true]
      rw [mapSet_incr_castKC m v hh]
      exact ih (i + 1) _

theorem duplicate_loop2 (s0 : List Int) (m : List (Int × Nat)) (res : List Int) :
    Gen.Funcs.Duplicate.loop2 s0 (castKC m) res = res ++ Model.C11.dupCollect m := by
  induction m generalizing res with
  | nil => simp [castKC_nil, Gen.Funcs.Duplicate.loop2, Model.C11.dupCollect]
  | cons e r ih =>
    obtain ⟨k, c⟩ := e
    have hc : ((c : Int) > 1) ↔ (c > 1) := by omega
    simp only [castKC_cons, Gen.Funcs.Duplicate.loop2, Model.C11.dupCollect, hc]
    by_cases h : c > 1
    · simp only [h, decide_true, if_true, ih, List.append_assoc, List.singleton_append]
    · simp only [h, decide_false, Bool.false_eq_true, if_false, ih]

theorem duplicate_tie (s : List Int) : Gen.Funcs.Duplicate s = Model.C11.duplicate s := by
  have h1 := duplicate_loop1 s s 0 []
  rw [castKC_nil] at h1
  simp only [Gen.Funcs.Duplicate, Model.C11.duplicate, h1, duplicate_loop2, List.nil_append]

/-! ## Zip / Unzip -/

theorem int_default : (default : Int) = 0 := rfl

theorem firstLen_toNat (n : Nat) : ((n : Int) - (0 : Int)).toNat = n := by omega

theorem zip_loop1 (slices : List (List Int)) (sl : Nat) (rest : List (List Int)) (idx : Nat) (result : List (List Int)) :
    Gen.Funcs.Zip.loop1 slices (sl : Int) rest (idx : Int) result
      = ofC12 (Model.C12.rowsLoop sl rest idx result) := by
  induction rest generalizing idx result with
  | nil => rfl
  | cons x r ih =>
    have hne : ((sl : Int) ≠ (x.length : Int)) ↔ (sl ≠ x.length) := by omega
    simp only [Gen.Funcs.Zip.loop1, Model.C12.rowsLoop, goSet_nat, hne, int_default]
    by_cases h1 : sl = x.length
    · subst h1
      simp only [ne_eq, not_true_eq_false, decide_false, Bool.false_eq_true, if_false]
      by_cases h2 : idx < result.length
      · simp only [h2, if_true]
        have := ih (idx + 1) (result.set idx (List.replicate x.length 0))
        simpa using this
      · simp only [h2, if_false]; rfl
    · simp only [ne_eq, h1, not_false_eq_true, decide_true, if_true]; rfl

theorem zip_loop3 (slices : List (List Int)) (x : Nat) (rest : List (List Int)) (i : Nat) (result : List (List Int)) :
    Gen.Funcs.Zip.loop3 slices (x : Int) rest (i : Int) result
      = ofC12 (Model.C12.cellLoop false slices x rest.length i result) := by
  induction rest generalizing i result with
  | nil => rfl
  | cons y r ih =>
    simp only [Gen.Funcs.Zip.loop3, Model.C12.cellLoop, Model.C12.get2, Model.C12.set2, goIdx_nat, goSet_nat,
      List.length_cons, Bool.false_eq_true, if_false]
    cases h1 : slices[x]? with
    | none => rfl
    | some row =>
      simp only []
      cases h2 : row[i]? with
      | none => rfl
      | some v =>
        simp only []
        cases h3 : result[i]? with
        | none => rfl
        | some rrow =>
          simp only []
          by_cases h4 : x < rrow.length
          · have h5 : i < result.length := (List.getElem?_eq_some_iff.mp h3).1
            simp only [h4, h5, if_true]
            have := ih (i + 1) (result.set i (rrow.set x v))
            simpa using this
          · simp only [h4, if_false]; rfl

theorem zip_loop2 (slices : List (List Int)) (n x : Nat) (result : List (List Int)) :
    Gen.Funcs.Zip.loop2 slices n (x : Int) result = ofC12 (Model.C12.colLoop false slices n x result) := by
  induction n generalizing x result with
  | zero => rfl
  | succ n ih =>
    have h3 := zip_loop3 slices x slices 0 result
    simp only [Int.natCast_zero] at h3
    simp only [Gen.Funcs.Zip.loop2, Model.C12.colLoop, h3]
    cases Model.C12.cellLoop false slices x slices.length 0 result with
    | panic => rfl
    | ok result' =>
      have := ih (x + 1) result'
      simpa [ofC12] using this

/-- what follows `var sliceLen int; if len(slices) > 0 { sliceLen = len(slices[0]) }` (`n` = `sliceLen`) -/
theorem zip_body (slices : List (List Int)) (n : Nat) (hn : Model.C12.firstLen slices = n) :
    (if decide ((n : Int) ≠ (slices.length : Int)) then (Except.error Exc.panic : Res (List (List Int)))
      else (match Gen.Funcs.Zip.loop1 slices (n : Int) slices 0 (List.replicate slices.length []) with
        | Except.error e_ => Except.error e_
        | Except.ok result =>
          (match Gen.Funcs.Zip.loop2 slices ((n : Int) - (0 : Int)).toNat (0 : Int) result with
          | Except.error e_ => Except.error e_
          | Except.ok result => Except.ok result)))
      = ofC12 (Model.C12.zipWith false slices) := by
  subst hn
  have hne : (((Model.C12.firstLen slices : Nat) : Int) ≠ (slices.length : Int))
      ↔ (Model.C12.firstLen slices ≠ slices.length) := by omega
  have h1 := zip_loop1 slices (Model.C12.firstLen slices) slices 0 (List.replicate slices.length [])
  have h2 := fun result => zip_loop2 slices (Model.C12.firstLen slices) 0 result
  simp only [Int.natCast_zero] at h1 h2
  simp only [Model.C12.zipWith, hne, firstLen_toNat, h1, h2]
  by_cases h : Model.C12.firstLen slices = slices.length
  · simp only [h, ne_eq, not_true_eq_false, decide_false, Bool.false_eq_true, if_false]
    cases Model.C12.rowsLoop slices.length slices 0 (List.replicate slices.length []) with
    | panic => rfl
    | ok result =>
      simp only [ofC12]
      cases Model.C12.colLoop false slices slices.length 0 result <;> rfl
  · simp only [ne_eq, h, not_false_eq_true, decide_true, if_true]; rfl

theorem zip_tie (slices : List (List Int)) : Gen.Funcs.Zip slices = ofC12 (Model.C12.zip slices) := by
  cases slices with
  | nil => exact zip_body [] 0 rfl
  | cons s0 r => exact zip_body (s0 :: r) s0.length rfl

/-! ### Unzip

The translator turns `for i := 0; i < len(slices); i++` into a recursion over the list `slices` and the
expression `slices[i]` into the current element of that list (`slices_i`); the model indexes `slices` with
`i` (`get2 slices i x`).  The loop lemma therefore carries "the rest of the range is `slices.drop i`", which
gives `slices[i]? = some slices_i` at every iteration. -/

theorem drop_cons_step {α : Type} (l : List α) (i : Nat) (y : α) (r : List α) (h : l.drop i = y :: r) :
    l[i]? = some y ∧ l.drop (i + 1) = r := by
  induction l generalizing i with
  | nil => simp at h
  | cons a t ih =>
    cases i with
    | zero =>
      simp only [List.drop_zero, List.cons.injEq] at h
      simp [h.1, h.2]
    | succ j =>
      have := ih j (by simpa using h)
      simpa using this

theorem unzip_loop1 (slices : List (List Int)) (sl : Nat) (rest : List (List Int)) (idx : Nat) (result : List (List Int)) :
    Gen.Funcs.Unzip.loop1 slices (sl : Int) rest (idx : Int) result
      = ofC12 (Model.C12.rowsLoop sl rest idx result) := by
  induction rest generalizing idx result with
  | nil => rfl
  | cons x r ih =>
    have hne : ((sl : Int) ≠ (x.length : Int)) ↔ (sl ≠ x.length) := by omega
    simp only [Gen.Funcs.Unzip.loop1, Model.C12.rowsLoop, goSet_nat, hne, int_default]
    by_cases h1 : sl = x.length
    · subst h1
      simp only [ne_eq, not_true_eq_false, decide_false, Bool.false_eq_true, if_false]
      by_cases h2 : idx < result.length
      · simp only [h2, if_true]
        have := ih (idx + 1) (result.set idx (List.replicate x.length 0))
        simpa using this
      · simp only [h2, if_false]; rfl
    · simp only [ne_eq, h1, not_false_eq_true, decide_true, if_true]; rfl

theorem unzip_loop3 (slices : List (List Int)) (x : Nat) (rest : List (List Int)) (i : Nat) (result : List (List Int))
    (hrest : slices.drop i = rest) :
    Gen.Funcs.Unzip.loop3 slices (x : Int) rest (i : Int) result
      = ofC12 (Model.C12.cellLoop true slices x rest.length i result) := by
  induction rest generalizing i result with
  | nil => rfl
  | cons y r ih =>
    obtain ⟨h1, hr⟩ := drop_cons_step slices i y r hrest
    simp only [Gen.Funcs.Unzip.loop3, Model.C12.cellLoop, Model.C12.get2, Model.C12.set2, goIdx_nat, goSet_nat,
      List.length_cons, if_true, h1]
    cases h2 : y[x]? with
    | none => rfl
    | some v =>
      simp only []
      cases h3 : result[x]? with
      | none => rfl
      | some rrow =>
        simp only []
        by_cases h4 : i < rrow.length
        · have h5 : x < result.length := (List.getElem?_eq_some_iff.mp h3).1
          simp only [h4, h5, if_true]
          have := ih (i + 1) (result.set x (rrow.set i v)) hr
          simpa using this
        · simp only [h4, if_false]; rfl

theorem unzip_loop2 (slices : List (List Int)) (n x : Nat) (result : List (List Int)) :
    Gen.Funcs.Unzip.loop2 slices n (x : Int) result = ofC12 (Model.C12.colLoop true slices n x result) := by
  induction n generalizing x result with
  | zero => rfl
  | succ n ih =>
    have h3 := unzip_loop3 slices x slices 0 result rfl
    simp only [Int.natCast_zero] at h3
    simp only [Gen.Funcs.Unzip.loop2, Model.C12.colLoop, h3]
    cases Model.C12.cellLoop true slices x slices.length 0 result with
    | panic => rfl
    | ok result' =>
      have := ih (x + 1) result'
      simpa [ofC12] using this

theorem unzip_body (slices : List (List Int)) (n : Nat) (hn : Model.C12.firstLen slices = n) :
    (if decide ((n : Int) ≠ (slices.length : Int)) then (Except.error Exc.panic : Res (List (List Int)))
      else (match Gen.Funcs.Unzip.loop1 slices (n : Int) slices 0 (List.replicate slices.length []) with
        | Except.error e_ => Except.error e_
        | Except.ok result =>
          (match Gen.Funcs.Unzip.loop2 slices ((n : Int) - (0 : Int)).toNat (0 : Int) result with
          | Except.error e_ => Except.error e_
          | Except.ok result => Except.ok result)))
      = ofC12 (Model.C12.zipWith true slices) := by
  subst hn
  have hne : (((Model.C12.firstLen slices : Nat) : Int) ≠ (slices.length : Int))
      ↔ (Model.C12.firstLen slices ≠ slices.length) := by omega
  have h1 := unzip_loop1 slices (Model.C12.firstLen slices) slices 0 (List.replicate slices.length [])
  have h2 := fun result => unzip_loop2 slices (Model.C12.firstLen slices) 0 result
  simp only [Int.natCast_zero] at h1 h2
  simp only [Model.C12.zipWith, hne, firstLen_toNat, h1, h2]
  by_cases h : Model.C12.firstLen slices = slices.length
  · simp only [h, ne_eq, not_true_eq_false, decide_false, Bool.false_eq_true, if_false]
    cases Model.C12.rowsLoop slices.length slices 0 (List.replicate slices.length []) with
    | panic => rfl
    | ok result =>
      simp only [ofC12]
      cases Model.C12.colLoop true slices slices.length 0 result <;> rfl
  · simp only [ne_eq, h, not_false_eq_true, decide_true, if_true]; rfl

theorem unzip_tie (slices : List (List Int)) : Gen.Funcs.Unzip slices = ofC12 (Model.C12.unzip slices) := by
  cases slices with
  | nil => exact unzip_body [] 0 rfl
  | cons s0 r => exact unzip_body (s0 :: r) s0.length rfl

/-! concrete instances: the regenerated definitions compute the expected answers (non-vacuity of the ties) -/
example : Gen.Funcs.Duplicate [3, 1, 3, 2, 1, 3] = [3, 1] := by rfl
example : Gen.Funcs.Zip [[1, 2], [3, 4]] = .ok [[1, 3], [2, 4]] := by rfl
example : Gen.Funcs.Unzip [[1, 2], [3, 4]] = .ok [[1, 3], [2, 4]] := by rfl
example : Gen.Funcs.Zip [[1, 2, 3], [4, 5, 6]] = .error .panic := by rfl
example : Gen.Funcs.Unzip [[1, 2], [3]] = .error .panic := by rfl
example : Gen.Funcs.Zip [] = .ok [] := by rfl

/-! ## find.go: the by-key extrema over slices of maps (C13) -/

theorem c13_mapHas (m : List (Int × Int)) (k : Int) :
    Gen.Funcs.mapHas m k = (Model.C13.mapGet k m).isSome := by
  induction m with
  | nil => rfl
  | cons e r ih =>
    obtain ⟨a, b⟩ := e
    simp only [Gen.Funcs.mapHas, Model.C13.mapGet]
    by_cases h : a = k <;> simp [h, ih]

theorem c13_mapGet (m : List (Int × Int)) (k : Int) :
    Gen.Funcs.mapGet m k 0 = (Model.C13.mapGet k m).getD 0 := by
  induction m with
  | nil => rfl
  | cons e r ih =>
    obtain ⟨a, b⟩ := e
    simp only [Gen.Funcs.mapGet, Model.C13.mapGet]
    by_cases h : a = k <;> simp [h, ih]

theorem c13_findByKey_loop (m0 : List (Int × Int)) (fn : Int → Bool) (m : List (Int × Int)) :
    (match Gen.Funcs.FindByKey.loop1 m0 fn m [] with | Sum.inl s => s | Sum.inr s => s) = Model.C13.FindByKey fn m := by
  induction m with
  | nil => rfl
  | cons e r ih =>
    obtain ⟨k, v⟩ := e
    simp only [Gen.Funcs.FindByKey.loop1, Model.C13.FindByKey]
    by_cases h : fn k = true
    · simp [h, Gen.Funcs.mapSet]
    · simp only [h, Bool.false_eq_true, if_false]; exact ih

theorem c13_findByKey (m : List (Int × Int)) (fn : Int → Bool) :
    Gen.Funcs.FindByKey m fn = Model.C13.FindByKey fn m := by
  simp only [Gen.Funcs.FindByKey]
  exact c13_findByKey_loop m fn m

theorem findMinByKey_loop (s0 : List (List (Int × Int))) (key : Int) (s : List (List (Int × Int))) (i : Int)
    (found : Bool) (mn : Int) :
    Gen.Funcs.FindMinByKey.loop1 s0 key s i (found, mn) = Model.C13.minByKeyLoop key s found mn := by
  induction s generalizing i found mn with
  | nil => rfl
  | cons m r ih =>
    simp only [Gen.Funcs.FindMinByKey.loop1, Model.C13.minByKeyLoop, c13_findByKey, c13_mapHas, c13_mapGet]
    have hfn : (fun k : Int => decide (k = key)) = (fun k => k == key) := by
      funext k; by_cases hk : k = key <;> simp [hk]
    rw [hfn]
    cases h : Model.C13.mapGet key (Model.C13.FindByKey (fun k => k == key) m) with
    | none => simp [ih]
    | some v =>
      simp only [Option.isSome_some, if_true, Option.getD_some]
      by_cases hc : (!found || decide (v < mn)) = true <;> simp [hc, ih]

theorem findMaxByKey_loop (s0 : List (List (Int × Int))) (key : Int) (s : List (List (Int × Int))) (i : Int)
    (found : Bool) (mx : Int) :
    Gen.Funcs.FindMaxByKey.loop1 s0 key s i (found, mx) = Model.C13.maxByKeyLoop key s found mx := by
  induction s generalizing i found mx with
  | nil => rfl
  | cons m r ih =>
    simp only [Gen.Funcs.FindMaxByKey.loop1, Model.C13.maxByKeyLoop, c13_findByKey, c13_mapHas, c13_mapGet]
    have hfn : (fun k : Int => decide (k = key)) = (fun k => k == key) := by
      funext k; by_cases hk : k = key <;> simp [hk]
    rw [hfn]
    cases h : Model.C13.mapGet key (Model.C13.FindByKey (fun k => k == key) m) with
    | none => simp [ih]
    | some v =>
      simp only [Option.isSome_some, if_true, Option.getD_some]
      by_cases hc : (!found || decide (v > mx)) = true <;> simp [hc, ih]

/-- the model answers `(isErr, value)`; the regenerated function answers `Exc.err` or the value -/
def ofErrPair : Bool × Int → Res Int
  | (true, _) => Except.error Exc.err
  | (false, v) => Except.ok v

theorem findMinByKey_tie (s : List (List (Int × Int))) (key : Int) :
    Gen.Funcs.FindMinByKey s key = ofErrPair (Model.C13.FindMinByKey s key) := by
  cases s with
  | nil => rfl
  | cons m0 r =>
    simp only [Gen.Funcs.FindMinByKey, Model.C13.FindMinByKey, findMinByKey_loop]
    cases h : Model.C13.minByKeyLoop key (m0 :: r) false 0 with
    | mk f v => cases f <;> simp [ofErrPair]

theorem findMaxByKey_tie (s : List (List (Int × Int))) (key : Int) :
    Gen.Funcs.FindMaxByKey s key = ofErrPair (Model.C13.FindMaxByKey s key) := by
  cases s with
  | nil => rfl
  | cons m0 r =>
    simp only [Gen.Funcs.FindMaxByKey, Model.C13.FindMaxByKey, findMaxByKey_loop]
    cases h : Model.C13.maxByKeyLoop key (m0 :: r) false 0 with
    | mk f v => cases f <;> simp [ofErrPair]

/-- `ToSlice(args...)`: `make([]T, 0, len(args))` then `append(slice, args...)` = the arguments -/
theorem toSlice_tie (args : List Int) : Gen.Funcs.ToSlice args = args := by
  simp [Gen.Funcs.ToSlice]

example : Gen.Funcs.FindMinByKey [[(1, 5), (2, 9)], [(2, 3)], [(1, 4)]] 2 = Except.ok 3 := by rfl
example : Gen.Funcs.FindMinByKey [[(1, 5)], [(2, 3)]] 2 = Except.ok 3 := by rfl   -- the first map lacks the key (F44)
example : Gen.Funcs.FindMinByKey [[(1, 5)], [(3, 3)]] 2 = Except.error Exc.err := by rfl

end GoguVerif.Theorems.GenTieMore
