import GoguVerif.Lemmas.C16Helpers2
import GoguVerif.Theorems.C16Helpers
/-!
# C16 — store-level refinement of concrete helpers, second batch

`Theorems/C16Helpers.lean` closes, for 17 helpers, the gap between the frame theorem for every program of
the builder discipline (`Theorems/C16.lean`) and the effect table's claim that a given helper IS such a
program.  Here the same is done for the helpers written over the slice store in
`Model/StoreHelpers2.lean`: `DifferenceBy`, `Duplicate`, `IntersectionBy`, `Zip`, `Unzip`.  For each, for
ALL stores, all well-formed argument headers (any offset, any spare capacity, any other slice sharing the
array, arguments sharing an array with each other) and all callbacks:

1. **value refinement** (`<h>_refines`) — the elements of the returned header(s) in the new store are the
   answer of the value-level model (`Model/C11.lean`, for `Zip`/`Unzip` `Model/C12.lean`), whose correctness
   is C11's / C12's theorem;
2. **frame** — `Frame σ σ'`: every array that existed before the call is unchanged in every cell, spare
   capacity included; the result is a well-formed header into storage that did not exist before (`Zip`,
   `Unzip`: every row is, and different rows lie in different arrays);
3. **discipline** (`<h>_disciplined`) — the store function equals `run` of an explicit program of `Instr`s
   (`make` + one `append` per element of the answer; `Zip`/`Unzip`: one `make` per argument + one indexed
   write per cell through the register of a row the program made), so `Theorems.C16.run_frame` applies.

`Duplicate` ranges over a local Go map in its second loop; the order is a parameter of the model
(`duplicateStoreIn`), and 1.–3. are proved for EVERY order (`duplicate_any_order`,
`duplicate_any_order_disciplined`); `duplicate_refines` is the instance "insertion order", which is the order
of `Model.C11.duplicate`.

`Zip`/`Unzip`: the store-level model is shown to SIMULATE the value-level model `Model.C12.zipWith` step by
step for every argument list, panics included (`zipWith_simulates`: one panics iff the other does — the two
deliberate `panic(…)`s and every index panic); on `n` arguments of `n` elements C12's theorem then gives that
no panic is reached and the answer is the transpose (`zip_refines`, `unzip_refines`); otherwise both panic
(`zip_panics`, `unzip_panics`).

Assumed, as in `Theorems/C16Helpers.lean`: element type `Int`, callbacks are pure Lean functions, `WF` for
the argument headers, the growth policy of `Store.append`, and that `Model/StoreHelpers2.lean` mirrors the
Go statements (read off the source, not regenerated); for `Zip`/`Unzip` that the outer `[][]T` arrays (the
variadic parameter, the result) are not `[]T` storage (they are Lean lists of headers).
-/
namespace GoguVerif.Theorems.C16Helpers2
open GoguVerif Model.Store Model.StoreHelpers Model.StoreHelpers2 Lemmas.C16Helpers Lemmas.C16Helpers2
open Theorems.C16 Theorems.C16Helpers

/-! ## DifferenceBy -/

theorem differenceByStore_eq (σ : Store) (s1 s2 : Slice) (fn : Int → Int) (h : WF σ s1) (h2 : WF σ s2) :
    differenceByStore σ s1 s2 fn =
      some (appendEach (alloc σ 0 0).1 (alloc σ 0 0).2 (Model.C11.differenceBy (elems σ s1) (elems σ s2) fn)) := by
  unfold differenceByStore
  rw [differenceByLoop_eq fn h h2 s1.len 0 [] _ _ (Inv.alloc σ 0 0) (by omega), List.drop_zero]; rfl

/-- **DifferenceBy**: value refinement, frame (both arguments), fresh result. -/
theorem differenceBy_refines (σ : Store) (s1 s2 : Slice) (fn : Int → Int) (h : WF σ s1) (h2 : WF σ s2) :
    ∃ σ' res, differenceByStore σ s1 s2 fn = some (σ', res) ∧
      elems σ' res = Model.C11.differenceBy (elems σ s1) (elems σ s2) fn ∧
      Frame σ σ' ∧ σ.length ≤ res.arr ∧ WF σ' res := by
  obtain ⟨g1, g2, g3, g4⟩ := builder_post σ 0 0 (Model.C11.differenceBy (elems σ s1) (elems σ s2) fn)
  exact ⟨_, _, differenceByStore_eq σ s1 s2 fn h h2, by rw [g1]; rfl, g2, g3, g4⟩

/-- **DifferenceBy obeys the discipline**: it is `run` of `make` + one `append` per kept element. -/
theorem differenceBy_disciplined (σ : Store) (regs : List Slice) (s1 s2 : Slice) (fn : Int → Int) (h : WF σ s1)
    (h2 : WF σ s2) :
    ∃ σ' res, differenceByStore σ s1 s2 fn = some (σ', res) ∧
      run σ.length { σ := σ, regs := regs }
        (Instr.alloc 0 0 ::
          (Model.C11.differenceBy (elems σ s1) (elems σ s2) fn).map (Instr.append regs.length)) =
        { σ := σ', regs := regs ++ [res] } :=
  ⟨_, _, differenceByStore_eq σ s1 s2 fn h h2, run_alloc_appends σ regs 0 0 _⟩

/-- `arg0 = [1,2,3,4]` minus `arg1 = [2,9]`: compared by parity nothing is left (`1`, `3` are odd as `9`; `2`,
`4` even as `2`); compared by `x / 3`, `1` and `2` go (image `0`, as `2`) and `3`, `4` (image `1`) are kept -/
example : differenceByStore σx arg0 arg1 (fun x => x % 2) =
      some (σx ++ [[]], { arr := 2, off := 0, len := 0, cap := 0 }) ∧
    differenceByStore σx arg0 arg1 (fun x => x / 3) =
      some (σx ++ [[], [3], [3, 4, 0]], { arr := 4, off := 0, len := 2, cap := 3 }) := by decide

/-! ## Duplicate -/

theorem duplicateStoreIn_eq (order : List (Int × Nat) → List (Int × Nat)) (σ : Store) (arg : Slice)
    (h : WF σ arg) :
    duplicateStoreIn order σ arg =
      some (appendEach (alloc σ 0 arg.len).1 (alloc σ 0 arg.len).2
        (Model.C11.dupCollect (order (Model.C11.dupCountLoop [] (elems σ arg))))) := by
  have hinv := Inv.alloc σ 0 arg.len
  unfold duplicateStoreIn
  simp only
  rw [dupCountLoop_eq (hinv.arg h).2.1 arg.len 0 [] (by omega), List.drop_zero, (hinv.arg h).2.2]
  simp only [dupCollectLoop_eq]

/-- **Duplicate, every iteration order of the local map**: the result shows the value-level collecting loop
applied to the counted entries in that order; frame; fresh result. -/
theorem duplicate_any_order (order : List (Int × Nat) → List (Int × Nat)) (σ : Store) (arg : Slice)
    (h : WF σ arg) :
    ∃ σ' res, duplicateStoreIn order σ arg = some (σ', res) ∧
      elems σ' res = Model.C11.dupCollect (order (Model.C11.dupCountLoop [] (elems σ arg))) ∧
      Frame σ σ' ∧ σ.length ≤ res.arr ∧ WF σ' res := by
  obtain ⟨g1, g2, g3, g4⟩ := builder_post σ 0 arg.len
    (Model.C11.dupCollect (order (Model.C11.dupCountLoop [] (elems σ arg))))
  exact ⟨_, _, duplicateStoreIn_eq order σ arg h, by rw [g1]; rfl, g2, g3, g4⟩

theorem duplicate_any_order_disciplined (order : List (Int × Nat) → List (Int × Nat)) (σ : Store)
    (regs : List Slice) (arg : Slice) (h : WF σ arg) :
    ∃ σ' res, duplicateStoreIn order σ arg = some (σ', res) ∧
      run σ.length { σ := σ, regs := regs }
        (Instr.alloc 0 arg.len ::
          (Model.C11.dupCollect (order (Model.C11.dupCountLoop [] (elems σ arg)))).map
            (Instr.append regs.length)) =
        { σ := σ', regs := regs ++ [res] } :=
  ⟨_, _, duplicateStoreIn_eq order σ arg h, run_alloc_appends σ regs 0 arg.len _⟩

/-- **Duplicate** (the local map iterated in insertion order): value refinement, frame, fresh result. -/
theorem duplicate_refines (σ : Store) (arg : Slice) (h : WF σ arg) :
    ∃ σ' res, duplicateStore σ arg = some (σ', res) ∧
      elems σ' res = Model.C11.duplicate (elems σ arg) ∧
      Frame σ σ' ∧ σ.length ≤ res.arr ∧ WF σ' res :=
  duplicate_any_order id σ arg h

/-- **Duplicate obeys the discipline**: `make([]T, 0, len(slice))` + one `append` per duplicated value. -/
theorem duplicate_disciplined (σ : Store) (regs : List Slice) (arg : Slice) (h : WF σ arg) :
    ∃ σ' res, duplicateStore σ arg = some (σ', res) ∧
      run σ.length { σ := σ, regs := regs }
        (Instr.alloc 0 arg.len :: (Model.C11.duplicate (elems σ arg)).map (Instr.append regs.length)) =
        { σ := σ', regs := regs ++ [res] } :=
  duplicate_any_order_disciplined id σ regs arg h

/-- a store for `Duplicate`: the argument `[3, 1, 3, 1, 3, 2]` at offset 1, two sentinel cells of spare
capacity behind it, a foreign cell in front -/
def σd : Store := [[-555, 3, 1, 3, 1, 3, 2, -777, -777]]
def argd : Slice := { arr := 0, off := 1, len := 6, cap := 8 }

theorem wf_argd : WF σd argd := ⟨by decide, _, rfl, by decide⟩

example : duplicateStore σd argd = some (σd ++ [[3, 1, 0, 0, 0, 0]], { arr := 1, off := 0, len := 2, cap := 6 }) ∧
    duplicateStoreIn List.reverse σd argd =
      some (σd ++ [[1, 3, 0, 0, 0, 0]], { arr := 1, off := 0, len := 2, cap := 6 }) := by decide

/-! ## IntersectionBy: the builder reads its own result -/

theorem intersectionByStore_eq (σ : Store) (fn : Int → Int) (p0 : Slice) (others : List Slice) (h0 : WF σ p0)
    (ho : ∀ p ∈ others, WF σ p) :
    intersectionByStore σ fn (p0 :: others) =
      some (appendEach (alloc σ 0 0).1 (alloc σ 0 0).2
        (Model.C11.interByLoop fn (others.length + 1) (others.map (elems σ)) [] (elems σ p0))) := by
  obtain ⟨ws, g1, g2⟩ := interByLoop_eq fn (others.length + 1) h0 ho p0.len 0 _ _ (Inv.alloc σ 0 0) (by omega)
  rw [(alloc_spec σ 0 0).2.1, List.drop_zero] at g2
  simp only [List.replicate_zero, List.nil_append] at g2
  simp only [intersectionByStore, List.length_cons, g1, g2]

/-- **IntersectionBy** (≥ 1 slice argument): value refinement, frame (ALL arguments), fresh result. -/
theorem intersectionBy_refines (σ : Store) (fn : Int → Int) (p0 : Slice) (others : List Slice) (h0 : WF σ p0)
    (ho : ∀ p ∈ others, WF σ p) :
    ∃ σ' res, intersectionByStore σ fn (p0 :: others) = some (σ', res) ∧
      Model.C11.intersectionBy fn ((p0 :: others).map (elems σ)) = .ok (elems σ' res) ∧
      Frame σ σ' ∧ σ.length ≤ res.arr ∧ WF σ' res := by
  obtain ⟨g1, g2, g3, g4⟩ := builder_post σ 0 0
    (Model.C11.interByLoop fn (others.length + 1) (others.map (elems σ)) [] (elems σ p0))
  refine ⟨_, _, intersectionByStore_eq σ fn p0 others h0 ho, ?_, g2, g3, g4⟩
  rw [g1]
  simp [Model.C11.intersectionBy]

/-- `IntersectionBy(fn)` panics at `params[0]`, in the store model as in the value-level model -/
theorem intersectionBy_no_argument (σ : Store) (fn : Int → Int) :
    intersectionByStore σ fn [] = none ∧ Model.C11.intersectionBy fn ([] : List (List Int)) = .panic := ⟨rfl, rfl⟩

theorem intersectionBy_disciplined (σ : Store) (regs : List Slice) (fn : Int → Int) (p0 : Slice)
    (others : List Slice) (h0 : WF σ p0) (ho : ∀ p ∈ others, WF σ p) :
    ∃ σ' res, intersectionByStore σ fn (p0 :: others) = some (σ', res) ∧
      run σ.length { σ := σ, regs := regs }
        (Instr.alloc 0 0 ::
          (Model.C11.interByLoop fn (others.length + 1) (others.map (elems σ)) [] (elems σ p0)).map
            (Instr.append regs.length)) =
        { σ := σ', regs := regs ++ [res] } :=
  ⟨_, _, intersectionByStore_eq σ fn p0 others h0 ho, run_alloc_appends σ regs 0 0 _⟩

/-- `arg0 = [1,2,3,4]` against `arg1 = [2,9]` and `other0 = [4,-777]` by parity: every element of `arg0` has
an image in both (`9`, `-777` odd; `2`, `4` even), so all four are kept -/
example : intersectionByStore σx (fun x => x % 2) [arg0, arg1, other0] =
      some (σx ++ [[], [1], [1, 2, 3], [1, 2, 3, 4, 0, 0, 0]], { arr := 5, off := 0, len := 4, cap := 7 }) ∧
    intersectionByStore σx (fun x => x / 2) [arg0, arg1] =
      some (σx ++ [[], [2], [2, 3, 0]], { arr := 4, off := 0, len := 2, cap := 3 }) := by decide

/-! ## Zip / Unzip: `len(slices)` rows made by the helper, filled cell by cell -/

/-- the arguments show a square matrix iff every argument has `len(slices)` elements -/
theorem square_map_elems {σ : Store} {slices : List Slice} (hs : ∀ p ∈ slices, WF σ p) :
    Spec.C12.Square (slices.map (elems σ)) ↔ ∀ p ∈ slices, p.len = slices.length := by
  unfold Spec.C12.Square
  rw [List.length_map]
  constructor
  · intro h p hp
    rw [← elems_length (hs p hp)]
    exact h _ (List.mem_map_of_mem hp)
  · intro h row hrow
    obtain ⟨p, hp, rfl⟩ := List.mem_map.mp hrow
    rw [elems_length (hs p hp)]
    exact h p hp

/-- **simulation**, for ALL argument lists (square or not): the store-level model panics exactly when the
value-level model `Model.C12.zipWith` does (the deliberate panics and every index panic), and otherwise the
rows it returns show the value-level answer. -/
theorem zipWith_simulates (tr : Bool) (σ : Store) (slices : List Slice) (hs : ∀ p ∈ slices, WF σ p) :
    (Model.C12.zipWith tr (slices.map (elems σ)) = .panic ∧ zipWithStore tr σ slices = none) ∨
    ∃ σ' rows, zipWithStore tr σ slices = some (σ', rows) ∧
      Model.C12.zipWith tr (slices.map (elems σ)) = .ok (rows.map (elems σ')) := by
  rcases (zipWithStore_sim tr σ slices hs).elim with ⟨h1, h2⟩ | ⟨⟨σ', rows⟩, r, h1, h2, _, h4, _⟩
  · exact Or.inl ⟨h2, h1⟩
  · exact Or.inr ⟨σ', rows, h1, by rw [h2, ← h4]⟩

/-- **Zip / Unzip** on `n` arguments of `n` elements each (any `n`, `0` included): no panic is reached; the
rows returned show the value-level model's answer, which is the transpose; frame — every array that existed
before is unchanged in every cell; every row is a well-formed header into storage that did not exist
before, and different rows lie in different arrays (a write to one row never changes another). -/
theorem zipWith_refines (tr : Bool) (σ : Store) (slices : List Slice) (hs : ∀ p ∈ slices, WF σ p)
    (hsq : ∀ p ∈ slices, p.len = slices.length) :
    ∃ σ' rows, zipWithStore tr σ slices = some (σ', rows) ∧
      Model.C12.zipWith tr (slices.map (elems σ)) = .ok (rows.map (elems σ')) ∧
      Spec.C12.TransposeOK (slices.map (elems σ)) (rows.map (elems σ')) ∧
      Frame σ σ' ∧ rows.length = slices.length ∧
      (∀ r ∈ rows, σ.length ≤ r.arr ∧ WF σ' r) ∧
      (∀ (i j : Nat) (ri rj : Slice), rows[i]? = some ri → rows[j]? = some rj → i ≠ j → ri.arr ≠ rj.arr) := by
  obtain ⟨r, hr, ht⟩ := Lemmas.C12.zipWith_ok tr (slices.map (elems σ)) ((square_map_elems hs).mpr hsq)
  have hsim := zipWithStore_sim tr σ slices hs
  rw [hr] at hsim
  obtain ⟨⟨σ', rows⟩, h1, h2, h3, h4⟩ := hsim.of_ok
  simp only at h2 h3 h4
  subst h3
  exact ⟨σ', rows, h1, hr, ht, h2.frame, h4, fun r hr => ⟨h2.fresh r hr, h2.wf r hr⟩, h2.ne⟩

/-- outside that domain both models panic (`Zip`/`Unzip` panic deliberately) -/
theorem zipWith_panics (tr : Bool) (σ : Store) (slices : List Slice) (hs : ∀ p ∈ slices, WF σ p)
    (hsq : ¬ ∀ p ∈ slices, p.len = slices.length) :
    zipWithStore tr σ slices = none ∧ Model.C12.zipWith tr (slices.map (elems σ)) = .panic := by
  have hp := Lemmas.C12.zipWith_panic tr (slices.map (elems σ)) (fun h => hsq ((square_map_elems hs).mp h))
  have hsim := zipWithStore_sim tr σ slices hs
  rw [hp] at hsim
  exact ⟨hsim.of_panic, hp⟩

/-- **Zip**: value refinement (the transpose), frame, fresh pairwise disjoint rows. -/
theorem zip_refines (σ : Store) (slices : List Slice) (hs : ∀ p ∈ slices, WF σ p)
    (hsq : ∀ p ∈ slices, p.len = slices.length) :
    ∃ σ' rows, zipStore σ slices = some (σ', rows) ∧
      Model.C12.zip (slices.map (elems σ)) = .ok (rows.map (elems σ')) ∧
      Spec.C12.TransposeOK (slices.map (elems σ)) (rows.map (elems σ')) ∧
      Frame σ σ' ∧ rows.length = slices.length ∧
      (∀ r ∈ rows, σ.length ≤ r.arr ∧ WF σ' r) ∧
      (∀ (i j : Nat) (ri rj : Slice), rows[i]? = some ri → rows[j]? = some rj → i ≠ j → ri.arr ≠ rj.arr) :=
  zipWith_refines false σ slices hs hsq

/-- **Unzip**: value refinement (the transpose), frame, fresh pairwise disjoint rows. -/
theorem unzip_refines (σ : Store) (slices : List Slice) (hs : ∀ p ∈ slices, WF σ p)
    (hsq : ∀ p ∈ slices, p.len = slices.length) :
    ∃ σ' rows, unzipStore σ slices = some (σ', rows) ∧
      Model.C12.unzip (slices.map (elems σ)) = .ok (rows.map (elems σ')) ∧
      Spec.C12.TransposeOK (slices.map (elems σ)) (rows.map (elems σ')) ∧
      Frame σ σ' ∧ rows.length = slices.length ∧
      (∀ r ∈ rows, σ.length ≤ r.arr ∧ WF σ' r) ∧
      (∀ (i j : Nat) (ri rj : Slice), rows[i]? = some ri → rows[j]? = some rj → i ≠ j → ri.arr ≠ rj.arr) :=
  zipWith_refines true σ slices hs hsq

theorem zip_panics (σ : Store) (slices : List Slice) (hs : ∀ p ∈ slices, WF σ p)
    (hsq : ¬ ∀ p ∈ slices, p.len = slices.length) :
    zipStore σ slices = none ∧ Model.C12.zip (slices.map (elems σ)) = .panic :=
  zipWith_panics false σ slices hs hsq

theorem unzip_panics (σ : Store) (slices : List Slice) (hs : ∀ p ∈ slices, WF σ p)
    (hsq : ¬ ∀ p ∈ slices, p.len = slices.length) :
    unzipStore σ slices = none ∧ Model.C12.unzip (slices.map (elems σ)) = .panic :=
  zipWith_panics true σ slices hs hsq

/-- every run of the store-level model that does not panic is `run` of the program `zipProg`: one `make` per
argument, then one indexed write per cell, each through the register of a row the program made itself -/
theorem zipWith_run (tr : Bool) (σ : Store) (regs : List Slice) (slices : List Slice) (hs : ∀ p ∈ slices, WF σ p)
    (σ' : Store) (rows : List Slice) (h : zipWithStore tr σ slices = some (σ', rows)) :
    run σ.length { σ := σ, regs := regs } (zipProg tr regs.length (slices.map (elems σ))) =
      { σ := σ', regs := regs ++ rows } := by
  unfold zipWithStore at h
  split at h
  · cases h
  · cases hrl : zipRowsLoop (firstLen slices) slices 0 σ (List.replicate slices.length nilSlice) with
    | none => rw [hrl] at h; cases h
    | some p =>
      obtain ⟨σ1, rows1⟩ := p
      rw [hrl] at h
      simp only at h
      cases hcl : zipColLoop tr slices rows1 (firstLen slices) 0 σ1 with
      | none => rw [hcl] at h; cases h
      | some σ2 =>
        rw [hcl] at h
        simp only [Option.some.injEq, Prod.mk.injEq] at h
        obtain ⟨h1, h2⟩ := h
        subst h1 h2
        have hsim := zipRowsLoop_sim (firstLen slices) slices hs [] σ (RowsInv.nil σ)
        simp only [List.nil_append, List.length_nil] at hsim
        rw [hrl] at hsim
        obtain ⟨_, _, hinv, _, _⟩ := hsim.of_some
        have hrows := run_zipRowsLoop (firstLen slices) slices hs σ.length regs [] σ σ1 rows1
          (by simpa using hrl)
        rw [List.append_nil] at hrows
        obtain ⟨c1, _⟩ := run_zipColLoop tr hs regs (firstLen slices) 0 σ1 σ2 hinv hcl
        unfold zipProg
        rw [run_append, hrows, firstLen_eq slices hs]
        exact c1

/-- **Zip obeys the discipline** (`n` arguments of `n` elements): it is `run` of `n` × `make` + `n²` indexed
writes into the rows made, hence `Theorems.C16.run_frame` applies. -/
theorem zip_disciplined (σ : Store) (regs : List Slice) (slices : List Slice) (hs : ∀ p ∈ slices, WF σ p)
    (hsq : ∀ p ∈ slices, p.len = slices.length) :
    ∃ σ' rows, zipStore σ slices = some (σ', rows) ∧
      run σ.length { σ := σ, regs := regs } (zipProg false regs.length (slices.map (elems σ))) =
        { σ := σ', regs := regs ++ rows } := by
  obtain ⟨σ', rows, h, _⟩ := zip_refines σ slices hs hsq
  exact ⟨σ', rows, h, zipWith_run false σ regs slices hs σ' rows h⟩

/-- **Unzip obeys the discipline**. -/
theorem unzip_disciplined (σ : Store) (regs : List Slice) (slices : List Slice) (hs : ∀ p ∈ slices, WF σ p)
    (hsq : ∀ p ∈ slices, p.len = slices.length) :
    ∃ σ' rows, unzipStore σ slices = some (σ', rows) ∧
      run σ.length { σ := σ, regs := regs } (zipProg true regs.length (slices.map (elems σ))) =
        { σ := σ', regs := regs ++ rows } := by
  obtain ⟨σ', rows, h, _⟩ := unzip_refines σ slices hs hsq
  exact ⟨σ', rows, h, zipWith_run true σ regs slices hs σ' rows h⟩

/-- a store for `Zip`/`Unzip`: three arguments of three elements; the first two share array 0 (`z0` at offset
1 with a foreign cell in front, `z1` right behind it, then two sentinel cells of spare capacity), the third
lies in array 1 with one sentinel cell of spare capacity -/
def σz : Store := [[-555, 1, 2, 3, 4, 5, 6, -777, -777], [7, 8, 9, -888]]
def z0 : Slice := { arr := 0, off := 1, len := 3, cap := 8 }
def z1 : Slice := { arr := 0, off := 4, len := 3, cap := 5 }
def z2 : Slice := { arr := 1, off := 0, len := 3, cap := 4 }

theorem wf_z : ∀ p ∈ [z0, z1, z2], WF σz p := by
  intro p hp
  simp only [List.mem_cons, List.not_mem_nil, or_false] at hp
  rcases hp with rfl | rfl | rfl <;> exact ⟨by decide, _, rfl, by decide⟩

example : zipStore σz [z0, z1, z2] =
      some (σz ++ [[1, 4, 7], [2, 5, 8], [3, 6, 9]],
        [{ arr := 2, off := 0, len := 3, cap := 3 }, { arr := 3, off := 0, len := 3, cap := 3 },
         { arr := 4, off := 0, len := 3, cap := 3 }]) ∧
    unzipStore σz [z0, z1, z2] =
      some (σz ++ [[1, 4, 7], [2, 5, 8], [3, 6, 9]],
        [{ arr := 2, off := 0, len := 3, cap := 3 }, { arr := 3, off := 0, len := 3, cap := 3 },
         { arr := 4, off := 0, len := 3, cap := 3 }]) ∧
    zipStore σz [z0, z1] = none ∧ unzipStore σz [z0, z1, { z2 with len := 2 }] = none ∧
    zipStore σz [] = some (σz, []) := by decide

/-- the hypotheses of `zip_refines` / `unzip_refines` hold of that store -/
example : (∀ p ∈ [z0, z1, z2], WF σz p) ∧ ∀ p ∈ [z0, z1, z2], p.len = [z0, z1, z2].length := ⟨wf_z, by decide⟩

/-! ## agreement with the regenerated effect table -/

/-- the helpers covered here with what is PROVED about them: (name, parameters written through, parameters
the result may alias) -/
def covered2 : List (String × List Nat × List Nat) :=
  [("DifferenceBy", [], []), ("Duplicate", [], []), ("IntersectionBy", [], []), ("Zip", [], []), ("Unzip", [], [])]

/-- OBLIGATION re-checked against the current source on every run: for every helper covered here the
translator's regenerated classification (`Gen.effects`) is the one proved above (no parameter written
through, the result aliases no parameter). -/
theorem covered2_agree_with_table :
    covered2.all (fun c => Gen.effects.any (fun e => e.name == c.1 && e.writes == c.2.1 && e.aliases == c.2.2 &&
      !e.selfAssignOnly)) = true := by decide

end GoguVerif.Theorems.C16Helpers2
