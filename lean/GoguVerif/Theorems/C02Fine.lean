import GoguVerif.Model.Fine
/-!
# C02 — "Theorem 2": the fine-grained execution of lock-guarded single-section methods refines the
atomic system

For ANY table of methods (each one critical section: lock mode + micro-steps over shared and local
state), any number of threads, any interleaving at micro-step granularity admitted by the RWMutex
rules: if read-mode bodies do not write the shared state, every fine-grained execution is an
execution of the atomic system of `Model/Lin.lean` with the SAME events (invocation, linearization
point = lock acquisition, return with the same value) — `fine_refines_atomic`.  Together with
Theorem 1 (`Theorems/C02.lean`) every fine-grained history is linearizable (`fine_linearizable`).

What remains assumed: that the real code's sections are such bodies (the regenerated lock table +
the per-container models), sequential consistency of race-free Go programs, and the RWMutex
semantics.
-/
namespace GoguVerif.Theorems.C02Fine
open GoguVerif.Model GoguVerif.Model.Fine
open GoguVerif.Model.Lock (Mode)

variable {σ lam Op Ret : Type}

theorem runSteps_cons (f : σ × lam → σ × lam) (rest) (p : σ × lam) :
    runSteps (f :: rest) p = runSteps rest (f p) := rfl

theorem runSteps_readonly (steps : List (σ × lam → σ × lam)) (h : ∀ f ∈ steps, ∀ p, (f p).1 = p.1)
    (p : σ × lam) : (runSteps steps p).1 = p.1 := by
  induction steps generalizing p with
  | nil => rfl
  | cons f rest ih =>
    rw [runSteps_cons, ih (fun g hg => h g (by simp [hg])), h f (by simp)]

/-- invariant of the fine-grained system -/
structure Inv (meth : Op → Meth σ lam Ret) (s : State σ lam Op Ret) : Prop where
  /-- a writer inside excludes everybody else -/
  excl : ∀ i j, i ≠ j → holds (s.th i) = some .w → holds (s.th j) = none
  /-- a thread inside runs the rest of its own method's body; the ghost result is the value it will
  return; a reader's remaining steps are read-only; a writer's completed effect is `absObj` -/
  inside : ∀ i c op m rest loc r, s.th i = .inside c op m rest loc r →
    m = (meth op).mode ∧
    (meth op).result (runSteps rest (s.shared, loc)).2 = r ∧
    (m = .r → ∀ f ∈ rest, ∀ p, (f p).1 = p.1) ∧
    (m = .w → s.absObj = (runSteps rest (s.shared, loc)).1)
  /-- without a writer inside the abstract object is the shared state -/
  noWriter : (∀ i, holds (s.th i) ≠ some .w) → s.absObj = s.shared

theorem holds_upd_ne (th : Nat → TState σ lam Op Ret) (t j : Nat) (x) (h : j ≠ t) :
    holds (Lin.upd th t x j) = holds (th j) := by simp [Lin.upd, h]

theorem upd_self (th : Nat → TState σ lam Op Ret) (t : Nat) (x) : Lin.upd th t x t = x := by simp [Lin.upd]

theorem upd_ne (th : Nat → TState σ lam Op Ret) (t j : Nat) (x) (h : j ≠ t) : Lin.upd th t x j = th j := by
  simp [Lin.upd, h]

theorem inv_init (meth : Op → Meth σ lam Ret) (init : σ) : Inv meth (initState init : State σ lam Op Ret) :=
  ⟨fun i j _ h => by simp [initState, holds] at h,
   fun i c op m rest loc r h => by simp [initState] at h,
   fun _ => rfl⟩

/-- a reader inside means no writer inside -/
theorem no_writer_of_reader {meth : Op → Meth σ lam Ret} {s : State σ lam Op Ret} (hi : Inv meth s)
    (t : Nat) (h : holds (s.th t) = some .r) : ∀ i, holds (s.th i) ≠ some .w := by
  intro i hw
  by_cases e : i = t
  · subst e; rw [h] at hw; cases hw
  · have := hi.excl i t e hw
    rw [h] at this; cases this

theorem inv_step {meth : Op → Meth σ lam Ret} (ro : ReadOnly meth) {s s' : State σ lam Op Ret} {e}
    (hi : Inv meth s) (st : Step meth s e s') : Inv meth s' := by
  cases st with
  | inv t op h =>
    refine ⟨?_, ?_, ?_⟩
    · intro i j hij hw
      dsimp only at hw ⊢
      by_cases ei : i = t
      · subst ei; simp [upd_self, holds] at hw
      · rw [show (Lin.upd s.th t (TState.invoked s.next op) i) = s.th i from upd_ne _ _ _ _ ei] at hw
        by_cases ej : j = t
        · subst ej; simp [upd_self, holds]
        · rw [show (Lin.upd s.th t (TState.invoked s.next op) j) = s.th j from upd_ne _ _ _ _ ej]
          exact hi.excl i j hij hw
    · intro i c op' m rest loc r hin
      dsimp only at hin ⊢
      by_cases ei : i = t
      · subst ei; simp [upd_self] at hin
      · rw [show (Lin.upd s.th t (TState.invoked s.next op) i) = s.th i from upd_ne _ _ _ _ ei] at hin
        exact hi.inside i c op' m rest loc r hin
    · intro hnw
      dsimp only at hnw ⊢
      apply hi.noWriter
      intro i hw
      by_cases ei : i = t
      · subst ei; rw [h] at hw; simp [holds] at hw
      · exact hnw i (by rw [show (Lin.upd s.th t (TState.invoked s.next op) i) = s.th i from upd_ne _ _ _ _ ei]; exact hw)
  | acquire t c op h ok =>
    -- before the acquisition nobody is a writer
    have hnw : ∀ i, holds (s.th i) ≠ some .w := by
      intro i hw
      by_cases ei : i = t
      · subst ei; rw [h] at hw; simp [holds] at hw
      · cases hm : (meth op).mode with
        | r => rw [hm] at ok; exact ok i ei hw
        | w => rw [hm] at ok; have := ok i ei; rw [this] at hw; cases hw
    have habs : s.absObj = s.shared := hi.noWriter hnw
    refine ⟨?_, ?_, ?_⟩
    · intro i j hij hw
      dsimp only at hw ⊢
      by_cases ei : i = t
      · subst ei
        simp only [upd_self, holds] at hw
        have hm : (meth op).mode = .w := by
          cases hmm : (meth op).mode with
          | w => rfl
          | r => rw [hmm] at hw; cases hw
        rw [hm] at ok
        rw [show (Lin.upd s.th i _ j) = s.th j from upd_ne _ _ _ _ (Ne.symm hij)]
        exact ok j (Ne.symm hij)
      · rw [show (Lin.upd s.th t _ i) = s.th i from upd_ne _ _ _ _ ei] at hw
        exact absurd hw (hnw i)
    · intro i c' op' m rest loc r hin
      dsimp only at hin ⊢
      by_cases ei : i = t
      · subst ei
        simp only [upd_self] at hin
        cases hin
        refine ⟨rfl, ?_, ?_, ?_⟩
        · simp only [atomic, habs]
        · intro hm f hf p; exact ro op hm f hf p
        · intro _; simp only [atomic, habs]
      · rw [show (Lin.upd s.th t _ i) = s.th i from upd_ne _ _ _ _ ei] at hin
        obtain ⟨h1, h2, h3, h4⟩ := hi.inside i c' op' m rest loc r hin
        refine ⟨h1, h2, h3, ?_⟩
        intro hm
        have : holds (s.th i) = some .w := by rw [hin, hm]; rfl
        exact absurd this (hnw i)
    · intro hnw'
      dsimp only at hnw' ⊢
      -- the acquiring thread is a reader: the abstract object stays the shared state
      have hm : (meth op).mode = .r := by
        cases hmm : (meth op).mode with
        | r => rfl
        | w => exact absurd (by simp [upd_self, holds, hmm]) (hnw' t)
      show (atomic (meth op) s.absObj).1 = s.shared
      simp only [atomic, habs]
      exact runSteps_readonly _ (ro op hm) _
  | micro t c op m f rest loc r h =>
    have hin := hi.inside t c op m (f :: rest) loc r h
    obtain ⟨h1, h2, h3, h4⟩ := hin
    cases m with
    | w =>
      have hothers : ∀ j, j ≠ t → holds (s.th j) = none := fun j hj =>
        hi.excl t j (Ne.symm hj) (by rw [h]; rfl)
      refine ⟨?_, ?_, ?_⟩
      · intro i j hij hw
        dsimp only at hw ⊢
        by_cases ei : i = t
        · subst ei
          rw [show (Lin.upd s.th i _ j) = s.th j from upd_ne _ _ _ _ (Ne.symm hij)]
          exact hothers j (Ne.symm hij)
        · rw [show (Lin.upd s.th t _ i) = s.th i from upd_ne _ _ _ _ ei, hothers i ei] at hw
          cases hw
      · intro i c' op' m' rest' loc' r' hin'
        dsimp only at hin' ⊢
        by_cases ei : i = t
        · subst ei
          simp only [upd_self] at hin'
          cases hin'
          refine ⟨h1, ?_, ?_, ?_⟩
          · simpa [runSteps_cons] using h2
          · intro hm; cases hm
          · intro _; simpa [runSteps_cons] using h4 rfl
        · rw [show (Lin.upd s.th t _ i) = s.th i from upd_ne _ _ _ _ ei] at hin'
          have := hothers i ei
          rw [hin'] at this; simp [holds] at this
      · intro hnw
        dsimp only at hnw ⊢
        exact absurd (by simp [upd_self, holds]) (hnw t)
    | r =>
      have hf : (f (s.shared, loc)).1 = s.shared := h3 rfl f (by simp) _
      have hnw : ∀ i, holds (s.th i) ≠ some .w := no_writer_of_reader hi t (by rw [h]; rfl)
      refine ⟨?_, ?_, ?_⟩
      · intro i j hij hw
        dsimp only at hw ⊢
        by_cases ei : i = t
        · subst ei; simp [upd_self, holds] at hw
        · rw [show (Lin.upd s.th t _ i) = s.th i from upd_ne _ _ _ _ ei] at hw
          exact absurd hw (hnw i)
      · intro i c' op' m' rest' loc' r' hin'
        dsimp only at hin' ⊢
        by_cases ei : i = t
        · subst ei
          simp only [upd_self] at hin'
          cases hin'
          refine ⟨h1, ?_, ?_, ?_⟩
          · simpa [runSteps_cons] using h2
          · intro _ g hg p; exact h3 rfl g (by simp [hg]) p
          · intro hm; cases hm
        · rw [show (Lin.upd s.th t _ i) = s.th i from upd_ne _ _ _ _ ei] at hin'
          obtain ⟨g1, g2, g3, g4⟩ := hi.inside i c' op' m' rest' loc' r' hin'
          refine ⟨g1, ?_, g3, ?_⟩
          · show (meth op').result (runSteps rest' ((f (s.shared, loc)).1, loc')).2 = r'
            rw [hf]; exact g2
          · intro hm
            have : holds (s.th i) = some .w := by rw [hin', hm]; rfl
            exact absurd this (hnw i)
      · intro _
        dsimp only
        show s.absObj = (f (s.shared, loc)).1
        rw [hf]; exact hi.noWriter hnw
  | release t c op m loc r h =>
    obtain ⟨h1, h2, h3, h4⟩ := hi.inside t c op m [] loc r h
    refine ⟨?_, ?_, ?_⟩
    · intro i j hij hw
      dsimp only at hw ⊢
      by_cases ei : i = t
      · subst ei; simp [upd_self, holds] at hw
      · rw [show (Lin.upd s.th t _ i) = s.th i from upd_ne _ _ _ _ ei] at hw
        by_cases ej : j = t
        · subst ej; simp [upd_self, holds]
        · rw [show (Lin.upd s.th t _ j) = s.th j from upd_ne _ _ _ _ ej]
          exact hi.excl i j hij hw
    · intro i c' op' m' rest' loc' r' hin'
      dsimp only at hin' ⊢
      by_cases ei : i = t
      · subst ei; simp [upd_self] at hin'
      · rw [show (Lin.upd s.th t _ i) = s.th i from upd_ne _ _ _ _ ei] at hin'
        exact hi.inside i c' op' m' rest' loc' r' hin'
    · intro hnw
      dsimp only at hnw ⊢
      cases m with
      | w => simpa [runSteps] using h4 rfl
      | r => exact hi.noWriter (no_writer_of_reader hi t (by rw [h]; rfl))
  | ret t c op r h =>
    refine ⟨?_, ?_, ?_⟩
    · intro i j hij hw
      dsimp only at hw ⊢
      by_cases ei : i = t
      · subst ei; simp [upd_self, holds] at hw
      · rw [show (Lin.upd s.th t _ i) = s.th i from upd_ne _ _ _ _ ei] at hw
        by_cases ej : j = t
        · subst ej; simp [upd_self, holds]
        · rw [show (Lin.upd s.th t _ j) = s.th j from upd_ne _ _ _ _ ej]
          exact hi.excl i j hij hw
    · intro i c' op' m' rest' loc' r' hin'
      dsimp only at hin' ⊢
      by_cases ei : i = t
      · subst ei; simp [upd_self] at hin'
      · rw [show (Lin.upd s.th t _ i) = s.th i from upd_ne _ _ _ _ ei] at hin'
        exact hi.inside i c' op' m' rest' loc' r' hin'
    · intro hnw
      dsimp only at hnw ⊢
      apply hi.noWriter
      intro i hw
      by_cases ei : i = t
      · subst ei; rw [h] at hw; simp [holds] at hw
      · exact hnw i (by rw [show (Lin.upd s.th t _ i) = s.th i from upd_ne _ _ _ _ ei]; exact hw)

theorem absPc_upd (th : Nat → TState σ lam Op Ret) (t : Nat) (x : TState σ lam Op Ret) :
    (fun j => absPc (Lin.upd th t x j)) = Lin.upd (fun j => absPc (th j)) t (absPc x) := by
  funext j
  by_cases e : j = t <;> simp [Lin.upd, e]

/-- **Theorem 2.**  Every fine-grained execution is an execution of the atomic system with the same
events, and the invariant (mutual exclusion, ghost consistency) holds in every reachable state. -/
theorem fine_refines_atomic {meth : Op → Meth σ lam Ret} (ro : ReadOnly meth) {init : σ} {h s}
    (r : Fine.Reach meth init h s) :
    Inv meth s ∧ Lin.Reach (obj meth init) h (abs s) := by
  induction r with
  | init => exact ⟨inv_init meth init, Lin.Reach.init⟩
  | @step h0 s0 e0 s1 rprev st ih =>
    obtain ⟨hi, hr⟩ := ih
    refine ⟨inv_step ro hi st, ?_⟩
    cases st with
    | inv t op h =>
      have st' := Lin.Step.inv (O := obj meth init) (abs s0) t op (by simp [abs, h, absPc])
      have e : abs ({ s0 with th := Lin.upd s0.th t (.invoked s0.next op), next := s0.next + 1 }) =
          { abs s0 with pcs := Lin.upd (abs s0).pcs t (.pending (abs s0).next op), next := (abs s0).next + 1 } := by
        simp only [abs, absPc_upd]; rfl
      rw [e]; exact Lin.Reach.step hr st'
    | acquire t c op h ok =>
      have st' := Lin.Step.lin (O := obj meth init) (abs s0) t c op (by simp [abs, h, absPc])
      have e : abs ({ s0 with absObj := (atomic (meth op) s0.absObj).1
                              th := Lin.upd s0.th t (.inside c op (meth op).mode (meth op).steps (meth op).init
                                      (atomic (meth op) s0.absObj).2) }) =
          { abs s0 with obj := ((obj meth init).step (abs s0).obj op).1
                        pcs := Lin.upd (abs s0).pcs t (.done c op ((obj meth init).step (abs s0).obj op).2) } := by
        simp only [abs, absPc_upd]; rfl
      rw [e]; exact Lin.Reach.step hr st'
    | ret t c op r h =>
      have st' := Lin.Step.ret (O := obj meth init) (abs s0) t c op r (by simp [abs, h, absPc])
      have e : abs ({ s0 with th := Lin.upd s0.th t .idle }) =
          { abs s0 with pcs := Lin.upd (abs s0).pcs t .idle } := by
        simp only [abs, absPc_upd]; rfl
      rw [e]; exact Lin.Reach.step hr st'
  | @silent h0 s0 s1 rprev st ih =>
    obtain ⟨hi, hr⟩ := ih
    refine ⟨inv_step ro hi st, ?_⟩
    cases st with
    | micro t c op m f rest loc r h =>
      have : abs ({ s0 with shared := (f (s0.shared, loc)).1,
                            th := Lin.upd s0.th t (.inside c op m rest (f (s0.shared, loc)).2 r) }) = abs s0 := by
        simp only [abs]
        congr 1
        funext j
        by_cases e : j = t
        · subst e; simp [Lin.upd, h, absPc]
        · simp [Lin.upd, e]
      rw [this]; exact hr
    | release t c op m loc r h =>
      obtain ⟨_, h2, _, _⟩ := hi.inside t c op m [] loc r h
      have : abs ({ s0 with th := Lin.upd s0.th t (.finished c op ((meth op).result loc)) }) = abs s0 := by
        simp only [abs]
        congr 1
        funext j
        by_cases e : j = t
        · subst e; simp [Lin.upd, h, absPc]; simpa [runSteps] using h2
        · simp [Lin.upd, e]
      rw [this]; exact hr

end GoguVerif.Theorems.C02Fine
