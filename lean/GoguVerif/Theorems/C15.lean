import GoguVerif.Lemmas.C15
import GoguVerif.Lemmas.C15Case
import GoguVerif.Lemmas.C15Case2
/-!
# C15 — property theorems: the string helpers cut, pad, wrap and re-case without losing or inventing text

Every theorem is about the MODEL functions of `Model/C15.lean` for ALL inputs (all byte strings,
all integers, all tokens, all case tables); the specification is `Spec/C15.lean`.
-/
namespace GoguVerif.Theorems.C15
open GoguVerif.Go.Utf8 GoguVerif.Model.C15 GoguVerif.Spec.C15 GoguVerif.Lemmas.C15

/-! ## Substr -/

/-- **Substr.**  For every string, offset and length the code's answer is the byte range selected by the
PHP-style rules of the specification (negative values count from the end, selections outside the
string are empty) — in particular `Substr` never panics: the final slice expression is always in
range. -/
theorem substr_eq_spec (s : Str) (offset length : Int) :
    substr s offset length = .ok (substrSpec s offset length) :=
  substr_eq_spec_aux s offset length

/-- Corollary in the words of the statement. -/
theorem substr_never_panics (s : Str) (offset length : Int) : substr s offset length ≠ .panic := by
  rw [substr_eq_spec]; exact fun h => nomatch h

example : substr [0x61, 0x62, 0x63, 0x64] (-3) (-1) = .ok [0x62, 0x63] := by decide
example : substr [0x61, 0x62, 0x63, 0x64] 1 100 = .ok [0x62, 0x63, 0x64] := by decide
example : substr [0x61, 0x62] (-5) 1 = .ok [] := by decide

/-! ## SplitAtIndex -/

/-- **SplitAtIndex** returns, for every string and every index (negative, past the end, inside a
multi-byte rune), exactly two parts whose concatenation is the input; it never panics. -/
theorem splitAtIndex_spec (s : Str) (index : Int) :
    ∃ a b, splitAtIndex s index = .ok [a, b] ∧ a ++ b = s := by
  unfold splitAtIndex
  simp only []
  split
  · exact ⟨[], s, rfl, rfl⟩
  · split
    · exact ⟨s, [], rfl, by simp⟩
    · have h1 : goSlice s 0 (index + 1) = .ok (s.take (index + 1).toNat) := by
        unfold goSlice; rw [if_pos (by omega)]; simp
      have h2 : goSlice s (index + 1) s.length = .ok (s.drop (index + 1).toNat) := by
        unfold goSlice; rw [if_pos (by omega)]; simp
      rw [h1, h2]
      exact ⟨_, _, rfl, List.take_append_drop _ _⟩

/-- the model's answer passes the monitor -/
theorem splitAtIndex_monitor (s : Str) (index : Int) :
    ∃ parts, splitAtIndex s index = .ok parts ∧ splitOk s parts = true := by
  obtain ⟨a, b, h, hab⟩ := splitAtIndex_spec s index
  exact ⟨[a, b], h, by simp [splitOk, hab]⟩

-- index 1 falls inside the two-byte rune of "aö"
example : splitAtIndex [0x61, 0xC3, 0xB6] 1 = .ok [[0x61, 0xC3], [0xB6]] := by decide

/-! ## Pad, PadLeft, PadRight (non-empty token; with an empty token the requested length is
unreachable and the property does not apply — the code panics there, see the `…_empty_token` facts) -/

/-- **PadLeft**, non-empty token: never panics; unchanged when `size ≤ len`; otherwise exactly `size`
bytes = (a prefix of token token …) ++ input. -/
theorem padLeft_spec (s : Str) (size : Int) (tok : Str) (htok : tok ≠ []) :
    ∃ r, padLeft s size tok = .ok r ∧ padLeftOk s size tok r = true := by
  unfold padLeft padLeftOk
  simp only []
  by_cases hsz : size ≤ (s.length : Int)
  · simp only [if_pos hsz]; exact ⟨s, rfl, by simp⟩
  · simp only [if_neg hsz]
    obtain ⟨p, hp, hlen, hcyc⟩ := padToken_spec tok htok (decide ((tok.length : Int) ≤ size - s.length))
      (size - s.length) (size - s.length) (by omega) (fun _ => rfl) (by simp; omega)
    rw [hp]
    refine ⟨p ++ s, rfl, ?_⟩
    have he : tok.isEmpty = false := by cases tok <;> simp_all
    rw [← hlen]
    simp [he, hcyc]

/-- **PadRight**, non-empty token: input ++ (a prefix of token token …), exactly `size` bytes. -/
theorem padRight_spec (s : Str) (size : Int) (tok : Str) (htok : tok ≠ []) :
    ∃ r, padRight s size tok = .ok r ∧ padRightOk s size tok r = true := by
  unfold padRight padRightOk
  simp only []
  by_cases hsz : size ≤ (s.length : Int)
  · simp only [if_pos hsz]; exact ⟨s, rfl, by simp⟩
  · simp only [if_neg hsz]
    obtain ⟨p, hp, hlen, hcyc⟩ := padToken_spec tok htok (decide ((tok.length : Int) ≤ size - s.length))
      (size - s.length) (size - s.length) (by omega) (fun _ => rfl) (by simp; omega)
    rw [hp]
    refine ⟨s ++ p, rfl, ?_⟩
    have he : tok.isEmpty = false := by cases tok <;> simp_all
    rw [← hlen]
    simp [he, hcyc]
    omega

/-- **Pad**, non-empty token: exactly `size` bytes; the input sits after ⌊d/2⌋ filler bytes
(d = size − len), both fillers are prefixes of token token …. -/
theorem pad_spec (s : Str) (size : Int) (tok : Str) (htok : tok ≠ []) :
    ∃ r, pad s size tok = .ok r ∧ padOk s size tok r = true := by
  unfold pad padOk
  simp only []
  by_cases hsz : size ≤ (s.length : Int)
  · simp only [if_pos hsz]; exact ⟨s, rfl, by simp⟩
  · simp only [if_neg hsz]
    have hpos : 0 < tok.length := List.length_pos_iff.mpr htok
    obtain ⟨l, hl, hllen, hlcyc⟩ := padToken_spec tok htok (decide ((tok.length : Int) ≤ (size - s.length) / 2))
      ((size - s.length) / 2) ((size - s.length) / 2) (by omega) (fun _ => rfl) (by simp; omega)
    obtain ⟨r, hr, hrlen, hrcyc⟩ := padToken_spec tok htok (decide ((tok.length : Int) ≤ (size - s.length) / 2))
      ((size - s.length + 1) / 2) ((size - s.length + 1) / 2) (by omega) (fun _ => rfl) (by simp; omega)
    rw [hl, hr]
    refine ⟨l ++ s ++ r, rfl, ?_⟩
    have he : tok.isEmpty = false := by cases tok <;> simp_all
    have hd : ((size - s.length) / 2).toNat = (size - s.length).toNat / 2 := by omega
    rw [he]
    simp only [Bool.false_eq_true, if_false, Bool.or_eq_true]
    left
    unfold padAt
    rw [← hd, ← hllen]
    have hsum : (size - (s.length : Int)).toNat = l.length + r.length := by omega
    rw [hsum]
    simp [hlcyc, hrcyc]
    omega

-- hypotheses satisfiable, token repeated and truncated: PadLeft("a", 6, "xy") = "xyxyxa"
example : padLeft [0x61] 6 [0x78, 0x79] = .ok [0x78, 0x79, 0x78, 0x79, 0x78, 0x61] := by decide
example : padRight [0x61] 3 [0x78, 0x79, 0x7A] = .ok [0x61, 0x78, 0x79] := by decide
example : pad [0x61] 6 [0x78, 0x79] = .ok [0x78, 0x79, 0x61, 0x78, 0x79, 0x78] := by decide
example : padOk [0x61] 6 [0x78, 0x79] [0x78, 0x79, 0x61, 0x78, 0x79, 0x78] = true := by decide
-- the checker is not vacuous: a wrong filler, a wrong length and a displaced input are rejected
example : padLeftOk [0x61] 4 [0x78, 0x79] [0x78, 0x78, 0x79, 0x61] = false := by decide
example : padLeftOk [0x61] 4 [0x78, 0x79] [0x78, 0x79, 0x61] = false := by decide
example : padOk [0x61] 5 [0x78] [0x78, 0x78, 0x78, 0x78, 0x61] = false := by decide

/-- with an empty token no filler can be cut: the slice expression `tokenStr[:n]`, n > 0, panics -/
theorem padToken_nil (rep : Bool) (count c : Int) (hc : 0 < c) : padToken [] rep count c = .panic := by
  have hflat : ∀ n : Nat, (List.replicate n ([] : Str)).flatten = [] := by
    intro n; induction n with
    | zero => rfl
    | succ n ih => simp [List.replicate_succ]
  unfold padToken goRepeat
  cases rep
  · simp [Outcome.bind, goSlice]; omega
  · by_cases h : count < 0
    · simp [h, Outcome.bind]
    · simp [h, Outcome.bind, goSlice, hflat]; omega

/-- what the code does with an empty token when padding is needed (modelled, outside the property) -/
theorem padLeft_empty_token (s : Str) (size : Int) (h : (s.length : Int) < size) :
    padLeft s size [] = .panic := by
  unfold padLeft
  simp only []
  rw [if_neg (by omega), padToken_nil _ _ _ (by omega)]

theorem padRight_empty_token (s : Str) (size : Int) (h : (s.length : Int) < size) :
    padRight s size [] = .panic := by
  unfold padRight
  simp only []
  rw [if_neg (by omega), padToken_nil _ _ _ (by omega)]

theorem pad_empty_token (s : Str) (size : Int) (h : (s.length : Int) < size) :
    pad s size [] = .panic := by
  unfold pad
  simp only []
  rw [if_neg (by omega), padToken_nil _ _ ((size - s.length + 1) / 2) (by omega)]
  split <;> simp_all

/-! ## Wrap, Unwrap, WrapAllRune, ReverseStr -/

/-- **Wrap** puts the token on both sides. -/
theorem wrap_eq_spec (s t : Str) : wrap s t = wrapSpec s t := rfl

/-- **Unwrap** computes the specification's function; it never panics. -/
theorem unwrap_eq_spec (s t : Str) : unwrap s t = .ok (unwrapSpec s t) := by
  unfold unwrap unwrapSpec
  simp only [isPrefixOf_iff_take, isSuffixOf_iff_drop]
  by_cases ht : t.length > 0
  · by_cases hc : 2 * t.length ≤ s.length ∧ s.take t.length = t ∧ s.drop (s.length - t.length) = t
    · rw [if_pos ⟨ht, hc⟩, if_pos hc]
      unfold goSlice
      rw [if_pos (by omega)]
      congr 1
      have h1 : ((s.length : Int) - t.length).toNat = s.length - t.length := by omega
      rw [h1, Int.toNat_natCast, List.drop_take]
      congr 1
      omega
    · rw [if_neg (fun h => hc h.2), if_neg hc]
  · have ht0 : t = [] := by
      cases t with
      | nil => rfl
      | cons _ _ => simp at ht
    subst ht0
    simp

/-- The specification's function satisfies the two stated clauses (`Unwrap` undoes `Wrap`; a string
not wrapped by the token is left unchanged) … -/
theorem unwrapSpec_holds (s t : Str) : UnwrapHolds s t (unwrapSpec s t) := by
  constructor
  · intro x hx
    unfold Wrapped at hx
    subst hx
    unfold unwrapSpec
    rw [if_pos]
    · simp
      have : t.length + (x.length + t.length) - 2 * t.length = x.length := by omega
      rw [this]; simp
    · refine ⟨by simp; omega, by simp, ?_⟩
      simp
      rw [← List.append_assoc, List.drop_left' (by simp; omega)]
  · intro hno
    unfold unwrapSpec
    rw [if_neg]
    intro ⟨hlen, hp, hs⟩
    apply hno
    refine ⟨(s.drop t.length).take (s.length - 2 * t.length), ?_⟩
    unfold Wrapped
    have e1 : s = s.take t.length ++ s.drop t.length := (List.take_append_drop _ _).symm
    have e2 : s.drop t.length = (s.drop t.length).take (s.length - 2 * t.length) ++
        (s.drop t.length).drop (s.length - 2 * t.length) := (List.take_append_drop _ _).symm
    have e3 : (s.drop t.length).drop (s.length - 2 * t.length) = s.drop (s.length - t.length) := by
      rw [List.drop_drop]; congr 1; omega
    rw [e3, hs] at e2
    rw [hp] at e1
    rw [List.append_assoc, ← e2]
    exact e1

/-- … and it is the only answer that does (so the monitor `r == unwrapSpec s t` is exactly
`UnwrapHolds s t r`). -/
theorem unwrapHolds_unique (s t r : Str) (h : UnwrapHolds s t r) : r = unwrapSpec s t := by
  have hs := unwrapSpec_holds s t
  by_cases hw : ∃ x, Wrapped s t x
  · obtain ⟨x, hx⟩ := hw
    rw [h.1 x hx, hs.1 x hx]
  · rw [h.2 hw, hs.2 hw]

/-- **Unwrap(Wrap(s,t),t) = s** for every `s` and every `t` (including the empty token, tokens that
occur inside `s`, and `s` that itself starts or ends with `t`). -/
theorem unwrap_wrap (s t : Str) : unwrap (wrap s t) t = .ok s := by
  rw [unwrap_eq_spec]
  congr 1
  exact (unwrapSpec_holds (wrap s t) t).1 s rfl

/-- **Unwrap leaves strings that are not wrapped by the token unchanged.** -/
theorem unwrap_not_wrapped (s t : Str) (h : ¬ ∃ x, s = t ++ x ++ t) : unwrap s t = .ok s := by
  rw [unwrap_eq_spec]
  congr 1
  exact (unwrapSpec_holds s t).2 h

/-- Both clauses for the model's answer, in one statement. -/
theorem unwrap_holds (s t : Str) : ∃ r, unwrap s t = .ok r ∧ UnwrapHolds s t r :=
  ⟨_, unwrap_eq_spec s t, unwrapSpec_holds s t⟩

-- "'a'b" is not wrapped by "'" (hypothesis of `unwrap_not_wrapped` satisfiable), "'" is not wrapped by "'"
example : ¬ ∃ x : Str, [0x27, 0x61, 0x27, 0x62] = [0x27] ++ x ++ [0x27] := by
  rintro ⟨x, hx⟩
  have := congrArg List.getLast? hx
  rw [List.getLast?_append] at this
  simp at this
example : unwrap [0x27, 0x61, 0x27, 0x62] [0x27] = .ok [0x27, 0x61, 0x27, 0x62] := by decide
example : unwrap [0x27] [0x27] = .ok [0x27] := by decide
example : unwrap [0x27, 0x61, 0x27] [0x27] = .ok [0x61] := by decide

/-- **WrapAllRune** wraps every rune (Go's notion: an invalid byte is the rune U+FFFD). -/
theorem wrapAllRune_eq_spec (s t : Str) : wrapAllRune s t = wrapAllSpec s t := by
  unfold wrapAllRune wrapAllSpec runes
  have := foldl_append_eq_flatMap (fun p : Nat × Rune => t ++ encodeRune p.2 ++ t) (rangeStr s) []
  simp only [List.append_assoc, List.nil_append] at this ⊢
  rw [this, List.flatMap_map]

example : wrapAllRune [0x61, 0xC3, 0xB6, 0xFF] [0x2D] =
    [0x2D, 0x61, 0x2D, 0x2D, 0xC3, 0xB6, 0x2D, 0x2D, 0xEF, 0xBF, 0xBD, 0x2D] := by decide

/-- **ReverseStr**: the two-index swap loop reverses the rune sequence and never indexes out of range. -/
theorem reverseStr_eq_spec (s : Str) : reverseStr s = .ok (reverseSpec s) := by
  unfold reverseStr reverseSpec
  have := revLoop_spec (runes s).length [] (runes s) [] (by omega)
  simp only [List.nil_append, List.append_nil, List.length_nil, Int.natCast_zero, Int.zero_add] at this
  simp only []
  rw [this]
  rfl

example : reverseStr [0x61, 0xC3, 0xB6, 0xE2, 0x82, 0xAC] = .ok [0xE2, 0x82, 0xAC, 0xC3, 0xB6, 0x61] := by decide

/-! ## ToLower, ToUpper, Capitalize: for EVERY pair of case tables `lo`, `up` -/

/-- **ToLower** maps every rune with the lower-case table (for every table `lo`). -/
theorem toLower_eq_spec (lo : Rune → Rune) (s : Str) : toLower lo s = lowerSpec lo s :=
  toLower_eq_spec_aux lo s

/-- **ToUpper** maps every rune with the upper-case table (for every table `up`). -/
theorem toUpper_eq_spec (up : Rune → Rune) (s : Str) : toUpper up s = upperSpec up s :=
  toUpper_eq_spec_aux up s

/-- **Capitalize**: first rune through the upper-case table, every later rune through the lower-case
table (the byte index `i == 0` of the `range` loop identifies exactly the first rune). -/
theorem capitalize_eq_spec (lo up : Rune → Rune) (s : Str) : capitalize lo up s = capSpec lo up s :=
  capitalize_eq_spec_aux lo up s

-- with the table entries a↦(a,A), ö↦(ö,Ö): Capitalize("öa") = "Öa", ToUpper("aö") = "AÖ"
example : capitalize (fun r => if r = 0xD6 then 0xF6 else r) (fun r => if r = 0xF6 then 0xD6 else if r = 0x61 then 0x41 else r)
    [0xC3, 0xB6, 0x61] = [0xC3, 0x96, 0x61] := by decide
example : toUpper (fun r => if r = 0xF6 then 0xD6 else if r = 0x61 then 0x41 else r) [0x61, 0xC3, 0xB6] =
    [0x41, 0xC3, 0x96] := by decide

/-! ## CamelCase, SnakeCase, KebabCase on the stated domain

Domain (`inDomain`): every byte is an ASCII letter, a digit or one of ' ', '-', '_', '&', and the string
neither starts nor ends with a separator (words separated by runs of separators).  The case tables are
arbitrary functions that agree with the ASCII case mapping on ASCII letters and digits (`AsciiTable`).

FULL STATEMENT (what the property says; the monitor `camelOk` / `delimOk` / `sameUpToDelim` judges all
of it on the implementation's answers) — proved below as `caseStyles_domain`:

    theorem caseStyles_domain (ht : AsciiTable lo up) (h : inDomain s = true) :
      camelOk s (camelCase lo up s) = true ∧
      ∃ r k, snakeCase lo s = .ok r ∧ kebabCase lo s = .ok k ∧
        delimOk 0x5F s r r = true ∧ snakeCase lo r = .ok r ∧
        delimOk 0x2D s k k = true ∧ kebabCase lo k = .ok k ∧ sameUpToDelim r k = true

The `…_partial` theorems (first milestone: everything except "upper case only at word initials" and
idempotence) are kept; `camelCase_domain` builds on `camelCase_domain_partial`, and
`snakeCase_domain_partial` is now a corollary of `snakeKebab_domain`. -/

/-- **CamelCase** on the domain: the result contains no separator (only letters and digits) and keeps
every letter and digit of the input in order (up to case). -/
theorem camelCase_domain_partial (lo up : Rune → Rune) (ht : AsciiTable lo up) (s : Str)
    (h : inDomain s = true) :
    (camelCase lo up s).all isAlnum = true ∧ letters (camelCase lo up s) = letters s := by
  obtain ⟨hw, hflat⟩ := chars_of_domain s h
  unfold camelCase
  rw [camelLoop_words ht _ hw true 0 0 [] (fun _ => rfl) (fun h => nomatch h), List.nil_append]
  obtain ⟨hword, hlet⟩ := camelWords_spec _ hw true
  refine ⟨List.all_eq_true.mpr hword, ?_⟩
  rw [hlet, hflat]
  rfl

/-- **CamelCase** on the domain, full clause: no separator, every letter and digit kept in order, and an
upper-case byte occurs only where a word of the input begins (`Spec.initials`). -/
theorem camelCase_domain (lo up : Rune → Rune) (ht : AsciiTable lo up) (s : Str) (h : inDomain s = true) :
    camelOk s (camelCase lo up s) = true := by
  obtain ⟨h1, h2⟩ := camelCase_domain_partial lo up ht s h
  have hw := (chars_of_domain s h).1
  have h3 : ((camelCase lo up s).zip (initials true s)).all (fun p => !isUpper p.1 || p.2) = true := by
    unfold camelCase
    rw [camelLoop_words ht _ hw true 0 0 [] (fun _ => rfl) (fun h => nomatch h), List.nil_append,
      ← initials_domain s h]
    exact camelWords_initials _ true
  unfold camelOk
  rw [h1, h2, h3]
  simp

/-- **SnakeCase / KebabCase** on the domain, full clause: neither panics; each result consists of
lower-case letters, digits and its own delimiter only, keeps every letter and digit of the input in
order (lower-cased), is a fixed point of its function (idempotence), and the Kebab result is the Snake
result with '_' replaced by '-'. -/
theorem snakeKebab_domain (lo up : Rune → Rune) (ht : AsciiTable lo up) (s : Str) (h : inDomain s = true) :
    ∃ r k, snakeCase lo s = .ok r ∧ kebabCase lo s = .ok k ∧
      delimOk 0x5F s r r = true ∧ snakeCase lo r = .ok r ∧
      delimOk 0x2D s k k = true ∧ kebabCase lo k = .ok k ∧ sameUpToDelim r k = true := by
  obtain ⟨hw, hflat⟩ := chars_of_domain s h
  have hst : ∀ w ∈ splitSpace [] (replaceSeps false (trimSpace s)), Starts w.length (starts w) :=
    fun w _ => starts_ok w
  obtain ⟨hsb, hsl⟩ := snakeWords_spec 0x5F (by decide) _ hw hst
  obtain ⟨hkb, hkl⟩ := snakeWords_spec 0x2D (by decide) _ hw hst
  have hbytes : ∀ (d : UInt8) (r : Str), (∀ b ∈ r, isLowerAlnum b = true ∨ b = d) →
      r.all (fun b => isDigit b || isLower b || b == d) = true := by
    intro d r hr
    rw [List.all_eq_true]
    intro b hb
    rcases hr b hb with h1 | h1
    · simp only [isLowerAlnum, Bool.or_eq_true] at h1
      simp only [Bool.or_eq_true]; exact Or.inl h1
    · simp [h1]
  refine ⟨_, _, split_domain_eval ht 0x5F s h, split_domain_eval ht 0x2D s h, ?_,
    split_domain_idem ht 0x5F (by decide) s h, ?_, split_domain_idem ht 0x2D (by decide) s h, ?_⟩
  · unfold delimOk
    rw [hbytes _ _ hsb, hsl, hflat]
    simp [letters]
  · unfold delimOk
    rw [hbytes _ _ hkb, hkl, hflat]
    simp [letters]
  · unfold sameUpToDelim
    rw [snakeWords_swap _ hw]
    simp

/-- **The case-style clause of C15 on the stated domain**, for every pair of case tables that are the
ASCII mapping on ASCII letters and digits. -/
theorem caseStyles_domain (lo up : Rune → Rune) (ht : AsciiTable lo up) (s : Str) (h : inDomain s = true) :
    camelOk s (camelCase lo up s) = true ∧
    ∃ r k, snakeCase lo s = .ok r ∧ kebabCase lo s = .ok k ∧
      delimOk 0x5F s r r = true ∧ snakeCase lo r = .ok r ∧
      delimOk 0x2D s k k = true ∧ kebabCase lo k = .ok k ∧ sameUpToDelim r k = true :=
  ⟨camelCase_domain lo up ht s h, snakeKebab_domain lo up ht s h⟩

/-- (first milestone, now a corollary) Snake/Kebab without the idempotence clause. -/
theorem snakeCase_domain_partial (lo up : Rune → Rune) (ht : AsciiTable lo up) (s : Str)
    (h : inDomain s = true) :
    ∃ r k, snakeCase lo s = .ok r ∧ kebabCase lo s = .ok k ∧
      r.all (fun b => isDigit b || isLower b || b == 0x5F) = true ∧ r.filter isAlnum = letters s ∧
      k.all (fun b => isDigit b || isLower b || b == 0x2D) = true ∧ k.filter isAlnum = letters s ∧
      sameUpToDelim r k = true := by
  obtain ⟨r, k, hr, hk, h1, _, h2, _, h3⟩ := snakeKebab_domain lo up ht s h
  simp only [delimOk, Bool.and_eq_true, beq_iff_eq] at h1 h2
  exact ⟨r, k, hr, hk, h1.1.1, h1.1.2, h2.1.1, h2.1.2, h3⟩

/-- the ASCII case mapping as a table: the hypotheses above are satisfiable -/
def asciiLo (r : Nat) : Nat := if 0x41 ≤ r ∧ r ≤ 0x5A then r + 32 else r
def asciiUp (r : Nat) : Nat := if 0x61 ≤ r ∧ r ≤ 0x7A then r - 32 else r

theorem asciiTable_ascii : AsciiTable asciiLo asciiUp := by
  intro b _
  rw [lowerB_toNat, upperB_toNat]
  unfold asciiLo asciiUp
  constructor
  · by_cases h : isUpper b = true
    · rw [if_pos h, if_pos ((isUpper_iff b).mp h)]
    · rw [if_neg h, if_neg (fun hh => h ((isUpper_iff b).mpr hh))]
  · by_cases h : isLower b = true
    · rw [if_pos h, if_pos ((isLower_iff b).mp h)]
    · rw [if_neg h, if_neg (fun hh => h ((isLower_iff b).mpr hh))]

-- "fooBar-baz_2X &q": in the domain; the three styles on it
example : inDomain [0x66,0x6F,0x6F,0x42,0x61,0x72,0x2D,0x62,0x61,0x7A,0x5F,0x32,0x58,0x20,0x26,0x71] = true := by decide
example : camelCase asciiLo asciiUp [0x66,0x6F,0x6F,0x42,0x61,0x72,0x2D,0x62,0x61,0x7A] =
    [0x66,0x6F,0x6F,0x62,0x61,0x72,0x42,0x61,0x7A] := by decide
example : snakeCase asciiLo [0x66,0x6F,0x6F,0x42,0x61,0x72,0x2D,0x62,0x61,0x7A] =
    .ok [0x66,0x6F,0x6F,0x5F,0x62,0x61,0x72,0x5F,0x62,0x61,0x7A] := by decide
example : kebabCase asciiLo [0x66,0x6F,0x6F,0x42,0x61,0x72,0x2D,0x62,0x61,0x7A] =
    .ok [0x66,0x6F,0x6F,0x2D,0x62,0x61,0x72,0x2D,0x62,0x61,0x7A] := by decide
-- the checkers reject a lost letter, a foreign separator and a non-initial capital
example : delimOk 0x5F [0x61,0x2D,0x62] [0x61,0x5F] [0x61,0x5F] = false := by decide
example : delimOk 0x5F [0x61,0x2D,0x62] [0x61,0x2D,0x62] [0x61,0x2D,0x62] = false := by decide
example : camelOk [0x61,0x62,0x2D,0x63] [0x61,0x42,0x43] = false := by decide
example : camelOk [0x61,0x62,0x2D,0x63] [0x61,0x62,0x43] = true := by decide

-- idempotence and the initials clause on the example: Snake("fooBar-baz") = "foo_bar_baz" is a fixed point;
-- Camel("fooBar-baz") = "foobarBaz" has its only capital where the second word begins
example : snakeCase asciiLo [0x66,0x6F,0x6F,0x5F,0x62,0x61,0x72,0x5F,0x62,0x61,0x7A] =
    .ok [0x66,0x6F,0x6F,0x5F,0x62,0x61,0x72,0x5F,0x62,0x61,0x7A] := by decide
example : camelOk [0x66,0x6F,0x6F,0x42,0x61,0x72,0x2D,0x62,0x61,0x7A]
    (camelCase asciiLo asciiUp [0x66,0x6F,0x6F,0x42,0x61,0x72,0x2D,0x62,0x61,0x7A]) = true := by decide
-- the idempotence check is not vacuous: a text with a trailing delimiter would be rejected
example : delimOk 0x5F [0x61] [0x61] [0x61, 0x5F] = false := by decide

end GoguVerif.Theorems.C15
