import GoguVerif.Gen.Funcs2
import GoguVerif.Model.C12
import GoguVerif.Theorems.C12
/-!
# The regenerated tie for `Reverse` and `Reject` (C12), part A of `GenTieMore2`

`Gen/Funcs2.lean` is produced by the translator from the Go source: Go `int` as `Int`, slices as `Array`s,
every index / slice expression failing exactly when Go panics, loops running on FUEL (`Out.hang` when it runs
out).  The theorems below state, for ALL slices, callbacks and every SUFFICIENT amount of fuel, that the
regenerated definition computes exactly the outcome of the hand-written model of `Model/C12.lean` (slices as
`List`s, counters as `Nat`s).
-/
namespace GoguVerif.Theorems.GenTieMore2
open GoguVerif GoguVerif.Gen.Funcs2

variable {α : Type}

/-! ## bridging lemmas -/

/-- the model's outcome (C12: ok / panic) as an outcome of the regenerated code -/
def toOut12 {β : Type} : Model.C12.Outcome β → Out β
  | .ok b => .ok b
  | .panic => .panic

/-- an `Option` (`none` = Go panics) as an outcome -/
def optOut {β : Type} : Option β → Out β
  | some b => .ok b
  | none => .panic

@[simp] theorem bind_ok {β γ : Type} (b : β) (f : β → Out γ) : Out.bind (Out.ok b) f = f b := rfl
@[simp] theorem bind_panic {β γ : Type} (f : β → Out γ) : Out.bind (Out.panic : Out β) f = Out.panic := rfl
@[simp] theorem bind_hang {β γ : Type} (f : β → Out γ) : Out.bind (Out.hang : Out β) f = Out.hang := rfl
@[simp] theorem bind_optOut_some {β γ : Type} (b : β) (f : β → Out γ) : Out.bind (optOut (some b)) f = f b := rfl
@[simp] theorem bind_optOut_none {β γ : Type} (f : β → Out γ) :
    Out.bind (optOut (none : Option β)) f = Out.panic := rfl
@[simp] theorem toOut12_ok {β : Type} (b : β) : toOut12 (Model.C12.Outcome.ok b) = Out.ok b := rfl
@[simp] theorem toOut12_panic {β : Type} : toOut12 (Model.C12.Outcome.panic : Model.C12.Outcome β) = Out.panic := rfl

theorem bind_assoc {β γ δ : Type} (x : Out β) (f : β → Out γ) (g : γ → Out δ) :
    Out.bind (Out.bind x f) g = Out.bind x (fun b => Out.bind (f b) g) := by
  cases x <;> rfl

theorem hIdx_nat (s : Array α) (i : Nat) : hIdx s (i : Int) = optOut s[i]? := by
  unfold hIdx
  have h : ¬ ((i : Int) < 0) := by omega
  simp only [h, if_false, Int.toNat_natCast]
  cases s[i]? <;> rfl

theorem hIdx_lt (s : Array α) (i : Nat) (h : i < s.size) : hIdx s (i : Int) = .ok s[i] := by
  rw [hIdx_nat]; simp [h, optOut]

theorem hIdx_ge (s : Array α) (i : Nat) (h : s.size ≤ i) : hIdx s (i : Int) = .panic := by
  rw [hIdx_nat]
  have : s[i]? = none := by simp; omega
  rw [this]; rfl

theorem hSet_nat (s : Array α) (i : Nat) (v : α) :
    hSet s (i : Int) v = if h : i < s.size then .ok (s.set i v h) else .panic := by
  unfold hSet
  have h : ¬ ((i : Int) < 0) := by omega
  simp only [h, if_false, Int.toNat_natCast]

theorem hSet_lt (s : Array α) (i : Nat) (v : α) (h : i < s.size) : hSet s (i : Int) v = .ok (s.set i v h) := by
  rw [hSet_nat]; simp [h]

theorem hSet_ge (s : Array α) (i : Nat) (v : α) (h : s.size ≤ i) : hSet s (i : Int) v = .panic := by
  rw [hSet_nat]
  have : ¬ i < s.size := by omega
  simp [this]

theorem hSlice_nat (s : Array α) (lo hi : Nat) (h1 : lo ≤ hi) (h2 : hi ≤ s.size) :
    hSlice s (lo : Int) (hi : Int) = .ok (s.extract lo hi) := by
  unfold hSlice
  have h : 0 ≤ (lo : Int) ∧ (lo : Int) ≤ (hi : Int) ∧ (hi : Int) ≤ (s.size : Int) := by omega
  simp only [h, and_self, if_true, Int.toNat_natCast]

/-! ## `Reverse` -/

example : (3 : Nat) - 0 + 1 ≤ 4 := by decide

/-- the regenerated loop of `Reverse`, started at `i`, `j = j1 - 1`, leaves in `sl` exactly what the model's loop
(which keeps the second counter as `j + 1`) yields — including the panics of out-of-range counters — whenever
the fuel exceeds `j1 - i` -/
theorem reverse_loop_tie [Inhabited α] [DecidableEq α] (fuel : Nat) (sl : Array α) (i j1 : Nat)
    (hf : j1 - i + 1 ≤ fuel) :
    Out.bind (Reverse_loop1 fuel sl (i : Int) ((j1 : Int) - 1)) (fun r => Out.ok r.1.toList)
      = toOut12 (Model.C12.reverseLoop sl.toList i j1) := by
  induction fuel generalizing sl i j1 with
  | zero => omega
  | succ n ih =>
    rw [Reverse_loop1, Model.C12.reverseLoop]
    by_cases h : i + 1 < j1
    · have h' : (i : Int) < (j1 : Int) - 1 := by omega
      have hj : (j1 : Int) - 1 = ((j1 - 1 : Nat) : Int) := by omega
      simp only [h, h', if_true]
      rw [hj]
      unfold Model.C12.swapAt
      by_cases hjs : j1 - 1 < sl.size
      · have hi : i < sl.size := by omega
        have hjs' : j1 - 1 < (sl.set i sl[j1 - 1] hi).size := by simpa using hjs
        rw [hIdx_lt _ _ hjs, hIdx_lt _ _ hi]
        simp only [bind_ok]
        rw [hSet_lt _ _ _ hi]
        simp only [bind_ok]
        rw [hSet_lt _ _ _ hjs']
        simp only [bind_ok]
        have e1 : (i : Int) + 1 = ((i + 1 : Nat) : Int) := by omega
        rw [e1, ih _ _ _ (by omega)]
        simp [hi, hjs]
      · rw [hIdx_ge _ _ (by omega)]
        have : sl.toList[j1 - 1]? = none := by simp; omega
        simp [this]
    · have h' : ¬ (i : Int) < (j1 : Int) - 1 := by omega
      simp [h, h']

example : (#[1, 2, 3] : Array Int).size + 1 ≤ 4 := by decide

/-- with `len(sl) + 1` units of fuel the regenerated loop of `Reverse`, started as `Reverse` starts it, ends
normally, and what it leaves in `sl` is the reversed slice -/
theorem reverse_loop_ok [Inhabited α] [DecidableEq α] (sl : Array α) (fuel : Nat) (hf : sl.size + 1 ≤ fuel) :
    ∃ r, Reverse_loop1 fuel sl (0 : Int) ((sl.size : Int) - 1) = Out.ok r ∧ r.1 = sl.reverse := by
  have h := reverse_loop_tie fuel sl 0 sl.size (by omega)
  have e : Model.C12.reverseLoop sl.toList 0 sl.size = .ok sl.toList.reverse := by
    have := Theorems.C12.reverse_eq sl.toList
    unfold Model.C12.reverse at this
    simpa using this
  rw [e] at h
  simp only [Int.natCast_zero, toOut12_ok] at h
  cases hr : Reverse_loop1 fuel sl (0 : Int) ((sl.size : Int) - 1) with
  | ok r =>
    rw [hr] at h
    simp only [bind_ok, Out.ok.injEq] at h
    refine ⟨r, rfl, ?_⟩
    apply Array.toList_inj.mp
    rw [h]; simp
  | panic => rw [hr] at h; simp at h
  | hang => rw [hr] at h; simp at h

example : (#[1, 2, 3] : Array Int).size + 1 ≤ 4 := by decide

/-- `Reverse` returns the reversed slice, and the argument it wrote to holds the same reversed slice (the Go
function reverses in place and returns its argument) -/
theorem reverse_eq_reverse [Inhabited α] [DecidableEq α] (sl : Array α) (fuel : Nat) (hf : sl.size + 1 ≤ fuel) :
    Reverse fuel sl = Out.ok (sl.reverse, sl.reverse) := by
  obtain ⟨r, hr, h1⟩ := reverse_loop_ok sl fuel hf
  unfold Reverse
  simp only [hr, bind_ok, h1]

example : (#[1, 2, 3] : Array Int).size + 1 ≤ 4 := by decide

/-- model form: the value `Reverse` returns is the outcome of the model's `reverse` -/
theorem reverse_tie [Inhabited α] [DecidableEq α] (sl : Array α) (fuel : Nat) (hf : sl.size + 1 ≤ fuel) :
    Out.bind (Reverse fuel sl) (fun r => Out.ok r.1.toList) = toOut12 (Model.C12.reverse sl.toList) := by
  rw [reverse_eq_reverse sl fuel hf, Theorems.C12.reverse_eq]
  simp

example : (#[1, 2, 3] : Array Int).size + 1 ≤ 4 := by decide

/-- … and so is the slice left in the argument (second component: the written `sl`) -/
theorem reverse_tie_arg [Inhabited α] [DecidableEq α] (sl : Array α) (fuel : Nat) (hf : sl.size + 1 ≤ fuel) :
    Out.bind (Reverse fuel sl) (fun r => Out.ok r.2.toList) = toOut12 (Model.C12.reverse sl.toList) := by
  rw [reverse_eq_reverse sl fuel hf, Theorems.C12.reverse_eq]
  simp

/-- with no fuel the loop hangs (the bound of `reverse_eq_reverse` is about sufficiency, not necessity) -/
theorem reverse_zero_fuel [Inhabited α] [DecidableEq α] (sl : Array α) : Reverse 0 sl = Out.hang := rfl

/-! ## `Reject` -/

theorem toList_remove (s : Array α) (i : Nat) :
    (s.extract 0 i ++ s.extract (i + 1) s.size).toList = s.toList.take i ++ s.toList.drop (i + 1) := by
  simp only [Array.toList_append, Array.toList_extract, List.extract, Nat.sub_zero, List.drop_zero]
  rw [List.take_of_length_le (l := List.drop (i + 1) s.toList) (by simp)]

example : (#[1, 2, 3] : Array Int).size - 0 + 1 ≤ 4 := by decide

/-- the regenerated loop of `Reject`, started at index `i`, ends normally with the slice the model's loop
yields, whenever the fuel exceeds `len(slice) - i` (an iteration either removes an element or advances `i`) -/
theorem reject_loop_tie [Inhabited α] [DecidableEq α] (fn : α → Bool) (fuel : Nat) (slice : Array α) (i : Nat)
    (hf : slice.size - i + 1 ≤ fuel) :
    Out.bind (Reject_loop1 fn fuel slice (i : Int)) (fun r => Out.ok r.1)
      = Out.ok (Model.C12.rejectLoop fn slice.toList i).toArray := by
  induction fuel generalizing slice i with
  | zero => omega
  | succ n ih =>
    rw [Reject_loop1, Model.C12.rejectLoop]
    by_cases h : i < slice.size
    · have h' : (i : Int) < (slice.size : Int) := by omega
      have hl : i < slice.toList.length := by simpa using h
      simp only [h', if_true, hl, dite_true, Array.getElem_toList]
      rw [hIdx_lt _ _ h]
      simp only [bind_ok]
      by_cases hfn : fn slice[i] = true
      · have e0 : (0 : Int) = ((0 : Nat) : Int) := rfl
        have e1 : (i : Int) + 1 = ((i + 1 : Nat) : Int) := by omega
        simp only [hfn, if_true]
        rw [e0, e1, hSlice_nat _ _ _ (by omega) (by omega), hSlice_nat _ _ _ (by omega) (by omega)]
        simp only [bind_ok]
        have e3 : (i : Int) - 1 + 1 = (i : Int) := by omega
        simp only [e3]
        rw [ih _ _ (by simp; omega), toList_remove]
      · have hfn' : fn slice[i] = false := by simpa using hfn
        simp only [hfn', Bool.false_eq_true, if_false, bind_ok]
        have e1 : (i : Int) + 1 = ((i + 1 : Nat) : Int) := by omega
        rw [e1, ih _ _ (by omega)]
    · have h' : ¬ (i : Int) < (slice.size : Int) := by omega
      have hl : ¬ i < slice.toList.length := by simpa using h
      simp [h', h]

example : (#[1, 2, 3] : Array Int).size + 1 ≤ 4 := by decide

/-- with `len(slice) + 1` units of fuel `Reject` ends normally (no panic, no hang) and returns exactly the slice
of the model's `reject` -/
theorem reject_tie [Inhabited α] [DecidableEq α] (slice : Array α) (fn : α → Bool) (fuel : Nat)
    (hf : slice.size + 1 ≤ fuel) :
    Reject fuel slice fn = Out.ok (Model.C12.reject slice.toList fn).toArray := by
  have h := reject_loop_tie fn fuel slice 0 (by omega)
  unfold Reject Model.C12.reject
  simpa using h

example : (#[1, 2, 3] : Array Int).size + 1 ≤ 4 := by decide

/-- `.toList` form of `reject_tie` -/
theorem reject_tie_toList [Inhabited α] [DecidableEq α] (slice : Array α) (fn : α → Bool) (fuel : Nat)
    (hf : slice.size + 1 ≤ fuel) :
    Out.bind (Reject fuel slice fn) (fun r => Out.ok r.toList) = Out.ok (Model.C12.reject slice.toList fn) := by
  rw [reject_tie slice fn fuel hf]; rfl

example : (#[1, 2, 3] : Array Int).size + 1 ≤ 4 := by decide

/-- … hence `Reject` is the filter by the negated predicate (`Lemmas.C12.rejectLoop_eq`) -/
theorem reject_eq_filter [Inhabited α] [DecidableEq α] (slice : Array α) (fn : α → Bool) (fuel : Nat)
    (hf : slice.size + 1 ≤ fuel) :
    Reject fuel slice fn = Out.ok (slice.filter (fun x => !fn x)) := by
  rw [reject_tie slice fn fuel hf]
  unfold Model.C12.reject
  rw [Lemmas.C12.rejectLoop_eq _ _ _ (Nat.zero_le _)]
  simp only [List.take_zero, List.nil_append, List.drop_zero]
  congr 1
  apply Array.toList_inj.mp
  simp

/-- with no fuel the loop hangs -/
theorem reject_zero_fuel [Inhabited α] [DecidableEq α] (slice : Array α) (fn : α → Bool) :
    Reject 0 slice fn = Out.hang := rfl

end GoguVerif.Theorems.GenTieMore2
