import GoguVerif.Lemmas.C03
/-!
# C03 — property theorems (heap order and conservation)

About the array model `Model/Heap.lean` of `heap/heap.go` + `heap/heapsort.go`, for ALL states,
inputs and histories (no bound).  Helper lemmas are in `Lemmas/C03/*.lean`.

* `Inv` — representation invariant: comparator is a strict weak order (`SWO`) and `data` is in heap
  order (`IsHeap`: no slot precedes its parent slot `(i-1)/2`).
* `abs` — abstraction to the specification state (comparator, multiset of held elements).
* `step_refines` / `C03_partial` — every operation / every history answers what `Spec.C03.SpecStep`
  admits and keeps `Inv`, provided every `Delete` hits the root or the last slot (`DeleteSafe`).
* `C03_full_false`, `delete_preserves_inv_false` — the full-strength statements are FALSE of the code
  (known finding `heap.delete-no-resift`): concrete witness evaluated on the model.
* `step_conserves` / `C03_conservation` — conservation half and panic/hang-freedom for ALL
  histories, with no restriction on `Delete` (holds in every state, heap order or not).
* `sort_spec`, `fromSlice_terminates`, clause corollaries.
-/
namespace GoguVerif.Theorems.C03
open GoguVerif.Model.Heap GoguVerif.Spec.C03 GoguVerif.Lemmas.C03

variable {α : Type}

/-! ## Comparators of the harness satisfy the hypothesis -/

def ltI : Comp Int := fun a b => decide (a < b)
def gtI : Comp Int := fun a b => decide (a > b)
def kltI : Comp Int := fun a b => decide (a.tdiv 10 < b.tdiv 10)
def kgtI : Comp Int := fun a b => decide (a.tdiv 10 > b.tdiv 10)

theorem swo_lt : SWO ltI := by
  constructor <;> intros <;> simp only [ltI, decide_eq_true_eq, decide_eq_false_iff_not] at * <;> omega
theorem swo_gt : SWO gtI := by
  constructor <;> intros <;> simp only [gtI, decide_eq_true_eq, decide_eq_false_iff_not] at * <;> omega
theorem swo_klt : SWO kltI := by
  constructor <;> intros <;> simp only [kltI, decide_eq_true_eq, decide_eq_false_iff_not] at * <;> omega
theorem swo_kgt : SWO kgtI := by
  constructor <;> intros <;> simp only [kgtI, decide_eq_true_eq, decide_eq_false_iff_not] at * <;> omega

/-! ## Invariant, abstraction, side conditions -/

/-- abstraction function: the comparator and the multiset (list up to permutation) of `data` -/
def abs (h : Heap α) : SState α := { comp := h.comp, held := h.data.toList }

/-- comparators handed to `Convert` / `FromSlice` are strict weak orders -/
def OpOK : Op α → Prop
  | .convert c => SWO c
  | .fromSlice _ c => SWO c
  | _ => True

/-- the exact side condition of the known finding: the slot `getIndex` finds is the root or the last -/
def DeleteSafe [DecidableEq α] (h : Heap α) : Op α → Prop
  | .delete v => ∀ idx, getIndex h.data v = some idx → idx = 0 ∨ idx = h.data.size - 1
  | _ => True

/-- The invariant holds initially (`NewHeap`). -/
theorem inv_init {comp : Comp α} (hc : SWO comp) : Inv (new comp) := inv_new hc

theorem perm_length_size {l : List α} {d : Array α} (p : d.toList.Perm l) : d.size = l.length := by
  rw [← p.length_eq]; simp

theorem size_beq_zero (d : Array α) : (d.size == 0) = d.toList.isEmpty := by
  rcases d with ⟨l⟩; cases l <;> rfl

/-- **Per-operation refinement.**  From a state satisfying `Inv`, every operation (with a `Delete`
that hits the root or the last slot) terminates without panic, keeps `Inv`, and its answer and
successor state are admitted by the specification. -/
theorem step_refines [Inhabited α] [DecidableEq α] (h : Heap α) (op : Op α)
    (hi : Inv h) (hop : OpOK op) (hsafe : DeleteSafe h op) :
    ∃ h' out, step h op = .ok (h', out) ∧ Inv h' ∧ SpecStep (abs h) op out (abs h') := by
  cases op with
  | push v =>
    obtain ⟨h', e, c, i, p⟩ := push_spec h hi v
    exact ⟨h', .unit, by simp only [step, e], i, rfl, c, p⟩
  | pushn vs =>
    obtain ⟨h', e, c, i, p⟩ := pushAll_spec h hi vs
    exact ⟨h', .unit, by simp only [step, e], i, rfl, c, p⟩
  | pop =>
    obtain ⟨h', x, e, c, i, r⟩ := pop_spec h hi
    refine ⟨h', .val x, by simp only [step, e], i, c, ?_⟩
    rcases r with ⟨r1, r2, r3⟩ | ⟨r1, r2⟩
    · exact Or.inl ⟨r1, by rw [r2], r3⟩
    · exact Or.inr ⟨x, rfl, r1, r2⟩
  | peek =>
    obtain ⟨x, e, r⟩ := peek_spec h hi
    refine ⟨h, .val x, by simp only [step, e], hi, rfl, List.Perm.refl _, ?_⟩
    rcases r with ⟨r1, r2⟩ | r
    · exact Or.inl ⟨r1, by rw [r2]⟩
    · exact Or.inr ⟨x, rfl, r⟩
  | size => exact ⟨h, _, rfl, hi, by simp [abs], rfl, List.Perm.refl _⟩
  | isEmpty => exact ⟨h, _, rfl, hi, congrArg Out.bool (size_beq_zero h.data), rfl, List.Perm.refl _⟩
  | clear =>
    obtain ⟨c, i, e⟩ := clear_spec h hi
    exact ⟨clear h, .unit, rfl, i, rfl, c, e⟩
  | values => exact ⟨h, _, rfl, hi, ⟨_, rfl, List.Perm.refl _⟩, rfl, List.Perm.refl _⟩
  | delete v =>
    obtain ⟨h', b, e, c, r⟩ := delete_spec h v
    refine ⟨h', .del b, by simp only [step, e], delete_inv_partial h hi v hsafe e, c, ?_⟩
    rcases r with ⟨r1, r2, r3⟩ | ⟨r1, r2, r3⟩
    · exact Or.inl ⟨r2, by rw [r1], r3⟩
    · exact Or.inr ⟨r2, by rw [r1], by rw [r3]⟩
  | convert c =>
    obtain ⟨h', e, hc', i, p⟩ := convert_spec h c hop
    exact ⟨h', .unit, by simp only [step, e], i, rfl, hc', p⟩
  | merge arg =>
    obtain ⟨h2, e2, _, _, p2⟩ := pushAll_spec (new h.comp) (inv_new hi.1) arg
    have p2' : h2.data.toList.Perm arg := by simpa [new] using p2
    obtain ⟨nh, e, c, i, p⟩ := merge_spec h h2 hi
    have pn : nh.data.toList.Perm (h.data.toList ++ arg) := p.trans (List.Perm.append_left _ p2')
    refine ⟨nh, .merged h.data.toList h2.data.toList nh.data.toList h.data.size h2.data.size,
      by simp only [step, e2, e], i, c, pn, ?_⟩
    refine ⟨_, _, _, ?_, List.Perm.refl _, p2', pn⟩
    simp [abs, perm_length_size p2']
  | meld arg =>
    obtain ⟨h2, e2, _, _, p2⟩ := pushAll_spec (new h.comp) (inv_new hi.1) arg
    have p2' : h2.data.toList.Perm arg := by simpa [new] using p2
    obtain ⟨h', h2', nh, e, c, i, p, z1, z2⟩ := meld_spec h h2 hi
    have pn : nh.data.toList.Perm (h.data.toList ++ arg) := p.trans (List.Perm.append_left _ p2')
    refine ⟨nh, .merged h'.data.toList h2'.data.toList nh.data.toList h'.data.size h2'.data.size,
      by simp only [step, e2, e], i, c, pn, ?_⟩
    exact ⟨_, by simp [z1, z2], pn⟩
  | fromSlice data c =>
    obtain ⟨h', e, hc', i, p, _⟩ := fromSlice_spec data.toArray c hop
    have p' : h'.data.toList.Perm data := by simpa using p
    exact ⟨h', .vals h'.data.toList, by simp only [step, e], i, ⟨_, rfl, p'⟩, hc', p'⟩

/-- A history all of whose `Delete`s (along the model's own run) hit the root or the last slot, and
whose new comparators are strict weak orders. -/
def SafeRun [Inhabited α] [DecidableEq α] : Heap α → List (Op α) → Prop
  | _, [] => True
  | h, op :: ops => OpOK op ∧ DeleteSafe h op ∧ ∀ h' o, step h op = .ok (h', o) → SafeRun h' ops

theorem safeRun_cons [Inhabited α] [DecidableEq α] {h h1 : Heap α} {op : Op α} {o1 : Out α}
    {ops : List (Op α)} (hop : OpOK op) (hsafe : DeleteSafe h op) (e : step h op = .ok (h1, o1))
    (hrest : SafeRun h1 ops) : SafeRun h (op :: ops) :=
  ⟨hop, hsafe, fun h' o e' => by rw [e] at e'; cases e'; exact hrest⟩

/-
FULL-STRENGTH STATEMENT (false of the code as it is: known finding `heap.delete-no-resift`, see
`C03_full_false` below):

  theorem C03 (h : Heap α) (ops : List (Op α)) (hi : Inv h) (hop : ∀ op ∈ ops, OpOK op) :
      ∃ h' outs, run h ops = .ok (h', outs) ∧ SpecRun (abs h) ops outs (abs h')
-/

/-- **C03, for every history in which each `Delete` hits the root or the last slot**: the model
never panics or hangs, and all its answers are admitted by the specification (extremal `Peek`/`Pop`,
exact multiset and `Size` bookkeeping); the invariant holds at the end.  What is missing for the
full statement is exactly heap order after `Delete` of a victim at a slot that is neither the root
nor the last (the code moves the last element there and sifts only from the root). -/
theorem C03_partial [Inhabited α] [DecidableEq α] (h : Heap α) (ops : List (Op α))
    (hi : Inv h) (hs : SafeRun h ops) :
    ∃ h' outs, run h ops = .ok (h', outs) ∧ Inv h' ∧ SpecRun (abs h) ops outs (abs h') := by
  induction ops generalizing h with
  | nil => exact ⟨h, [], rfl, hi, .nil _⟩
  | cons op ops ih =>
    obtain ⟨hop, hsafe, hrest⟩ := hs
    obtain ⟨h1, o, e, i1, s1⟩ := step_refines h op hi hop hsafe
    obtain ⟨h2, os, e2, i2, s2⟩ := ih h1 i1 (hrest h1 o e)
    exact ⟨h2, o :: os, by simp only [run, e, e2], i2, .cons s1 s2⟩

/-! ## The known finding: the full statements are false -/

/-- heap `FromSlice([4,3,2,2,3,1,1], >)` of the recorded witness -/
def witnessHeap : Heap Int := { comp := gtI, data := #[4, 3, 2, 2, 3, 1, 1] }

theorem witness_fromSlice : fromSlice #[4, 3, 2, 2, 3, 1, 1] gtI = .ok witnessHeap := by rfl

theorem witness_inv : Inv witnessHeap := by
  obtain ⟨h', e, _, i, _⟩ := fromSlice_spec #[4, 3, 2, 2, 3, 1, 1] gtI swo_gt
  rw [witness_fromSlice] at e
  cases e; exact i

theorem witness_delete :
    delete witnessHeap 3 = .ok ({ comp := gtI, data := #[4, 1, 2, 2, 3, 1] }, true) := by rfl

/-- **Negation of "`Delete` preserves heap order"**: `Delete(3)` on the witness heap (victim at
slot 1, neither root nor last) leaves `[4 1 2 2 3 1]`, where slot 4 (`3`) precedes its parent slot 1
(`1`) under `>`. -/
theorem delete_preserves_inv_false :
    ¬ (∀ (h : Heap Int) (v : Int) (h' : Heap Int) (b : Bool), Inv h → delete h v = .ok (h', b) → Inv h') := by
  intro H
  have := (H witnessHeap 3 _ _ witness_inv witness_delete).2 4 (by decide) (by decide) 3 1 rfl rfl
  exact absurd this (by decide)

/-- the recorded witness as a history from the empty max-heap -/
def witnessOps : List (Op Int) := [.fromSlice [4, 3, 2, 2, 3, 1, 1] gtI, .delete 3, .pop, .pop]

/-- what the model (and the real code) answers: the second `Pop` returns 2 although 3 is held -/
theorem witness_run :
    run (new gtI) witnessOps =
      .ok ({ comp := gtI, data := #[3, 1, 1, 2] },
           [.vals [4, 3, 2, 2, 3, 1, 1], .del true, .val 4, .val 2]) := by rfl

theorem witness_ops_ok : ∀ op ∈ witnessOps, OpOK op := by
  intro op hop
  simp only [witnessOps, List.mem_cons, List.mem_nil_iff, or_false] at hop
  rcases hop with rfl | rfl | rfl | rfl
  · exact swo_gt
  all_goals trivial

/-- **Negation of the full-strength C03**: on the recorded witness the model's answers are NOT
admitted by the specification (the last `Pop` is not extremal). -/
theorem C03_full_false :
    ¬ (∀ (h : Heap Int) (ops : List (Op Int)), Inv h → (∀ op ∈ ops, OpOK op) →
        ∃ h' outs, run h ops = .ok (h', outs) ∧ SpecRun (abs h) ops outs (abs h')) := by
  intro H
  obtain ⟨h', outs, e, sr⟩ := H (new gtI) witnessOps (inv_init swo_gt) witness_ops_ok
  rw [witness_run] at e
  cases e
  -- invert the four specification steps
  cases sr with
  | cons s1 sr =>
    cases sr with
    | cons s2 sr =>
      cases sr with
      | cons s3 sr =>
        cases sr with
        | cons s4 sr =>
          rename_i t1 t2 t3 t4
          obtain ⟨_, c1, p1⟩ := s1
          obtain ⟨c2, r2⟩ := s2
          obtain ⟨c3, r3⟩ := s3
          obtain ⟨c4, r4⟩ := s4
          have m2 : t2.held.Perm ([4, 3, 2, 2, 3, 1, 1].erase 3) := by
            rcases r2 with ⟨_, _, p⟩ | ⟨_, e, _⟩
            · exact p.trans (List.Perm.erase 3 p1)
            · cases e
          have m3 : t3.held.Perm (([4, 3, 2, 2, 3, 1, 1].erase 3).erase 4) := by
            rcases r3 with ⟨_, e, _⟩ | ⟨x, e, _, p⟩
            · cases e
            · cases e; exact p.trans (List.Perm.erase 4 m2)
          rcases r4 with ⟨e0, _, _⟩ | ⟨x, e, ex, _⟩
          · rw [e0] at m3
            have := m3.length_eq
            simp at this
          · cases e
            have h3 : (3 : Int) ∈ t3.held := m3.mem_iff.mpr (by decide)
            have := ex.2 3 h3
            rw [c3, c2, c1] at this
            exact absurd this (by decide)

/-! ## Conservation and panic-freedom for ALL histories (no restriction on `Delete`) -/

/-- **Per-operation conservation, in every state** (heap order is not assumed): no operation
panics or hangs, `Peek`/`Pop` answer a held element (the zero value when empty), `Pop` and a
successful `Delete` remove exactly one occurrence, `Delete` reports absence otherwise, `Merge`
leaves both inputs intact, `Meld` empties them, `Convert`/`FromSlice` keep the elements, `Size`,
`IsEmpty`, `GetValues` report the multiset. -/
theorem step_conserves [Inhabited α] [DecidableEq α] (h : Heap α) (op : Op α)
    (hc : SWO h.comp) (hop : OpOK op) :
    ∃ h' out, step h op = .ok (h', out) ∧ SWO h'.comp ∧ ConsStep (abs h) op out (abs h') := by
  cases op with
  | push v =>
    obtain ⟨h', e, c, p⟩ := push_cons h hc.irrefl v
    exact ⟨h', .unit, by simp only [step, e], c ▸ hc, rfl, c, p⟩
  | pushn vs =>
    obtain ⟨h', e, c, p⟩ := pushAll_cons h hc.irrefl vs
    exact ⟨h', .unit, by simp only [step, e], c ▸ hc, rfl, c, p⟩
  | pop =>
    obtain ⟨h', x, e, c, r⟩ := pop_cons h
    refine ⟨h', .val x, by simp only [step, e], c ▸ hc, c, ?_⟩
    rcases r with ⟨r1, r2, r3⟩ | ⟨r1, r2⟩
    · exact Or.inl ⟨r1, by rw [r2], r3⟩
    · exact Or.inr ⟨x, rfl, r1, r2⟩
  | peek =>
    obtain ⟨x, e, r⟩ := peek_cons h
    refine ⟨h, .val x, by simp only [step, e], hc, rfl, List.Perm.refl _, ?_⟩
    rcases r with ⟨r1, r2⟩ | r
    · exact Or.inl ⟨r1, by rw [r2]⟩
    · exact Or.inr ⟨x, rfl, r⟩
  | size => exact ⟨h, _, rfl, hc, by simp [abs], rfl, List.Perm.refl _⟩
  | isEmpty => exact ⟨h, _, rfl, hc, congrArg Out.bool (size_beq_zero h.data), rfl, List.Perm.refl _⟩
  | clear =>
    refine ⟨clear h, .unit, rfl, ?_, rfl, ?_, ?_⟩ <;> unfold clear <;> split
    · exact hc
    · exact hc
    · rfl
    · rfl
    · rename_i h0; simpa [abs] using h0
    · rfl
  | values => exact ⟨h, _, rfl, hc, ⟨_, rfl, List.Perm.refl _⟩, rfl, List.Perm.refl _⟩
  | delete v =>
    obtain ⟨h', b, e, c, r⟩ := delete_spec h v
    refine ⟨h', .del b, by simp only [step, e], c ▸ hc, c, ?_⟩
    rcases r with ⟨r1, r2, r3⟩ | ⟨r1, r2, r3⟩
    · exact Or.inl ⟨r2, by rw [r1], r3⟩
    · exact Or.inr ⟨r2, by rw [r1], by rw [r3]⟩
  | convert c =>
    obtain ⟨h', e, hc', _, p⟩ := convert_spec h c hop
    exact ⟨h', .unit, by simp only [step, e], hc' ▸ hop, rfl, hc', p⟩
  | merge arg =>
    obtain ⟨h2, e2, _, p2⟩ := pushAll_cons (new h.comp) hc.irrefl arg
    have p2' : h2.data.toList.Perm arg := by simpa [new] using p2
    obtain ⟨nh, e, c, p⟩ := merge_cons h h2 hc.irrefl
    have pn : nh.data.toList.Perm (h.data.toList ++ arg) := p.trans (List.Perm.append_left _ p2')
    refine ⟨nh, .merged h.data.toList h2.data.toList nh.data.toList h.data.size h2.data.size,
      by simp only [step, e2, e], c ▸ hc, c, pn, ?_⟩
    refine ⟨_, _, _, ?_, List.Perm.refl _, p2', pn⟩
    simp [abs, perm_length_size p2']
  | meld arg =>
    obtain ⟨h2, e2, _, p2⟩ := pushAll_cons (new h.comp) hc.irrefl arg
    have p2' : h2.data.toList.Perm arg := by simpa [new] using p2
    obtain ⟨h', h2', nh, e, c, p, z1, z2⟩ := meld_cons h h2 hc.irrefl
    have pn : nh.data.toList.Perm (h.data.toList ++ arg) := p.trans (List.Perm.append_left _ p2')
    refine ⟨nh, .merged h'.data.toList h2'.data.toList nh.data.toList h'.data.size h2'.data.size,
      by simp only [step, e2, e], c ▸ hc, c, pn, ?_⟩
    exact ⟨_, by simp [z1, z2], pn⟩
  | fromSlice data c =>
    obtain ⟨h', e, hc', _, p, _⟩ := fromSlice_spec data.toArray c hop
    have p' : h'.data.toList.Perm data := by simpa using p
    exact ⟨h', .vals h'.data.toList, by simp only [step, e], hc' ▸ hop, ⟨_, rfl, p'⟩, hc', p'⟩

/-- **Conservation and panic/hang-freedom for EVERY history** over strict-weak-order comparators —
including histories that run into the `Delete` defect. -/
theorem C03_conservation [Inhabited α] [DecidableEq α] (h : Heap α) (ops : List (Op α))
    (hc : SWO h.comp) (hop : ∀ op ∈ ops, OpOK op) :
    ∃ h' outs, run h ops = .ok (h', outs) ∧ ConsRun (abs h) ops outs (abs h') := by
  induction ops generalizing h with
  | nil => exact ⟨h, [], rfl, .nil _⟩
  | cons op ops ih =>
    obtain ⟨h1, o, e, c1, s1⟩ := step_conserves h op hc (hop op (by simp))
    obtain ⟨h2, os, e2, s2⟩ := ih h1 c1 (fun o ho => hop o (by simp [ho]))
    exact ⟨h2, o :: os, by simp only [run, e, e2], .cons s1 s2⟩

/-! ## Every history, against the specification patched with exactly the known finding

Ghost flag `tainted` (the monitor in `Kinds/Heap.lean` keeps the same flag): set by a `Delete` whose
victim sits neither at the root nor in the last slot, reset by `Clear`, `Convert`, `FromSlice` and
whenever at most one element is left.  While the flag is clear every answer satisfies the full
specification; while it is set, the conservation half. -/

/-- Bool form of `DeleteSafe h (.delete v)` -/
def deleteSafeB [DecidableEq α] (h : Heap α) (v : α) : Bool :=
  match getIndex h.data v with
  | none => true
  | some idx => idx == 0 || idx == h.data.size - 1

theorem deleteSafeB_iff [DecidableEq α] (h : Heap α) (v : α) :
    deleteSafeB h v = true ↔ DeleteSafe h (.delete v) := by
  unfold deleteSafeB DeleteSafe
  cases e : getIndex h.data v with
  | none =>
    simp only [true_iff]
    intro idx h'; rw [e] at h'; cases h'
  | some idx =>
    simp only [Bool.or_eq_true, beq_iff_eq]
    constructor
    · intro hh idx' e'; rw [e] at e'; cases e'; exact hh
    · intro hh; exact hh idx e

def taintNext [DecidableEq α] (h : Heap α) (t : Bool) (op : Op α) (h' : Heap α) : Bool :=
  match op with
  | .clear => false
  | .convert _ => false
  | .fromSlice _ _ => false
  | .delete v => (t || !deleteSafeB h v) && decide (1 < h'.data.size)
  | _ => t && decide (1 < h'.data.size)

/-- the patched specification along the model's run -/
def PatchedRun [Inhabited α] [DecidableEq α] : Heap α → Bool → List (Op α) → List (Out α) → Prop
  | _, _, [], [] => True
  | h, t, op :: ops, o :: os =>
    ∃ h', step h op = .ok (h', o) ∧
      (if t then ConsStep (abs h) op o (abs h') else SpecStep (abs h) op o (abs h')) ∧
      PatchedRun h' (taintNext h t op h') ops os
  | _, _, _, _ => False

theorem inv_of_small (h : Heap α) (hc : SWO h.comp) (hs : h.data.size ≤ 1) : Inv h :=
  ⟨hc, fun i h0 hn => by omega⟩

theorem step_patched [Inhabited α] [DecidableEq α] (h : Heap α) (t : Bool) (op : Op α)
    (hc : SWO h.comp) (hi : t = false → Inv h) (hop : OpOK op) :
    ∃ h' o, step h op = .ok (h', o) ∧ SWO h'.comp ∧
      (if t then ConsStep (abs h) op o (abs h') else SpecStep (abs h) op o (abs h')) ∧
      (taintNext h t op h' = false → Inv h') := by
  obtain ⟨h', o, e, c', cs⟩ := step_conserves h op hc hop
  refine ⟨h', o, e, c', ?_, ?_⟩
  · cases t with
    | true => exact cs
    | false =>
      simp only [Bool.false_eq_true, if_false]
      by_cases safe : DeleteSafe h op
      · obtain ⟨h2, o2, e2, _, ss⟩ := step_refines h op (hi rfl) hop safe
        rw [e] at e2; cases e2; exact ss
      · cases op <;> first | exact absurd trivial safe | exact cs
  · intro ht
    by_cases good : t = false ∧ DeleteSafe h op
    · obtain ⟨h2, o2, e2, i2, _⟩ := step_refines h op (hi good.1) hop good.2
      rw [e] at e2; cases e2; exact i2
    · -- the flag stays set unless the operation resets it or at most one element is left
      cases op
      case clear =>
        simp only [step] at e; cases e
        exact inv_of_small _ c' (by unfold clear; split <;> simp [*])
      case convert c =>
        obtain ⟨h2, e2, _, i2, _⟩ := convert_spec h c hop
        simp only [step, e2] at e; cases e; exact i2
      case fromSlice data c =>
        obtain ⟨h2, e2, _, i2, _⟩ := fromSlice_spec data.toArray c hop
        simp only [step, e2] at e; cases e; exact i2
      case delete v =>
        have hb : (t || !deleteSafeB h v) = true := by
          cases t with
          | true => rfl
          | false =>
            have hns : ¬ DeleteSafe h (.delete v) := fun hs => good ⟨rfl, hs⟩
            rw [← deleteSafeB_iff] at hns
            simp [hns]
        simp only [taintNext, hb, Bool.true_and, decide_eq_false_iff_not] at ht
        exact inv_of_small h' c' (by omega)
      all_goals
        have ht' : t = true := by
          cases t with
          | true => rfl
          | false => exact absurd ⟨rfl, trivial⟩ good
        simp only [taintNext, ht', Bool.true_and, decide_eq_false_iff_not] at ht
        exact inv_of_small h' c' (by omega)

/-- **C03 for EVERY history, against the specification patched with exactly the known finding**
(`C03_partial` in its most general form): the model never panics or hangs; while the ghost flag is
clear — initially, and again after `Clear` / `Convert` / `FromSlice` / shrinking to ≤ 1 element —
every answer is admitted by the full specification (extremal `Peek`/`Pop` included); after a
`Delete` of a victim at a slot that is neither the root nor the last, and until the next reset,
the conservation half still holds for every answer.  Missing for the full property: the order clause
of `Peek`/`Pop` while the flag is set — which is false of the code (`C03_full_false`). -/
theorem C03_patched_partial [Inhabited α] [DecidableEq α] (h : Heap α) (t : Bool) (ops : List (Op α))
    (hc : SWO h.comp) (hi : t = false → Inv h) (hop : ∀ op ∈ ops, OpOK op) :
    ∃ h' outs, run h ops = .ok (h', outs) ∧ PatchedRun h t ops outs := by
  induction ops generalizing h t with
  | nil => exact ⟨h, [], rfl, trivial⟩
  | cons op ops ih =>
    obtain ⟨h1, o, e, c1, s1, i1⟩ := step_patched h t op hc hi (hop op (by simp))
    obtain ⟨h2, os, e2, pr⟩ := ih h1 (taintNext h t op h1) c1 i1 (fun o ho => hop o (by simp [ho]))
    exact ⟨h2, o :: os, by simp only [run, e, e2], ⟨h1, e, s1, pr⟩⟩

/-- `delete_multiset`, in full: `Delete` of a held value succeeds and removes exactly one
occurrence; of an absent value it reports absence and changes nothing; it never panics. -/
theorem delete_multiset [DecidableEq α] (h : Heap α) (v : α) :
    ∃ h' b, delete h v = .ok (h', b) ∧ h'.comp = h.comp ∧
      ((b = true ∧ v ∈ h.data.toList ∧ h'.data.toList.Perm (h.data.toList.erase v)) ∨
       (b = false ∧ v ∉ h.data.toList ∧ h' = h)) := delete_spec h v

/-- **Exactly what `Delete` does to heap order at an inner slot**: the victim found by `getIndex` at
a slot that is neither the root nor the last is overwritten with the last element and nothing else
moves; heap order survives iff that element fits there (does not precede the slot's parent, and no
child of the slot precedes it). -/
theorem delete_order_iff [DecidableEq α] (h : Heap α) (hi : Inv h) (v : α) {idx : Nat}
    (hidx : getIndex h.data v = some idx) (hmid : 0 < idx ∧ idx < h.data.size - 1)
    {h' : Heap α} {b : Bool} (hd : delete h v = .ok (h', b)) :
    Inv h' ↔
      Ok h.comp h.data (h.data.size - 1) ((idx - 1) / 2) ∧
      (∀ c, (c - 1) / 2 = idx → 0 < c → c < h.data.size - 1 → Ok h.comp h.data c (h.data.size - 1)) :=
  delete_heap_iff h hi v hidx hmid hd

/-! ## Clauses of the property as corollaries -/

/-- `Peek` under the invariant: the zero value when empty, else an element no held element precedes. -/
theorem peek_extremal [Inhabited α] (h : Heap α) (hi : Inv h) :
    ∃ x, peek h = .ok x ∧
      ((h.data.toList = [] ∧ x = default) ∨ Extremal h.comp h.data.toList x) := peek_spec h hi

/-- `Pop` under the invariant: extremal element, exactly one occurrence removed, invariant kept. -/
theorem pop_extremal [Inhabited α] [DecidableEq α] (h : Heap α) (hi : Inv h) :
    ∃ h' x, pop h = .ok (h', x) ∧ h'.comp = h.comp ∧ Inv h' ∧
      ((h.data.toList = [] ∧ x = default ∧ h'.data.toList = []) ∨
       (Extremal h.comp h.data.toList x ∧ h'.data.toList.Perm (h.data.toList.erase x))) := pop_spec h hi

/-- The monitor accepts the model's `Peek` answer. -/
theorem peek_checked (h : Heap Int) (hi : Inv h) :
    ∃ x, peek h = .ok x ∧ checkPeek h.comp h.data.toList x = true := by
  obtain ⟨x, e, r⟩ := peek_spec h hi
  refine ⟨x, e, ?_⟩
  rcases r with ⟨r1, r2⟩ | r
  · simp [checkPeek, r1, r2]
  · have hne : h.data.toList.isEmpty = false := by
      cases hl : h.data.toList with
      | nil => have := r.1; rw [hl] at this; cases this
      | cons => rfl
    rw [checkPeek, hne]
    simp only [Bool.false_eq_true, if_false]
    exact decide_eq_true r

/-- `FromSlice` / `Convert` establish the invariant from ANY data (no invariant assumed before). -/
theorem fromSlice_establishes (data : Array α) (c : Comp α) (hc : SWO c) :
    ∃ h', fromSlice data c = .ok h' ∧ h'.comp = c ∧ Inv h' ∧ h'.data.toList.Perm data.toList :=
  let ⟨h', e, c', i, p, _⟩ := fromSlice_spec data c hc; ⟨h', e, c', i, p⟩

theorem convert_establishes (h : Heap α) (c : Comp α) (hc : SWO c) :
    ∃ h', convert h c = .ok h' ∧ h'.comp = c ∧ Inv h' ∧ h'.data.toList.Perm h.data.toList :=
  convert_spec h c hc

/-- **`FromSlice` terminates** although its inner loop overwrites the outer loop variable: the
model's outer loop, given `len² + 1` iterations of fuel, never answers `.hang` (nor `.panic`). -/
theorem fromSlice_terminates (data : Array α) (c : Comp α) (hc : SWO c) :
    fromSlice data c ≠ .hang ∧ fromSlice data c ≠ .panic := by
  obtain ⟨h', e, _⟩ := fromSlice_spec data c hc
  rw [e]; constructor <;> intro h <;> cases h

/-- **`Sort`**: a permutation of the input, ordered oppositely to the comparator (for `i < j`,
`out[i]` does not precede `out[j]`: a max-heap comparator gives ascending order). -/
theorem sort_spec (data : Array α) (c : Comp α) (hc : SWO c) :
    ∃ out, sort data c = .ok out ∧ out.toList.Perm data.toList ∧ SortedOpp c out.toList :=
  sort_spec' data c hc

/-- The monitor accepts the model's `Sort` answer. -/
theorem sort_checked (data : Array Int) (c : Comp Int) (hc : SWO c) :
    ∃ out, sort data c = .ok out ∧ checkSort c data.toList out.toList = true := by
  obtain ⟨out, e, p, s⟩ := sort_spec' data c hc
  refine ⟨out, e, ?_⟩
  simp only [checkSort, sameElems, Bool.and_eq_true, decide_eq_true_eq]
  exact ⟨List.isPerm_iff.mpr p.symm, s⟩

/-- `parent(i) = (i - 1) / 2` on Go `int` (truncating) is what the model computes on `Nat`. -/
theorem parent_matches_go (i : Nat) : ((i : Int) - 1).tdiv 2 = ((parent i : Nat) : Int) := parent_int i

/-! ## Non-vacuity -/

example : SWO ltI ∧ SWO gtI ∧ SWO kltI ∧ SWO kgtI := ⟨swo_lt, swo_gt, swo_klt, swo_kgt⟩
/-- the by-key comparator really has ties (distinct elements, neither precedes the other) -/
example : kltI 10 11 = false ∧ kltI 11 10 = false ∧ (10 : Int) ≠ 11 := by decide
example : Inv witnessHeap := witness_inv
/-- a history with a root `Delete`, a last-slot `Delete` and an absent `Delete` is `SafeRun` -/
example : SafeRun (new ltI) [.push 3, .push 1, .push 2, .delete 1, .delete 3, .delete 9, .pop] := by
  refine safeRun_cons trivial trivial (h1 := ⟨ltI, #[3]⟩) rfl ?_
  refine safeRun_cons trivial trivial (h1 := ⟨ltI, #[1, 3]⟩) rfl ?_
  refine safeRun_cons trivial trivial (h1 := ⟨ltI, #[1, 3, 2]⟩) rfl ?_
  refine safeRun_cons trivial ?_ (h1 := ⟨ltI, #[2, 3]⟩) rfl ?_
  · intro idx hidx
    have : getIndex (⟨ltI, #[1, 3, 2]⟩ : Heap Int).data 1 = some 0 := rfl
    rw [this] at hidx; cases hidx; exact Or.inl rfl
  refine safeRun_cons trivial ?_ (h1 := ⟨ltI, #[2]⟩) rfl ?_
  · intro idx hidx
    have : getIndex (⟨ltI, #[2, 3]⟩ : Heap Int).data 3 = some 1 := rfl
    rw [this] at hidx; cases hidx; exact Or.inr rfl
  refine safeRun_cons trivial ?_ (h1 := ⟨ltI, #[2]⟩) rfl ?_
  · intro idx hidx
    have : getIndex (⟨ltI, #[2]⟩ : Heap Int).data 9 = none := rfl
    rw [this] at hidx; cases hidx
  refine safeRun_cons trivial trivial (h1 := ⟨ltI, #[]⟩) rfl trivial
/-- the witness history violates `DeleteSafe` (victim at slot 1 of 7), so `C03_partial` rightly
does not cover it -/
example : ¬ DeleteSafe witnessHeap (.delete 3) := by
  intro h
  have := h 1 (by rfl)
  exact absurd this (by decide)
/-- on the witness the ghost flag is really set by `Delete(3)` (slot 1 of 7) and is clear again
after a `Convert` -/
example : taintNext witnessHeap false (.delete 3) { comp := gtI, data := #[4, 1, 2, 2, 3, 1] } = true ∧
    taintNext witnessHeap true (.convert ltI) witnessHeap = false := ⟨by rfl, by rfl⟩
/-- `sort` on a concrete input -/
example : sort #[3, 1, 2, 3, 0] gtI = .ok #[0, 1, 2, 3, 3] := by rfl

end GoguVerif.Theorems.C03
