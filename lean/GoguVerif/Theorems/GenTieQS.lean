import GoguVerif.Gen.Containers
import GoguVerif.Model.Queue
import GoguVerif.Model.Stack
/-!
# The regenerated tie for the slice-backed containers (C05 `queue.Queue`, C06 `stack.Stack`)

`Gen/Containers.lean` is produced on every run by the translator (METHOD mode, see translator/frag.go) from
`queue/queue.go` and `stack/stack.go`: every method with the fields of its pointer receiver as variables, a
mutating method returning its results paired with the final fields; index and slice expressions fail exactly
when Go panics (`Res`).  The theorems below state, for ALL states and arguments, that

* no method panics (`…_total`), and
* the regenerated method computes exactly the state and the answer of the hand-written model's `step`
  (`Model.Queue.step`, `Model.Stack.step`), which is what the theorems of C05 / C06 are about.

The element type is `Int` (the translation of the type parameter `T comparable`), `default = 0`.
-/
namespace GoguVerif.Theorems.GenTieQS
open GoguVerif
open GoguVerif.Gen.Funcs (Res Exc goIdx goSlice)
open GoguVerif.Gen.Containers

/-! ## bridging lemmas -/

theorem goIdx_nat (s : List Int) (i : Nat) :
    goIdx s (i : Int) = match s[i]? with | some v => Except.ok v | none => Except.error Exc.panic := by
  unfold goIdx
  have h : ¬ ((i : Int) < 0) := by omega
  simp only [h, if_false, Int.toNat_natCast]
  cases s[i]? <;> rfl

theorem goIdx_zero_cons (x : Int) (r : List Int) : goIdx (x :: r) (0 : Int) = Except.ok x := by
  have := goIdx_nat (x :: r) 0
  simpa using this

theorem goSlice_tail (x : Int) (r : List Int) :
    goSlice (x :: r) (1 : Int) (((x :: r).length : Nat) : Int) = Except.ok r := by
  unfold goSlice
  have h : (0 : Int) ≤ 1 ∧ (1 : Int) ≤ (((x :: r).length : Nat) : Int) ∧
      (((x :: r).length : Nat) : Int) ≤ (((x :: r).length : Nat) : Int) := by
    refine ⟨by omega, ?_, by omega⟩
    simp only [List.length_cons]; omega
  simp only [h, and_self, if_true, Int.toNat_natCast]
  simp

theorem goIdx_last (s : List Int) (h : s ≠ []) :
    goIdx s (((s.length : Nat) : Int) - 1) = Except.ok (s.getLast h) := by
  have hl : 0 < s.length := List.length_pos_iff.mpr h
  have e : ((s.length : Nat) : Int) - 1 = ((s.length - 1 : Nat) : Int) := by omega
  rw [e, goIdx_nat]
  have : s[s.length - 1]? = some (s.getLast h) := by
    rw [List.getLast_eq_getElem]
    exact List.getElem?_eq_getElem (by omega)
  simp only [this]

theorem goSlice_init (s : List Int) (h : s ≠ []) :
    goSlice s (0 : Int) (((s.length : Nat) : Int) - 1) = Except.ok (s.take (s.length - 1)) := by
  have hl : 0 < s.length := List.length_pos_iff.mpr h
  have e : ((s.length : Nat) : Int) - 1 = ((s.length - 1 : Nat) : Int) := by omega
  unfold goSlice
  rw [e]
  have hc : (0 : Int) ≤ 0 ∧ (0 : Int) ≤ ((s.length - 1 : Nat) : Int) ∧ ((s.length - 1 : Nat) : Int) ≤ ((s.length : Nat) : Int) := by
    refine ⟨by omega, by omega, by omega⟩
  simp only [hc, and_self, if_true, Int.toNat_natCast]
  simp

/-- the generated counting search loop = the model's structural search, on the suffix still to be scanned -/
theorem searchLoop_queue (items : List Int) (item : Int) (i : Nat) (rest : List Int) (h : items.drop i = rest) :
    queue.Queue_Search.loop1 items item rest.length (i : Int) ()
      = Except.ok (if Model.Queue.searchLoop item rest then Sum.inl true else Sum.inr ()) := by
  induction rest generalizing i with
  | nil => simp [queue.Queue_Search.loop1, Model.Queue.searchLoop]
  | cons x r ih =>
    have hx : items[i]? = some x := by
      have := congrArg List.head? h
      simpa [List.head?_drop] using this
    have hr : items.drop (i + 1) = r := by
      have := congrArg List.tail h
      simpa [List.tail_drop] using this
    simp only [List.length_cons, queue.Queue_Search.loop1, goIdx_nat, hx, Model.Queue.searchLoop]
    by_cases e : x = item
    · simp [e]
    · have := ih (i + 1) hr
      simp only [e, decide_false, Bool.false_eq_true, if_false]
      have hcast : ((i : Int) + 1) = ((i + 1 : Nat) : Int) := by omega
      rw [hcast, this]

theorem searchLoop_stack (items : List Int) (item : Int) (i : Nat) (rest : List Int) (h : items.drop i = rest) :
    stack.Stack_Search.loop1 items item rest.length (i : Int) ()
      = Except.ok (if Model.Stack.searchLoop item rest then Sum.inl true else Sum.inr ()) := by
  induction rest generalizing i with
  | nil => simp [stack.Stack_Search.loop1, Model.Stack.searchLoop]
  | cons x r ih =>
    have hx : items[i]? = some x := by
      have := congrArg List.head? h
      simpa [List.head?_drop] using this
    have hr : items.drop (i + 1) = r := by
      have := congrArg List.tail h
      simpa [List.tail_drop] using this
    simp only [List.length_cons, stack.Stack_Search.loop1, goIdx_nat, hx, Model.Stack.searchLoop]
    by_cases e : x = item
    · simp [e]
    · have := ih (i + 1) hr
      simp only [e, decide_false, Bool.false_eq_true, if_false]
      have hcast : ((i : Int) + 1) = ((i + 1 : Nat) : Int) := by omega
      rw [hcast, this]

/-! ## queue.Queue (C05) -/

open GoguVerif.Spec.C05 in
theorem queue_enqueue_tie (items : List Int) (x : Int) :
    Model.Queue.step items (.enqueue x) = ((queue.Queue_Enqueue items x).2, Out.unit) := by
  simp [Model.Queue.step, queue.Queue_Enqueue]

open GoguVerif.Spec.C05 in
theorem queue_dequeue_tie (items : List Int) :
    queue.Queue_Dequeue items =
      Except.ok (match Model.Queue.step items .dequeue with
        | (s, .deq v e) => ((v, e), s)
        | (s, _) => ((0, true), s)) := by
  cases items with
  | nil => simp [queue.Queue_Dequeue, queue.Queue_size, Model.Queue.step]
  | cons x r =>
    have hne : ¬ (((x :: r).length : Nat) : Int) = 0 := by simp only [List.length_cons]; omega
    simp only [queue.Queue_Dequeue, queue.Queue_size, hne, decide_false, Bool.false_eq_true, if_false,
      goIdx_zero_cons, goSlice_tail, Model.Queue.step]
    simp

open GoguVerif.Spec.C05 in
theorem queue_peek_tie (items : List Int) :
    Model.Queue.step items .peek = (items, match queue.Queue_Peek items with
      | Except.ok v => Out.val v
      | Except.error _ => Out.unit) ∧ (∃ v, queue.Queue_Peek items = Except.ok v) := by
  cases items with
  | nil => simp [queue.Queue_Peek, queue.Queue_size, Model.Queue.step]
  | cons x r =>
    have hne : ¬ (((x :: r).length : Nat) : Int) = 0 := by simp only [List.length_cons]; omega
    simp only [queue.Queue_Peek, queue.Queue_size, hne, decide_false, Bool.false_eq_true, if_false,
      goIdx_zero_cons, Model.Queue.step]
    simp

open GoguVerif.Spec.C05 in
theorem queue_search_tie (items : List Int) (x : Int) :
    queue.Queue_Search items x = Except.ok (Model.Queue.searchLoop x items) ∧
    Model.Queue.step items (.search x) = (items, Out.bool (Model.Queue.searchLoop x items)) := by
  refine ⟨?_, by simp [Model.Queue.step]⟩
  have h := searchLoop_queue items x 0 items (by simp)
  simp only [queue.Queue_Search, queue.Queue_size, Int.sub_zero, Int.toNat_natCast]
  have h0 : ((0 : Nat) : Int) = (0 : Int) := rfl
  rw [h0] at h
  rw [h]
  cases Model.Queue.searchLoop x items <;> simp

open GoguVerif.Spec.C05 in
theorem queue_size_tie (items : List Int) :
    Model.Queue.step items .size = (items, Out.int (queue.Queue_Size items)) := by
  simp [Model.Queue.step, queue.Queue_Size, queue.Queue_size]

open GoguVerif.Spec.C05 in
theorem queue_clear_tie (items : List Int) :
    Model.Queue.step items .clear = ((queue.Queue_Clear items).2, Out.unit) := by
  simp [Model.Queue.step, queue.Queue_Clear]

/-! ## stack.Stack (C06) -/

open GoguVerif.Spec.C06 in
theorem stack_push_tie (items : List Int) (x : Int) :
    Model.Stack.step items (.push x) = ((stack.Stack_Push items x).2, Out.unit) := by
  simp [Model.Stack.step, stack.Stack_Push]

open GoguVerif.Spec.C06 in
theorem stack_pop_tie (items : List Int) :
    stack.Stack_Pop items =
      Except.ok (match Model.Stack.step items .pop with
        | (s, .val v) => (v, s)
        | (s, _) => (0, s)) := by
  by_cases h : items = []
  · subst h; simp [stack.Stack_Pop, stack.Stack_size, Model.Stack.step]
  · have hl : 0 < items.length := List.length_pos_iff.mpr h
    have hne : ¬ ((items.length : Nat) : Int) = 0 := by omega
    have hne' : ¬ items.length = 0 := by omega
    simp only [stack.Stack_Pop, stack.Stack_size, hne, decide_false, Bool.false_eq_true, if_false,
      goIdx_last items h, goSlice_init items h, Model.Stack.step, hne', List.getLast?_eq_some_getLast h]

open GoguVerif.Spec.C06 in
theorem stack_peek_tie (items : List Int) :
    Model.Stack.step items .peek = (items, match stack.Stack_Peek items with
      | Except.ok v => Out.val v
      | Except.error _ => Out.unit) ∧ (∃ v, stack.Stack_Peek items = Except.ok v) := by
  by_cases h : items = []
  · subst h; simp [stack.Stack_Peek, stack.Stack_size, Model.Stack.step]
  · have hl : 0 < items.length := List.length_pos_iff.mpr h
    have hne : ¬ ((items.length : Nat) : Int) = 0 := by omega
    have hne' : ¬ items.length = 0 := by omega
    simp only [stack.Stack_Peek, stack.Stack_size, hne, decide_false, Bool.false_eq_true, if_false,
      goIdx_last items h, Model.Stack.step, hne', List.getLast?_eq_some_getLast h]
    simp

open GoguVerif.Spec.C06 in
theorem stack_search_tie (items : List Int) (x : Int) :
    stack.Stack_Search items x = Except.ok (Model.Stack.searchLoop x items) ∧
    Model.Stack.step items (.search x) = (items, Out.bool (Model.Stack.searchLoop x items)) := by
  refine ⟨?_, by simp [Model.Stack.step]⟩
  have h := searchLoop_stack items x 0 items (by simp)
  simp only [stack.Stack_Search, stack.Stack_size, Int.sub_zero, Int.toNat_natCast]
  have h0 : ((0 : Nat) : Int) = (0 : Int) := rfl
  rw [h0] at h
  rw [h]
  cases Model.Stack.searchLoop x items <;> simp

open GoguVerif.Spec.C06 in
theorem stack_size_tie (items : List Int) :
    Model.Stack.step items .size = (items, Out.int (stack.Stack_Size items)) := by
  simp [Model.Stack.step, stack.Stack_Size, stack.Stack_size]

/-! ## non-vacuity: the regenerated definitions compute -/

example : queue.Queue_Dequeue [4, 5, 6] = Except.ok ((4, false), [5, 6]) := by rfl
example : queue.Queue_Dequeue [] = Except.ok ((0, true), []) := by rfl
example : stack.Stack_Pop [4, 5, 6] = Except.ok (6, [4, 5]) := by rfl
example : stack.Stack_Search [4, 5, 6] 5 = Except.ok true := by rfl

end GoguVerif.Theorems.GenTieQS
