import GoguVerif.Lemmas.C16Helpers3
import GoguVerif.Theorems.C16Helpers2
import GoguVerif.Theorems.C14
/-!
# C16 — the remaining in-place helpers: `heap.FromSlice`, `heap.Sort`, `Omit`, `OmitBy`

The specification lets exactly six helpers write in place.  `Theorems/C16Helpers.lean` has `Reverse` and
`Reject`; here are the other four, over the models of `Model/StoreHelpers3.lean` (the Go statements one
after the other, every read from the CURRENT store).

**`heap.FromSlice(data, comp)`** — for ALL stores, all well-formed `data` headers (any offset, any spare
capacity, other slices sharing the array), an ARBITRARY comparator and every amount of fuel: a run that
ends (`fromSliceStore … = some (σ', res)`: no panic, fuel not exhausted) returns `data` itself as the
heap's backing slice, and is `InPlace σ σ' data` — no allocation, every other array unchanged, in `data`'s
array only cells of the window `[off, off+len)` may differ (so the spare capacity behind `len` is
untouched, `fromSlice_spare_untouched`), every other well-formed slice that does not overlap the window
keeps its elements (`fromSlice_keeps`); the elements of `data` are PERMUTED (`List.Perm`); and the store
is reached by indexed writes through the one register holding `data`
(`fromSlice_is_runInPlace`, so `Theorems.C16.runInPlace_frame` applies).  The heap ORDER is C03's business.
Fuel is necessary: the inner loop overwrites the outer loop variable, and with `comp = (· ≤ ·)` on `[1, 1]`
the Go loop never ends (`fromSlice_nonstrict_never_ends`: `none` for EVERY fuel).

**`heap.Sort(data, comp)`** — it does BOTH: it sorts `data` in place (`FromSlice`, then
`swap(data, 0, i)` / `heap.moveDown(i, 0)` on `heap.data = data`) and returns `heap.GetValues()`, a fresh
copy.  `sort_refines`: a run that ends goes through an intermediate store `σ1` with `InPlace σ σ1 data`
and `data` permuted (reached by writes through `data`'s register), then allocates ONE array
(`Frame σ1 σ2`, `σ2.length = σ.length + 1`), and the result is a well-formed header on that fresh array
(`res.arr = σ.length`: it aliases nothing that existed) showing what `data` now shows — a permutation of
the original elements.  `sort_keeps`: every other non-overlapping slice keeps its elements.  The ORDER of
the result is C03's business.

**`Omit(collection, keys...)`, `OmitBy(collection, fn)`** — over the map store `MStore` (map objects by id):
for EVERY visiting order `order` (any function whose result is a permutation of the entries), `Omit` never
panics (well-formed `keys` slice), returns the slice store as it came and the SAME map id; only that map
object changes (`μ'.length = μ.length`, every other id keeps its entries); and the entries of that map
afterwards are the answer of the value-level model `Model.C14.Omit` / `OmitBy` on the entries before —
hence `Spec.C14.OmitSpec` / `OmitBySpec`: exactly the entries not selected are kept, unchanged, the
selected ones are gone (`omit_kept_gone`, `omitBy_kept_gone`).  The right-hand sides do not mention
`order`: any two visiting orders leave the SAME map store (`omit_order_independent`,
`omitBy_order_independent`).

Assumed: as in `Theorems/C16Helpers.lean` (element type `Int`, pure callbacks, `WF` for argument headers,
that `Model/StoreHelpers3.lean` mirrors the Go statements — read off the source, not regenerated);
Go `int`s are unbounded `Int`s; map keys and values are `Int`; a map object has pairwise distinct keys
(`Spec.C14.WF`).  Core Lean only.
-/
set_option autoImplicit false
namespace GoguVerif.Theorems.C16Helpers3
open GoguVerif Model.Store Model.StoreHelpers Model.StoreHelpers3 Lemmas.C16Helpers Lemmas.C16Helpers3
open Theorems.C16 Theorems.C16Helpers

/-! ## heap.FromSlice -/

/-- every run of `FromSlice`'s loops that ends is a `Step` on `data` -/
theorem fromSliceStore_step {fuel : Nat} {σ σ' : Store} {data res : Slice} {comp : Int → Int → Bool}
    (h : WF σ data) (hr : fromSliceStore fuel σ data comp = some (σ', res)) : res = data ∧ Step σ σ' data := by
  unfold fromSliceStore at hr
  split at hr
  · rename_i σ1 hl
    cases hr
    exact ⟨rfl, fromSliceLoop_step comp fuel fuel _ σ h hl⟩
  · cases hr

/-- **heap.FromSlice** (in place): a run that ends — for any comparator, any fuel — returns `data` itself
as the heap's backing slice; it writes only cells of `data`'s window (`InPlace`), allocates nothing,
permutes the elements of `data`, and leaves `data` a well-formed header. -/
theorem fromSlice_inplace (fuel : Nat) (σ σ' : Store) (data res : Slice) (comp : Int → Int → Bool)
    (h : WF σ data) (hr : fromSliceStore fuel σ data comp = some (σ', res)) :
    res = data ∧ InPlace σ σ' data ∧ (elems σ' data).Perm (elems σ data) ∧ σ'.length = σ.length ∧
      WF σ' data := by
  obtain ⟨e, s⟩ := fromSliceStore_step h hr
  exact ⟨e, s.inplace, s.perm, s.inplace.1, s.wf h⟩

/-- every other well-formed slice — in another array, or in `data`'s array but not overlapping the window
`[off, off+len)` — shows the same elements after `FromSlice` -/
theorem fromSlice_keeps (fuel : Nat) (σ σ' : Store) (data res : Slice) (comp : Int → Int → Bool)
    (h : WF σ data) (hr : fromSliceStore fuel σ data comp = some (σ', res)) {t : Slice} (ht : WF σ t)
    (hdis : t.arr ≠ data.arr ∨ t.off + t.len ≤ data.off ∨ data.off + data.len ≤ t.off) :
    elems σ' t = elems σ t ∧ WF σ' t :=
  inplace_keeps (fromSlice_inplace fuel σ σ' data res comp h hr).2.1 ht hdis

/-- the spare capacity of `data`'s array beyond `len(data)` is untouched -/
theorem fromSlice_spare_untouched (fuel : Nat) (σ σ' : Store) (data res : Slice) (comp : Int → Int → Bool)
    (h : WF σ data) (hr : fromSliceStore fuel σ data comp = some (σ', res)) :
    elems σ' { arr := data.arr, off := data.off + data.len, len := data.cap - data.len, cap := data.cap - data.len } =
    elems σ { arr := data.arr, off := data.off + data.len, len := data.cap - data.len, cap := data.cap - data.len } := by
  refine (fromSlice_keeps fuel σ σ' data res comp h hr (t := ⟨data.arr, data.off + data.len, _, _⟩) ?_
    (Or.inr (Or.inr (Nat.le_refl _)))).1
  obtain ⟨hl, a, ha, hc⟩ := h
  exact ⟨Nat.le_refl _, a, ha, by simp only; omega⟩

/-- **heap.FromSlice is an instance of the generic in-place class** (`Model.Store.runInPlace`): its store is
reached by a sequence of indexed writes through the ONE register holding `data`. -/
theorem fromSlice_is_runInPlace (fuel : Nat) (σ σ' : Store) (data res : Slice) (comp : Int → Int → Bool)
    (h : WF σ data) (hr : fromSliceStore fuel σ data comp = some (σ', res)) (regs : List Slice) (r : Nat)
    (hreg : regs[r]? = some data) :
    ∃ ws, runInPlace { σ := σ, regs := regs } r ws = { σ := σ', regs := regs } :=
  (fromSliceStore_step h hr).2.writes regs r hreg

/-! ### concrete store with sentinels -/

def σh : Store := [[-555, 5, 3, 8, 1, 9, 2, -777, -777], [2, 9, -888]]
def argh : Slice := { arr := 0, off := 1, len := 6, cap := 8 }
theorem wf_argh : WF σh argh := ⟨by decide, _, rfl, by decide⟩

/-- min-heap of `5 3 8 1 9 2` inside the window; sentinels in front, behind (spare capacity) and the other
array are untouched; the heap's backing slice is the argument.  Too little fuel: `none`. -/
example : fromSliceStore 20 σh argh (fun a b => decide (a < b)) =
      some ([[-555, 1, 3, 2, 5, 9, 8, -777, -777], [2, 9, -888]], argh) ∧
    fromSliceStore 5 σh argh (fun a b => decide (a < b)) = none := by decide

/-- **why fuel**: with the non-strict comparator `<=` and two equal elements `FromSlice` never ends — the
inner loop swaps the root down and sets `i = 1`, the outer `i--` makes it `0` again, for ever.  The model
answers `none` for EVERY amount of fuel. -/
theorem fromSlice_nonstrict_never_ends (fuel : Nat) :
    fromSliceStore fuel [[-555, 1, 1, -777]] { arr := 0, off := 1, len := 2, cap := 3 }
      (fun a b => decide (a ≤ b)) = none := by
  have key : ∀ f n, fromSliceLoop (fun a b => decide (a ≤ b)) { arr := 0, off := 1, len := 2, cap := 3 } f n 0
      [[-555, 1, 1, -777]] = none := by
    intro f n
    induction n with
    | zero => rfl
    | succ n ih =>
      match f with
      | 0 => rfl
      | 1 => rfl
      | f + 2 =>
        have hs : siftLoop (fun a b => decide (a ≤ b)) { arr := 0, off := 1, len := 2, cap := 3 } (f + 2) 0
            [[-555, 1, 1, -777]] = some ([[-555, 1, 1, -777]], 1) := by
          rfl
        simp only [fromSliceLoop, hs]
        exact ih
  unfold fromSliceStore
  rw [show Int.tdiv ((2 : Nat) : Int) 2 - 1 = 0 from by decide, key]

/-! ## heap.Sort -/

/-- **heap.Sort**: in place on `data` AND a fresh copy as the result.  A run that ends passes an
intermediate store `σ1` (after the last `moveDown`): `InPlace σ σ1 data`, `data` permuted, reached by writes
through `data`'s register; then `GetValues` allocates one array: every array of `σ1` is unchanged in `σ2`,
the result is a well-formed header on the fresh array (it aliases nothing that existed) and shows what
`data` shows — a permutation of the original elements. -/
theorem sort_refines (fuel : Nat) (σ σ2 : Store) (data res : Slice) (comp : Int → Int → Bool)
    (h : WF σ data) (hr : sortStore fuel σ data comp = some (σ2, res)) :
    ∃ σ1, InPlace σ σ1 data ∧ (elems σ1 data).Perm (elems σ data) ∧
      (∀ (regs : List Slice) (r : Nat), regs[r]? = some data →
        ∃ ws, runInPlace { σ := σ, regs := regs } r ws = { σ := σ1, regs := regs }) ∧
      Frame σ1 σ2 ∧ σ2.length = σ.length + 1 ∧ res.arr = σ.length ∧ WF σ2 res ∧
      elems σ2 res = elems σ2 data ∧ elems σ2 data = elems σ1 data ∧ (elems σ2 res).Perm (elems σ data) := by
  unfold sortStore at hr
  split at hr
  · cases hr
  · rename_i σa hdata hfs
    obtain ⟨e, s1⟩ := fromSliceStore_step h hfs
    subst e
    split at hr
    · cases hr
    · rename_i σ1 hsl
      have s2 := sortLoop_step comp fuel _ σa (s1.wf h) hsl
      have s := s1.trans s2
      have hw1 := s.wf h
      obtain ⟨σ', res', g1, g2, g3, g4, g5, g6, _⟩ := getValuesStore_spec hw1
      rw [g1] at hr
      cases hr
      have hk := frame_keeps g3 hw1
      refine ⟨σ1, s.inplace, s.perm, s.writes, g3, by rw [g5, s.inplace.1], by rw [g4, s.inplace.1], g6, ?_, hk.1, ?_⟩
      · rw [g2, hk.1]
      · rw [g2]; exact s.perm

/-- every other well-formed slice that does not overlap `data`'s window shows the same elements after
`Sort` (the result lies in an array that did not exist) -/
theorem sort_keeps (fuel : Nat) (σ σ2 : Store) (data res : Slice) (comp : Int → Int → Bool)
    (h : WF σ data) (hr : sortStore fuel σ data comp = some (σ2, res)) {t : Slice} (ht : WF σ t)
    (hdis : t.arr ≠ data.arr ∨ t.off + t.len ≤ data.off ∨ data.off + data.len ≤ t.off) :
    elems σ2 t = elems σ t ∧ WF σ2 t := by
  obtain ⟨σ1, hp, _, _, hf, _⟩ := sort_refines fuel σ σ2 data res comp h hr
  obtain ⟨k1, k2⟩ := inplace_keeps hp ht hdis
  obtain ⟨f1, _, f3⟩ := frame_keeps hf k2
  exact ⟨f1.trans k1, f3⟩

/-- descending with `<` (a min-heap), ascending with `>`; the argument's window holds the sorted elements,
the sentinels are untouched, the result is a fresh array -/
example : sortStore 20 σh argh (fun a b => decide (a < b)) =
      some ([[-555, 9, 8, 5, 3, 2, 1, -777, -777], [2, 9, -888], [9, 8, 5, 3, 2, 1]],
        { arr := 2, off := 0, len := 6, cap := 6 }) ∧
    sortStore 20 σh argh (fun a b => decide (a > b)) =
      some ([[-555, 1, 2, 3, 5, 8, 9, -777, -777], [2, 9, -888], [1, 2, 3, 5, 8, 9]],
        { arr := 2, off := 0, len := 6, cap := 6 }) := by decide

/-! ## Omit / OmitBy -/

/-- **OmitBy**, for every visiting order: the result is the SAME map object; only that object changes; its
entries afterwards are the value-level model's answer on the entries before, i.e. exactly the entries `fn`
does not select. -/
theorem omitBy_refines (order : List (Int × Int) → List (Int × Int)) (μ : MStore) (id : Nat)
    (fn : Int → Int → Bool) (hm : Spec.C14.WF (mget μ id)) (ho : (order (mget μ id)).Perm (mget μ id)) :
    (omitByStoreIn order μ id fn).2 = id ∧
    mget (omitByStoreIn order μ id fn).1 id = Model.C14.OmitBy (mget μ id) fn ∧
    Spec.C14.OmitBySpec (mget μ id) fn (mget (omitByStoreIn order μ id fn).1 id) ∧
    (omitByStoreIn order μ id fn).1.length = μ.length ∧
    ∀ j, j ≠ id → (omitByStoreIn order μ id fn).1[j]? = μ[j]? := by
  have hnd : Spec.C14.WF (order (mget μ id)) := Theorems.C14.wf_perm hm ho.symm
  obtain ⟨g1, g2, g3⟩ := omitByLoopM_spec fn id (order (mget μ id)) μ hm hnd (fun e he => ho.subset he)
  have e : mget (omitByStoreIn order μ id fn).1 id = Model.C14.OmitBy (mget μ id) fn := by
    rw [Theorems.C14.omitBy_eq_filter hm]
    simp only [omitByStoreIn, g1]
    apply List.filter_congr
    intro x hx
    simp [ho.symm.subset hx]
  refine ⟨rfl, e, ?_, g2, g3⟩
  rw [e]
  exact Theorems.C14.omitBy_spec hm fn

/-- kept unchanged / gone, spelled out -/
theorem omitBy_kept_gone (order : List (Int × Int) → List (Int × Int)) (μ : MStore) (id : Nat)
    (fn : Int → Int → Bool) (hm : Spec.C14.WF (mget μ id)) (ho : (order (mget μ id)).Perm (mget μ id)) :
    (∀ e ∈ mget μ id, fn e.1 e.2 = false → e ∈ mget (omitByStoreIn order μ id fn).1 id) ∧
    (∀ e ∈ mget (omitByStoreIn order μ id fn).1 id, e ∈ mget μ id ∧ fn e.1 e.2 = false) := by
  obtain ⟨_, _, ⟨_, h2, h3⟩, _⟩ := omitBy_refines order μ id fn hm ho
  exact ⟨fun e he hf => h3 e he (by simp [hf]), fun e he => ⟨(h2 e he).1, by simpa using (h2 e he).2⟩⟩

/-- **Omit**, for every visiting order: never panics (well-formed `keys`), the slice store is returned as
it came — `keys` is only read —, the result is the SAME map object; only that object changes; its entries
afterwards are the value-level model's answer, i.e. exactly the entries whose key is not listed. -/
theorem omit_refines (order : List (Int × Int) → List (Int × Int)) (σ : Store) (μ : MStore) (id : Nat)
    (keys : Slice) (hk : WF σ keys) (hm : Spec.C14.WF (mget μ id))
    (ho : (order (mget μ id)).Perm (mget μ id)) :
    ∃ μ', omitStoreIn order σ μ id keys = some (σ, μ', id) ∧
      mget μ' id = Model.C14.Omit (mget μ id) (elems σ keys) ∧
      Spec.C14.OmitSpec (mget μ id) (elems σ keys) (mget μ' id) ∧
      μ'.length = μ.length ∧ ∀ j, j ≠ id → μ'[j]? = μ[j]? := by
  obtain ⟨_, g2, _, g4, g5⟩ := omitBy_refines order μ id (fun k _ => decide (k ∈ elems σ keys)) hm ho
  refine ⟨(omitByStoreIn order μ id (fun k _ => decide (k ∈ elems σ keys))).1, ?_, ?_, ?_, g4, g5⟩
  · simp only [omitStoreIn, omitLoopM_eq hk, omitByStoreIn]
  · rw [g2, Theorems.C14.omit_eq_filter hm, Theorems.C14.omitBy_eq_filter hm]
  · rw [g2, Theorems.C14.omitBy_eq_filter hm, ← Theorems.C14.omit_eq_filter hm]
    exact Theorems.C14.omit_spec hm _

/-- kept unchanged / gone, spelled out -/
theorem omit_kept_gone (order : List (Int × Int) → List (Int × Int)) (σ : Store) (μ μ' : MStore) (id id' : Nat)
    (keys : Slice) (hk : WF σ keys) (hm : Spec.C14.WF (mget μ id))
    (ho : (order (mget μ id)).Perm (mget μ id)) (hr : omitStoreIn order σ μ id keys = some (σ, μ', id')) :
    id' = id ∧ (∀ e ∈ mget μ id, e.1 ∉ elems σ keys → e ∈ mget μ' id) ∧
    (∀ e ∈ mget μ' id, e ∈ mget μ id ∧ e.1 ∉ elems σ keys) := by
  obtain ⟨μ1, h1, _, ⟨_, h2, h3⟩, _⟩ := omit_refines order σ μ id keys hk hm ho
  rw [h1] at hr
  cases hr
  exact ⟨rfl, fun e he hf => h3 e he (by simp [hf]), fun e he => ⟨(h2 e he).1, by simpa using (h2 e he).2⟩⟩

/-- two map stores of the same length that agree on every id but `id`, and show the same entries at `id`, are
equal -/
theorem mstore_ext {μ μ1 μ2 : MStore} {id : Nat} (l1 : μ1.length = μ.length) (l2 : μ2.length = μ.length)
    (o1 : ∀ j, j ≠ id → μ1[j]? = μ[j]?) (o2 : ∀ j, j ≠ id → μ2[j]? = μ[j]?)
    (e : mget μ1 id = mget μ2 id) : μ1 = μ2 := by
  apply List.ext_getElem?
  intro j
  by_cases hj : j = id
  · subst hj
    by_cases hlt : j < μ.length
    · have h1 : j < μ1.length := by omega
      have h2 : j < μ2.length := by omega
      unfold mget at e
      rw [List.getElem?_eq_getElem h1, List.getElem?_eq_getElem h2] at e ⊢
      simpa using e
    · rw [List.getElem?_eq_none (by omega), List.getElem?_eq_none (by omega)]
  · rw [o1 j hj, o2 j hj]

/-- **the iteration order does not matter**: any two visiting orders leave the SAME map store -/
theorem omitBy_order_independent (o1 o2 : List (Int × Int) → List (Int × Int)) (μ : MStore) (id : Nat)
    (fn : Int → Int → Bool) (hm : Spec.C14.WF (mget μ id)) (h1 : (o1 (mget μ id)).Perm (mget μ id))
    (h2 : (o2 (mget μ id)).Perm (mget μ id)) : omitByStoreIn o1 μ id fn = omitByStoreIn o2 μ id fn := by
  obtain ⟨_, a2, _, a4, a5⟩ := omitBy_refines o1 μ id fn hm h1
  obtain ⟨_, b2, _, b4, b5⟩ := omitBy_refines o2 μ id fn hm h2
  have := mstore_ext a4 b4 a5 b5 (a2.trans b2.symm)
  exact Prod.ext this rfl

theorem omit_order_independent (o1 o2 : List (Int × Int) → List (Int × Int)) (σ : Store) (μ : MStore) (id : Nat)
    (keys : Slice) (hk : WF σ keys) (hm : Spec.C14.WF (mget μ id)) (h1 : (o1 (mget μ id)).Perm (mget μ id))
    (h2 : (o2 (mget μ id)).Perm (mget μ id)) : omitStoreIn o1 σ μ id keys = omitStoreIn o2 σ μ id keys := by
  have := omitBy_order_independent o1 o2 μ id (fun k _ => decide (k ∈ elems σ keys)) hm h1 h2
  simp only [omitByStoreIn, Prod.mk.injEq, and_true] at this
  simp only [omitStoreIn, omitLoopM_eq hk, this]

/-! ### concrete stores: other map objects around the argument -/

def μx : MStore := [[(7, 70)], [(1, 10), (2, 20), (3, 30), (4, 40)], [(2, 99)]]
/-- `keys = [2, 9]` (array 1 of `σh`, with a sentinel behind) -/
def keysx : Slice := { arr := 1, off := 0, len := 2, cap := 3 }
theorem wf_keysx : WF σh keysx := ⟨by decide, _, rfl, by decide⟩

/-- map 1 loses key `2`; map 2 also has key `2` and keeps it; the slice store is unchanged; the same answer
in the opposite visiting order -/
example : omitStore σh μx 1 keysx = some (σh, [[(7, 70)], [(1, 10), (3, 30), (4, 40)], [(2, 99)]], 1) ∧
    omitStoreIn List.reverse σh μx 1 keysx = some (σh, [[(7, 70)], [(1, 10), (3, 30), (4, 40)], [(2, 99)]], 1) :=
  ⟨by decide, by decide⟩

example : omitByStore μx 1 (fun k v => k % 2 == 1 || v == 40) = ([[(7, 70)], [(2, 20)], [(2, 99)]], 1) ∧
    omitByStoreIn List.reverse μx 1 (fun k v => k % 2 == 1 || v == 40) = ([[(7, 70)], [(2, 20)], [(2, 99)]], 1) :=
  ⟨by decide, by decide⟩

/-- the hypotheses of `omit_refines` / `omitBy_refines` hold of that store -/
example : WF σh keysx ∧ Spec.C14.WF (mget μx 1) ∧ (List.reverse (mget μx 1)).Perm (mget μx 1) :=
  ⟨wf_keysx, by decide, List.reverse_perm _⟩

/-! ## agreement with the regenerated effect table -/

/-- the helpers covered here with what is PROVED about them: (name, parameters written through, parameters
the result may alias).  `heap.FromSlice` returns a `*Heap[T]`, not a slice: the table's alias column is
about slice / map results (that the heap keeps `data` as its backing slice is `fromSlice_inplace`'s
`res = data`); `heap.Sort` returns a fresh copy (`sort_refines`: `res.arr = σ.length`); `Omit` / `OmitBy`
return their map argument (`omit_refines`, `omitBy_refines`: the same id). -/
def covered3 : List (String × List Nat × List Nat) :=
  [("heap.FromSlice", [0], []), ("heap.Sort", [0], []), ("Omit", [0], [0]), ("OmitBy", [0], [0])]

/-- OBLIGATION re-checked against the current source on every run: for every helper covered here the
translator's regenerated classification (`Gen.effects`) is the one proved above. -/
theorem covered3_agree_with_table :
    covered3.all (fun c => Gen.effects.any (fun e => e.name == c.1 && e.writes == c.2.1 && e.aliases == c.2.2 &&
      !e.selfAssignOnly)) = true := by decide

end GoguVerif.Theorems.C16Helpers3
