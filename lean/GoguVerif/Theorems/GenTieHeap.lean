import GoguVerif.Gen.Heap
import GoguVerif.Model.Heap
import GoguVerif.Lemmas.C03.Up
/-!
# The regenerated tie for `heap/heap.go` (C03)

`Gen/Heap.lean` is produced on every run by the translator (`translator/frag_heap.go`) from `heap/heap.go`:
Go `int` as `Int`, the slice field `data` as an `Array` threaded through (a function hands back the fields and
slices it writes), every index / slice operation failing exactly when Go panics, loops and recursion whose
termination is not structural running on FUEL (`Out.hang` when it runs out).

The theorems below state, for ALL comparators, slices, indices and ALL amounts of fuel, that the regenerated
definition computes exactly the outcome (value, `panic` or `hang`) of the hand-written definition of
`Model/Heap.lean`, which is what the theorems of C03 are about.  The model's indices are `Nat`; the
regenerated ones are `Int`: the ties are stated at `((i : Nat) : Int)` and, separately, a negative index is
shown to panic (`…_neg`), which the model cannot even express.
-/
namespace GoguVerif.Theorems.GenTieHeap
open GoguVerif
open GoguVerif.Gen.Heap
open GoguVerif.Model.Heap (Outcome Comp)

variable {α : Type}

/-- the model's outcome as an outcome of the regenerated code -/
def toOut {β : Type} : Outcome β → Out β
  | .ok b => .ok b
  | .panic => .panic
  | .hang => .hang

/-- an `Option` of the model (`none` = Go panics) as an outcome -/
def optOut {β : Type} : Option β → Out β
  | some b => .ok b
  | none => .panic

def Outcome.map {β γ : Type} (f : β → γ) : Outcome β → Outcome γ
  | .ok b => .ok (f b)
  | .panic => .panic
  | .hang => .hang

/-! ## bridging lemmas -/

@[simp] theorem bind_ok {β γ : Type} (b : β) (f : β → Out γ) : Out.bind (Out.ok b) f = f b := rfl
@[simp] theorem bind_panic {β γ : Type} (f : β → Out γ) : Out.bind (Out.panic : Out β) f = Out.panic := rfl
@[simp] theorem bind_hang {β γ : Type} (f : β → Out γ) : Out.bind (Out.hang : Out β) f = Out.hang := rfl
@[simp] theorem bind_optOut_some {β γ : Type} (b : β) (f : β → Out γ) : Out.bind (optOut (some b)) f = f b := rfl
@[simp] theorem bind_optOut_none {β γ : Type} (f : β → Out γ) : Out.bind (optOut (none : Option β)) f = Out.panic := rfl
@[simp] theorem toOut_ok {β : Type} (b : β) : toOut (Outcome.ok b) = Out.ok b := rfl
@[simp] theorem toOut_panic {β : Type} : toOut (Outcome.panic : Outcome β) = Out.panic := rfl
@[simp] theorem toOut_hang {β : Type} : toOut (Outcome.hang : Outcome β) = Out.hang := rfl

theorem bind_toOut_ok {β : Type} (x : Outcome β) : Out.bind (toOut x) (fun b => Out.ok b) = toOut x := by
  cases x <;> rfl

theorem hIdx_nat (s : Array α) (i : Nat) : hIdx s (i : Int) = optOut s[i]? := by
  unfold hIdx
  have h : ¬ ((i : Int) < 0) := by omega
  simp only [h, if_false, Int.toNat_natCast]
  cases s[i]? <;> rfl

theorem hIdx_neg (s : Array α) (i : Int) (h : i < 0) : hIdx s i = .panic := by
  unfold hIdx; simp [h]

theorem hIdx_ne_hang (s : Array α) (i : Int) : hIdx s i ≠ .hang := by
  unfold hIdx
  split
  · simp
  · cases s[i.toNat]? <;> simp

theorem hSet_nat (s : Array α) (i : Nat) (v : α) : hSet s (i : Int) v = optOut (Model.Heap.set? s i v) := by
  unfold hSet Model.Heap.set?
  have h : ¬ ((i : Int) < 0) := by omega
  simp only [h, if_false, Int.toNat_natCast]
  split <;> rfl

/-! ## `swap`, `parent`, `leftChild`, `rightChild` -/

theorem swap_tie [Inhabited α] [DecidableEq α] (d : Array α) (i j : Nat) :
    swap d (i : Int) (j : Int) = optOut (Model.Heap.swap d i j) := by
  unfold Gen.Heap.swap Model.Heap.swap
  rw [hIdx_nat, hIdx_nat]
  by_cases hj : j < d.size
  · by_cases hi : i < d.size
    · have hj' : d[j]? = some d[j] := by simp [hj]
      have hi' : d[i]? = some d[i] := by simp [hi]
      simp only [hj', hi', bind_optOut_some, hSet_nat, Model.Heap.set?, hi, hj, and_self, dite_true, Array.size_set]
      simp [Array.swap, optOut]
    · have hi' : d[i]? = none := by simp; omega
      have hj' : d[j]? = some d[j] := by simp [hj]
      simp [hj', hi', hi, optOut]
  · have hj' : d[j]? = none := by simp; omega
    simp [hj', hj, optOut]

theorem swap_neg [Inhabited α] [DecidableEq α] (d : Array α) (i j : Int) (h : i < 0 ∨ j < 0) :
    swap d i j = .panic := by
  unfold Gen.Heap.swap
  rcases h with h | h
  · by_cases hj : j < 0
    · simp [hIdx_neg _ _ hj]
    · simp only [hIdx_neg _ _ h]
      have := hIdx_ne_hang d j
      cases hx : hIdx d j <;> simp_all
  · simp [hIdx_neg _ _ h]

theorem parent_tie [Inhabited α] [DecidableEq α] (c : Comp α) (d : Array α) (i : Nat) :
    Heap_parent c d (i : Int) = ((Model.Heap.parent i : Nat) : Int) := by
  unfold Heap_parent Model.Heap.parent
  cases i with
  | zero => decide
  | succ k =>
    have : ((k + 1 : Nat) : Int) - 1 = (k : Int) := by omega
    rw [this]
    simp [Int.tdiv]

theorem leftChild_tie [Inhabited α] [DecidableEq α] (c : Comp α) (d : Array α) (i : Nat) :
    Heap_leftChild c d (i : Int) = ((2 * i + 1 : Nat) : Int) := by
  unfold Heap_leftChild; omega

theorem rightChild_tie [Inhabited α] [DecidableEq α] (c : Comp α) (d : Array α) (i : Nat) :
    Heap_rightChild c d (i : Int) = ((2 * i + 2 : Nat) : Int) := by
  unfold Heap_rightChild; omega

/-! ## `moveUp` and `moveDown`: every outcome, for every amount of fuel -/

theorem moveUp_tie [Inhabited α] [DecidableEq α] (c : Comp α) (fuel : Nat) (d : Array α) (i : Nat) :
    Heap_moveUp fuel c d (i : Int) = toOut (Model.Heap.moveUpF c fuel d i) := by
  induction fuel generalizing d i with
  | zero => simp [Heap_moveUp, Heap_moveUp_loop1, Model.Heap.moveUpF]
  | succ fuel ih =>
    unfold Heap_moveUp Heap_moveUp_loop1 Model.Heap.moveUpF
    rw [parent_tie, hIdx_nat, hIdx_nat, swap_tie]
    cases hx : d[i]? with
    | none => cases d[Model.Heap.parent i]? <;> simp
    | some x =>
      cases hp : d[Model.Heap.parent i]? with
      | none => simp
      | some p =>
        simp only [bind_optOut_some]
        by_cases hc : c x p = true
        · simp only [hc, if_true, Bool.not_true, Bool.false_eq_true, if_false]
          cases hs : Model.Heap.swap d i (Model.Heap.parent i) with
          | none => simp
          | some d' =>
            simp only [bind_optOut_some, parent_tie]
            have := ih d' (Model.Heap.parent i)
            unfold Heap_moveUp at this
            exact this
        · simp [hc]

/-- one `if c < n && comp(data[c], data[cur]) { cur = c }` of `moveDown`, as regenerated, is the model's `pick` -/
theorem pick_bridge (c : Comp α) (n : Nat) (d : Array α) (cur ch : Nat) :
    ((if ((ch : Nat) : Int) < (n : Int) then
        Out.bind (hIdx d ((ch : Nat) : Int)) fun t1_ =>
          Out.bind (hIdx d ((cur : Nat) : Int)) fun t2_ =>
            if c t1_ t2_ = true then Out.ok ((ch : Nat) : Int) else Out.ok ((cur : Nat) : Int)
      else Out.ok ((cur : Nat) : Int)) : Out Int)
    = optOut ((Model.Heap.pick c n d cur ch).map (fun k : Nat => (k : Int))) := by
  unfold Model.Heap.pick
  by_cases h : ch < n
  · have h' : ((ch : Nat) : Int) < (n : Int) := by exact_mod_cast h
    simp only [h, h', if_true, hIdx_nat]
    cases d[ch]? <;> cases d[cur]? <;> simp [optOut]
    split <;> simp_all
  · have h' : ¬ ((ch : Nat) : Int) < (n : Int) := by omega
    simp only [h, h', if_false, optOut, Option.map]

theorem moveDown_tie [Inhabited α] [DecidableEq α] (c : Comp α) (fuel : Nat) (d : Array α) (n i : Nat) :
    Heap_moveDown fuel c d (n : Int) (i : Int) = toOut (Model.Heap.moveDownF c n fuel d i) := by
  induction fuel generalizing d i with
  | zero => simp [Heap_moveDown, Model.Heap.moveDownF]
  | succ fuel ih =>
    unfold Heap_moveDown Model.Heap.moveDownF
    simp only [leftChild_tie, rightChild_tie]
    rw [pick_bridge]
    cases Model.Heap.pick c n d i (2 * i + 1) with
    | none => simp
    | some cur =>
      simp only [Option.map, bind_optOut_some]
      rw [pick_bridge]
      cases Model.Heap.pick c n d cur (2 * i + 2) with
      | none => simp
      | some cur' =>
        simp only [Option.map, bind_optOut_some]
        by_cases hne : cur' = i
        · subst hne; simp
        · have hne' : ((cur' : Nat) : Int) ≠ (i : Int) := by omega
          simp only [hne, hne', ne_eq, not_false_eq_true, if_true, swap_tie]
          cases Model.Heap.swap d i cur' with
          | none => simp
          | some d' =>
            simp only [bind_optOut_some, ih]
            exact bind_toOut_ok _

/-- with the model's own fuel -/
theorem moveUp_model_tie [Inhabited α] [DecidableEq α] (c : Comp α) (d : Array α) (i : Nat) :
    Heap_moveUp (i + 1) c d (i : Int) = toOut (Model.Heap.moveUp c d i) := moveUp_tie c (i + 1) d i

theorem moveDown_model_tie [Inhabited α] [DecidableEq α] (c : Comp α) (d : Array α) (n i : Nat) :
    Heap_moveDown (n - i + 1) c d (n : Int) (i : Int) = toOut (Model.Heap.moveDown c n d i) :=
  moveDown_tie c (n - i + 1) d n i

/-! ## the methods without fuel -/

theorem size_tie [Inhabited α] [DecidableEq α] (h : Model.Heap.Heap α) :
    Heap_size h.comp h.data = (h.data.size : Int) ∧ Heap_Size h.comp h.data = (h.data.size : Int) := by
  simp [Heap_size, Heap_Size]

theorem isEmpty_tie [Inhabited α] [DecidableEq α] (h : Model.Heap.Heap α) :
    Heap_IsEmpty h.comp h.data = (h.data.size == 0) := by
  unfold Heap_IsEmpty Heap_size
  by_cases h0 : h.data.size = 0
  · simp [h0]
  · have : ¬ ((h.data.size : Int) = 0) := by omega
    simp [h0, this]

theorem clear_tie [Inhabited α] [DecidableEq α] (h : Model.Heap.Heap α) :
    Heap_Clear h.comp h.data = Out.ok (Model.Heap.clear h).data := by
  unfold Heap_Clear Model.Heap.clear Heap_Size Heap_size
  by_cases h0 : h.data.size = 0
  · simp [h0]
  · have : ¬ ((h.data.size : Int) = 0) := by omega
    simp [h0, this, hSlice]

theorem peek_tie [Inhabited α] [DecidableEq α] (h : Model.Heap.Heap α) :
    Heap_peek h.comp h.data = toOut (Model.Heap.peek h) ∧ Heap_Peek h.comp h.data = toOut (Model.Heap.peek h) := by
  have key : Heap_peek h.comp h.data = toOut (Model.Heap.peek h) := by
    unfold Heap_peek Model.Heap.peek Heap_size
    by_cases h0 : h.data.size = 0
    · simp [h0]
    · have : ¬ ((h.data.size : Int) = 0) := by omega
      have hz := hIdx_nat h.data 0
      simp only [Int.natCast_zero] at hz
      simp only [h0, this, if_false, hz]
      cases h.data[0]? <;> simp [optOut]
  refine ⟨key, ?_⟩
  unfold Heap_Peek
  rw [key]
  exact bind_toOut_ok _

theorem getValues_tie [Inhabited α] [DecidableEq α] (h : Model.Heap.Heap α) :
    Heap_GetValues h.comp h.data = Out.ok h.data := by
  unfold Heap_GetValues hMake hCopy
  have : ¬ ((h.data.size : Int) < 0) := by omega
  simp [this]

/-! ## `Pop` and `Push` -/

theorem hSlice_dropLast (s : Array α) :
    hSlice s 0 ((s.size : Int) - 1) = optOut (Model.Heap.dropLast? s) := by
  unfold hSlice Model.Heap.dropLast?
  by_cases h0 : s.size = 0
  · have : ¬ ((0 : Int) ≤ (s.size : Int) - 1) := by omega
    simp [h0, this, optOut]
  · have h1 : (0 : Int) ≤ (s.size : Int) - 1 := by omega
    have h2 : (s.size : Int) - 1 ≤ (s.size : Int) := by omega
    have h3 : ((s.size : Int) - 1).toNat = s.size - 1 := by omega
    simp only [h0, h1, h2, and_self, Int.le_refl, true_and, if_true, if_false, optOut, h3, Int.toNat_zero]
    congr 1
    apply Array.ext'
    simp [List.dropLast_eq_take]

/-- `Pop` with the fuel the model gives its `moveDown` (`len(data)`): the popped value and the new `data`. -/
theorem pop_tie [Inhabited α] [DecidableEq α] (h : Model.Heap.Heap α) :
    Heap_Pop h.data.size h.comp h.data
      = toOut (Outcome.map (fun r => (r.2, r.1.data)) (Model.Heap.pop h)) := by
  unfold Heap_Pop Model.Heap.pop Heap_peek Heap_size
  by_cases h0 : h.data.size = 0
  · simp [h0, Outcome.map]
  · have hne : ¬ ((h.data.size : Int) = 0) := by omega
    have hl : (h.data.size : Int) - 1 = ((h.data.size - 1 : Nat) : Int) := by omega
    have hz := hIdx_nat h.data 0
    simp only [Int.natCast_zero] at hz
    simp only [h0, hne, if_false, hz, hl, hIdx_nat]
    cases h.data[0]? with
    | none => cases h.data[h.data.size - 1]? <;> simp [Outcome.map]
    | some val =>
      cases h.data[h.data.size - 1]? with
      | none => simp [Outcome.map]
      | some last =>
        have hs := hSet_nat h.data 0 last
        simp only [Int.natCast_zero] at hs
        simp only [bind_optOut_some, hs]
        cases hset : Model.Heap.set? h.data 0 last with
        | none => simp [Outcome.map]
        | some d1 =>
          simp only [bind_optOut_some, hSlice_dropLast]
          cases hd : Model.Heap.dropLast? d1 with
          | none => simp [Outcome.map]
          | some d2 =>
            have hsz : h.data.size = d2.size - 0 + 1 := by
              unfold Model.Heap.set? at hset
              unfold Model.Heap.dropLast? at hd
              split at hset
              · injection hset with hset
                subst hset
                split at hd
                · simp at hd
                · injection hd with hd
                  subst hd
                  simp at *
                  omega
              · simp at hset
            have hmd := moveDown_tie h.comp (d2.size - 0 + 1) d2 d2.size 0
            simp only [Int.natCast_zero] at hmd
            simp only [bind_optOut_some, Model.Heap.moveDown]
            rw [hsz, hmd]
            cases Model.Heap.moveDownF h.comp d2.size (d2.size - 0 + 1) d2 0 <;> simp [Outcome.map]

/-- one iteration of `Push`'s loop, for every amount of fuel: the model's `push` with that fuel for `moveUp` -/
theorem push_step_tie [Inhabited α] [DecidableEq α] (c : Comp α) (val : Array α) (fuel : Nat) (d : Array α) (v : α)
    (vs : List α) :
    Heap_Push_loop1 c val fuel d (v :: vs)
      = Out.bind (toOut (Model.Heap.moveUpF c fuel (d.push v) ((d.push v).size - 1)))
          (fun d' => Heap_Push_loop1 c val fuel d' vs) := by
  rw [Heap_Push_loop1]
  have : Heap_size c (d.push v) - 1 = (((d.push v).size - 1 : Nat) : Int) := by
    unfold Heap_size
    simp
  simp only [this, moveUp_tie]

/-- `Push(v)` with the fuel the model gives `moveUp` (`len(data)+1` = index of the new element + 1). -/
theorem push_tie [Inhabited α] [DecidableEq α] (h : Model.Heap.Heap α) (v : α) :
    Heap_Push (h.data.size + 1) h.comp h.data #[v]
      = toOut (Outcome.map (fun h' => h'.data) (Model.Heap.push h v)) := by
  unfold Heap_Push
  simp only [List.toList_toArray] 
  rw [push_step_tie]
  unfold Model.Heap.push Model.Heap.moveUp
  have : (h.data.push v).size - 1 + 1 = h.data.size + 1 := by simp
  simp only [this]
  cases Model.Heap.moveUpF h.comp (h.data.size + 1) (h.data.push v) ((h.data.push v).size - 1) <;>
    simp [Outcome.map, Heap_Push_loop1]

/-! ## `Push(val...)`: the whole loop.  An outcome other than `hang` does not depend on the fuel. -/

theorem moveUpF_mono (c : Comp α) (fuel k : Nat) (d : Array α) (i : Nat)
    (h : Model.Heap.moveUpF c fuel d i ≠ .hang) :
    Model.Heap.moveUpF c (fuel + k) d i = Model.Heap.moveUpF c fuel d i := by
  induction fuel generalizing d i with
  | zero => simp [Model.Heap.moveUpF] at h
  | succ fuel ih =>
    have e : fuel + 1 + k = (fuel + k) + 1 := by omega
    rw [e]
    unfold Model.Heap.moveUpF at h ⊢
    cases hx : d[i]? with
    | none => cases d[Model.Heap.parent i]? <;> rfl
    | some x =>
      cases hp : d[Model.Heap.parent i]? with
      | none => rfl
      | some p =>
        simp only [hx, hp] at h ⊢
        by_cases hc : c x p = true
        · simp only [hc, Bool.not_true, Bool.false_eq_true, if_false] at h ⊢
          cases hs : Model.Heap.swap d i (Model.Heap.parent i) with
          | none => rfl
          | some d' =>
            simp only [hs] at h ⊢
            exact ih d' _ h
        · simp [hc]

/-- at the root the loop compares the root with itself: it spins for ever iff `comp root root` -/
theorem moveUpF_spin (c : Comp α) (x : α) (hc : c x x = true) (fuel : Nat) (d : Array α) (hx : d[0]? = some x) :
    Model.Heap.moveUpF c fuel d 0 = .hang := by
  induction fuel generalizing d with
  | zero => rfl
  | succ fuel ih =>
    unfold Model.Heap.moveUpF
    have hp : Model.Heap.parent 0 = 0 := by decide
    have h0 : 0 < d.size := by
      rcases Nat.eq_zero_or_pos d.size with h | h
      · simp [h] at hx
      · exact h
    simp only [hp, hx, hc, Bool.not_true, Bool.false_eq_true, if_false]
    have hs : Model.Heap.swap d 0 0 = some (d.swap 0 0 h0 h0) := by
      unfold Model.Heap.swap; simp [h0]
    simp only [hs]
    apply ih
    simpa [Array.swap] using hx

theorem moveUpF_hang (c : Comp α) (i : Nat) : ∀ (d : Array α),
    Model.Heap.moveUpF c (i + 1) d i = .hang → ∀ fuel, Model.Heap.moveUpF c fuel d i = .hang := by
  induction i using Nat.strongRecOn with
  | _ i ih =>
    intro d h fuel
    cases fuel with
    | zero => rfl
    | succ f =>
      unfold Model.Heap.moveUpF at h ⊢
      cases hx : d[i]? with
      | none => simp [hx] at h
      | some x =>
        cases hp : d[Model.Heap.parent i]? with
        | none => simp [hx, hp] at h
        | some p =>
          simp only [hx, hp] at h ⊢
          by_cases hc : c x p = true
          · simp only [hc, Bool.not_true, Bool.false_eq_true, if_false] at h ⊢
            cases hs : Model.Heap.swap d i (Model.Heap.parent i) with
            | none => simp [hs] at h
            | some d' =>
              simp only [hs] at h ⊢
              rcases Nat.eq_zero_or_pos i with hi | hi
              · subst hi
                have hp0 : Model.Heap.parent 0 = 0 := by decide
                rw [hp0] at hp hs ⊢
                have hxp : x = p := by rw [hx] at hp; injection hp
                subst hxp
                have h0 : 0 < d.size := by
                  rcases Nat.eq_zero_or_pos d.size with h' | h'
                  · simp [h'] at hx
                  · exact h'
                apply moveUpF_spin c x hc
                unfold Model.Heap.swap at hs
                simp only [h0, and_self, dite_true] at hs
                injection hs with hs
                subst hs
                simpa [Array.swap] using hx
              · have hlt : Model.Heap.parent i < i := by unfold Model.Heap.parent; omega
                apply ih _ hlt d'
                apply Classical.byContradiction
                intro hne
                have := moveUpF_mono c (Model.Heap.parent i + 1) (i - (Model.Heap.parent i + 1)) d' _ hne
                have e : Model.Heap.parent i + 1 + (i - (Model.Heap.parent i + 1)) = i := by omega
                rw [e] at this
                rw [this] at h
                exact hne h
          · simp [hc] at h

/-- any fuel ≥ the model's `i + 1` gives the model's outcome -/
theorem moveUpF_enough (c : Comp α) (d : Array α) (i fuel : Nat) (hf : i + 1 ≤ fuel) :
    Model.Heap.moveUpF c fuel d i = Model.Heap.moveUp c d i := by
  unfold Model.Heap.moveUp
  by_cases h : Model.Heap.moveUpF c (i + 1) d i = .hang
  · rw [h]; exact moveUpF_hang c i d h fuel
  · have := moveUpF_mono c (i + 1) (fuel - (i + 1)) d i h
    have e : i + 1 + (fuel - (i + 1)) = fuel := by omega
    rw [e] at this
    exact this

/-- the loop of `Push(val...)`: with any fuel ≥ the final length it is the model's `pushAll`, every outcome included -/
theorem pushAll_loop_tie [Inhabited α] [DecidableEq α] (c : Comp α) (val : Array α) (fuel : Nat) (vs : List α) :
    ∀ (d : Array α), d.size + vs.length ≤ fuel →
    Heap_Push_loop1 c val fuel d vs
      = toOut (Outcome.map (fun h' => h'.data) (Model.Heap.pushAll { comp := c, data := d } vs)) := by
  induction vs with
  | nil => intro d _; simp [Heap_Push_loop1, Model.Heap.pushAll, Outcome.map]
  | cons v vs ih =>
    intro d hf
    rw [push_step_tie]
    unfold Model.Heap.pushAll Model.Heap.push
    have hsz : (d.push v).size - 1 + 1 ≤ fuel := by simp at hf ⊢; omega
    simp only [moveUpF_enough c (d.push v) _ fuel hsz]
    cases hm : Model.Heap.moveUp c (d.push v) ((d.push v).size - 1) with
    | ok d' =>
      have hfr := (GoguVerif.Lemmas.C03.moveUpF_frame _ _ _ _ hm).1
      simp only [toOut_ok, bind_ok]
      apply ih
      rw [hfr]; simp at hf ⊢; omega
    | panic => simp [Outcome.map]
    | hang => simp [Outcome.map]

/-- `Push(val...)` for every fuel ≥ `len(data) + len(val)` -/
theorem pushAll_tie [Inhabited α] [DecidableEq α] (h : Model.Heap.Heap α) (val : Array α) (fuel : Nat)
    (hf : h.data.size + val.size ≤ fuel) :
    Heap_Push fuel h.comp h.data val
      = toOut (Outcome.map (fun h' => h'.data) (Model.Heap.pushAll h val.toList)) := by
  unfold Heap_Push
  rw [pushAll_loop_tie h.comp val fuel val.toList h.data (by simpa using hf)]
  exact bind_toOut_ok _

example : (#[3, 1] : Array Int).size + (#[2, 0] : Array Int).size ≤ 4 := by decide

end GoguVerif.Theorems.GenTieHeap
