import GoguVerif.Gen.Heap
import GoguVerif.Model.Heap
import GoguVerif.Lemmas.C03.Up
import GoguVerif.Lemmas.C03.Sift
import GoguVerif.Lemmas.C03.Build
/-!
# The regenerated tie for `heap/heap.go` (C03)

`Gen/Heap.lean` is produced on every run by the translator (`translator/frag_heap.go`) from `heap/heap.go`:
Go `int` as `Int`, the slice field `data` as an `Array` threaded through (a function hands back the fields and
slices it writes), every index / slice operation failing exactly when Go panics, loops and recursion whose
termination is not structural running on FUEL (`Out.hang` when it runs out).

The theorems below state, for ALL comparators, slices, indices and ALL amounts of fuel, that the regenerated
definition computes exactly the outcome (value, `panic` or `hang`) of the hand-written definition of
`Model/Heap.lean`, which is what the theorems of C03 are about.  (Second part, added later: `moveDown` is
fuel-independent too (`moveDownF_mono`, `moveDownF_enough`), so `Pop`, `Delete`, `Convert` are tied for EVERY
sufficient fuel (`pop_tie_fuel`, `delete_tie`, `convert_tie`); `getIndex` — a `return` inside a loop, regenerated as
`Option ρ × S` — is the model's structural scan (`getIndex_tie`); `FromSlice` is tied loop by loop for all fuel
(`fromSlice_inner_tie`, `fromSlice_outer_tie`) and as a whole whenever the model does not hang, in particular for
every strict weak order (`fromSlice_tie_partial`, `fromSlice_tie_swo`).  `Merge`, `Meld` are outside the fragment.)  The model's indices are `Nat`; the
regenerated ones are `Int`: the ties are stated at `((i : Nat) : Int)` and, separately, a negative index is
shown to panic (`…_neg`), which the model cannot even express.
-/
namespace GoguVerif.Theorems.GenTieHeap
open GoguVerif
open GoguVerif.Gen.Heap
open GoguVerif.Model.Heap (Outcome Comp)

variable {α : Type}

/-- the model's outcome as an outcome of the regenerated code -/
def toOut {β : Type} : Outcome β → Out β
  | .ok b => .ok b
  | .panic => .panic
  | .hang => .hang

/-- an `Option` of the model (`none` = Go panics) as an outcome -/
def optOut {β : Type} : Option β → Out β
  | some b => .ok b
  | none => .panic

def Outcome.map {β γ : Type} (f : β → γ) : Outcome β → Outcome γ
  | .ok b => .ok (f b)
  | .panic => .panic
  | .hang => .hang

/-! ## bridging lemmas -/

@[simp] theorem bind_ok {β γ : Type} (b : β) (f : β → Out γ) : Out.bind (Out.ok b) f = f b := rfl
@[simp] theorem bind_panic {β γ : Type} (f : β → Out γ) : Out.bind (Out.panic : Out β) f = Out.panic := rfl
@[simp] theorem bind_hang {β γ : Type} (f : β → Out γ) : Out.bind (Out.hang : Out β) f = Out.hang := rfl
@[simp] theorem bind_optOut_some {β γ : Type} (b : β) (f : β → Out γ) : Out.bind (optOut (some b)) f = f b := rfl
@[simp] theorem bind_optOut_none {β γ : Type} (f : β → Out γ) : Out.bind (optOut (none : Option β)) f = Out.panic := rfl
@[simp] theorem toOut_ok {β : Type} (b : β) : toOut (Outcome.ok b) = Out.ok b := rfl
@[simp] theorem toOut_panic {β : Type} : toOut (Outcome.panic : Outcome β) = Out.panic := rfl
@[simp] theorem toOut_hang {β : Type} : toOut (Outcome.hang : Outcome β) = Out.hang := rfl

theorem bind_toOut_ok {β : Type} (x : Outcome β) : Out.bind (toOut x) (fun b => Out.ok b) = toOut x := by
  cases x <;> rfl

theorem hIdx_nat (s : Array α) (i : Nat) : hIdx s (i : Int) = optOut s[i]? := by
  unfold hIdx
  have h : ¬ ((i : Int) < 0) := by omega
  simp only [h, if_false, Int.toNat_natCast]
  cases s[i]? <;> rfl

theorem hIdx_neg (s : Array α) (i : Int) (h : i < 0) : hIdx s i = .panic := by
  unfold hIdx; simp [h]

theorem hIdx_ne_hang (s : Array α) (i : Int) : hIdx s i ≠ .hang := by
  unfold hIdx
  split
  · simp
  · cases s[i.toNat]? <;> simp

theorem hSet_nat (s : Array α) (i : Nat) (v : α) : hSet s (i : Int) v = optOut (Model.Heap.set? s i v) := by
  unfold hSet Model.Heap.set?
  have h : ¬ ((i : Int) < 0) := by omega
  simp only [h, if_false, Int.toNat_natCast]
  split <;> rfl

/-! ## `swap`, `parent`, `leftChild`, `rightChild` -/

theorem swap_tie [Inhabited α] [DecidableEq α] (d : Array α) (i j : Nat) :
    swap d (i : Int) (j : Int) = optOut (Model.Heap.swap d i j) := by
  unfold Gen.Heap.swap Model.Heap.swap
  rw [hIdx_nat, hIdx_nat]
  by_cases hj : j < d.size
  · by_cases hi : i < d.size
    · have hj' : d[j]? = some d[j] := by simp [hj]
      have hi' : d[i]? = some d[i] := by simp [hi]
      simp only [hj', hi', bind_optOut_some, hSet_nat, Model.Heap.set?, hi, hj, and_self, dite_true, Array.size_set]
      simp [Array.swap, optOut]
    · have hi' : d[i]? = none := by simp; omega
      have hj' : d[j]? = some d[j] := by simp [hj]
      simp [hj', hi', hi, optOut]
  · have hj' : d[j]? = none := by simp; omega
    simp [hj', hj, optOut]

theorem swap_neg [Inhabited α] [DecidableEq α] (d : Array α) (i j : Int) (h : i < 0 ∨ j < 0) :
    swap d i j = .panic := by
  unfold Gen.Heap.swap
  rcases h with h | h
  · by_cases hj : j < 0
    · simp [hIdx_neg _ _ hj]
    · simp only [hIdx_neg _ _ h]
      have := hIdx_ne_hang d j
      cases hx : hIdx d j <;> simp_all
  · simp [hIdx_neg _ _ h]

theorem parent_tie [Inhabited α] [DecidableEq α] (c : Comp α) (d : Array α) (i : Nat) :
    Heap_parent c d (i : Int) = ((Model.Heap.parent i : Nat) : Int) := by
  unfold Heap_parent Model.Heap.parent
  cases i with
  | zero => decide
  | succ k =>
    have : ((k + 1 : Nat) : Int) - 1 = (k : Int) := by omega
    rw [this]
    simp [Int.tdiv]

theorem leftChild_tie [Inhabited α] [DecidableEq α] (c : Comp α) (d : Array α) (i : Nat) :
    Heap_leftChild c d (i : Int) = ((2 * i + 1 : Nat) : Int) := by
  unfold Heap_leftChild; omega

theorem rightChild_tie [Inhabited α] [DecidableEq α] (c : Comp α) (d : Array α) (i : Nat) :
    Heap_rightChild c d (i : Int) = ((2 * i + 2 : Nat) : Int) := by
  unfold Heap_rightChild; omega

/-! ## `moveUp` and `moveDown`: every outcome, for every amount of fuel -/

theorem moveUp_tie [Inhabited α] [DecidableEq α] (c : Comp α) (fuel : Nat) (d : Array α) (i : Nat) :
    Heap_moveUp fuel c d (i : Int) = toOut (Model.Heap.moveUpF c fuel d i) := by
  induction fuel generalizing d i with
  | zero => simp [Heap_moveUp, Heap_moveUp_loop1, Model.Heap.moveUpF]
  | succ fuel ih =>
    unfold Heap_moveUp Heap_moveUp_loop1 Model.Heap.moveUpF
    rw [parent_tie, hIdx_nat, hIdx_nat, swap_tie]
    cases hx : d[i]? with
    | none => cases d[Model.Heap.parent i]? <;> simp
    | some x =>
      cases hp : d[Model.Heap.parent i]? with
      | none => simp
      | some p =>
        simp only [bind_optOut_some]
        by_cases hc : c x p = true
        · simp only [hc, if_true, Bool.not_true, Bool.false_eq_true, if_false]
          cases hs : Model.Heap.swap d i (Model.Heap.parent i) with
          | none => simp
          | some d' =>
            simp only [bind_optOut_some, parent_tie]
            have := ih d' (Model.Heap.parent i)
            unfold Heap_moveUp at this
            exact this
        · simp [hc]

/-- one `if c < n && comp(data[c], data[cur]) { cur = c }` of `moveDown`, as regenerated, is the model's `pick` -/
theorem pick_bridge (c : Comp α) (n : Nat) (d : Array α) (cur ch : Nat) :
    ((if ((ch : Nat) : Int) < (n : Int) then
        Out.bind (hIdx d ((ch : Nat) : Int)) fun t1_ =>
          Out.bind (hIdx d ((cur : Nat) : Int)) fun t2_ =>
            if c t1_ t2_ = true then Out.ok ((ch : Nat) : Int) else Out.ok ((cur : Nat) : Int)
      else Out.ok ((cur : Nat) : Int)) : Out Int)
    = optOut ((Model.Heap.pick c n d cur ch).map (fun k : Nat => (k : Int))) := by
  unfold Model.Heap.pick
  by_cases h : ch < n
  · have h' : ((ch : Nat) : Int) < (n : Int) := by exact_mod_cast h
    simp only [h, h', if_true, hIdx_nat]
    cases d[ch]? <;> cases d[cur]? <;> simp [optOut]
    split <;> simp_all
  · have h' : ¬ ((ch : Nat) : Int) < (n : Int) := by omega
    simp only [h, h', if_false, optOut, Option.map]

theorem moveDown_tie [Inhabited α] [DecidableEq α] (c : Comp α) (fuel : Nat) (d : Array α) (n i : Nat) :
    Heap_moveDown fuel c d (n : Int) (i : Int) = toOut (Model.Heap.moveDownF c n fuel d i) := by
  induction fuel generalizing d i with
  | zero => simp [Heap_moveDown, Model.Heap.moveDownF]
  | succ fuel ih =>
    unfold Heap_moveDown Model.Heap.moveDownF
    simp only [leftChild_tie, rightChild_tie]
    rw [pick_bridge]
    cases Model.Heap.pick c n d i (2 * i + 1) with
    | none => simp
    | some cur =>
      simp only [Option.map, bind_optOut_some]
      rw [pick_bridge]
      cases Model.Heap.pick c n d cur (2 * i + 2) with
      | none => simp
      | some cur' =>
        simp only [Option.map, bind_optOut_some]
        by_cases hne : cur' = i
        · subst hne; simp
        · have hne' : ((cur' : Nat) : Int) ≠ (i : Int) := by omega
          simp only [hne, hne', ne_eq, not_false_eq_true, if_true, swap_tie]
          cases Model.Heap.swap d i cur' with
          | none => simp
          | some d' =>
            simp only [bind_optOut_some, ih]
            exact bind_toOut_ok _

/-- with the model's own fuel -/
theorem moveUp_model_tie [Inhabited α] [DecidableEq α] (c : Comp α) (d : Array α) (i : Nat) :
    Heap_moveUp (i + 1) c d (i : Int) = toOut (Model.Heap.moveUp c d i) := moveUp_tie c (i + 1) d i

theorem moveDown_model_tie [Inhabited α] [DecidableEq α] (c : Comp α) (d : Array α) (n i : Nat) :
    Heap_moveDown (n - i + 1) c d (n : Int) (i : Int) = toOut (Model.Heap.moveDown c n d i) :=
  moveDown_tie c (n - i + 1) d n i

/-! ## the methods without fuel -/

theorem size_tie [Inhabited α] [DecidableEq α] (h : Model.Heap.Heap α) :
    Heap_size h.comp h.data = (h.data.size : Int) ∧ Heap_Size h.comp h.data = (h.data.size : Int) := by
  simp [Heap_size, Heap_Size]

theorem isEmpty_tie [Inhabited α] [DecidableEq α] (h : Model.Heap.Heap α) :
    Heap_IsEmpty h.comp h.data = (h.data.size == 0) := by
  unfold Heap_IsEmpty Heap_size
  by_cases h0 : h.data.size = 0
  · simp [h0]
  · have : ¬ ((h.data.size : Int) = 0) := by omega
    simp [h0, this]

theorem clear_tie [Inhabited α] [DecidableEq α] (h : Model.Heap.Heap α) :
    Heap_Clear h.comp h.data = Out.ok (Model.Heap.clear h).data := by
  unfold Heap_Clear Model.Heap.clear Heap_Size Heap_size
  by_cases h0 : h.data.size = 0
  · simp [h0]
  · have : ¬ ((h.data.size : Int) = 0) := by omega
    simp [h0, this, hSlice]

theorem peek_tie [Inhabited α] [DecidableEq α] (h : Model.Heap.Heap α) :
    Heap_peek h.comp h.data = toOut (Model.Heap.peek h) ∧ Heap_Peek h.comp h.data = toOut (Model.Heap.peek h) := by
  have key : Heap_peek h.comp h.data = toOut (Model.Heap.peek h) := by
    unfold Heap_peek Model.Heap.peek Heap_size
    by_cases h0 : h.data.size = 0
    · simp [h0]
    · have : ¬ ((h.data.size : Int) = 0) := by omega
      have hz := hIdx_nat h.data 0
      simp only [Int.natCast_zero] at hz
      simp only [h0, this, if_false, hz]
      cases h.data[0]? <;> simp [optOut]
  refine ⟨key, ?_⟩
  unfold Heap_Peek
  rw [key]
  exact bind_toOut_ok _

theorem getValues_tie [Inhabited α] [DecidableEq α] (h : Model.Heap.Heap α) :
    Heap_GetValues h.comp h.data = Out.ok h.data := by
  unfold Heap_GetValues hMake hCopy
  have : ¬ ((h.data.size : Int) < 0) := by omega
  simp [this]

/-! ## `Pop` and `Push` -/

theorem hSlice_dropLast (s : Array α) :
    hSlice s 0 ((s.size : Int) - 1) = optOut (Model.Heap.dropLast? s) := by
  unfold hSlice Model.Heap.dropLast?
  by_cases h0 : s.size = 0
  · have : ¬ ((0 : Int) ≤ (s.size : Int) - 1) := by omega
    simp [h0, this, optOut]
  · have h1 : (0 : Int) ≤ (s.size : Int) - 1 := by omega
    have h2 : (s.size : Int) - 1 ≤ (s.size : Int) := by omega
    have h3 : ((s.size : Int) - 1).toNat = s.size - 1 := by omega
    simp only [h0, h1, h2, and_self, Int.le_refl, true_and, if_true, if_false, optOut, h3, Int.toNat_zero]
    congr 1
    apply Array.ext'
    simp [List.dropLast_eq_take]

/-- `Pop` with the fuel the model gives its `moveDown` (`len(data)`): the popped value and the new `data`. -/
theorem pop_tie [Inhabited α] [DecidableEq α] (h : Model.Heap.Heap α) :
    Heap_Pop h.data.size h.comp h.data
      = toOut (Outcome.map (fun r => (r.2, r.1.data)) (Model.Heap.pop h)) := by
  unfold Heap_Pop Model.Heap.pop Heap_peek Heap_size
  by_cases h0 : h.data.size = 0
  · simp [h0, Outcome.map]
  · have hne : ¬ ((h.data.size : Int) = 0) := by omega
    have hl : (h.data.size : Int) - 1 = ((h.data.size - 1 : Nat) : Int) := by omega
    have hz := hIdx_nat h.data 0
    simp only [Int.natCast_zero] at hz
    simp only [h0, hne, if_false, hz, hl, hIdx_nat]
    cases h.data[0]? with
    | none => cases h.data[h.data.size - 1]? <;> simp [Outcome.map]
    | some val =>
      cases h.data[h.data.size - 1]? with
      | none => simp [Outcome.map]
      | some last =>
        have hs := hSet_nat h.data 0 last
        simp only [Int.natCast_zero] at hs
        simp only [bind_optOut_some, hs]
        cases hset : Model.Heap.set? h.data 0 last with
        | none => simp [Outcome.map]
        | some d1 =>
          simp only [bind_optOut_some, hSlice_dropLast]
          cases hd : Model.Heap.dropLast? d1 with
          | none => simp [Outcome.map]
          | some d2 =>
            have hsz : h.data.size = d2.size - 0 + 1 := by
              unfold Model.Heap.set? at hset
              unfold Model.Heap.dropLast? at hd
              split at hset
              · injection hset with hset
                subst hset
                split at hd
                · simp at hd
                · injection hd with hd
                  subst hd
                  simp at *
                  omega
              · simp at hset
            have hmd := moveDown_tie h.comp (d2.size - 0 + 1) d2 d2.size 0
            simp only [Int.natCast_zero] at hmd
            simp only [bind_optOut_some, Model.Heap.moveDown]
            rw [hsz, hmd]
            cases Model.Heap.moveDownF h.comp d2.size (d2.size - 0 + 1) d2 0 <;> simp [Outcome.map]

/-- one iteration of `Push`'s loop, for every amount of fuel: the model's `push` with that fuel for `moveUp` -/
theorem push_step_tie [Inhabited α] [DecidableEq α] (c : Comp α) (val : Array α) (fuel : Nat) (d : Array α) (v : α)
    (vs : List α) :
    Heap_Push_loop1 c val fuel d (v :: vs)
      = Out.bind (toOut (Model.Heap.moveUpF c fuel (d.push v) ((d.push v).size - 1)))
          (fun d' => Heap_Push_loop1 c val fuel d' vs) := by
  rw [Heap_Push_loop1]
  have : Heap_size c (d.push v) - 1 = (((d.push v).size - 1 : Nat) : Int) := by
    unfold Heap_size
    simp
  simp only [this, moveUp_tie]

/-- `Push(v)` with the fuel the model gives `moveUp` (`len(data)+1` = index of the new element + 1). -/
theorem push_tie [Inhabited α] [DecidableEq α] (h : Model.Heap.Heap α) (v : α) :
    Heap_Push (h.data.size + 1) h.comp h.data #[v]
      = toOut (Outcome.map (fun h' => h'.data) (Model.Heap.push h v)) := by
  unfold Heap_Push
  simp only [List.toList_toArray] 
  rw [push_step_tie]
  unfold Model.Heap.push Model.Heap.moveUp
  have : (h.data.push v).size - 1 + 1 = h.data.size + 1 := by simp
  simp only [this]
  cases Model.Heap.moveUpF h.comp (h.data.size + 1) (h.data.push v) ((h.data.push v).size - 1) <;>
    simp [Outcome.map, Heap_Push_loop1]

/-! ## `Push(val...)`: the whole loop.  An outcome other than `hang` does not depend on the fuel. -/

theorem moveUpF_mono (c : Comp α) (fuel k : Nat) (d : Array α) (i : Nat)
    (h : Model.Heap.moveUpF c fuel d i ≠ .hang) :
    Model.Heap.moveUpF c (fuel + k) d i = Model.Heap.moveUpF c fuel d i := by
  induction fuel generalizing d i with
  | zero => simp [Model.Heap.moveUpF] at h
  | succ fuel ih =>
    have e : fuel + 1 + k = (fuel + k) + 1 := by omega
    rw [e]
    unfold Model.Heap.moveUpF at h ⊢
    cases hx : d[i]? with
    | none => cases d[Model.Heap.parent i]? <;> rfl
    | some x =>
      cases hp : d[Model.Heap.parent i]? with
      | none => rfl
      | some p =>
        simp only [hx, hp] at h ⊢
        by_cases hc : c x p = true
        · simp only [hc, Bool.not_true, Bool.false_eq_true, if_false] at h ⊢
          cases hs : Model.Heap.swap d i (Model.Heap.parent i) with
          | none => rfl
          | some d' =>
            simp only [hs] at h ⊢
            exact ih d' _ h
        · simp [hc]

/-- at the root the loop compares the root with itself: it spins for ever iff `comp root root` -/
theorem moveUpF_spin (c : Comp α) (x : α) (hc : c x x = true) (fuel : Nat) (d : Array α) (hx : d[0]? = some x) :
    Model.Heap.moveUpF c fuel d 0 = .hang := by
  induction fuel generalizing d with
  | zero => rfl
  | succ fuel ih =>
    unfold Model.Heap.moveUpF
    have hp : Model.Heap.parent 0 = 0 := by decide
    have h0 : 0 < d.size := by
      rcases Nat.eq_zero_or_pos d.size with h | h
      · simp [h] at hx
      · exact h
    simp only [hp, hx, hc, Bool.not_true, Bool.false_eq_true, if_false]
    have hs : Model.Heap.swap d 0 0 = some (d.swap 0 0 h0 h0) := by
      unfold Model.Heap.swap; simp [h0]
    simp only [hs]
    apply ih
    simpa [Array.swap] using hx

theorem moveUpF_hang (c : Comp α) (i : Nat) : ∀ (d : Array α),
    Model.Heap.moveUpF c (i + 1) d i = .hang → ∀ fuel, Model.Heap.moveUpF c fuel d i = .hang := by
  induction i using Nat.strongRecOn with
  | _ i ih =>
    intro d h fuel
    cases fuel with
    | zero => rfl
    | succ f =>
      unfold Model.Heap.moveUpF at h ⊢
      cases hx : d[i]? with
      | none => simp [hx] at h
      | some x =>
        cases hp : d[Model.Heap.parent i]? with
        | none => simp [hx, hp] at h
        | some p =>
          simp only [hx, hp] at h ⊢
          by_cases hc : c x p = true
          · simp only [hc, Bool.not_true, Bool.false_eq_true, if_false] at h ⊢
            cases hs : Model.Heap.swap d i (Model.Heap.parent i) with
            | none => simp [hs] at h
            | some d' =>
              simp only [hs] at h ⊢
              rcases Nat.eq_zero_or_pos i with hi | hi
              · subst hi
                have hp0 : Model.Heap.parent 0 = 0 := by decide
                rw [hp0] at hp hs ⊢
                have hxp : x = p := by rw [hx] at hp; injection hp
                subst hxp
                have h0 : 0 < d.size := by
                  rcases Nat.eq_zero_or_pos d.size with h' | h'
                  · simp [h'] at hx
                  · exact h'
                apply moveUpF_spin c x hc
                unfold Model.Heap.swap at hs
                simp only [h0, and_self, dite_true] at hs
                injection hs with hs
                subst hs
                simpa [Array.swap] using hx
              · have hlt : Model.Heap.parent i < i := by unfold Model.Heap.parent; omega
                apply ih _ hlt d'
                apply Classical.byContradiction
                intro hne
                have := moveUpF_mono c (Model.Heap.parent i + 1) (i - (Model.Heap.parent i + 1)) d' _ hne
                have e : Model.Heap.parent i + 1 + (i - (Model.Heap.parent i + 1)) = i := by omega
                rw [e] at this
                rw [this] at h
                exact hne h
          · simp [hc] at h

/-- any fuel ≥ the model's `i + 1` gives the model's outcome -/
theorem moveUpF_enough (c : Comp α) (d : Array α) (i fuel : Nat) (hf : i + 1 ≤ fuel) :
    Model.Heap.moveUpF c fuel d i = Model.Heap.moveUp c d i := by
  unfold Model.Heap.moveUp
  by_cases h : Model.Heap.moveUpF c (i + 1) d i = .hang
  · rw [h]; exact moveUpF_hang c i d h fuel
  · have := moveUpF_mono c (i + 1) (fuel - (i + 1)) d i h
    have e : i + 1 + (fuel - (i + 1)) = fuel := by omega
    rw [e] at this
    exact this

/-- the loop of `Push(val...)`: with any fuel ≥ the final length it is the model's `pushAll`, every outcome included -/
theorem pushAll_loop_tie [Inhabited α] [DecidableEq α] (c : Comp α) (val : Array α) (fuel : Nat) (vs : List α) :
    ∀ (d : Array α), d.size + vs.length ≤ fuel →
    Heap_Push_loop1 c val fuel d vs
      = toOut (Outcome.map (fun h' => h'.data) (Model.Heap.pushAll { comp := c, data := d } vs)) := by
  induction vs with
  | nil => intro d _; simp [Heap_Push_loop1, Model.Heap.pushAll, Outcome.map]
  | cons v vs ih =>
    intro d hf
    rw [push_step_tie]
    unfold Model.Heap.pushAll Model.Heap.push
    have hsz : (d.push v).size - 1 + 1 ≤ fuel := by simp at hf ⊢; omega
    simp only [moveUpF_enough c (d.push v) _ fuel hsz]
    cases hm : Model.Heap.moveUp c (d.push v) ((d.push v).size - 1) with
    | ok d' =>
      have hfr := (GoguVerif.Lemmas.C03.moveUpF_frame _ _ _ _ hm).1
      simp only [toOut_ok, bind_ok]
      apply ih
      rw [hfr]; simp at hf ⊢; omega
    | panic => simp [Outcome.map]
    | hang => simp [Outcome.map]

/-- `Push(val...)` for every fuel ≥ `len(data) + len(val)` -/
theorem pushAll_tie [Inhabited α] [DecidableEq α] (h : Model.Heap.Heap α) (val : Array α) (fuel : Nat)
    (hf : h.data.size + val.size ≤ fuel) :
    Heap_Push fuel h.comp h.data val
      = toOut (Outcome.map (fun h' => h'.data) (Model.Heap.pushAll h val.toList)) := by
  unfold Heap_Push
  rw [pushAll_loop_tie h.comp val fuel val.toList h.data (by simpa using hf)]
  exact bind_toOut_ok _

example : (#[3, 1] : Array Int).size + (#[2, 0] : Array Int).size ≤ 4 := by decide


/-! ## `moveDown`: an outcome other than `hang` does not depend on the fuel; `n - i + 1` is always enough -/

theorem moveDownF_mono (c : Comp α) (n fuel k : Nat) (d : Array α) (i : Nat)
    (h : Model.Heap.moveDownF c n fuel d i ≠ .hang) :
    Model.Heap.moveDownF c n (fuel + k) d i = Model.Heap.moveDownF c n fuel d i := by
  induction fuel generalizing d i with
  | zero => simp [Model.Heap.moveDownF] at h
  | succ fuel ih =>
    have e : fuel + 1 + k = (fuel + k) + 1 := by omega
    rw [e]
    unfold Model.Heap.moveDownF at h ⊢
    cases h1 : Model.Heap.pick c n d i (2 * i + 1) with
    | none => rfl
    | some cur =>
      simp only [h1] at h ⊢
      cases h2 : Model.Heap.pick c n d cur (2 * i + 2) with
      | none => rfl
      | some cur' =>
        simp only [h2] at h ⊢
        by_cases hne : cur' = i
        · simp [hne]
        · simp only [ne_eq, hne, not_false_eq_true, if_true] at h ⊢
          cases hs : Model.Heap.swap d i cur' with
          | none => rfl
          | some d' =>
            simp only [hs] at h ⊢
            exact ih d' _ h

example : Model.Heap.moveDownF (fun a b : Int => decide (a < b)) 2 3 #[3, 1] 0 ≠ .hang := by
  simp [Model.Heap.moveDownF, Model.Heap.pick, Model.Heap.swap]

/-- `moveDown(n, i)` never runs out of a budget `> n - i`: it recurses only on a child `< n` (no hypothesis on
the comparator, the slice or `n`: a panic is an outcome other than `hang`). -/
theorem moveDownF_ne_hang (c : Comp α) (n : Nat) (fuel : Nat) (d : Array α) (i : Nat) (hf : n - i < fuel) :
    Model.Heap.moveDownF c n fuel d i ≠ .hang := by
  induction fuel generalizing d i with
  | zero => omega
  | succ fuel ih =>
    unfold Model.Heap.moveDownF
    cases h1 : Model.Heap.pick c n d i (2 * i + 1) with
    | none => simp
    | some cur =>
      simp only
      cases h2 : Model.Heap.pick c n d cur (2 * i + 2) with
      | none => simp
      | some cur' =>
        simp only
        by_cases hne : cur' = i
        · simp [hne]
        · simp only [ne_eq, hne, not_false_eq_true, if_true]
          cases hs : Model.Heap.swap d i cur' with
          | none => simp
          | some d' =>
            simp only
            have hr := GoguVerif.Lemmas.C03.choose_range h1 h2
            exact ih d' cur' (by omega)

example : (2 : Nat) - 0 < 3 := by decide

/-- any fuel ≥ the model's `n - i + 1` gives the model's outcome -/
theorem moveDownF_enough (c : Comp α) (n : Nat) (d : Array α) (i fuel : Nat) (hf : n - i + 1 ≤ fuel) :
    Model.Heap.moveDownF c n fuel d i = Model.Heap.moveDown c n d i := by
  unfold Model.Heap.moveDown
  have h := moveDownF_ne_hang c n (n - i + 1) d i (by omega)
  have := moveDownF_mono c n (n - i + 1) (fuel - (n - i + 1)) d i h
  have e : n - i + 1 + (fuel - (n - i + 1)) = fuel := by omega
  rw [e] at this
  exact this

example : (2 : Nat) - 0 + 1 ≤ 5 := by decide

/-! ## `Pop` for every sufficient fuel -/

/-- `Pop` with ANY fuel ≥ `len(data)`: the popped value and the new `data`, every outcome included. -/
theorem pop_tie_fuel [Inhabited α] [DecidableEq α] (h : Model.Heap.Heap α) (fuel : Nat)
    (hf : h.data.size ≤ fuel) :
    Heap_Pop fuel h.comp h.data
      = toOut (Outcome.map (fun r => (r.2, r.1.data)) (Model.Heap.pop h)) := by
  unfold Heap_Pop Model.Heap.pop Heap_peek Heap_size
  by_cases h0 : h.data.size = 0
  · simp [h0, Outcome.map]
  · have hne : ¬ ((h.data.size : Int) = 0) := by omega
    have hl : (h.data.size : Int) - 1 = ((h.data.size - 1 : Nat) : Int) := by omega
    have hz := hIdx_nat h.data 0
    simp only [Int.natCast_zero] at hz
    simp only [h0, hne, if_false, hz, hl, hIdx_nat]
    cases h.data[0]? with
    | none => cases h.data[h.data.size - 1]? <;> simp [Outcome.map]
    | some val =>
      cases h.data[h.data.size - 1]? with
      | none => simp [Outcome.map]
      | some last =>
        have hs := hSet_nat h.data 0 last
        simp only [Int.natCast_zero] at hs
        simp only [bind_optOut_some, hs]
        cases hset : Model.Heap.set? h.data 0 last with
        | none => simp [Outcome.map]
        | some d1 =>
          simp only [bind_optOut_some, hSlice_dropLast]
          cases hd : Model.Heap.dropLast? d1 with
          | none => simp [Outcome.map]
          | some d2 =>
            have hsz : h.data.size = d2.size - 0 + 1 := by
              unfold Model.Heap.set? at hset
              unfold Model.Heap.dropLast? at hd
              split at hset
              · injection hset with hset
                subst hset
                split at hd
                · simp at hd
                · injection hd with hd
                  subst hd
                  simp at *
                  omega
              · simp at hset
            have hmd := moveDown_tie h.comp fuel d2 d2.size 0
            simp only [Int.natCast_zero] at hmd
            simp only [bind_optOut_some]
            rw [hmd, moveDownF_enough h.comp d2.size d2 0 fuel (by omega)]
            cases Model.Heap.moveDown h.comp d2.size d2 0 <;> simp [Outcome.map]

example : (#[3, 1] : Array Int).size ≤ 2 := by decide

/-! ## `Convert`: the loop `for i := (h.size()-2)/2; i >= 0; i-- { h.moveDown(h.size(), i) }` -/

/-- The regenerated loop of `Convert`, started at `i = k - 1`, against the model's structural `convertLoop c k`:
every outcome, the final value of the loop variable (`-1`) included, for every fuel ≥ `len(data) + k + 1`
(one unit per iteration, the `moveDown` inside runs on what remains). -/
theorem convert_loop_tie_full [Inhabited α] [DecidableEq α] (c comp : Comp α) (k : Nat) :
    ∀ (d : Array α) (fuel : Nat), d.size + k + 1 ≤ fuel →
    Heap_Convert_loop1 c comp fuel d ((k : Int) - 1)
      = Out.bind (toOut (Model.Heap.convertLoop c k d)) (fun d' => Out.ok (d', (-1 : Int))) := by
  induction k with
  | zero =>
    intro d fuel hf
    obtain ⟨f, rfl⟩ : ∃ f, fuel = f + 1 := ⟨fuel - 1, by omega⟩
    simp [Heap_Convert_loop1, Model.Heap.convertLoop]
  | succ k ih =>
    intro d fuel hf
    obtain ⟨f, rfl⟩ : ∃ f, fuel = f + 1 := ⟨fuel - 1, by omega⟩
    have e1 : ((k + 1 : Nat) : Int) - 1 = (k : Int) := by omega
    have e2 : (k : Int) ≥ 0 := by omega
    rw [e1]
    unfold Heap_Convert_loop1 Model.Heap.convertLoop Heap_size
    simp only [e2, if_true, moveDown_tie]
    rw [moveDownF_enough c d.size d k f (by omega)]
    cases hm : Model.Heap.moveDown c d.size d k with
    | ok d' =>
      have hfr := (GoguVerif.Lemmas.C03.moveDown_frame hm).1
      simp only [toOut_ok, bind_ok]
      exact ih d' f (by rw [hfr]; omega)
    | panic => simp
    | hang => simp

example : (#[3, 1, 2] : Array Int).size + 1 + 1 ≤ 5 := by decide

/-- the data component alone -/
theorem convert_loop_tie [Inhabited α] [DecidableEq α] (c comp : Comp α) (k : Nat) (d : Array α) (fuel : Nat)
    (hf : d.size + k + 1 ≤ fuel) :
    Out.bind (Heap_Convert_loop1 c comp fuel d ((k : Int) - 1)) (fun r => Out.ok r.1)
      = toOut (Model.Heap.convertLoop c k d) := by
  rw [convert_loop_tie_full c comp k d fuel hf]
  cases Model.Heap.convertLoop c k d <;> simp

example : (#[3, 1, 2] : Array Int).size + 1 + 1 ≤ 5 := by decide

/-- a negative start: no iteration (needs one unit of fuel to find that out) -/
theorem convert_loop_neg [Inhabited α] [DecidableEq α] (c comp : Comp α) (fuel : Nat) (d : Array α) (i : Int)
    (hi : i < 0) : Heap_Convert_loop1 c comp (fuel + 1) d i = Out.ok (d, i) := by
  unfold Heap_Convert_loop1
  have : ¬ (i ≥ 0) := by omega
  simp [this]

example : (-1 : Int) < 0 := by decide

/-- Go's `(size - 2) / 2` (truncating) is the model's `k - 1`, `k = (convertStart size + 1).toNat`, and `k ≤ ⌈size/2⌉` -/
theorem convertStart_spec (size : Nat) :
    ((size : Int) - 2).tdiv 2 = (((Model.Heap.convertStart size + 1).toNat : Nat) : Int) - 1 ∧
    (Model.Heap.convertStart size + 1).toNat ≤ (size + 1) / 2 := by
  unfold Model.Heap.convertStart
  match size with
  | 0 => decide
  | 1 => decide
  | m + 2 =>
    have e : ((m + 2 : Nat) : Int) - 2 = (m : Int) := by omega
    rw [e, Int.tdiv_eq_ediv_of_nonneg (by omega)]
    omega

/-- `Convert(comp)` for every fuel ≥ `len(data) + ⌈len(data)/2⌉ + 1`: the new comparator and the new `data`,
every outcome included. -/
theorem convert_tie [Inhabited α] [DecidableEq α] (h : Model.Heap.Heap α) (comp : Comp α) (fuel : Nat)
    (hf : h.data.size + (h.data.size + 1) / 2 + 1 ≤ fuel) :
    Heap_Convert fuel h.comp h.data comp
      = toOut (Outcome.map (fun h' => (h'.comp, h'.data)) (Model.Heap.convert h comp)) := by
  unfold Heap_Convert Model.Heap.convert Heap_size
  obtain ⟨hs, hk⟩ := convertStart_spec h.data.size
  simp only [hs]
  rw [convert_loop_tie_full comp comp _ h.data fuel (by omega)]
  cases Model.Heap.convertLoop comp (Model.Heap.convertStart h.data.size + 1).toNat h.data <;>
    simp [Outcome.map]

example : (#[3, 1, 2] : Array Int).size + ((#[3, 1, 2] : Array Int).size + 1) / 2 + 1 ≤ 6 := by decide

/-- the same with the rounder bound `2 * len(data) + 1` -/
theorem convert_tie_2n [Inhabited α] [DecidableEq α] (h : Model.Heap.Heap α) (comp : Comp α) (fuel : Nat)
    (hf : 2 * h.data.size + 1 ≤ fuel) :
    Heap_Convert fuel h.comp h.data comp
      = toOut (Outcome.map (fun h' => (h'.comp, h'.data)) (Model.Heap.convert h comp)) :=
  convert_tie h comp fuel (by omega)

example : 2 * (#[3, 1, 2] : Array Int).size + 1 ≤ 7 := by decide

/-! ## `getIndex` and `Delete` -/

/-- The regenerated loop of `getIndex`, started at `i`, against the model's structural `getIndexL` on the rest of
the slice: the early `return i, true` (`some`) or the fall-through with the loop variable at `len(slice)`.  One
unit of fuel per iteration plus one for the final test. -/
theorem getIndex_loop_tie [Inhabited α] [DecidableEq α] (c : Comp α) (d slice : Array α) (val : α) :
    ∀ (fuel i : Nat), i ≤ slice.size → slice.size - i + 1 ≤ fuel →
    Heap_getIndex_loop1 c d slice val fuel (i : Int)
      = Out.ok (match Model.Heap.getIndexL val (slice.toList.drop i) i with
          | some k => (some ((k : Int), true), (k : Int))
          | none => (none, (slice.size : Int))) := by
  intro fuel
  induction fuel with
  | zero => intro i _ hf; omega
  | succ fuel ih =>
    intro i hi hf
    unfold Heap_getIndex_loop1
    by_cases hlt : i < slice.size
    · have hlt' : (i : Int) < (slice.size : Int) := by omega
      simp only [hlt', if_true, hIdx_nat]
      have hget : slice[i]? = some slice[i] := by simp [hlt]
      rw [hget, List.drop_eq_getElem_cons (by simpa using hlt)]
      simp only [bind_optOut_some, Model.Heap.getIndexL, Array.getElem_toList]
      by_cases he : slice[i] = val
      · simp [he]
      · simp only [he, if_false]
        have := ih (i + 1) (by omega) (by omega)
        simpa using this
    · have : i = slice.size := by omega
      subst this
      have hd : slice.toList.drop slice.size = [] := List.drop_eq_nil_of_le (by simp)
      simp [hd, Model.Heap.getIndexL]

example : (0 : Nat) ≤ (#[3, 1] : Array Int).size ∧ (#[3, 1] : Array Int).size - 0 + 1 ≤ 3 := by decide

/-- an index found by the model's scan started at `i` lies in `[i, i + len)` -/
theorem getIndexL_range [DecidableEq α] (val : α) (l : List α) (i k : Nat)
    (h : Model.Heap.getIndexL val l i = some k) : i ≤ k ∧ k < i + l.length := by
  induction l generalizing i with
  | nil => simp [Model.Heap.getIndexL] at h
  | cons x r ih =>
    unfold Model.Heap.getIndexL at h
    by_cases he : x = val
    · simp only [he, if_true] at h
      injection h with h
      subst h
      simp
    · simp only [he, if_false] at h
      have := ih (i + 1) h
      simp only [List.length_cons]
      omega

example : Model.Heap.getIndexL (1 : Int) [3, 1] 0 = some 1 := by decide

theorem getIndex_lt [DecidableEq α] (slice : Array α) (val : α) (k : Nat)
    (h : Model.Heap.getIndex slice val = some k) : k < slice.size := by
  have := (getIndexL_range val slice.toList 0 k h).2
  simpa using this

example : Model.Heap.getIndex (#[3, 1] : Array Int) 1 = some 1 := by decide

/-- `getIndex(slice, val)` for every fuel ≥ `len(slice) + 1`: `(k, true)` at the first occurrence, `(-1, false)`
when there is none (never a panic, never a hang). -/
theorem getIndex_tie [Inhabited α] [DecidableEq α] (c : Comp α) (d slice : Array α) (val : α) (fuel : Nat)
    (hf : slice.size + 1 ≤ fuel) :
    Heap_getIndex fuel c d slice val
      = Out.ok (match Model.Heap.getIndex slice val with
          | some k => ((k : Int), true)
          | none => (-1, false)) := by
  unfold Heap_getIndex Model.Heap.getIndex
  have := getIndex_loop_tie c d slice val fuel 0 (by omega) (by omega)
  simp only [Int.natCast_zero, List.drop_zero] at this
  simp only [this]
  cases Model.Heap.getIndexL val slice.toList 0 <;> simp

example : (#[3, 1] : Array Int).size + 1 ≤ 3 := by decide

/-- `Delete(val)` for every fuel ≥ `len(data) + 1`: the `bool`, whether the `error` is non-nil (exactly when the
`bool` is `false`) and the new `data`; every outcome included. -/
theorem delete_tie [Inhabited α] [DecidableEq α] (h : Model.Heap.Heap α) (val : α) (fuel : Nat)
    (hf : h.data.size + 1 ≤ fuel) :
    Heap_Delete fuel h.comp h.data val
      = toOut (Outcome.map (fun r => (r.2, !r.2, r.1.data)) (Model.Heap.delete h val)) := by
  unfold Heap_Delete Model.Heap.delete Heap_size
  by_cases h0 : h.data.size = 0
  · simp [h0, Outcome.map]
  · have hne : ¬ ((h.data.size : Int) = 0) := by omega
    have hl : (h.data.size : Int) - 1 = ((h.data.size - 1 : Nat) : Int) := by omega
    simp only [h0, hne, if_false, getIndex_tie h.comp h.data h.data val fuel hf, bind_ok, hl]
    cases hg : Model.Heap.getIndex h.data val with
    | none => simp [Outcome.map]
    | some idx =>
      simp only [Bool.not_true, Bool.false_eq_true, if_false, swap_tie]
      cases hs : Model.Heap.swap h.data idx (h.data.size - 1) with
      | none => simp [Outcome.map]
      | some d1 =>
        have hsz1 : d1.size = h.data.size := by
          unfold Model.Heap.swap at hs
          split at hs
          · injection hs with hs
            subst hs
            simp
          · simp at hs
        have hsl : hSlice d1 0 ((h.data.size - 1 : Nat) : Int) = optOut (Model.Heap.dropLast? d1) := by
          rw [← hSlice_dropLast, hsz1, hl]
        simp only [bind_optOut_some, hsl]
        cases hd : Model.Heap.dropLast? d1 with
        | none => simp [Outcome.map]
        | some d2 =>
          have hmd := moveDown_tie h.comp fuel d2 (h.data.size - 1) 0
          simp only [Int.natCast_zero] at hmd
          simp only [bind_optOut_some]
          rw [hmd, moveDownF_enough h.comp (h.data.size - 1) d2 0 fuel (by omega)]
          cases Model.Heap.moveDown h.comp (h.data.size - 1) d2 0 <;> simp [Outcome.map]

example : (#[3, 1] : Array Int).size + 1 ≤ 3 := by decide

/-! ## `FromSlice` -/

/-- The regenerated inner `for { … }` of `FromSlice` is the model's `fsInner`: every outcome, the value the loop
leaves in `i` included, for every amount of fuel.  (The regenerated test `l >= len(data) || l < 0`: `l < 0` is dead
for `i ≥ 0`.) -/
theorem fromSlice_inner_tie [Inhabited α] [DecidableEq α] (c : Comp α) (fuel : Nat) (d : Array α) (i : Nat) :
    FromSlice_loop2 c fuel d (i : Int)
      = toOut (Outcome.map (fun r => (r.1, ((r.2 : Nat) : Int))) (Model.Heap.fsInner c fuel d i)) := by
  induction fuel generalizing d i with
  | zero => simp [FromSlice_loop2, Model.Heap.fsInner, Outcome.map]
  | succ fuel ih =>
    unfold FromSlice_loop2 Model.Heap.fsInner
    have e1 : (2 : Int) * (i : Int) + 1 = ((2 * i + 1 : Nat) : Int) := by omega
    have e2 : (2 : Int) * (i : Int) + 2 = ((2 * i + 2 : Nat) : Int) := by omega
    simp only [e1, e2]
    by_cases hl : 2 * i + 1 ≥ d.size
    · have hl' : ((2 * i + 1 : Nat) : Int) ≥ (d.size : Int) := by omega
      simp only [hl, hl', decide_true, Bool.true_or, if_true, Outcome.map, toOut_ok]
    · have hl' : ¬ ((2 * i + 1 : Nat) : Int) ≥ (d.size : Int) := by omega
      have hl'' : ¬ ((2 * i + 1 : Nat) : Int) < 0 := by omega
      simp only [hl, hl', hl'', decide_false, Bool.or_self, Bool.false_eq_true, if_false]
      rw [pick_bridge]
      cases Model.Heap.pick c d.size d (2 * i + 1) (2 * i + 2) with
      | none => simp [Outcome.map]
      | some cur =>
        simp only [Option.map, bind_optOut_some, hIdx_nat]
        cases d[cur]? with
        | none => cases d[i]? <;> simp [Outcome.map]
        | some x =>
          cases d[i]? with
          | none => simp [Outcome.map]
          | some y =>
            simp only [bind_optOut_some]
            by_cases hc : c x y = true
            · simp only [hc, if_true, Bool.not_true, Bool.false_eq_true, if_false, swap_tie]
              cases Model.Heap.swap d i cur with
              | none => simp [Outcome.map]
              | some d' => simp only [bind_optOut_some, ih]
            · simp [hc, Outcome.map]

/-- an outcome of the inner loop other than `hang` does not depend on the fuel -/
theorem fsInner_mono (c : Comp α) (fuel k : Nat) (d : Array α) (i : Nat)
    (h : Model.Heap.fsInner c fuel d i ≠ .hang) :
    Model.Heap.fsInner c (fuel + k) d i = Model.Heap.fsInner c fuel d i := by
  induction fuel generalizing d i with
  | zero => simp [Model.Heap.fsInner] at h
  | succ fuel ih =>
    have e : fuel + 1 + k = (fuel + k) + 1 := by omega
    rw [e]
    unfold Model.Heap.fsInner at h ⊢
    by_cases hl : 2 * i + 1 ≥ d.size
    · simp [hl]
    · simp only [hl, if_false] at h ⊢
      cases hp : Model.Heap.pick c d.size d (2 * i + 1) (2 * i + 2) with
      | none => rfl
      | some cur =>
        simp only [hp] at h ⊢
        cases hx : d[cur]? with
        | none => cases d[i]? <;> rfl
        | some x =>
          cases hy : d[i]? with
          | none => rfl
          | some y =>
            simp only [hx, hy] at h ⊢
            by_cases hc : c x y = true
            · simp only [hc, Bool.not_true, Bool.false_eq_true, if_false] at h ⊢
              cases hs : Model.Heap.swap d i cur with
              | none => rfl
              | some d' =>
                simp only [hs] at h ⊢
                exact ih d' _ h
            · simp [hc]

example : Model.Heap.fsInner (fun a b : Int => decide (a < b)) 2 #[3, 1] 0 ≠ .hang := by
  simp [Model.Heap.fsInner, Model.Heap.pick, Model.Heap.swap]

/-- the inner loop keeps the length -/
theorem fsInner_size (c : Comp α) (fuel : Nat) (d : Array α) (i : Nat) (d' : Array α) (i' : Nat)
    (h : Model.Heap.fsInner c fuel d i = .ok (d', i')) : d'.size = d.size := by
  induction fuel generalizing d i with
  | zero => simp [Model.Heap.fsInner] at h
  | succ fuel ih =>
    unfold Model.Heap.fsInner at h
    by_cases hl : 2 * i + 1 ≥ d.size
    · simp only [hl, if_true] at h
      injection h with h
      injection h with h1 h2
      rw [h1]
    · simp only [hl, if_false] at h
      cases hp : Model.Heap.pick c d.size d (2 * i + 1) (2 * i + 2) with
      | none => simp [hp] at h
      | some cur =>
        simp only [hp] at h
        cases hx : d[cur]? with
        | none => cases hy : d[i]? <;> simp [hx, hy] at h
        | some x =>
          cases hy : d[i]? with
          | none => simp [hx, hy] at h
          | some y =>
            simp only [hx, hy] at h
            by_cases hc : c x y = true
            · simp only [hc, Bool.not_true, Bool.false_eq_true, if_false] at h
              cases hs : Model.Heap.swap d i cur with
              | none => simp [hs] at h
              | some d1 =>
                simp only [hs] at h
                rw [ih d1 cur h]
                exact GoguVerif.Lemmas.C03.swap_size hs
            · simp only [hc, Bool.not_false, if_true] at h
              injection h with h
              injection h with h1 h2
              rw [h1]

example : Model.Heap.fsInner (fun a b : Int => decide (a < b)) 2 #[3, 1] 0 = .ok (#[1, 3], 1) := by
  simp [Model.Heap.fsInner, Model.Heap.pick, Model.Heap.swap]

/-- The inner loop never runs out of a budget `≥ max 1 (len(data) - i)`: `i` at least doubles at every iteration
and the loop breaks once `2i + 1 ≥ len(data)` (no hypothesis on the comparator). -/
theorem fsInner_ne_hang (c : Comp α) (fuel : Nat) (d : Array α) (i : Nat) (h1 : 1 ≤ fuel)
    (hf : d.size - i ≤ fuel) : Model.Heap.fsInner c fuel d i ≠ .hang := by
  induction fuel generalizing d i with
  | zero => omega
  | succ fuel ih =>
    unfold Model.Heap.fsInner
    by_cases hl : 2 * i + 1 ≥ d.size
    · simp [hl]
    · simp only [hl, if_false]
      cases hp : Model.Heap.pick c d.size d (2 * i + 1) (2 * i + 2) with
      | none => simp
      | some cur =>
        simp only
        cases hx : d[cur]? with
        | none => cases d[i]? <;> simp
        | some x =>
          cases hy : d[i]? with
          | none => simp
          | some y =>
            simp only
            by_cases hc : c x y = true
            · simp only [hc, Bool.not_true, Bool.false_eq_true, if_false]
              cases hs : Model.Heap.swap d i cur with
              | none => simp
              | some d' =>
                simp only
                have hsz := GoguVerif.Lemmas.C03.swap_size hs
                have hcur : cur = 2 * i + 1 ∨ (cur = 2 * i + 2 ∧ 2 * i + 2 < d.size) := by
                  rcases GoguVerif.Lemmas.C03.pick_spec hp with ⟨e, _⟩ | ⟨e, hr, _⟩
                  · exact Or.inl e
                  · exact Or.inr ⟨e, hr⟩
                exact ih d' cur (by omega) (by omega)
            · simp [hc]

example : (1 : Nat) ≤ 2 ∧ (#[3, 1] : Array Int).size - 0 ≤ 2 := by decide

/-- The regenerated outer loop of `FromSlice` (its inner loop runs on what remains of the outer loop's fuel)
against the model's `fsOuter c F` (whose inner loop gets `len(data)`): whenever the model's loop does not run out
of ITS fuel `F`, the regenerated loop with any fuel ≥ `F + len(data)` computes the same outcome (data or panic),
and leaves `-1` in the loop variable (or the start value, when that is negative: no iteration).
`0 < len(data) ∨ i < 0`: on the empty slice with `i ≥ 0` the model's inner loop has no fuel at all. -/
theorem fromSlice_outer_tie [Inhabited α] [DecidableEq α] (c : Comp α) (F : Nat) :
    ∀ (d : Array α) (i : Int) (fuel : Nat), (0 < d.size ∨ i < 0) →
    Model.Heap.fsOuter c F d i ≠ .hang → F + d.size ≤ fuel →
    FromSlice_loop1 c fuel d i
      = Out.bind (toOut (Model.Heap.fsOuter c F d i))
          (fun d' => Out.ok (d', if i < 0 then i else (-1 : Int))) := by
  induction F with
  | zero => intro d i fuel _ h; simp [Model.Heap.fsOuter] at h
  | succ F ih =>
    intro d i fuel hd hnh hf
    obtain ⟨f, rfl⟩ : ∃ f, fuel = f + 1 := ⟨fuel - 1, by omega⟩
    unfold FromSlice_loop1
    unfold Model.Heap.fsOuter at hnh ⊢
    by_cases hi : i < 0
    · have : ¬ (i ≥ 0) := by omega
      simp [hi, this]
    · have hi' : i ≥ 0 := by omega
      have hpos : 0 < d.size := by
        rcases hd with h | h
        · exact h
        · omega
      obtain ⟨n, rfl⟩ : ∃ n : Nat, i = (n : Int) := ⟨i.toNat, by omega⟩
      simp only [hi, hi', if_true, if_false, Int.toNat_natCast, fromSlice_inner_tie] at hnh ⊢
      have hin := fsInner_ne_hang c d.size d n (by omega) (by omega)
      have hm := fsInner_mono c d.size (f - d.size) d n hin
      have e : d.size + (f - d.size) = f := by omega
      rw [e] at hm
      rw [hm]
      cases hr : Model.Heap.fsInner c d.size d n with
      | ok r =>
        obtain ⟨d', i'⟩ := r
        simp only [hr] at hnh
        have hsz := fsInner_size c d.size d n d' i' hr
        have hlast : (if (i' : Int) - 1 < 0 then (i' : Int) - 1 else -1) = -1 := by
          split <;> omega
        simp only [Outcome.map, toOut_ok, bind_ok]
        rw [ih d' ((i' : Int) - 1) f (Or.inl (by omega)) hnh (by omega)]
        simp only [hlast]
      | panic => simp [Outcome.map]
      | hang => exact absurd hr hin

example : (0 < (#[3, 1] : Array Int).size ∨ (0 : Int) < 0) ∧
    Model.Heap.fsOuter (fun a b : Int => decide (a < b)) 5 #[3, 1] 0 ≠ .hang ∧
    5 + (#[3, 1] : Array Int).size ≤ 7 := by
  refine ⟨Or.inl (by decide), ?_, by decide⟩
  simp [Model.Heap.fsOuter, Model.Heap.fsInner, Model.Heap.pick, Model.Heap.swap]

/-- `FromSlice(data, comp)`: the comparator, the new heap's `data` and the written argument slice (the same array).

PARTIAL.  The full statement would be, for every comparator,
`fsFuel data.size + data.size ≤ fuel → FromSlice fuel data comp = toOut (Outcome.map … (fromSlice data comp))`.
What is proved is that statement under `fromSlice data comp ≠ .hang`, i.e. whenever the model's outer loop ends
(with data or with a panic) within the `fsFuel len(data) = len(data)² + 1` iterations the model gives it.
What is MISSING is the case where the model answers `hang`: there one would need "the regenerated loop hangs for
EVERY fuel", i.e. "a `FromSlice` outer loop that has not ended after `len(data)² + 1` iterations never ends".
That is true for a strict weak order vacuously (`fromSlice_spec`: it always ends, see `fromSlice_tie_swo`), and
the loop really can spin for ever for another comparator (`comp = fun _ _ => true` on 3 elements: the inner loop
moves `i` from 0 to 2, the outer `i--` brings it back to 0), but for an arbitrary comparator nothing says that an
outer loop that does end ends within `len(data)² + 1` iterations, so the unconditional statement may be false. -/
theorem fromSlice_tie_partial [Inhabited α] [DecidableEq α] (data : Array α) (comp : Comp α) (fuel : Nat)
    (hnh : Model.Heap.fromSlice data comp ≠ .hang)
    (hf : Model.Heap.fsFuel data.size + data.size ≤ fuel) :
    FromSlice fuel data comp
      = toOut (Outcome.map (fun h' => (h'.comp, h'.data, h'.data)) (Model.Heap.fromSlice data comp)) := by
  unfold FromSlice
  unfold Model.Heap.fromSlice at hnh ⊢
  have hstart : 0 < data.size ∨ (data.size : Int).tdiv 2 - 1 < 0 := by
    rcases Nat.eq_zero_or_pos data.size with h | h
    · right; rw [h]; decide
    · exact Or.inl h
  have hno : Model.Heap.fsOuter comp (Model.Heap.fsFuel data.size) data ((data.size : Int).tdiv 2 - 1) ≠ .hang := by
    intro hh
    rw [hh] at hnh
    exact hnh rfl
  simp only [fromSlice_outer_tie comp _ data _ fuel hstart hno hf]
  cases Model.Heap.fsOuter comp (Model.Heap.fsFuel data.size) data ((data.size : Int).tdiv 2 - 1) <;>
    simp [Outcome.map]

example : Model.Heap.fromSlice (#[3, 1] : Array Int) (fun a b => decide (a < b)) ≠ .hang ∧
    Model.Heap.fsFuel (#[3, 1] : Array Int).size + (#[3, 1] : Array Int).size ≤ 7 := by
  refine ⟨?_, by decide⟩
  simp [Model.Heap.fromSlice, Model.Heap.fsFuel, Model.Heap.fsOuter, Model.Heap.fsInner, Model.Heap.pick,
    Model.Heap.swap]

/-- `FromSlice(data, comp)` for a strict weak order (the comparators C03 is about) and every fuel ≥
`len(data)² + 1 + len(data)`: no hypothesis on the outcome (`fromSlice_spec`: it is always `ok`). -/
theorem fromSlice_tie_swo [Inhabited α] [DecidableEq α] (data : Array α) (comp : Comp α)
    (hc : GoguVerif.Spec.C03.SWO comp) (fuel : Nat)
    (hf : Model.Heap.fsFuel data.size + data.size ≤ fuel) :
    FromSlice fuel data comp
      = toOut (Outcome.map (fun h' => (h'.comp, h'.data, h'.data)) (Model.Heap.fromSlice data comp)) := by
  apply fromSlice_tie_partial data comp fuel _ hf
  obtain ⟨h', e, _⟩ := GoguVerif.Lemmas.C03.fromSlice_spec data comp hc
  rw [e]
  simp

example : GoguVerif.Spec.C03.SWO (fun a b : Int => decide (a < b)) ∧
    Model.Heap.fsFuel (#[3, 1] : Array Int).size + (#[3, 1] : Array Int).size ≤ 7 := by
  refine ⟨⟨?_, ?_, ?_⟩, by decide⟩
  · intro a; simp
  · intro a b c h1 h2; simp at *; omega
  · intro a b c h1 h2; simp at *; omega

end GoguVerif.Theorems.GenTieHeap
