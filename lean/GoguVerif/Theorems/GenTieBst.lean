import GoguVerif.Gen.Bst
import GoguVerif.Model.Bst
import GoguVerif.Lemmas.C04
/-!
# The regenerated tie for `bstree/bstree.go` (C04)

`Gen/Bst.lean` is produced on every run by the translator (`translator/frag_bst.go`) from `bstree/bstree.go`
(and `gogu.Compare` from `generic.go`): a `*Node[K,V]` as a value of the generated inductive type `Gen.Bst.Node`
(fields in declaration order: `Left`, `Right`, the embedded `Item`), in-place assignments as functional updates
handed back to the caller, a field read of a possibly-nil node as `Out.panic`, the `*BsTree` handle's fields
(`comp`, `root`, `size`) as variables, `error` as `Option String`, callbacks without result as transformers of an
abstract world.

The theorems below state, for ALL trees, keys, values, comparators (and callbacks, worlds, size counters), that
each regenerated definition computes exactly what the hand-written definition of `Model/Bst.lean` computes — the
definitions the theorems of C04 are about.  The two tree types differ in field order only; `toM` / `ofM` are the
bijection between them (`toM_ofM`, `ofM_toM`), and every tie is stated through `toM`.  The model's `Option`
(`none` = the call panics) corresponds to `Out.panic`; `Out.hang` never occurs.
-/
set_option linter.unusedSimpArgs false
namespace GoguVerif.Theorems.GenTieBst
open GoguVerif
open GoguVerif.Gen.Bst
open GoguVerif.Model.Bst (Tree St)

variable {κ ν : Type}

/-- the regenerated tree as a tree of the model (same shape; `Left, Right, Item{Key,Val}` ↦ `l k v r`) -/
def toM : Node κ ν → Tree κ ν
  | .nil => .nil
  | .node l r it => .node (toM l) it.Key it.Val (toM r)

/-- and back -/
def ofM : Tree κ ν → Node κ ν
  | .nil => .nil
  | .node l k v r => .node (ofM l) (ofM r) ⟨k, v⟩

/-- `toM` and `ofM` are inverse to each other: the two tree types are the same type up to field order, so a
statement "for all `Node`" is a statement "for all `Tree`". -/
theorem toM_ofM (t : Tree κ ν) : toM (ofM t) = t := by
  induction t with
  | nil => rfl
  | node l k v r ihl ihr => simp only [ofM, toM, ihl, ihr]

theorem ofM_toM (n : Node κ ν) : ofM (toM n) = n := by
  induction n with
  | nil => rfl
  | node l r it ihl ihr => cases it; simp only [toM, ofM, ihl, ihr]

/-- an `Option` of the model (`none` = Go panics) as an outcome -/
def optOut {β : Type} : Option β → Out β
  | some b => .ok b
  | none => .panic

/-- post-processing of an outcome's value -/
def Out.map {β γ : Type} (f : β → γ) : Out β → Out γ
  | .ok b => .ok (f b)
  | .panic => .panic
  | .hang => .hang

/-- the model's error flag (`true` = nil error) as the regenerated `error` -/
def errOf : Bool → Err
  | true => none
  | false => some "ErrorNotFound"

/-- the model's answer of `get` as the Go result pair `(Item, error)` -/
def getRes [Inhabited κ] [Inhabited ν] : Option (κ × ν) → Item κ ν × Err
  | none => (⟨default, default⟩, some "ErrorNotFound")
  | some (k, v) => (⟨k, v⟩, none)

@[simp] theorem bind_ok {β γ : Type} (b : β) (f : β → Out γ) : Out.bind (Out.ok b) f = f b := rfl
@[simp] theorem bind_panic {β γ : Type} (f : β → Out γ) : Out.bind (Out.panic : Out β) f = Out.panic := rfl
@[simp] theorem map_ok {β γ : Type} (b : β) (f : β → γ) : Out.map f (Out.ok b) = Out.ok (f b) := rfl
@[simp] theorem map_panic {β γ : Type} (f : β → γ) : Out.map f (Out.panic : Out β) = Out.panic := rfl
@[simp] theorem optOut_some {β : Type} (b : β) : optOut (some b) = Out.ok b := rfl
@[simp] theorem optOut_none {β : Type} : optOut (none : Option β) = Out.panic := rfl
@[simp] theorem isNil_nil : Node.isNil (Node.nil : Node κ ν) = true := rfl
@[simp] theorem isNil_node (l r : Node κ ν) (it : Item κ ν) : Node.isNil (Node.node l r it) = false := rfl

/-- what an equation `Out.map f x = optOut y` says about `x` and `y` -/
theorem map_eq_optOut {β γ : Type} {f : β → γ} {x : Out β} {y : Option γ} (h : Out.map f x = optOut y) :
    (∃ b, x = Out.ok b ∧ y = some (f b)) ∨ (x = Out.panic ∧ y = none) := by
  cases x <;> cases y <;> simp_all [Out.map, optOut]

/-! ## `gogu.Compare`, `NewNode` -/

/-- `gogu.Compare` regenerated = the model's `compare`. -/
theorem compare_tie [Inhabited κ] (comp : κ → κ → Bool) (a b : κ) :
    gogu_Compare a b comp = Model.Bst.compare comp a b := by
  unfold gogu_Compare Model.Bst.compare
  rfl

/-- `NewNode(key, val)` is the leaf the model builds. -/
theorem newNode_tie [Inhabited κ] [Inhabited ν] (key : κ) (val : ν) :
    toM (NewNode key val) = Tree.node .nil key val .nil := rfl

/-! ## `get` / `Get` -/

/-- `(*Node).get` regenerated = `Model.Bst.get`, for every tree, key and comparator (it never panics: the
regenerated definition is not even in outcome form). -/
theorem get_tie [Inhabited κ] [Inhabited ν] (comp : κ → κ → Bool) (key : κ) (n : Node κ ν) :
    Node_get n comp key = getRes (Model.Bst.get comp key (toM n)) := by
  induction n with
  | nil => rfl
  | node l r it ihl ihr =>
    unfold Node_get
    simp only [toM, Model.Bst.get, compare_tie, beq_iff_eq]
    split
    · simp only [ihl]
    · split
      · simp only [ihr]
      · cases it; rfl

/-- `BsTree.Get` regenerated = the model's `get` on the root. -/
theorem Get_tie [Inhabited κ] [Inhabited ν] (comp : κ → κ → Bool) (key : κ) (root : Node κ ν) :
    BsTree_Get comp root key = getRes (Model.Bst.get comp key (toM root)) := by
  unfold BsTree_Get
  simp only [get_tie]

/-! ## `upsert` / `Upsert` -/

/-- `(*Node).upsert` regenerated = `Model.Bst.upsertNode`: the updated node and the size counter, and a panic
exactly on the nil receiver. -/
theorem upsert_tie [Inhabited κ] [Inhabited ν] (comp : κ → κ → Bool) (key : κ) (val : ν) (n : Node κ ν) (size : Int) :
    Out.map (fun r => (toM r.1, r.2)) (Node_upsert n comp size key val)
      = optOut (Model.Bst.upsertNode comp key val (toM n) size) := by
  induction n generalizing size with
  | nil => rfl
  | node l r it ihl ihr =>
    unfold Node_upsert
    simp only [compare_tie, beq_iff_eq]
    by_cases h1 : Model.Bst.compare comp key it.Key = 1
    · cases l with
      | nil => simp [toM, Lemmas.C04.upsertNode_node, h1, NewNode, Out.map, optOut]
      | node ll lr lit =>
        have h := ihl size
        simp only [toM] at h
        simp only [toM, Lemmas.C04.upsertNode_node _ _ it.Key, h1, if_true]
        rcases map_eq_optOut h with ⟨b, hg, hm⟩ | ⟨hg, hm⟩ <;> simp [hg, hm, toM]
    · by_cases h2 : Model.Bst.compare comp key it.Key = -1
      · cases r with
        | nil => simp [toM, Lemmas.C04.upsertNode_node, h1, h2, NewNode, Out.map, optOut]
        | node rl rr rit =>
          have h := ihr size
          simp only [toM] at h
          simp only [toM, Lemmas.C04.upsertNode_node _ _ it.Key, h1, h2, if_true, if_false]
          rcases map_eq_optOut h with ⟨b, hg, hm⟩ | ⟨hg, hm⟩ <;> simp [hg, hm, toM]
      · simp [toM, Lemmas.C04.upsertNode_node, h1, h2, Out.map, optOut]

/-- `BsTree.Upsert` regenerated = the model's `step` for `upsert` (new root and size). -/
theorem Upsert_tie [Inhabited κ] [Inhabited ν] (comp : κ → κ → Bool) (key : κ) (val : ν) (root : Node κ ν) (size : Int) :
    Out.map (fun r => (toM r.1, r.2)) (BsTree_Upsert comp root size key val)
      = optOut ((Model.Bst.step comp ⟨toM root, size⟩ (.upsert key val)).map fun p => (p.1.root, p.1.size)) := by
  cases root with
  | nil => rfl
  | node l r it =>
    have h := upsert_tie comp key val (Node.node l r it) size
    unfold BsTree_Upsert
    simp only [toM, Model.Bst.step] at h ⊢
    rcases map_eq_optOut h with ⟨b, hg, hm⟩ | ⟨hg, hm⟩ <;> simp [hg, hm, toM]

/-! ## `min` -/

/-- the walk of `min` on a non-nil node ends in a node without left child whose item is what the model's `min`
answers -/
theorem min_loop_node [Inhabited κ] [Inhabited ν] (l r : Node κ ν) (it : Item κ ν) :
    ∃ r' it', Node_min_loop1 (Node.node l r it) = Out.ok (Node.node .nil r' it')
      ∧ Model.Bst.min (toM (Node.node l r it)) = some (it'.Key, it'.Val) := by
  induction l generalizing r it with
  | nil => exact ⟨r, it, rfl, rfl⟩
  | node ll lr lit ihl _ =>
    obtain ⟨r', it', h1, h2⟩ := ihl lr lit
    refine ⟨r', it', ?_, ?_⟩
    · unfold Node_min_loop1
      simp only [isNil_node, Bool.not_false, if_true]
      exact h1
    · simp only [toM, Model.Bst.min] at h2 ⊢
      exact h2

/-- `(*Node).min` regenerated = `Model.Bst.min`: the item of the node it returns (never `nil`) is the model's
answer, and it panics exactly on the nil receiver. -/
theorem min_tie [Inhabited κ] [Inhabited ν] (n : Node κ ν) :
    Out.bind (Node_min n) (fun m => match m with
        | .nil => Out.panic
        | .node _ _ it => Out.ok (it.Key, it.Val))
      = optOut (Model.Bst.min (toM n)) := by
  cases n with
  | nil => rfl
  | node l r it =>
    obtain ⟨r', it', h1, h2⟩ := min_loop_node l r it
    unfold Node_min
    simp only [h1, h2, bind_ok, optOut_some]

/-! ## `delete` / `Delete` -/

/-- `(*Node).delete` regenerated = `Model.Bst.delete`: the returned subtree and the error, in all four cases
of the key's node including the successor case; a panic exactly where the model has one.  (The third component
of the regenerated result, the receiver as the call leaves it, is overwritten by every caller.) -/
theorem delete_tie [Inhabited κ] [Inhabited ν] (comp : κ → κ → Bool) (key : κ) (n : Node κ ν) :
    Out.map (fun r => (toM r.1, r.2.1)) (Node_delete n comp key)
      = optOut ((Model.Bst.delete comp key (toM n)).map fun p => (p.1, errOf p.2)) := by
  induction n generalizing key with
  | nil => rfl
  | node l r it ihl ihr =>
    unfold Node_delete
    simp only [toM, compare_tie, beq_iff_eq]
    rw [Lemmas.C04.delete_node]
    by_cases h1 : Model.Bst.compare comp key it.Key = 1
    · simp only [h1, if_true]
      rcases map_eq_optOut (ihl key) with ⟨b, hg, hm⟩ | ⟨hg, hm⟩
      · cases hd : Model.Bst.delete comp key (toM l) with
        | none => simp [hd] at hm
        | some p => simp [hd] at hm; obtain ⟨hm1, hm2⟩ := hm; simp [hg, hm1, ← hm2, toM]
      · cases hd : Model.Bst.delete comp key (toM l) with
        | none => simp [hg, hd]
        | some p => simp [hd] at hm
    · by_cases h2 : Model.Bst.compare comp key it.Key = -1
      · simp only [h1, h2, if_true, if_false]
        rcases map_eq_optOut (ihr key) with ⟨b, hg, hm⟩ | ⟨hg, hm⟩
        · cases hd : Model.Bst.delete comp key (toM r) with
          | none => simp [hd] at hm
          | some p => simp [hd] at hm; obtain ⟨hm1, hm2⟩ := hm; simp [hg, hm1, ← hm2, toM]
        · cases hd : Model.Bst.delete comp key (toM r) with
          | none => simp [hg, hd]
          | some p => simp [hd] at hm
      · simp only [h1, h2, if_false]
        cases l with
        | nil =>
          cases r with
          | nil => rfl
          | node rl rr rit => rfl
        | node ll lr lit =>
          cases r with
          | nil => rfl
          | node rl rr rit =>
            obtain ⟨r', it', hl1, hl2⟩ := min_loop_node rl rr rit
            have h := ihr it'.Key
            simp only [toM] at h hl2
            simp only [isNil_node, Bool.false_and, Bool.and_false, Bool.not_false, Bool.and_self,
              Bool.false_eq_true, if_false, Node_min, hl1, bind_ok, toM, hl2]
            rcases map_eq_optOut h with ⟨b, hg, hm⟩ | ⟨hg, hm⟩
            · cases hd : Model.Bst.delete comp it'.Key (Tree.node (toM rl) rit.Key rit.Val (toM rr)) with
              | none => simp [hd] at hm
              | some p => simp [hd] at hm; obtain ⟨hm1, hm2⟩ := hm; simp [hg, hm1, ← hm2, toM]
            · cases hd : Model.Bst.delete comp it'.Key (Tree.node (toM rl) rit.Key rit.Val (toM rr)) with
              | none => simp [hg, hd]
              | some p => simp [hd] at hm

/-- `BsTree.Delete` regenerated = the model's `step` for `delete`: error, new root, and the size counter
decremented unconditionally (finding F10: also for an absent key) — exactly as the model has it. -/
theorem Delete_tie [Inhabited κ] [Inhabited ν] (comp : κ → κ → Bool) (key : κ) (root : Node κ ν) (size : Int) :
    Out.map (fun r => (r.1, toM r.2.1, r.2.2)) (BsTree_Delete comp root size key)
      = optOut ((Model.Bst.delete comp key (toM root)).map fun p => (errOf p.2, p.1, size - 1)) := by
  unfold BsTree_Delete
  rcases map_eq_optOut (delete_tie comp key root) with ⟨b, hg, hm⟩ | ⟨hg, hm⟩
  · cases hd : Model.Bst.delete comp key (toM root) with
    | none => simp [hd] at hm
    | some p => simp [hd] at hm; obtain ⟨hm1, hm2⟩ := hm; simp [hg, hm1, ← hm2]
  · cases hd : Model.Bst.delete comp key (toM root) with
    | none => simp [hg]
    | some p => simp [hd] at hm

/-- F10 at the level of the regenerated code: deleting from the empty tree reports `ErrorNotFound` and still
decrements the counter. -/
theorem Delete_absent_decrements [Inhabited κ] [Inhabited ν] (comp : κ → κ → Bool) (key : κ) (size : Int) :
    BsTree_Delete comp (Node.nil : Node κ ν) size key = Out.ok (some "ErrorNotFound", Node.nil, size - 1) := rfl

/-! ## `Size` -/

/-- `BsTree.Size` regenerated = the counter, as in the model's `step`. -/
theorem Size_tie [Inhabited κ] [Inhabited ν] (s : St κ ν) :
    Model.Bst.step (fun _ _ => false) s (.size) = some (s, .int (BsTree_Size (κ := κ) (ν := ν) s.size)) := rfl

/-! ## the in-order walk -/

/-- `(*Node).traverse` regenerated: the callback is applied to the items of `Model.Bst.traverse`, in that
order, for every callback and every world. -/
theorem traverse_tie [Inhabited κ] [Inhabited ν] {σ : Type} (n : Node κ ν) (visit : Item κ ν → σ → σ) (w : σ) :
    Node_traverse n visit w
      = (Model.Bst.traverse (toM n)).foldl (fun w p => visit ⟨p.1, p.2⟩ w) w := by
  induction n generalizing w with
  | nil => rfl
  | node l r it ihl ihr =>
    unfold Node_traverse
    simp only [toM, Model.Bst.traverse, List.foldl_append, List.foldl_cons, ihl, ihr]

/-- with the collecting callback of `BsTree.Traverse` the walk appends exactly the model's in-order list -/
theorem traverse_collect [Inhabited κ] [Inhabited ν] (n : Node κ ν) (acc : List (Item κ ν)) :
    Node_traverse n (fun item items => items ++ [item]) acc
      = acc ++ (Model.Bst.traverse (toM n)).map (fun p => ⟨p.1, p.2⟩) := by
  rw [traverse_tie]
  generalize Model.Bst.traverse (toM n) = xs
  induction xs generalizing acc with
  | nil => simp
  | cons x xs ih => simp only [List.foldl_cons, ih, List.map_cons, List.append_assoc, List.singleton_append]

/-- `BsTree.Traverse` regenerated: `fn` is called on the items of `Model.Bst.traverse` of the root, in order. -/
theorem Traverse_tie [Inhabited κ] [Inhabited ν] {σ : Type} (root : Node κ ν) (fn : Item κ ν → σ → σ) (w : σ) :
    BsTree_Traverse root fn w
      = (Model.Bst.traverse (toM root)).foldl (fun w p => fn ⟨p.1, p.2⟩ w) w := by
  unfold BsTree_Traverse
  simp only [traverse_collect, List.nil_append, List.foldl_map]

/-- In particular the items handed to the callback are, as a list, what the model's `step` answers for
`traverse`. -/
theorem Traverse_items [Inhabited κ] [Inhabited ν] (root : Node κ ν) :
    BsTree_Traverse root (fun it acc => acc ++ [(it.Key, it.Val)]) ([] : List (κ × ν))
      = Model.Bst.traverse (toM root) := by
  rw [Traverse_tie]
  generalize Model.Bst.traverse (toM root) = xs
  have : ∀ acc : List (κ × ν), List.foldl (fun w p => w ++ [(p.1, p.2)]) acc xs = acc ++ xs := by
    induction xs with
    | nil => simp
    | cons x xs ih => intro acc; simp only [List.foldl_cons, ih, List.append_assoc, List.singleton_append]
  simpa using this []

/-! ## whole calls: the regenerated exported methods against `Model.Bst.step` -/

/-- `Get` against `step`: the state is unchanged and the answer is the value the regenerated method returns,
or "not found" when it returns an error. -/
theorem Get_step [Inhabited κ] [Inhabited ν] (comp : κ → κ → Bool) (key : κ) (root : Node κ ν) (size : Int) :
    Model.Bst.step comp ⟨toM root, size⟩ (.get key)
      = some (⟨toM root, size⟩,
          .got (match (BsTree_Get comp root key).2 with
                | none => some (BsTree_Get comp root key).1.Val
                | some _ => none)) := by
  rw [Get_tie]
  simp only [Model.Bst.step]
  cases Model.Bst.get comp key (toM root) with
  | none => rfl
  | some p => cases p; rfl

/-- `Delete` against `step`: new root, decremented counter and the found flag. -/
theorem Delete_step [Inhabited κ] [Inhabited ν] (comp : κ → κ → Bool) (key : κ) (root : Node κ ν) (size : Int) :
    optOut (Model.Bst.step comp ⟨toM root, size⟩ (.delete key))
      = Out.map (fun r => ((⟨toM r.2.1, r.2.2⟩ : St κ ν), Spec.C04.Out.deleted r.1.isNone))
          (BsTree_Delete comp root size key) := by
  simp only [Model.Bst.step]
  rcases map_eq_optOut (Delete_tie comp key root size) with ⟨b, hg, hm⟩ | ⟨hg, hm⟩
  · cases hd : Model.Bst.delete comp key (toM root) with
    | none => simp [hd] at hm
    | some p =>
      simp [hd] at hm
      obtain ⟨t, e⟩ := p
      obtain ⟨hb1, hb2, hb3⟩ := hm
      cases e <;> simp [errOf] at hb1 <;> simp [hg, ← hb1, ← hb2, ← hb3]
  · cases hd : Model.Bst.delete comp key (toM root) with
    | none => simp [hg]
    | some p => simp [hd] at hm

/-! ## concrete instances (the regenerated code runs: two-children delete with successor, absent key, upsert) -/

/-- the tree `2 ← 4 → 6` with `5` under `6` (values = 10 × key), `comp = (· < ·)` as in the tests -/
def sample : Node Int Int :=
  .node (.node .nil .nil ⟨2, 20⟩) (.node (.node .nil .nil ⟨5, 50⟩) .nil ⟨6, 60⟩) ⟨4, 40⟩

example : (BsTree_Delete (fun a b => decide (a < b)) sample 4 4)
    = Out.ok (none, .node (.node .nil .nil ⟨2, 20⟩) (.node .nil .nil ⟨6, 60⟩) ⟨5, 50⟩, 3) := by rfl
example : (BsTree_Delete (fun a b => decide (a < b)) sample 4 7)
    = Out.ok (some "ErrorNotFound", sample, 3) := by rfl
example : (BsTree_Get (fun a b => decide (a < b)) sample 5) = (⟨5, 50⟩, none) := by rfl
example : Out.map (fun r => r.2) (BsTree_Upsert (fun a b => decide (a < b)) sample 4 3 30) = Out.ok 5 := by rfl
example : BsTree_Traverse sample (fun it acc => acc ++ [it.Key]) [] = [2, 4, 5, 6] := by rfl
example : Node_min (Node.nil : Node Int Int) = Out.panic := rfl

end GoguVerif.Theorems.GenTieBst
