import GoguVerif.Gen.Funcs2
import GoguVerif.Model.C11
/-!
# The regenerated tie for `Contains`, `Intersection`, `IntersectionBy` (C11)

`Gen/Funcs2.lean` is produced by the translator from the Go source; the theorems below state that the
regenerated definitions compute exactly the outcome of the hand-written model of `Model/C11.lean`, for every
amount of fuel above an explicit bound (the loops over indices run on fuel; the inner scan runs on what the
outer loop has left).
-/
namespace GoguVerif.Theorems.GenTieMore2
open GoguVerif GoguVerif.Gen.Funcs2

variable {α : Type} [Inhabited α] [DecidableEq α]

namespace C

/-! ## bridging lemmas -/

@[simp] theorem bind_ok {β γ : Type} (b : β) (f : β → Out γ) : Out.bind (Out.ok b) f = f b := rfl
@[simp] theorem bind_panic {β γ : Type} (f : β → Out γ) : Out.bind (Out.panic : Out β) f = Out.panic := rfl
@[simp] theorem bind_hang {β γ : Type} (f : β → Out γ) : Out.bind (Out.hang : Out β) f = Out.hang := rfl

theorem hIdx_lt {β : Type} (s : Array β) (i : Nat) (h : i < s.size) : hIdx s (i : Int) = .ok s[i] := by
  unfold hIdx
  have h0 : ¬ ((i : Int) < 0) := by omega
  simp [h0, h]

theorem hIdx_zero_lt {β : Type} (s : Array β) (h : 0 < s.size) : hIdx s (0 : Int) = .ok s[0] :=
  hIdx_lt s 0 h

theorem hIdx_empty {β : Type} (s : Array β) (h : s.size = 0) (i : Int) : hIdx s i = .panic := by
  unfold hIdx
  split
  · rfl
  · have : s[i.toNat]? = none := by simp; omega
    simp [this]

theorem contains_loop (s : Array α) (v : α) (xs : List α) :
    (Contains_loop1 s v xs).1 = (if Model.C11.contains v xs then some true else none) := by
  induction xs with
  | nil => simp [Contains_loop1, Model.C11.contains]
  | cons x rest ih =>
    unfold Contains_loop1 Model.C11.contains
    by_cases h : x = v
    · simp [h]
    · simp [h, ih]

end C
open C

/-! ## `Contains` -/

theorem contains_tie (s : Array α) (v : α) : Contains s v = Model.C11.contains v s.toList := by
  unfold Contains
  simp only [contains_loop]
  cases Model.C11.contains v s.toList <;> simp

/-! ## `Intersection` -/

namespace C

theorem inter_scan_gen (params : Array (Array α)) (result : Array α) (i : Int) (item : α)
    (ps : List (List α)) : ∀ (j fuel : Nat), (params.toList.drop j).map Array.toList = ps →
      j ≤ params.size → ps.length + 1 ≤ fuel →
      Intersection_loop2 params result i item fuel (j : Int)
        = Out.ok ((Model.C11.interScan item ps j : Nat) : Int) := by
  induction ps with
  | nil =>
    intro j fuel hps hj hf
    have hsz : params.size ≤ j := by
      have := congrArg List.length hps
      simp at this; omega
    cases fuel with
    | zero => simp at hf
    | succ f =>
      unfold Intersection_loop2
      have : ¬ ((j : Int) < (params.size : Int)) := by omega
      simp [this, Model.C11.interScan]
  | cons p ps ih =>
    intro j fuel hps hj hf
    have hlt : j < params.size := by
      have := congrArg List.length hps
      simp at this; omega
    have hdrop : params.toList.drop j = params[j] :: params.toList.drop (j + 1) := by
      rw [List.drop_eq_getElem_cons (by simpa using hlt)]
      simp
    rw [hdrop] at hps
    simp only [List.map_cons, List.cons.injEq] at hps
    obtain ⟨hp, hps⟩ := hps
    cases fuel with
    | zero => simp at hf
    | succ f =>
      unfold Intersection_loop2
      have hlt' : ((j : Int) < (params.size : Int)) := by omega
      simp only [hlt', if_true, hIdx_lt _ _ hlt, bind_ok, contains_tie, hp]
      unfold Model.C11.interScan
      cases hc : Model.C11.contains item p with
      | false => simp
      | true =>
        simp only [if_true, Bool.not_true, Bool.false_eq_true, if_false]
        have : (j : Int) + 1 = ((j + 1 : Nat) : Int) := by omega
        rw [this]
        exact ih (j + 1) f hps (by omega) (by simp at hf; omega)

end C

/-- the inner scan `for j = …; j < len(params); j++ { if !Contains(params[j], item) { break } }` -/
theorem inter_scan_tie (params : Array (Array α)) (result : Array α) (i : Int) (item : α)
    (fuel j : Nat) (hj : j ≤ params.size) (hf : params.size - j + 1 ≤ fuel) :
    Intersection_loop2 params result i item fuel (j : Int)
      = Out.ok ((Model.C11.interScan item ((params.toList.drop j).map Array.toList) j : Nat) : Int) := by
  apply inter_scan_gen _ _ _ _ _ j fuel rfl hj
  simp; omega

example : Intersection_loop2 (#[#[1, 2], #[2]] : Array (Array Nat)) #[] 0 2 2 (1 : Nat)
    = Out.ok ((Model.C11.interScan 2 (((#[#[1, 2], #[2]] : Array (Array Nat)).toList.drop 1).map Array.toList) 1 : Nat) : Int) :=
  inter_scan_tie _ _ _ _ 2 1 (by decide) (by decide)

namespace C

theorem inter_loop_gen (params : Array (Array α)) (hpos : 0 < params.size) (rest : List α) :
    ∀ (i fuel : Nat) (result : Array α), (params[0]).toList.drop i = rest → i ≤ (params[0]).size →
      rest.length + params.size + 2 ≤ fuel →
      Out.bind (Intersection_loop1 params fuel result (i : Int)) (fun r => Out.ok r.1)
        = Out.ok (Model.C11.interLoop params.size ((params.toList.drop 1).map Array.toList)
            result.toList rest).toArray := by
  induction rest with
  | nil =>
    intro i fuel result hrest hi hf
    have hsz : (params[0]).size ≤ i := by
      have := congrArg List.length hrest
      simp at this; omega
    cases fuel with
    | zero => simp at hf
    | succ f =>
      unfold Intersection_loop1
      have : ¬ (i < (params[0]).size) := by omega
      simp [hIdx_zero_lt _ hpos, this, Model.C11.interLoop]
  | cons item rest ih =>
    intro i fuel result hrest hi hf
    have hlt : i < (params[0]).size := by
      have := congrArg List.length hrest
      simp at this; omega
    have hdrop : (params[0]).toList.drop i = (params[0])[i] :: (params[0]).toList.drop (i + 1) := by
      rw [List.drop_eq_getElem_cons (by simpa using hlt)]
      simp
    rw [hdrop] at hrest
    simp only [List.cons.injEq] at hrest
    obtain ⟨hitem, hrest⟩ := hrest
    cases fuel with
    | zero => simp at hf
    | succ f =>
      unfold Intersection_loop1
      have hlt' : ((i : Int) < ((params[0]).size : Int)) := by omega
      have hi1 : (i : Int) + 1 = ((i + 1 : Nat) : Int) := by omega
      simp only [hIdx_zero_lt _ hpos, bind_ok, hlt', if_true, hIdx_lt _ _ hlt, contains_tie, hitem]
      unfold Model.C11.interLoop
      simp only [List.length_cons] at hf
      cases hc : Model.C11.contains item result.toList with
      | true =>
        simp only [if_true]
        rw [hi1]
        exact ih (i + 1) f result hrest (by omega) (by omega)
      | false =>
        have hscan : Intersection_loop2 params result (i : Int) item f (1 : Int)
            = Out.ok ((Model.C11.interScan item ((params.toList.drop 1).map Array.toList) 1 : Nat) : Int) :=
          inter_scan_tie params result i item f 1 (by omega) (by omega)
        simp only [Bool.false_eq_true, if_false, hscan, bind_ok, Int.natCast_inj]
        rw [hi1]
        by_cases hn : Model.C11.interScan item ((params.toList.drop 1).map Array.toList) 1 = params.size
        · simp only [hn, if_true, bind_ok]
          rw [ih (i + 1) f (result.push item) hrest (by omega) (by omega)]
          simp
        · simp only [hn, if_false, bind_ok]
          exact ih (i + 1) f result hrest (by omega) (by omega)

end C

/-- the outer loop `for i := 0; i < len(params[0]); i++ { … }` from position `i` -/
theorem inter_loop_tie (params : Array (Array α)) (hpos : 0 < params.size) (result : Array α)
    (i fuel : Nat) (hi : i ≤ (params[0]).size)
    (hf : (params[0]).size - i + params.size + 2 ≤ fuel) :
    Out.bind (Intersection_loop1 params fuel result (i : Int)) (fun r => Out.ok r.1)
      = Out.ok (Model.C11.interLoop params.size ((params.toList.drop 1).map Array.toList)
          result.toList ((params[0]).toList.drop i)).toArray := by
  apply inter_loop_gen params hpos _ i fuel result rfl hi
  simp; omega

example : Out.bind (Intersection_loop1 (#[#[1, 2], #[2]] : Array (Array Nat)) 6 #[] (0 : Nat)) (fun r => Out.ok r.1)
    = Out.ok (Model.C11.interLoop 2 [[2]] [] [1, 2]).toArray :=
  inter_loop_tie (#[#[1, 2], #[2]] : Array (Array Nat)) (by decide) #[] 0 6 (by decide) (by decide)

/-- `Intersection`: with fuel above `len(params[0]) + len(params) + 2` (and at least 1 when there is no
argument: `params[0]` then panics in the first iteration, as the model says) -/
theorem intersection_tie (params : Array (Array α)) (fuel : Nat)
    (hf : (params[0]?.map Array.size).getD 0 + params.size + 2 ≤ fuel) :
    Intersection fuel params
      = (match Model.C11.intersection (params.toList.map Array.toList) with
         | .ok l => Out.ok l.toArray
         | .panic => Out.panic) := by
  by_cases hpos : 0 < params.size
  · have h0 : params[0]? = some params[0] := by simp [hpos]
    rw [h0] at hf
    simp only [Option.map_some, Option.getD_some] at hf
    have hl : params.toList = params[0] :: params.toList.drop 1 := by
      have := List.drop_eq_getElem_cons (l := params.toList) (i := 0) (by simpa using hpos)
      simpa using this
    have := inter_loop_tie params hpos #[] 0 fuel (by omega) (by omega)
    unfold Intersection
    simp only [Int.natCast_zero] at this
    simp only [this]
    conv => rhs; rw [hl]
    simp [Model.C11.intersection]
    rw [Nat.sub_add_cancel hpos]
  · have hsz : params.size = 0 := by omega
    have hl : params.toList = [] := by simpa using hsz
    cases fuel with
    | zero => simp at hf
    | succ f =>
      unfold Intersection Intersection_loop1
      simp [hIdx_empty _ hsz, hl, Model.C11.intersection]

example : Intersection 6 (#[#[1, 2], #[2]] : Array (Array Nat))
    = (match Model.C11.intersection ((#[#[1, 2], #[2]] : Array (Array Nat)).toList.map Array.toList) with
       | .ok l => Out.ok l.toArray
       | .panic => Out.panic) :=
  intersection_tie _ 6 (by decide)

example : Intersection 2 (#[] : Array (Array Nat)) = Out.panic :=
  intersection_tie _ 2 (by decide)

/-! ## `IntersectionBy` -/

/-- the closure `has` (its captured `j` and the fuel are irrelevant) -/
theorem hasImage_tie (fn : α → α) (params : Array (Array α)) (result : Array α) (i : Int) (item : α)
    (j : Int) (fuel : Nat) (xs : List α) :
    IntersectionBy_loop3 fn params result i item j fuel xs
      = Out.ok (if Model.C11.hasImage fn item xs then some true else none, ()) := by
  induction xs with
  | nil => simp [IntersectionBy_loop3, Model.C11.hasImage]
  | cons x rest ih =>
    unfold IntersectionBy_loop3 Model.C11.hasImage
    by_cases h : fn x = fn item
    · simp [h]
    · simp [h, ih]

namespace C

theorem interBy_scan_gen (fn : α → α) (params : Array (Array α)) (result : Array α) (i : Int) (item : α)
    (ps : List (List α)) : ∀ (j fuel : Nat), (params.toList.drop j).map Array.toList = ps →
      j ≤ params.size → ps.length + 1 ≤ fuel →
      IntersectionBy_loop2 fn params result i item fuel (j : Int)
        = Out.ok ((Model.C11.interByScan fn item ps j : Nat) : Int) := by
  induction ps with
  | nil =>
    intro j fuel hps hj hf
    have hsz : params.size ≤ j := by
      have := congrArg List.length hps
      simp at this; omega
    cases fuel with
    | zero => simp at hf
    | succ f =>
      unfold IntersectionBy_loop2
      have : ¬ ((j : Int) < (params.size : Int)) := by omega
      simp [this, Model.C11.interByScan]
  | cons p ps ih =>
    intro j fuel hps hj hf
    have hlt : j < params.size := by
      have := congrArg List.length hps
      simp at this; omega
    have hdrop : params.toList.drop j = params[j] :: params.toList.drop (j + 1) := by
      rw [List.drop_eq_getElem_cons (by simpa using hlt)]
      simp
    rw [hdrop] at hps
    simp only [List.map_cons, List.cons.injEq] at hps
    obtain ⟨hp, hps⟩ := hps
    cases fuel with
    | zero => simp at hf
    | succ f =>
      unfold IntersectionBy_loop2
      have hlt' : ((j : Int) < (params.size : Int)) := by omega
      simp only [hlt', if_true, hIdx_lt _ _ hlt, bind_ok, hasImage_tie, hp]
      unfold Model.C11.interByScan
      cases hc : Model.C11.hasImage fn item p with
      | false => simp
      | true =>
        simp only [if_true, Bool.not_true, Bool.false_eq_true, if_false, bind_ok]
        have : (j : Int) + 1 = ((j + 1 : Nat) : Int) := by omega
        rw [this]
        exact ih (j + 1) f hps (by omega) (by simp at hf; omega)

end C

/-- the inner scan `for j = …; j < len(params); j++ { if !has(params[j], item) { break } }` -/
theorem interBy_scan_tie (fn : α → α) (params : Array (Array α)) (result : Array α) (i : Int) (item : α)
    (fuel j : Nat) (hj : j ≤ params.size) (hf : params.size - j + 1 ≤ fuel) :
    IntersectionBy_loop2 fn params result i item fuel (j : Int)
      = Out.ok ((Model.C11.interByScan fn item ((params.toList.drop j).map Array.toList) j : Nat) : Int) := by
  apply interBy_scan_gen _ _ _ _ _ _ j fuel rfl hj
  simp; omega

example : IntersectionBy_loop2 (· % 2) (#[#[1, 2], #[4]] : Array (Array Nat)) #[] 0 2 2 (1 : Nat)
    = Out.ok ((Model.C11.interByScan (· % 2) 2
        (((#[#[1, 2], #[4]] : Array (Array Nat)).toList.drop 1).map Array.toList) 1 : Nat) : Int) :=
  interBy_scan_tie _ _ _ _ _ 2 1 (by decide) (by decide)

namespace C

theorem interBy_loop_gen (fn : α → α) (params : Array (Array α)) (hpos : 0 < params.size) (rest : List α) :
    ∀ (i fuel : Nat) (result : Array α), (params[0]).toList.drop i = rest → i ≤ (params[0]).size →
      rest.length + params.size + 2 ≤ fuel →
      Out.bind (IntersectionBy_loop1 fn params fuel result (i : Int)) (fun r => Out.ok r.1)
        = Out.ok (Model.C11.interByLoop fn params.size ((params.toList.drop 1).map Array.toList)
            result.toList rest).toArray := by
  induction rest with
  | nil =>
    intro i fuel result hrest hi hf
    have hsz : (params[0]).size ≤ i := by
      have := congrArg List.length hrest
      simp at this; omega
    cases fuel with
    | zero => simp at hf
    | succ f =>
      unfold IntersectionBy_loop1
      have : ¬ (i < (params[0]).size) := by omega
      simp [hIdx_zero_lt _ hpos, this, Model.C11.interByLoop]
  | cons item rest ih =>
    intro i fuel result hrest hi hf
    have hlt : i < (params[0]).size := by
      have := congrArg List.length hrest
      simp at this; omega
    have hdrop : (params[0]).toList.drop i = (params[0])[i] :: (params[0]).toList.drop (i + 1) := by
      rw [List.drop_eq_getElem_cons (by simpa using hlt)]
      simp
    rw [hdrop] at hrest
    simp only [List.cons.injEq] at hrest
    obtain ⟨hitem, hrest⟩ := hrest
    cases fuel with
    | zero => simp at hf
    | succ f =>
      unfold IntersectionBy_loop1
      have hlt' : ((i : Int) < ((params[0]).size : Int)) := by omega
      have hi1 : (i : Int) + 1 = ((i + 1 : Nat) : Int) := by omega
      simp only [hIdx_zero_lt _ hpos, bind_ok, hlt', if_true, hIdx_lt _ _ hlt, contains_tie, hitem]
      unfold Model.C11.interByLoop
      simp only [List.length_cons] at hf
      cases hc : Model.C11.contains item result.toList with
      | true =>
        simp only [if_true]
        rw [hi1]
        exact ih (i + 1) f result hrest (by omega) (by omega)
      | false =>
        have hscan : IntersectionBy_loop2 fn params result (i : Int) item f (1 : Int)
            = Out.ok ((Model.C11.interByScan fn item ((params.toList.drop 1).map Array.toList) 1 : Nat) : Int) :=
          interBy_scan_tie fn params result i item f 1 (by omega) (by omega)
        simp only [Bool.false_eq_true, if_false, hscan, bind_ok, Int.natCast_inj]
        rw [hi1]
        by_cases hn : Model.C11.interByScan fn item ((params.toList.drop 1).map Array.toList) 1 = params.size
        · simp only [hn, if_true, bind_ok]
          rw [ih (i + 1) f (result.push item) hrest (by omega) (by omega)]
          simp
        · simp only [hn, if_false, bind_ok]
          exact ih (i + 1) f result hrest (by omega) (by omega)

end C

/-- the outer loop of `IntersectionBy` from position `i` -/
theorem interBy_loop_tie (fn : α → α) (params : Array (Array α)) (hpos : 0 < params.size) (result : Array α)
    (i fuel : Nat) (hi : i ≤ (params[0]).size)
    (hf : (params[0]).size - i + params.size + 2 ≤ fuel) :
    Out.bind (IntersectionBy_loop1 fn params fuel result (i : Int)) (fun r => Out.ok r.1)
      = Out.ok (Model.C11.interByLoop fn params.size ((params.toList.drop 1).map Array.toList)
          result.toList ((params[0]).toList.drop i)).toArray := by
  apply interBy_loop_gen fn params hpos _ i fuel result rfl hi
  simp; omega

example : Out.bind (IntersectionBy_loop1 (· % 2) (#[#[1, 2], #[4]] : Array (Array Nat)) 6 #[] (0 : Nat))
      (fun r => Out.ok r.1)
    = Out.ok (Model.C11.interByLoop (· % 2) 2 [[4]] [] [1, 2]).toArray :=
  interBy_loop_tie (· % 2) (#[#[1, 2], #[4]] : Array (Array Nat)) (by decide) #[] 0 6 (by decide) (by decide)

/-- `IntersectionBy`: same fuel bound as `intersection_tie` -/
theorem intersectionBy_tie (fn : α → α) (params : Array (Array α)) (fuel : Nat)
    (hf : (params[0]?.map Array.size).getD 0 + params.size + 2 ≤ fuel) :
    IntersectionBy fuel fn params
      = (match Model.C11.intersectionBy fn (params.toList.map Array.toList) with
         | .ok l => Out.ok l.toArray
         | .panic => Out.panic) := by
  by_cases hpos : 0 < params.size
  · have h0 : params[0]? = some params[0] := by simp [hpos]
    rw [h0] at hf
    simp only [Option.map_some, Option.getD_some] at hf
    have hl : params.toList = params[0] :: params.toList.drop 1 := by
      have := List.drop_eq_getElem_cons (l := params.toList) (i := 0) (by simpa using hpos)
      simpa using this
    have := interBy_loop_tie fn params hpos #[] 0 fuel (by omega) (by omega)
    unfold IntersectionBy
    simp only [Int.natCast_zero] at this
    simp only [this]
    conv => rhs; rw [hl]
    simp [Model.C11.intersectionBy]
    rw [Nat.sub_add_cancel hpos]
  · have hsz : params.size = 0 := by omega
    have hl : params.toList = [] := by simpa using hsz
    cases fuel with
    | zero => simp at hf
    | succ f =>
      unfold IntersectionBy IntersectionBy_loop1
      simp [hIdx_empty _ hsz, hl, Model.C11.intersectionBy]

example : IntersectionBy 6 (· % 2) (#[#[1, 2], #[4]] : Array (Array Nat))
    = (match Model.C11.intersectionBy (· % 2) ((#[#[1, 2], #[4]] : Array (Array Nat)).toList.map Array.toList) with
       | .ok l => Out.ok l.toArray
       | .panic => Out.panic) :=
  intersectionBy_tie _ _ 6 (by decide)

example : IntersectionBy 2 (· % 2) (#[] : Array (Array Nat)) = Out.panic :=
  intersectionBy_tie _ _ 2 (by decide)

end GoguVerif.Theorems.GenTieMore2
