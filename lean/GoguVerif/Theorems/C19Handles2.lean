import GoguVerif.Theorems.C19Handles
import GoguVerif.Lemmas.C19Handles2
/-!
# C19 — kept node handles on the pointer-level models, part 2: the `DList` side completed

`Theorems/C19Handles.lean` proved the `DList` handle methods only for a handle that designates the FIRST occurrence of
its value (`…_partial`, through `Find`).  The pointer surgery reads no value; here

* `dlist_deleteH_refines`, `dlist_insertAfterH_refines`, `dlist_insertBeforeH_refines`: the handle is ANY `i`-th cell of
  the chain (`as[i]? = some a`, duplicates allowed); the method realises the sequence operation at position `i`
  (`Spec.C19.AllowedH`), keeps `Repr`, does not fault, and every other kept cell that `moveIdx true` follows is at the
  position `moveIdx` says;
* `dlist_step_tracks`: the same tracking clause for every plain operation (`DList` supports all of `Spec.C19.Op`);
* `dlist_kept_handle`: the fold over a whole history of plain operations;
* `slist_mixed_history`, `dlist_mixed_history` (section 3): histories in which handle operations occur in the MIDDLE —
  the specification keeps a table of the handles it still follows (`specItems`, `moveTable`), the pointer model gives
  the specification's answers and sequence and every handle left in the table is the cell at its position.

**Excluded situations** (the specification's `moveIdx` answers `none`): a handle to the embedded head (position 0) —
`Unshift`/`InsertBefore(first)` move the element to a fresh cell, `Shift`/`Delete(first)` overwrite it; a handle to the
second cell when `Shift`/`Delete(first)` copy it into the head; the deleted cell itself.  Unlike `SList`, the successor
of a deleted middle node stays followed (`DList.Delete` unlinks, it does not copy).  See `excluded_head_handle_dlist`
here and `excluded_stale_handle_dlist` in part 1.
-/
namespace GoguVerif.Theorems.C19H.DList
open GoguVerif GoguVerif.Model GoguVerif.Spec.C19
open GoguVerif.Theorems.C19 (Clauses.mem_of_idxOf? Clauses.insertAfterH_fresh Clauses.insertBeforeH_fresh
  Clauses.deleteH_fresh Clauses.allowed_eq_next)
open GoguVerif.Model.DList GoguVerif.Lemmas.C19 GoguVerif.Lemmas.C19.DList GoguVerif.Lemmas.C19H
  GoguVerif.Lemmas.C19H.DList

/-! ## (1) the handle methods at ANY position -/

/-- **`Delete(handle)` where the handle is the `i`-th cell** (whatever values the list holds) removes exactly the `i`-th
element (refuses, changing nothing, on a one-element list), keeps the representation — `prev` pointers included —, does
not fault; every other cell that `moveIdx true` follows is where `moveIdx` says. -/
theorem dlist_deleteH_refines {h : Heap} {as xs} {i a : Nat} (r : Repr h as xs) (hi : as[i]? = some a) :
    ∃ h' ans as' xs', delete h (some a) = .ok (h', ans) ∧ Repr h' as' xs' ∧
      AllowedH xs (.deleteH i) ans xs' ∧
      ∀ k b j, as[k]? = some b → moveIdx true (editOfH xs (.deleteH i)) k = some j → as'[j]? = some b := by
  obtain ⟨h', he, hr⟩ := deleteAt_repr r hi
  have hleq := r.chain.length_eq
  refine ⟨h', _, _, _, he, hr, ?_, ?_⟩
  · by_cases hl : xs.length > 1 <;> simp [AllowedH, hl]
  · intro k b j hk hm
    simp only [editOfH] at hm
    by_cases hl : xs.length > 1
    · simp only [hl, if_true] at hm
      simp only [delAddrs]; rw [if_neg (by omega)]
      by_cases h0 : i = 0
      · subst h0
        rw [if_pos rfl]; exact del_tracks_head hk hm
      · rw [if_neg h0]; exact del_tracks_double hk (by omega) hm
    · simp only [hl, if_false, moveIdx, Option.some.injEq] at hm
      subst hm
      simp only [delAddrs]; rw [if_pos (by omega)]; exact hk

/-- **`InsertAfter(handle, v)` where the handle is the `i`-th cell** places `v` right after the `i`-th element. -/
theorem dlist_insertAfterH_refines {h : Heap} {as xs} {i a : Nat} (r : Repr h as xs) (hi : as[i]? = some a)
    (v : Int) :
    ∃ h' ans as' xs', insertAfter h (some a) v = .ok (h', ans) ∧ Repr h' as' xs' ∧
      AllowedH xs (.insertAfterH i v) ans xs' ∧
      ∀ k b j, as[k]? = some b → moveIdx true (editOfH xs (.insertAfterH i v)) k = some j → as'[j]? = some b := by
  obtain ⟨h', he, hr⟩ := insertAfterAt_repr r hi v
  have hil : i < as.length := lt_of_get hi
  refine ⟨h', _, _, _, he, hr, by simp [AllowedH], ?_⟩
  intro k b j hk hm
  simp only [editOfH, moveIdx, Option.some.injEq] at hm
  subst hm
  rw [insert_tracks (by omega)]; exact hk

/-- **`InsertBefore(handle, v)` where the handle is the `i`-th cell** places `v` right before the `i`-th element.  The
tracking clause is for cells other than the embedded head (`1 ≤ k`): inserting before the FIRST element writes the new
value into the embedded head and moves the old first element to a fresh cell. -/
theorem dlist_insertBeforeH_refines {h : Heap} {as xs} {i a : Nat} (r : Repr h as xs) (hi : as[i]? = some a)
    (v : Int) :
    ∃ h' ans as' xs', insertBefore h (some a) v = .ok (h', ans) ∧ Repr h' as' xs' ∧
      AllowedH xs (.insertBeforeH i v) ans xs' ∧
      ∀ k b j, 1 ≤ k → as[k]? = some b → moveIdx true (editOfH xs (.insertBeforeH i v)) k = some j →
        as'[j]? = some b := by
  obtain ⟨h', he, hr⟩ := insertBeforeAt_repr r hi v
  have hil : i < as.length := lt_of_get hi
  refine ⟨h', _, _, _, he, hr, by simp [AllowedH], ?_⟩
  intro k b j hk1 hk hm
  simp only [editOfH, moveIdx, Option.some.injEq] at hm
  subst hm
  simp only [insBeforeAddrs]
  by_cases h0 : i = 0
  · subst h0
    rw [if_pos rfl, if_pos (Nat.zero_le k)]
    have := insert_tracks (l := as) (p := 1) (k := k) (n := h.length + 1) (by omega)
    rw [if_pos hk1] at this
    rw [this]; exact hk
  · rw [if_neg h0, insert_tracks (by omega)]; exact hk

-- non-vacuity: a represented store with duplicates, a handle to the SECOND `2` (cell 2, position 2) …
example : Repr [⟨1, some 1, none⟩, ⟨2, some 2, some 0⟩, ⟨2, some 3, some 1⟩, ⟨3, none, some 2⟩] [0, 1, 2, 3]
    [1, 2, 2, 3] := ⟨rfl, by decide, by simp [Chain]⟩
example : ([0, 1, 2, 3] : List Nat)[2]? = some 2 := rfl
example : ([1, 2, 2, 3] : List Int).idxOf? 2 ≠ some 2 := by decide
-- … on which the pointer model deletes position 2, inserts after and before position 2
example : (do let (h, a) ← delete [⟨1, some 1, none⟩, ⟨2, some 2, some 0⟩, ⟨7, some 3, some 1⟩, ⟨2, none, some 2⟩]
                  (some 3)
              let (_, vs) ← each h
              pure (a, vs)) = ListRes.ok (.ok, [1, 2, 7]) := by decide
example : (do let (h, a) ← insertAfter [⟨1, some 1, none⟩, ⟨2, some 2, some 0⟩, ⟨2, some 3, some 1⟩, ⟨3, none, some 2⟩]
                  (some 2) 9
              let (_, vs) ← each h
              pure (a, vs)) = ListRes.ok (.ok, [1, 2, 2, 9, 3]) := by decide
example : (do let (h, a) ← insertBefore [⟨1, some 1, none⟩, ⟨2, some 2, some 0⟩, ⟨2, some 3, some 1⟩, ⟨3, none, some 2⟩]
                  (some 2) 9
              let (_, vs) ← each h
              pure (a, vs)) = ListRes.ok (.ok, [1, 2, 9, 2, 3]) := by decide

/-! ## (2) every plain operation moves the kept cells as `moveIdx true` says -/

/-- **Every plain `DList` operation moves the kept cells as `moveIdx` says**: `dlist_step_refines` with the address list
made explicit enough to follow handles — a cell that was the `k`-th (`k ≥ 1`: not the embedded head) and that
`moveIdx true` sends to `j` is the `j`-th cell afterwards. -/
theorem dlist_step_tracks {h : Heap} {as xs} (r : Repr h as xs) (op : Op) :
    ∃ h' ans as' xs', step h op = .ok (h', ans) ∧ Repr h' as' xs' ∧ Allowed true xs op ans xs' ∧
      ∀ k b j, 1 ≤ k → as[k]? = some b → moveIdx true (editOf xs op) k = some j → as'[j]? = some b := by
  have hleq := r.chain.length_eq
  cases op with
  | unshift v =>
    obtain ⟨h', he, hr⟩ := unshift_repr' r v
    refine ⟨h', .ok, _, _, by simp [step, he], hr, by simp [Allowed], ?_⟩
    intro k b j hk1 hk hm
    simp only [editOf, moveIdx, Nat.zero_le, if_true, Option.some.injEq] at hm
    subst hm
    have := insert_tracks (l := as) (p := 1) (k := k) (n := h.length) (by have := lt_of_get hk; omega)
    rw [if_pos hk1] at this
    rw [this]; exact hk
  | append v =>
    obtain ⟨h', he, hr⟩ := append_repr' r v
    refine ⟨h', .ok, _, _, by simp [step, he], hr, by simp [Allowed], ?_⟩
    intro k b j _ hk hm
    simp only [editOf, moveIdx, Option.some.injEq] at hm
    subst hm
    rw [List.getElem?_append_left (lt_of_get hk)]; exact hk
  | shift =>
    obtain ⟨h', n, he, hn, hr⟩ := shift_repr' r
    refine ⟨h', .val n.val, _, _, by simp [step, he], hr, ?_, ?_⟩
    · by_cases hl : xs.length > 1 <;> simp [Allowed, hl, hn]
    · intro k b j _ hk hm
      simp only [editOf] at hm
      by_cases hl : xs.length > 1
      · simp only [hl, if_true] at hm ⊢
        exact del_tracks_head hk hm
      · simp only [hl, if_false, moveIdx, Option.some.injEq] at hm ⊢
        subst hm; exact hk
  | pop =>
    obtain ⟨h', n, he, hr⟩ := pop_repr' r
    refine ⟨h', .ok, _, _, by simp [step, he], hr, by simp [Allowed], ?_⟩
    intro k b j _ hk hm
    simp only [editOf] at hm
    by_cases hl : xs.length > 1
    · simp only [hl, if_true] at hm ⊢
      exact pop_tracks hk hleq.symm hl hm
    · simp only [hl, if_false, moveIdx, Option.some.injEq] at hm ⊢
      subst hm; exact hk
  | insertAfter x v =>
    have hf := find_repr r x
    cases e : xs.idxOf? x with
    | none =>
      have hx : x ∉ xs := List.idxOf?_eq_none_iff.mp e
      rw [addrOf_eq_idx hleq, e] at hf
      refine ⟨h, .notFound, as, xs, by simp [step, hf], r, by simp [Allowed, hx], ?_⟩
      intro k b j _ hk hm
      simp only [editOf, e, moveIdx, Option.some.injEq] at hm
      subst hm; exact hk
    | some p =>
      have hx : x ∈ xs := Clauses.mem_of_idxOf? e
      have hsome := addrOf_isSome (x := x) hleq
      rw [addrOf_eq_idx hleq, e] at hf hsome
      simp only [Option.bind_some] at hf hsome
      cases ea : as[p]? with
      | none => simp [ea, hx] at hsome
      | some a =>
        rw [ea] at hf
        obtain ⟨h', ans, as', xs', he, hr, hal, htr⟩ := dlist_insertAfterH_refines r ea v
        refine ⟨h', ans, as', xs', by simp [step, hf, he], hr, (Clauses.insertAfterH_fresh e).mpr hal, ?_⟩
        intro k b j _ hk hm
        simp only [editOf, e] at hm
        exact htr k b j hk hm
  | insertBefore x v =>
    have hf := find_repr r x
    cases e : xs.idxOf? x with
    | none =>
      have hx : x ∉ xs := List.idxOf?_eq_none_iff.mp e
      rw [addrOf_eq_idx hleq, e] at hf
      refine ⟨h, .notFound, as, xs, by simp [step, hf], r, by simp [Allowed, hx], ?_⟩
      intro k b j _ hk hm
      simp only [editOf, e, moveIdx, Option.some.injEq] at hm
      subst hm; exact hk
    | some p =>
      have hx : x ∈ xs := Clauses.mem_of_idxOf? e
      have hsome := addrOf_isSome (x := x) hleq
      rw [addrOf_eq_idx hleq, e] at hf hsome
      simp only [Option.bind_some] at hf hsome
      cases ea : as[p]? with
      | none => simp [ea, hx] at hsome
      | some a =>
        rw [ea] at hf
        obtain ⟨h', ans, as', xs', he, hr, hal, htr⟩ := dlist_insertBeforeH_refines r ea v
        refine ⟨h', ans, as', xs', by simp [step, hf, he], hr, (Clauses.insertBeforeH_fresh e).mpr hal, ?_⟩
        intro k b j hk1 hk hm
        simp only [editOf, e] at hm
        exact htr k b j hk1 hk hm
  | delete x =>
    have hf := find_repr r x
    cases e : xs.idxOf? x with
    | none =>
      have hx : x ∉ xs := List.idxOf?_eq_none_iff.mp e
      rw [addrOf_eq_idx hleq, e] at hf
      refine ⟨h, .notFound, as, xs, by simp [step, hf], r, by simp [Allowed, hx], ?_⟩
      intro k b j _ hk hm
      simp only [editOf, e, moveIdx, Option.some.injEq] at hm
      subst hm; exact hk
    | some p =>
      have hx : x ∈ xs := Clauses.mem_of_idxOf? e
      have hsome := addrOf_isSome (x := x) hleq
      rw [addrOf_eq_idx hleq, e] at hf hsome
      simp only [Option.bind_some] at hf hsome
      cases ea : as[p]? with
      | none => simp [ea, hx] at hsome
      | some a =>
        rw [ea] at hf
        obtain ⟨h', ans, as', xs', he, hr, hal, htr⟩ := dlist_deleteH_refines r ea
        refine ⟨h', ans, as', xs', by simp [step, hf, he], hr, (Clauses.deleteH_fresh e).mpr hal, ?_⟩
        intro k b j _ hk hm
        simp only [editOf, e] at hm
        exact htr k b j hk hm
  | replace o n =>
    obtain ⟨h', ans, xs', he, hr, hx⟩ := replace_repr r o n
    refine ⟨h', ans, as, xs', by simpa [step] using he, hr, by simpa [Allowed] using hx, ?_⟩
    intro k b j _ hk hm
    simp only [editOf, moveIdx, Option.some.injEq] at hm
    subst hm; exact hk
  | find x =>
    refine ⟨h, .bool (decide (x ∈ xs)), as, xs, ?_, r, by simp [Allowed], ?_⟩
    · simp [step, find_repr r x, addrOf_isSome (x := x) r.chain.length_eq]
    · intro k b j _ hk hm
      simp only [editOf, moveIdx, Option.some.injEq] at hm
      subst hm; exact hk
  | first =>
    refine ⟨h, .val (xs.head?.getD 0), as, xs, by simp [step, first_repr r], r, by simp [Allowed], ?_⟩
    intro k b j _ hk hm
    simp only [editOf, moveIdx, Option.some.injEq] at hm
    subst hm; exact hk
  | last =>
    refine ⟨h, .val (xs.getLast?.getD 0), as, xs, by simp [step, last_repr r], r, by simp [Allowed], ?_⟩
    intro k b j _ hk hm
    simp only [editOf, moveIdx, Option.some.injEq] at hm
    subst hm; exact hk
  | each =>
    refine ⟨h, .none, as, xs, by simp [step], r, by simp [Allowed], ?_⟩
    intro k b j _ hk hm
    simp only [editOf, moveIdx, Option.some.injEq] at hm
    subst hm; exact hk

/-! ### a handle kept over a whole history -/

/-- plain operations one after the other (answers dropped) -/
def runOps (h : Heap) : List Op → ListRes Heap
  | [] => .ok h
  | op :: ops =>
    match step h op with
    | .ok (h', _) => runOps h' ops
    | .panic => .panic
    | .hang => .hang
    | .stuck => .stuck

/-- the specification's bookkeeping over a history: the sequence evolves by `Spec.C19.next true`, the position by
`moveIdx true` -/
def follow : List Int → List Op → Nat → Option Nat
  | _, [], i => some i
  | xs, op :: ops, i => (moveIdx true (editOf xs op) i).bind (follow (next true xs op).2 ops)

def seqAfter : List Int → List Op → List Int
  | xs, [] => xs
  | xs, op :: ops => seqAfter (next true xs op).2 ops

/-- **A kept `DList` handle, all histories.**  The handle `a` is the `i`-th cell (`i ≥ 1`; e.g. it came from `Find`,
`dlist_find_handle`, but it may as well designate a later occurrence of a repeated value) of a represented store; any
history `ops` of plain operations follows (`DList` has all of them); the specification's bookkeeping still follows the
element, to position `j` (`follow … = some j`).  Then the pointer model runs the history without fault, the store
represents the specification's sequence, the handle is the `j`-th cell, and `Delete(handle)`, `InsertAfter(handle, v)`,
`InsertBefore(handle, v)` realise exactly the sequence operations at position `j`, keeping the representation. -/
theorem dlist_kept_handle {h : Heap} {as xs} (r : Repr h as xs) (ops : List Op)
    {i a j : Nat} (hi1 : 1 ≤ i) (hi : as[i]? = some a) (hfol : follow xs ops i = some j) :
    ∃ h' as', runOps h ops = .ok h' ∧ Repr h' as' (seqAfter xs ops) ∧ as'[j]? = some a ∧ 1 ≤ j ∧
      (∃ h'' ans as'' xs'', delete h' (some a) = .ok (h'', ans) ∧ Repr h'' as'' xs'' ∧
        AllowedH (seqAfter xs ops) (.deleteH j) ans xs'') ∧
      (∀ v, ∃ h'' ans as'' xs'', insertAfter h' (some a) v = .ok (h'', ans) ∧ Repr h'' as'' xs'' ∧
        AllowedH (seqAfter xs ops) (.insertAfterH j v) ans xs'') ∧
      (∀ v, ∃ h'' ans as'' xs'', insertBefore h' (some a) v = .ok (h'', ans) ∧ Repr h'' as'' xs'' ∧
        AllowedH (seqAfter xs ops) (.insertBeforeH j v) ans xs'') := by
  induction ops generalizing h as xs i with
  | nil =>
    simp only [follow, Option.some.injEq] at hfol
    subst hfol
    refine ⟨h, as, rfl, r, hi, hi1, ?_, ?_, ?_⟩
    · obtain ⟨h2, ans, as2, xs2, he, hr, hal, _⟩ := dlist_deleteH_refines r hi
      exact ⟨h2, ans, as2, xs2, he, hr, hal⟩
    · intro v
      obtain ⟨h2, ans, as2, xs2, he, hr, hal, _⟩ := dlist_insertAfterH_refines r hi v
      exact ⟨h2, ans, as2, xs2, he, hr, hal⟩
    · intro v
      obtain ⟨h2, ans, as2, xs2, he, hr, hal, _⟩ := dlist_insertBeforeH_refines r hi v
      exact ⟨h2, ans, as2, xs2, he, hr, hal⟩
  | cons op ops ih =>
    simp only [follow] at hfol
    cases hm : moveIdx true (editOf xs op) i with
    | none => simp [hm] at hfol
    | some i' =>
      rw [hm] at hfol
      simp only [Option.bind_some] at hfol
      obtain ⟨h1, ans, as1, xs1, he, hr, hal, htr⟩ := dlist_step_tracks r op
      have hxl : xs.length > 1 := by
        have := lt_of_get hi
        have := r.chain.length_eq
        omega
      have hn := Clauses.allowed_eq_next hal (Or.inr hxl)
      have hx1 : xs1 = (next true xs op).2 := by rw [← hn]
      subst hx1
      obtain ⟨h', as', hrun, hrest⟩ := ih hr (moveIdx_pos hi1 hm) (htr i a i' hi1 hi hm) hfol
      exact ⟨h', as', by simp [runOps, he, hrun], hrest⟩

-- non-vacuity: `[1,2,2,4]`, handle to the SECOND `2` (cell 2, position 2); the history — which deletes the first `2`,
-- i.e. the handle's PREDECESSOR (a situation `SList` excludes) — leaves it followed
example : follow [1, 2, 2, 4] [.unshift 0, .delete 2, .insertBefore 4 5, .append 7, .pop, .shift, .last] 2 = some 1 := by
  decide
example : seqAfter [1, 2, 2, 4] [.unshift 0, .delete 2, .insertBefore 4 5, .append 7, .pop, .shift, .last] =
    [1, 2, 5, 4] := by decide
example : Repr [⟨1, some 1, none⟩, ⟨2, some 2, some 0⟩, ⟨2, some 3, some 1⟩, ⟨4, none, some 2⟩] [0, 1, 2, 3]
    [1, 2, 2, 4] := ⟨rfl, by decide, by simp [Chain]⟩

/-! ### the excluded situations really behave differently -/

/-- `[1,2]`, handle to `1` (the embedded head, cell 0).  After `Unshift 0` cell 0 holds the new element `0` and the old
`1` lives in a fresh cell: `Delete(handle)` removes `0`, not `1`; the specification never follows position 0
(`dlist_kept_handle` asks `1 ≤ i`) — if it did, `moveIdx` would say position 1. -/
theorem excluded_head_handle_dlist :
    (do let h ← append (init 1) 2
        let r ← find h 1
        let h ← unshift h 0
        let (h, ans) ← delete h r
        let (_, vs) ← each h
        pure (r, ans, vs)) = ListRes.ok (some 0, .ok, [1, 2]) ∧
      moveIdx true (editOf [1, 2] (.unshift 0)) 0 = some 1 := by decide

/-- `[1,2,3]`, handle to `2` (cell 1, position 1).  `InsertBefore(first, 0)` and `Shift` leave it followed, a second
`Shift` copies the cell into the embedded head (`follow = none`): the cell is off the chain, `InsertAfter(handle, 9)` is
still ACCEPTED (the value 2 is found) and answers `ok`, but the list does not change — position-wise `[2,9,3]` would be
due. -/
theorem excluded_copied_handle_dlist :
    follow [1, 2, 3] [.insertBefore 1 0, .shift] 1 = some 1 ∧
    follow [1, 2, 3] [.insertBefore 1 0, .shift, .shift] 1 = none ∧
    (do let h ← append (init 1) 2
        let h ← append h 3
        let r ← find h 2
        let h ← runOps h [.insertBefore 1 0, .shift, .shift]
        let (h, ans) ← insertAfter h r 9
        let (_, vs) ← each h
        pure (r, ans, vs)) = ListRes.ok (some 1, .ok, [2, 3]) := by decide

end GoguVerif.Theorems.C19H.DList

/-! ## (3) histories in which handle operations occur in the MIDDLE

An item of a mixed history is a plain operation or an operation through a kept handle (an address).  The specification
keeps, next to the sequence, a TABLE of the handles it still follows (handle, position); a plain operation or a handle
operation moves every entry by `moveIdx` (entries for which `moveIdx` answers `none` are dropped: the property says
nothing about those handles any more), a handle operation is judged at the position the table gives for its handle, and
the specification gives no verdict (`none`) for a history that uses a handle the table does not hold.  The fold theorems
say: whenever the specification gives a verdict, the pointer model runs the whole history without fault, gives exactly
the specification's answers, ends in a store representing the specification's sequence, and every handle still in the
table is the cell at its position (so the history can be continued). -/
namespace GoguVerif.Theorems.C19H
open GoguVerif GoguVerif.Model GoguVerif.Spec.C19

/-- what is done through a handle -/
inductive HShape where
  | delete
  | insertAfter (v : Int)
  | insertBefore (v : Int)
deriving DecidableEq, Repr

/-- the handle operation of that shape at position `p` -/
def HShape.at : HShape → Nat → HOp
  | .delete, p => .deleteH p
  | .insertAfter v, p => .insertAfterH p v
  | .insertBefore v, p => .insertBeforeH p v

/-- an item of a mixed history: a plain operation, or an operation through the kept handle `a` -/
inductive Item where
  | plain (op : Op)
  | handle (a : Nat) (s : HShape)
deriving DecidableEq, Repr

/-- `AllowedH` as a function (it leaves no choice) -/
def nextH (xs : List Int) : HOp → Ans × List Int
  | .deleteH i => if xs.length > 1 then (.ok, xs.eraseIdx i) else (.err, xs)
  | .insertAfterH i v => (.ok, xs.take (i + 1) ++ v :: xs.drop (i + 1))
  | .insertBeforeH i v => (.ok, xs.take i ++ v :: xs.drop i)

theorem allowedH_iff_nextH {xs xs' : List Int} {hop : HOp} {ans : Ans} :
    AllowedH xs hop ans xs' ↔ (ans, xs') = nextH xs hop := by
  cases hop <;> simp only [AllowedH, nextH] <;> (repeat' split) <;> simp

/-- the handles the specification still follows: (handle, position) -/
abbrev Table := List (Nat × Nat)

/-- every entry moves as `moveIdx` says; entries it no longer follows are dropped -/
def moveTable (dbl : Bool) (e : Edit) (T : Table) : Table :=
  T.filterMap (fun ap => (moveIdx dbl e ap.2).map (fun j => (ap.1, j)))

/-- every handle of the table is the cell at its position, and none designates the embedded head -/
def Valid (as : List Nat) (T : Table) : Prop := ∀ a p, (a, p) ∈ T → 1 ≤ p ∧ as[p]? = some a

theorem valid_move {dbl : Bool} {e : Edit} {as as' : List Nat} {T : Table} (hv : Valid as T)
    (htr : ∀ k b j, 1 ≤ k → as[k]? = some b → moveIdx dbl e k = some j → as'[j]? = some b) :
    Valid as' (moveTable dbl e T) := by
  intro a j hm
  simp only [moveTable, List.mem_filterMap, Option.map_eq_some_iff, Prod.mk.injEq] at hm
  obtain ⟨⟨a0, p⟩, hmem, j', hmv, rfl, rfl⟩ := hm
  obtain ⟨hp1, hp⟩ := hv a0 p hmem
  exact ⟨moveIdx_pos hp1 hmv, htr p a0 j' hp1 hp hmv⟩

theorem mem_of_lookup {T : Table} {a p : Nat} (h : T.lookup a = some p) : (a, p) ∈ T := by
  induction T with
  | nil => simp at h
  | cons e T ih =>
    obtain ⟨b, q⟩ := e
    simp only [List.lookup_cons] at h
    by_cases hb : a = b
    · subst hb
      simp at h; subst h; simp
    · have : (a == b) = false := by simpa using hb
      simp only [this] at h
      exact List.mem_cons_of_mem _ (ih h)

/-- **The specification of a mixed history**: the answers, the final sequence and the final table — or no verdict when a
handle is used that the table does not hold.  `nxt` is the functional form of `Allowed` for the list type. -/
def specItems (dbl : Bool) (nxt : List Int → Op → Ans × List Int) :
    List Int → Table → List Item → Option (List Ans × List Int × Table)
  | xs, T, [] => some ([], xs, T)
  | xs, T, .plain op :: r =>
    (specItems dbl nxt (nxt xs op).2 (moveTable dbl (editOf xs op) T) r).map
      (fun res => ((nxt xs op).1 :: res.1, res.2))
  | xs, T, .handle a s :: r =>
    match T.lookup a with
    | none => none
    | some p =>
      (specItems dbl nxt (nextH xs (s.at p)).2 (moveTable dbl (editOfH xs (s.at p)) T) r).map
        (fun res => ((nextH xs (s.at p)).1 :: res.1, res.2))

namespace SList
open GoguVerif.Model.SList GoguVerif.Lemmas.C19 GoguVerif.Lemmas.C19.SList GoguVerif.Lemmas.C19H
  GoguVerif.Lemmas.C19H.SList
open GoguVerif.Theorems.C19 (Clauses.allowed_eq_next)

/-- one item on the pointer model (`SList` has no `InsertBefore`: excluded by `supportedItem`) -/
def stepItem (h : Heap) : Item → ListRes (Heap × Ans)
  | .plain op => step h op
  | .handle a .delete => delete h (some a)
  | .handle a (.insertAfter v) => insertAfter h (some a) v
  | .handle _ (.insertBefore _) => .stuck

def supportedItem : Item → Bool
  | .plain op => supported op
  | .handle _ (.insertBefore _) => false
  | .handle _ _ => true

/-- a mixed history on the pointer model: the final store and the answers -/
def runItems (h : Heap) : List Item → ListRes (Heap × List Ans)
  | [] => .ok (h, [])
  | it :: r =>
    match stepItem h it with
    | .ok (h', ans) =>
      match runItems h' r with
      | .ok (h'', l) => .ok (h'', ans :: l)
      | .panic => .panic
      | .hang => .hang
      | .stuck => .stuck
    | .panic => .panic
    | .hang => .hang
    | .stuck => .stuck

/-- `slist_step_tracks` with the outcome as a function (`Spec.C19.next false`; `SList.Shift` on a one-element list keeps
the value, which is what `next` says) -/
theorem slist_step_tracks_next {h : Heap} {as xs} (r : Repr h as xs) (op : Op) (hs : supported op = true) :
    ∃ h' as', step h op = .ok (h', (next false xs op).1) ∧ Repr h' as' (next false xs op).2 ∧
      ∀ k b j, 1 ≤ k → as[k]? = some b → moveIdx false (editOf xs op) k = some j → as'[j]? = some b := by
  by_cases hc : op ≠ .shift ∨ xs.length > 1
  · obtain ⟨h1, ans, as1, xs1, he, hr, hal, htr⟩ := slist_step_tracks r op hs
    have hn := Clauses.allowed_eq_next hal hc
    have h1' : ans = (next false xs op).1 := by rw [← hn]
    have h2' : xs1 = (next false xs op).2 := by rw [← hn]
    subst h1'; subst h2'
    exact ⟨h1, as1, he, hr, htr⟩
  · have hop : op = .shift := by
      by_cases q : op = .shift
      · exact q
      · exact absurd (Or.inl q) hc
    have hxl : ¬ xs.length > 1 := fun q => hc (Or.inr q)
    subst hop
    obtain ⟨h', he, hr⟩ := shift_repr' r
    simp only [hxl, if_false] at hr
    refine ⟨h', as, by simp [step, he, next], by simpa [next, hxl] using hr, ?_⟩
    intro k b j _ hk hm
    simp only [editOf, hxl, if_false, moveIdx, Option.some.injEq] at hm
    subst hm; exact hk

/-- **Mixed histories, `SList`.**  From a represented store and a table of valid handles (each is the cell at its
position, none is the embedded head), any history of plain operations and of `Delete(handle)` / `InsertAfter(handle, v)`
for which the specification gives a verdict — every handle operation uses a handle the table still holds — runs on the
pointer model without fault, with exactly the specification's answers; the final store represents the specification's
final sequence and the final table is valid again. -/
theorem slist_mixed_history {h : Heap} {as xs} (r : Repr h as xs) {T : Table} (hv : Valid as T)
    (items : List Item) (hs : ∀ it ∈ items, supportedItem it = true)
    {answers : List Ans} {xs' : List Int} {T' : Table}
    (hspec : specItems false (next false) xs T items = some (answers, xs', T')) :
    ∃ h' as', runItems h items = .ok (h', answers) ∧ Repr h' as' xs' ∧ Valid as' T' := by
  induction items generalizing h as xs T answers with
  | nil =>
    simp only [specItems, Option.some.injEq, Prod.mk.injEq] at hspec
    obtain ⟨rfl, rfl, rfl⟩ := hspec
    exact ⟨h, as, rfl, r, hv⟩
  | cons it items ih =>
    have hs' : ∀ it ∈ items, supportedItem it = true := fun o ho => hs o (by simp [ho])
    have hit := hs it (by simp)
    cases it with
    | plain op =>
      simp only [specItems, Option.map_eq_some_iff] at hspec
      obtain ⟨⟨ansr, xsr, Tr⟩, hrec, heq⟩ := hspec
      simp only [Prod.mk.injEq] at heq
      obtain ⟨rfl, rfl, rfl⟩ := heq
      obtain ⟨h1, as1, he, hr, htr⟩ := slist_step_tracks_next r op hit
      obtain ⟨h', as', hrun, hrep, hval⟩ := ih hr (valid_move hv htr) hs' hrec
      exact ⟨h', as', by simp [runItems, stepItem, he, hrun], hrep, hval⟩
    | handle a s =>
      simp only [specItems] at hspec
      cases hl : T.lookup a with
      | none => simp [hl] at hspec
      | some p =>
        simp only [hl, Option.map_eq_some_iff] at hspec
        obtain ⟨⟨ansr, xsr, Tr⟩, hrec, heq⟩ := hspec
        simp only [Prod.mk.injEq] at heq
        obtain ⟨rfl, rfl, rfl⟩ := heq
        obtain ⟨_, hp⟩ := hv a p (mem_of_lookup hl)
        cases s with
        | delete =>
          obtain ⟨h1, ans, as1, xs1, he, hr, hal, htr⟩ := slist_deleteH_refines r hp
          have hn := allowedH_iff_nextH.mp hal
          have h1' : ans = (nextH xs (.deleteH p)).1 := by rw [← hn]
          have h2' : xs1 = (nextH xs (.deleteH p)).2 := by rw [← hn]
          subst h1'; subst h2'
          obtain ⟨h', as', hrun, hrep, hval⟩ :=
            ih hr (valid_move hv (fun k b j _ hk hm => htr k b j hk hm)) hs' hrec
          exact ⟨h', as', by simp [runItems, stepItem, he, hrun, HShape.at], hrep, hval⟩
        | insertAfter v =>
          obtain ⟨h1, ans, as1, xs1, he, hr, hal, htr⟩ := slist_insertAfterH_refines r hp v
          have hn := allowedH_iff_nextH.mp hal
          have h1' : ans = (nextH xs (.insertAfterH p v)).1 := by rw [← hn]
          have h2' : xs1 = (nextH xs (.insertAfterH p v)).2 := by rw [← hn]
          subst h1'; subst h2'
          obtain ⟨h', as', hrun, hrep, hval⟩ :=
            ih hr (valid_move hv (fun k b j _ hk hm => htr k b j hk hm)) hs' hrec
          exact ⟨h', as', by simp [runItems, stepItem, he, hrun, HShape.at], hrep, hval⟩
        | insertBefore v => simp [supportedItem] at hit

end SList
end GoguVerif.Theorems.C19H

namespace GoguVerif.Theorems.C19H
open GoguVerif GoguVerif.Model GoguVerif.Spec.C19

namespace SList
open GoguVerif.Model.SList GoguVerif.Lemmas.C19.SList

-- non-vacuity: `[1,2,2,4,5]` in cells 0…4, handles to the second `2` (cell 2) and to `5` (cell 4); the history uses the
-- first handle in the middle (InsertAfter), goes on with plain operations, then deletes through the second handle
example : Repr [⟨1, some 1⟩, ⟨2, some 2⟩, ⟨2, some 3⟩, ⟨4, some 4⟩, ⟨5, none⟩] [0, 1, 2, 3, 4] [1, 2, 2, 4, 5] :=
  ⟨rfl, by decide, by simp [Chain]⟩
example : Valid [0, 1, 2, 3, 4] [(2, 2), (4, 4)] := by
  intro a p hm
  simp at hm
  rcases hm with ⟨rfl, rfl⟩ | ⟨rfl, rfl⟩ <;> simp
example : specItems false (next false) [1, 2, 2, 4, 5] [(2, 2), (4, 4)]
    [.plain (.unshift 0), .handle 2 (.insertAfter 9), .plain (.delete 1), .plain .pop, .handle 2 .delete,
     .plain (.append 7)] =
    some ([.ok, .ok, .ok, .ok, .ok, .ok], [0, 2, 9, 4, 7], []) := by decide
example : ∀ it ∈ [Item.plain (.unshift 0), .handle 2 (.insertAfter 9), .plain (.delete 1), .plain .pop,
    .handle 2 .delete, .plain (.append 7)], supportedItem it = true := by decide
-- … and the pointer model on it
example : (do let (h, answers) ← runItems [⟨1, some 1⟩, ⟨2, some 2⟩, ⟨2, some 3⟩, ⟨4, some 4⟩, ⟨5, none⟩]
                  [.plain (.unshift 0), .handle 2 (.insertAfter 9), .plain (.delete 1), .plain .pop,
                   .handle 2 .delete, .plain (.append 7)]
              let (_, vs) ← each h
              pure (answers, vs)) = ListRes.ok ([.ok, .ok, .ok, .ok, .ok, .ok], [0, 2, 9, 4, 7]) := by decide

/-- an excluded history: `[1,2,3]`, handles to `2` (cell 1) and `3` (cell 2).  `Delete(handle 2)` copies cell 2 over
cell 1: the table drops BOTH handles (the deleted one, and its successor whose cell is now off the chain), and the
specification gives no verdict for a later use of the handle to `3` — the pointer model accepts it, answers `ok` and
changes nothing. -/
theorem excluded_mixed_slist :
    specItems false (next false) [1, 2, 3] [(1, 1), (2, 2)] [.handle 1 .delete] = some ([.ok], [1, 3], []) ∧
    specItems false (next false) [1, 2, 3] [(1, 1), (2, 2)] [.handle 1 .delete, .handle 2 (.insertAfter 9)] = none ∧
    (do let (h, answers) ← runItems [⟨1, some 1⟩, ⟨2, some 2⟩, ⟨3, none⟩]
            [.handle 1 .delete, .handle 2 (.insertAfter 9)]
        let (_, vs) ← each h
        pure (answers, vs)) = ListRes.ok ([.ok, .ok], [1, 3]) := by decide

end SList

namespace DList
open GoguVerif.Model.DList GoguVerif.Lemmas.C19 GoguVerif.Lemmas.C19.DList GoguVerif.Lemmas.C19H
  GoguVerif.Lemmas.C19H.DList
open GoguVerif.Theorems.C19 (Clauses.allowed_eq_next)

/-- the outcome of a plain `DList` operation as a function: `Spec.C19.next true`, except that `DList.Shift` on a
one-element list resets the remaining value to the zero value (`Allowed` allows both; `next` keeps the value) -/
def nextD (xs : List Int) (op : Op) : Ans × List Int :=
  if op = .shift ∧ ¬ xs.length > 1 then (.val (xs.head?.getD 0), [0]) else next true xs op

/-- `nextD` is an outcome the specification allows -/
theorem nextD_allowed (xs : List Int) (op : Op) : Allowed true xs op (nextD xs op).1 (nextD xs op).2 := by
  unfold nextD
  split
  · rename_i hc
    obtain ⟨rfl, hxl⟩ := hc
    simp [Allowed, hxl]
  · exact GoguVerif.Theorems.C19.Clauses.next_allowed true xs op

def stepItem (h : Heap) : Item → ListRes (Heap × Ans)
  | .plain op => step h op
  | .handle a .delete => delete h (some a)
  | .handle a (.insertAfter v) => insertAfter h (some a) v
  | .handle a (.insertBefore v) => insertBefore h (some a) v

/-- a mixed history on the pointer model: the final store and the answers -/
def runItems (h : Heap) : List Item → ListRes (Heap × List Ans)
  | [] => .ok (h, [])
  | it :: r =>
    match stepItem h it with
    | .ok (h', ans) =>
      match runItems h' r with
      | .ok (h'', l) => .ok (h'', ans :: l)
      | .panic => .panic
      | .hang => .hang
      | .stuck => .stuck
    | .panic => .panic
    | .hang => .hang
    | .stuck => .stuck

/-- `dlist_step_tracks` with the outcome as a function (`nextD`) -/
theorem dlist_step_tracks_next {h : Heap} {as xs} (r : Repr h as xs) (op : Op) :
    ∃ h' as', step h op = .ok (h', (nextD xs op).1) ∧ Repr h' as' (nextD xs op).2 ∧
      ∀ k b j, 1 ≤ k → as[k]? = some b → moveIdx true (editOf xs op) k = some j → as'[j]? = some b := by
  by_cases hc : op = .shift ∧ ¬ xs.length > 1
  · obtain ⟨rfl, hxl⟩ := hc
    obtain ⟨h', n, he, hn, hr⟩ := shift_repr' r
    simp only [hxl, if_false] at hr
    refine ⟨h', as, by simp [step, he, nextD, hxl, hn], by simpa [nextD, hxl] using hr, ?_⟩
    intro k b j _ hk hm
    simp only [editOf, hxl, if_false, moveIdx, Option.some.injEq] at hm
    subst hm; exact hk
  · obtain ⟨h1, ans, as1, xs1, he, hr, hal, htr⟩ := dlist_step_tracks r op
    have hc' : op ≠ .shift ∨ xs.length > 1 := by
      by_cases q : op = .shift
      · exact Or.inr (Classical.not_not.mp (fun hx => hc ⟨q, hx⟩))
      · exact Or.inl q
    have hn := Clauses.allowed_eq_next hal hc'
    have hnd : nextD xs op = next true xs op := by unfold nextD; rw [if_neg hc]
    have h1' : ans = (nextD xs op).1 := by rw [hnd, ← hn]
    have h2' : xs1 = (nextD xs op).2 := by rw [hnd, ← hn]
    subst h1'; subst h2'
    exact ⟨h1, as1, he, hr, htr⟩

/-- **Mixed histories, `DList`.**  As `slist_mixed_history`, with `InsertBefore(handle, v)` as a third handle operation
and `moveIdx true` (the successor of a deleted node stays followed). -/
theorem dlist_mixed_history {h : Heap} {as xs} (r : Repr h as xs) {T : Table} (hv : Valid as T)
    (items : List Item) {answers : List Ans} {xs' : List Int} {T' : Table}
    (hspec : specItems true nextD xs T items = some (answers, xs', T')) :
    ∃ h' as', runItems h items = .ok (h', answers) ∧ Repr h' as' xs' ∧ Valid as' T' := by
  induction items generalizing h as xs T answers with
  | nil =>
    simp only [specItems, Option.some.injEq, Prod.mk.injEq] at hspec
    obtain ⟨rfl, rfl, rfl⟩ := hspec
    exact ⟨h, as, rfl, r, hv⟩
  | cons it items ih =>
    cases it with
    | plain op =>
      simp only [specItems, Option.map_eq_some_iff] at hspec
      obtain ⟨⟨ansr, xsr, Tr⟩, hrec, heq⟩ := hspec
      simp only [Prod.mk.injEq] at heq
      obtain ⟨rfl, rfl, rfl⟩ := heq
      obtain ⟨h1, as1, he, hr, htr⟩ := dlist_step_tracks_next r op
      obtain ⟨h', as', hrun, hrep, hval⟩ := ih hr (valid_move hv htr) hrec
      exact ⟨h', as', by simp [runItems, stepItem, he, hrun], hrep, hval⟩
    | handle a s =>
      simp only [specItems] at hspec
      cases hl : T.lookup a with
      | none => simp [hl] at hspec
      | some p =>
        simp only [hl, Option.map_eq_some_iff] at hspec
        obtain ⟨⟨ansr, xsr, Tr⟩, hrec, heq⟩ := hspec
        simp only [Prod.mk.injEq] at heq
        obtain ⟨rfl, rfl, rfl⟩ := heq
        obtain ⟨_, hp⟩ := hv a p (mem_of_lookup hl)
        cases s with
        | delete =>
          obtain ⟨h1, ans, as1, xs1, he, hr, hal, htr⟩ := dlist_deleteH_refines r hp
          have hn := allowedH_iff_nextH.mp hal
          have h1' : ans = (nextH xs (.deleteH p)).1 := by rw [← hn]
          have h2' : xs1 = (nextH xs (.deleteH p)).2 := by rw [← hn]
          subst h1'; subst h2'
          obtain ⟨h', as', hrun, hrep, hval⟩ :=
            ih hr (valid_move hv (fun k b j _ hk hm => htr k b j hk hm)) hrec
          exact ⟨h', as', by simp [runItems, stepItem, he, hrun, HShape.at], hrep, hval⟩
        | insertAfter v =>
          obtain ⟨h1, ans, as1, xs1, he, hr, hal, htr⟩ := dlist_insertAfterH_refines r hp v
          have hn := allowedH_iff_nextH.mp hal
          have h1' : ans = (nextH xs (.insertAfterH p v)).1 := by rw [← hn]
          have h2' : xs1 = (nextH xs (.insertAfterH p v)).2 := by rw [← hn]
          subst h1'; subst h2'
          obtain ⟨h', as', hrun, hrep, hval⟩ :=
            ih hr (valid_move hv (fun k b j _ hk hm => htr k b j hk hm)) hrec
          exact ⟨h', as', by simp [runItems, stepItem, he, hrun, HShape.at], hrep, hval⟩
        | insertBefore v =>
          obtain ⟨h1, ans, as1, xs1, he, hr, hal, htr⟩ := dlist_insertBeforeH_refines r hp v
          have hn := allowedH_iff_nextH.mp hal
          have h1' : ans = (nextH xs (.insertBeforeH p v)).1 := by rw [← hn]
          have h2' : xs1 = (nextH xs (.insertBeforeH p v)).2 := by rw [← hn]
          subst h1'; subst h2'
          obtain ⟨h', as', hrun, hrep, hval⟩ := ih hr (valid_move hv htr) hrec
          exact ⟨h', as', by simp [runItems, stepItem, he, hrun, HShape.at], hrep, hval⟩

-- non-vacuity: `[1,2,2,4]` in cells 0…3, handles to the second `2` (cell 2) and to `4` (cell 3); handle operations in
-- the middle, the first handle's PREDECESSOR is deleted, the second handle is used after the first was deleted
example : Valid [0, 1, 2, 3] [(2, 2), (3, 3)] := by
  intro a p hm
  simp at hm
  rcases hm with ⟨rfl, rfl⟩ | ⟨rfl, rfl⟩ <;> simp
example : specItems true nextD [1, 2, 2, 4] [(2, 2), (3, 3)]
    [.plain (.unshift 0), .handle 2 (.insertBefore 8), .plain (.delete 2), .handle 2 (.insertAfter 9),
     .plain .shift, .handle 2 .delete, .handle 3 (.insertBefore 6), .plain (.append 7)] =
    some ([.ok, .ok, .ok, .ok, .val 0, .ok, .ok, .ok], [1, 8, 9, 6, 4, 7], [(3, 4)]) := by decide
example : (do let (h, answers) ← runItems
                  [⟨1, some 1, none⟩, ⟨2, some 2, some 0⟩, ⟨2, some 3, some 1⟩, ⟨4, none, some 2⟩]
                  [.plain (.unshift 0), .handle 2 (.insertBefore 8), .plain (.delete 2), .handle 2 (.insertAfter 9),
                   .plain .shift, .handle 2 .delete, .handle 3 (.insertBefore 6), .plain (.append 7)]
              let (_, vs) ← each h
              pure (answers, vs)) =
    ListRes.ok ([.ok, .ok, .ok, .ok, .val 0, .ok, .ok, .ok], [1, 8, 9, 6, 4, 7]) := by decide

/-- an excluded history: `[1,2,3]`, handle to `2` (cell 1).  `Shift` copies cell 1 into the embedded head: the table
drops the handle, the specification gives no verdict for `Delete(handle)` afterwards (the pointer model accepts it,
answers `ok` and removes nothing: `excluded_stale_handle_dlist`). -/
theorem excluded_mixed_dlist :
    specItems true nextD [1, 2, 3] [(1, 1)] [.plain .shift] = some ([.val 1], [2, 3], []) ∧
    specItems true nextD [1, 2, 3] [(1, 1)] [.plain .shift, .handle 1 .delete] = none := by decide

end DList
end GoguVerif.Theorems.C19H
