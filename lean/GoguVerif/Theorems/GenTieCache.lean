import GoguVerif.Gen.Cache
import GoguVerif.Lemmas.C08
/-!
# The regenerated tie for the expiring cache (C08 `cache.Cache`)

`Gen/Cache.lean` is produced on every run by the translator (`translator/frag_cache.go`) from `cache/cache.go`:
every method with the modelled fields of its receiver (`items`, `expTime`, `cleanupInt`) as variables, the clock as
the parameter `clock_`, the type switch of `store` as the parameter `strOf_V`, a mutating method returning its
results followed by the new `items`.

**Correspondence of the states.**  The generated state is `g : List (Int × Gen.Cache.Item Int)` (the Go map as the
association list of frag.go: `m[k] = v` overwrites in place or appends, `delete` removes the first entry of the key);
the model's state is `m : Model.Cache.Items` (`assign` = cons in front of `erase`).  Both stand for the same Go map
when `Rel g m`: the entries of `g` (an `Item` of the generated structure read as the model's `Item`) are a
PERMUTATION of those of `m`, and no key occurs twice.  The model normalises the position of a stored entry (front),
the generated code keeps it (in place / end); the order of the list is the iteration order of the Go map, which the
language leaves open, so the theorems below state equality of the states *up to that permutation* and equality of
every answer *exactly*.  `rel_nil` and the `Rel` halves of the theorems make `Rel` an invariant.

The instantiation is the model's: keys `Int`, values `Int`; `strOf_V` is any function that calls a value a string of
length 0 exactly when the model rejects it (`StrOK`; satisfiable for both instantiations of `Cfg.strVals`, see the
examples).  All clock readings of one call are the one instant `now` (simplification made by the translator and by
the model alike; `set_tie`, `setDefault_tie`, `update_tie`, `mapToCache_tie` depend on it).
-/
namespace GoguVerif.Theorems.GenTieCache
open GoguVerif GoguVerif.Model.Cache GoguVerif.Lemmas.C08
open GoguVerif.Gen.Cache (mapHas mapGet mapSet mapDel)

abbrev GItem := Gen.Cache.Item Int
abbrev GItems := List (Int × GItem)

/-- an `Item` of the generated structure read as the model's `Item` -/
def conv (it : GItem) : Item := ⟨it.object, it.expiration⟩

/-- the generated state read as a model state (same order) -/
def toModel (g : GItems) : Items := g.map fun p => (p.1, conv p.2)

/-- the generated state `g` and the model state `m` stand for the same Go map -/
def Rel (g : GItems) (m : Items) : Prop := (toModel g).Perm m ∧ (keys m).Nodup

/-- `strOf` (dynamic type string? then the bytes) agrees with the model's `rejected` -/
def StrOK (cfg : Cfg) (strOf : Int → Option (List UInt8)) : Prop :=
  ∀ v, (match strOf v with | some s => decide (((s.length : Nat) : Int) = 0) | none => false) = rejected cfg v

/-- `V = int`: no value is a string -/
example (cfg : Cfg) (h : cfg.strVals = false) : StrOK cfg (fun _ => none) := by
  intro v; simp [rejected, h]

/-- `V = string`: the model's value `0` is `""` -/
example (cfg : Cfg) (h : cfg.strVals = true) : StrOK cfg (fun v => some (if v = 0 then [] else [120])) := by
  intro v
  by_cases hv : v = 0 <;> simp [rejected, h, hv]

theorem rel_nil : Rel [] [] := ⟨List.Perm.refl _, by simp⟩

example : Rel [(1, ⟨5, 0⟩), (2, ⟨6, 9⟩)] [(2, ⟨6, 9⟩), (1, ⟨5, 0⟩)] :=
  ⟨List.Perm.swap _ _ _, by decide⟩

/-! ## the map primitives of the generated code -/

section prim
variable {β : Type}

theorem mapHas_iff (m : List (Int × β)) (k : Int) : mapHas m k = true ↔ k ∈ m.map (·.1) := by
  induction m with
  | nil => simp [mapHas]
  | cons e r ih =>
    by_cases h : e.1 = k
    · simp [mapHas, h]
    · have h' : ¬ k = e.1 := fun x => h x.symm
      simp [mapHas, h, h', ih]

theorem mapDel_of_not_mem {m : List (Int × β)} {k : Int} (h : k ∉ m.map (·.1)) : mapDel m k = m := by
  induction m with
  | nil => rfl
  | cons e r ih =>
    simp only [List.map_cons, List.mem_cons, not_or] at h
    have h1 : ¬ e.1 = k := fun x => h.1 x.symm
    simp [mapDel, h1, ih h.2]

theorem mapDel_append {a : List (Int × β)} {k : Int} (h : k ∉ a.map (·.1)) (b : List (Int × β)) :
    mapDel (a ++ b) k = a ++ mapDel b k := by
  induction a with
  | nil => rfl
  | cons e r ih =>
    simp only [List.map_cons, List.mem_cons, not_or] at h
    have h1 : ¬ e.1 = k := fun x => h.1 x.symm
    simp [mapDel, h1, ih h.2]

theorem mapSet_of_not_mem {m : List (Int × β)} {k : Int} (v : β) (h : k ∉ m.map (·.1)) :
    mapSet m k v = m ++ [(k, v)] := by
  induction m with
  | nil => rfl
  | cons e r ih =>
    simp only [List.map_cons, List.mem_cons, not_or] at h
    have h1 : ¬ e.1 = k := fun x => h.1 x.symm
    simp [mapSet, h1, ih h.2]

end prim

theorem keys_toModel (g : GItems) : keys (toModel g) = g.map (·.1) := by
  simp [keys, toModel, List.map_map, Function.comp_def]

/-- `item, ok := c.items[key]` of the generated code against the model's `lookup` -/
theorem lookup_toModel (g : GItems) (k : Int) (z : GItem) :
    lookup k (toModel g) = if mapHas g k then some (conv (mapGet g k z)) else none := by
  induction g with
  | nil => simp [toModel, lookup, mapHas]
  | cons e r ih =>
    by_cases h : e.1 = k
    · simp [toModel, lookup, mapHas, mapGet, h]
    · have := ih
      simp only [toModel] at this
      simp [toModel, lookup, mapHas, mapGet, h, this]

/-- `delete(c.items, key)` -/
theorem toModel_mapDel {g : GItems} (k : Int) (hn : (keys (toModel g)).Nodup) :
    toModel (mapDel g k) = erase k (toModel g) := by
  induction g with
  | nil => rfl
  | cons e r ih =>
    have hn' : (keys (toModel r)).Nodup ∧ e.1 ∉ keys (toModel r) := by
      simp only [toModel, List.map_cons, keys_cons, List.nodup_cons] at hn
      exact ⟨hn.2, hn.1⟩
    by_cases h : e.1 = k
    · subst h
      have : erase e.1 (toModel r) = toModel r := erase_of_not_mem hn'.2
      simp [toModel, mapDel, erase] at this ⊢
      exact this.symm
    · have := ih hn'.1
      simp only [toModel] at this
      simp [toModel, mapDel, erase, h, this]

/-- `c.items[key] = it` -/
theorem toModel_mapSet {g : GItems} (k : Int) (it : GItem) (hn : (keys (toModel g)).Nodup) :
    (toModel (mapSet g k it)).Perm (assign k (conv it) (toModel g)) := by
  induction g with
  | nil => simp [toModel, mapSet, assign, erase]
  | cons e r ih =>
    have hn' : (keys (toModel r)).Nodup ∧ e.1 ∉ keys (toModel r) := by
      simp only [toModel, List.map_cons, keys_cons, List.nodup_cons] at hn
      exact ⟨hn.2, hn.1⟩
    by_cases h : e.1 = k
    · subst h
      have : erase e.1 (toModel r) = toModel r := erase_of_not_mem hn'.2
      simp only [toModel] at this
      simp [toModel, mapSet, assign, erase, this]
    · have := ih hn'.1
      simp only [toModel, assign] at this
      simp only [toModel, mapSet, h, if_false, List.map_cons, assign, erase]
      exact (List.Perm.cons _ this).trans (List.Perm.swap _ _ _)

/-! ## the model does not depend on the order of the list (no key twice) -/

theorem keys_perm {a b : Items} (h : a.Perm b) : (keys a).Perm (keys b) := h.map _

theorem nodup_of_perm {a b : Items} (h : a.Perm b) (hn : (keys b).Nodup) : (keys a).Nodup :=
  (keys_perm h).nodup_iff.mpr hn

theorem lookup_perm {a b : Items} (h : a.Perm b) (hn : (keys b).Nodup) (k : Int) :
    lookup k a = lookup k b := by
  have hna := nodup_of_perm h hn
  cases hl : lookup k a with
  | none =>
    have : k ∉ keys b := fun hb => (lookup_eq_none_iff.mp hl) ((keys_perm h).mem_iff.mpr hb)
    exact (lookup_eq_none_iff.mpr this).symm
  | some it =>
    exact (lookup_of_mem hn (h.mem_iff.mp (mem_of_lookup hl))).symm

theorem erase_perm {a b : Items} (h : a.Perm b) (k : Int) : (erase k a).Perm (erase k b) := by
  rw [erase_eq_filter, erase_eq_filter]; exact h.filter _

theorem assign_perm {a b : Items} (h : a.Perm b) (k : Int) (it : Item) :
    (assign k it a).Perm (assign k it b) := List.Perm.cons _ (erase_perm h k)

theorem rel_lookup {g : GItems} {m : Items} (h : Rel g m) (k : Int) (z : GItem) :
    lookup k m = if mapHas g k then some (conv (mapGet g k z)) else none := by
  rw [← lookup_perm h.1 h.2 k, lookup_toModel]

theorem rel_assign {g : GItems} {m : Items} (h : Rel g m) (k : Int) (it : GItem) :
    Rel (mapSet g k it) (assign k (conv it) m) :=
  ⟨(toModel_mapSet k it (nodup_of_perm h.1 h.2)).trans (assign_perm h.1 k _), nodup_assign h.2⟩

theorem rel_erase {g : GItems} {m : Items} (h : Rel g m) (k : Int) :
    Rel (mapDel g k) (erase k m) :=
  ⟨(toModel_mapDel k (nodup_of_perm h.1 h.2)) ▸ erase_perm h.1 k, nodup_erase h.2⟩


/-! ## the methods -/

/-- the regenerated constants are the ones the model uses -/
theorem consts_tie : Gen.Cache.NoExpiration = Gen.noExpiration ∧ Gen.Cache.DefaultExpiration = Gen.defaultExpiration :=
  ⟨by decide, by decide⟩

/-- `store`, computed: the flag and the new list of the generated code in terms of the model's `rejected`, `expiry` -/
theorem store_eq (cfg : Cfg) (strOf : Int → Option (List UInt8)) (hs : StrOK cfg strOf) (now : Int) (g : GItems)
    (k v d : Int) :
    Gen.Cache.Cache_store strOf now g cfg.expTime cfg.cleanupInt k v d =
      if rejected cfg v then (true, g) else (false, mapSet g k ⟨v, expiry cfg now d⟩) := by
  have hv := hs v
  have he : (let exp : Int := (0 : Int);
      let d := (if (decide (d = Gen.Cache.DefaultExpiration)) then (let d := cfg.expTime; d) else (d));
      let exp := (if (decide (d > (0 : Int))) then (let exp := (now + d); exp)
        else (let exp := (if (decide (d < (0 : Int))) then (let exp := Gen.Cache.NoExpiration; exp) else (exp)); exp));
      exp) = expiry cfg now d := by
    simp only [expiry, Gen.Cache.DefaultExpiration, Gen.Cache.NoExpiration, Gen.defaultExpiration, Gen.noExpiration]
    by_cases h0 : d = 0 <;> simp [h0] <;> split <;> simp_all
  unfold Gen.Cache.Cache_store
  simp only [] at he ⊢
  rw [he]
  cases hso : strOf v with
  | none =>
    rw [hso] at hv
    simp [← hv]
  | some s =>
    rw [hso] at hv
    simp only [] at hv
    by_cases hr : rejected cfg v = true
    · rw [hr] at hv
      have hs0 : s = [] := by simpa using hv
      simp [hs0, hr]
    · have hr' : rejected cfg v = false := by simpa using hr
      rw [hr'] at hv
      have hs0 : ¬ s = [] := by simpa using hv
      simp [hs0, hr']

/-- `store` -/
theorem store_tie (cfg : Cfg) (strOf : Int → Option (List UInt8)) (hs : StrOK cfg strOf) (now : Int)
    (g : GItems) (m : Items) (h : Rel g m) (k v d : Int) :
    (Gen.Cache.Cache_store strOf now g cfg.expTime cfg.cleanupInt k v d).1 = (store cfg now m k v d).2 ∧
    Rel (Gen.Cache.Cache_store strOf now g cfg.expTime cfg.cleanupInt k v d).2 (store cfg now m k v d).1 := by
  rw [store_eq cfg strOf hs]
  unfold store
  by_cases hr : rejected cfg v = true
  · simp [hr, h]
  · simp only [hr]
    exact ⟨by simp, rel_assign h k ⟨v, expiry cfg now d⟩⟩

/-- `add` -/
theorem add_tie (cfg : Cfg) (strOf : Int → Option (List UInt8)) (hs : StrOK cfg strOf) (now : Int)
    (g : GItems) (m : Items) (h : Rel g m) (k v d : Int) :
    (Gen.Cache.Cache_add strOf now g cfg.expTime cfg.cleanupInt k v d).1 = (add cfg now m k v d).2 ∧
    Rel (Gen.Cache.Cache_add strOf now g cfg.expTime cfg.cleanupInt k v d).2 (add cfg now m k v d).1 :=
  store_tie cfg strOf hs now g m h k v d

/-- `Set` -/
theorem set_tie (cfg : Cfg) (strOf : Int → Option (List UInt8)) (hs : StrOK cfg strOf) (now : Int)
    (g : GItems) (m : Items) (h : Rel g m) (k v d : Int) :
    (Gen.Cache.Cache_Set strOf now g cfg.expTime cfg.cleanupInt k v d).1 = (set cfg now m k v d).2 ∧
    Rel (Gen.Cache.Cache_Set strOf now g cfg.expTime cfg.cleanupInt k v d).2 (set cfg now m k v d).1 := by
  have hl := rel_lookup h k (default : GItem)
  have hst := store_tie cfg strOf hs now g m h k v d
  unfold Gen.Cache.Cache_Set Model.Cache.set
  simp only []
  rw [hl]
  by_cases hk : mapHas g k = true
  · simp only [hk, if_true]
    by_cases hc : (conv (mapGet g k default)).expiration ≤ 0 ∨ now ≤ (conv (mapGet g k default)).expiration
    · have hc' : (decide ((mapGet g k (default : GItem)).expiration ≤ 0) ||
          decide (now ≤ (mapGet g k (default : GItem)).expiration)) = true := by
        simpa [conv] using hc
      simp only [hc, hc', if_true]
      exact ⟨by trivial, h⟩
    · have hc' : (decide ((mapGet g k (default : GItem)).expiration ≤ 0) ||
          decide (now ≤ (mapGet g k (default : GItem)).expiration)) = false := by
        simpa [conv] using hc
      simp only [hc, hc', if_false]
      exact hst
  · simp only [hk]
    exact hst

/-- `SetDefault` = `Set` with `DefaultExpiration` (the protocol's `.set k v 0`) -/
theorem setDefault_tie (cfg : Cfg) (strOf : Int → Option (List UInt8)) (hs : StrOK cfg strOf) (now : Int)
    (g : GItems) (m : Items) (h : Rel g m) (k v : Int) :
    (Gen.Cache.Cache_SetDefault strOf now g cfg.expTime cfg.cleanupInt k v).1 = (set cfg now m k v 0).2 ∧
    Rel (Gen.Cache.Cache_SetDefault strOf now g cfg.expTime cfg.cleanupInt k v).2 (set cfg now m k v 0).1 :=
  set_tie cfg strOf hs now g m h k v 0

/-- `Get`: the item (read as the model's `Item`) and the error flag; `Get` does not change the state -/
theorem get_tie (now : Int) (g : GItems) (m : Items) (h : Rel g m) (eT cI k : Int) :
    (Gen.Cache.Cache_Get now g eT cI k).1.map conv = get now m k ∧
    (Gen.Cache.Cache_Get now g eT cI k).2 = (get now m k).isNone := by
  have hl := rel_lookup h k (default : GItem)
  unfold Gen.Cache.Cache_Get Model.Cache.get
  simp only []
  rw [hl]
  by_cases hk : mapHas g k = true
  · simp only [hk, if_true]
    by_cases h1 : (mapGet g k (default : GItem)).expiration > 0 <;>
      by_cases h2 : now > (mapGet g k (default : GItem)).expiration <;>
      simp [conv, h1, h2]
  · simp [hk]

/-- `Update` -/
theorem update_tie (cfg : Cfg) (strOf : Int → Option (List UInt8)) (hs : StrOK cfg strOf) (now : Int)
    (g : GItems) (m : Items) (h : Rel g m) (k v d : Int) :
    (Gen.Cache.Cache_Update strOf now g cfg.expTime cfg.cleanupInt k v d).1 = (update cfg now m k v d).2 ∧
    Rel (Gen.Cache.Cache_Update strOf now g cfg.expTime cfg.cleanupInt k v d).2 (update cfg now m k v d).1 := by
  have hg := get_tie now g m h cfg.expTime cfg.cleanupInt k
  have ha := add_tie cfg strOf hs now g m h k v d
  rw [update_eq_store]
  unfold Gen.Cache.Cache_Update
  simp only []
  -- `item != nil && err != nil` is dead: the flag is `isNone` of the item
  have hdead : ((Gen.Cache.Cache_Get now g cfg.expTime cfg.cleanupInt k).1.isSome &&
      (Gen.Cache.Cache_Get now g cfg.expTime cfg.cleanupInt k).2) = false := by
    rw [hg.2, ← hg.1]
    cases (Gen.Cache.Cache_Get now g cfg.expTime cfg.cleanupInt k).1 <;> simp
  simp only [hdead]
  exact ha


/-- `cache.delete` -/
theorem delete_tie (g : GItems) (m : Items) (h : Rel g m) (eT cI k : Int) :
    (Gen.Cache.cache_delete g eT cI k).1 = (delete m k).2 ∧
    Rel (Gen.Cache.cache_delete g eT cI k).2 (delete m k).1 := by
  have hl := rel_lookup h k (default : GItem)
  unfold Gen.Cache.cache_delete delete
  simp only []
  rw [hl]
  by_cases hk : mapHas g k = true
  · simp only [hk, if_true]
    exact ⟨by trivial, rel_erase h k⟩
  · simp only [hk]
    exact ⟨by trivial, h⟩

/-- `Delete` -/
theorem Delete_tie (g : GItems) (m : Items) (h : Rel g m) (eT cI k : Int) :
    (Gen.Cache.Cache_Delete g eT cI k).1 = (delete m k).2 ∧
    Rel (Gen.Cache.Cache_Delete g eT cI k).2 (delete m k).1 :=
  delete_tie g m h eT cI k

/-- the test of `DeleteExpired` on a generated item -/
def gexpired (now : Int) (it : GItem) : Bool := decide (it.expiration > 0) && decide (now > it.expiration)

theorem gexpired_conv (now : Int) (it : GItem) : gexpired now it = expired now (conv it) := by
  simp [gexpired, expired, conv]

/-- the loop of the regenerated `DeleteExpired` removes exactly the expired entries, whatever the order -/
theorem gDeleteExpiredLoop_spec (clk eT cI now : Int) (es : GItems) :
    ∀ (a : GItems) (err : Bool), ((a ++ es).map (·.1)).Nodup →
      Gen.Cache.cache_DeleteExpired_loop1 clk eT cI now es (a ++ es) err =
        (a ++ es.filter (fun p => !gexpired now p.2), err) := by
  induction es with
  | nil => intro a err _; simp [Gen.Cache.cache_DeleteExpired_loop1]
  | cons p r ih =>
    intro a err hn
    obtain ⟨k, it⟩ := p
    have hna : k ∉ a.map (·.1) := by
      simp only [List.map_append, List.map_cons] at hn
      exact fun h => (List.nodup_append.mp hn).2.2 k h k (List.mem_cons_self) rfl
    by_cases hp : gexpired now it = true
    · have hp' : (decide (it.expiration > 0) && decide (now > it.expiration)) = true := hp
      have hk : mapHas (a ++ (k, it) :: r) k = true := (mapHas_iff _ _).mpr (by simp)
      have hd : mapDel (a ++ (k, it) :: r) k = a ++ r := by
        rw [mapDel_append hna]; simp [mapDel]
      have hn' : ((a ++ r).map (·.1)).Nodup := by
        simp only [List.map_append, List.map_cons] at hn ⊢
        exact (List.Sublist.append_left (List.sublist_cons_self k (r.map (·.1))) (a.map (·.1))).nodup hn
      unfold Gen.Cache.cache_DeleteExpired_loop1
      simp only [hp', if_true, Gen.Cache.cache_delete, hk, hd]
      rw [ih a _ hn']
      simp [hp]
    · have hp' : (decide (it.expiration > 0) && decide (now > it.expiration)) = false := by
        simpa [gexpired] using hp
      have hn' : (((a ++ [(k, it)]) ++ r).map (·.1)).Nodup := by simpa using hn
      have := ih (a ++ [(k, it)]) err hn'
      simp only [List.append_assoc, List.singleton_append] at this
      unfold Gen.Cache.cache_DeleteExpired_loop1
      simp only [hp', Bool.false_eq_true, if_false, this]
      simp [hp]

/-- `DeleteExpired` (the instant `now` is read once, before the loop) -/
theorem deleteExpired_tie (now : Int) (g : GItems) (m : Items) (h : Rel g m) (eT cI : Int) :
    (Gen.Cache.cache_DeleteExpired now g eT cI).1 = (deleteExpired now m).2 ∧
    Rel (Gen.Cache.cache_DeleteExpired now g eT cI).2 (deleteExpired now m).1 := by
  have hng : (g.map (·.1)).Nodup := by rw [← keys_toModel]; exact nodup_of_perm h.1 h.2
  have hg := gDeleteExpiredLoop_spec now eT cI now g [] false (by simpa using hng)
  simp only [List.nil_append] at hg
  rw [deleteExpired_eq_filter h.2]
  unfold Gen.Cache.cache_DeleteExpired
  simp only [hg]
  refine ⟨by trivial, ?_, keys_filter_nodup _ h.2⟩
  have : toModel (g.filter (fun p => !gexpired now p.2)) =
      (toModel g).filter (fun p => !expired now p.2) := by
    simp [toModel, List.filter_map, Function.comp_def, gexpired_conv]
  rw [this]
  exact h.1.filter _

/-- `Flush` -/
theorem flush_tie (g : GItems) (eT cI : Int) : Rel (Gen.Cache.Cache_Flush g eT cI) flush := rel_nil

/-- the copy loop of the regenerated `List` appends the entries in the order visited -/
theorem gListLoop_spec (g : GItems) (eT cI : Int) (es : GItems) :
    ∀ acc : GItems, ((acc ++ es).map (·.1)).Nodup →
      Gen.Cache.Cache_List_loop1 g eT cI es acc = acc ++ es := by
  induction es with
  | nil => intro acc _; simp [Gen.Cache.Cache_List_loop1]
  | cons p r ih =>
    intro acc hn
    obtain ⟨k, it⟩ := p
    have hna : k ∉ acc.map (·.1) := by
      simp only [List.map_append, List.map_cons] at hn
      exact fun h => (List.nodup_append.mp hn).2.2 k h k (List.mem_cons_self) rfl
    have hn' : (((acc ++ [(k, it)]) ++ r).map (·.1)).Nodup := by simpa using hn
    unfold Gen.Cache.Cache_List_loop1
    simp only [mapSet_of_not_mem it hna]
    rw [ih _ hn']
    simp

/-- `List`: the returned map stands for the same Go map as the model's -/
theorem list_tie (g : GItems) (m : Items) (h : Rel g m) (eT cI : Int) :
    Rel (Gen.Cache.Cache_List g eT cI) (list m) := by
  have hng : (g.map (·.1)).Nodup := by rw [← keys_toModel]; exact nodup_of_perm h.1 h.2
  have hg := gListLoop_spec g eT cI g [] (by simpa using hng)
  unfold Gen.Cache.Cache_List
  simp only [hg, List.nil_append]
  rw [list_eq_reverse h.2]
  refine ⟨h.1.trans (List.reverse_perm m).symm, ?_⟩
  exact (keys_perm (List.reverse_perm m)).nodup_iff.mpr h.2

/-- the observable of `List()` the protocol compares (pairs sorted by key) is the same -/
theorem listObs_tie (g : GItems) (m : Items) (h : Rel g m) (eT cI : Int) :
    sortKV ((toModel (Gen.Cache.Cache_List g eT cI)).map fun p => (p.1, p.2.object)) = listObs m := by
  have hr := list_tie g m h eT cI
  unfold listObs
  apply sortKV_perm (hr.1.map _)
  have : ((toModel (Gen.Cache.Cache_List g eT cI)).map fun p => (p.1, p.2.object)).map (·.1) =
      keys (toModel (Gen.Cache.Cache_List g eT cI)) := by
    simp [keys, List.map_map, Function.comp_def]
  rw [this]
  exact nodup_of_perm hr.1 hr.2

/-- `Count` -/
theorem count_tie (g : GItems) (m : Items) (h : Rel g m) (eT cI : Int) :
    Gen.Cache.Cache_Count g eT cI = ((count m : Nat) : Int) := by
  unfold Gen.Cache.Cache_Count count
  have := h.1.length_eq
  simp only [toModel, List.length_map] at this
  simp [this]

/-- the loop of `MapToCache` over the entries of the argument map in the order `kvs` -/
theorem mapToCacheLoop_tie (cfg : Cfg) (strOf : Int → Option (List UInt8)) (hs : StrOK cfg strOf) (now d : Int)
    (arg : List (Int × Int)) (kvs : List (Int × Int)) :
    ∀ (g : GItems) (m : Items) (err : Bool), Rel g m →
      (Gen.Cache.Cache_MapToCache_loop1 strOf now cfg.expTime cfg.cleanupInt arg d kvs g err).2 =
        (mapToCacheLoop cfg now d kvs m err).2 ∧
      Rel (Gen.Cache.Cache_MapToCache_loop1 strOf now cfg.expTime cfg.cleanupInt arg d kvs g err).1
        (mapToCacheLoop cfg now d kvs m err).1 := by
  induction kvs with
  | nil => intro g m err h; exact ⟨rfl, h⟩
  | cons p r ih =>
    intro g m err h
    obtain ⟨k, v⟩ := p
    have hst := set_tie cfg strOf hs now g m h k v d
    unfold Gen.Cache.Cache_MapToCache_loop1 mapToCacheLoop
    simp only []
    rw [hst.1]
    exact ih _ _ _ hst.2

/-- `MapToCache`, for every order `kvs` in which the argument map is visited -/
theorem mapToCache_tie (cfg : Cfg) (strOf : Int → Option (List UInt8)) (hs : StrOK cfg strOf) (now : Int)
    (g : GItems) (m : Items) (h : Rel g m) (kvs : List (Int × Int)) (d : Int) :
    (Gen.Cache.Cache_MapToCache strOf now g cfg.expTime cfg.cleanupInt kvs d).1 = (mapToCache cfg now m kvs d).2 ∧
    Rel (Gen.Cache.Cache_MapToCache strOf now g cfg.expTime cfg.cleanupInt kvs d).2 (mapToCache cfg now m kvs d).1 := by
  have := mapToCacheLoop_tie cfg strOf hs now d kvs kvs g m false h
  unfold Gen.Cache.Cache_MapToCache mapToCache
  exact ⟨this.1, this.2⟩

/-- `IsExpired` -/
theorem isExpired_tie (now : Int) (g : GItems) (m : Items) (h : Rel g m) (eT cI k : Int) :
    Gen.Cache.Cache_IsExpired now g eT cI k = isExpired now m k := by
  have hl := rel_lookup h k (default : GItem)
  unfold Gen.Cache.Cache_IsExpired isExpired
  simp only []
  rw [hl]
  by_cases hk : mapHas g k = true
  · by_cases h1 : (mapGet g k (default : GItem)).expiration > 0 <;> simp [hk, conv, h1]
  · simp [hk]

/-! ## hypotheses are satisfiable; the tie on a concrete state -/

example : (Gen.Cache.Cache_Set (fun _ => none) 5 [(1, ⟨7, 3⟩), (2, ⟨8, 0⟩)] 10 0 1 9 0) =
    (false, [(1, ⟨9, 15⟩), (2, ⟨8, 0⟩)]) := by rfl

example : (Model.Cache.set ⟨10, 0, false⟩ 5 [(2, ⟨8, 0⟩), (1, ⟨7, 3⟩)] 1 9 0) =
    ([(1, ⟨9, 15⟩), (2, ⟨8, 0⟩)], false) := by decide

end GoguVerif.Theorems.GenTieCache
