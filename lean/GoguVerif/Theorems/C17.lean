import GoguVerif.Spec.C17
import GoguVerif.Model.C17
import GoguVerif.Lemmas.C17
import GoguVerif.Lemmas.C17Log
import GoguVerif.Lemmas.C17Hist
/-!
# C17 — property theorems (Memoize: one computation per key at a time, cached value served)

All statements are about the protocol LTS of `Model/C17.lean` (`step`: callers × keys, interleaved at
statement granularity, `singleflight.Group.Do`'s join-or-lead contract assumed) and hold for EVERY
reachable state: any number of callers, any number of keys, any interleaving, any instants, any
results chosen by the environment, any cache content `c0` at the start.  The last section ties the
LTS to the sequential model `memoizeSeq` (compared exactly with the implementation) and that to the
specification `Spec.C17.seqCall`.
-/
namespace GoguVerif.Theorems.C17
open GoguVerif Model.C17 Lemmas.C17

variable {cfg : Cfg} {c0 : Nat → Cell} {now0 : Int}

/-! ## at no instant are two executions for one key in progress -/

/-- the in-flight counter of every key (incremented at `fnStart`, decremented at `fnEnd`, exactly like
the atomic counter in the harness) never exceeds 1 -/
theorem one_execution_per_key {s : State} (h : Reachable cfg (init c0 now0) s) (k : Nat) :
    s.inflight k ≤ 1 := by
  have hi := inv_reachable h
  rw [hi.infl k]
  split
  · split <;> omega
  · omega

/-- two callers of one key are never inside the supplied function at the same time -/
theorem running_unique {s : State} (h : Reachable cfg (init c0 now0) s) (c c' : Nat)
    (hk : cfg.key c = cfg.key c') (hc : s.pc c = .running) (hc' : s.pc c' = .running) : c = c' := by
  have hi := inv_reachable h
  have h1 := hi.lead c (by simp [hc, active])
  have h2 := hi.lead c' (by simp [hc', active])
  rw [hk, h2] at h1
  exact (Option.some.inj h1).symm

/-- while an execution for a key is in progress, no `fnStart` for that key is enabled -/
theorem no_second_start {s : State} (h : Reachable cfg (init c0 now0) s) (c c' : Nat)
    (hk : cfg.key c = cfg.key c') (hc : s.pc c = .running) : step cfg s (.fnStart c') = none := by
  have hi := inv_reachable h
  simp only [step]
  split
  · rename_i hl
    have h1 := hi.lead c (by simp [hc, active])
    have h2 := hi.lead c' (by simp [hl, active])
    rw [hk, h2] at h1
    have : c' = c := Option.some.inj h1
    subst this
    rw [hc] at hl; cases hl
  · rfl

/-- an execution in progress stays in progress until its own `fnEnd`: nobody else can end it -/
theorem running_until_fnEnd {s s' : State} {l : Label} (c : Nat) (hc : s.pc c = .running)
    (hs : step cfg s l = some s') (hne : ∀ r, l ≠ .fnEnd c r) : s'.pc c = .running := by
  cases l with
  | fnEnd a r =>
    have hac : c ≠ a := by intro h; subst h; exact hne r rfl
    simp only [step] at hs; split at hs <;> simp at hs; subst hs
    simp only [upd_other _ _ _ _ hac]; exact hc
  | tick d => simp only [step, Option.some.injEq] at hs; subst hs; exact hc
  | invoke a =>
    simp only [step] at hs; split at hs <;> simp at hs
    rename_i hpa
    have hac : c ≠ a := by intro h; subst h; rw [hc] at hpa; cases hpa
    subst hs; simp only [upd_other _ _ _ _ hac]; exact hc
  | cacheCheck a =>
    simp only [step] at hs
    split at hs <;> try (simp at hs)
    rename_i hpa
    have hac : c ≠ a := by intro h; subst h; rw [hc] at hpa; cases hpa
    split at hs <;> simp at hs <;> subst hs <;> (simp only [upd_other _ _ _ _ hac]; exact hc)
  | doEnter a =>
    simp only [step] at hs
    split at hs <;> try (simp at hs)
    rename_i hpa
    have hac : c ≠ a := by intro h; subst h; rw [hc] at hpa; cases hpa
    split at hs <;> simp at hs <;> subst hs <;> (simp only [upd_other _ _ _ _ hac]; exact hc)
  | leadHit a =>
    simp only [step] at hs
    split at hs <;> try (simp at hs)
    rename_i hpa
    have hac : c ≠ a := by intro h; subst h; rw [hc] at hpa; cases hpa
    split at hs <;> simp at hs
    subst hs; simp only [upd_other _ _ _ _ hac]; exact hc
  | fnStart a =>
    simp only [step] at hs
    split at hs <;> try (simp at hs)
    rename_i hpa
    have hac : c ≠ a := by intro h; subst h; rw [hc] at hpa; cases hpa
    split at hs <;> simp at hs
    subst hs; simp only [upd_other _ _ _ _ hac]; exact hc
  | cacheSet a =>
    simp only [step] at hs
    split at hs <;> simp at hs
    all_goals
      rename_i hpa
      have hac : c ≠ a := by intro h; subst h; rw [hc] at hpa; cases hpa
      subst hs; simp only [upd_other _ _ _ _ hac]; exact hc
  | doFinish a =>
    simp only [step] at hs; split at hs <;> simp at hs
    rename_i hpa
    have hac : c ≠ a := by intro h; subst h; rw [hc] at hpa; cases hpa
    subst hs; simp only [upd_other _ _ _ _ hac]; exact hc
  | wake a =>
    simp only [step] at hs
    split at hs <;> try (simp at hs)
    rename_i hpa
    have hac : c ≠ a := by intro h; subst h; rw [hc] at hpa; cases hpa
    split at hs <;> simp at hs
    subst hs; simp only [upd_other _ _ _ _ hac]; exact hc

/-! ## every returned result has a source -/

/-- the result published by a leader that ran the function is that function's result -/
theorem published {s : State} {l : Nat} {r : Res} (hl : Local cfg s l) (hr : s.result l = some r)
    (hs : s.src l = some (.exec l)) : s.execRes l = some r ∧ s.started l = true := by
  rcases (published_cases hl hr).2 with ⟨_, h1, h2⟩ | ⟨v, _, h, _⟩
  · exact ⟨h2, h1⟩
  · rw [hs] at h; cases h

/-- a caller that has returned `r` got
* the value read from the cache by its own `cacheCheck`, or
* the result of the execution it led or joined — an execution for the same key that had started before
  the caller returned, or
* the value the leader `l` of its flight (a caller of the same key, possibly the caller itself) read
  from the cache at its re-check inside `Do`: `l` ran nothing, nor did the caller
(statement changed with the leader's re-check: the third alternative is new) -/
theorem result_has_source {s : State} (h : Reachable cfg (init c0 now0) s) (c : Nat) (r : Res)
    (hd : s.pc c = .done r) :
    (∃ v, r = .ok v ∧ s.src c = some (.hit v)) ∨
    (∃ l, s.src c = some (.exec l) ∧ cfg.key l = cfg.key c ∧ s.execRes l = some r ∧ s.started l = true) ∨
    (∃ l v, r = .ok v ∧ s.src c = some (.lhit l v) ∧ cfg.key l = cfg.key c ∧ s.src l = some (.lhit l v) ∧
        s.started l = false ∧ s.started c = false) := by
  have hi := inv_reachable h
  have hl := hi.loc c
  simp only [Local, hd] at hl
  rcases hl with ⟨v, h1, h2, _⟩ | ⟨h1, h2, h3, _⟩ | ⟨l, h1, h2, h3, _, _, _, h7⟩ | ⟨v, h1, h2, h3, _⟩ |
    ⟨l, v, h1, h2, h3, h4, h5, _, _, h8⟩
  · exact Or.inl ⟨v, h1, h2⟩
  · exact Or.inr (Or.inl ⟨c, h1, rfl, h3, h2⟩)
  · have := published (hi.loc l) h3 h7
    exact Or.inr (Or.inl ⟨l, h1, h2, this.1, this.2⟩)
  · exact Or.inr (Or.inr ⟨c, v, h1, h2, rfl, h2, h3, h3⟩)
  · rcases (published_cases (hi.loc l) h4).2 with ⟨k, _⟩ | ⟨_, _, _, k, _⟩
    · rw [h8] at k; cases k
    · exact Or.inr (Or.inr ⟨l, v, h1, h2, h3, h8, k, h5⟩)

/-- the value a hit returns is the one `Cache.Get` produced at that `cacheCheck` step -/
theorem hit_reads_cache {s s' : State} (c : Nat) (v : Int)
    (hs : step cfg s (.cacheCheck c) = some s') (hv : cellGet s.now (s.cache (cfg.key c)) = some v) :
    s'.pc c = .done (.ok v) ∧ s'.src c = some (.hit v) ∧ s'.started = s.started ∧ s'.cache = s.cache := by
  simp only [step] at hs
  split at hs <;> try (simp at hs)
  rw [hv] at hs
  simp only [Option.some.injEq] at hs
  subst hs
  simp

/-- the leader's re-check: `leadHit` is enabled exactly on a live value, which is the value the caller will
return (`pc = setDone (.ok v)`: `doFinish` publishes it); nothing runs, nothing is written to the cache -/
theorem leadhit_reads_cache {s s' : State} (c : Nat) (hs : step cfg s (.leadHit c) = some s') :
    ∃ v, cellGet s.now (s.cache (cfg.key c)) = some v ∧ s.pc c = .leader ∧
      s'.pc c = .setDone (.ok v) ∧ s'.src c = some (.lhit c v) ∧ s'.started = s.started ∧
      s'.cache = s.cache ∧ s'.inflight = s.inflight ∧ s'.flight = s.flight := by
  simp only [step] at hs
  split at hs <;> try (simp at hs)
  rename_i hpc
  split at hs <;> simp at hs
  rename_i v hv
  subst hs
  exact ⟨v, hv, hpc, by simp, by simp, rfl, rfl, rfl, rfl⟩

/-- the leader's step is determined by its re-check: with a live value only `leadHit` is enabled, without
one only `fnStart` -/
theorem leader_step_determined (s : State) (c : Nat) (hpc : s.pc c = .leader) :
    (∀ v, cellGet s.now (s.cache (cfg.key c)) = some v →
        (step cfg s (.leadHit c)).isSome = true ∧ step cfg s (.fnStart c) = none) ∧
    (cellGet s.now (s.cache (cfg.key c)) = none →
        step cfg s (.leadHit c) = none ∧ (step cfg s (.fnStart c)).isSome = true) := by
  constructor
  · intro v hv; simp [step, hpc, hv]
  · intro hv; simp [step, hpc, hv]

/-- every cached value was there at the start or is the successful result of an execution for that
very key (no contamination between keys) -/
theorem cached_value_origin {s : State} (h : Reachable cfg (init c0 now0) s) (k : Nat) (v e : Int)
    (hc : s.cache k = some (v, e)) :
    c0 k = some (v, e) ∨ ∃ l, cfg.key l = k ∧ s.execRes l = some (.ok v) :=
  (inv_reachable h).cach k v e hc

/-! ## callers that joined the same execution get the same result -/

theorem joiners_equal {s : State} (h : Reachable cfg (init c0 now0) s) (c c' l : Nat) (r r' : Res)
    (hs : s.src c = some (.exec l)) (hs' : s.src c' = some (.exec l))
    (hd : s.pc c = .done r) (hd' : s.pc c' = .done r') : r = r' := by
  rcases result_has_source h c r hd with ⟨v, _, h2⟩ | ⟨l1, h1, _, h3, _⟩ | ⟨l1, v, _, h2, _⟩
  · rw [hs] at h2; cases h2
  · rcases result_has_source h c' r' hd' with ⟨v, _, h2⟩ | ⟨l2, h1', _, h3', _⟩ | ⟨l2, v, _, h2, _⟩
    · rw [hs'] at h2; cases h2
    · rw [hs] at h1; rw [hs'] at h1'
      cases h1; cases h1'
      rw [h3] at h3'
      exact Option.some.inj h3'
    · rw [hs'] at h2; cases h2
  · rw [hs] at h2; cases h2

/-! ## a live cached value is served and nothing runs -/

theorem reachable_trans {s0 s1 s2 : State} (h1 : Reachable cfg s0 s1) (h2 : Reachable cfg s1 s2) :
    Reachable cfg s0 s2 := by
  induction h2 with
  | refl => exact h1
  | step l _ hs ih => exact Reachable.step l ih hs

/-- a caller whose result is a cache hit has returned that value and its function has not been invoked -/
theorem hit_local {s : State} {c : Nat} {v : Int} (hl : Local cfg s c)
    (hs : s.src c = some (.hit v)) : s.pc c = .done (.ok v) ∧ s.started c = false := by
  unfold Local at hl
  cases hp : s.pc c with
  | done r =>
    simp only [hp] at hl
    rcases hl with ⟨w, h1, h2, h3, _⟩ | ⟨h2, _⟩ | ⟨l, h2, _⟩ | ⟨w, _, h2, _⟩ | ⟨l, w, _, h2, _⟩
    · rw [hs] at h2; cases h2; exact ⟨by rw [h1], h3⟩
    · rw [hs] at h2; cases h2
    · rw [hs] at h2; cases h2
    · rw [hs] at h2; cases h2
    · rw [hs] at h2; cases h2
  | idle => simp only [hp] at hl; rw [hl.1] at hs; cases hs
  | start => simp only [hp] at hl; rw [hl.1] at hs; cases hs
  | missed => simp only [hp] at hl; rw [hl.1] at hs; cases hs
  | waiting l => simp only [hp] at hl; rw [hl.1] at hs; cases hs
  | leader => simp only [hp] at hl; rw [hl.1] at hs; cases hs
  | running => simp only [hp] at hl; rw [hl.1] at hs; cases hs
  | ran r => simp only [hp] at hl; rw [hl.1] at hs; cases hs
  | setDone r =>
    simp only [hp] at hl
    rcases hl with hl | ⟨w, _, h2, _⟩
    · rw [hl.1] at hs; cases hs
    · rw [hs] at h2; cases h2

theorem hit_never_starts {s : State} (h : Reachable cfg (init c0 now0) s) (c : Nat) (v : Int)
    (hs : s.src c = some (.hit v)) : s.pc c = .done (.ok v) ∧ s.started c = false :=
  hit_local ((inv_reachable h).loc c) hs

theorem src_hit_stable {s s' : State} {l : Label} (hi : Inv cfg c0 s) (c : Nat) (v : Int)
    (hsrc : s.src c = some (.hit v)) (hs : step cfg s l = some s') : s'.src c = some (.hit v) := by
  have hpc : s.pc c = .done (.ok v) := (hit_local (hi.loc c) hsrc).1
  cases l with
  | cacheCheck a =>
    simp only [step] at hs
    split at hs <;> try (simp at hs)
    rename_i hpa
    have hne : c ≠ a := by intro hca; subst hca; rw [hpc] at hpa; cases hpa
    split at hs <;> simp at hs <;> subst hs
    · simp only [upd_other _ _ _ _ hne]; exact hsrc
    · exact hsrc
  | doEnter a =>
    simp only [step] at hs
    split at hs <;> try (simp at hs)
    rename_i hpa
    have hne : c ≠ a := by intro hca; subst hca; rw [hpc] at hpa; cases hpa
    split at hs <;> simp at hs <;> subst hs
    · simp only [upd_other _ _ _ _ hne]; exact hsrc
    · simp only [upd_other _ _ _ _ hne]; exact hsrc
  | invoke a => simp only [step] at hs; split at hs <;> simp at hs; subst hs; exact hsrc
  | leadHit a =>
    simp only [step] at hs
    split at hs <;> try (simp at hs)
    rename_i hpa
    have hne : c ≠ a := by intro hca; subst hca; rw [hpc] at hpa; cases hpa
    split at hs <;> simp at hs
    subst hs; simp only [upd_other _ _ _ _ hne]; exact hsrc
  | fnStart a =>
    simp only [step] at hs
    split at hs <;> try (simp at hs)
    split at hs <;> simp at hs
    subst hs; exact hsrc
  | fnEnd a r => simp only [step] at hs; split at hs <;> simp at hs; subst hs; exact hsrc
  | cacheSet a => simp only [step] at hs; split at hs <;> simp at hs <;> subst hs <;> exact hsrc
  | doFinish a => simp only [step] at hs; split at hs <;> simp at hs; subst hs; exact hsrc
  | wake a =>
    simp only [step] at hs
    split at hs <;> try (simp at hs)
    rename_i hpa
    have hne : c ≠ a := by intro hca; subst hca; rw [hpc] at hpa; cases hpa
    split at hs <;> simp at hs
    subst hs; simp only [upd_other _ _ _ _ hne]; exact hsrc
  | tick d => simp only [step, Option.some.injEq] at hs; subst hs; exact hsrc

/-- if `cacheCheck` finds a live value, the caller returns exactly that value, and in every state
reachable afterwards — whatever everybody else does, however much time passes — the caller's function
has not been invoked -/
theorem live_value_served_without_invoking {s s1 s2 : State} (h : Reachable cfg (init c0 now0) s)
    (c : Nat) (v : Int) (hs : step cfg s (.cacheCheck c) = some s1)
    (hv : cellGet s.now (s.cache (cfg.key c)) = some v) (h2 : Reachable cfg s1 s2) :
    s2.pc c = .done (.ok v) ∧ s2.started c = false := by
  have h1 : Reachable cfg (init c0 now0) s1 := Reachable.step _ h hs
  have hsrc1 := (hit_reads_cache c v hs hv).2.1
  have hsrc2 : s2.src c = some (.hit v) := by
    induction h2 with
    | refl => exact hsrc1
    | step l hr hst ih => exact src_hit_stable (inv_reachable (reachable_trans h1 hr)) c v ih hst
  exact hit_never_starts (reachable_trans h1 h2) c v hsrc2

/-! ## errors are returned, never cached -/

/-- `cacheSet` after an error leaves the whole cache as it is -/
theorem error_not_cached {s s' : State} (c : Nat) (hpc : s.pc c = .ran .err)
    (hs : step cfg s (.cacheSet c) = some s') : s'.cache = s.cache := by
  simp only [step, hpc, Option.some.injEq] at hs
  subst hs; rfl

/-- no step other than a `cacheSet` that follows a successful execution touches the cache -/
theorem cache_written_only_on_success {s s' : State} (l : Label) (hs : step cfg s l = some s')
    (hne : s'.cache ≠ s.cache) : ∃ c v, l = .cacheSet c ∧ s.pc c = .ran (.ok v) := by
  cases l with
  | cacheSet a =>
    simp only [step] at hs
    split at hs <;> try (simp at hs)
    · rename_i v hpc; exact ⟨a, v, rfl, hpc⟩
    · subst hs; exact absurd rfl hne
  | invoke a => simp only [step] at hs; split at hs <;> simp at hs; subst hs; exact absurd rfl hne
  | cacheCheck a =>
    simp only [step] at hs
    split at hs <;> try (simp at hs)
    split at hs <;> simp at hs <;> subst hs <;> exact absurd rfl hne
  | doEnter a =>
    simp only [step] at hs
    split at hs <;> try (simp at hs)
    split at hs <;> simp at hs <;> subst hs <;> exact absurd rfl hne
  | leadHit a =>
    simp only [step] at hs
    split at hs <;> try (simp at hs)
    split at hs <;> simp at hs
    subst hs; exact absurd rfl hne
  | fnStart a =>
    simp only [step] at hs
    split at hs <;> try (simp at hs)
    split at hs <;> simp at hs
    subst hs; exact absurd rfl hne
  | fnEnd a r => simp only [step] at hs; split at hs <;> simp at hs; subst hs; exact absurd rfl hne
  | doFinish a => simp only [step] at hs; split at hs <;> simp at hs; subst hs; exact absurd rfl hne
  | wake a =>
    simp only [step] at hs
    split at hs <;> try (simp at hs)
    split at hs <;> simp at hs
    subst hs; exact absurd rfl hne
  | tick d => simp only [step, Option.some.injEq] at hs; subst hs; exact absurd rfl hne

/-- after a history in which every execution for `k` failed, nothing is cached for `k` -/
theorem error_only_history_leaves_cache_empty {s : State} (h : Reachable cfg (init c0 now0) s) (k : Nat)
    (h0 : c0 k = none) (herr : ∀ l v, cfg.key l = k → s.execRes l ≠ some (.ok v)) : s.cache k = none := by
  cases hc : s.cache k with
  | none => rfl
  | some p =>
    obtain ⟨v, e⟩ := p
    rcases cached_value_origin h k v e hc with h1 | ⟨l, h1, h2⟩
    · rw [h0] at h1; cases h1
    · exact absurd h2 (herr l v h1)

/-- an error produced by the leader's function is what the leader and every joiner return: a caller
whose source is execution `l` returns `l`'s result, error included -/
theorem execution_result_returned {s : State} (h : Reachable cfg (init c0 now0) s) (c l : Nat) (r : Res)
    (hs : s.src c = some (.exec l)) (hd : s.pc c = .done r) : s.execRes l = some r := by
  rcases result_has_source h c r hd with ⟨v, _, h2⟩ | ⟨l1, h1, _, h3, _⟩ | ⟨l1, v, _, h2, _⟩
  · rw [hs] at h2; cases h2
  · rw [hs] at h1; cases h1; exact h3
  · rw [hs] at h2; cases h2

/-! ## different keys do not block or contaminate each other -/

/-- frame: a step of caller `c` leaves every component of every other key and of every other caller
untouched (and the clock) -/
theorem step_frame {s s' : State} {l : Label} {c : Nat} (hc : l.caller = some c)
    (hs : step cfg s l = some s') :
    s'.now = s.now ∧
    (∀ k, k ≠ cfg.key c → s'.cache k = s.cache k ∧ s'.flight k = s.flight k ∧ s'.inflight k = s.inflight k) ∧
    (∀ c', c' ≠ c → s'.pc c' = s.pc c' ∧ s'.result c' = s.result c' ∧ s'.src c' = s.src c' ∧
        s'.started c' = s.started c' ∧ s'.execRes c' = s.execRes c') := by
  cases l with
  | tick d => simp [Label.caller] at hc
  | invoke a =>
    simp only [Label.caller, Option.some.injEq] at hc; subst hc
    simp only [step] at hs; split at hs <;> simp at hs; subst hs
    exact ⟨rfl, fun k _ => ⟨rfl, rfl, rfl⟩, fun c' h => ⟨upd_other _ _ _ _ h, rfl, rfl, rfl, rfl⟩⟩
  | cacheCheck a =>
    simp only [Label.caller, Option.some.injEq] at hc; subst hc
    simp only [step] at hs
    split at hs <;> try (simp at hs)
    split at hs <;> simp at hs <;> subst hs
    · exact ⟨rfl, fun k _ => ⟨rfl, rfl, rfl⟩, fun c' h => ⟨upd_other _ _ _ _ h, rfl, upd_other _ _ _ _ h, rfl, rfl⟩⟩
    · exact ⟨rfl, fun k _ => ⟨rfl, rfl, rfl⟩, fun c' h => ⟨upd_other _ _ _ _ h, rfl, rfl, rfl, rfl⟩⟩
  | doEnter a =>
    simp only [Label.caller, Option.some.injEq] at hc; subst hc
    simp only [step] at hs
    split at hs <;> try (simp at hs)
    split at hs <;> simp at hs <;> subst hs
    · exact ⟨rfl, fun k _ => ⟨rfl, rfl, rfl⟩, fun c' h => ⟨upd_other _ _ _ _ h, rfl, upd_other _ _ _ _ h, rfl, rfl⟩⟩
    · exact ⟨rfl, fun k hk => ⟨rfl, upd_other _ _ _ _ hk, rfl⟩,
        fun c' h => ⟨upd_other _ _ _ _ h, rfl, upd_other _ _ _ _ h, rfl, rfl⟩⟩
  | leadHit a =>
    simp only [Label.caller, Option.some.injEq] at hc; subst hc
    simp only [step] at hs
    split at hs <;> try (simp at hs)
    split at hs <;> simp at hs
    subst hs
    exact ⟨rfl, fun k _ => ⟨rfl, rfl, rfl⟩, fun c' h => ⟨upd_other _ _ _ _ h, rfl, upd_other _ _ _ _ h, rfl, rfl⟩⟩
  | fnStart a =>
    simp only [Label.caller, Option.some.injEq] at hc; subst hc
    simp only [step] at hs
    split at hs <;> try (simp at hs)
    split at hs <;> simp at hs
    subst hs
    exact ⟨rfl, fun k hk => ⟨rfl, rfl, upd_other _ _ _ _ hk⟩,
      fun c' h => ⟨upd_other _ _ _ _ h, rfl, rfl, upd_other _ _ _ _ h, rfl⟩⟩
  | fnEnd a r =>
    simp only [Label.caller, Option.some.injEq] at hc; subst hc
    simp only [step] at hs; split at hs <;> simp at hs; subst hs
    exact ⟨rfl, fun k hk => ⟨rfl, rfl, upd_other _ _ _ _ hk⟩,
      fun c' h => ⟨upd_other _ _ _ _ h, rfl, rfl, rfl, upd_other _ _ _ _ h⟩⟩
  | cacheSet a =>
    simp only [Label.caller, Option.some.injEq] at hc; subst hc
    simp only [step] at hs
    split at hs <;> simp at hs <;> subst hs
    · exact ⟨rfl, fun k hk => ⟨upd_other _ _ _ _ hk, rfl, rfl⟩, fun c' h => ⟨upd_other _ _ _ _ h, rfl, rfl, rfl, rfl⟩⟩
    · exact ⟨rfl, fun k _ => ⟨rfl, rfl, rfl⟩, fun c' h => ⟨upd_other _ _ _ _ h, rfl, rfl, rfl, rfl⟩⟩
  | doFinish a =>
    simp only [Label.caller, Option.some.injEq] at hc; subst hc
    simp only [step] at hs; split at hs <;> simp at hs; subst hs
    exact ⟨rfl, fun k hk => ⟨rfl, upd_other _ _ _ _ hk, rfl⟩,
      fun c' h => ⟨upd_other _ _ _ _ h, upd_other _ _ _ _ h, rfl, rfl, rfl⟩⟩
  | wake a =>
    simp only [Label.caller, Option.some.injEq] at hc; subst hc
    simp only [step] at hs
    split at hs <;> try (simp at hs)
    split at hs <;> simp at hs
    subst hs
    exact ⟨rfl, fun k _ => ⟨rfl, rfl, rfl⟩, fun c' h => ⟨upd_other _ _ _ _ h, rfl, upd_other _ _ _ _ h, rfl, rfl⟩⟩

theorem upd_agree {α : Type} {f g : Nat → α} {a : Nat} {b : α} {c : Nat} (h : f c = g c) :
    upd f a b c = upd g a b c := by
  simp only [upd_apply]
  split
  · rfl
  · exact h

/-- two states agree on everything that belongs to key `k` (and on the clock) -/
structure AgreeOn (cfg : Cfg) (k : Nat) (s t : State) : Prop where
  now : s.now = t.now
  cache : s.cache k = t.cache k
  flight : s.flight k = t.flight k
  pc : ∀ c, cfg.key c = k → s.pc c = t.pc c
  result : ∀ c, cfg.key c = k → s.result c = t.result c

/-- independence: whether a step of caller `c` is enabled, and what it does to the components of
`c`'s key, depends only on the components of that key — whatever the rest of the state (the other
keys' cache cells, flights, callers) looks like.  In particular a step on key `k` is never disabled
(and never changed) by anything that happens on a key `k' ≠ k`. -/
theorem step_depends_on_own_key_only {s s' t : State} {l : Label} {c : Nat}
    (hi : Inv cfg c0 s) (hc : l.caller = some c) (ha : AgreeOn cfg (cfg.key c) s t)
    (hs : step cfg s l = some s') :
    ∃ t', step cfg t l = some t' ∧ AgreeOn cfg (cfg.key c) s' t' := by
  obtain ⟨a1, a2, a3, a4, a5⟩ := ha
  have hpc := a4 c rfl
  cases l with
  | tick d => simp [Label.caller] at hc
  | invoke a =>
    simp only [Label.caller, Option.some.injEq] at hc; subst hc
    simp only [step] at hs ⊢
    rw [← hpc]
    split at hs <;> simp at hs; subst hs
    exact ⟨_, rfl, a1, a2, a3, fun c' h => upd_agree (a4 c' h), a5⟩
  | cacheCheck a =>
    simp only [Label.caller, Option.some.injEq] at hc; subst hc
    simp only [step] at hs ⊢
    rw [← hpc, ← a1, ← a2]
    split at hs <;> try (simp at hs)
    split at hs <;> simp at hs <;> subst hs
    · exact ⟨_, rfl, rfl, a2, a3, fun c' h => upd_agree (a4 c' h), a5⟩
    · exact ⟨_, rfl, rfl, a2, a3, fun c' h => upd_agree (a4 c' h), a5⟩
  | doEnter a =>
    simp only [Label.caller, Option.some.injEq] at hc; subst hc
    simp only [step] at hs ⊢
    rw [← hpc, ← a3]
    split at hs <;> try (simp at hs)
    split at hs <;> simp at hs <;> subst hs
    · exact ⟨_, rfl, a1, a2, a3, fun c' h => upd_agree (a4 c' h), a5⟩
    · exact ⟨_, rfl, a1, a2, by simp, fun c' h => upd_agree (a4 c' h), a5⟩
  | leadHit a =>
    simp only [Label.caller, Option.some.injEq] at hc; subst hc
    simp only [step] at hs ⊢
    rw [← hpc, ← a1, ← a2]
    split at hs <;> try (simp at hs)
    split at hs <;> simp at hs
    subst hs
    exact ⟨_, rfl, rfl, a2, a3, fun c' h => upd_agree (a4 c' h), a5⟩
  | fnStart a =>
    simp only [Label.caller, Option.some.injEq] at hc; subst hc
    simp only [step] at hs ⊢
    rw [← hpc, ← a1, ← a2]
    split at hs <;> try (simp at hs)
    split at hs <;> simp at hs
    subst hs
    exact ⟨_, rfl, rfl, a2, a3, fun c' h => upd_agree (a4 c' h), a5⟩
  | fnEnd a r =>
    simp only [Label.caller, Option.some.injEq] at hc; subst hc
    simp only [step] at hs ⊢
    rw [← hpc]
    split at hs <;> simp at hs; subst hs
    exact ⟨_, rfl, a1, a2, a3, fun c' h => upd_agree (a4 c' h), a5⟩
  | cacheSet a =>
    simp only [Label.caller, Option.some.injEq] at hc; subst hc
    simp only [step] at hs ⊢
    rw [← hpc, ← a1, ← a2]
    split at hs <;> simp at hs <;> subst hs
    · exact ⟨_, rfl, rfl, by simp, a3, fun c' h => upd_agree (a4 c' h), a5⟩
    · exact ⟨_, rfl, rfl, a2, a3, fun c' h => upd_agree (a4 c' h), a5⟩
  | doFinish a =>
    simp only [Label.caller, Option.some.injEq] at hc; subst hc
    simp only [step] at hs ⊢
    rw [← hpc]
    split at hs <;> simp at hs; subst hs
    exact ⟨_, rfl, a1, a2, by simp, fun c' h => upd_agree (a4 c' h), fun c' h => upd_agree (a5 c' h)⟩
  | wake a =>
    simp only [Label.caller, Option.some.injEq] at hc; subst hc
    simp only [step] at hs ⊢
    rw [← hpc]
    split at hs <;> try (simp at hs)
    rename_i l hpl
    have hl := hi.loc a
    simp only [Local, hpl] at hl
    rw [← a5 l hl.2.2.2.2]
    split at hs <;> simp at hs
    subst hs
    exact ⟨_, rfl, a1, a2, a3, fun c' h => upd_agree (a4 c' h), a5⟩

/-- a step of a caller of key `k` that is enabled stays enabled after any step of a caller of another key -/
theorem never_disabled_by_other_key {s s1 s2 : State} {l1 l2 : Label} {c c' : Nat}
    (h : Reachable cfg (init c0 now0) s) (hc : l1.caller = some c) (hc' : l2.caller = some c')
    (hk : cfg.key c ≠ cfg.key c') (h1 : step cfg s l1 = some s1) (h2 : step cfg s l2 = some s2) :
    ∃ s3, step cfg s2 l1 = some s3 ∧ AgreeOn cfg (cfg.key c) s1 s3 := by
  have hf := step_frame hc' h2
  have hne : ∀ x, cfg.key x = cfg.key c → x ≠ c' := by
    intro x hx hxc; subst hxc; exact hk hx.symm
  have hag : AgreeOn cfg (cfg.key c) s s2 :=
    { now := hf.1.symm
      cache := (hf.2.1 _ hk).1.symm
      flight := (hf.2.1 _ hk).2.1.symm
      pc := fun x hx => ((hf.2.2 x (hne x hx)).1).symm
      result := fun x hx => ((hf.2.2 x (hne x hx)).2.1).symm }
  exact step_depends_on_own_key_only (inv_reachable h) hc hag h1

/-! ## once a live value is cached, the function is not started -/

/-- **the function never starts while a live value is cached**: in every reachable state, whenever a step —
whatever its label, whoever takes it — starts the supplied function of a caller `c` (`c` is inside `fn()`
after the step and was not before), the cache cell of `c`'s key holds no live value at that instant.
The step is `c`'s own `fnStart`, the function-start outcome of the leader's re-check, and no other execution
for the key is in progress.  (The protocol without the leader's re-check does not have this property: see the
`stepOld` example below.) -/
theorem no_start_while_cached {s s' : State} (h : Reachable cfg (init c0 now0) s) (l : Label) (c : Nat)
    (hs : step cfg s l = some s') (hnot : s.pc c ≠ .running) (hrun : s'.pc c = .running) :
    cellGet s.now (s.cache (cfg.key c)) = none ∧ l = .fnStart c ∧ s.inflight (cfg.key c) = 0 := by
  -- a step of another caller does not move `c`
  have other : ∀ a, l.caller = some a → c ≠ a → False := by
    intro a ha hca
    have := ((step_frame ha hs).2.2 c hca).1
    rw [this] at hrun
    exact hnot hrun
  cases l with
  | tick d => simp only [step, Option.some.injEq] at hs; subst hs; exact absurd hrun hnot
  | fnStart a =>
    by_cases hca : c = a
    · subst hca
      simp only [step] at hs
      split at hs <;> try (simp at hs)
      rename_i hpc
      split at hs <;> simp at hs
      rename_i hv
      have hi := inv_reachable h
      have hfa := hi.lead c (by simp [hpc, active])
      refine ⟨hv, rfl, ?_⟩
      rw [hi.infl, hfa]
      simp [hpc]
    · exact absurd (other a rfl hca) id
  | invoke a =>
    by_cases hca : c = a
    · subst hca
      simp only [step] at hs; split at hs <;> simp at hs
      subst hs; simp [upd_same] at hrun
    · exact absurd (other a rfl hca) id
  | cacheCheck a =>
    by_cases hca : c = a
    · subst hca
      simp only [step] at hs
      split at hs <;> try (simp at hs)
      split at hs <;> simp at hs <;> subst hs <;> simp [upd_same] at hrun
    · exact absurd (other a rfl hca) id
  | doEnter a =>
    by_cases hca : c = a
    · subst hca
      simp only [step] at hs
      split at hs <;> try (simp at hs)
      split at hs <;> simp at hs <;> subst hs <;> simp [upd_same] at hrun
    · exact absurd (other a rfl hca) id
  | leadHit a =>
    by_cases hca : c = a
    · subst hca
      simp only [step] at hs
      split at hs <;> try (simp at hs)
      split at hs <;> simp at hs
      subst hs; simp [upd_same] at hrun
    · exact absurd (other a rfl hca) id
  | fnEnd a r =>
    by_cases hca : c = a
    · subst hca
      exfalso
      cases hp : s.pc c with
      | running => exact hnot hp
      | _ => simp [step, hp] at hs
    · exact absurd (other a rfl hca) id
  | cacheSet a =>
    by_cases hca : c = a
    · subst hca
      simp only [step] at hs
      split at hs <;> simp at hs <;> subst hs <;> simp [upd_same] at hrun
    · exact absurd (other a rfl hca) id
  | doFinish a =>
    by_cases hca : c = a
    · subst hca
      simp only [step] at hs; split at hs <;> simp at hs
      subst hs; simp [upd_same] at hrun
    · exact absurd (other a rfl hca) id
  | wake a =>
    by_cases hca : c = a
    · subst hca
      simp only [step] at hs
      split at hs <;> try (simp at hs)
      split at hs <;> simp at hs
      subst hs; simp [upd_same] at hrun
    · exact absurd (other a rfl hca) id

/-! ## the LTS with a single caller is the sequential model, and that satisfies the specification -/

/-- a call that finds a live value: the script `invoke; cacheCheck` ends the call exactly as `memoizeSeq` says -/
theorem lts_seq_hit (s : State) (c : Nat) (lat : Int) (r : Res) (v : Int) (hpc : s.pc c = .idle)
    (hv : cellGet s.now (s.cache (cfg.key c)) = some v) :
    ∃ s', run cfg s [.invoke c, .cacheCheck c] = some s' ∧
      let m := memoizeSeq cfg.expTime s.now lat (s.cache (cfg.key c)) r
      s'.pc c = .done m.res ∧ s'.cache (cfg.key c) = m.cell ∧ s'.now = m.now ∧ m.ran = false ∧
      s'.started c = s.started c := by
  simp [run, step, hpc, hv, memoizeSeq]

/-- a call that finds nothing live, with nobody else in flight for its key: the full script ends the
call exactly as `memoizeSeq` says -/
theorem lts_seq_miss (s : State) (c : Nat) (lat : Nat) (r : Res) (hpc : s.pc c = .idle)
    (hf : s.flight (cfg.key c) = none)
    (hv : cellGet s.now (s.cache (cfg.key c)) = none) :
    ∃ s', run cfg s (seqScript c lat r) = some s' ∧
      let m := memoizeSeq cfg.expTime s.now lat (s.cache (cfg.key c)) r
      s'.pc c = .done m.res ∧ s'.cache (cfg.key c) = m.cell ∧ s'.now = m.now ∧ m.ran = true ∧
      s'.started c = true ∧ s'.flight (cfg.key c) = none := by
  cases r with
  | ok v => simp [run, step, seqScript, hpc, hv, hf, memoizeSeq]
  | err => simp [run, step, seqScript, hpc, hv, hf, memoizeSeq]

/-- the model's cache cell seen as the specification's entry -/
def absCell : Cell → Spec.C17.Entry
  | none => none
  | some (v, exp) => some (v, if exp > 0 then some exp else none)

theorem live_abs (now : Int) (c : Cell) : Spec.C17.live now (absCell c) = cellGet now c := by
  cases c with
  | none => rfl
  | some p =>
    obtain ⟨v, e⟩ := p
    simp only [absCell, cellGet]
    by_cases he : e > 0
    · simp only [he, if_true, Spec.C17.live]
      by_cases h2 : now > e
      · have : ¬ now ≤ e := by omega
        simp [h2, this]
      · have : now ≤ e := by omega
        simp [h2, this]
    · simp [he, Spec.C17.live]

theorem offer_abs (expTime now : Int) (c : Cell) (v : Int) (h0 : 0 ≤ now) :
    Spec.C17.offer expTime now (absCell c) v = absCell (cellSet expTime now c v) := by
  unfold Spec.C17.offer
  rw [live_abs]
  cases c with
  | none =>
    simp only [cellGet, cellSet, absCell, defaultExp]
    by_cases he : expTime > 0
    · have : now + expTime > 0 := by omega
      simp [he, this]
    · by_cases h2 : expTime < 0 <;> simp [he, h2]
  | some p =>
    obtain ⟨w, e⟩ := p
    simp only [cellGet, cellSet]
    by_cases he : e > 0
    · by_cases h2 : now > e
      · have h3 : ¬ e ≤ 0 := by omega
        have h4 : ¬ now ≤ e := by omega
        simp only [he, h2, if_true, h3, h4, decide_false, Bool.or_self, Bool.false_eq_true, if_false,
          absCell, defaultExp]
        by_cases h5 : expTime > 0
        · have : now + expTime > 0 := by omega
          simp [h5, this]
        · by_cases h6 : expTime < 0 <;> simp [h5, h6]
      · have h4 : now ≤ e := by omega
        simp [he, h2, h4]
    · have h3 : e ≤ 0 := by omega
      simp [he, h3]

/-- what the harness prints for a result -/
def outOf : Res → Int × Int
  | .ok v => (0, v)
  | .err => (1, 0)

/-- for every instant, latency, cache cell and function result, the sequential model of `Memoize`
answers exactly what the specification demands: a live value is served without running the function;
otherwise the function runs once, its result is returned, a success is cached (with the default
expiration, from the instant the function returns), an error is not -/
theorem memoizeSeq_meets_spec (expTime now lat : Int) (cell : Cell) (r : Res) (h0 : 0 ≤ now) (hl : 0 ≤ lat)
    (m : SeqOut) (hm : m = memoizeSeq expTime now lat cell r) :
    Spec.C17.seqCall expTime now lat (absCell cell) (outOf r).1 (outOf r).2 =
      (((outOf m.res).1, (outOf m.res).2, (if m.ran then 1 else 0), m.now - now), absCell m.cell) := by
  unfold Spec.C17.seqCall
  rw [live_abs]
  unfold memoizeSeq at hm
  cases hg : cellGet now cell with
  | some v =>
    simp only [hg] at hm ⊢
    subst hm
    simp [outOf]
  | none =>
    cases r with
    | ok v =>
      simp only [hg] at hm ⊢
      subst hm
      simp only [outOf]
      rw [offer_abs _ _ _ _ (by omega)]
      simp
      omega
    | err =>
      simp only [hg] at hm ⊢
      subst hm
      simp [outOf]
      omega

/-! ## non-vacuity: concrete runs of the LTS -/

/-- all callers use key 0 -/
def exCfg (e : Int) : Cfg := { expTime := e, key := fun _ => 0 }
def exInit : State := init (fun _ => none) 0

/-- two callers of key 0, the second joins the first's execution and both return its value 7; a third
caller, invoked 5 ms after the value was cached, is served from the cache and runs nothing -/
def exScript : List Label := [.invoke 1, .cacheCheck 1, .doEnter 1, .fnStart 1, .invoke 2, .cacheCheck 2,
  .doEnter 2, .tick 40, .fnEnd 1 (.ok 7), .cacheSet 1, .doFinish 1, .wake 2, .tick 5, .invoke 3, .cacheCheck 3]

example : (run (exCfg 30) exInit exScript).map (fun s => (s.pc 1, s.pc 2, s.pc 3)) =
    some (.done (.ok 7), .done (.ok 7), .done (.ok 7)) := by decide
example : (run (exCfg 30) exInit exScript).map (fun s => (s.src 2, s.src 3)) =
    some (some (.exec 1), some (.hit 7)) := by decide
example : (run (exCfg 30) exInit exScript).map (fun s => (s.inflight 0, s.cache 0, s.started 3)) =
    some (0, some (7, 70), false) := by decide

/-- a second `fnStart` for the same key is not enabled while the first is running -/
example :
    (run (exCfg 30) exInit [.invoke 1, .cacheCheck 1, .doEnter 1, .fnStart 1, .invoke 2,
      .cacheCheck 2, .doEnter 2, .fnStart 2]).isNone = true := by
  decide

/-- an error is returned to leader and joiner and leaves the cache empty -/
example :
    (run (exCfg (-1)) exInit [.invoke 1, .cacheCheck 1, .doEnter 1, .fnStart 1, .invoke 2, .cacheCheck 2,
      .doEnter 2, .fnEnd 1 .err, .cacheSet 1, .doFinish 1, .wake 2]).map
      (fun s => (s.pc 1, s.pc 2, s.cache 0)) = some (.done .err, .done .err, none) := by
  decide

/-- the late leader: caller 2 misses the cache before caller 1 has stored its value and enters `Do` after
caller 1 has left.  Its re-check as leader finds caller 1's value: it does NOT run the function (`fnStart 2`
is not enabled), it returns the cached value — and so does caller 3, which had missed too and joined
caller 2's flight -/
def exLateLeader : List Label := [.invoke 1, .invoke 2, .invoke 3, .cacheCheck 1, .cacheCheck 2, .cacheCheck 3,
  .doEnter 1, .fnStart 1, .fnEnd 1 (.ok 7), .cacheSet 1, .doFinish 1, .doEnter 2, .doEnter 3]

example :
    (run (exCfg (-1)) exInit (exLateLeader ++ [.leadHit 2, .doFinish 2, .wake 3])).map
      (fun s => (s.pc 1, s.pc 2, s.pc 3, s.cache 0)) =
    some (.done (.ok 7), .done (.ok 7), .done (.ok 7), some (7, -1)) := by
  decide
example :
    (run (exCfg (-1)) exInit (exLateLeader ++ [.leadHit 2, .doFinish 2, .wake 3])).map
      (fun s => (s.src 2, s.src 3, s.started 2, s.started 3, s.inflight 0)) =
    some (some (.lhit 2 7), some (.lhit 2 7), false, false, 0) := by
  decide
example : (run (exCfg (-1)) exInit (exLateLeader ++ [.fnStart 2])).isNone = true := by decide

/-- the OLD protocol (no re-check by the leader: `fnStart` is enabled whatever the cache holds), for the
negative witness below -/
def stepOld (cfg : Cfg) (s : State) : Label → Option State
  | .leadHit _ => none
  | .fnStart c =>
    match s.pc c with
    | .leader => some { s with pc := upd s.pc c .running, started := upd s.started c true,
                               inflight := upd s.inflight (cfg.key c) (s.inflight (cfg.key c) + 1) }
    | _ => none
  | l => step cfg s l

def runOld (cfg : Cfg) (s : State) : List Label → Option State
  | [] => some s
  | l :: ls => match stepOld cfg s l with
    | some s' => runOld cfg s' ls
    | none => none

/-- negative witness: in the old protocol the same late leader starts the function although a live value
is cached for its key (and goes on to return its own value 8, not the cached 7) -/
example :
    (runOld (exCfg (-1)) exInit exLateLeader).map
      (fun s => (cellGet s.now (s.cache 0), (stepOld (exCfg (-1)) s (.fnStart 2)).map (fun s' => (s'.pc 2, s'.started 2)))) =
    some (some 7, some (.running, true)) := by
  decide
example :
    (runOld (exCfg (-1)) exInit (exLateLeader ++ [.fnStart 2, .fnEnd 2 (.ok 8), .cacheSet 2, .doFinish 2, .wake 3])).map
      (fun s => (s.pc 1, s.pc 2, s.pc 3, s.cache 0)) =
    some (.done (.ok 7), .done (.ok 8), .done (.ok 8), some (7, -1)) := by
  decide

example : memoizeSeq 30 100 5 (some (7, 90)) (.ok 8) =
    { cell := some (8, 135), res := .ok 8, ran := true, now := 105 } := by decide
example : memoizeSeq 30 90 5 (some (7, 90)) (.ok 8) =
    { cell := some (7, 90), res := .ok 7, ran := false, now := 90 } := by decide


/-! ## the property on the event log of a run

`ReachableLog cfg (init c0 now0) s g`: `g` is the event log of some run of the LTS that ends in `s`
(`Model/C17.lean`, "the event log of a run"): every step gets the next sequence number, so `x < y` between
log entries means "really happened before".  `invAt c` / `retAt c` stamp caller `c`'s invocation and
return, `startAt l` / `endAt l` the start and end of the execution of `l`'s function.  The theorems hold
for every run: any number of callers and keys, any interleaving, any passage of time. -/

variable {s : State} {g : EvLog}

/-- **(1)** executions of one key never overlap: of two executions for the same key, one has ended
before the other starts (their `[startAt, endAt]` intervals are disjoint; an execution still in
progress has no later rival) -/
theorem log_executions_disjoint (h : ReachableLog cfg (init c0 now0) s g) (c c' a a' : Nat)
    (hne : c ≠ c') (hk : cfg.key c = cfg.key c') (hs : g.startAt c = some a) (hs' : g.startAt c' = some a') :
    (∃ b, g.endAt c = some b ∧ b < a') ∨ (∃ b', g.endAt c' = some b' ∧ b' < a) := by
  have hi := (sinv_reachable h).2
  rcases Nat.le_total a a' with hle | hle
  · exact Or.inl (hi.dis c c' a a' hne hk hs hs' hle)
  · exact Or.inr (hi.dis c' c a' a (Ne.symm hne) hk.symm hs' hs hle)

/-- an execution ends after it started, after its caller was invoked; only a caller whose source is
its own execution has one -/
theorem log_execution_wellformed (h : ReachableLog cfg (init c0 now0) s g) (l b : Nat)
    (he : g.endAt l = some b) :
    ∃ i a, g.invAt l = some i ∧ g.startAt l = some a ∧ i < a ∧ a < b ∧ s.src l = some (.exec l) ∧
      ∃ r, s.execRes l = some r := by
  obtain ⟨hi, hs⟩ := sinv_reachable h
  have h1 := hi.loc l
  have h2 := hs.loc l
  unfold Local at h1
  unfold SLocal at h2
  cases hp : s.pc l with
  | idle => simp only [hp] at h2; rw [h2.2.2.2] at he; cases he
  | start => simp only [hp] at h2; rw [h2.2.2.2] at he; cases he
  | missed => simp only [hp] at h2; rw [h2.2.2.2] at he; cases he
  | leader => simp only [hp] at h2; rw [h2.2.2.2] at he; cases he
  | waiting x => simp only [hp] at h2; rw [h2.2.2.2] at he; cases he
  | running => simp only [hp] at h2; rw [h2.2.2] at he; cases he
  | ran x =>
    simp only [hp] at h1 h2
    obtain ⟨⟨i, a, b', g1, g2, g3, g4, g5⟩, _⟩ := h2
    rw [g3] at he; cases he
    exact ⟨i, a, g1, g2, g4, g5, h1.1, x, h1.2.2.1⟩
  | setDone x =>
    simp only [hp] at h1 h2
    rcases h1 with h1 | ⟨v, _, h3, _⟩
    · simp only [h1.1] at h2
      obtain ⟨⟨i, a, b', g1, g2, g3, g4, g5⟩, _⟩ := h2
      rw [g3] at he; cases he
      exact ⟨i, a, g1, g2, g4, g5, h1.1, x, h1.2.2.1⟩
    · simp only [h3] at h2; rw [h2.1.2.2] at he; cases he
  | done x =>
    simp only [hp] at h1 h2
    rcases h1 with ⟨v, _, h3, _⟩ | ⟨h3, _, h4, _⟩ | ⟨y, h3, _, hry, _, _, hrl, _⟩ | ⟨v, _, h3, _⟩ | ⟨y, v, _, h3, _⟩
    · simp only [h3] at h2; rw [h2.2.2] at he; cases he
    · simp only [h3] at h2
      rcases h2 with ⟨_, i, a, b', t, g1, g2, g3, _, g5, g6, _⟩ | ⟨hne, _⟩
      · rw [g3] at he; cases he
        exact ⟨i, a, g1, g2, g5, g6, h3, x, h4⟩
      · exact absurd rfl hne
    · simp only [h3] at h2
      rcases h2 with ⟨hy, _⟩ | ⟨_, _, g2, _⟩
      · subst hy; rw [hrl] at hry; cases hry
      · rw [g2] at he; cases he
    · simp only [h3] at h2; rw [h2.2.2] at he; cases he
    · simp only [h3] at h2; rw [h2.2.2] at he; cases he

/-- **(2)** every caller that has returned `r` was invoked before it returned, and `r` is either
* the cached value its `cacheCheck` read (and then the caller has no execution of its own), or
* the result of an execution `l` of the same key, where the execution started and ended before the
  caller returned (`a < b < t`) and the caller was invoked before the execution's own caller `l`
  returned (`i < tl ≤ t`).
So the execution *overlapped or preceded* the call in exactly this sense: it never starts after the
caller has returned, and the call never starts after the execution's result has been handed back to
its own caller.  It is NOT always true that the execution ended after the caller was invoked: a caller
invoked between `fnEnd` and `doFinish` of the leader still joins (see the `example` below).
* NEW with the leader's re-check (statement extended by this alternative): the cached value the leader `l`
  of the caller's flight (a caller of the same key, possibly the caller itself) read at its re-check inside
  `Do`; then neither the caller nor `l` has an execution in the log, and a joiner was invoked before `l`
  returned and returned after it (`i < tl < t`).  Where that value comes from: `log_leadhit_value_live`. -/
theorem log_result_has_source (h : ReachableLog cfg (init c0 now0) s g) (c : Nat) (r : Res)
    (hd : s.pc c = .done r) :
    ∃ i t, g.invAt c = some i ∧ g.retAt c = some t ∧ i < t ∧
      ((∃ v, r = .ok v ∧ s.src c = some (.hit v) ∧ g.startAt c = none) ∨
       (∃ l a b tl, s.src c = some (.exec l) ∧ cfg.key l = cfg.key c ∧ s.execRes l = some r ∧
          g.startAt l = some a ∧ g.endAt l = some b ∧ g.retAt l = some tl ∧
          a < b ∧ b < t ∧ i < tl ∧ tl ≤ t) ∨
       (∃ l v, r = .ok v ∧ s.src c = some (.lhit l v) ∧ cfg.key l = cfg.key c ∧ s.src l = some (.lhit l v) ∧
          g.startAt c = none ∧ g.startAt l = none ∧ (l = c ∨ ∃ tl, g.retAt l = some tl ∧ i < tl ∧ tl < t))) := by
  obtain ⟨hi, hs⟩ := sinv_reachable h
  have h1 := hi.loc c
  have h2 := hs.loc c
  simp only [Local, hd] at h1
  simp only [SLocal, hd] at h2
  rcases h1 with ⟨v, g1, g2, _⟩ | ⟨g1, _, g3, _⟩ | ⟨l, g1, g2, g3, _, _, g6, g7⟩ | ⟨v, g1, g2, _⟩ |
    ⟨l, v, g1, g2, g3, g4, _, _, _, g8⟩
  · simp only [g2] at h2
    obtain ⟨⟨i, t, k1, k2, k3⟩, k4, _⟩ := h2
    exact ⟨i, t, k1, k2, k3, Or.inl ⟨v, g1, g2, k4⟩⟩
  · simp only [g1] at h2
    rcases h2 with ⟨_, i, a, b, t, k1, k2, k3, k4, k5, k6, k7⟩ | ⟨hne, _⟩
    · exact ⟨i, t, k1, k4, by omega,
        Or.inr (Or.inl ⟨c, a, b, t, g1, rfl, g3, k2, k3, k4, k6, k7, by omega, Nat.le_refl t⟩)⟩
    · exact absurd rfl hne
  · simp only [g1] at h2
    have hex := (published (hi.loc l) g3 g7).1
    rcases h2 with ⟨hl, _⟩ | ⟨_, _, _, i, t, a, b, tl, k1, k2, k3, k4, k5, k6, k7, k8, k9⟩
    · subst hl; rw [g6] at g3; cases g3
    · exact ⟨i, t, k1, k2, by omega,
        Or.inr (Or.inl ⟨l, a, b, tl, g1, g2, hex, k3, k4, k5, k6, by omega, k9, by omega⟩)⟩
  · simp only [g2] at h2
    obtain ⟨⟨i, t, k1, k2, k3, _⟩, k4, _⟩ := h2
    exact ⟨i, t, k1, k2, k3, Or.inr (Or.inr ⟨c, v, g1, g2, rfl, g2, k4, k4, Or.inl rfl⟩)⟩
  · simp only [g2] at h2
    obtain ⟨⟨i, t, k1, k2, k3, k5⟩, k4, _⟩ := h2
    -- the leader has no execution either
    have hpl := (published_cases (hi.loc l) g4).1
    have h2l := hs.loc l
    simp only [SLocal, hpl, g8] at h2l
    exact ⟨i, t, k1, k2, k3, Or.inr (Or.inr ⟨l, v, g1, g2, g3, g8, k4, h2l.2.1, k5⟩)⟩

/-- **(3)** callers that joined the same execution (leader included) got equal results -/
theorem log_joiners_equal (h : ReachableLog cfg (init c0 now0) s g) (c c' l : Nat) (r r' : Res)
    (hs : s.src c = some (.exec l)) (hs' : s.src c' = some (.exec l))
    (hd : s.pc c = .done r) (hd' : s.pc c' = .done r') : r = r' :=
  joiners_equal (reachableLog_reachable h) c c' l r r' hs hs' hd hd'

/-- **(4)** a caller whose `cacheCheck` found a live value (its source is that hit — `hit_reads_cache`
— and stays so — `src_hit_stable`) has returned that value and the log of every later moment contains
no execution of its function: it caused no `fnStart` -/
theorem log_hit_causes_no_start (h : ReachableLog cfg (init c0 now0) s g) (c : Nat) (v : Int)
    (hs : s.src c = some (.hit v)) :
    s.pc c = .done (.ok v) ∧ g.startAt c = none ∧ g.endAt c = none := by
  obtain ⟨hi, hsi⟩ := sinv_reachable h
  have hp := (hit_local (hi.loc c) hs).1
  have h2 := hsi.loc c
  simp only [SLocal, hp, hs] at h2
  exact ⟨hp, h2.2.1, h2.2.2⟩

/-- conversely, an execution in the log belongs to a caller that missed the cache and became the
leader of its key's call -/
theorem log_start_only_by_leader (h : ReachableLog cfg (init c0 now0) s g) (c a : Nat)
    (hs : g.startAt c = some a) : s.src c = some (.exec c) ∧ ∃ i, g.invAt c = some i ∧ i < a := by
  obtain ⟨hi, hsi⟩ := sinv_reachable h
  have h1 := hi.loc c
  have h2 := hsi.loc c
  unfold Local at h1
  unfold SLocal at h2
  cases hp : s.pc c with
  | idle => simp only [hp] at h2; rw [h2.2.2.1] at hs; cases hs
  | start => simp only [hp] at h2; rw [h2.2.2.1] at hs; cases hs
  | missed => simp only [hp] at h2; rw [h2.2.2.1] at hs; cases hs
  | leader => simp only [hp] at h2; rw [h2.2.2.1] at hs; cases hs
  | waiting x => simp only [hp] at h2; rw [h2.2.2.1] at hs; cases hs
  | running =>
    simp only [hp] at h1 h2
    obtain ⟨⟨i, a', g1, g2, g3⟩, _⟩ := h2
    rw [g2] at hs; cases hs
    exact ⟨h1.1, i, g1, g3⟩
  | ran x =>
    simp only [hp] at h1 h2
    obtain ⟨⟨i, a', b, g1, g2, _, g4, _⟩, _⟩ := h2
    rw [g2] at hs; cases hs
    exact ⟨h1.1, i, g1, g4⟩
  | setDone x =>
    simp only [hp] at h1 h2
    rcases h1 with h1 | ⟨v, _, h3, _⟩
    · simp only [h1.1] at h2
      obtain ⟨⟨i, a', b, g1, g2, _, g4, _⟩, _⟩ := h2
      rw [g2] at hs; cases hs
      exact ⟨h1.1, i, g1, g4⟩
    · simp only [h3] at h2; rw [h2.1.2.1] at hs; cases hs
  | done x =>
    simp only [hp] at h1 h2
    rcases h1 with ⟨v, _, h3, _⟩ | ⟨h3, _⟩ | ⟨y, h3, _, hry, _, _, hrl, _⟩ | ⟨v, _, h3, _⟩ | ⟨y, v, _, h3, _⟩
    · simp only [h3] at h2; rw [h2.2.1] at hs; cases hs
    · simp only [h3] at h2
      rcases h2 with ⟨_, i, a', b, t, g1, g2, _, _, g5, _⟩ | ⟨hne, _⟩
      · rw [g2] at hs; cases hs
        exact ⟨h3, i, g1, g5⟩
      · exact absurd rfl hne
    · simp only [h3] at h2
      rcases h2 with ⟨hy, _⟩ | ⟨_, g2, _⟩
      · subst hy; rw [hrl] at hry; cases hry
      · rw [g2] at hs; cases hs
    · simp only [h3] at h2; rw [h2.2.1] at hs; cases hs
    · simp only [h3] at h2; rw [h2.2.1] at hs; cases hs

/-- **(5)** after a history in which every execution for `k` that has ended returned an error (and
nothing was cached for `k` beforehand), the cache holds no entry for `k` -/
theorem log_error_only_history (h : ReachableLog cfg (init c0 now0) s g) (k : Nat) (h0 : c0 k = none)
    (herr : ∀ l b, cfg.key l = k → g.endAt l = some b → s.execRes l = some .err) : s.cache k = none := by
  refine error_only_history_leaves_cache_empty (reachableLog_reachable h) k h0 ?_
  intro l v hl hr
  obtain ⟨b, hb⟩ := execRes_logged (sinv_reachable h).1 (sinv_reachable h).2 hr
  have := herr l b hl hb
  rw [this] at hr
  cases hr

/-- the log of a script: `runLog` produces reachable (state, log) pairs -/
theorem runLog_reachable (s0 : State) (ls : List Label) (s1 s2 : State) (g1 g2 : EvLog)
    (h : ReachableLog cfg s0 s1 g1) (hr : runLog cfg s1 g1 ls = some (s2, g2)) :
    ReachableLog cfg s0 s2 g2 := by
  induction ls generalizing s1 g1 with
  | nil => simp only [runLog, Option.some.injEq, Prod.mk.injEq] at hr; rw [← hr.1, ← hr.2]; exact h
  | cons l ls ih =>
    simp only [runLog] at hr
    split at hr
    · rename_i s' hs'
      exact ih s' _ (ReachableLog.step l h hs') hr
    · cases hr

/-- "ended after the caller was invoked" is not a theorem: caller 2 is invoked (event 5) after caller
1's function has ended (event 4) and still receives that execution's result through the flight -/
def exLateJoin : List Label := [.invoke 1, .cacheCheck 1, .doEnter 1, .fnStart 1, .fnEnd 1 (.ok 7),
  .invoke 2, .cacheCheck 2, .doEnter 2, .cacheSet 1, .doFinish 1, .wake 2]

example : (runLog (exCfg (-1)) exInit EvLog.empty exLateJoin).map (fun p => (p.1.pc 2, p.1.src 2)) =
    some (.done (.ok 7), some (.exec 1)) := by decide
example : (runLog (exCfg (-1)) exInit EvLog.empty exLateJoin).map
    (fun p => (p.2.endAt 1, p.2.invAt 2, p.2.retAt 1, p.2.retAt 2)) = some (some 4, some 5, some 9, some 10) := by
  decide


/-! ## from the LTS's event log to the monitor's log: every run satisfies the monitor's clauses

`specExecs` / `specCalls` render the event log of a run, restricted to a finite list `ids` of callers,
in the very format the decidable monitor `Spec.C17.check` evaluates (`Spec.C17.Exec`, `Spec.C17.Call`:
sequence numbers, instants, outcome, value, source index).  The theorems below say that the monitor's
clauses evaluate to `true` on the log of EVERY run of the LTS. -/

def resOut : Res → Int
  | .ok _ => 0
  | .err => 1

def resVal : Res → Int
  | .ok v => v
  | .err => 0

/-- the completed execution of `l`'s function as the monitor sees it -/
def specExec (cfg : Cfg) (s : State) (g : EvLog) (l : Nat) : Option Spec.C17.Exec :=
  match g.startAt l, g.endAt l, s.execRes l, g.startT l, g.endT l with
  | some a, some b, some r, some ta, some tb =>
    some { key := cfg.key l, startSeq := a, startT := ta, endSeq := b, endT := tb, leader := l,
           out := resOut r, val := resVal r }
  | _, _, _, _, _ => none

def specExecs (cfg : Cfg) (s : State) (g : EvLog) (ids : List Nat) : List Spec.C17.Exec :=
  ids.filterMap (specExec cfg s g)

theorem specExec_some {l : Nat} {e : Spec.C17.Exec} (h : specExec cfg s g l = some e) :
    ∃ a b r, g.startAt l = some a ∧ g.endAt l = some b ∧ s.execRes l = some r ∧
      e.key = cfg.key l ∧ e.startSeq = a ∧ e.endSeq = b ∧ e.leader = l ∧ e.out = resOut r ∧ e.val = resVal r ∧
      g.startT l = some e.startT ∧ g.endT l = some e.endT := by
  unfold specExec at h
  split at h
  · rename_i a b r ta tb h1 h2 h3 h4 h5
    simp only [Option.some.injEq] at h
    subst h
    exact ⟨a, b, r, h1, h2, h3, rfl, rfl, rfl, rfl, rfl, rfl, h4, h5⟩
  · cases h

theorem exclusive_of_pairwise (es : List Spec.C17.Exec)
    (h : es.Pairwise (fun e f => f.key ≠ e.key ∨ Spec.C17.disjoint e f = true)) :
    Spec.C17.exclusive es = true := by
  induction es with
  | nil => rfl
  | cons e r ih =>
    rw [List.pairwise_cons] at h
    simp only [Spec.C17.exclusive, Bool.and_eq_true, List.all_eq_true, Bool.or_eq_true, bne_iff_ne]
    exact ⟨fun f hf => h.1 f hf, ih h.2⟩

/-- **monitor clause `one-execution-per-key-at-a-time` (interval part)**: on the log of every run, for
every duplicate-free list of callers, `Spec.C17.exclusive` holds of the rendered executions -/
theorem monitor_exclusive (h : ReachableLog cfg (init c0 now0) s g) (ids : List Nat) (hn : ids.Nodup) :
    Spec.C17.exclusive (specExecs cfg s g ids) = true := by
  apply exclusive_of_pairwise
  unfold specExecs
  refine List.Pairwise.filterMap (R := fun a b => a ≠ b) _ ?_ hn
  intro l l' hne e he e' he'
  obtain ⟨a, b, r, h1, h2, _, k1, k2, k3, _⟩ := specExec_some he
  obtain ⟨a', b', r', h1', h2', _, k1', k2', k3', _⟩ := specExec_some he'
  by_cases hk : cfg.key l = cfg.key l'
  · right
    simp only [Spec.C17.disjoint, Bool.or_eq_true, decide_eq_true_eq, k2, k3, k2', k3']
    rcases log_executions_disjoint h l l' a a' hne hk h1 h1' with ⟨x, hx, hlt⟩ | ⟨x, hx, hlt⟩
    · rw [h2] at hx; cases hx; left; omega
    · rw [h2'] at hx; cases hx; right; omega
  · left
    rw [k1, k1']
    intro hc
    exact hk (by omega)

/-- **monitor clause `one-execution-per-key-at-a-time` (counter part)**: the maximum of the in-flight
counter of every key is at most 1 at every moment of every run -/
theorem monitor_maxIn (h : ReachableLog cfg (init c0 now0) s g) (keys : List Nat) :
    (keys.map (fun k => (s.inflight k : Int))).all (· ≤ 1) = true := by
  simp only [List.all_eq_true, List.mem_map, decide_eq_true_eq]
  rintro x ⟨k, _, rfl⟩
  have := one_execution_per_key (reachableLog_reachable h) k
  omega


/-- the monitor's source index: position of the execution led by `l` among the rendered executions -/
def srcIndex (execs : List Spec.C17.Exec) : Option Src → Int
  | some (.exec l) =>
    match execs.findIdx? (fun e => e.leader == (l : Int)) with
    | some i => (i : Int)
    | none => -1
  | _ => -1

/-- a returned call as the monitor sees it -/
def specCall (cfg : Cfg) (s : State) (g : EvLog) (execs : List Spec.C17.Exec) (c : Nat) : Option Spec.C17.Call :=
  match s.pc c, g.invAt c, g.retAt c, g.invT c, g.retT c with
  | .done r, some i, some t, some ti, some tt =>
    some { id := c, key := cfg.key c, invSeq := i, invT := ti, retSeq := t, retT := tt,
           out := resOut r, val := resVal r, src := srcIndex execs (s.src c) }
  | _, _, _, _, _ => none

/-- the callers `ids` rendered against the executions of the callers `L` (for the source indices) -/
def specCallsOn (cfg : Cfg) (s : State) (g : EvLog) (L ids : List Nat) : List Spec.C17.Call :=
  ids.filterMap (specCall cfg s g (specExecs cfg s g L))

def specCalls (cfg : Cfg) (s : State) (g : EvLog) (ids : List Nat) : List Spec.C17.Call :=
  specCallsOn cfg s g ids ids

theorem specCall_some {execs : List Spec.C17.Exec} {c : Nat} {x : Spec.C17.Call}
    (h : specCall cfg s g execs c = some x) :
    ∃ r i t, s.pc c = .done r ∧ g.invAt c = some i ∧ g.retAt c = some t ∧ x.id = c ∧ x.key = cfg.key c ∧
      x.invSeq = i ∧ x.retSeq = t ∧ x.out = resOut r ∧ x.val = resVal r ∧ x.src = srcIndex execs (s.src c) ∧
      g.invT c = some x.invT ∧ g.retT c = some x.retT := by
  unfold specCall at h
  split at h
  · rename_i r i t ti tt h1 h2 h3 h4 h5
    simp only [Option.some.injEq] at h
    subst h
    exact ⟨r, i, t, h1, h2, h3, rfl, rfl, rfl, rfl, rfl, rfl, rfl, h4, h5⟩
  · cases h

theorem result_render (r : Res) (e : Spec.C17.Exec) (ho : e.out = resOut r) (hv : e.val = resVal r) :
    ((resOut r, resVal r) == e.result) = true := by
  cases r with
  | ok v => simp [Spec.C17.Exec.result, ho, hv, resOut, resVal]
  | err => simp [Spec.C17.Exec.result, ho, resOut, resVal]

theorem srcIndex_exec (execs : List Spec.C17.Exec) (l : Nat) :
    srcIndex execs (some (.exec l)) = -1 ∨
    ∃ (j : Nat) (e : Spec.C17.Exec), srcIndex execs (some (.exec l)) = (j : Int) ∧ execs[j]? = some e ∧
      e.leader = (l : Int) := by
  simp only [srcIndex]
  split
  · rename_i j hf
    right
    have hj := List.of_findIdx?_eq_some hf
    cases he : execs[j]? with
    | none => rw [he] at hj; cases hj
    | some e =>
      rw [he] at hj
      simp only [beq_iff_eq] at hj
      exact ⟨j, e, rfl, he, hj⟩
  · left; rfl

/-- **monitor clause `joiners-get-the-executions-result`**: on the log of every run, every returned
caller whose source index points at an execution has that execution's key, outcome and value -/
theorem monitor_srcConsistent (h : ReachableLog cfg (init c0 now0) s g) (L ids : List Nat) :
    (specCallsOn cfg s g L ids).all (Spec.C17.srcConsistent (specExecs cfg s g L)) = true := by
  simp only [List.all_eq_true]
  intro x hx
  simp only [specCallsOn, List.mem_filterMap] at hx
  obtain ⟨c, _, hc⟩ := hx
  obtain ⟨r, i, t, hd, _, _, _, hkey, _, _, hout, hval, hsrc, _, _⟩ := specCall_some hc
  unfold Spec.C17.srcConsistent
  rw [hsrc]
  cases hs : s.src c with
  | none => simp [srcIndex]
  | some y =>
    cases y with
    | hit v => simp [srcIndex]
    | lhit l v => simp [srcIndex]
    | exec l =>
      rcases srcIndex_exec (specExecs cfg s g L) l with h1 | ⟨j, e, h1, he, hj⟩
      · rw [h1]; simp
      · rw [h1]
        simp only [Bool.or_eq_true]
        right
        have hnn : ((j : Int) ≥ 0) := by omega
        simp only [hnn, if_true, Int.toNat_natCast, he]
        have hmem := List.mem_of_getElem? he
        simp only [specExecs, List.mem_filterMap] at hmem
        obtain ⟨l', _, hl'⟩ := hmem
        obtain ⟨a, b, r', _, _, hr', k1, _, _, k4, k5, k6⟩ := specExec_some hl'
        have hll : l' = l := by rw [k4] at hj; omega
        subst hll
        have hr := execution_result_returned (reachableLog_reachable h) c l' r hs hd
        rw [hr] at hr'; cases hr'
        have hk : cfg.key l' = cfg.key c := by
          rcases result_has_source (reachableLog_reachable h) c r hd with ⟨v, _, h2⟩ | ⟨l2, h1, h2, _⟩ |
            ⟨l2, v, _, h2, _⟩
          · rw [hs] at h2; cases h2
          · rw [hs] at h1; cases h1; exact h2
          · rw [hs] at h2; cases h2
        simp only [Bool.and_eq_true, beq_iff_eq]
        refine ⟨by rw [k1, hkey, hk], ?_⟩
        rw [hout, hval]
        exact eq_of_beq (result_render r e k5 k6.1)


/-- **monitor clause `result-is-value-or-error`** -/
theorem monitor_resultShape (L ids : List Nat) :
    (specCallsOn cfg s g L ids).all (fun c => c.out == 0 || c.out == 1) = true := by
  simp only [List.all_eq_true]
  intro x hx
  simp only [specCallsOn, List.mem_filterMap] at hx
  obtain ⟨c, _, hc⟩ := hx
  obtain ⟨r, _, _, _, _, _, _, _, _, _, hout, _⟩ := specCall_some hc
  cases r <;> simp [hout, resOut]

/-- every returned caller is rendered -/
theorem specCall_complete (h : ReachableLog cfg (init c0 now0) s g) (execs : List Spec.C17.Exec) (c : Nat) (r : Res)
    (hd : s.pc c = .done r) : ∃ x, specCall cfg s g execs c = some x := by
  obtain ⟨i, t, h1, h2, _⟩ := log_result_has_source h c r hd
  have tk := timok_reachable h
  have k1 := tk.inv c
  have k2 := tk.ret c
  rw [h1] at k1; rw [h2] at k2
  obtain ⟨ti, hti⟩ := Option.isSome_iff_exists.1 k1
  obtain ⟨tt, htt⟩ := Option.isSome_iff_exists.1 k2
  simp only [specCall, hd, h1, h2, hti, htt]
  exact ⟨_, rfl⟩

/-- the scenario's callers have all returned (or were never invoked) -/
def Quiescent (s : State) (ids : List Nat) : Prop := ∀ c ∈ ids, s.pc c = .idle ∨ ∃ r, s.pc c = .done r

theorem leaders_nodup (ids : List Nat) (hn : ids.Nodup) :
    ((specExecs cfg s g ids).map (·.leader)).Nodup := by
  unfold specExecs
  rw [List.Nodup, List.pairwise_map]
  refine List.Pairwise.filterMap (R := fun a b => a ≠ b) _ ?_ hn
  intro l l' hne e he e' he'
  obtain ⟨_, _, _, _, _, _, _, _, _, k, _⟩ := specExec_some he
  obtain ⟨_, _, _, _, _, _, _, _, _, k', _⟩ := specExec_some he'
  rw [k, k']
  intro hc
  exact hne (by omega)

/-- **monitor clause `execution-started-at-once-by-its-caller` (second half)**: no caller leads two
executions -/
theorem monitor_leadsAtMostOnce (ids : List Nat) (hn : ids.Nodup) :
    Spec.C17.leadsAtMostOnce (specExecs cfg s g ids) = true := by
  unfold Spec.C17.leadsAtMostOnce
  simp only [eraseDups_of_nodup _ (leaders_nodup (cfg := cfg) (s := s) (g := g) ids hn), beq_self_eq_true]

/-- **monitor clause `execution-started-at-once-by-its-caller` (first half)**, under the virtual clock
and once the scenario's callers have returned: every execution in the log belongs to a returned
caller of the same key, lies strictly inside that caller's call, and started at the very instant the
caller was invoked -/
theorem monitor_execOwned (h : ReachableLogP cfg (init c0 now0) s g) (L ids : List Nat)
    (hsub : ∀ l ∈ L, l ∈ ids) (hq : Quiescent s ids) :
    (specExecs cfg s g L).all (Spec.C17.execOwned (specCallsOn cfg s g L ids)) = true := by
  have h' := reachableLogP_reachableLog h
  simp only [List.all_eq_true]
  intro e he
  simp only [specExecs, List.mem_filterMap] at he
  obtain ⟨l, hl, hle⟩ := he
  obtain ⟨a, b, r, h1, h2, h3, k1, k2, k3, k4, _, _, k7, _⟩ := specExec_some hle
  obtain ⟨i, a', g1, g2, g3, g4, g5, _⟩ := log_execution_wellformed h' l b h2
  rw [h1] at g2; cases g2
  have hdone : ∃ r', s.pc l = .done r' := by
    rcases hq l (hsub l hl) with hp | hp
    · have := (sinv_reachable h').2.loc l
      simp only [SLocal, hp] at this
      rw [this.1] at g1; cases g1
    · exact hp
  obtain ⟨r', hd⟩ := hdone
  obtain ⟨x, hx⟩ := specCall_complete h' (specExecs cfg s g L) l r' hd
  obtain ⟨r'', i', t, hd', j1, j2, j3, j4, j5, j6, _, _, _, j10, _⟩ := specCall_some hx
  rw [g1] at j1; cases j1
  have hbt : b < t := by
    obtain ⟨i2, t2, m1, m2, _, m4⟩ := log_result_has_source h' l r' hd
    rw [j2] at m2; cases m2
    rcases m4 with ⟨v, _, m5, _⟩ | ⟨l2, a2, b2, tl, m5, _, _, _, m8, _, _, m10, _⟩ | ⟨l2, v, _, m5, _⟩
    · rw [g5] at m5; cases m5
    · rw [g5] at m5; cases m5
      rw [h2] at m8; cases m8
      exact m10
    · rw [g5] at m5; cases m5
  have htim : e.startT = x.invT := by
    have tl := (tinv_reachable h).loc l
    simp only [TLocal, hd, g5] at tl
    rcases tl with ⟨_, ti, te, n1, n2, _⟩ | ⟨hne, _⟩
    · have e1 : e.startT = ti := Option.some.inj (k7.symm.trans n2)
      have e2 : x.invT = ti := Option.some.inj (j10.symm.trans n1)
      rw [e1, e2]
    · exact absurd rfl hne
  simp only [Spec.C17.execOwned, List.any_eq_true]
  refine ⟨x, ?_, ?_⟩
  · simp only [specCallsOn, List.mem_filterMap]
    exact ⟨l, hsub l hl, hx⟩
  · simp only [Bool.and_eq_true, beq_iff_eq, decide_eq_true_eq]
    refine ⟨⟨⟨⟨by rw [j3, k4], by rw [j4, k1]⟩, by rw [j5, k2]; omega⟩, by rw [j6, k3]; omega⟩, htim⟩


/-- the rendered call of the caller that led an execution is what `leaderRet` finds -/
theorem leaderRet_of_done (h : ReachableLog cfg (init c0 now0) s g) (L ids : List Nat) (l : Nat) (hl : l ∈ ids)
    (r : Res) (tl : Nat) (hd : s.pc l = .done r) (hr : g.retAt l = some tl) (e : Spec.C17.Exec)
    (he : e.leader = (l : Int)) :
    Spec.C17.leaderRet (specCallsOn cfg s g L ids) e = some (tl : Int) := by
  obtain ⟨x, hx⟩ := specCall_complete h (specExecs cfg s g L) l r hd
  have hmem : x ∈ specCallsOn cfg s g L ids := by
    simp only [specCallsOn, List.mem_filterMap]; exact ⟨l, hl, hx⟩
  obtain ⟨_, _, t, _, _, j2, j3, _, _, j6, _⟩ := specCall_some hx
  rw [hr] at j2; cases j2
  unfold Spec.C17.leaderRet
  cases hf : (specCallsOn cfg s g L ids).find? (fun c => c.id == e.leader) with
  | none =>
    rw [List.find?_eq_none] at hf
    exact absurd (by simp [j3, he]) (hf x hmem)
  | some y =>
    have hy := List.find?_some hf
    have hym := List.mem_of_find?_eq_some hf
    simp only [beq_iff_eq] at hy
    simp only [specCallsOn, List.mem_filterMap] at hym
    obtain ⟨c', _, hc'⟩ := hym
    obtain ⟨_, _, _, _, _, _, i3, _⟩ := specCall_some hc'
    have : c' = l := by rw [i3, he] at hy; omega
    subst this
    rw [hx] at hc'; cases hc'
    simp [j6]

/-- **monitor clause `value/error has a source` for callers served by an execution**, under the
virtual clock: every returned caller whose result is an execution's very result object
(`src ≥ 0`) passes `Spec.C17.hasSource` — same key, same outcome and value, the execution started
before the caller returned, the caller was invoked before the execution's own caller returned, and
the caller returned at `max (its invocation instant) (the instant the execution ended)`.
(`exp`, `e0` — the cache part of the monitor — play no role for these callers.) -/
theorem monitor_hasSource_exec (h : ReachableLogP cfg (init c0 now0) s g) (L ids : List Nat)
    (hsub : ∀ l ∈ L, l ∈ ids)
    (exp : Int) (e0 : Int → Spec.C17.Entry) (x : Spec.C17.Call) (hx : x ∈ specCallsOn cfg s g L ids)
    (hsrc : x.src ≥ 0) :
    Spec.C17.hasSource exp e0 (specCallsOn cfg s g L ids) (specExecs cfg s g L) x = true := by
  have h' := reachableLogP_reachableLog h
  have hr := reachableLog_reachable h'
  simp only [specCallsOn, List.mem_filterMap] at hx
  obtain ⟨c, hcid, hc⟩ := hx
  obtain ⟨r, i, t, hd, j1, j2, _, jkey, jinv, jret, jout, jval, jsrc, jti, jtt⟩ := specCall_some hc
  -- the source is an execution
  cases hs : s.src c with
  | none => rw [jsrc, hs] at hsrc; simp [srcIndex] at hsrc
  | some y =>
  cases y with
  | hit v => rw [jsrc, hs] at hsrc; simp [srcIndex] at hsrc
  | lhit l v => rw [jsrc, hs] at hsrc; simp [srcIndex] at hsrc
  | exec l =>
  rw [hs] at jsrc
  rcases srcIndex_exec (specExecs cfg s g L) l with h1 | ⟨j, e, h1, he, hj⟩
  · rw [jsrc, h1] at hsrc; omega
  · rw [h1] at jsrc
    have hmem := List.mem_of_getElem? he
    simp only [specExecs, List.mem_filterMap] at hmem
    obtain ⟨l', hl'ids, hl'⟩ := hmem
    obtain ⟨a, b, r', q1, q2, q3, k1, k2, k3, k4, k5, k6, _, k8⟩ := specExec_some hl'
    have hll : l' = l := by rw [k4] at hj; omega
    subst hll
    have hres := execution_result_returned hr c l' r hs hd
    rw [hres] at q3; cases q3
    -- what the log says about c and l'
    obtain ⟨i2, t2, m1, m2, _, m4⟩ := log_result_has_source h' c r hd
    rw [j1] at m1; cases m1
    rw [j2] at m2; cases m2
    rcases m4 with ⟨v, _, m5, _⟩ | ⟨l2, a2, b2, tl, m5, mkey, _, m7, m8, m9, _, m11, m12, _⟩ | ⟨l2, v, _, m5, _⟩
    case inr.inr => rw [hs] at m5; cases m5
    · rw [hs] at m5; cases m5
    · rw [hs] at m5; cases m5
      rw [q1] at m7; cases m7
      rw [q2] at m8; cases m8
      -- the leader has returned
      have hld : ∃ rl, s.pc l' = .done rl := by
        have := (sinv_reachable h').2.loc l'
        cases hp : s.pc l' with
        | done rl => exact ⟨rl, rfl⟩
        | idle => simp only [SLocal, hp] at this; rw [this.2.1] at m9; cases m9
        | start => simp only [SLocal, hp] at this; rw [this.2.1] at m9; cases m9
        | missed => simp only [SLocal, hp] at this; rw [this.2.1] at m9; cases m9
        | leader => simp only [SLocal, hp] at this; rw [this.2.1] at m9; cases m9
        | waiting z => simp only [SLocal, hp] at this; rw [this.2.1] at m9; cases m9
        | running => simp only [SLocal, hp] at this; rw [this.2.1] at m9; cases m9
        | ran z => simp only [SLocal, hp] at this; rw [this.2] at m9; cases m9
        | setDone z => simp only [SLocal, hp] at this; rw [this.2] at m9; cases m9
      obtain ⟨rl, hld⟩ := hld
      have hlr := leaderRet_of_done h' L ids l' (hsub l' hl'ids) rl tl hld m9 e k4
      -- instants
      have htime : x.retT = max x.invT e.endT := by
        have tl' := (tinv_reachable h).loc c
        simp only [TLocal, hd, hs] at tl'
        rcases tl' with ⟨hlc, ti, te, n1, _, n3, n4, n5⟩ | ⟨_, ti, te, n1, n2, n3, n4⟩
        · subst hlc
          have e1 : x.invT = ti := Option.some.inj (jti.symm.trans n1)
          have e2 : e.endT = te := Option.some.inj (k8.symm.trans n3)
          have e3 : x.retT = te := Option.some.inj (jtt.symm.trans n4)
          rw [e1, e2, e3]; omega
        · have e1 : x.invT = ti := Option.some.inj (jti.symm.trans n1)
          have e2 : e.endT = te := Option.some.inj (k8.symm.trans n2)
          have e3 : x.retT = te := Option.some.inj (jtt.symm.trans n3)
          rw [e1, e2, e3]; omega
      have hjlt : j < (specExecs cfg s g L).length := by
        rcases List.getElem?_eq_some_iff.1 he with ⟨hlt, _⟩; exact hlt
      unfold Spec.C17.hasSource
      simp only [Bool.or_eq_true, List.any_eq_true]
      left
      refine ⟨j, List.mem_range.2 hjlt, ?_⟩
      simp only [he, Spec.C17.fromExec, hlr, Bool.and_eq_true, Bool.or_eq_true, beq_iff_eq, decide_eq_true_eq]
      refine ⟨⟨⟨⟨⟨?_, ?_⟩, Or.inl jsrc⟩, ?_⟩, ?_⟩, htime⟩
      · rw [k1, jkey, mkey]
      · rw [jout, jval]; exact eq_of_beq (result_render r e k5 k6)
      · rw [k2, jret]; omega
      · rw [jinv]; omega


/-! ## what is cached and what a hit reads (virtual clock) -/

/-- under the virtual clock, every entry in the cache is the entry from before the run or was left
by a successful execution for that very key, with the deadline `defaultExp expTime (the instant that
execution ended)`: "until it expires" counts from the end of the execution that produced the value -/
theorem log_cached_entry_origin (h : ReachableLogP cfg (init c0 now0) s g) (k : Nat) (v e : Int)
    (hc : s.cache k = some (v, e)) : CellOrigin cfg c0 s g k v e :=
  (cinv_reachable h).orig k v e hc

/-- **(2), cache side**: under the virtual clock, the value a cache hit returned is an entry for the
caller's own key that was live (`cellGet … = some v`) at the caller's invocation instant: the entry
from before the run, or the one left by a successful execution of that key that had ended before the
caller returned, with the deadline counted from that execution's end -/
theorem log_hit_value_live (h : ReachableLogP cfg (init c0 now0) s g) (c : Nat) (v : Int)
    (hs : s.src c = some (.hit v)) : HitSource cfg c0 s g c v :=
  (cinv_reachable h).hit c v hs

/-- **(2), cache side, for the leader's re-check**: under the virtual clock, the value a returned caller
was served because the leader `l` of its flight (possibly the caller itself) read it from the cache at
its re-check inside `Do` is, exactly as for a hit of the caller's own `cacheCheck`, an entry for the
caller's own key that was live at the caller's invocation instant: the entry from before the run, or the
one left by a successful execution of that key that had ended before the caller returned -/
theorem log_leadhit_value_live (h : ReachableLogP cfg (init c0 now0) s g) (c l : Nat) (v : Int)
    (hs : s.src c = some (.lhit l v)) (r : Res) (hd : s.pc c = .done r) : HitSource cfg c0 s g c v := by
  obtain ⟨i, t, _, ht, _⟩ := log_result_has_source (reachableLogP_reachableLog h) c r hd
  exact ((cinv_reachable h).lhit c l v hs).hitSource ht


/-! ## the cache-history bridge: the remaining monitor clauses on the rendered log

`ReachableH cfg (init c0 now0) s g h`: a run under the virtual clock with both logs (`Model/C17.lean`).
The executions are rendered in start order (`h.order`), as the harness prints them; the callers are
any list `ids` that contains every caller whose function ran and all of which have returned (or were
never invoked).  Helper lemmas first. -/

variable {h : HLog}

theorem specExec_complete (hl : ReachableLog cfg (init c0 now0) s g) (l b : Nat) (he : g.endAt l = some b) :
    ∃ e, specExec cfg s g l = some e := by
  obtain ⟨i, a, _, h2, _, _, _, r, h3⟩ := log_execution_wellformed hl l b he
  have tk := timok_reachable hl
  have k1 := tk.start l
  have k2 := tk.end l
  rw [h2] at k1; rw [he] at k2
  obtain ⟨ta, hta⟩ := Option.isSome_iff_exists.1 k1
  obtain ⟨tb, htb⟩ := Option.isSome_iff_exists.1 k2
  simp only [specExec, h2, he, h3, hta, htb]
  exact ⟨_, rfl⟩

/-- the rendering of `l`'s execution (meaningful once it has ended) -/
def execD (cfg : Cfg) (s : State) (g : EvLog) (l : Nat) : Spec.C17.Exec :=
  match specExec cfg s g l with
  | some e => e
  | none => default

theorem filterMap_eq_map {α β : Type} (f : α → Option β) (d : α → β) :
    ∀ (L : List α), (∀ x ∈ L, f x = some (d x)) → L.filterMap f = L.map d
  | [], _ => rfl
  | x :: L, hx => by
    rw [List.filterMap_cons, hx x List.mem_cons_self, List.map_cons,
      filterMap_eq_map f d L (fun y hy => hx y (List.mem_cons_of_mem _ hy))]

/-- the hypotheses under which the rendered log is complete -/
structure Settled (cfg : Cfg) (c0 : Nat → Cell) (now0 : Int) (s : State) (g : EvLog) (h : HLog) (ids : List Nat) :
    Prop where
  run : ReachableH cfg (init c0 now0) s g h
  now0 : 0 ≤ now0
  quiet : Quiescent s ids
  sub : ∀ l ∈ h.order, l ∈ ids

theorem Settled.all {ids : List Nat} (st : Settled cfg c0 now0 s g h ids) : AllInv cfg c0 s g h :=
  allinv_reachable st.now0 st.run

theorem Settled.logP {ids : List Nat} (st : Settled cfg c0 now0 s g h ids) :
    ReachableLogP cfg (init c0 now0) s g := reachableH_logP st.run

theorem Settled.log {ids : List Nat} (st : Settled cfg c0 now0 s g h ids) :
    ReachableLog cfg (init c0 now0) s g := reachableLogP_reachableLog st.logP

/-- a caller whose function started has, in a settled state, returned as the leader of its execution -/
theorem settled_leader_done {ids : List Nat} (st : Settled cfg c0 now0 s g h ids) (l : Nat) (hl : l ∈ h.order) :
    ∃ r b, s.pc l = .done r ∧ s.src l = some (.exec l) ∧ s.execRes l = some r ∧ g.endAt l = some b := by
  have A := st.all
  obtain ⟨a, ha⟩ := (A.ord.mem l).1 hl
  have hsrc := (log_start_only_by_leader st.log l a ha).1
  rcases st.quiet l (st.sub l hl) with hp | ⟨r, hp⟩
  · have := A.sinv.loc l
    simp only [SLocal, hp] at this
    rw [this.2.2.1] at ha; cases ha
  · have h1 := A.inv.loc l
    have h2 := A.sinv.loc l
    simp only [Local, hp] at h1
    simp only [SLocal, hp, hsrc] at h2
    rcases h1 with ⟨v, _, k, _⟩ | ⟨_, _, k, _⟩ | ⟨y, k, _, k3, _, _, k6, _⟩ | ⟨v, _, k, _⟩ | ⟨y, v, _, k, _⟩
    · rw [hsrc] at k; cases k
    · rcases h2 with ⟨_, i, a', b, t, _, _, m3, _⟩ | ⟨hne, _⟩
      · exact ⟨r, b, hp, hsrc, k, m3⟩
      · exact absurd rfl hne
    · rw [hsrc] at k; cases k
      rw [k6] at k3; cases k3
    · rw [hsrc] at k; cases k
    · rw [hsrc] at k; cases k

theorem order_rendered {ids : List Nat} (st : Settled cfg c0 now0 s g h ids) (l : Nat) (hl : l ∈ h.order) :
    specExec cfg s g l = some (execD cfg s g l) := by
  obtain ⟨r, b, _, _, _, hb⟩ := settled_leader_done st l hl
  obtain ⟨e, he⟩ := specExec_complete st.log l b hb
  simp only [execD, he]

theorem execs_eq_map {ids : List Nat} (st : Settled cfg c0 now0 s g h ids) :
    specExecs cfg s g h.order = h.order.map (execD cfg s g) :=
  filterMap_eq_map _ _ _ (fun l hl => order_rendered st l hl)

/-- `startsBefore g a b`: if both functions started, `a`'s started first -/
def startsBefore (g : EvLog) (a b : Nat) : Prop :=
  ∀ x y, g.startAt a = some x → g.startAt b = some y → x < y

theorem pk_execD_iff {ids : List Nat} (st : Settled cfg c0 now0 s g h ids) (k l : Nat) (hl : l ∈ h.order) :
    Pk (k : Int) (execD cfg s g l) = true ↔ (cfg.key l = k ∧ ∃ v, s.execRes l = some (.ok v)) := by
  obtain ⟨a, b, r, _, _, h3, k1, _, _, _, k5, _⟩ := specExec_some (order_rendered st l hl)
  simp only [Pk, Spec.C17.Exec.success, Bool.and_eq_true, beq_iff_eq, bne_iff_ne, ne_eq, k1, k5]
  constructor
  · rintro ⟨h1, h2⟩
    refine ⟨by omega, ?_⟩
    cases r with
    | ok v => exact ⟨v, h3⟩
    | err => simp [resOut] at h2
  · rintro ⟨h1, v, h2⟩
    rw [h3] at h2; cases h2
    exact ⟨by omega, by simp [resOut]⟩

/-- the leaders of the offers made for key `k` are the started callers of key `k` whose function succeeded -/
theorem setLeader_mem_iff {ids : List Nat} (st : Settled cfg c0 now0 s g h ids) (k x : Nat) :
    x ∈ (h.sets.filter (fun p => cfg.key p.1 == k)).map (·.1) ↔
      (x ∈ h.order ∧ cfg.key x = k ∧ ∃ v, s.execRes x = some (.ok v)) := by
  have A := st.all
  simp only [List.mem_map, List.mem_filter, beq_iff_eq]
  constructor
  · rintro ⟨p, ⟨hp, hk⟩, rfl⟩
    obtain ⟨f1, _, _, _, f5⟩ := A.sets.fact p hp
    refine ⟨?_, hk, p.2.1, f1⟩
    have h2 := A.sinv.loc p.1
    rcases f5 with ⟨v, hpc, hsrc⟩ | ⟨v, hpc, hsrc⟩
    · simp only [SLocal, hpc, hsrc] at h2
      obtain ⟨⟨i, a, b, _, m2, _⟩, _⟩ := h2
      exact (A.ord.mem _).2 ⟨a, m2⟩
    · simp only [SLocal, hpc, hsrc] at h2
      rcases h2 with ⟨_, i, a, b, t, _, m2, _⟩ | ⟨hne, _⟩
      · exact (A.ord.mem _).2 ⟨a, m2⟩
      · exact absurd rfl hne
  · rintro ⟨hx, hk, v, hv⟩
    obtain ⟨r, b, h1, h2, h3, _⟩ := settled_leader_done st x hx
    rw [hv] at h3; cases h3
    obtain ⟨p, hp, hpx⟩ := A.sets.compl x (Or.inr ⟨v, h1, h2⟩)
    exact ⟨p, ⟨hp, by rw [hpx]; exact hk⟩, hpx⟩


theorem mem_of_filter {α : Type} {p : α → Bool} {x : α} {L : List α} (h : x ∈ L.filter p) : x ∈ L :=
  (List.mem_filter.1 h).1

theorem startsBefore_asym {ids : List Nat} (st : Settled cfg c0 now0 s g h ids) (a b : Nat) (ha : a ∈ h.order)
    (hb : b ∈ h.order) (h1 : startsBefore g a b) (h2 : startsBefore g b a) : False := by
  obtain ⟨x, hx⟩ := (st.all.ord.mem a).1 ha
  obtain ⟨y, hy⟩ := (st.all.ord.mem b).1 hb
  have := h1 x y hx hy
  have := h2 y x hy hx
  omega

theorem setLeaders_sorted {ids : List Nat} (st : Settled cfg c0 now0 s g h ids) (k : Nat) :
    ((h.sets.filter (fun p => cfg.key p.1 == k)).map (·.1)).Pairwise (startsBefore g) := by
  rw [List.pairwise_map]
  have := st.all.sets.sorted.sublist (List.filter_sublist (p := fun p => cfg.key p.1 == k))
  refine List.Pairwise.imp_of_mem ?_ this
  intro p q hp hq hpq
  simp only [List.mem_filter, beq_iff_eq] at hp hq
  exact hpq (by rw [hp.2, hq.2])

/-- in a settled state, the successful executions of key `k` in start order are exactly the leaders of
the offers made for `k`, in the order the offers were made -/
theorem leaders_eq {ids : List Nat} (st : Settled cfg c0 now0 s g h ids) (k : Nat) :
    h.order.filter (fun l => Pk (k : Int) (execD cfg s g l)) =
      (h.sets.filter (fun p => cfg.key p.1 == k)).map (·.1) := by
  have A := st.all
  apply pairwise_ext (startsBefore g)
  · exact A.ord.sorted.sublist List.filter_sublist
  · exact setLeaders_sorted st k
  · intro a ha b hb
    exact startsBefore_asym st a b (mem_of_filter ha) (mem_of_filter hb)
  · intro a ha hr
    exact startsBefore_asym st a a (mem_of_filter ha) (mem_of_filter ha) hr hr
  · intro x
    rw [setLeader_mem_iff st k x, List.mem_filter]
    constructor
    · rintro ⟨h1, h2⟩; exact ⟨h1, (pk_execD_iff st k x h1).1 h2⟩
    · rintro ⟨h1, h2⟩; exact ⟨h1, (pk_execD_iff st k x h1).2 h2⟩

/-- how an offer is rendered -/
theorem set_render {ids : List Nat} (st : Settled cfg c0 now0 s g h ids) (p : Nat × Int × Int) (hp : p ∈ h.sets) :
    p.1 ∈ h.order ∧ (execD cfg s g p.1).val = p.2.1 ∧ (execD cfg s g p.1).endT = p.2.2 ∧ 0 ≤ p.2.2 ∧
      Pk (cfg.key p.1 : Int) (execD cfg s g p.1) = true := by
  have A := st.all
  obtain ⟨f1, f2, f3, _, _⟩ := A.sets.fact p hp
  have hmem : p.1 ∈ h.order := by
    have := (setLeader_mem_iff st (cfg.key p.1) p.1).1
      (List.mem_map.2 ⟨p, List.mem_filter.2 ⟨hp, by simp⟩, rfl⟩)
    exact this.1
  obtain ⟨a, b, r, _, _, h3, _, _, _, _, _, k6, _, k8⟩ := specExec_some (order_rendered st p.1 hmem)
  rw [f1] at h3; cases h3
  refine ⟨hmem, by rw [k6]; rfl, Option.some.inj (k8.symm.trans f2), f3, ?_⟩
  exact (pk_execD_iff st (cfg.key p.1) p.1 hmem).2 ⟨rfl, p.2.1, f1⟩

theorem foldSets_abs (E : Int) (d : Nat → Spec.C17.Exec) : ∀ (T : List (Nat × Int × Int)) (cell : Cell),
    (∀ p ∈ T, (d p.1).val = p.2.1 ∧ (d p.1).endT = p.2.2 ∧ 0 ≤ p.2.2) →
    absCell (foldSets E cell T) = ((T.map (·.1)).map d).foldl (stepE E) (absCell cell)
  | [], cell, _ => rfl
  | p :: T, cell, hT => by
    obtain ⟨h1, h2, h3⟩ := hT p List.mem_cons_self
    simp only [foldSets, List.foldl_cons, List.map_cons]
    have ih := foldSets_abs E d T (cellSet E p.2.2 cell p.2.1) (fun q hq => hT q (List.mem_cons_of_mem _ hq))
    simp only [foldSets] at ih
    rw [ih, stepE, h1, h2, offer_abs _ _ _ _ h3]

/-- the prefix correspondence: the offers for key `k` up to and including `p` are the successful
executions of `k` in start order up to and including `p`'s leader -/
theorem prefix_leaders_eq {ids : List Nat} (st : Settled cfg c0 now0 s g h ids) (k : Nat)
    (U W : List (Nat × Int × Int)) (p : Nat × Int × Int) (A B : List Nat)
    (hT : h.sets.filter (fun p => cfg.key p.1 == k) = U ++ p :: W) (hO : h.order = A ++ p.1 :: B) :
    (U ++ [p]).map (·.1) = (A ++ [p.1]).filter (fun l => Pk (k : Int) (execD cfg s g l)) := by
  have hG := leaders_eq st k
  have hS := setLeaders_sorted st k
  rw [hT] at hG hS
  simp only [List.map_append, List.map_cons] at hG hS
  have hmemS : ∀ x, x ∈ U.map (·.1) ++ p.1 :: W.map (·.1) → x ∈ h.order := by
    intro x hx
    rw [← hG] at hx
    exact mem_of_filter hx
  apply pairwise_ext (startsBefore g)
  · simp only [List.map_append, List.map_cons, List.map_nil]
    refine hS.sublist ?_
    exact List.Sublist.append_left (List.cons_sublist_cons.2 (List.nil_sublist _)) _
  · refine (st.all.ord.sorted.sublist ?_).sublist List.filter_sublist
    rw [hO]
    exact List.Sublist.append_left (List.cons_sublist_cons.2 (List.nil_sublist _)) _
  · intro a ha b hb
    simp only [List.map_append, List.map_cons, List.map_nil] at ha hb
    refine startsBefore_asym st a b (hmemS a ?_) (hmemS b ?_)
    · rcases List.mem_append.1 ha with h1 | h1
      · exact List.mem_append_left _ h1
      · simp only [List.mem_singleton] at h1; subst h1; simp
    · rcases List.mem_append.1 hb with h1 | h1
      · exact List.mem_append_left _ h1
      · simp only [List.mem_singleton] at h1; subst h1; simp
  · intro a ha hr
    simp only [List.map_append, List.map_cons, List.map_nil] at ha
    have : a ∈ h.order := hmemS a (by
      rcases List.mem_append.1 ha with h1 | h1
      · exact List.mem_append_left _ h1
      · simp only [List.mem_singleton] at h1; subst h1; simp)
    exact startsBefore_asym st a a this this hr hr
  · intro x
    simp only [List.map_append, List.map_cons, List.map_nil]
    rw [mem_upto_iff (startsBefore g) (U.map (·.1)) (W.map (·.1)) p.1 hS
      (fun a ha b hb => startsBefore_asym st a b (hmemS a ha) (hmemS b hb))
      (fun a ha hr => startsBefore_asym st a a (hmemS a ha) (hmemS a ha) hr hr) x]
    rw [List.mem_filter]
    have hOs := st.all.ord.sorted
    rw [hO] at hOs
    have hmemO : ∀ y, y ∈ A ++ p.1 :: B → y ∈ h.order := by intro y hy; rw [hO]; exact hy
    rw [mem_upto_iff (startsBefore g) A B p.1 hOs
      (fun a ha b hb => startsBefore_asym st a b (hmemO a ha) (hmemO b hb))
      (fun a ha hr => startsBefore_asym st a a (hmemO a ha) (hmemO a ha) hr hr) x]
    rw [← hG, List.mem_filter, hO]
    constructor
    · rintro ⟨⟨h1, h2⟩, h3⟩; exact ⟨⟨h1, h3⟩, h2⟩
    · rintro ⟨⟨h1, h3⟩, h2⟩; exact ⟨⟨h1, h2⟩, h3⟩

/-- the entry `Spec.C17.history` computes after the execution led by `p.1` is the (abstracted) cache cell
after the offers for the key up to and including `p` -/
theorem prefix_entry_eq {ids : List Nat} (st : Settled cfg c0 now0 s g h ids) (k : Nat)
    (U W : List (Nat × Int × Int)) (p : Nat × Int × Int) (A B : List Nat)
    (hT : h.sets.filter (fun p => cfg.key p.1 == k) = U ++ p :: W) (hO : h.order = A ++ p.1 :: B) :
    stepE cfg.expTime (((A.map (execD cfg s g)).filter (Pk (k : Int))).foldl (stepE cfg.expTime) (absCell (c0 k)))
        (execD cfg s g p.1) =
      absCell (foldSets cfg.expTime (c0 k) (U ++ [p])) := by
  have hpmem : p ∈ h.sets := by
    have : p ∈ h.sets.filter (fun p => cfg.key p.1 == k) := by rw [hT]; simp
    exact mem_of_filter this
  have hpk : cfg.key p.1 = k := by
    have : p ∈ h.sets.filter (fun p => cfg.key p.1 == k) := by rw [hT]; simp
    simpa using (List.mem_filter.1 this).2
  have hPk : Pk (k : Int) (execD cfg s g p.1) = true := by
    have := (set_render st p hpmem).2.2.2.2
    rw [hpk] at this; exact this
  have hfold : ∀ q ∈ U ++ [p], (execD cfg s g q.1).val = q.2.1 ∧ (execD cfg s g q.1).endT = q.2.2 ∧ 0 ≤ q.2.2 := by
    intro q hq
    have hq' : q ∈ h.sets := by
      have : q ∈ h.sets.filter (fun p => cfg.key p.1 == k) := by
        rw [hT]
        rcases List.mem_append.1 hq with h1 | h1
        · exact List.mem_append_left _ h1
        · simp only [List.mem_singleton] at h1; subst h1; simp
      exact mem_of_filter this
    obtain ⟨_, r1, r2, r3, _⟩ := set_render st q hq'
    exact ⟨r1, r2, r3⟩
  rw [foldSets_abs cfg.expTime (execD cfg s g) (U ++ [p]) (c0 k) hfold, prefix_leaders_eq st k U W p A B hT hO]
  rw [show (fun l => Pk (k : Int) (execD cfg s g l)) = (Pk (k : Int) ∘ execD cfg s g) from rfl,
    ← List.filter_map, List.map_append, List.filter_append, List.foldl_append]
  simp [hPk]


/-- the cache before the run, as the monitor's initial entries -/
def e0Of (c0 : Nat → Cell) : Int → Spec.C17.Entry := fun k => absCell (c0 k.toNat)

/-- the executions in start order, as the harness prints them -/
def execsH (cfg : Cfg) (s : State) (g : EvLog) (h : HLog) : List Spec.C17.Exec := specExecs cfg s g h.order

/-- the callers `ids`, with source indices into `execsH` -/
def callsH (cfg : Cfg) (s : State) (g : EvLog) (h : HLog) (ids : List Nat) : List Spec.C17.Call :=
  specCallsOn cfg s g h.order ids

/-- in a settled state the entry `Spec.C17.finalEntry` computes for key `k` is the (abstracted) cache cell -/
theorem finalEntry_is_cache {ids : List Nat} (st : Settled cfg c0 now0 s g h ids) (k : Nat) :
    Spec.C17.finalEntry cfg.expTime (k : Int) (e0Of c0 (k : Int)) (execsH cfg s g h) = absCell (s.cache k) := by
  have hfold : ∀ q ∈ h.sets.filter (fun p => cfg.key p.1 == k),
      (execD cfg s g q.1).val = q.2.1 ∧ (execD cfg s g q.1).endT = q.2.2 ∧ 0 ≤ q.2.2 := by
    intro q hq
    obtain ⟨_, r1, r2, r3, _⟩ := set_render st q (mem_of_filter hq)
    exact ⟨r1, r2, r3⟩
  rw [finalEntry_eq, execsH, execs_eq_map st, List.filter_map,
    show (Pk (k : Int) ∘ execD cfg s g) = (fun l => Pk (k : Int) (execD cfg s g l)) from rfl, leaders_eq st k,
    st.all.sets.cacheA k, foldSets_abs cfg.expTime (execD cfg s g) _ (c0 k) hfold]
  simp [e0Of]

/-- **monitor clause on the cache after the scenario (`getOk`)**: in a settled state `Cache.Get k` — the
model's `cellGet now (cache k)` — is exactly the live value the executions imply -/
theorem monitor_getOk {ids : List Nat} (st : Settled cfg c0 now0 s g h ids) (k : Nat) :
    Spec.C17.getOk cfg.expTime s.now (e0Of c0) (execsH cfg s g h) (k : Int) (cellGet s.now (s.cache k)) = true := by
  unfold Spec.C17.getOk
  rw [finalEntry_is_cache st k, live_abs]
  simp


/-- every rendered execution is led by a caller whose function started -/
theorem execsH_leader {e : Spec.C17.Exec} (he : e ∈ execsH cfg s g h) :
    ∃ l, l ∈ h.order ∧ specExec cfg s g l = some e ∧ e.leader = (l : Int) := by
  simp only [execsH, specExecs, List.mem_filterMap] at he
  obtain ⟨l, hl, hle⟩ := he
  obtain ⟨_, _, _, _, _, _, _, _, _, k4, _⟩ := specExec_some hle
  exact ⟨l, hl, hle, k4⟩

/-- a caller without an execution in the log leads no rendered execution -/
theorem noStart_not_leads {ids : List Nat} (st : Settled cfg c0 now0 s g h ids) (c : Nat)
    (hns : g.startAt c = none) (x : Spec.C17.Call) (hid : x.id = (c : Int)) :
    Spec.C17.leads x (execsH cfg s g h) = false := by
  cases hl : Spec.C17.leads x (execsH cfg s g h) with
  | false => rfl
  | true =>
    simp only [Spec.C17.leads, List.any_eq_true, beq_iff_eq] at hl
    obtain ⟨e, he, hel⟩ := hl
    obtain ⟨l, hlo, _, k4⟩ := execsH_leader he
    have : l = c := by rw [k4, hid] at hel; omega
    subst this
    obtain ⟨a, ha⟩ := (st.all.ord.mem l).1 hlo
    rw [hns] at ha; cases ha

/-- a caller that hit the cache leads no rendered execution -/
theorem hit_not_leads {ids : List Nat} (st : Settled cfg c0 now0 s g h ids) (c : Nat) (v : Int)
    (hs : s.src c = some (.hit v)) (x : Spec.C17.Call) (hid : x.id = (c : Int)) :
    Spec.C17.leads x (execsH cfg s g h) = false :=
  noStart_not_leads st c (log_hit_causes_no_start st.log c v hs).2.1 x hid

/-- a returned caller that was served a cached value — read by its own `cacheCheck` (`Src.hit`) or by the
re-check of its flight's leader (`Src.lhit`) — returned that value, at its invocation instant, has no
execution in the log and no source index -/
theorem cached_served {ids : List Nat} (st : Settled cfg c0 now0 s g h ids) (c : Nat) (v : Int)
    (hv : hitVal (s.src c) = some v) (r : Res) (hd : s.pc c = .done r) :
    r = .ok v ∧ g.startAt c = none ∧ (∃ ti, g.invT c = some ti ∧ g.retT c = some ti) ∧
      ∀ execs, srcIndex execs (s.src c) = -1 := by
  have A := st.all
  have h1 := A.inv.loc c
  have h2 := A.sinv.loc c
  have h3 := A.tinv.loc c
  simp only [Local, hd] at h1
  simp only [SLocal, hd] at h2
  simp only [TLocal, hd] at h3
  cases hs : s.src c with
  | none => rw [hs] at hv; simp [hitVal] at hv
  | some y =>
    cases y with
    | exec l => rw [hs] at hv; simp [hitVal] at hv
    | hit w =>
      rw [hs] at hv; simp only [hitVal, Option.some.injEq] at hv; subst hv
      simp only [hs] at h2 h3
      have hp := (hit_local (A.inv.loc c) hs).1
      rw [hd] at hp; cases hp
      exact ⟨rfl, h2.2.1, h3, fun _ => rfl⟩
    | lhit l w =>
      rw [hs] at hv; simp only [hitVal, Option.some.injEq] at hv; subst hv
      simp only [hs] at h2 h3
      refine ⟨?_, h2.2.1, h3, fun _ => rfl⟩
      rcases h1 with ⟨v, _, k, _⟩ | ⟨k, _⟩ | ⟨y, k, _⟩ | ⟨v, k0, k, _⟩ | ⟨y, v, k0, k, _⟩
      · rw [hs] at k; cases k
      · rw [hs] at k; cases k
      · rw [hs] at k; cases k
      · rw [hs] at k; cases k; exact k0
      · rw [hs] at k; cases k; exact k0

/-- **`fromCache`, general form**: in a settled state, a caller that was served a cached value (`Src.hit` or
`Src.lhit`) passes the monitor's cache-source test: value, no source index, returned at its invocation
instant, led no execution, and the value is live at its invocation instant in the entry before the run or
in the `history` entry after an execution that had ended before the caller returned -/
theorem fromCache_of_cached {ids : List Nat} (st : Settled cfg c0 now0 s g h ids) (c : Nat) (v : Int)
    (hv : hitVal (s.src c) = some v) (x : Spec.C17.Call)
    (hx : specCall cfg s g (execsH cfg s g h) c = some x) :
    Spec.C17.fromCache x (e0Of c0 x.key)
      (Spec.C17.history cfg.expTime x.key (e0Of c0 x.key) (execsH cfg s g h)) (execsH cfg s g h) = true := by
  have A := st.all
  obtain ⟨r, i, t, hd, j1, j2, jid, jkey, _, jret, jout, jval, jsrc, jti, jtt⟩ := specCall_some hx
  obtain ⟨hr, hns, ⟨ti0, n1, n2⟩, hsi⟩ := cached_served st c v hv r hd
  subst hr
  -- the shape conjuncts
  have c1 : x.out = 0 := by rw [jout]; rfl
  have c2 : x.src = -1 := by rw [jsrc]; exact hsi _
  have c3 : x.retT = x.invT := by
    rw [Option.some.inj (jti.symm.trans n1), Option.some.inj (jtt.symm.trans n2)]
  have c4 := noStart_not_leads st c hns x jid
  -- what the caller's (re-)read of the cache saw
  obtain ⟨m, hm⟩ := A.read.has c (by rw [hd]; simp) (by rw [hd]; simp)
  obtain ⟨hmlen, ti, hti, hread⟩ := A.read.fact c m hm
  have eti : x.invT = ti := Option.some.inj (jti.symm.trans hti)
  rw [hv] at hread
  have hkey : x.key.toNat = cfg.key c := by rw [jkey]; simp
  have he0 : e0Of c0 x.key = absCell (c0 (cfg.key c)) := by simp [e0Of, hkey]
  unfold Spec.C17.fromCache
  simp only [c1, c2, c3, c4, beq_self_eq_true, Bool.not_false, Bool.true_and, Bool.or_eq_true, beq_iff_eq,
    List.any_eq_true]
  rcases List.eq_nil_or_concat (offersSeen cfg h c m) with hnil | ⟨U, p, hcat⟩
  · left
    rw [hnil] at hread
    rw [he0, live_abs, eti, jval]
    exact hread
  · right
    rw [List.concat_eq_append] at hcat
    -- split the offers and the start order at `p`
    have hpT : p ∈ offersSeen cfg h c m := by rw [hcat]; simp
    have hptake : p ∈ h.sets.take m := mem_of_filter hpT
    have hpsets : p ∈ h.sets := List.mem_of_mem_take hptake
    have hT : h.sets.filter (fun q => cfg.key q.1 == cfg.key c) =
        U ++ p :: (h.sets.drop m).filter (fun q => cfg.key q.1 == cfg.key c) := by
      conv => lhs; rw [← List.take_append_drop m h.sets]
      rw [List.filter_append]
      have : (h.sets.take m).filter (fun q => cfg.key q.1 == cfg.key c) = U ++ [p] := hcat
      rw [this]; simp
    obtain ⟨pO, _, _, _, _⟩ := set_render st p hpsets
    obtain ⟨Ao, Bo, hO⟩ := List.append_of_mem pO
    have hen := prefix_entry_eq st (cfg.key c) U _ p Ao Bo hT hO
    rw [hcat] at hread
    -- the history member
    have hexecs : execsH cfg s g h = Ao.map (execD cfg s g) ++ execD cfg s g p.1 :: Bo.map (execD cfg s g) := by
      rw [execsH, execs_eq_map st, hO]; simp
    have hPk : Pk x.key (execD cfg s g p.1) = true := by
      have hk : cfg.key p.1 = cfg.key c := by simpa using (List.mem_filter.1 hpT).2
      have := (set_render st p hpsets).2.2.2.2
      rw [hk] at this; rw [jkey]; exact this
    have hmem : ((Ao.length : Int), absCell (foldSets cfg.expTime (c0 (cfg.key c)) (U ++ [p]))) ∈
        Spec.C17.history cfg.expTime x.key (e0Of c0 x.key) (execsH cfg s g h) := by
      unfold Spec.C17.history
      rw [history_go_mem_iff]
      refine ⟨Ao.map (execD cfg s g), execD cfg s g p.1, Bo.map (execD cfg s g), hexecs, by simp, hPk, ?_⟩
      rw [he0, ← hen, jkey]
    refine ⟨_, hmem, ?_⟩
    simp only [Bool.and_eq_true, beq_iff_eq]
    refine ⟨by rw [live_abs, eti, jval]; exact hread, ?_⟩
    have hget : (execsH cfg s g h)[(Ao.length : Int).toNat]? = some (execD cfg s g p.1) := by
      rw [hexecs]; simp
    rw [hget]
    obtain ⟨b, hb, hbt⟩ := A.read.hitEnd c m t v hm hv j2 p hptake
    obtain ⟨_, b', _, _, q2, _, _, _, k3, _⟩ := specExec_some (order_rendered st p.1 pO)
    rw [hb] at q2; cases q2
    simp only [decide_eq_true_eq, k3, jret]
    omega

/-- **`fromCache`**: in a settled state, a caller that hit the cache passes the monitor's cache-source
test: value, no source index, returned at its invocation instant, led no execution, and the value is
live at its invocation instant in the entry before the run or in the `history` entry after an
execution that had ended before the caller returned -/
theorem monitor_fromCache {ids : List Nat} (st : Settled cfg c0 now0 s g h ids) (c : Nat) (v : Int)
    (hs : s.src c = some (.hit v)) (x : Spec.C17.Call)
    (hx : specCall cfg s g (execsH cfg s g h) c = some x) :
    Spec.C17.fromCache x (e0Of c0 x.key)
      (Spec.C17.history cfg.expTime x.key (e0Of c0 x.key) (execsH cfg s g h)) (execsH cfg s g h) = true :=
  fromCache_of_cached st c v (by rw [hs]; rfl) x hx

/-- **`fromCache` for the leader's re-check**: in a settled state, a caller that was served the value the
leader `l` of its flight read from the cache at its re-check inside `Do` (the leader itself, `l = c`, or
a joiner) passes the very same cache-source test of the monitor: the monitor needs no new alternative -/
theorem monitor_fromCache_lead {ids : List Nat} (st : Settled cfg c0 now0 s g h ids) (c l : Nat) (v : Int)
    (hs : s.src c = some (.lhit l v)) (x : Spec.C17.Call)
    (hx : specCall cfg s g (execsH cfg s g h) c = some x) :
    Spec.C17.fromCache x (e0Of c0 x.key)
      (Spec.C17.history cfg.expTime x.key (e0Of c0 x.key) (execsH cfg s g h)) (execsH cfg s g h) = true :=
  fromCache_of_cached st c v (by rw [hs]; rfl) x hx


/-- a returned caller served by an execution gets a source index: that execution is rendered -/
theorem srcIndex_nonneg {ids : List Nat} (st : Settled cfg c0 now0 s g h ids) (c l : Nat) (r : Res)
    (hd : s.pc c = .done r) (hs : s.src c = some (.exec l)) :
    0 ≤ srcIndex (execsH cfg s g h) (some (.exec l)) := by
  simp only [srcIndex]
  split
  · omega
  · rename_i hf
    exfalso
    rw [List.findIdx?_eq_none_iff] at hf
    obtain ⟨_, _, _, _, _, m4⟩ := log_result_has_source st.log c r hd
    rcases m4 with ⟨v, _, m5, _⟩ | ⟨l2, a, b, tl, m5, _, _, m7, _⟩ | ⟨l2, v, _, m5, _⟩
    case inr.inr => rw [hs] at m5; cases m5
    · rw [hs] at m5; cases m5
    · rw [hs] at m5; cases m5
      have hlo : l ∈ h.order := (st.all.ord.mem l).2 ⟨a, m7⟩
      have hmem : execD cfg s g l ∈ execsH cfg s g h := by
        rw [execsH, execs_eq_map st]; exact List.mem_map.2 ⟨l, hlo, rfl⟩
      obtain ⟨_, _, _, _, _, _, _, _, _, k4, _⟩ := specExec_some (order_rendered st l hlo)
      have := hf _ hmem
      simp [k4] at this

/-- **monitor clause `value/error has a source`, complete**: in a settled state every rendered caller
passes `Spec.C17.hasSource` — through the execution that served it, or through the cache -/
theorem monitor_hasSource {ids : List Nat} (st : Settled cfg c0 now0 s g h ids) :
    (callsH cfg s g h ids).all
      (Spec.C17.hasSource cfg.expTime (e0Of c0) (callsH cfg s g h ids) (execsH cfg s g h)) = true := by
  simp only [List.all_eq_true]
  intro x hx
  have hx' := hx
  simp only [callsH, specCallsOn, List.mem_filterMap] at hx'
  obtain ⟨c, _, hc⟩ := hx'
  obtain ⟨r, i, t, hd, _, _, _, _, _, _, _, _, jsrc, _⟩ := specCall_some hc
  cases hs : s.src c with
  | none =>
    rcases result_has_source (reachableLog_reachable st.log) c r hd with ⟨v, _, h2⟩ | ⟨l, h1, _⟩ | ⟨l, v, _, h2, _⟩
    · rw [hs] at h2; cases h2
    · rw [hs] at h1; cases h1
    · rw [hs] at h2; cases h2
  | some y =>
    cases y with
    | hit v =>
      unfold Spec.C17.hasSource
      rw [Bool.or_eq_true]
      right
      exact monitor_fromCache st c v hs x hc
    | lhit l v =>
      unfold Spec.C17.hasSource
      rw [Bool.or_eq_true]
      right
      exact monitor_fromCache_lead st c l v hs x hc
    | exec l =>
      refine monitor_hasSource_exec st.logP h.order ids st.sub cfg.expTime (e0Of c0) x hx ?_
      rw [jsrc, hs]
      exact srcIndex_nonneg st c l r hd hs


/-- the entry the monitor holds certain at `c`'s invocation, if live then, is what `c`'s `cacheCheck`
read: the offers made in between were refused -/
theorem certain_is_read {ids : List Nat} (st : Settled cfg c0 now0 s g h ids) (c : Nat) (x : Spec.C17.Call)
    (hx : specCall cfg s g (execsH cfg s g h) c = some x) (m : Nat) (hm : h.readLen c = some m) (ti v : Int)
    (hti : g.invT c = some ti)
    (hlive : Spec.C17.live ti (Spec.C17.certainEntry cfg.expTime (e0Of c0 x.key) (callsH cfg s g h ids)
      (execsH cfg s g h) x) = some v) :
    cellGet ti (foldSets cfg.expTime (c0 (cfg.key c)) (offersSeen cfg h c m)) = some v := by
  have A := st.all
  obtain ⟨r, ic, t, hd, j1, j2, jid, jkey, jinv, jret, jout, jval, jsrc, jti, jtt⟩ := specCall_some hx
  have hkey : x.key.toNat = cfg.key c := by rw [jkey]; simp
  have he0 : e0Of c0 x.key = absCell (c0 (cfg.key c)) := by simp [e0Of, hkey]
  have hseen : ∀ p ∈ offersSeen cfg h c m, p.2.2 ≤ ti := fun p hp =>
    A.read.seenTime c m ti hm hti p (mem_of_filter hp)
  unfold Spec.C17.certainEntry at hlive
  simp only at hlive
  split at hlive
  · -- some execution is known to have been served before `c` was invoked
    rename_i i en hlast
    have hmemk := List.mem_of_getLast? hlast
    rw [List.mem_filter] at hmemk
    obtain ⟨hhist, hany⟩ := hmemk
    simp only [List.any_eq_true, Bool.and_eq_true, beq_iff_eq, decide_eq_true_eq] at hany
    obtain ⟨rc, hrc, hrsrc, hrret⟩ := hany
    simp only [callsH, specCallsOn, List.mem_filterMap] at hrc
    obtain ⟨cr, _, hcr⟩ := hrc
    obtain ⟨rr, _, tr, hdr, _, k2, _, _, _, kret, _, _, ksrc, _⟩ := specCall_some hcr
    -- the history member
    unfold Spec.C17.history at hhist
    rw [history_go_mem_iff] at hhist
    obtain ⟨A', e, B', hex, hi, hPk, hen⟩ := hhist
    simp only [Int.zero_add] at hi
    -- the served caller's source is the execution at that index
    have hsrcr : ∃ l, s.src cr = some (.exec l) ∧ e.leader = (l : Int) := by
      cases hsr : s.src cr with
      | none => rw [ksrc, hsr] at hrsrc; simp [srcIndex] at hrsrc; omega
      | some y =>
        cases y with
        | hit w => rw [ksrc, hsr] at hrsrc; simp [srcIndex] at hrsrc; omega
        | lhit l w => rw [ksrc, hsr] at hrsrc; simp [srcIndex] at hrsrc; omega
        | exec l =>
          refine ⟨l, rfl, ?_⟩
          rcases srcIndex_exec (specExecs cfg s g h.order) l with h1 | ⟨j, e', h1, he', hj⟩
          · rw [ksrc, hsr, h1] at hrsrc; omega
          · rw [ksrc, hsr, h1, hi] at hrsrc
            replace he' : (execsH cfg s g h)[j]? = some e' := he'
            have hjA : j = A'.length := by omega
            rw [hjA, hex] at he'
            simp at he'
            rw [he']; exact hj
    obtain ⟨l, hsl, hel⟩ := hsrcr
    -- split the start order at `l`
    have hmap := hex
    rw [execsH, execs_eq_map st, List.map_eq_append_iff] at hmap
    obtain ⟨Ao, rest, hO, hAo, hrest⟩ := hmap
    rw [List.map_eq_cons_iff] at hrest
    obtain ⟨l0, Bo, hrest', hl0, hBo⟩ := hrest
    rw [hrest'] at hO
    have hl0o : l0 ∈ h.order := by rw [hO]; simp
    have hll : l0 = l := by
      obtain ⟨_, _, _, _, _, _, _, _, _, k4, _⟩ := specExec_some (order_rendered st l0 hl0o)
      rw [hl0, hel] at k4; omega
    subst hll
    have hPk' : Pk (cfg.key c : Int) (execD cfg s g l0) = true := by rw [hl0, ← jkey]; exact hPk
    obtain ⟨hkl, w, hw⟩ := (pk_execD_iff st (cfg.key c) l0 hl0o).1 hPk'
    -- its offer was among those `c` saw
    have htrlt : tr < ic := by rw [kret, jinv] at hrret; omega
    obtain ⟨p, hptake, hpl⟩ := A.read.known c m cr l0 tr ic w hm k2 j1 htrlt hsl hw
    have hpT : p ∈ offersSeen cfg h c m := by
      simp only [offersSeen, List.mem_filter, beq_iff_eq]
      exact ⟨hptake, by rw [hpl]; exact hkl⟩
    obtain ⟨T1, T2, hsplit⟩ := List.append_of_mem hpT
    have hT : h.sets.filter (fun q => cfg.key q.1 == cfg.key c) =
        T1 ++ p :: (T2 ++ (h.sets.drop m).filter (fun q => cfg.key q.1 == cfg.key c)) := by
      conv => lhs; rw [← List.take_append_drop m h.sets]
      rw [List.filter_append]
      have : (h.sets.take m).filter (fun q => cfg.key q.1 == cfg.key c) = T1 ++ p :: T2 := hsplit
      rw [this]; simp
    have hO' : h.order = Ao ++ p.1 :: Bo := by rw [hpl]; exact hO
    have hpre := prefix_entry_eq st (cfg.key c) T1 _ p Ao Bo hT hO'
    have hen' : en = absCell (foldSets cfg.expTime (c0 (cfg.key c)) (T1 ++ [p])) := by
      rw [hen, ← hpre, ← hAo, ← hl0, hpl, he0, jkey]
    rw [hen', live_abs] at hlive
    -- the later offers were refused
    have hfold : foldSets cfg.expTime (c0 (cfg.key c)) (offersSeen cfg h c m) =
        foldSets cfg.expTime (foldSets cfg.expTime (c0 (cfg.key c)) (T1 ++ [p])) T2 := by
      rw [hsplit]
      have : T1 ++ p :: T2 = (T1 ++ [p]) ++ T2 := by simp
      rw [this]
      simp only [foldSets, List.foldl_append]
    rw [hfold, foldSets_of_live T2 _ hlive (fun q hq => hseen q (by rw [hsplit]; simp [hq]))]
    exact hlive
  · -- nothing is known: the entry from before the run
    rw [he0, live_abs] at hlive
    rw [foldSets_of_live _ _ hlive hseen]
    exact hlive

/-- **monitor clause `cached-value-served-without-invoking` (`servedIfCached`)**: in a settled state, for
every rendered caller: if the entry certainly in the cache when it was invoked was live at that instant,
the caller returned that value, at once, and led no execution -/
theorem monitor_servedIfCached {ids : List Nat} (st : Settled cfg c0 now0 s g h ids) :
    (callsH cfg s g h ids).all
      (Spec.C17.servedIfCached cfg.expTime (e0Of c0) (callsH cfg s g h ids) (execsH cfg s g h)) = true := by
  have A := st.all
  simp only [List.all_eq_true]
  intro x hx
  simp only [callsH, specCallsOn, List.mem_filterMap] at hx
  obtain ⟨c, _, hc⟩ := hx
  obtain ⟨r, ic, t, hd, j1, j2, jid, jkey, jinv, jret, jout, jval, jsrc, jti, jtt⟩ := specCall_some hc
  obtain ⟨m, hm⟩ := A.read.has c (by rw [hd]; simp) (by rw [hd]; simp)
  obtain ⟨_, ti, hti, hread⟩ := A.read.fact c m hm
  have eti : x.invT = ti := Option.some.inj (jti.symm.trans hti)
  unfold Spec.C17.servedIfCached
  split
  · rename_i v hlive
    rw [eti] at hlive
    have hcell := certain_is_read st c x hc m hm ti v hti hlive
    rw [hcell] at hread
    -- so `c` was served the cached value `v`: by its own `cacheCheck`, or by the re-check of its flight's leader
    obtain ⟨hr, hns, ⟨ti', n1, n2⟩, _⟩ := cached_served st c v hread.symm r hd
    subst hr
    have c3 : x.retT = x.invT := by
      rw [Option.some.inj (jti.symm.trans n1), Option.some.inj (jtt.symm.trans n2)]
    have c4 := noStart_not_leads st c hns x jid
    simp only [Bool.and_eq_true, beq_iff_eq, Bool.not_eq_true']
    exact ⟨⟨⟨by rw [jout]; rfl, by rw [jval]; rfl⟩, c3⟩, c4⟩
  · rfl


/-- the rendered log of a run: callers `ids`, executions in start order, the in-flight maxima and the
final `Cache.Get` of the keys `0 … nkeys-1` -/
def specLog (cfg : Cfg) (s : State) (g : EvLog) (h : HLog) (ids : List Nat) (nkeys : Nat) : Spec.C17.Log :=
  { callers := callsH cfg s g h ids
    execs := execsH cfg s g h
    maxIn := (List.range nkeys).map (fun k => (h.maxIn k : Int))
    gets := (List.range nkeys).map (fun k => cellGet s.now (s.cache k))
    endT := s.now }

theorem order_nodup {ids : List Nat} (st : Settled cfg c0 now0 s g h ids) : h.order.Nodup := by
  refine List.Pairwise.imp_of_mem ?_ st.all.ord.sorted
  intro a b ha _ hab heq
  subst heq
  exact startsBefore_asym st a a ha ha hab hab

/-- **the monitor accepts the log of every run**: for every run of the protocol LTS under the virtual
clock (any number of callers and keys, any interleaving, any results, any cache before the run, starting
at an instant `≥ 0`), once the callers `ids` — which include every caller whose function ran — have
returned, `Spec.C17.check` finds no violated clause in the rendered log -/
theorem monitor_accepts {ids : List Nat} (st : Settled cfg c0 now0 s g h ids) (nkeys : Nat) :
    Spec.C17.check cfg.expTime (e0Of c0) (specLog cfg s g h ids nkeys) = none := by
  have hn := order_nodup st
  have c1 : ((List.range nkeys).map (fun k => (h.maxIn k : Int))).all (· ≤ 1) = true := by
    simp only [List.all_eq_true, List.mem_map, decide_eq_true_eq]
    rintro y ⟨k, _, rfl⟩
    have := st.all.ord.maxIn k
    omega
  have c2 := monitor_exclusive st.log h.order hn
  have c3 := monitor_resultShape (cfg := cfg) (s := s) (g := g) h.order ids
  have c4 := monitor_srcConsistent st.log h.order ids
  have c5 := monitor_execOwned st.logP h.order ids st.sub st.quiet
  have c5' := monitor_leadsAtMostOnce (cfg := cfg) (s := s) (g := g) h.order hn
  have c6 := monitor_hasSource st
  have c7 := monitor_servedIfCached st
  have c8 : (List.range ((List.range nkeys).map (fun k => cellGet s.now (s.cache k))).length).find?
      (fun (k : Nat) => !(Spec.C17.getOk cfg.expTime s.now (e0Of c0) (execsH cfg s g h) (k : Int)
        ((((List.range nkeys).map (fun k => cellGet s.now (s.cache k)))[k]?).getD none))) = none := by
    rw [List.find?_eq_none]
    intro k hk
    simp only [List.length_map, List.length_range, List.mem_range] at hk
    have : ((List.range nkeys).map (fun k => cellGet s.now (s.cache k)))[k]? = some (cellGet s.now (s.cache k)) := by
      simp [hk]
    rw [this]
    simp [monitor_getOk st k]
  unfold Spec.C17.check
  simp only [specLog]
  simp only [callsH, execsH] at c2 c3 c4 c5 c5' c6 c7 c8 ⊢
  simp only [c1, c2, c3, c4, c5, c5', c6, c7, c8, Bool.not_true, Bool.or_self, Bool.false_eq_true, if_false]


/-! ### non-vacuity: a settled run exists, and the monitor accepts its log -/

/-- run a script keeping both logs -/
def runH (cfg : Cfg) (s : State) (g : EvLog) (h : HLog) : List Label → Option (State × EvLog × HLog)
  | [] => some (s, g, h)
  | l :: ls => match step cfg s l with
    | some s' => runH cfg s' (logStep cfg s g l) (histStep cfg s h l) ls
    | none => none

theorem runH_reachable (s0 : State) : ∀ (ls : List Label) (s1 : State) (g1 : EvLog) (h1 : HLog)
    (s2 : State) (g2 : EvLog) (h2 : HLog), (∀ l ∈ ls, ∀ d, l ≠ .tick d) →
    ReachableH cfg s0 s1 g1 h1 → runH cfg s1 g1 h1 ls = some (s2, g2, h2) → ReachableH cfg s0 s2 g2 h2
  | [], s1, g1, h1, s2, g2, h2, _, hr, hrun => by
    simp only [runH, Option.some.injEq, Prod.mk.injEq] at hrun
    obtain ⟨e1, e2, e3⟩ := hrun
    rw [← e1, ← e2, ← e3]; exact hr
  | l :: ls, s1, g1, h1, s2, g2, h2, hno, hr, hrun => by
    simp only [runH] at hrun
    split at hrun
    · rename_i s' hs'
      exact runH_reachable s0 ls s' _ _ s2 g2 h2 (fun x hx => hno x (List.mem_cons_of_mem _ hx))
        (ReachableH.step l hr hs' (fun d hd => absurd hd (hno l List.mem_cons_self d))) hrun
    · cases hrun

/-- caller 1 leads (value 7), caller 2 joins, caller 3 is invoked afterwards and hits the cache -/
def exSettledScript : List Label := [.invoke 1, .cacheCheck 1, .doEnter 1, .fnStart 1, .invoke 2, .cacheCheck 2,
  .doEnter 2, .fnEnd 1 (.ok 7), .cacheSet 1, .doFinish 1, .wake 2, .invoke 3, .cacheCheck 3]

example : ∃ s g h, Settled (exCfg 30) (fun _ => none) 0 s g h [1, 2, 3] ∧
    Spec.C17.check (exCfg 30).expTime (e0Of (fun _ => none)) (specLog (exCfg 30) s g h [1, 2, 3] 1) = none := by
  have hsome : (runH (exCfg 30) exInit EvLog.empty HLog.empty exSettledScript).isSome = true := by decide
  obtain ⟨⟨s, g, h⟩, hrun⟩ := Option.isSome_iff_exists.1 hsome
  have hfacts : (runH (exCfg 30) exInit EvLog.empty HLog.empty exSettledScript).map
      (fun p => ((p.1.pc 1, p.1.pc 2, p.1.pc 3), p.2.2.order)) =
      some ((.done (.ok 7), .done (.ok 7), .done (.ok 7)), [1]) := by decide
  rw [hrun] at hfacts
  simp only [Option.map_some, Option.some.injEq, Prod.mk.injEq] at hfacts
  obtain ⟨⟨p1, p2, p3⟩, ho⟩ := hfacts
  have st : Settled (exCfg 30) (fun _ => none) 0 s g h [1, 2, 3] :=
    { run := runH_reachable exInit exSettledScript exInit EvLog.empty HLog.empty s g h
        (by intro l hl d; simp [exSettledScript] at hl; rcases hl with h | h | h | h | h | h | h | h | h | h | h | h | h <;>
          (rw [h]; exact fun hh => by cases hh))
        ReachableH.refl hrun
      now0 := Int.le_refl 0
      quiet := by
        intro c hc
        simp only [List.mem_cons, List.not_mem_nil, or_false] at hc
        rcases hc with h | h | h <;> subst h
        · exact Or.inr ⟨_, p1⟩
        · exact Or.inr ⟨_, p2⟩
        · exact Or.inr ⟨_, p3⟩
      sub := by intro l hl; rw [ho] at hl; simp at hl; subst hl; simp }
  exact ⟨s, g, h, st, monitor_accepts st 1⟩

/-- the late leader under the monitor: caller 1 leads (value 7); callers 2 and 3 missed the cache before the
value was stored; caller 2 becomes the leader of a second flight after caller 1 has left, caller 3 joins it;
caller 2's re-check finds the value: nobody runs the function a second time, both return 7 -/
def exSettledLate : List Label := exLateLeader ++ [.leadHit 2, .doFinish 2, .wake 3]

example : ∃ s g h, Settled (exCfg (-1)) (fun _ => none) 0 s g h [1, 2, 3] ∧ s.src 3 = some (.lhit 2 7) ∧
    Spec.C17.check (exCfg (-1)).expTime (e0Of (fun _ => none)) (specLog (exCfg (-1)) s g h [1, 2, 3] 1) = none := by
  have hsome : (runH (exCfg (-1)) exInit EvLog.empty HLog.empty exSettledLate).isSome = true := by decide
  obtain ⟨⟨s, g, h⟩, hrun⟩ := Option.isSome_iff_exists.1 hsome
  have hfacts : (runH (exCfg (-1)) exInit EvLog.empty HLog.empty exSettledLate).map
      (fun p => ((p.1.pc 1, p.1.pc 2, p.1.pc 3), p.2.2.order, p.1.src 3)) =
      some ((.done (.ok 7), .done (.ok 7), .done (.ok 7)), [1], some (.lhit 2 7)) := by decide
  rw [hrun] at hfacts
  simp only [Option.map_some, Option.some.injEq, Prod.mk.injEq] at hfacts
  obtain ⟨⟨p1, p2, p3⟩, ho, hs3⟩ := hfacts
  have st : Settled (exCfg (-1)) (fun _ => none) 0 s g h [1, 2, 3] :=
    { run := runH_reachable exInit exSettledLate exInit EvLog.empty HLog.empty s g h
        (by
          intro l hl d
          simp only [exSettledLate, exLateLeader, List.cons_append, List.nil_append, List.mem_cons,
            List.not_mem_nil, or_false] at hl
          rcases hl with h | h | h | h | h | h | h | h | h | h | h | h | h | h | h | h <;>
            (rw [h]; exact fun hh => by cases hh))
        ReachableH.refl hrun
      now0 := Int.le_refl 0
      quiet := by
        intro c hc
        simp only [List.mem_cons, List.not_mem_nil, or_false] at hc
        rcases hc with h | h | h <;> subst h
        · exact Or.inr ⟨_, p1⟩
        · exact Or.inr ⟨_, p2⟩
        · exact Or.inr ⟨_, p3⟩
      sub := by intro l hl; rw [ho] at hl; simp at hl; subst hl; simp }
  exact ⟨s, g, h, st, hs3, monitor_accepts st 1⟩

end GoguVerif.Theorems.C17
