import GoguVerif.Spec.C17
import GoguVerif.Model.C17
import GoguVerif.Lemmas.C17
/-!
# C17 — property theorems (Memoize: one computation per key at a time, cached value served)

All statements are about the protocol LTS of `Model/C17.lean` (`step`: callers × keys, interleaved at
statement granularity, `singleflight.Group.Do`'s join-or-lead contract assumed) and hold for EVERY
reachable state: any number of callers, any number of keys, any interleaving, any instants, any
results chosen by the environment, any cache content `c0` at the start.  The last section ties the
LTS to the sequential model `memoizeSeq` (compared exactly with the implementation) and that to the
specification `Spec.C17.seqCall`.
-/
namespace GoguVerif.Theorems.C17
open GoguVerif Model.C17 Lemmas.C17

variable {cfg : Cfg} {c0 : Nat → Cell} {now0 : Int}

/-! ## at no instant are two executions for one key in progress -/

/-- the in-flight counter of every key (incremented at `fnStart`, decremented at `fnEnd`, exactly like
the atomic counter in the harness) never exceeds 1 -/
theorem one_execution_per_key {s : State} (h : Reachable cfg (init c0 now0) s) (k : Nat) :
    s.inflight k ≤ 1 := by
  have hi := inv_reachable h
  rw [hi.infl k]
  split
  · split <;> omega
  · omega

/-- two callers of one key are never inside the supplied function at the same time -/
theorem running_unique {s : State} (h : Reachable cfg (init c0 now0) s) (c c' : Nat)
    (hk : cfg.key c = cfg.key c') (hc : s.pc c = .running) (hc' : s.pc c' = .running) : c = c' := by
  have hi := inv_reachable h
  have h1 := hi.lead c (by simp [hc, active])
  have h2 := hi.lead c' (by simp [hc', active])
  rw [hk, h2] at h1
  exact (Option.some.inj h1).symm

/-- while an execution for a key is in progress, no `fnStart` for that key is enabled -/
theorem no_second_start {s : State} (h : Reachable cfg (init c0 now0) s) (c c' : Nat)
    (hk : cfg.key c = cfg.key c') (hc : s.pc c = .running) : step cfg s (.fnStart c') = none := by
  have hi := inv_reachable h
  simp only [step]
  split
  · rename_i hl
    have h1 := hi.lead c (by simp [hc, active])
    have h2 := hi.lead c' (by simp [hl, active])
    rw [hk, h2] at h1
    have : c' = c := Option.some.inj h1
    subst this
    rw [hc] at hl; cases hl
  · rfl

/-- an execution in progress stays in progress until its own `fnEnd`: nobody else can end it -/
theorem running_until_fnEnd {s s' : State} {l : Label} (c : Nat) (hc : s.pc c = .running)
    (hs : step cfg s l = some s') (hne : ∀ r, l ≠ .fnEnd c r) : s'.pc c = .running := by
  cases l with
  | fnEnd a r =>
    have hac : c ≠ a := by intro h; subst h; exact hne r rfl
    simp only [step] at hs; split at hs <;> simp at hs; subst hs
    simp only [upd_other _ _ _ _ hac]; exact hc
  | tick d => simp only [step, Option.some.injEq] at hs; subst hs; exact hc
  | invoke a =>
    simp only [step] at hs; split at hs <;> simp at hs
    rename_i hpa
    have hac : c ≠ a := by intro h; subst h; rw [hc] at hpa; cases hpa
    subst hs; simp only [upd_other _ _ _ _ hac]; exact hc
  | cacheCheck a =>
    simp only [step] at hs
    split at hs <;> try (simp at hs)
    rename_i hpa
    have hac : c ≠ a := by intro h; subst h; rw [hc] at hpa; cases hpa
    split at hs <;> simp at hs <;> subst hs <;> (simp only [upd_other _ _ _ _ hac]; exact hc)
  | doEnter a =>
    simp only [step] at hs
    split at hs <;> try (simp at hs)
    rename_i hpa
    have hac : c ≠ a := by intro h; subst h; rw [hc] at hpa; cases hpa
    split at hs <;> simp at hs <;> subst hs <;> (simp only [upd_other _ _ _ _ hac]; exact hc)
  | fnStart a =>
    simp only [step] at hs; split at hs <;> simp at hs
    rename_i hpa
    have hac : c ≠ a := by intro h; subst h; rw [hc] at hpa; cases hpa
    subst hs; simp only [upd_other _ _ _ _ hac]; exact hc
  | cacheSet a =>
    simp only [step] at hs
    split at hs <;> simp at hs
    all_goals
      rename_i hpa
      have hac : c ≠ a := by intro h; subst h; rw [hc] at hpa; cases hpa
      subst hs; simp only [upd_other _ _ _ _ hac]; exact hc
  | doFinish a =>
    simp only [step] at hs; split at hs <;> simp at hs
    rename_i hpa
    have hac : c ≠ a := by intro h; subst h; rw [hc] at hpa; cases hpa
    subst hs; simp only [upd_other _ _ _ _ hac]; exact hc
  | wake a =>
    simp only [step] at hs
    split at hs <;> try (simp at hs)
    rename_i hpa
    have hac : c ≠ a := by intro h; subst h; rw [hc] at hpa; cases hpa
    split at hs <;> simp at hs
    subst hs; simp only [upd_other _ _ _ _ hac]; exact hc

/-! ## every returned result has a source -/

theorem published {s : State} {l : Nat} {r : Res} (hl : Local cfg s l) (hr : s.result l = some r) :
    s.execRes l = some r ∧ s.started l = true := by
  unfold Local at hl
  split at hl <;> simp_all

/-- a caller that has returned `r` got either the value read from the cache by its `cacheCheck`, or
the result of the execution it led or joined — an execution for the same key that had started before
the caller returned -/
theorem result_has_source {s : State} (h : Reachable cfg (init c0 now0) s) (c : Nat) (r : Res)
    (hd : s.pc c = .done r) :
    (∃ v, r = .ok v ∧ s.src c = some (.hit v)) ∨
    (∃ l, s.src c = some (.exec l) ∧ cfg.key l = cfg.key c ∧ s.execRes l = some r ∧ s.started l = true) := by
  have hi := inv_reachable h
  have hl := hi.loc c
  simp only [Local, hd] at hl
  rcases hl with ⟨v, h1, h2, _⟩ | ⟨h1, h2, h3, _⟩ | ⟨l, h1, h2, h3, _⟩
  · exact Or.inl ⟨v, h1, h2⟩
  · exact Or.inr ⟨c, h1, rfl, h3, h2⟩
  · have := published (hi.loc l) h3
    exact Or.inr ⟨l, h1, h2, this.1, this.2⟩

/-- the value a hit returns is the one `Cache.Get` produced at that `cacheCheck` step -/
theorem hit_reads_cache {s s' : State} (c : Nat) (v : Int)
    (hs : step cfg s (.cacheCheck c) = some s') (hv : cellGet s.now (s.cache (cfg.key c)) = some v) :
    s'.pc c = .done (.ok v) ∧ s'.src c = some (.hit v) ∧ s'.started = s.started ∧ s'.cache = s.cache := by
  simp only [step] at hs
  split at hs <;> try (simp at hs)
  rw [hv] at hs
  simp only [Option.some.injEq] at hs
  subst hs
  simp

/-- every cached value was there at the start or is the successful result of an execution for that
very key (no contamination between keys) -/
theorem cached_value_origin {s : State} (h : Reachable cfg (init c0 now0) s) (k : Nat) (v e : Int)
    (hc : s.cache k = some (v, e)) :
    c0 k = some (v, e) ∨ ∃ l, cfg.key l = k ∧ s.execRes l = some (.ok v) :=
  (inv_reachable h).cach k v e hc

/-! ## callers that joined the same execution get the same result -/

theorem joiners_equal {s : State} (h : Reachable cfg (init c0 now0) s) (c c' l : Nat) (r r' : Res)
    (hs : s.src c = some (.exec l)) (hs' : s.src c' = some (.exec l))
    (hd : s.pc c = .done r) (hd' : s.pc c' = .done r') : r = r' := by
  rcases result_has_source h c r hd with ⟨v, _, h2⟩ | ⟨l1, h1, _, h3, _⟩
  · rw [hs] at h2; cases h2
  · rcases result_has_source h c' r' hd' with ⟨v, _, h2⟩ | ⟨l2, h1', _, h3', _⟩
    · rw [hs'] at h2; cases h2
    · rw [hs] at h1; rw [hs'] at h1'
      cases h1; cases h1'
      rw [h3] at h3'
      exact Option.some.inj h3'

/-! ## a live cached value is served and nothing runs -/

theorem reachable_trans {s0 s1 s2 : State} (h1 : Reachable cfg s0 s1) (h2 : Reachable cfg s1 s2) :
    Reachable cfg s0 s2 := by
  induction h2 with
  | refl => exact h1
  | step l _ hs ih => exact Reachable.step l ih hs

/-- a caller whose result is a cache hit has returned that value and its function has not been invoked -/
theorem hit_local {s : State} {c : Nat} {v : Int} (hl : Local cfg s c)
    (hs : s.src c = some (.hit v)) : s.pc c = .done (.ok v) ∧ s.started c = false := by
  unfold Local at hl
  split at hl
  all_goals (try simp_all)
  obtain ⟨v1, h1, h2, h3, _⟩ := hl
  subst h2
  exact ⟨h1, h3⟩

theorem hit_never_starts {s : State} (h : Reachable cfg (init c0 now0) s) (c : Nat) (v : Int)
    (hs : s.src c = some (.hit v)) : s.pc c = .done (.ok v) ∧ s.started c = false :=
  hit_local ((inv_reachable h).loc c) hs

theorem src_hit_stable {s s' : State} {l : Label} (hi : Inv cfg c0 s) (c : Nat) (v : Int)
    (hsrc : s.src c = some (.hit v)) (hs : step cfg s l = some s') : s'.src c = some (.hit v) := by
  have hpc : s.pc c = .done (.ok v) := (hit_local (hi.loc c) hsrc).1
  cases l with
  | cacheCheck a =>
    simp only [step] at hs
    split at hs <;> try (simp at hs)
    rename_i hpa
    have hne : c ≠ a := by intro hca; subst hca; rw [hpc] at hpa; cases hpa
    split at hs <;> simp at hs <;> subst hs
    · simp only [upd_other _ _ _ _ hne]; exact hsrc
    · exact hsrc
  | doEnter a =>
    simp only [step] at hs
    split at hs <;> try (simp at hs)
    rename_i hpa
    have hne : c ≠ a := by intro hca; subst hca; rw [hpc] at hpa; cases hpa
    split at hs <;> simp at hs <;> subst hs
    · simp only [upd_other _ _ _ _ hne]; exact hsrc
    · simp only [upd_other _ _ _ _ hne]; exact hsrc
  | invoke a => simp only [step] at hs; split at hs <;> simp at hs; subst hs; exact hsrc
  | fnStart a => simp only [step] at hs; split at hs <;> simp at hs; subst hs; exact hsrc
  | fnEnd a r => simp only [step] at hs; split at hs <;> simp at hs; subst hs; exact hsrc
  | cacheSet a => simp only [step] at hs; split at hs <;> simp at hs <;> subst hs <;> exact hsrc
  | doFinish a => simp only [step] at hs; split at hs <;> simp at hs; subst hs; exact hsrc
  | wake a =>
    simp only [step] at hs
    split at hs <;> try (simp at hs)
    split at hs <;> simp at hs
    subst hs; exact hsrc
  | tick d => simp only [step, Option.some.injEq] at hs; subst hs; exact hsrc

/-- if `cacheCheck` finds a live value, the caller returns exactly that value, and in every state
reachable afterwards — whatever everybody else does, however much time passes — the caller's function
has not been invoked -/
theorem live_value_served_without_invoking {s s1 s2 : State} (h : Reachable cfg (init c0 now0) s)
    (c : Nat) (v : Int) (hs : step cfg s (.cacheCheck c) = some s1)
    (hv : cellGet s.now (s.cache (cfg.key c)) = some v) (h2 : Reachable cfg s1 s2) :
    s2.pc c = .done (.ok v) ∧ s2.started c = false := by
  have h1 : Reachable cfg (init c0 now0) s1 := Reachable.step _ h hs
  have hsrc1 := (hit_reads_cache c v hs hv).2.1
  have hsrc2 : s2.src c = some (.hit v) := by
    induction h2 with
    | refl => exact hsrc1
    | step l hr hst ih => exact src_hit_stable (inv_reachable (reachable_trans h1 hr)) c v ih hst
  exact hit_never_starts (reachable_trans h1 h2) c v hsrc2

/-! ## errors are returned, never cached -/

/-- `cacheSet` after an error leaves the whole cache as it is -/
theorem error_not_cached {s s' : State} (c : Nat) (hpc : s.pc c = .ran .err)
    (hs : step cfg s (.cacheSet c) = some s') : s'.cache = s.cache := by
  simp only [step, hpc, Option.some.injEq] at hs
  subst hs; rfl

/-- no step other than a `cacheSet` that follows a successful execution touches the cache -/
theorem cache_written_only_on_success {s s' : State} (l : Label) (hs : step cfg s l = some s')
    (hne : s'.cache ≠ s.cache) : ∃ c v, l = .cacheSet c ∧ s.pc c = .ran (.ok v) := by
  cases l with
  | cacheSet a =>
    simp only [step] at hs
    split at hs <;> try (simp at hs)
    · rename_i v hpc; exact ⟨a, v, rfl, hpc⟩
    · subst hs; exact absurd rfl hne
  | invoke a => simp only [step] at hs; split at hs <;> simp at hs; subst hs; exact absurd rfl hne
  | cacheCheck a =>
    simp only [step] at hs
    split at hs <;> try (simp at hs)
    split at hs <;> simp at hs <;> subst hs <;> exact absurd rfl hne
  | doEnter a =>
    simp only [step] at hs
    split at hs <;> try (simp at hs)
    split at hs <;> simp at hs <;> subst hs <;> exact absurd rfl hne
  | fnStart a => simp only [step] at hs; split at hs <;> simp at hs; subst hs; exact absurd rfl hne
  | fnEnd a r => simp only [step] at hs; split at hs <;> simp at hs; subst hs; exact absurd rfl hne
  | doFinish a => simp only [step] at hs; split at hs <;> simp at hs; subst hs; exact absurd rfl hne
  | wake a =>
    simp only [step] at hs
    split at hs <;> try (simp at hs)
    split at hs <;> simp at hs
    subst hs; exact absurd rfl hne
  | tick d => simp only [step, Option.some.injEq] at hs; subst hs; exact absurd rfl hne

/-- after a history in which every execution for `k` failed, nothing is cached for `k` -/
theorem error_only_history_leaves_cache_empty {s : State} (h : Reachable cfg (init c0 now0) s) (k : Nat)
    (h0 : c0 k = none) (herr : ∀ l v, cfg.key l = k → s.execRes l ≠ some (.ok v)) : s.cache k = none := by
  cases hc : s.cache k with
  | none => rfl
  | some p =>
    obtain ⟨v, e⟩ := p
    rcases cached_value_origin h k v e hc with h1 | ⟨l, h1, h2⟩
    · rw [h0] at h1; cases h1
    · exact absurd h2 (herr l v h1)

/-- an error produced by the leader's function is what the leader and every joiner return: a caller
whose source is execution `l` returns `l`'s result, error included -/
theorem execution_result_returned {s : State} (h : Reachable cfg (init c0 now0) s) (c l : Nat) (r : Res)
    (hs : s.src c = some (.exec l)) (hd : s.pc c = .done r) : s.execRes l = some r := by
  rcases result_has_source h c r hd with ⟨v, _, h2⟩ | ⟨l1, h1, _, h3, _⟩
  · rw [hs] at h2; cases h2
  · rw [hs] at h1; cases h1; exact h3

/-! ## different keys do not block or contaminate each other -/

/-- frame: a step of caller `c` leaves every component of every other key and of every other caller
untouched (and the clock) -/
theorem step_frame {s s' : State} {l : Label} {c : Nat} (hc : l.caller = some c)
    (hs : step cfg s l = some s') :
    s'.now = s.now ∧
    (∀ k, k ≠ cfg.key c → s'.cache k = s.cache k ∧ s'.flight k = s.flight k ∧ s'.inflight k = s.inflight k) ∧
    (∀ c', c' ≠ c → s'.pc c' = s.pc c' ∧ s'.result c' = s.result c' ∧ s'.src c' = s.src c' ∧
        s'.started c' = s.started c' ∧ s'.execRes c' = s.execRes c') := by
  cases l with
  | tick d => simp [Label.caller] at hc
  | invoke a =>
    simp only [Label.caller, Option.some.injEq] at hc; subst hc
    simp only [step] at hs; split at hs <;> simp at hs; subst hs
    exact ⟨rfl, fun k _ => ⟨rfl, rfl, rfl⟩, fun c' h => ⟨upd_other _ _ _ _ h, rfl, rfl, rfl, rfl⟩⟩
  | cacheCheck a =>
    simp only [Label.caller, Option.some.injEq] at hc; subst hc
    simp only [step] at hs
    split at hs <;> try (simp at hs)
    split at hs <;> simp at hs <;> subst hs
    · exact ⟨rfl, fun k _ => ⟨rfl, rfl, rfl⟩, fun c' h => ⟨upd_other _ _ _ _ h, rfl, upd_other _ _ _ _ h, rfl, rfl⟩⟩
    · exact ⟨rfl, fun k _ => ⟨rfl, rfl, rfl⟩, fun c' h => ⟨upd_other _ _ _ _ h, rfl, rfl, rfl, rfl⟩⟩
  | doEnter a =>
    simp only [Label.caller, Option.some.injEq] at hc; subst hc
    simp only [step] at hs
    split at hs <;> try (simp at hs)
    split at hs <;> simp at hs <;> subst hs
    · exact ⟨rfl, fun k _ => ⟨rfl, rfl, rfl⟩, fun c' h => ⟨upd_other _ _ _ _ h, rfl, upd_other _ _ _ _ h, rfl, rfl⟩⟩
    · exact ⟨rfl, fun k hk => ⟨rfl, upd_other _ _ _ _ hk, rfl⟩,
        fun c' h => ⟨upd_other _ _ _ _ h, rfl, upd_other _ _ _ _ h, rfl, rfl⟩⟩
  | fnStart a =>
    simp only [Label.caller, Option.some.injEq] at hc; subst hc
    simp only [step] at hs; split at hs <;> simp at hs; subst hs
    exact ⟨rfl, fun k hk => ⟨rfl, rfl, upd_other _ _ _ _ hk⟩,
      fun c' h => ⟨upd_other _ _ _ _ h, rfl, rfl, upd_other _ _ _ _ h, rfl⟩⟩
  | fnEnd a r =>
    simp only [Label.caller, Option.some.injEq] at hc; subst hc
    simp only [step] at hs; split at hs <;> simp at hs; subst hs
    exact ⟨rfl, fun k hk => ⟨rfl, rfl, upd_other _ _ _ _ hk⟩,
      fun c' h => ⟨upd_other _ _ _ _ h, rfl, rfl, rfl, upd_other _ _ _ _ h⟩⟩
  | cacheSet a =>
    simp only [Label.caller, Option.some.injEq] at hc; subst hc
    simp only [step] at hs
    split at hs <;> simp at hs <;> subst hs
    · exact ⟨rfl, fun k hk => ⟨upd_other _ _ _ _ hk, rfl, rfl⟩, fun c' h => ⟨upd_other _ _ _ _ h, rfl, rfl, rfl, rfl⟩⟩
    · exact ⟨rfl, fun k _ => ⟨rfl, rfl, rfl⟩, fun c' h => ⟨upd_other _ _ _ _ h, rfl, rfl, rfl, rfl⟩⟩
  | doFinish a =>
    simp only [Label.caller, Option.some.injEq] at hc; subst hc
    simp only [step] at hs; split at hs <;> simp at hs; subst hs
    exact ⟨rfl, fun k hk => ⟨rfl, upd_other _ _ _ _ hk, rfl⟩,
      fun c' h => ⟨upd_other _ _ _ _ h, upd_other _ _ _ _ h, rfl, rfl, rfl⟩⟩
  | wake a =>
    simp only [Label.caller, Option.some.injEq] at hc; subst hc
    simp only [step] at hs
    split at hs <;> try (simp at hs)
    split at hs <;> simp at hs
    subst hs
    exact ⟨rfl, fun k _ => ⟨rfl, rfl, rfl⟩, fun c' h => ⟨upd_other _ _ _ _ h, rfl, rfl, rfl, rfl⟩⟩

theorem upd_agree {α : Type} {f g : Nat → α} {a : Nat} {b : α} {c : Nat} (h : f c = g c) :
    upd f a b c = upd g a b c := by
  simp only [upd_apply]
  split
  · rfl
  · exact h

/-- two states agree on everything that belongs to key `k` (and on the clock) -/
structure AgreeOn (cfg : Cfg) (k : Nat) (s t : State) : Prop where
  now : s.now = t.now
  cache : s.cache k = t.cache k
  flight : s.flight k = t.flight k
  pc : ∀ c, cfg.key c = k → s.pc c = t.pc c
  result : ∀ c, cfg.key c = k → s.result c = t.result c

/-- independence: whether a step of caller `c` is enabled, and what it does to the components of
`c`'s key, depends only on the components of that key — whatever the rest of the state (the other
keys' cache cells, flights, callers) looks like.  In particular a step on key `k` is never disabled
(and never changed) by anything that happens on a key `k' ≠ k`. -/
theorem step_depends_on_own_key_only {s s' t : State} {l : Label} {c : Nat}
    (hi : Inv cfg c0 s) (hc : l.caller = some c) (ha : AgreeOn cfg (cfg.key c) s t)
    (hs : step cfg s l = some s') :
    ∃ t', step cfg t l = some t' ∧ AgreeOn cfg (cfg.key c) s' t' := by
  obtain ⟨a1, a2, a3, a4, a5⟩ := ha
  have hpc := a4 c rfl
  cases l with
  | tick d => simp [Label.caller] at hc
  | invoke a =>
    simp only [Label.caller, Option.some.injEq] at hc; subst hc
    simp only [step] at hs ⊢
    rw [← hpc]
    split at hs <;> simp at hs; subst hs
    exact ⟨_, rfl, a1, a2, a3, fun c' h => upd_agree (a4 c' h), a5⟩
  | cacheCheck a =>
    simp only [Label.caller, Option.some.injEq] at hc; subst hc
    simp only [step] at hs ⊢
    rw [← hpc, ← a1, ← a2]
    split at hs <;> try (simp at hs)
    split at hs <;> simp at hs <;> subst hs
    · exact ⟨_, rfl, rfl, a2, a3, fun c' h => upd_agree (a4 c' h), a5⟩
    · exact ⟨_, rfl, rfl, a2, a3, fun c' h => upd_agree (a4 c' h), a5⟩
  | doEnter a =>
    simp only [Label.caller, Option.some.injEq] at hc; subst hc
    simp only [step] at hs ⊢
    rw [← hpc, ← a3]
    split at hs <;> try (simp at hs)
    split at hs <;> simp at hs <;> subst hs
    · exact ⟨_, rfl, a1, a2, a3, fun c' h => upd_agree (a4 c' h), a5⟩
    · exact ⟨_, rfl, a1, a2, by simp, fun c' h => upd_agree (a4 c' h), a5⟩
  | fnStart a =>
    simp only [Label.caller, Option.some.injEq] at hc; subst hc
    simp only [step] at hs ⊢
    rw [← hpc]
    split at hs <;> simp at hs; subst hs
    exact ⟨_, rfl, a1, a2, a3, fun c' h => upd_agree (a4 c' h), a5⟩
  | fnEnd a r =>
    simp only [Label.caller, Option.some.injEq] at hc; subst hc
    simp only [step] at hs ⊢
    rw [← hpc]
    split at hs <;> simp at hs; subst hs
    exact ⟨_, rfl, a1, a2, a3, fun c' h => upd_agree (a4 c' h), a5⟩
  | cacheSet a =>
    simp only [Label.caller, Option.some.injEq] at hc; subst hc
    simp only [step] at hs ⊢
    rw [← hpc, ← a1, ← a2]
    split at hs <;> simp at hs <;> subst hs
    · exact ⟨_, rfl, rfl, by simp, a3, fun c' h => upd_agree (a4 c' h), a5⟩
    · exact ⟨_, rfl, rfl, a2, a3, fun c' h => upd_agree (a4 c' h), a5⟩
  | doFinish a =>
    simp only [Label.caller, Option.some.injEq] at hc; subst hc
    simp only [step] at hs ⊢
    rw [← hpc]
    split at hs <;> simp at hs; subst hs
    exact ⟨_, rfl, a1, a2, by simp, fun c' h => upd_agree (a4 c' h), fun c' h => upd_agree (a5 c' h)⟩
  | wake a =>
    simp only [Label.caller, Option.some.injEq] at hc; subst hc
    simp only [step] at hs ⊢
    rw [← hpc]
    split at hs <;> try (simp at hs)
    rename_i l hpl
    have hl := hi.loc a
    simp only [Local, hpl] at hl
    rw [← a5 l hl.2.2.2.2]
    split at hs <;> simp at hs
    subst hs
    exact ⟨_, rfl, a1, a2, a3, fun c' h => upd_agree (a4 c' h), a5⟩

/-- a step of a caller of key `k` that is enabled stays enabled after any step of a caller of another key -/
theorem never_disabled_by_other_key {s s1 s2 : State} {l1 l2 : Label} {c c' : Nat}
    (h : Reachable cfg (init c0 now0) s) (hc : l1.caller = some c) (hc' : l2.caller = some c')
    (hk : cfg.key c ≠ cfg.key c') (h1 : step cfg s l1 = some s1) (h2 : step cfg s l2 = some s2) :
    ∃ s3, step cfg s2 l1 = some s3 ∧ AgreeOn cfg (cfg.key c) s1 s3 := by
  have hf := step_frame hc' h2
  have hne : ∀ x, cfg.key x = cfg.key c → x ≠ c' := by
    intro x hx hxc; subst hxc; exact hk hx.symm
  have hag : AgreeOn cfg (cfg.key c) s s2 :=
    { now := hf.1.symm
      cache := (hf.2.1 _ hk).1.symm
      flight := (hf.2.1 _ hk).2.1.symm
      pc := fun x hx => ((hf.2.2 x (hne x hx)).1).symm
      result := fun x hx => ((hf.2.2 x (hne x hx)).2.1).symm }
  exact step_depends_on_own_key_only (inv_reachable h) hc hag h1

/-! ## the LTS with a single caller is the sequential model, and that satisfies the specification -/

/-- a call that finds a live value: the script `invoke; cacheCheck` ends the call exactly as `memoizeSeq` says -/
theorem lts_seq_hit (s : State) (c : Nat) (lat : Int) (r : Res) (v : Int) (hpc : s.pc c = .idle)
    (hv : cellGet s.now (s.cache (cfg.key c)) = some v) :
    ∃ s', run cfg s [.invoke c, .cacheCheck c] = some s' ∧
      let m := memoizeSeq cfg.expTime s.now lat (s.cache (cfg.key c)) r
      s'.pc c = .done m.res ∧ s'.cache (cfg.key c) = m.cell ∧ s'.now = m.now ∧ m.ran = false ∧
      s'.started c = s.started c := by
  simp [run, step, hpc, hv, memoizeSeq]

/-- a call that finds nothing live, with nobody else in flight for its key: the full script ends the
call exactly as `memoizeSeq` says -/
theorem lts_seq_miss (s : State) (c : Nat) (lat : Nat) (r : Res) (hpc : s.pc c = .idle)
    (hf : s.flight (cfg.key c) = none)
    (hv : cellGet s.now (s.cache (cfg.key c)) = none) :
    ∃ s', run cfg s (seqScript c lat r) = some s' ∧
      let m := memoizeSeq cfg.expTime s.now lat (s.cache (cfg.key c)) r
      s'.pc c = .done m.res ∧ s'.cache (cfg.key c) = m.cell ∧ s'.now = m.now ∧ m.ran = true ∧
      s'.started c = true ∧ s'.flight (cfg.key c) = none := by
  cases r with
  | ok v => simp [run, step, seqScript, hpc, hv, hf, memoizeSeq]
  | err => simp [run, step, seqScript, hpc, hv, hf, memoizeSeq]

/-- the model's cache cell seen as the specification's entry -/
def absCell : Cell → Spec.C17.Entry
  | none => none
  | some (v, exp) => some (v, if exp > 0 then some exp else none)

theorem live_abs (now : Int) (c : Cell) : Spec.C17.live now (absCell c) = cellGet now c := by
  cases c with
  | none => rfl
  | some p =>
    obtain ⟨v, e⟩ := p
    simp only [absCell, cellGet]
    by_cases he : e > 0
    · simp only [he, if_true, Spec.C17.live]
      by_cases h2 : now > e
      · have : ¬ now ≤ e := by omega
        simp [h2, this]
      · have : now ≤ e := by omega
        simp [h2, this]
    · simp [he, Spec.C17.live]

theorem offer_abs (expTime now : Int) (c : Cell) (v : Int) (h0 : 0 ≤ now) :
    Spec.C17.offer expTime now (absCell c) v = absCell (cellSet expTime now c v) := by
  unfold Spec.C17.offer
  rw [live_abs]
  cases c with
  | none =>
    simp only [cellGet, cellSet, absCell, defaultExp]
    by_cases he : expTime > 0
    · have : now + expTime > 0 := by omega
      simp [he, this]
    · by_cases h2 : expTime < 0 <;> simp [he, h2]
  | some p =>
    obtain ⟨w, e⟩ := p
    simp only [cellGet, cellSet]
    by_cases he : e > 0
    · by_cases h2 : now > e
      · have h3 : ¬ e ≤ 0 := by omega
        have h4 : ¬ now ≤ e := by omega
        simp only [he, h2, if_true, h3, h4, decide_false, Bool.or_self, Bool.false_eq_true, if_false,
          absCell, defaultExp]
        by_cases h5 : expTime > 0
        · have : now + expTime > 0 := by omega
          simp [h5, this]
        · by_cases h6 : expTime < 0 <;> simp [h5, h6]
      · have h4 : now ≤ e := by omega
        simp [he, h2, h4]
    · have h3 : e ≤ 0 := by omega
      simp [he, h3]

/-- what the harness prints for a result -/
def outOf : Res → Int × Int
  | .ok v => (0, v)
  | .err => (1, 0)

/-- for every instant, latency, cache cell and function result, the sequential model of `Memoize`
answers exactly what the specification demands: a live value is served without running the function;
otherwise the function runs once, its result is returned, a success is cached (with the default
expiration, from the instant the function returns), an error is not -/
theorem memoizeSeq_meets_spec (expTime now lat : Int) (cell : Cell) (r : Res) (h0 : 0 ≤ now) (hl : 0 ≤ lat)
    (m : SeqOut) (hm : m = memoizeSeq expTime now lat cell r) :
    Spec.C17.seqCall expTime now lat (absCell cell) (outOf r).1 (outOf r).2 =
      (((outOf m.res).1, (outOf m.res).2, (if m.ran then 1 else 0), m.now - now), absCell m.cell) := by
  unfold Spec.C17.seqCall
  rw [live_abs]
  unfold memoizeSeq at hm
  cases hg : cellGet now cell with
  | some v =>
    simp only [hg] at hm ⊢
    subst hm
    simp [outOf]
  | none =>
    cases r with
    | ok v =>
      simp only [hg] at hm ⊢
      subst hm
      simp only [outOf]
      rw [offer_abs _ _ _ _ (by omega)]
      simp
      omega
    | err =>
      simp only [hg] at hm ⊢
      subst hm
      simp [outOf]
      omega

/-! ## non-vacuity: concrete runs of the LTS -/

/-- all callers use key 0 -/
def exCfg (e : Int) : Cfg := { expTime := e, key := fun _ => 0 }
def exInit : State := init (fun _ => none) 0

/-- two callers of key 0, the second joins the first's execution and both return its value 7; a third
caller, invoked 5 ms after the value was cached, is served from the cache and runs nothing -/
def exScript : List Label := [.invoke 1, .cacheCheck 1, .doEnter 1, .fnStart 1, .invoke 2, .cacheCheck 2,
  .doEnter 2, .tick 40, .fnEnd 1 (.ok 7), .cacheSet 1, .doFinish 1, .wake 2, .tick 5, .invoke 3, .cacheCheck 3]

example : (run (exCfg 30) exInit exScript).map (fun s => (s.pc 1, s.pc 2, s.pc 3)) =
    some (.done (.ok 7), .done (.ok 7), .done (.ok 7)) := by decide
example : (run (exCfg 30) exInit exScript).map (fun s => (s.src 2, s.src 3)) =
    some (some (.exec 1), some (.hit 7)) := by decide
example : (run (exCfg 30) exInit exScript).map (fun s => (s.inflight 0, s.cache 0, s.started 3)) =
    some (0, some (7, 70), false) := by decide

/-- a second `fnStart` for the same key is not enabled while the first is running -/
example :
    (run (exCfg 30) exInit [.invoke 1, .cacheCheck 1, .doEnter 1, .fnStart 1, .invoke 2,
      .cacheCheck 2, .doEnter 2, .fnStart 2]).isNone = true := by
  decide

/-- an error is returned to leader and joiner and leaves the cache empty -/
example :
    (run (exCfg (-1)) exInit [.invoke 1, .cacheCheck 1, .doEnter 1, .fnStart 1, .invoke 2, .cacheCheck 2,
      .doEnter 2, .fnEnd 1 .err, .cacheSet 1, .doFinish 1, .wake 2]).map
      (fun s => (s.pc 1, s.pc 2, s.cache 0)) = some (.done .err, .done .err, none) := by
  decide

/-- the race the property allows: caller 2 misses the cache before caller 1 has stored its value and
enters `Do` after caller 1 has left: it runs the function again (not overlapping), the cache keeps
the first value, caller 2 returns its own -/
example :
    (run (exCfg (-1)) exInit [.invoke 1, .invoke 2, .cacheCheck 1, .cacheCheck 2, .doEnter 1, .fnStart 1,
      .fnEnd 1 (.ok 7), .cacheSet 1, .doFinish 1, .doEnter 2, .fnStart 2, .fnEnd 2 (.ok 8), .cacheSet 2,
      .doFinish 2]).map (fun s => (s.pc 1, s.pc 2, s.cache 0, s.inflight 0)) =
    some (.done (.ok 7), .done (.ok 8), some (7, -1), 0) := by
  decide

example : memoizeSeq 30 100 5 (some (7, 90)) (.ok 8) =
    { cell := some (8, 135), res := .ok 8, ran := true, now := 105 } := by decide
example : memoizeSeq 30 90 5 (some (7, 90)) (.ok 8) =
    { cell := some (7, 90), res := .ok 7, ran := false, now := 90 } := by decide

end GoguVerif.Theorems.C17
