import GoguVerif.Lemmas.C14
/-!
# C14 — property theorems: map helpers select, transform and invert entries exactly

Every theorem is about the MODEL functions of `Model/C14.lean` (the Go loops) and holds for ALL
inputs.  A Go map is the list of its entries in the order in which this call's `range` visits them;
the only hypothesis on it is `WF m` (keys pairwise distinct), so each theorem holds for every
iteration order.  The specification clauses are those of `Spec/C14.lean`.
-/
set_option autoImplicit false
set_option linter.unusedSectionVars false
namespace GoguVerif.Theorems.C14
open GoguVerif.Model.C14 GoguVerif.Spec.C14 GoguVerif.Lemmas.C14

variable {K V R : Type}

/-! ## Keys / Values -/

/-- `Keys` never panics and lists every key exactly once (in this call's iteration order). -/
theorem keys_spec [Inhabited K] (m : GoMap K V) : ∃ r, Keys m = .ok r ∧ KeysSpec m r :=
  ⟨_, keys_eq m, List.Perm.refl _⟩

/-- `Values` never panics and lists the value of every entry exactly once. -/
theorem values_spec [Inhabited V] (m : GoMap K V) : ∃ r, Values m = .ok r ∧ ValuesSpec m r :=
  ⟨_, values_eq m, List.Perm.refl _⟩

example : Keys [((3 : Int), (7 : Int)), (1, 7)] = .ok [3, 1] := by decide

/-! ## Pick / PickBy / FilterMap / Omit / OmitBy -/

section select
variable [DecidableEq K]

theorem pick_eq_filter [Inhabited V] {m : GoMap K V} (h : WF m) (keys : List K) (hk : keys ≠ []) :
    Pick m keys = (m.filter (fun e => decide (e.1 ∈ keys)), false) := by
  have hl : keys.length ≠ 0 := by simpa using hk
  unfold Pick
  rw [if_neg hl, pickLoop_eq m keys h m [] (fun _ he => he) (by simpa using h)]
  simp [contains_eq]

/-- `Pick` returns exactly the entries whose key is listed (with no keys: nothing, and the error). -/
theorem pick_spec [Inhabited V] {m : GoMap K V} (h : WF m) (keys : List K) :
    PickSpec m keys (Pick m keys).1 ∧ ((Pick m keys).2 = true ↔ keys = []) := by
  by_cases hk : keys = []
  · subst hk
    refine ⟨⟨wf_nil, ?_, ?_⟩, ?_⟩ <;> simp [Pick]
  · rw [pick_eq_filter h keys hk]
    exact ⟨selectSpec_filter h _, by simp [hk]⟩

theorem omit_eq_filter {m : GoMap K V} (h : WF m) (keys : List K) :
    Omit m keys = m.filter (fun e => !decide (e.1 ∈ keys)) := by
  have := omitLoop_eq keys m [] (by simpa using h)
  simpa [Omit, contains_eq] using this

/-- `Omit` returns (its argument reduced to) exactly the entries whose key is not listed. -/
theorem omit_spec {m : GoMap K V} (h : WF m) (keys : List K) : OmitSpec m keys (Omit m keys) := by
  rw [omit_eq_filter h]
  exact selectSpec_filter h _

theorem pickBy_eq_filter [Inhabited V] {m : GoMap K V} (h : WF m) (fn : K → V → Bool) :
    PickBy m fn = m.filter (fun e => fn e.1 e.2) := by
  unfold PickBy
  rw [pickByLoop_eq m fn h m [] (fun _ he => he) (by simpa using h)]
  simp

theorem pickBy_spec [Inhabited V] {m : GoMap K V} (h : WF m) (fn : K → V → Bool) :
    PickBySpec m fn (PickBy m fn) := by
  rw [pickBy_eq_filter h]
  exact selectSpec_filter h _

theorem omitBy_eq_filter {m : GoMap K V} (h : WF m) (fn : K → V → Bool) :
    OmitBy m fn = m.filter (fun e => !fn e.1 e.2) := by
  have := omitByLoop_eq fn m [] (by simpa using h)
  simpa [OmitBy] using this

theorem omitBy_spec {m : GoMap K V} (h : WF m) (fn : K → V → Bool) :
    OmitBySpec m fn (OmitBy m fn) := by
  rw [omitBy_eq_filter h]
  exact selectSpec_filter h _

theorem filterMap_eq_filter {m : GoMap K V} (h : WF m) (fn : V → Bool) :
    FilterMap m fn = m.filter (fun e => fn e.2) := by
  unfold FilterMap
  rw [filterMapLoop_eq fn m [] (by simpa using h)]
  simp

theorem filterMap_spec {m : GoMap K V} (h : WF m) (fn : V → Bool) :
    FilterMapSpec m fn (FilterMap m fn) := by
  rw [filterMap_eq_filter h]
  exact selectSpec_filter h _

/-- Specification level: ANY answers that meet the selection clauses for a predicate and for its
negation partition the map. -/
theorem select_partition {m a b : AMap K V} {sel : K × V → Bool} (h : WF m)
    (ha : SelectSpec m sel a) (hb : SelectSpec m (fun e => !sel e) b) : PartitionSpec m a b := by
  unfold PartitionSpec
  have hnd : (a ++ b).Nodup := by
    rw [List.nodup_append]
    refine ⟨WF.nodup ha.1, WF.nodup hb.1, ?_⟩
    intro x hx y hy e
    subst e
    have h1 := (ha.2.1 x hx).2
    have h2 := (hb.2.1 x hy).2
    simp [h1] at h2
  rw [List.perm_ext_iff_of_nodup hnd (WF.nodup h)]
  intro e
  rw [List.mem_append]
  constructor
  · rintro (he | he)
    · exact (ha.2.1 e he).1
    · exact (hb.2.1 e he).1
  · intro he
    by_cases hs : sel e = true
    · exact Or.inl (ha.2.2 e he hs)
    · exact Or.inr (hb.2.2 e he (by simp [hs]))

/-- `Pick` and `Omit` with the same keys always partition the original map (also with no keys). -/
theorem pick_omit_partition [Inhabited V] {m : GoMap K V} (h : WF m) (keys : List K) :
    PartitionSpec m (Pick m keys).1 (Omit m keys) :=
  select_partition h (pick_spec h keys).1 (omit_spec h keys)

theorem pickBy_omitBy_partition [Inhabited V] {m : GoMap K V} (h : WF m) (fn : K → V → Bool) :
    PartitionSpec m (PickBy m fn) (OmitBy m fn) :=
  select_partition h (pickBy_spec h fn) (omitBy_spec h fn)

theorem filterMap_omitBy_partition {m : GoMap K V} (h : WF m) (fn : V → Bool) :
    PartitionSpec m (FilterMap m fn) (OmitBy m (fun _ v => fn v)) :=
  select_partition h (filterMap_spec h fn) (omitBy_spec h _)

/-- The answer of the selecting helpers does not depend on the iteration order (as a map). -/
theorem pick_order_independent [Inhabited V] {m m' : GoMap K V} (h : WF m) (hp : m.Perm m')
    (keys : List K) : (Pick m keys).1.Perm (Pick m' keys).1 := by
  have h' : WF m' := by unfold WF at *; exact (hp.map _).nodup_iff.mp h
  by_cases hk : keys = []
  · subst hk; simp [Pick]
  · rw [pick_eq_filter h keys hk, pick_eq_filter h' keys hk]
    exact hp.filter _

theorem omit_order_independent {m m' : GoMap K V} (h : WF m) (hp : m.Perm m')
    (keys : List K) : (Omit m keys).Perm (Omit m' keys) := by
  have h' : WF m' := by unfold WF at *; exact (hp.map _).nodup_iff.mp h
  rw [omit_eq_filter h, omit_eq_filter h']
  exact hp.filter _

-- non-vacuity: a well-formed map in a non-sorted order, a repeated and an absent key
example : WF [((2 : Int), (5 : Int)), (0, 6), (1, 5)] := by decide
example : Pick [((2 : Int), (5 : Int)), (0, 6), (1, 5)] [1, 2, 2, 9] = ([(2, 5), (1, 5)], false) := by decide
example : Omit [((2 : Int), (5 : Int)), (0, 6), (1, 5)] [1, 2, 2, 9] = [(0, 6)] := by decide
-- two iteration orders of the same map (hypothesis of the order-independence theorems)
example : [((2 : Int), (5 : Int)), (0, 6), (1, 5)].Perm [(0, 6), (1, 5), (2, 5)] := by decide

end select

/-! ## MapValues / MapKeys / Invert -/

section transform
variable [DecidableEq K]

theorem mapValues_eq_map {m : GoMap K V} (h : WF m) (fn : V → R) :
    MapValues m fn = m.map (fun e => (e.1, fn e.2)) := by
  unfold MapValues
  rw [mapValuesLoop_eq, foldPut_fresh]
  · simp
  · simpa [WF, List.map_map, Function.comp_def] using h

/-- `MapValues`: same keys, every value run through the callback. -/
theorem mapValues_spec {m : GoMap K V} (h : WF m) (fn : V → R) :
    MapValuesSpec m fn (MapValues m fn) := by
  rw [mapValues_eq_map h]
  exact List.Perm.refl _

/-- `MapKeys`: every entry of the result is the image of an entry of `m`, and the image key of every
entry of `m` is present (when keys collide, some pre-image wins).  Holds for every iteration order;
`m` need not even be well formed. -/
theorem mapKeys_spec [DecidableEq R] (m : GoMap K V) (fn : K → V → R) :
    MapKeysSpec m fn (MapKeys m fn) := by
  unfold MapKeys
  rw [mapKeysLoop_eq]
  refine ⟨wf_foldPut _ wf_nil, ?_, ?_⟩
  · intro e he
    rcases mem_foldPut_imp he with h | h
    · cases h
    · obtain ⟨e0, he0, rfl⟩ := List.mem_map.mp h
      exact ⟨e0, he0, rfl, rfl⟩
  · intro e0 he0
    have : fn e0.1 e0.2 ∈ (foldPut (m.map fun e => (fn e.1 e.2, e.2)) []).map Prod.fst := by
      rw [mem_keys_foldPut]
      exact Or.inr (List.mem_map.mpr ⟨(fn e0.1 e0.2, e0.2), List.mem_map.mpr ⟨e0, he0, rfl⟩, rfl⟩)
    obtain ⟨e, he, hk⟩ := List.mem_map.mp this
    exact ⟨e, he, hk⟩

/-- without collisions `MapKeys` is exactly the entry-wise image -/
theorem mapKeys_injective [DecidableEq R] (m : GoMap K V) (fn : K → V → R)
    (hinj : ((m.map fun e => fn e.1 e.2)).Nodup) :
    MapKeys m fn = m.map (fun e => (fn e.1 e.2, e.2)) := by
  unfold MapKeys
  rw [mapKeysLoop_eq, foldPut_fresh]
  · simp
  · simpa [WF, List.map_map, Function.comp_def] using hinj

theorem invert_eq [DecidableEq V] [Inhabited K] [Inhabited V] {m : GoMap K V} (h : WF m) :
    Invert m = .ok (foldPut (m.map fun e => (e.2, e.1)) []) := by
  unfold Invert
  rw [keys_eq]
  simp only [invertLoop_eq, List.map_map]
  congr 2
  apply List.map_congr_left
  intro e he
  simp [idx_of_mem h (show (e.1, e.2) ∈ m from he)]

/-- `Invert` never panics and maps every value back to a key that held it. -/
theorem invert_spec [DecidableEq V] [Inhabited K] [Inhabited V] {m : GoMap K V} (h : WF m) :
    ∃ r, Invert m = .ok r ∧ InvertSpec m r := by
  refine ⟨_, invert_eq h, wf_foldPut _ wf_nil, ?_, ?_⟩
  · intro e he
    rcases mem_foldPut_imp he with h' | h'
    · cases h'
    · obtain ⟨e0, he0, rfl⟩ := List.mem_map.mp h'
      exact he0
  · intro e0 he0
    have : e0.2 ∈ (foldPut (m.map fun e => (e.2, e.1)) []).map Prod.fst := by
      rw [mem_keys_foldPut]
      exact Or.inr (List.mem_map.mpr ⟨(e0.2, e0.1), List.mem_map.mpr ⟨e0, he0, rfl⟩, rfl⟩)
    obtain ⟨e, he, hk⟩ := List.mem_map.mp this
    exact ⟨e, he, hk⟩

/-- with pairwise distinct values `Invert` is exactly the swapped map -/
theorem invert_injective [DecidableEq V] [Inhabited K] [Inhabited V] {m : GoMap K V} (h : WF m)
    (hv : (m.map Prod.snd).Nodup) : Invert m = .ok (m.map fun e => (e.2, e.1)) := by
  rw [invert_eq h, foldPut_fresh]
  · simp
  · simpa [WF, List.map_map, Function.comp_def] using hv

example : MapKeys [((0 : Int), (1 : Int)), (2, 5), (3, 7)] (fun k _ => k.tdiv 2) = [(0, 1), (1, 7)] := by decide
-- hypotheses of the collision-free variants are satisfiable
example : ([((0 : Int), (1 : Int)), (2, 5), (3, 7)].map fun e => e.1 + e.2).Nodup := by decide
example : ([((0 : Int), (1 : Int)), (2, 5), (3, 7)].map Prod.snd).Nodup := by decide
example : Invert [((0 : Int), (1 : Int)), (2, 1), (3, 7)] = .ok [(1, 2), (7, 3)] := by decide

/-! ## SliceToMap -/

/-- `SliceToMap` panics exactly on unequal lengths; otherwise the result pairs positions, the last
occurrence of a key winning. -/
theorem sliceToMap_spec (s1 : List K) (s2 : List V) :
    SliceToMapSpec s1 s2 (match SliceToMap s1 s2 with | .ok r => some r | .panic => none) := by
  unfold SliceToMapSpec SliceToMap
  by_cases hl : s1.length = s2.length
  · refine ⟨fun hne => absurd hl hne, fun _ => ?_⟩
    have hne : ¬ s1.length ≠ s2.length := by simp [hl]
    rw [if_neg hne, sliceToMapLoop_eq s1 s2 hl s1.length 0 (by simp) []]
    refine ⟨_, rfl, wf_foldPut _ wf_nil, ?_, ?_⟩
    · intro e he
      have hg := get?_eq_some_of_mem (wf_foldPut ((s1.zip s2).drop 0) (wf_nil (K := K) (V := V))) (show (e.1, e.2) ∈ _ from he)
      rw [get?_foldPut] at hg
      unfold lastVal
      rw [lookup_eq_get?]
      simp only [List.drop_zero] at hg
      cases hc : get? (s1.zip s2).reverse e.1 with
      | some v => rw [hc] at hg; simpa using hg
      | none => rw [hc] at hg; simp [get?] at hg
    · intro k hk
      have : k ∈ (foldPut ((s1.zip s2).drop 0) ([] : GoMap K V)).map Prod.fst := by
        rw [mem_keys_foldPut]
        refine Or.inr ?_
        rw [List.drop_zero, List.map_fst_zip (by omega)]
        exact hk
      obtain ⟨e, he, hk'⟩ := List.mem_map.mp this
      exact ⟨e, he, hk'⟩
  · refine ⟨fun _ => ?_, fun h => absurd h hl⟩
    rw [if_pos hl]

example : SliceToMap [(1 : Int), 2, 1] [(5 : Int), 6, 7] = .ok [(1, 7), (2, 6)] := by decide
example : SliceToMap [(1 : Int), 2] [(5 : Int)] = .panic := by decide

end transform

/-! ## MapEvery / MapSome / MapContains -/

theorem mapEvery_spec (m : GoMap K V) (fn : V → Bool) : EverySpec m fn (MapEvery fn m) := by
  unfold EverySpec
  rw [mapEvery_eq, List.all_eq_true]

theorem mapSome_spec (m : GoMap K V) (fn : V → Bool) : SomeSpec m fn (MapSome fn m) := by
  unfold SomeSpec
  rw [mapSome_eq, List.any_eq_true]

theorem mapContains_spec [DecidableEq V] (m : GoMap K V) (x : V) : ContainsSpec m x (MapContains x m) := by
  unfold ContainsSpec
  rw [mapContains_eq, List.any_eq_true]
  simp

/-! ## Find / FindKey / FindByKey -/

/-- `FindKey` returns the key of SOME qualifying entry (the first one this call's iteration meets);
the zero value when none qualifies.  For every iteration order. -/
theorem findKey_spec [Inhabited K] (m : GoMap K V) (fn : V → Bool) : FindKeySpec m fn (FindKey fn m) := by
  unfold FindKeySpec
  rw [findKey_eq]
  cases hf : m.find? (fun e => fn e.2) with
  | some e =>
    have hq : fn e.2 = true := by simpa using List.find?_some hf
    have hm : e ∈ m := List.mem_of_find?_eq_some hf
    exact ⟨fun _ => ⟨e, hm, rfl, hq⟩, fun hn => absurd ⟨e, hm, hq⟩ hn⟩
  | none =>
    rw [List.find?_eq_none] at hf
    refine ⟨fun ⟨e, hm, hq⟩ => absurd hq (hf e hm), fun _ => rfl⟩

theorem findByKey_spec [DecidableEq K] (m : GoMap K V) (fn : K → Bool) :
    FindByKeySpec m fn (FindByKey fn m) := by
  unfold FindByKeySpec
  rw [findByKey_eq]
  cases hf : m.find? (fun e => fn e.1) with
  | some e =>
    have hq : fn e.1 = true := by simpa using List.find?_some hf
    have hm : e ∈ m := List.mem_of_find?_eq_some hf
    exact ⟨fun _ => ⟨e, hm, rfl, hq⟩, fun hn => absurd ⟨e, hm, hq⟩ hn⟩
  | none =>
    rw [List.find?_eq_none] at hf
    refine ⟨fun ⟨e, hm, hq⟩ => absurd hq (hf e hm), fun _ => rfl⟩

/-- `Find` never panics and returns the qualifying entry with the smallest key (nothing when no entry
qualifies), whatever the iteration order. -/
theorem find_spec [Inhabited V] {m : GoMap Int V} (h : WF m) (fn : V → Bool) :
    ∃ r, Find m fn = .ok r ∧ FindSpec m fn r := by
  have hk : keysLoop m (List.replicate m.length default) 0 = .ok (m.map Prod.fst) := by
    have := keysLoop_pad (default : Int) m []
    simpa using this
  refine ⟨findLoop m fn (sortKeys (m.map Prod.fst)), by unfold Find; rw [hk], ?_⟩
  rw [findLoop_eq]
  have hperm := sortKeys_perm (m.map Prod.fst)
  have hsorted := sortKeys_sorted (m.map Prod.fst)
  unfold FindSpec
  cases hf : (sortKeys (m.map Prod.fst)).find? (fun k => fn (idx m k)) with
  | none =>
    rw [List.find?_eq_none] at hf
    have hno : ¬ ∃ e ∈ m, fn e.2 = true := by
      rintro ⟨e, hm, hq⟩
      have hmem : e.1 ∈ sortKeys (m.map Prod.fst) := hperm.mem_iff.mpr (List.mem_map_of_mem hm)
      have := hf e.1 hmem
      rw [idx_of_mem h (show (e.1, e.2) ∈ m from hm)] at this
      exact this hq
    exact ⟨fun hex => absurd hex hno, fun _ => rfl⟩
  | some k =>
    obtain ⟨as, bs, hsplit, hbefore⟩ := List.find?_eq_some_iff_append.mp hf |>.2
    have hq : fn (idx m k) = true := by simpa using List.find?_some hf
    have hkmem : k ∈ m.map Prod.fst := hperm.mem_iff.mp (List.mem_of_find?_eq_some hf)
    obtain ⟨e, hm, hek⟩ := List.mem_map.mp hkmem
    have hidx : idx m k = e.2 := by
      subst hek; exact idx_of_mem h (show (e.1, e.2) ∈ m from hm)
    refine ⟨fun _ => ⟨e, hm, ?_, ?_, ?_⟩, fun hn => absurd ⟨e, hm, by rw [← hidx]; exact hq⟩ hn⟩
    · show [(k, idx m k)] = [e]
      rw [hidx, ← hek]
    · rw [← hidx]; exact hq
    · intro e' hm' hq'
      have hmem' : e'.1 ∈ sortKeys (m.map Prod.fst) := hperm.mem_iff.mpr (List.mem_map_of_mem hm')
      rw [hsplit] at hmem' hsorted
      rw [List.mem_append, List.mem_cons] at hmem'
      rcases hmem' with hin | heq | hin
      · have := hbefore e'.1 hin
        rw [idx_of_mem h (show (e'.1, e'.2) ∈ m from hm')] at this
        simp [hq'] at this
      · rw [hek, heq]; exact Int.le_refl _
      · rw [List.pairwise_append] at hsorted
        have := (List.pairwise_cons.mp hsorted.2.1).1 e'.1 hin
        rw [hek]; exact this

example : Find [((5 : Int), (2 : Int)), (1, 3), (3, 2), (4, 2)] (fun v => v == 2) = .ok [(3, 2)] := by decide

/-- Consequently `Find`'s answer does not depend on the iteration order at all. -/
theorem find_order_independent [Inhabited V] {m m' : GoMap Int V} (h : WF m) (hp : m.Perm m')
    (fn : V → Bool) : Find m fn = Find m' fn := by
  have h' : WF m' := by unfold WF at *; exact (hp.map _).nodup_iff.mp h
  obtain ⟨r, hr, hs⟩ := find_spec h fn
  obtain ⟨r', hr', hs'⟩ := find_spec h' fn
  rw [hr, hr']
  congr 1
  by_cases hex : ∃ e ∈ m, fn e.2 = true
  · have hex' : ∃ e ∈ m', fn e.2 = true := by
      obtain ⟨e, hm, hq⟩ := hex; exact ⟨e, hp.mem_iff.mp hm, hq⟩
    obtain ⟨e, hm, rfl, hq, hmin⟩ := hs.1 hex
    obtain ⟨e', hm', rfl, hq', hmin'⟩ := hs'.1 hex'
    have h1 := hmin e' (hp.mem_iff.mpr hm') hq'
    have h2 := hmin' e (hp.mem_iff.mp hm) hq
    have hk : e.1 = e'.1 := Int.le_antisymm h1 h2
    have hv : e.2 = e'.2 := WF.unique h (show (e.1, e.2) ∈ m from hm)
      (show (e.1, e'.2) ∈ m by rw [hk]; exact hp.mem_iff.mpr hm')
    rw [show e = e' from Prod.ext hk hv]
  · have hex' : ¬ ∃ e ∈ m', fn e.2 = true := by
      rintro ⟨e, hm, hq⟩; exact hex ⟨e, hp.mem_iff.mpr hm, hq⟩
    rw [hs.2 hex, hs'.2 hex']

/-! ## Pluck -/

/-- `Pluck`: the value under the key from each map that has it, in the order of the slice — whatever
the iteration order inside each map. -/
theorem pluck_spec [DecidableEq K] [Inhabited V] (maps : List (GoMap K V)) (key : K) :
    PluckSpec maps key (Pluck maps key) := by
  unfold PluckSpec Pluck
  rw [pluckLoop_eq]
  simp

/-! ## FilterMapCollection / Filter2DMapCollection / PartitionMap -/

/-- each map with a qualifying value is kept exactly once, in order -/
theorem filterMapCollection_spec (coll : List (GoMap K V)) (fn : V → Bool) :
    FilterCollSpec coll fn (FilterMapCollection coll fn) := by
  unfold FilterCollSpec FilterMapCollection
  rw [filterCollLoop_eq]
  simp

theorem filter2DMapCollection_spec (coll : List (GoMap K (GoMap K V))) (fn : GoMap K V → Bool) :
    FilterCollSpec coll fn (Filter2DMapCollection coll fn) := by
  unfold FilterCollSpec Filter2DMapCollection
  rw [filterCollLoop_eq]
  simp

/-- every non-empty map is routed by the predicate, empty maps are dropped, order is kept, and the
maps themselves are unchanged -/
theorem partitionMap_spec [DecidableEq K] (coll : List (GoMap K V)) (fn : GoMap K V → Bool) :
    PartitionMapSpec coll fn (PartitionMap coll fn) := by
  unfold PartitionMapSpec PartitionMap
  rw [partitionLoop_eq]
  simp

example : FilterMapCollection [[((0 : Int), (2 : Int)), (1, 2)], [(0, 1)], [(5, 2)]] (fun v => v == 2)
    = [[(0, 2), (1, 2)], [(5, 2)]] := by decide

/-! ## MapUnique -/

/-- `MapUnique` keeps exactly one entry per distinct value (which one is up to the iteration order). -/
theorem mapUnique_spec [DecidableEq K] [DecidableEq V] {m : GoMap K V} (h : WF m) :
    MapUniqueSpec m (MapUnique m) := by
  have := mapUniqueLoop_spec m [] ([] : GoMap V Bool) (by simp) (by simpa using h) (by simp)
  obtain ⟨h1, h2, h3, _, h5⟩ := this
  refine ⟨h1, ?_, h3, h5⟩
  intro e he
  rcases h2 e he with h | h
  · cases h
  · exact h

example : MapUnique [((0 : Int), (1 : Int)), (4, 1), (2, 3), (3, 1)] = [(0, 1), (2, 3)] := by decide

/-! ## The specification pins the order-independent answers down up to the order of the entries -/

/-- Two answers that both meet a selection clause are the same map: so `Pick`, `PickBy`,
`FilterMap`, `Omit`, `OmitBy` give the same map for every iteration order. -/
theorem selectSpec_unique [DecidableEq K] {m a b : AMap K V} {sel : K × V → Bool}
    (ha : SelectSpec m sel a) (hb : SelectSpec m sel b) : a.Perm b := by
  rw [List.perm_ext_iff_of_nodup (WF.nodup ha.1) (WF.nodup hb.1)]
  intro e
  constructor
  · intro he; exact hb.2.2 e (ha.2.1 e he).1 (ha.2.1 e he).2
  · intro he; exact ha.2.2 e (hb.2.1 e he).1 (hb.2.1 e he).2

theorem selectSpec_perm {m m' r : AMap K V} {sel : K × V → Bool} (hp : m.Perm m')
    (h : SelectSpec m sel r) : SelectSpec m' sel r :=
  ⟨h.1, fun e he => ⟨hp.mem_iff.mp (h.2.1 e he).1, (h.2.1 e he).2⟩,
    fun e he hs => h.2.2 e (hp.mem_iff.mpr he) hs⟩

theorem wf_perm {m m' : AMap K V} (h : WF m) (hp : m.Perm m') : WF m' := by
  unfold WF at *; exact (hp.map _).nodup_iff.mp h

theorem pickBy_order_independent [DecidableEq K] [Inhabited V] {m m' : GoMap K V} (h : WF m)
    (hp : m.Perm m') (fn : K → V → Bool) : (PickBy m fn).Perm (PickBy m' fn) :=
  selectSpec_unique (selectSpec_perm hp (pickBy_spec h fn)) (pickBy_spec (wf_perm h hp) fn)

theorem omitBy_order_independent [DecidableEq K] {m m' : GoMap K V} (h : WF m)
    (hp : m.Perm m') (fn : K → V → Bool) : (OmitBy m fn).Perm (OmitBy m' fn) :=
  selectSpec_unique (selectSpec_perm hp (omitBy_spec h fn)) (omitBy_spec (wf_perm h hp) fn)

theorem filterMap_order_independent [DecidableEq K] {m m' : GoMap K V} (h : WF m)
    (hp : m.Perm m') (fn : V → Bool) : (FilterMap m fn).Perm (FilterMap m' fn) :=
  selectSpec_unique (selectSpec_perm hp (filterMap_spec h fn)) (filterMap_spec (wf_perm h hp) fn)

theorem mapValues_order_independent [DecidableEq K] {m m' : GoMap K V} (h : WF m)
    (hp : m.Perm m') (fn : V → R) : (MapValues m fn).Perm (MapValues m' fn) := by
  rw [mapValues_eq_map h, mapValues_eq_map (wf_perm h hp)]
  exact hp.map _

/-- the Boolean helpers cannot depend on the iteration order either -/
theorem mapEvery_order_independent {m m' : GoMap K V} (hp : m.Perm m') (fn : V → Bool) :
    MapEvery fn m = MapEvery fn m' := by
  have h1 := mapEvery_spec m fn
  have h2 := mapEvery_spec m' fn
  unfold EverySpec at h1 h2
  have : (MapEvery fn m = true) ↔ (MapEvery fn m' = true) := by
    rw [h1, h2]
    exact ⟨fun h e he => h e (hp.mem_iff.mpr he), fun h e he => h e (hp.mem_iff.mp he)⟩
  cases hm : MapEvery fn m <;> cases hm' : MapEvery fn m' <;> simp [hm, hm'] at this ⊢

theorem mapSome_order_independent {m m' : GoMap K V} (hp : m.Perm m') (fn : V → Bool) :
    MapSome fn m = MapSome fn m' := by
  have h1 := mapSome_spec m fn
  have h2 := mapSome_spec m' fn
  unfold SomeSpec at h1 h2
  have : (MapSome fn m = true) ↔ (MapSome fn m' = true) := by
    rw [h1, h2]
    exact ⟨fun ⟨e, he, hq⟩ => ⟨e, hp.mem_iff.mp he, hq⟩, fun ⟨e, he, hq⟩ => ⟨e, hp.mem_iff.mpr he, hq⟩⟩
  cases hm : MapSome fn m <;> cases hm' : MapSome fn m' <;> simp [hm, hm'] at this ⊢

/-! ## Negation witness for the repaired defect F25 (commit ebbf64a)

Before the repair the inner loop of the collection filters had no `break`; the model of THAT loop
violates the specification on a map with two qualifying values (kernel-checked), which is the trace
`corpus/C14/f25_collection_filter_appends_once_per_value.trace`. -/

/-- the pre-repair inner loop: `for _, v := range item { if fn(v) { filtered = append(filtered, item) } }` -/
def filterInnerPreFix (fn : V → Bool) (item : GoMap K V) :
    GoMap K V → List (GoMap K V) → List (GoMap K V)
  | [], filtered => filtered
  | (_, v) :: r, filtered =>
    if fn v then filterInnerPreFix fn item r (filtered ++ [item]) else filterInnerPreFix fn item r filtered

example : ¬ FilterCollSpec [[((0 : Int), (0 : Int)), (1, 0)]] (fun v => v.tmod 2 == 0)
    (filterInnerPreFix (fun v => v.tmod 2 == 0) [(0, 0), (1, 0)] [(0, 0), (1, 0)] []) := by decide

end GoguVerif.Theorems.C14
