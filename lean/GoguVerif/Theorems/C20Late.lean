import GoguVerif.Lemmas.C20T
/-!
# C20 — the throttle when timers run late (finding F36) and the callback as it is in the code

Two things.

1. `trunCode_eq_trun`: the executable model that the driver runs (`tstepCode`, with `fireCode` = the callback
   `trail` of func.go statement by statement, including its re-check of the period) computes, with punctual
   timers, exactly what the model of the C20 theorems (`tstep`, `fire`) computes — for every history and every
   choice function.  So every theorem of `Theorems/C20.lean` about `trun` is a theorem about `trunCode`.

2. `late_spacing`: in the system where the runtime may run the trailing timer's callback at ANY instant at or after
   its deadline (`lateStep`: the same transition functions, the environment chooses when `trail` runs), consecutive
   permissions are still at least one period apart — strictly more when not trailing.  This removes the assumption
   "timers fire punctually" from the throttle's safety clause.  `late_old_violates` is the kernel-checked witness
   that the callback before the repair (F36: it granted unconditionally) hands out two permissions 5 ms apart
   with a period of 40 ms; the same history on the real code is the replay in `corpus/C20/f36-late-timer.trace`.
-/
namespace GoguVerif.Theorems.C20Late
open GoguVerif.Spec.C20 GoguVerif.Model.C20 GoguVerif.Lemmas.C20T

/-! ## 1. the callback as in the code = the punctual simplification, on every reachable state -/

theorem fireCode_eq_fire {cfg : TCfg} {s : TState} (ch : Choice) (sc : Sched) (h : TInv cfg s)
    (hsc : s.scheduled = some sc) :
    fireCode cfg ch { s with now := max s.now sc.deadline } sc = fire ch { s with now := max s.now sc.deadline } sc := by
  obtain ⟨_, h2, h3, h4, _, _, _⟩ := h.sched sc hsc
  have hmax : max s.now sc.deadline = sc.deadline := Int.max_eq_right h3
  rw [hmax]
  unfold fireCode fire
  simp only [h2, h4, Bool.false_eq_true, or_false]
  by_cases hs : s.stop = true
  · simp [hs]
  · simp only [hs]
    have : ¬ (sc.deadline - (sc.deadline - (cfg.dur : Int)) < (cfg.dur : Int)) := by omega
    simp only [this, if_false]

theorem advanceToCode_eq {cfg : TCfg} {s : TState} (ch : Choice) (f : Nat) (target : Int) (h : TInv cfg s) :
    advanceToCode cfg ch (f + 2) s target = advanceTo ch s target := by
  rcases s with ⟨now, n, last, waiting, stop, scheduled, blocked, grants, falses, doneLog, wsrc, calls⟩
  cases scheduled with
  | none => unfold advanceToCode advanceTo; rfl
  | some sc =>
    have hfe := fireCode_eq_fire ch sc h rfl
    have hnone := fire_scheduled (s := { (TState.mk now n last waiting stop (some sc) blocked grants falses doneLog wsrc calls)
      with now := max now sc.deadline }) ch sc
    unfold advanceToCode advanceTo
    simp only at hfe hnone ⊢
    by_cases hd : sc.deadline ≤ target
    · simp only [hd, if_true]
      rw [hfe]
      unfold advanceToCode
      rw [hnone]
    · simp only [hd, if_false]

theorem tstepCode_eq {cfg : TCfg} {s : TState} (ch : Choice) (e : TEv) (h : TInv cfg s) :
    tstepCode cfg ch s e = tstep cfg ch s e := by
  have h3 : (3 : Nat) = 1 + 2 := rfl
  cases e with
  | call =>
    show ({ advanceToCode cfg ch 3 (tcall cfg ch s) _ with n := _ } : TState) = _
    rw [h3, advanceToCode_eq ch 1 _ (tcall_inv ch h)]; rfl
  | cancel =>
    show ({ advanceToCode cfg ch 3 (tcancel s) _ with n := _ } : TState) = _
    rw [h3, advanceToCode_eq ch 1 _ (tcancel_inv h)]; rfl
  | next id =>
    show ({ advanceToCode cfg ch 3 (tnext s id) _ with n := _ } : TState) = _
    rw [h3, advanceToCode_eq ch 1 _ (tnext_inv id h)]; rfl
  | advance dt =>
    show ({ advanceToCode cfg ch 3 s _ with n := _ } : TState) = _
    rw [h3, advanceToCode_eq ch 1 _ h]; rfl

/-- **The executable model with the callback as in the code = the model of the C20 theorems**, for every
history, period, trailing flag and choice function. -/
theorem trunCode_eq_trun (cfg : TCfg) (ch : Choice) (evs : List TEv) : trunCode cfg ch evs = trun cfg ch evs := by
  have key : ∀ (evs : List TEv) (s : TState), TInv cfg s →
      evs.foldl (tstepCode cfg ch) s = evs.foldl (tstep cfg ch) s := by
    intro evs
    induction evs with
    | nil => intro s _; rfl
    | cons e r ih =>
      intro s hs
      simp only [List.foldl_cons]
      rw [tstepCode_eq ch e hs]
      exact ih _ (tstep_inv ch e hs)
  exact key evs {} (tinv_init cfg)

/-! ## 2. timers that run late -/

/-- the invariant of the late-timer system -/
structure LInv (cfg : TCfg) (s : TState) : Prop where
  last_eq : s.last = (s.grants.getLast?).map (·.t)
  last_le : ∀ l, s.last = some l → l ≤ s.now
  /-- a permission is waiting only when the period that began with the last permission is over -/
  wait : s.waiting = true → s.stop = false → ∀ l, s.last = some l → gapOK cfg.dur cfg.trailing l s.now = true
  notrail : cfg.trailing = false → s.scheduled = none
  spaced : spacedOK cfg.dur cfg.trailing (s.grants.map (·.t)) = true

theorem linv_init (cfg : TCfg) : LInv cfg {} where
  last_eq := rfl
  last_le := by intro l h; cases h
  wait := by intro h; cases h
  notrail := fun _ => rfl
  spaced := rfl

theorem LInv.set_n {cfg s} (h : LInv cfg s) (k : Nat) : LInv cfg { s with n := k } :=
  ⟨h.last_eq, h.last_le, h.wait, h.notrail, h.spaced⟩

theorem grantTo_linv {cfg : TCfg} {s : TState} (id : Nat) (h : LInv cfg s)
    (hg : ∀ l, s.last = some l → gapOK cfg.dur cfg.trailing l s.now = true) : LInv cfg (grantTo s id) where
  last_eq := by
    show some s.now = ((s.grants ++ [_]).getLast?).map Grant.t
    rw [List.getLast?_append]
    simp
  last_le := by
    intro l hl
    have : some s.now = some l := hl
    cases this
    exact Int.le_refl _
  wait := by intro hw; cases hw
  notrail := h.notrail
  spaced := by
    show spacedOK cfg.dur cfg.trailing ((s.grants ++ [_]).map Grant.t) = true
    rw [List.map_append, List.map_cons, List.map_nil, spacedOK_snoc, h.spaced, Bool.true_and]
    have hl : (s.grants.map (·.t)).getLast? = s.last := by rw [h.last_eq, List.getLast?_map]
    rw [hl]
    cases hs : s.last with
    | none => rfl
    | some l => exact hg l hs

theorem wake_linv {cfg : TCfg} {s : TState} (ch : Choice) (w : Int × Nat) (h : LInv cfg s)
    (hg : ∀ l, s.last = some l → gapOK cfg.dur cfg.trailing l s.now = true) : LInv cfg (wake ch s w) := by
  unfold wake
  simp only
  cases hb : s.blocked with
  | nil => exact ⟨h.last_eq, h.last_le, fun _ _ => hg, h.notrail, h.spaced⟩
  | cons b bs =>
    simp only
    exact grantTo_linv _ (s := { s with waiting := true, wsrc := w, blocked := _ })
      ⟨h.last_eq, h.last_le, fun _ _ => hg, h.notrail, h.spaced⟩ hg

theorem tcall_linv {cfg : TCfg} {s : TState} (ch : Choice) (h : LInv cfg s) : LInv cfg (tcall cfg ch s) := by
  rcases s with ⟨now, n, last, waiting, stop, scheduled, blocked, grants, falses, doneLog, wsrc, calls⟩
  have hl : LInv cfg (logCall ⟨now, n, last, waiting, stop, scheduled, blocked, grants, falses, doneLog, wsrc, calls⟩) :=
    ⟨h.last_eq, h.last_le, h.wait, h.notrail, h.spaced⟩
  unfold tcall
  simp only
  by_cases hc : waiting = false ∧ stop = false
  · have hc' : (logCall ⟨now, n, last, waiting, stop, scheduled, blocked, grants, falses, doneLog, wsrc, calls⟩).waiting = false ∧
        (logCall ⟨now, n, last, waiting, stop, scheduled, blocked, grants, falses, doneLog, wsrc, calls⟩).stop = false := hc
    rw [if_pos hc']
    cases last with
    | none =>
      exact wake_linv ch _ hl (by intro l hl'; cases hl')
    | some l =>
      show LInv cfg (if now - l > cfg.dur then _ else _)
      by_cases hd : now - l > cfg.dur
      · rw [if_pos hd]
        refine wake_linv ch _ hl ?_
        intro l' hl'
        cases hl'
        show gapOK cfg.dur cfg.trailing l now = true
        unfold gapOK
        cases cfg.trailing <;> simp <;> omega
      · rw [if_neg hd]
        by_cases ht : cfg.trailing = true ∧ scheduled = none
        · have ht' : cfg.trailing = true ∧
              (logCall ⟨now, n, some l, waiting, stop, scheduled, blocked, grants, falses, doneLog, wsrc, calls⟩).scheduled = none := ht
          rw [if_pos ht']
          exact ⟨hl.last_eq, hl.last_le, hl.wait, (by intro hf; rw [ht.1] at hf; cases hf), hl.spaced⟩
        · have ht' : ¬ (cfg.trailing = true ∧
              (logCall ⟨now, n, some l, waiting, stop, scheduled, blocked, grants, falses, doneLog, wsrc, calls⟩).scheduled = none) := ht
          rw [if_neg ht']; exact hl
  · have hc' : ¬ ((logCall ⟨now, n, last, waiting, stop, scheduled, blocked, grants, falses, doneLog, wsrc, calls⟩).waiting = false ∧
        (logCall ⟨now, n, last, waiting, stop, scheduled, blocked, grants, falses, doneLog, wsrc, calls⟩).stop = false) := hc
    rw [if_neg hc']; exact hl

theorem tnext_linv {cfg : TCfg} {s : TState} (id : Nat) (h : LInv cfg s) : LInv cfg (tnext s id) := by
  unfold tnext
  by_cases hc : s.waiting = true ∨ s.stop = true
  · rw [if_pos hc]
    by_cases hs : s.stop = false
    · rw [if_pos hs]
      have hw : s.waiting = true := by
        cases hc with
        | inl hw => exact hw
        | inr hst => rw [hs] at hst; cases hst
      exact grantTo_linv id h (h.wait hw hs)
    · rw [if_neg hs]
      exact ⟨h.last_eq, h.last_le, h.wait, h.notrail, h.spaced⟩
  · rw [if_neg hc]
    exact ⟨h.last_eq, h.last_le, h.wait, h.notrail, h.spaced⟩

theorem tcancel_linv {cfg : TCfg} {s : TState} (h : LInv cfg s) : LInv cfg (tcancel s) :=
  ⟨h.last_eq, h.last_le, (by intro _ hs; cases hs), h.notrail, h.spaced⟩

theorem tick_linv {cfg : TCfg} {s : TState} (dt : Nat) (h : LInv cfg s) : LInv cfg { s with now := s.now + dt } where
  last_eq := h.last_eq
  last_le := by intro l hl; have := h.last_le l hl; show l ≤ s.now + dt; omega
  wait := by
    intro hw hs l hl
    exact gapOK_mono (h.wait hw hs l hl) (by show s.now ≤ s.now + dt; omega)
  notrail := h.notrail
  spaced := h.spaced

/-- the callback `trail`, run at ANY instant: it grants only when the period since the last permission is over -/
theorem fireCode_linv {cfg : TCfg} {s : TState} (ch : Choice) (sc : Sched) (h : LInv cfg s)
    (hsc : s.scheduled = some sc) : LInv cfg (fireCode cfg ch s sc) := by
  have htr : cfg.trailing = true := by
    cases ht : cfg.trailing with
    | true => rfl
    | false => have := h.notrail ht; rw [hsc] at this; cases this
  rcases s with ⟨now, n, last, waiting, stop, scheduled, blocked, grants, falses, doneLog, wsrc, calls⟩
  have hb : LInv cfg ⟨now, n, last, waiting, stop, none, blocked, grants, falses, doneLog, wsrc, calls⟩ :=
    ⟨h.last_eq, h.last_le, h.wait, fun _ => rfl, h.spaced⟩
  unfold fireCode
  simp only
  by_cases hc : stop = true ∨ waiting = true
  · rw [if_pos hc]; exact hb
  · rw [if_neg hc]
    cases last with
    | none =>
      exact wake_linv ch _ hb (by intro l hl'; cases hl')
    | some l =>
      show LInv cfg (if now - l < cfg.dur then _ else _)
      by_cases hd : now - l < cfg.dur
      · rw [if_pos hd]
        exact ⟨h.last_eq, h.last_le, h.wait, (by intro hf; rw [htr] at hf; cases hf), h.spaced⟩
      · rw [if_neg hd]
        refine wake_linv ch _ hb ?_
        intro l' hl'
        cases hl'
        unfold gapOK
        rw [htr]
        simp
        omega

theorem lateStep_linv {cfg : TCfg} {s : TState} (ch : Choice) (e : LateEv) (h : LInv cfg s) :
    LInv cfg (lateStep cfg ch s e) := by
  unfold lateStep
  simp only
  apply LInv.set_n
  cases e with
  | call => exact tcall_linv ch h
  | cancel => exact tcancel_linv h
  | next id => exact tnext_linv id h
  | tick dt => exact tick_linv dt h
  | trail =>
    simp only
    cases hsc : s.scheduled with
    | none => exact h
    | some sc =>
      simp only
      by_cases hd : sc.deadline ≤ s.now
      · rw [if_pos hd]; exact fireCode_linv ch sc h hsc
      · rw [if_neg hd]; exact h

theorem lateRun_linv (cfg : TCfg) (ch : Choice) (evs : List LateEv) : LInv cfg (lateRun cfg ch evs) := by
  have key : ∀ (evs : List LateEv) (s : TState), LInv cfg s → LInv cfg (evs.foldl (lateStep cfg ch) s) := by
    intro evs
    induction evs with
    | nil => intro s hs; exact hs
    | cons e r ih => intro s hs; exact ih _ (lateStep_linv ch e hs)
  exact key evs {} (linv_init cfg)

/-- **One permission per period, however late the trailing timer runs.**  For every period, trailing flag,
scheduler choice and every history of `Call` / `Next` / `Cancel` / passing time in which the runtime runs the
trailing timer's callback at arbitrary instants at or after its deadline: consecutive permissions are at least
`dur` apart (strictly more when not trailing). -/
theorem late_spacing (cfg : TCfg) (ch : Choice) (evs : List LateEv) :
    spacedOK cfg.dur cfg.trailing ((lateRun cfg ch evs).grants.map (·.t)) = true :=
  (lateRun_linv cfg ch evs).spaced

/-- `spacedOK` read off pairwise -/
theorem spacedOK_pairs (dur : Nat) (trailing : Bool) :
    ∀ (l : List Int), spacedOK dur trailing l = true →
      ∀ (k : Nat) (a b : Int), l[k]? = some a → l[k + 1]? = some b → gapOK dur trailing a b = true
  | [], _, k, a, _, ha, _ => by simp at ha
  | [_], _, k, a, b, _, hb => by simp at hb
  | x :: y :: r, h, k, a, b, ha, hb => by
    simp only [spacedOK, Bool.and_eq_true] at h
    cases k with
    | zero =>
      simp only [List.getElem?_cons_zero, Option.some.injEq] at ha
      simp only [Nat.zero_add, List.getElem?_cons_succ, List.getElem?_cons_zero, Option.some.injEq] at hb
      subst ha; subst hb; exact h.1
    | succ k =>
      simp only [List.getElem?_cons_succ] at ha hb
      exact spacedOK_pairs dur trailing (y :: r) h.2 k a b ha hb

/-- the same, for any two consecutive permissions -/
theorem late_spacing_pairs (cfg : TCfg) (ch : Choice) (evs : List LateEv) (k : Nat) (g g' : Grant)
    (hg : (lateRun cfg ch evs).grants[k]? = some g) (hg' : (lateRun cfg ch evs).grants[k + 1]? = some g') :
    g.t + cfg.dur ≤ g'.t := by
  have h := spacedOK_pairs cfg.dur cfg.trailing _ (late_spacing cfg ch evs) k g.t g'.t
    (by rw [List.getElem?_map, hg]; rfl) (by rw [List.getElem?_map, hg']; rfl)
  unfold gapOK at h
  cases ht : cfg.trailing <;> rw [ht] at h <;> simp at h <;> omega

/-! ## the finding (F36) and non-vacuity -/

/-- the history of the replay: permission 1 at 0, a trigger at 3 (trailing timer set for 40), nothing runs until 41,
a trigger at 41 is granted directly and handed out, THEN the timer's callback runs, 5 ms later a consumer asks -/
def f36 : List LateEv :=
  [.call, .next 0, .tick 3, .call, .tick 38, .call, .next 1, .trail, .tick 5, .next 2]

/-- **F36**: with the callback as it was before the repair the same history yields permissions at 0, 41 and 46 —
two permissions 5 ms apart with a period of 40 ms. -/
theorem late_old_violates :
    ((lateRunOld { dur := 40, trailing := true } (fun _ _ => 0) f36).grants.map (·.t)) = [0, 41, 46] ∧
    spacedOK 40 true ((lateRunOld { dur := 40, trailing := true } (fun _ _ => 0) f36).grants.map (·.t)) = false := by
  decide

/-- with the repaired callback the late timer re-arms itself for the end of the new period (81): the third `Next`
blocks and is served then -/
example : ((lateRun { dur := 40, trailing := true } (fun _ _ => 0) (f36 ++ [.tick 29, .trail, .tick 6, .trail])).grants.map (·.t))
    = [0, 41, 81] := by decide

/-- with punctual timers the code's callback and the simplified one agree (instance of `trunCode_eq_trun`) -/
example : (trunCode { dur := 40, trailing := true } (fun _ _ => 0) [.call, .next 0, .advance 3, .call, .next 1, .advance 40]).grants.map (·.t)
    = [0, 40] := by decide

end GoguVerif.Theorems.C20Late
