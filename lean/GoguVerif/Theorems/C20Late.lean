import GoguVerif.Lemmas.C20T
/-!
# C20 — the throttle when timers run late (finding F36) and the callback as it is in the code

Two things.

1. `trunCode_eq_trun`: the executable model that the driver runs (`tstepCode`, with `fireCode` = the callback
   `trail` of func.go statement by statement, including its re-check of the period) computes, with punctual
   timers, exactly what the model of the C20 theorems (`tstep`, `fire`) computes — for every history and every
   choice function.  So every theorem of `Theorems/C20.lean` about `trun` is a theorem about `trunCode`.

2. `late_spacing`: in the system where the runtime may run the trailing timer's callback at ANY instant at or after
   its deadline (`lateStep`: the same transition functions, the environment chooses when `trail` runs), consecutive
   permissions are still at least one period apart — strictly more when not trailing.  This removes the assumption
   "timers fire punctually" from the throttle's safety clause.  `late_old_violates` is the kernel-checked witness
   that the callback before the repair (F36: it granted unconditionally) hands out two permissions 5 ms apart
   with a period of 40 ms; the same history on the real code is the replay in `corpus/C20/f36-late-timer.trace`.
-/
namespace GoguVerif.Theorems.C20Late
open GoguVerif.Spec.C20 GoguVerif.Model.C20 GoguVerif.Lemmas.C20T

/-! ## 1. the callback as in the code = the punctual simplification, on every reachable state -/

theorem fireCode_eq_fire {cfg : TCfg} {s : TState} (ch : Choice) (sc : Sched) (h : TInv cfg s)
    (hsc : s.scheduled = some sc) :
    fireCode cfg ch { s with now := max s.now sc.deadline } sc = fire ch { s with now := max s.now sc.deadline } sc := by
  obtain ⟨_, h2, h3, h4, _, _, _⟩ := h.sched sc hsc
  have hmax : max s.now sc.deadline = sc.deadline := Int.max_eq_right h3
  rw [hmax]
  unfold fireCode fire
  simp only [h2, h4, Bool.false_eq_true, or_false]
  by_cases hs : s.stop = true
  · simp [hs]
  · simp only [hs]
    have : ¬ (sc.deadline - (sc.deadline - (cfg.dur : Int)) < (cfg.dur : Int)) := by omega
    simp only [this, if_false]

theorem advanceToCode_eq {cfg : TCfg} {s : TState} (ch : Choice) (f : Nat) (target : Int) (h : TInv cfg s) :
    advanceToCode cfg ch (f + 2) s target = advanceTo ch s target := by
  rcases s with ⟨now, n, last, waiting, stop, scheduled, blocked, grants, falses, doneLog, wsrc, calls⟩
  cases scheduled with
  | none => unfold advanceToCode advanceTo; rfl
  | some sc =>
    have hfe := fireCode_eq_fire ch sc h rfl
    have hnone := fire_scheduled (s := { (TState.mk now n last waiting stop (some sc) blocked grants falses doneLog wsrc calls)
      with now := max now sc.deadline }) ch sc
    unfold advanceToCode advanceTo
    simp only at hfe hnone ⊢
    by_cases hd : sc.deadline ≤ target
    · simp only [hd, if_true]
      rw [hfe]
      unfold advanceToCode
      rw [hnone]
    · simp only [hd, if_false]

theorem tstepCode_eq {cfg : TCfg} {s : TState} (ch : Choice) (e : TEv) (h : TInv cfg s) :
    tstepCode cfg ch s e = tstep cfg ch s e := by
  have h3 : (3 : Nat) = 1 + 2 := rfl
  cases e with
  | call =>
    show ({ advanceToCode cfg ch 3 (tcall cfg ch s) _ with n := _ } : TState) = _
    rw [h3, advanceToCode_eq ch 1 _ (tcall_inv ch h)]; rfl
  | cancel =>
    show ({ advanceToCode cfg ch 3 (tcancel s) _ with n := _ } : TState) = _
    rw [h3, advanceToCode_eq ch 1 _ (tcancel_inv h)]; rfl
  | next id =>
    show ({ advanceToCode cfg ch 3 (tnext s id) _ with n := _ } : TState) = _
    rw [h3, advanceToCode_eq ch 1 _ (tnext_inv id h)]; rfl
  | advance dt =>
    show ({ advanceToCode cfg ch 3 s _ with n := _ } : TState) = _
    rw [h3, advanceToCode_eq ch 1 _ h]; rfl

/-- **The executable model with the callback as in the code = the model of the C20 theorems**, for every
history, period, trailing flag and choice function. -/
theorem trunCode_eq_trun (cfg : TCfg) (ch : Choice) (evs : List TEv) : trunCode cfg ch evs = trun cfg ch evs := by
  have key : ∀ (evs : List TEv) (s : TState), TInv cfg s →
      evs.foldl (tstepCode cfg ch) s = evs.foldl (tstep cfg ch) s := by
    intro evs
    induction evs with
    | nil => intro s _; rfl
    | cons e r ih =>
      intro s hs
      simp only [List.foldl_cons]
      rw [tstepCode_eq ch e hs]
      exact ih _ (tstep_inv ch e hs)
  exact key evs {} (tinv_init cfg)

/-! ## 2. timers that run late -/

/-- the invariant of the late-timer system -/
structure LInv (cfg : TCfg) (s : TState) : Prop where
  last_eq : s.last = (s.grants.getLast?).map (·.t)
  last_le : ∀ l, s.last = some l → l ≤ s.now
  /-- a permission is waiting only when the period that began with the last permission is over -/
  wait : s.waiting = true → s.stop = false → ∀ l, s.last = some l → gapOK cfg.dur cfg.trailing l s.now = true
  notrail : cfg.trailing = false → s.scheduled = none
  spaced : spacedOK cfg.dur cfg.trailing (s.grants.map (·.t)) = true

theorem linv_init (cfg : TCfg) : LInv cfg {} where
  last_eq := rfl
  last_le := by intro l h; cases h
  wait := by intro h; cases h
  notrail := fun _ => rfl
  spaced := rfl

theorem LInv.set_n {cfg s} (h : LInv cfg s) (k : Nat) : LInv cfg { s with n := k } :=
  ⟨h.last_eq, h.last_le, h.wait, h.notrail, h.spaced⟩

theorem grantTo_linv {cfg : TCfg} {s : TState} (id : Nat) (h : LInv cfg s)
    (hg : ∀ l, s.last = some l → gapOK cfg.dur cfg.trailing l s.now = true) : LInv cfg (grantTo s id) where
  last_eq := by
    show some s.now = ((s.grants ++ [_]).getLast?).map Grant.t
    rw [List.getLast?_append]
    simp
  last_le := by
    intro l hl
    have : some s.now = some l := hl
    cases this
    exact Int.le_refl _
  wait := by intro hw; cases hw
  notrail := h.notrail
  spaced := by
    show spacedOK cfg.dur cfg.trailing ((s.grants ++ [_]).map Grant.t) = true
    rw [List.map_append, List.map_cons, List.map_nil, spacedOK_snoc, h.spaced, Bool.true_and]
    have hl : (s.grants.map (·.t)).getLast? = s.last := by rw [h.last_eq, List.getLast?_map]
    rw [hl]
    cases hs : s.last with
    | none => rfl
    | some l => exact hg l hs

theorem wake_linv {cfg : TCfg} {s : TState} (ch : Choice) (w : Int × Nat) (h : LInv cfg s)
    (hg : ∀ l, s.last = some l → gapOK cfg.dur cfg.trailing l s.now = true) : LInv cfg (wake ch s w) := by
  unfold wake
  simp only
  cases hb : s.blocked with
  | nil => exact ⟨h.last_eq, h.last_le, fun _ _ => hg, h.notrail, h.spaced⟩
  | cons b bs =>
    simp only
    exact grantTo_linv _ (s := { s with waiting := true, wsrc := w, blocked := _ })
      ⟨h.last_eq, h.last_le, fun _ _ => hg, h.notrail, h.spaced⟩ hg

theorem tcall_linv {cfg : TCfg} {s : TState} (ch : Choice) (h : LInv cfg s) : LInv cfg (tcall cfg ch s) := by
  rcases s with ⟨now, n, last, waiting, stop, scheduled, blocked, grants, falses, doneLog, wsrc, calls⟩
  have hl : LInv cfg (logCall ⟨now, n, last, waiting, stop, scheduled, blocked, grants, falses, doneLog, wsrc, calls⟩) :=
    ⟨h.last_eq, h.last_le, h.wait, h.notrail, h.spaced⟩
  unfold tcall
  simp only
  by_cases hc : waiting = false ∧ stop = false
  · have hc' : (logCall ⟨now, n, last, waiting, stop, scheduled, blocked, grants, falses, doneLog, wsrc, calls⟩).waiting = false ∧
        (logCall ⟨now, n, last, waiting, stop, scheduled, blocked, grants, falses, doneLog, wsrc, calls⟩).stop = false := hc
    rw [if_pos hc']
    cases last with
    | none =>
      exact wake_linv ch _ hl (by intro l hl'; cases hl')
    | some l =>
      show LInv cfg (if now - l > cfg.dur then _ else _)
      by_cases hd : now - l > cfg.dur
      · rw [if_pos hd]
        refine wake_linv ch _ hl ?_
        intro l' hl'
        cases hl'
        show gapOK cfg.dur cfg.trailing l now = true
        unfold gapOK
        cases cfg.trailing <;> simp <;> omega
      · rw [if_neg hd]
        by_cases ht : cfg.trailing = true ∧ scheduled = none
        · have ht' : cfg.trailing = true ∧
              (logCall ⟨now, n, some l, waiting, stop, scheduled, blocked, grants, falses, doneLog, wsrc, calls⟩).scheduled = none := ht
          rw [if_pos ht']
          exact ⟨hl.last_eq, hl.last_le, hl.wait, (by intro hf; rw [ht.1] at hf; cases hf), hl.spaced⟩
        · have ht' : ¬ (cfg.trailing = true ∧
              (logCall ⟨now, n, some l, waiting, stop, scheduled, blocked, grants, falses, doneLog, wsrc, calls⟩).scheduled = none) := ht
          rw [if_neg ht']; exact hl
  · have hc' : ¬ ((logCall ⟨now, n, last, waiting, stop, scheduled, blocked, grants, falses, doneLog, wsrc, calls⟩).waiting = false ∧
        (logCall ⟨now, n, last, waiting, stop, scheduled, blocked, grants, falses, doneLog, wsrc, calls⟩).stop = false) := hc
    rw [if_neg hc']; exact hl

theorem tnext_linv {cfg : TCfg} {s : TState} (id : Nat) (h : LInv cfg s) : LInv cfg (tnext s id) := by
  unfold tnext
  by_cases hc : s.waiting = true ∨ s.stop = true
  · rw [if_pos hc]
    by_cases hs : s.stop = false
    · rw [if_pos hs]
      have hw : s.waiting = true := by
        cases hc with
        | inl hw => exact hw
        | inr hst => rw [hs] at hst; cases hst
      exact grantTo_linv id h (h.wait hw hs)
    · rw [if_neg hs]
      exact ⟨h.last_eq, h.last_le, h.wait, h.notrail, h.spaced⟩
  · rw [if_neg hc]
    exact ⟨h.last_eq, h.last_le, h.wait, h.notrail, h.spaced⟩

theorem tcancel_linv {cfg : TCfg} {s : TState} (h : LInv cfg s) : LInv cfg (tcancel s) :=
  ⟨h.last_eq, h.last_le, (by intro _ hs; cases hs), h.notrail, h.spaced⟩

theorem tick_linv {cfg : TCfg} {s : TState} (dt : Nat) (h : LInv cfg s) : LInv cfg { s with now := s.now + dt } where
  last_eq := h.last_eq
  last_le := by intro l hl; have := h.last_le l hl; show l ≤ s.now + dt; omega
  wait := by
    intro hw hs l hl
    exact gapOK_mono (h.wait hw hs l hl) (by show s.now ≤ s.now + dt; omega)
  notrail := h.notrail
  spaced := h.spaced

/-- the callback `trail`, run at ANY instant: it grants only when the period since the last permission is over -/
theorem fireCode_linv {cfg : TCfg} {s : TState} (ch : Choice) (sc : Sched) (h : LInv cfg s)
    (hsc : s.scheduled = some sc) : LInv cfg (fireCode cfg ch s sc) := by
  have htr : cfg.trailing = true := by
    cases ht : cfg.trailing with
    | true => rfl
    | false => have := h.notrail ht; rw [hsc] at this; cases this
  rcases s with ⟨now, n, last, waiting, stop, scheduled, blocked, grants, falses, doneLog, wsrc, calls⟩
  have hb : LInv cfg ⟨now, n, last, waiting, stop, none, blocked, grants, falses, doneLog, wsrc, calls⟩ :=
    ⟨h.last_eq, h.last_le, h.wait, fun _ => rfl, h.spaced⟩
  unfold fireCode
  simp only
  by_cases hc : stop = true ∨ waiting = true
  · rw [if_pos hc]; exact hb
  · rw [if_neg hc]
    cases last with
    | none =>
      exact wake_linv ch _ hb (by intro l hl'; cases hl')
    | some l =>
      show LInv cfg (if now - l < cfg.dur then _ else _)
      by_cases hd : now - l < cfg.dur
      · rw [if_pos hd]
        exact ⟨h.last_eq, h.last_le, h.wait, (by intro hf; rw [htr] at hf; cases hf), h.spaced⟩
      · rw [if_neg hd]
        refine wake_linv ch _ hb ?_
        intro l' hl'
        cases hl'
        unfold gapOK
        rw [htr]
        simp
        omega

theorem lateStep_linv {cfg : TCfg} {s : TState} (ch : Choice) (e : LateEv) (h : LInv cfg s) :
    LInv cfg (lateStep cfg ch s e) := by
  unfold lateStep
  simp only
  apply LInv.set_n
  cases e with
  | call => exact tcall_linv ch h
  | cancel => exact tcancel_linv h
  | next id => exact tnext_linv id h
  | tick dt => exact tick_linv dt h
  | trail =>
    simp only
    cases hsc : s.scheduled with
    | none => exact h
    | some sc =>
      simp only
      by_cases hd : sc.deadline ≤ s.now
      · rw [if_pos hd]; exact fireCode_linv ch sc h hsc
      · rw [if_neg hd]; exact h

theorem lateRun_linv (cfg : TCfg) (ch : Choice) (evs : List LateEv) : LInv cfg (lateRun cfg ch evs) := by
  have key : ∀ (evs : List LateEv) (s : TState), LInv cfg s → LInv cfg (evs.foldl (lateStep cfg ch) s) := by
    intro evs
    induction evs with
    | nil => intro s hs; exact hs
    | cons e r ih => intro s hs; exact ih _ (lateStep_linv ch e hs)
  exact key evs {} (linv_init cfg)

/-- **One permission per period, however late the trailing timer runs.**  For every period, trailing flag,
scheduler choice and every history of `Call` / `Next` / `Cancel` / passing time in which the runtime runs the
trailing timer's callback at arbitrary instants at or after its deadline: consecutive permissions are at least
`dur` apart (strictly more when not trailing). -/
theorem late_spacing (cfg : TCfg) (ch : Choice) (evs : List LateEv) :
    spacedOK cfg.dur cfg.trailing ((lateRun cfg ch evs).grants.map (·.t)) = true :=
  (lateRun_linv cfg ch evs).spaced

/-- `spacedOK` read off pairwise -/
theorem spacedOK_pairs (dur : Nat) (trailing : Bool) :
    ∀ (l : List Int), spacedOK dur trailing l = true →
      ∀ (k : Nat) (a b : Int), l[k]? = some a → l[k + 1]? = some b → gapOK dur trailing a b = true
  | [], _, k, a, _, ha, _ => by simp at ha
  | [_], _, k, a, b, _, hb => by simp at hb
  | x :: y :: r, h, k, a, b, ha, hb => by
    simp only [spacedOK, Bool.and_eq_true] at h
    cases k with
    | zero =>
      simp only [List.getElem?_cons_zero, Option.some.injEq] at ha
      simp only [Nat.zero_add, List.getElem?_cons_succ, List.getElem?_cons_zero, Option.some.injEq] at hb
      subst ha; subst hb; exact h.1
    | succ k =>
      simp only [List.getElem?_cons_succ] at ha hb
      exact spacedOK_pairs dur trailing (y :: r) h.2 k a b ha hb

/-- the same, for any two consecutive permissions -/
theorem late_spacing_pairs (cfg : TCfg) (ch : Choice) (evs : List LateEv) (k : Nat) (g g' : Grant)
    (hg : (lateRun cfg ch evs).grants[k]? = some g) (hg' : (lateRun cfg ch evs).grants[k + 1]? = some g') :
    g.t + cfg.dur ≤ g'.t := by
  have h := spacedOK_pairs cfg.dur cfg.trailing _ (late_spacing cfg ch evs) k g.t g'.t
    (by rw [List.getElem?_map, hg]; rfl) (by rw [List.getElem?_map, hg']; rfl)
  unfold gapOK at h
  cases ht : cfg.trailing <;> rw [ht] at h <;> simp at h <;> omega

/-! ## the finding (F36) and non-vacuity -/

/-- the history of the replay: permission 1 at 0, a trigger at 3 (trailing timer set for 40), nothing runs until 41,
a trigger at 41 is granted directly and handed out, THEN the timer's callback runs, 5 ms later a consumer asks -/
def f36 : List LateEv :=
  [.call, .next 0, .tick 3, .call, .tick 38, .call, .next 1, .trail, .tick 5, .next 2]

/-- **F36**: with the callback as it was before the repair the same history yields permissions at 0, 41 and 46 —
two permissions 5 ms apart with a period of 40 ms. -/
theorem late_old_violates :
    ((lateRunOld { dur := 40, trailing := true } (fun _ _ => 0) f36).grants.map (·.t)) = [0, 41, 46] ∧
    spacedOK 40 true ((lateRunOld { dur := 40, trailing := true } (fun _ _ => 0) f36).grants.map (·.t)) = false := by
  decide

/-- with the repaired callback the late timer re-arms itself for the end of the new period (81): the third `Next`
blocks and is served then -/
example : ((lateRun { dur := 40, trailing := true } (fun _ _ => 0) (f36 ++ [.tick 29, .trail, .tick 6, .trail])).grants.map (·.t))
    = [0, 41, 81] := by decide

/-- with punctual timers the code's callback and the simplified one agree (instance of `trunCode_eq_trun`) -/
example : (trunCode { dur := 40, trailing := true } (fun _ _ => 0) [.call, .next 0, .advance 3, .call, .next 1, .advance 40]).grants.map (·.t)
    = [0, 40] := by decide

/-! ## 3. debounce when the goroutine of an expired timer starts late (findings F37, F46) -/

/-- the invariant of the late-start debounce system (repaired code) -/
structure DLInv (wait : Nat) (s : DLState) : Prop where
  tm : ∀ t ∈ s.timers, t.deadline = t.tc + wait ∧ (t.expired = true → t.deadline ≤ s.now)
  fresh : ∀ t ∈ s.timers, t.id < s.nextId
  /-- the current timer was created by the most recent call-or-cancel event, and that event is a call -/
  cr : ∀ c, s.cur = some c → ∃ k, s.lastEv = some (k, true) ∧ ∀ t ∈ s.timers, t.id = c → t.idx = k
  /-- a goroutine that was told to go ahead was the current timer's, at least `wait` after its call, at its check -/
  ga : ∀ t ∈ s.timers, t.goAhead = true → t.gaLast = some (t.idx, true) ∧ t.tc + wait ≤ t.gaT ∧ t.gaT ≤ s.now
  rn : ∀ r ∈ s.runs, r.gaLast = some (r.idx, true) ∧ r.tc + wait ≤ r.gaT ∧ r.gaT ≤ r.f

theorem dlinv_init (wait : Nat) : DLInv wait {} where
  tm := by intro t ht; cases ht
  fresh := by intro t ht; cases ht
  cr := by intro c hc; cases hc
  ga := by intro t ht; cases ht
  rn := by intro r hr; cases hr

theorem mem_stopCur {s : DLState} {t : Model.C20.DLTimer} (h : t ∈ stopCur s) : t ∈ s.timers := by
  unfold stopCur at h
  cases hc : s.cur with
  | none => rw [hc] at h; exact h
  | some c => rw [hc] at h; exact (List.mem_filter.mp h).1

theorem dlstep_inv {wait : Nat} {s : DLState} (e : DLEv) (h : DLInv wait s) : DLInv wait (dlstep true wait s e) := by
  unfold dlstep
  cases e with
  | call =>
    refine ⟨?_, ?_, ?_, ?_, h.rn⟩
    · intro t ht
      rcases List.mem_append.mp ht with ht | ht
      · exact h.tm t (mem_stopCur ht)
      · simp only [List.mem_singleton] at ht
        subst ht
        exact ⟨rfl, by intro hx; cases hx⟩
    · intro t ht
      rcases List.mem_append.mp ht with ht | ht
      · have := h.fresh t (mem_stopCur ht)
        show t.id < s.nextId + 1
        omega
      · simp only [List.mem_singleton] at ht
        subst ht
        show s.nextId < s.nextId + 1
        omega
    · intro c hc
      have hc' : some s.nextId = some c := hc
      cases hc'
      refine ⟨s.n, rfl, ?_⟩
      intro t ht hid
      rcases List.mem_append.mp ht with ht | ht
      · have := h.fresh t (mem_stopCur ht)
        omega
      · simp only [List.mem_singleton] at ht
        subst ht
        rfl
    · intro t ht hg
      rcases List.mem_append.mp ht with ht | ht
      · exact h.ga t (mem_stopCur ht) hg
      · simp only [List.mem_singleton] at ht
        subst ht
        cases hg
  | cancel =>
    refine ⟨fun t ht => h.tm t (mem_stopCur ht), fun t ht => h.fresh t (mem_stopCur ht), ?_,
      fun t ht hg => h.ga t (mem_stopCur ht) hg, h.rn⟩
    intro c hc
    cases hc
  | tick dt =>
    refine ⟨?_, h.fresh, h.cr, ?_, h.rn⟩
    · intro t ht
      obtain ⟨h1, h2⟩ := h.tm t ht
      exact ⟨h1, fun hx => by have := h2 hx; show t.deadline ≤ s.now + dt; omega⟩
    · intro t ht hg
      obtain ⟨g1, g2, g3⟩ := h.ga t ht hg
      exact ⟨g1, g2, by show t.gaT ≤ s.now + dt; omega⟩
  | expire id =>
    have key : ∀ t ∈ s.timers.map (fun t => if t.id == id && decide (t.deadline ≤ s.now) then { t with expired := true } else t),
        ∃ t0 ∈ s.timers, t.id = t0.id ∧ t.idx = t0.idx ∧ t.tc = t0.tc ∧ t.deadline = t0.deadline ∧ t.goAhead = t0.goAhead ∧
          t.gaT = t0.gaT ∧ t.gaLast = t0.gaLast ∧ (t.expired = true → t0.expired = true ∨ t0.deadline ≤ s.now) := by
      intro t ht
      obtain ⟨t0, ht0, rfl⟩ := List.mem_map.mp ht
      refine ⟨t0, ht0, ?_⟩
      by_cases hc : (t0.id == id && decide (t0.deadline ≤ s.now)) = true
      · rw [if_pos hc]
        simp only [Bool.and_eq_true, decide_eq_true_eq] at hc
        exact ⟨rfl, rfl, rfl, rfl, rfl, rfl, rfl, fun _ => Or.inr hc.2⟩
      · rw [if_neg hc]
        exact ⟨rfl, rfl, rfl, rfl, rfl, rfl, rfl, fun hx => Or.inl hx⟩
    refine ⟨?_, ?_, ?_, ?_, h.rn⟩
    · intro t ht
      obtain ⟨t0, ht0, e1, e2, e3, e4, e5, e6, e7, e8⟩ := key t ht
      obtain ⟨h1, h2⟩ := h.tm t0 ht0
      refine ⟨by rw [e4, e3]; exact h1, fun hx => ?_⟩
      rcases e8 hx with hy | hy
      · rw [e4]; exact h2 hy
      · rw [e4]; exact hy
    · intro t ht
      obtain ⟨t0, ht0, e1, _⟩ := key t ht
      rw [e1]; exact h.fresh t0 ht0
    · intro c hc
      obtain ⟨k, hk, hall⟩ := h.cr c hc
      refine ⟨k, hk, ?_⟩
      intro t ht hid
      obtain ⟨t0, ht0, e1, e2, _⟩ := key t ht
      rw [e2]; exact hall t0 ht0 (by rw [← e1]; exact hid)
    · intro t ht hg
      obtain ⟨t0, ht0, e1, e2, e3, e4, e5, e6, e7, _⟩ := key t ht
      have := h.ga t0 ht0 (by rw [← e5]; exact hg)
      rw [e7, e2, e3, e6]; exact this
  | check id =>
    simp only [Bool.not_true, Bool.false_or]
    by_cases hc : (s.cur == some id) = true
    · simp only [hc, if_true]
      have hcur : s.cur = some id := by simpa using hc
      obtain ⟨k, hk, hall⟩ := h.cr id hcur
      have key : ∀ t ∈ s.timers.map (fun t => if t.id == id && t.expired && !t.goAhead
            then { t with goAhead := true, gaT := s.now, gaLast := s.lastEv } else t),
          ∃ t0 ∈ s.timers, t.id = t0.id ∧ t.idx = t0.idx ∧ t.tc = t0.tc ∧ t.deadline = t0.deadline ∧ t.expired = t0.expired ∧
            ((t.goAhead = t0.goAhead ∧ t.gaT = t0.gaT ∧ t.gaLast = t0.gaLast) ∨
             (t0.id = id ∧ t0.expired = true ∧ t.gaT = s.now ∧ t.gaLast = s.lastEv)) := by
        intro t ht
        obtain ⟨t0, ht0, rfl⟩ := List.mem_map.mp ht
        refine ⟨t0, ht0, ?_⟩
        by_cases hcnd : (t0.id == id && t0.expired && !t0.goAhead) = true
        · rw [if_pos hcnd]
          simp only [Bool.and_eq_true, beq_iff_eq] at hcnd
          exact ⟨rfl, rfl, rfl, rfl, rfl, Or.inr ⟨hcnd.1.1, hcnd.1.2, rfl, rfl⟩⟩
        · rw [if_neg hcnd]
          exact ⟨rfl, rfl, rfl, rfl, rfl, Or.inl ⟨rfl, rfl, rfl⟩⟩
      refine ⟨?_, ?_, ?_, ?_, h.rn⟩
      · intro t ht
        obtain ⟨t0, ht0, e1, e2, e3, e4, e5, _⟩ := key t ht
        obtain ⟨h1, h2⟩ := h.tm t0 ht0
        exact ⟨by rw [e4, e3]; exact h1, fun hx => by rw [e4]; exact h2 (by rw [← e5]; exact hx)⟩
      · intro t ht
        obtain ⟨t0, ht0, e1, _⟩ := key t ht
        rw [e1]; exact h.fresh t0 ht0
      · intro c hcc
        obtain ⟨k', hk', hall'⟩ := h.cr c hcc
        refine ⟨k', hk', ?_⟩
        intro t ht hid
        obtain ⟨t0, ht0, e1, e2, _⟩ := key t ht
        rw [e2]; exact hall' t0 ht0 (by rw [← e1]; exact hid)
      · intro t ht hg
        obtain ⟨t0, ht0, e1, e2, e3, e4, e5, e6⟩ := key t ht
        rcases e6 with ⟨g1, g2, g3⟩ | ⟨g1, g2, g3, g4⟩
        · have := h.ga t0 ht0 (by rw [← g1]; exact hg)
          rw [g3, e2, e3, g2]; exact this
        · obtain ⟨h1, h2⟩ := h.tm t0 ht0
          have hd := h2 g2
          refine ⟨?_, ?_, ?_⟩
          · rw [g4, hk, e2, hall t0 ht0 g1]
          · rw [g3, e3]; omega
          · rw [g3]; exact Int.le_refl _
    · simp only [hc, Bool.false_eq_true, if_false]
      have sub : ∀ t', t' ∈ s.timers.filter (fun t => !(t.id == id && t.expired && !t.goAhead)) → t' ∈ s.timers :=
        fun t' ht' => (List.mem_filter.mp ht').1
      refine ⟨fun t ht => h.tm t (sub t ht), fun t ht => h.fresh t (sub t ht), ?_, fun t ht hg => h.ga t (sub t ht) hg, h.rn⟩
      intro c hcc
      obtain ⟨k, hk, hall⟩ := h.cr c hcc
      exact ⟨k, hk, fun t ht hid => hall t (sub t ht) hid⟩
  | run id =>
    simp only
    cases hf : s.timers.find? (fun t => t.id == id && t.goAhead) with
    | none => exact ⟨h.tm, h.fresh, h.cr, h.ga, h.rn⟩
    | some t =>
      have htm : t ∈ s.timers := List.mem_of_find?_eq_some hf
      have hp := List.find?_some hf
      simp only [Bool.and_eq_true, beq_iff_eq] at hp
      have sub : ∀ t', t' ∈ s.timers.filter (fun t' => !(t'.id == id)) → t' ∈ s.timers :=
        fun t' ht' => (List.mem_filter.mp ht').1
      refine ⟨fun t' ht' => h.tm t' (sub t' ht'), fun t' ht' => h.fresh t' (sub t' ht'), ?_,
        fun t' ht' hg => h.ga t' (sub t' ht') hg, ?_⟩
      · intro c hcc
        obtain ⟨k, hk, hall⟩ := h.cr c hcc
        exact ⟨k, hk, fun t' ht' hid => hall t' (sub t' ht') hid⟩
      · intro r hr
        rcases List.mem_append.mp hr with hr | hr
        · exact h.rn r hr
        · simp only [List.mem_singleton] at hr
          subst hr
          exact h.ga t htm hp.2

theorem DLInv.set_n {wait s} (h : DLInv wait s) (k : Nat) : DLInv wait { s with n := k } :=
  ⟨h.tm, h.fresh, h.cr, h.ga, h.rn⟩

theorem dlrun_inv (wait : Nat) (evs : List DLEv) : DLInv wait (dlrun true wait evs) := by
  have key : ∀ (evs : List DLEv) (s : DLState), DLInv wait s → DLInv wait (evs.foldl (dlstep true wait) s) := by
    intro evs
    induction evs with
    | nil => intro s hs; exact hs
    | cons e r ih => intro s hs; exact ih _ (dlstep_inv e hs)
  exact key evs {} (dlinv_init wait)

/-- **Debounce with late goroutines (repaired code), what holds** (`…_partial`: see `dlate_full_false` for what does
not).  Whenever the debounced function runs — however late the runtime expires the timer, however late the goroutine
gets to make its check and to call f — at the instant of its go-ahead CHECK (under the debouncer's lock) the most recent
`call` or `cancel` event of the history was the very call that scheduled it (so: no cancel and no newer call had taken
effect), and at least `wait` had passed since that call. -/
theorem dlate_runs_ok_partial (wait : Nat) (evs : List DLEv) :
    ∀ r ∈ (dlrun true wait evs).runs, r.gaLast = some (r.idx, true) ∧ r.tc + wait ≤ r.gaT ∧ r.gaT ≤ r.f :=
  (dlrun_inv wait evs).rn

/-- the position of the most recent `call` / `cancel` of a history, read off the history itself -/
def lastCC : Nat → Option (Nat × Bool) → List DLEv → Option (Nat × Bool)
  | _, acc, [] => acc
  | k, _, .call :: r => lastCC (k + 1) (some (k, true)) r
  | k, _, .cancel :: r => lastCC (k + 1) (some (k, false)) r
  | k, acc, _ :: r => lastCC (k + 1) acc r

/-- the ghost `lastEv` is what it claims to be (both versions of the code) -/
theorem dl_lastEv (checked : Bool) (wait : Nat) (evs : List DLEv) :
    (dlrun checked wait evs).lastEv = lastCC 0 none evs := by
  have key : ∀ (evs : List DLEv) (s : DLState),
      (evs.foldl (dlstep checked wait) s).lastEv = lastCC s.n s.lastEv evs := by
    intro evs
    induction evs with
    | nil => intro s; rfl
    | cons e r ih =>
      intro s
      simp only [List.foldl_cons]
      rw [ih]
      cases e with
      | call => rfl
      | cancel => rfl
      | tick dt => rfl
      | expire id => rfl
      | check id =>
        have h1 : (dlstep checked wait s (.check id)).n = s.n + 1 := by
          unfold dlstep; simp only; split <;> rfl
        have h2 : (dlstep checked wait s (.check id)).lastEv = s.lastEv := by
          unfold dlstep; simp only; split <;> rfl
        show lastCC (dlstep checked wait s (.check id)).n (dlstep checked wait s (.check id)).lastEv r = lastCC (s.n + 1) s.lastEv r
        rw [h1, h2]
      | run id =>
        have h1 : (dlstep checked wait s (.run id)).n = s.n + 1 := by
          unfold dlstep; simp only; split <;> rfl
        have h2 : (dlstep checked wait s (.run id)).lastEv = s.lastEv := by
          unfold dlstep; simp only; split <;> rfl
        show lastCC (dlstep checked wait s (.run id)).n (dlstep checked wait s (.run id)).lastEv r = lastCC (s.n + 1) s.lastEv r
        rw [h1, h2]
  exact key evs {}

/-- **F37**: with the code before the repair (no check) the function runs after `cancel()` has returned, however far
apart the cancel and the goroutine's start are … -/
theorem dlate_old_runs_after_cancel :
    ((dlrun false 5 [.call, .tick 5, .expire 0, .cancel, .tick 3, .check 0, .run 0]).runs.map fun r => (r.f, r.idx, r.gaLast))
      = [(8, 0, some (3, false))] := by decide

/-- … and after a newer call (the newer call at instant 6, position 4; the old function starts at 6) -/
theorem dlate_old_runs_early :
    ((dlrun false 5 [.call, .tick 5, .expire 0, .tick 1, .call, .check 0, .run 0]).runs.map fun r => (r.f, r.idx, r.gaLast))
      = [(6, 0, some (4, true))] := by decide

/-- the repaired code on the same two histories: the check sends the stale goroutine away; the newer call's own
function runs at 11 -/
example : (dlrun true 5 [.call, .tick 5, .expire 0, .cancel, .tick 3, .check 0, .run 0]).runs = [] := by decide
example : ((dlrun true 5 [.call, .tick 5, .expire 0, .tick 1, .call, .check 0, .run 0, .tick 5, .expire 1, .check 1, .run 1]).runs.map
    fun r => (r.f, r.idx, r.lastAt)) = [(11, 4, some (4, true))] := by decide

/-- **Known finding F46** (`debounce.go-ahead-then-run-window`): the full clause "not at all after cancel / never sooner
than `wait` after the most recent call" is FALSE of the repaired code too, in one remaining window: the goroutine has made
its check and released the lock (`check 0`), a `cancel()` then runs to completion, and only then does the goroutine call f
(`run 0`).  The most recent event when f STARTS is the cancel.  Closing the window needs f to run inside the debouncer's
critical section (or `cancel` to wait for it), which makes a debounced function that debounces or cancels itself
dead-lock: not a small and safe repair. -/
theorem dlate_full_false :
    ((dlrun true 5 [.call, .tick 5, .expire 0, .check 0, .cancel, .run 0]).runs.map fun r => (r.f, r.lastAt, r.gaLast))
      = [(5, some (4, false), some (0, true))] := by decide

end GoguVerif.Theorems.C20Late
