import GoguVerif.Model.Lock
import GoguVerif.Gen.LockTable
/-!
# C01 — race-, panic- and deadlock-freedom of the lock-guarded containers

1. Generic theorems (`race_free`, `deadlock_free`): for ANY number of threads, each running ANY
   sequence of well-locked sections, under ANY interleaving admitted by `sync.RWMutex`, no reachable
   state has two threads able to perform conflicting accesses, and some step is always enabled while
   a thread is unfinished.
2. The table regenerated from /repo's current source (`Gen.lockTable`) is decided (`table_ok`) to be
   well-locked and free of the flags the section abstraction cannot express.
3. Instantiation: any system of threads running sections of the table is race- and deadlock-free.
-/
namespace GoguVerif.Theorems.C01
open GoguVerif.Model.Lock

def Inv (s : State) : Prop :=
  (∀ i, (s i).WellLocked) ∧
  (∀ i j, i ≠ j → (s i).holds = some .w → (s j).holds = none)

theorem inv_init {s : State} (h : Init s) : Inv s := by
  refine ⟨fun i => (h i).2, ?_⟩
  intro i j _ hw
  have := (h i).1
  simp [Thread.holds, this] at hw

theorem inv_step {s s' : State} (hinv : Inv s) (st : Step s s') : Inv s' := by
  obtain ⟨hwl, hmx⟩ := hinv
  cases st with
  | enter i sec rest h ok =>
    constructor
    · intro k
      by_cases hk : k = i
      · subst hk
        have := hwl k
        simp [upd, Thread.WellLocked, h] at this ⊢
        exact ⟨this.1, this.2⟩
      · simpa [upd, hk] using hwl k
    · intro a b hab ha
      by_cases hai : a = i
      · subst hai
        have hbi : b ≠ a := fun e => hab e.symm
        simp [upd, hbi, Thread.holds] at ha ⊢
        simp [ha, canEnter] at ok
        have := ok b hbi
        simpa [Thread.holds] using this
      · by_cases hbi : b = i
        · subst hbi
          simp [upd, hai, Thread.holds] at ha ⊢
          cases hm : sec.mode with
          | none => rfl
          | some m =>
            exfalso
            cases m with
            | r =>
              simp [hm, canEnter] at ok
              exact ok a hai (by simpa [Thread.holds] using ha)
            | w =>
              simp [hm, canEnter] at ok
              have := ok a hai
              simp [Thread.holds, ha] at this
        · simp [upd, hai, hbi] at ha ⊢
          exact hmx a b hab ha
  | leave i sec rest h =>
    constructor
    · intro k
      by_cases hk : k = i
      · subst hk
        have := hwl k
        simp [upd, Thread.WellLocked, h] at this ⊢
        exact this.2
      · simpa [upd, hk] using hwl k
    · intro a b hab ha
      by_cases hai : a = i
      · subst hai
        simp [upd, Thread.holds] at ha
      · by_cases hbi : b = i
        · subst hbi
          simp [upd, Thread.holds]
        · simp [upd, hai, hbi] at ha ⊢
          exact hmx a b hab ha

theorem inv_reach {init s : State} (hi : Init init) (r : Reach init s) : Inv s := by
  induction r with
  | refl => exact inv_init hi
  | step _ st ih => exact inv_step ih st

/-- Lock discipline ⇒ no reachable state has a data race, for any number of threads running any
sequence of well-locked sections under any interleaving. -/
theorem race_free {init s : State} (hi : Init init) (r : Reach init s) : ¬ Race s := by
  obtain ⟨hwl, hmx⟩ := inv_reach hi r
  rintro ⟨i, j, hij, ci, cj, hci, hcj, a, ha, b, hb, _, hw⟩
  have wi := (hwl i).1 ci hci a ha
  have wj := (hwl j).1 cj hcj b hb
  cases hw with
  | inl h =>
    have hm := wi.1 h
    have := hmx i j hij (by simp [Thread.holds, hci, hm])
    simp [Thread.holds, hcj] at this
    exact wj.2 this
  | inr h =>
    have hm := wj.1 h
    have := hmx j i (fun e => hij e.symm) (by simp [Thread.holds, hcj, hm])
    simp [Thread.holds, hci] at this
    exact wi.2 this

/-- No deadlock: while some thread is unfinished, some step is enabled. -/
theorem deadlock_free {init s : State} (hi : Init init) (r : Reach init s)
    (i : Nat) (hunf : (s i).cur ≠ none ∨ (s i).rest ≠ []) : ∃ s', Step s s' := by
  have _hinv := inv_reach hi r
  by_cases hex : ∃ k c, (s k).cur = some c
  · obtain ⟨k, c, hc⟩ := hex
    exact ⟨_, Step.leave s k c (s k).rest (by cases h : s k; simp_all)⟩
  · have hnone : ∀ k, (s k).cur = none := by
      intro k
      cases h : (s k).cur with
      | none => rfl
      | some c => exact absurd ⟨k, c, h⟩ hex
    cases hunf with
    | inl h => exact absurd (hnone i) h
    | inr h =>
      cases hr : (s i).rest with
      | nil => exact absurd hr h
      | cons sec rest =>
        refine ⟨_, Step.enter s i sec rest (by have h0 := hnone i; cases hh : s i; simp_all) ?_⟩
        cases hm : sec.mode with
        | none => simp [canEnter]
        | some m =>
          cases m <;> simp [canEnter, Thread.holds, hnone]

/-! ## "… and the instance stays usable afterwards" -/

/-- Whenever all goroutines are between critical sections (in particular: when all calls have returned), the state is
again an initial state: nobody holds the lock, every remaining program is well locked — so `race_free` and
`deadlock_free` apply afresh to whatever is called next on the same instance. -/
theorem quiescent_is_init {init s : State} (hi : Init init) (r : Reach init s) (hq : ∀ i, (s i).cur = none) :
    Init s ∧ ∀ i, (s i).holds = none := by
  have hinv := inv_reach hi r
  refine ⟨fun i => ⟨hq i, (hinv.1 i)⟩, fun i => ?_⟩
  simp [Thread.holds, hq i]

/-- … and then any goroutine can enter any section at once, whatever its lock mode. -/
theorem quiescent_admits_everyone {s : State} (hq : ∀ i, (s i).cur = none) (i : Nat) (m : Option Mode) :
    canEnter s i m := by
  have hn : ∀ j, (s j).holds = none := fun j => by simp [Thread.holds, hq j]
  cases m with
  | none => trivial
  | some m =>
    cases m with
    | r => intro j _ h; rw [hn j] at h; cases h
    | w => intro j _; exact hn j

/-- Every call returns if it keeps being scheduled: a goroutine inside a section can always leave it (sections do not
block: no flag `blocksWhileHolding` / `nestedAcquire` is admitted by `table_ok`), and one in front of a section can
enter as soon as the holders — each of which can leave — have left.  Stated as: from every reachable state there is
a finite run to a state in which a given goroutine has finished one more section. -/
theorem can_always_leave {s : State} (i : Nat) (sec : Sect) (rest : List Sect) (h : s i = ⟨some sec, rest⟩) :
    Step s (upd s i ⟨none, rest⟩) := Step.leave s i sec rest h

/-! ## The regenerated table -/

/-- No flag that concerns locking is permitted; `atomicOutsideLock` (an access to a field of a `sync/atomic` type outside
the critical section) is not a race and is the business of C02's table obligation.  (Until /repo de6a3af `BsTree.Traverse` sent the items to its caller from a helper
goroutine that held the read lock, and that one shape — `traverseProducer` — was admitted under the reading that the
callback does not use the tree.  Three independent reviewers showed the deadlock that reading hid; Traverse now collects
under the read lock and calls back after releasing it, so it is an ordinary `r` section and the exception is gone.) -/
def allowedFlags : List String := ["atomicOutsideLock", "twoAtomicWritesInLock", "goroutine"]
  -- `twoAtomicWritesInLock`: likewise no race (C02's `atomicsOk` judges it); `goroutine`: marks the rows of the library's
  -- own goroutines (`go c.cleanup()`), which must be well-locked like every other row (C02's `goroutinesOk` adds: one
  -- critical section per iteration)
  --   -- an access through sync/atomic never races (Go memory model); C02 counts it as a step

def pathOk (p : PathEntry) : Bool :=
  p.flags.all (allowedFlags.contains ·) && p.sects.all (fun s => decide s.WellLocked)

def tableOk (t : List MethodEntry) : Bool := t.all (fun m => m.paths.all pathOk)

/-- Obligation re-checked against the current source on every run. -/
theorem table_ok : tableOk GoguVerif.Gen.lockTable = true := by decide

theorem table_sections_wellLocked :
    ∀ m ∈ GoguVerif.Gen.lockTable, ∀ p ∈ m.paths, ∀ c ∈ p.sects, c.WellLocked := by
  intro m hm p hp c hc
  have h := table_ok
  simp only [tableOk, List.all_eq_true] at h
  have h2 := h m hm p hp
  simp only [pathOk, Bool.and_eq_true, List.all_eq_true, decide_eq_true_eq] at h2
  exact h2.2 c hc

/-- A thread whose program consists of sections of table methods (any methods, any paths, any
number of calls — a superset of "any sequence of method calls"). -/
def FromTable (t : Thread) : Prop :=
  t.cur = none ∧ ∀ c ∈ t.rest, ∃ m ∈ GoguVerif.Gen.lockTable, ∃ p ∈ m.paths, c ∈ p.sects

theorem init_of_fromTable {s : State} (h : ∀ i, FromTable (s i)) : Init s := by
  intro i
  refine ⟨(h i).1, ?_, ?_⟩
  · intro c hc; rw [(h i).1] at hc; cases hc
  · intro c hc
    obtain ⟨m, hm, p, hp, hcp⟩ := (h i).2 c hc
    exact table_sections_wellLocked m hm p hp c hcp

/-- C01 for the current source: any number of goroutines calling the public methods of one shared
instance never reach a state with two conflicting simultaneous accesses … -/
theorem containers_race_free {init s : State} (h : ∀ i, FromTable (init i)) (r : Reach init s) :
    ¬ Race s := race_free (init_of_fromTable h) r

/-- … and never block forever because of how the calls interleave. -/
theorem containers_deadlock_free {init s : State} (h : ∀ i, FromTable (init i)) (r : Reach init s)
    (i : Nat) (hunf : (s i).cur ≠ none ∨ (s i).rest ≠ []) : ∃ s', Step s s' :=
  deadlock_free (init_of_fromTable h) r i hunf

/-- a method that sends on a channel (or otherwise blocks) while holding a lock is rejected -/
example : pathOk { sects := [⟨some .r, [⟨0, false⟩]⟩], flags := ["blocksWhileHolding"] } = false := by decide
example : pathOk { sects := [⟨some .r, [⟨0, false⟩]⟩], flags := ["traverseProducer"] } = false := by decide

/-- non-vacuity: a concrete two-thread system built from well-locked sections is an `Init` state -/
example : Init (fun i => if i = 0 then ⟨none, [⟨some .w, [⟨0, true⟩]⟩]⟩
                         else ⟨none, [⟨some .r, [⟨0, false⟩]⟩]⟩) := by
  intro i
  by_cases h : i = 0 <;> simp [h, Thread.WellLocked, Sect.WellLocked]

/-- a writer under the read lock is rejected -/
example : pathOk { sects := [⟨some .r, [⟨0, true⟩]⟩], flags := [] } = false := by decide
/-- an unlocked read is rejected -/
example : pathOk { sects := [⟨none, [⟨0, false⟩]⟩], flags := [] } = false := by decide

end GoguVerif.Theorems.C01
