import GoguVerif.Lemmas.C16Helpers5
import GoguVerif.Theorems.C16Helpers4
/-!
# C16 — store-level refinement of concrete helpers, fifth batch: the map-returning helpers

The same as `Theorems/C16Helpers4.lean`, for the helpers written over the slice store and the map store in
`Model/StoreHelpers5.lean`.  For each, for ALL stores, all argument map objects that exist, EVERY visiting order
of every `range` over a map (any function whose result is a permutation of the entries; one order per position
where several maps are ranged over), all callbacks:

1. **value refinement** — the result object shows the answer of the value-level model (`Model/C14.lean`,
   `Model/C12.lean`, `Model/C11.lean`) for the visited order;
2. **frame** — every map object that existed before the call is unchanged (`MFresh.frame`; for the helpers that
   make no map the map store comes back as it was), every slice array that existed is unchanged (`Frame`; where
   the helper touches no slice storage the slice store comes back as it was).  `PartitionMap` is the one helper
   that WRITES its argument maps (`m[k] = v` inside `for k, v := range m`): the whole map store is proved to be
   unchanged;
3. **fresh result** — the result is ONE map object under an id that did not exist (`MFresh.fresh`, `MFresh.one`).

Assumed, as in the earlier files: key and value type `Int`, callbacks are pure Lean functions, `WF` for slice
headers, map objects have pairwise distinct keys (`Spec.C14.WF`, where a theorem needs it: every Go map has), a
map argument is an object that exists (`m < μ.length`; a nil map argument reads like an existing empty
object), and that `Model/StoreHelpers5.lean` mirrors the Go statements (read off the source, not regenerated).
-/
set_option autoImplicit false
namespace GoguVerif.Theorems.C16Helpers5
open GoguVerif Model.Store Model.StoreHelpers Model.StoreHelpers3 Model.StoreHelpers4 Model.StoreHelpers5
open Lemmas.C16Helpers Lemmas.C16Helpers4 Lemmas.C16Helpers5 Theorems.C16 Theorems.C16Helpers
open Theorems.C16Helpers3 Theorems.C16Helpers4

/-- **what a map-returning helper does to the map store**: the result `res` shows `obj`; it is an id that did
not exist; every object that existed is unchanged; exactly one object was made -/
structure MFresh (μ μ' : MStore) (res : Nat) (obj : List (Int × Int)) : Prop where
  shows : mget μ' res = obj
  fresh : μ.length ≤ res
  frame : ∀ j, j < μ.length → μ'[j]? = μ[j]?
  one : μ'.length = μ.length + 1

theorem MFresh.push (μ : MStore) (obj : List (Int × Int)) : MFresh μ (μ ++ [obj]) μ.length obj :=
  ⟨(mstore_push μ obj).1, Nat.le_refl _, (mstore_push μ obj).2, by simp⟩

/-- an argument map reads the same after the call -/
theorem MFresh.arg {μ μ' : MStore} {res : Nat} {obj : List (Int × Int)} (h : MFresh μ μ' res obj) {m : Nat}
    (hm : m < μ.length) : mget μ' m = mget μ m := by
  unfold mget; rw [h.frame m hm]

/-! ## FilterMap -/

/-- **FilterMap**, for every visiting order: never panics; the result is a new map object showing the
value-level model's answer for the order visited; every map object that existed (the argument included) is
unchanged. -/
theorem filterMap_refines (order : Order) (μ : MStore) (m : Nat) (fn : Int → Bool) (hm : m < μ.length) :
    ∃ μ' res, filterMapStoreIn order μ m fn = some (μ', res) ∧
      MFresh μ μ' res (Model.C14.FilterMap (order (mget μ m)) fn) := by
  refine ⟨_, _, ?_, MFresh.push μ _⟩
  simp only [filterMapStoreIn, mnew, mget_push_old [] hm, filterMapLoopM_eq]
  rfl

/-- the answer does not depend on the order: with distinct keys it is always the entries whose value
qualifies, in the order visited -/
theorem filterMap_any_order (order : Order) (μ : MStore) (m : Nat) (fn : Int → Bool)
    (hwf : Spec.C14.WF (mget μ m)) (ho : (order (mget μ m)).Perm (mget μ m)) :
    (Model.C14.FilterMap (order (mget μ m)) fn).Perm ((mget μ m).filter (fun e => fn e.2)) := by
  rw [Theorems.C14.filterMap_eq_filter (wf_of_perm hwf ho.symm)]
  exact ho.filter _

/-- map 1 of `μx` is `{1:10, 2:20, 3:30, 4:40}`; values above 15, visited backwards: the new object is number 3 -/
example : filterMapStoreIn List.reverse μx 1 (fun v => decide (v > 15)) =
    some (μx ++ [[(4, 40), (3, 30), (2, 20)]], 3) := by decide

/-- the hypotheses hold there -/
example : 1 < μx.length ∧ Spec.C14.WF (mget μx 1) ∧ (List.reverse (mget μx 1)).Perm (mget μx 1) :=
  ⟨by decide, by decide, List.reverse_perm _⟩

/-! ## MapValues, MapKeys, MapUnique, FindByKey -/

/-- **MapValues**: as `FilterMap`. -/
theorem mapValues_refines (order : Order) (μ : MStore) (m : Nat) (fn : Int → Int) (hm : m < μ.length) :
    ∃ μ' res, mapValuesStoreIn order μ m fn = some (μ', res) ∧
      MFresh μ μ' res (Model.C14.MapValues (order (mget μ m)) fn) := by
  refine ⟨_, _, ?_, MFresh.push μ _⟩
  simp only [mapValuesStoreIn, mnew, mget_push_old [] hm, mapValuesLoopM_eq]
  rfl

/-- **MapKeys** (two keys may collide under `fn`: then the entry visited later wins — in the store-level model
exactly as in the value-level one). -/
theorem mapKeys_refines (order : Order) (μ : MStore) (m : Nat) (fn : Int → Int → Int) (hm : m < μ.length) :
    ∃ μ' res, mapKeysStoreIn order μ m fn = some (μ', res) ∧
      MFresh μ μ' res (Model.C14.MapKeys (order (mget μ m)) fn) := by
  refine ⟨_, _, ?_, MFresh.push μ _⟩
  simp only [mapKeysStoreIn, mnew, mget_push_old [] hm, mapKeysLoopM_eq]
  rfl

/-- **MapUnique** (which of two entries with the same value survives depends on the order: the result is the
value-level model's for the order visited). -/
theorem mapUnique_refines (order : Order) (μ : MStore) (m : Nat) (hm : m < μ.length) :
    ∃ μ' res, mapUniqueStoreIn order μ m = some (μ', res) ∧
      MFresh μ μ' res (Model.C14.MapUnique (order (mget μ m))) := by
  refine ⟨_, _, ?_, MFresh.push μ _⟩
  simp only [mapUniqueStoreIn, mnew, mget_push_old [] hm, mapUniqueLoopM_eq]
  rfl

/-- **FindByKey** (the `break` leaves at most one entry in the result). -/
theorem findByKey_refines (order : Order) (μ : MStore) (m : Nat) (fn : Int → Bool) (hm : m < μ.length) :
    ∃ μ' res, findByKeyStoreIn order μ m fn = some (μ', res) ∧
      MFresh μ μ' res (Model.C14.FindByKey fn (order (mget μ m))) := by
  refine ⟨_, _, ?_, MFresh.push μ _⟩
  simp only [findByKeyStoreIn, mnew, mget_push_old [] hm, findByKeyLoopM_eq]

example : mapValuesStoreIn id μx 1 (fun v => v + 1) = some (μx ++ [[(1, 11), (2, 21), (3, 31), (4, 41)]], 3) ∧
    mapKeysStoreIn List.reverse μx 1 (fun k _ => k % 2) = some (μx ++ [[(0, 20), (1, 10)]], 3) ∧
    mapUniqueStoreIn id (μx ++ [[(1, 5), (2, 5), (3, 6)]]) 3 =
      some (μx ++ [[(1, 5), (2, 5), (3, 6)]] ++ [[(1, 5), (3, 6)]], 4) ∧
    findByKeyStoreIn List.reverse μx 1 (fun k => decide (k < 4)) = some (μx ++ [[(3, 30)]], 3) :=
  ⟨by decide, by decide, by decide, by decide⟩

/-! ## PickBy, Pick -/

/-- **PickBy**: `result[k] = collection[k]` READS the argument map again — from the current store. -/
theorem pickBy_refines (order : Order) (μ : MStore) (c : Nat) (fn : Int → Int → Bool) (hc : c < μ.length)
    (hwf : Spec.C14.WF (mget μ c)) (ho : (order (mget μ c)).Perm (mget μ c)) :
    ∃ μ' res, pickByStoreIn order μ c fn = some (μ', res) ∧
      MFresh μ μ' res (Model.C14.PickBy (order (mget μ c)) fn) := by
  refine ⟨_, _, ?_, MFresh.push μ _⟩
  simp only [pickByStoreIn, mnew, mget_push_old [] hc, pickByLoopM_eq fn μ hc]
  unfold Model.C14.PickBy
  rw [pickByLoop_congr (fun k => idx_perm hwf ho.symm k)]

/-- **Pick**, for every variadic slice `keys` anywhere in the slice store: never panics; the error flag and
the result object are the value-level model's; the slice store comes back AS IT WAS (`keys` is only read); one
new map object, the others unchanged. -/
theorem pick_refines (order : Order) (σ : Store) (μ : MStore) (c : Nat) (keys : Slice) (hk : WF σ keys)
    (hc : c < μ.length) (hwf : Spec.C14.WF (mget μ c)) (ho : (order (mget μ c)).Perm (mget μ c)) :
    ∃ μ' res, pickStoreIn order σ μ c keys =
        some (σ, μ', res, (Model.C14.Pick (order (mget μ c)) (elems σ keys)).2) ∧
      MFresh μ μ' res (Model.C14.Pick (order (mget μ c)) (elems σ keys)).1 := by
  have hlen := elems_length hk
  unfold Model.C14.Pick
  by_cases h0 : keys.len = 0
  · refine ⟨μ ++ [[]], μ.length, ?_, ?_⟩
    · simp only [pickStoreIn, mnew, h0, if_true, hlen]
    · simp only [hlen, h0, if_true]; exact MFresh.push μ []
  · refine ⟨μ ++ [Model.C14.pickLoop (mget μ c) (elems σ keys) (order (mget μ c)) []], μ.length, ?_, ?_⟩
    · simp only [pickStoreIn, mnew, h0, if_false, hlen, mget_push_old [] hc, pickLoopM_eq hk μ hc]
    · simp only [hlen, h0, if_false]
      rw [← pickLoop_congr (fun k => idx_perm hwf ho.symm k)]
      exact MFresh.push μ _

/-- `keysx = [2, 9]` (array 1 of `σh`, a sentinel behind it): `Pick(map1, 2, 9)`; `Pick(map1)` with no key
returns the (new, empty) map and the error -/
example : pickStoreIn List.reverse σh μx 1 keysx = some (σh, μx ++ [[(2, 20)]], 3, false) ∧
    pickStoreIn id σh μx 1 { arr := 1, off := 0, len := 0, cap := 3 } = some (σh, μx ++ [[]], 3, true) ∧
    pickByStoreIn id μx 1 (fun k v => decide (k + v > 30)) = some (μx ++ [[(3, 30), (4, 40)]], 3) :=
  ⟨by decide, by decide, by decide⟩

/-! ## Find: a local slice of keys, sorted in place; Invert: `Keys(m)` -/

theorem c14_find_eq (m : List (Int × Int)) (fn : Int → Bool) :
    Model.C14.Find m fn = .ok (Model.C14.findLoop m fn (Model.C14.sortKeys (m.map Prod.fst))) := by
  have := Lemmas.C14.keys_eq m
  unfold Model.C14.Keys at this
  unfold Model.C14.Find
  rw [this]

/-- **Find**, for every visiting order: never panics; the result is a new map object showing the value-level
model's answer; every map object that existed is unchanged; the slice store gets ONE new array (the local
`keys`, filled and sorted in place), every array that existed is unchanged. -/
theorem find_refines (order : Order) (σ : Store) (μ : MStore) (m : Nat) (fn : Int → Bool) (hm : m < μ.length)
    (hwf : Spec.C14.WF (mget μ m)) (ho : (order (mget μ m)).Perm (mget μ m)) :
    ∃ σ' μ' res obj, findStoreIn order σ μ m fn = some (σ', μ', res) ∧
      Model.C14.Find (order (mget μ m)) fn = .ok obj ∧ MFresh μ μ' res obj ∧
      Frame σ σ' ∧ σ'.length = σ.length + 1 := by
  obtain ⟨σ1, keys, h1, h2, h3, _⟩ := mapFillStoreIn_spec (fun k _ => k) order σ μ m ho.length_eq []
  have hsl : (Model.C14.sortKeys (elems σ1 keys)).length = keys.len := by
    rw [(Lemmas.C14.sortKeys_perm _).length_eq, elems_length h3.wf]
  obtain ⟨σ2, w1, w2, w3⟩ := writeAll_spec h3.wf (Model.C14.sortKeys (elems σ1 keys)) 0 (by omega)
  have h4 := h3.inplace w3
  have he2 : elems σ2 keys = Model.C14.sortKeys ((order (mget μ m)).map Prod.fst) := by
    rw [w2, List.take_zero, List.nil_append, Nat.zero_add, hsl,
      List.drop_of_length_le (by rw [elems_length h3.wf]; omega), List.append_nil, h2]
  simp only [mapFillStoreIn] at h1
  cases hf : mapFillLoop (fun k _ => k) (alloc σ (mget μ m).length (mget μ m).length).2 (order (mget μ m)) 0
      (alloc σ (mget μ m).length (mget μ m).length).1 with
  | none => rw [hf] at h1; cases h1
  | some σ1' =>
    rw [hf] at h1
    simp only [Option.some.injEq, Prod.mk.injEq] at h1
    obtain ⟨e1, e2⟩ := h1
    subst e1
    rw [e2] at hf
    refine ⟨σ2, _, _, _, ?_, c14_find_eq _ fn, MFresh.push μ _, h4.frame, ?_⟩
    · simp only [findStoreIn, mnew, mget_push_old [] hm, hf, e2, sortSliceStore, w1,
        findLoopM_eq fn h4.wf μ hm keys.len 0 (by omega), List.drop_zero, he2]
      rw [findLoop_congr (fun k => idx_perm hwf ho.symm k)]
    · rw [mapFillLoop_eq_writeAll] at hf
      rw [w3.1, writeAll_length _ _ hf]; simp [alloc]

/-- map 1 of `μx`, first value above 15 in KEY order, whatever the visiting order; the local `keys` is array 2 -/
example : findStoreIn List.reverse σh μx 1 (fun v => decide (v > 15)) =
    some (σh ++ [[1, 2, 3, 4]], μx ++ [[(2, 20)]], 3) := by decide

/-- **Invert**: `keys := Keys(m)` makes one new array; the result is a new map object showing the value-level
model's answer; everything that existed is unchanged. -/
theorem invert_refines (order : Order) (σ : Store) (μ : MStore) (m : Nat) (hm : m < μ.length)
    (hwf : Spec.C14.WF (mget μ m)) (ho : (order (mget μ m)).Perm (mget μ m)) :
    ∃ σ' μ' res obj, invertStoreIn order σ μ m = some (σ', μ', res) ∧
      Model.C14.Invert (order (mget μ m)) = .ok obj ∧ MFresh μ μ' res obj ∧ Frame σ σ' := by
  have hg : mget (μ ++ [[]]) m = mget μ m := mget_push_old [] hm
  obtain ⟨σ1, keys, k1, k2, _, k4, _, k6⟩ := keys_refines order σ (μ ++ [[]]) m (by rw [hg]; exact ho)
  rw [hg] at k2
  refine ⟨σ1, μ ++ [Model.C14.invertLoop (mget μ m) (elems σ1 keys) []], μ.length, _, ?_, ?_,
    MFresh.push μ _, k4⟩
  · simp only [invertStoreIn, mnew, k1, invertLoopM_eq k6 μ hm keys.len 0 (by omega), List.drop_zero]
  · unfold Model.C14.Invert
    rw [k2]
    simp only
    rw [invertLoop_congr (fun k => idx_perm hwf ho.symm k)]

example : invertStoreIn List.reverse σh μx 1 =
    some (σh ++ [[4, 3, 2, 1]], μx ++ [[(40, 4), (30, 3), (20, 2), (10, 1)]], 3) := by decide

/-! ## FilterMapCollection, Filter2DMapCollection: nothing is written -/

/-- **FilterMapCollection**, for every choice of visiting orders (one per position): the map store comes back
as it was; the result — a list made by the helper — holds the ids of the maps with a qualifying value, in the
order of the collection, whatever the visiting orders; what these ids show is the value-level model's answer. -/
theorem filterMapCollection_refines (orders : Nat → Order) (ho : ∀ i l, (orders i l).Perm l) (μ : MStore)
    (coll : List Nat) (fn : Int → Bool) :
    filterMapCollectionStoreIn orders μ coll fn =
        (μ, coll.filter (fun id => (mget μ id).any (fun e => fn e.2))) ∧
      (filterMapCollectionStoreIn orders μ coll fn).2.map (mget μ) =
        Model.C14.FilterMapCollection (coll.map (mget μ)) fn := by
  have h1 : filterMapCollectionStoreIn orders μ coll fn =
      (μ, coll.filter (fun id => (mget μ id).any (fun e => fn e.2))) := by
    simp only [filterMapCollectionStoreIn, filterCollLoopM_eq orders ho, List.nil_append]
  refine ⟨h1, ?_⟩
  rw [h1]
  unfold Model.C14.FilterMapCollection
  rw [Lemmas.C14.filterCollLoop_eq, List.nil_append, List.filter_map]
  rfl

/-- what an outer map of `Filter2DMapCollection` shows: its inner map references replaced by their entries -/
def show2 (μ2 : M2Store) (μ : MStore) (id : Nat) : List (Int × List (Int × Int)) :=
  (m2get μ2 id).map (fun e => (e.1, mget μ e.2))

/-- **Filter2DMapCollection**: both map stores come back as they were; the result holds the ids of the outer
maps with a qualifying inner map, whatever the visiting orders; they show the value-level model's answer. -/
theorem filter2DMapCollection_refines (orders : Nat → List (Int × Nat) → List (Int × Nat))
    (ho : ∀ i l, (orders i l).Perm l) (μ2 : M2Store) (μ : MStore) (coll : List Nat)
    (fn : List (Int × Int) → Bool) :
    filter2DMapCollectionStoreIn orders μ2 μ coll fn =
        (μ2, μ, coll.filter (fun id => (m2get μ2 id).any (fun e => fn (mget μ e.2)))) ∧
      (filter2DMapCollectionStoreIn orders μ2 μ coll fn).2.2.map (show2 μ2 μ) =
        Model.C14.Filter2DMapCollection (coll.map (show2 μ2 μ)) fn := by
  have h1 : filter2DMapCollectionStoreIn orders μ2 μ coll fn =
      (μ2, μ, coll.filter (fun id => (m2get μ2 id).any (fun e => fn (mget μ e.2)))) := by
    simp only [filter2DMapCollectionStoreIn, filter2DLoopM_eq orders ho, List.nil_append]
  refine ⟨h1, ?_⟩
  rw [h1]
  unfold Model.C14.Filter2DMapCollection
  rw [Lemmas.C14.filterCollLoop_eq, List.nil_append, List.filter_map]
  congr 1
  apply List.filter_congr
  intro id _
  simp [Spec.C14.hasQualifying, show2, List.any_map, Function.comp_def]

/-- the collection `[map 1, map 0, map 2, map 1]` of `μx`, values above 80: map 2 only (`{2:99}`); the second
visit of map 1 goes the other way round.  Outer maps `{5: map 0, 6: map 2}` and `{5: map 0}`, inner maps holding
key 2. -/
example : filterMapCollectionStoreIn (fun i => if i = 3 then List.reverse else id) μx [1, 0, 2, 1]
      (fun v => decide (v > 80)) = (μx, [2]) ∧
    filter2DMapCollectionStoreIn (fun _ => List.reverse) [[(5, 0), (6, 2)], [(5, 0)]] μx [0, 1, 0]
      (fun m => (Model.C14.get? m 2).isSome) = ([[(5, 0), (6, 2)], [(5, 0)]], μx, [0, 0]) :=
  ⟨by decide, by decide⟩

/-! ## PartitionMap: the self-assignment `m[k] = v` -/

/-- **PartitionMap**, for every choice of visiting orders: never panics; the WHOLE map store comes back as it
was — `m[k] = v` inside `for k, v := range m` writes back the value just read, whichever entry is visited
first —; the two result lists (made by the helper) hold the ids of the non-empty maps that qualify / do not;
what they show is the value-level model's answer. -/
theorem partitionMap_refines (orders : Nat → Order) (ho : ∀ i l, (orders i l).Perm l) (μ : MStore)
    (ms : List Nat) (fn : List (Int × Int) → Bool) (hwf : ∀ m ∈ ms, Spec.C14.WF (mget μ m)) :
    ∃ r0 r1, partitionMapStoreIn orders μ ms fn = some (μ, r0, r1) ∧
      r0 = ms.filter (fun m => !(mget μ m).isEmpty && fn (mget μ m)) ∧
      r1 = ms.filter (fun m => !(mget μ m).isEmpty && !fn (mget μ m)) ∧
      (r0.map (mget μ), r1.map (mget μ)) = Model.C14.PartitionMap (ms.map (mget μ)) fn := by
  refine ⟨_, _, ?_, rfl, rfl, ?_⟩
  · simp only [partitionMapStoreIn, partitionMapLoopM_eq orders ho fn μ ms hwf, List.nil_append]
  · unfold Model.C14.PartitionMap
    rw [Lemmas.C14.partitionLoop_eq]
    simp only [List.nil_append, List.filter_map]
    rfl

/-- the write is a real write: on an object whose entry for the key held ANOTHER value it would show (the
statement above is about the value the `range` has just read) -/
example : mput μx 1 2 21 = some [[(7, 70)], [(1, 10), (2, 21), (3, 30), (4, 40)], [(2, 99)]] ∧
    mput μx 1 2 20 = some μx := ⟨by decide, by decide⟩

/-- maps 1, 0, 2 and a map that does not exist (a nil map: skipped), "has key 2": the map store is unchanged -/
example : partitionMapStoreIn (fun _ => List.reverse) μx [1, 0, 7, 2] (fun m => (Model.C14.get? m 2).isSome) =
    some (μx, [1, 2], [0]) := by decide

/-- the hypothesis holds of that collection -/
example : ∀ m ∈ [1, 0, 7, 2], Spec.C14.WF (mget μx m) := by decide

/-! ## GroupBy, DuplicateWithIndex: a LOCAL map whose values are slice headers -/

/- FULL statement intended for `GroupBy` (not proved here):
   theorem groupBy_refines (σ η slice fn) (h : WF σ slice) :
     ∃ σ' η' res g, groupByStore σ η slice fn = some (σ', η', res) ∧
       Model.C12.groupBy (elems σ slice) fn = .ok g ∧
       (hget η' res).map (fun e => (e.1, elems σ' e.2)) = g ∧ Frame σ σ' ∧ res = η.length ∧ … -/

/-- **GroupBy — frame and freshness** (PARTIAL: see below).  For every store, every well-formed argument header
and every callback, a call that returns: every array that existed before the call is unchanged in every cell
(spare capacity included) — although the helper `append`s through headers it reads back from a map, and those
appends are IN PLACE (`make([]T2, 0, len(mapSlice))` leaves spare capacity) —; the result is ONE new map object;
every header stored in it points into an array that did not exist before the call (so no group aliases the
argument, the `Map` result, or anything else the caller holds).

What is MISSING for the full statement: (1) value refinement — that the groups show `Model.C12.groupBy`'s
answer (needs the additional invariant that different keys own different arrays); (2) that the call never panics
(`origSlice[idx]` is in range because `Map` returns a slice of the same length). -/
theorem groupBy_frame_partial (σ : Store) (η : HStore) (slice : Slice) (fn : Int → Int) (h : WF σ slice)
    {σ' : Store} {η' : HStore} {res : Nat} (hr : groupByStore σ η slice fn = some (σ', η', res)) :
    Frame σ σ' ∧ σ.length ≤ σ'.length ∧ res = η.length ∧
      ∃ obj, η' = η ++ [obj] ∧ ∀ e ∈ obj, σ.length ≤ e.2.arr := by
  obtain ⟨σ1, keys, m1, _, m3, m4, m5⟩ := map_refines σ slice fn h
  have hinv : HInv σ σ1 [] := ⟨by have := WF_arr_lt m5; omega, m3, fun e he => by cases he⟩
  simp only [groupByStore, m1, mapByIndexStore, hnew] at hr
  cases hl : mapByIndexLoopS slice keys η.length keys.len 0 σ1 (η ++ [[]]) with
  | none => rw [hl] at hr; cases hr
  | some p =>
    obtain ⟨σ2, η2⟩ := p
    rw [hl] at hr
    simp only [Option.some.injEq, Prod.mk.injEq] at hr
    obtain ⟨rfl, rfl, rfl⟩ := hr
    obtain ⟨acc, e1, hi⟩ := mapByIndexLoopS_frame slice keys η _ 0 σ1 [] hinv hl
    exact ⟨hi.frame, hi.len, rfl, acc, e1, hi.fresh⟩

/-- `GroupBy(arg0, x % 2)` on `σx` (`arg0 = [1,2,3,4]` inside array 0, sentinels around it): array 2 is `Map`'s
result, arrays 3 and 4 the two groups `1 ↦ [1,3]`, `0 ↦ [2,4]` (capacity 4 each, filled in place); `σx` is a
prefix of the new store: the call returns, and the hypothesis of the theorem holds (`wf_arg0`) -/
example : groupByStore σx [] arg0 (fun x => x % 2) =
    some (σx ++ [[1, 0, 1, 0], [1, 3, 0, 0], [2, 4, 0, 0]],
      [[(1, { arr := 3, off := 0, len := 2, cap := 4 }), (0, { arr := 4, off := 0, len := 2, cap := 4 })]], 0) := by
  decide

/- FULL statement intended for `DuplicateWithIndex` (not proved here):
   for every order that permutes `kvMap`: the result object is a permutation of
   `(Model.C11.duplicateWithIndex (elems σ slice))` (keys with the index of their first occurrence). -/

/-- **DuplicateWithIndex — frame and freshness** (PARTIAL).  For every store, every argument header, EVERY
visiting order of `range kvMap` (any function at all), a call that returns: every slice array that existed is
unchanged — the helper writes `kvMap[v][0]`, `kvMap[v][1]` through headers read back from its local map —;
the result is ONE new object of the map store and every map object that existed is unchanged; the local
`kvMap` is one new object of the header-map store, all its headers pointing into arrays that did not exist.

What is MISSING for the full statement: value refinement against `Model.C11.duplicateWithIndex`, and that the
call never panics for a well-formed argument. -/
theorem duplicateWithIndex_frame_partial (order : List (Int × Slice) → List (Int × Slice)) (σ : Store)
    (μ : MStore) (η : HStore) (slice : Slice) {σ' : Store} {μ' : MStore} {η' : HStore} {res : Nat}
    (hr : duplicateWithIndexStoreIn order σ μ η slice = some (σ', μ', η', res)) :
    Frame σ σ' ∧ σ.length ≤ σ'.length ∧ res = μ.length ∧ (∃ obj, μ' = μ ++ [obj]) ∧
      ∃ kv, η' = η ++ [kv] ∧ ∀ e ∈ kv, σ.length ≤ e.2.arr := by
  have hinv : HInv σ σ [] := ⟨Nat.le_refl _, fun _ _ => rfl, fun e he => by cases he⟩
  simp only [duplicateWithIndexStoreIn, hnew, mnew] at hr
  cases hl : dupIdxLoopS slice η.length slice.len 0 0 σ (η ++ [[]]) with
  | none => rw [hl] at hr; cases hr
  | some p =>
    obtain ⟨σ1, η1⟩ := p
    rw [hl] at hr
    simp only at hr
    obtain ⟨kv, rfl, hi⟩ := dupIdxLoopS_frame slice η _ 0 0 σ [] hinv hl
    cases hc : dupIdxCollectM σ1 μ.length (order (hget (η ++ [kv]) η.length)) (μ ++ [[]]) with
    | none => rw [hc] at hr; cases hr
    | some μ2 =>
      rw [hc] at hr
      simp only [Option.some.injEq, Prod.mk.injEq] at hr
      obtain ⟨rfl, rfl, rfl, rfl⟩ := hr
      exact ⟨hi.frame, hi.len, rfl, dupIdxCollectM_push _ _ _ _ hc, kv, rfl, hi.fresh⟩

/-- `[3,1,3,1,3,2]` inside an array with sentinels: `3` first at 0, `1` first at 1; arrays 1–3 are the two-cell
slices of `kvMap` (`[first index, last count]` — the ONE `count` variable runs on across values: `3 ↦ 4`,
`1 ↦ 3`); `kvMap` visited backwards -/
example : duplicateWithIndexStoreIn List.reverse [[-555, 3, 1, 3, 1, 3, 2, -777, -777]] μx []
      { arr := 0, off := 1, len := 6, cap := 8 } =
    some ([[-555, 3, 1, 3, 1, 3, 2, -777, -777], [0, 4], [1, 3], [5, 1]], μx ++ [[(1, 1), (3, 0)]],
      [[(3, { arr := 1, off := 0, len := 2, cap := 2 }), (1, { arr := 2, off := 0, len := 2, cap := 2 }),
        (2, { arr := 3, off := 0, len := 2, cap := 2 })]], 3) := by rfl

/-! ## agreement with the regenerated effect table -/

/-- the helpers covered here with what is PROVED about them: (name, parameters written through, parameters the
result may alias, all writes are the self-assignment idiom) -/
def covered5 : List (String × List Nat × List Nat × Bool) :=
  [("FilterMap", [], [], false), ("FilterMapCollection", [], [], false), ("Filter2DMapCollection", [], [], false),
   ("MapValues", [], [], false), ("MapKeys", [], [], false), ("MapUnique", [], [], false),
   ("Find", [], [], false), ("FindByKey", [], [], false), ("Invert", [], [], false),
   ("Pick", [], [], false), ("PickBy", [], [], false), ("PartitionMap", [0], [], true)]

/-- OBLIGATION re-checked against the current source on every run: for every helper covered here the
translator's regenerated classification (`Gen.effects`) is the one proved above (no parameter written through
and no result aliasing a parameter; for `PartitionMap`: parameter 0 written, by self-assignments only —
`partitionMap_refines` proves these leave every map object as it was). -/
theorem covered5_agree_with_table :
    covered5.all (fun c => Gen.effects.any (fun e => e.name == c.1 && e.writes == c.2.1 && e.aliases == c.2.2.1 &&
      e.selfAssignOnly == c.2.2.2)) = true := by decide

/-- the helpers for which the frame / freshness half is proved here (`…_frame_partial`), value refinement open -/
def covered5_partial : List (String × List Nat × List Nat × Bool) :=
  [("GroupBy", [], [], false), ("DuplicateWithIndex", [], [], false)]

theorem covered5_partial_agree_with_table :
    covered5_partial.all (fun c => Gen.effects.any (fun e => e.name == c.1 && e.writes == c.2.1 &&
      e.aliases == c.2.2.1 && e.selfAssignOnly == c.2.2.2)) = true := by decide

end GoguVerif.Theorems.C16Helpers5
