import GoguVerif.Theorems.C05
/-!
# C05 — whole-history laws of the FIFO (arbitrary interleaved histories)

`Theorems/C05.lean` proves that both queue models produce exactly the answers of the abstract FIFO
`Spec.C05.run` for every history, and states the clauses of the property step by step.  This file
proves the clauses as laws of WHOLE histories `ops` (any interleaving of all six operations), about
`Spec.C05.run`, and transfers them to the two models through `queue_refines` / `lqueue_refines`.

* (a) conservation and order: `dequeued ++ final = initial ++ enqueued` (`conservation`), after the
  last `Clear` for histories that clear (`conservation_since_clear`, `conservation_split`); hence the
  dequeued values are a prefix of the enqueued ones and the content is the rest
  (`dequeued_is_prefix`, `content_is_rest`).
* (b) size: `final_size`, `size_answer_final`, `size_observation`, `size_observation_counts`.
* (c) `peek_then_dequeue`, `peek_then_dequeue_nonempty`, `search_observation`,
  `search_observation_history`, `dequeue_empty_observation`.
-/
namespace GoguVerif.Theorems.C05More
open GoguVerif Spec.C05

set_option linter.unusedSectionVars false
variable {α : Type} [Inhabited α] [DecidableEq α]

/-! ## What a history enqueues, what its answers hand back -/

/-- the values enqueued by a history, in order -/
def enqueued : List (Op α) → List α
  | [] => []
  | .enqueue x :: ops => x :: enqueued ops
  | _ :: ops => enqueued ops

/-- the values handed back by the SUCCESSFUL dequeues (answers `deq v false`), in order.  Only
`Dequeue` ever answers `deq`, so this is a function of the answers alone. -/
def dequeued : List (Out α) → List α
  | [] => []
  | .deq v false :: os => v :: dequeued os
  | _ :: os => dequeued os

theorem enqueued_append (a b : List (Op α)) : enqueued (a ++ b) = enqueued a ++ enqueued b := by
  induction a with
  | nil => rfl
  | cons op a ih => cases op <;> simp [enqueued, ih]

theorem dequeued_append (a b : List (Out α)) : dequeued (a ++ b) = dequeued a ++ dequeued b := by
  induction a with
  | nil => rfl
  | cons o a ih =>
    cases o with
    | deq v e => cases e <;> simp [dequeued, ih]
    | _ => simp [dequeued, ih]

/-! ## Structure of `run` -/

theorem run_cons (s : List α) (op : Op α) (ops : List (Op α)) :
    run s (op :: ops) = ((run (step s op).1 ops).1, (step s op).2 :: (run (step s op).1 ops).2) := rfl

theorem run_append (s : List α) (a b : List (Op α)) :
    run s (a ++ b) = ((run (run s a).1 b).1, (run s a).2 ++ (run (run s a).1 b).2) := by
  induction a generalizing s with
  | nil => rfl
  | cons op a ih => simp [run_cons, ih]

theorem run_length (s : List α) (ops : List (Op α)) : (run s ops).2.length = ops.length := by
  induction ops generalizing s with
  | nil => rfl
  | cons op ops ih => simp [run_cons, ih]

/-- The answer observed at any point of any history is the abstract FIFO's answer in the content
reached by the history so far. -/
theorem observation (s : List α) (pre post : List (Op α)) (op : Op α) :
    (run s (pre ++ op :: post)).2[pre.length]? = some (step (run s pre).1 op).2 := by
  rw [run_append, run_cons]
  simp [run_length]

/-! ## (a) Conservation and order -/

/-- **Conservation and order, any initial content.**  For every history without `Clear`, whatever the
interleaving: the values handed back by the successful dequeues, followed by what is still held, are
exactly the initial content followed by the enqueued values — every element exactly once, in the
order it was enqueued. -/
theorem conservation (s : List α) (ops : List (Op α)) (hc : Op.clear ∉ ops) :
    dequeued (run s ops).2 ++ (run s ops).1 = s ++ enqueued ops := by
  induction ops generalizing s with
  | nil => simp [run, dequeued, enqueued]
  | cons op ops ih =>
    have hc' : Op.clear ∉ ops := fun h => hc (List.mem_cons_of_mem _ h)
    rw [run_cons]
    cases op with
    | enqueue x => simpa [step, dequeued, enqueued] using ih (s ++ [x]) hc'
    | dequeue =>
      cases s with
      | nil => simpa [step, dequeued, enqueued] using ih [] hc'
      | cons x r => simpa [step, dequeued, enqueued] using ih r hc'
    | peek => simpa [step, dequeued, enqueued] using ih s hc'
    | search x => simpa [step, dequeued, enqueued] using ih s hc'
    | size => simpa [step, dequeued, enqueued] using ih s hc'
    | clear => exact absurd List.mem_cons_self hc

/-- … started from the empty queue. -/
theorem conservation_empty (ops : List (Op α)) (hc : Op.clear ∉ ops) :
    dequeued (run ([] : List α) ops).2 ++ (run ([] : List α) ops).1 = enqueued ops := by
  simpa using conservation ([] : List α) ops hc

/-- Dequeue order = enqueue order: the dequeued values are the first `n` of `initial ++ enqueued`,
where `n` is the number of successful dequeues … -/
theorem dequeued_is_prefix (s : List α) (ops : List (Op α)) (hc : Op.clear ∉ ops) :
    dequeued (run s ops).2 = (s ++ enqueued ops).take (dequeued (run s ops).2).length := by
  rw [← conservation s ops hc]; simp

/-- … and the content is exactly the rest. -/
theorem content_is_rest (s : List α) (ops : List (Op α)) (hc : Op.clear ∉ ops) :
    (run s ops).1 = (s ++ enqueued ops).drop (dequeued (run s ops).2).length := by
  rw [← conservation s ops hc]; simp

/-- **Histories with `Clear`, explicit split.**  If the last `Clear` of the history is at position
`pre.length`, the answers after it and the final content satisfy the conservation law of the suffix
started empty, whatever happened before. -/
theorem conservation_split (s : List α) (pre suf : List (Op α)) (hc : Op.clear ∉ suf) :
    dequeued ((run s (pre ++ Op.clear :: suf)).2.drop (pre.length + 1)) ++
      (run s (pre ++ Op.clear :: suf)).1 = enqueued suf := by
  rw [run_append, run_cons]
  have hl : pre.length + 1 = ((run s pre).2 ++ [(step (run s pre).1 Op.clear).2]).length := by
    simp [run_length]
  have e : (run s pre).2 ++ (step (run s pre).1 Op.clear).2 :: (run (step (run s pre).1 Op.clear).1 suf).2
      = ((run s pre).2 ++ [(step (run s pre).1 Op.clear).2]) ++ (run (step (run s pre).1 Op.clear).1 suf).2 := by
    simp
  simp only [e, hl, List.drop_left]
  simpa [step] using conservation_empty suf hc

/-- does the history clear? -/
def cleared (ops : List (Op α)) : Bool := ops.any (fun o => decide (o = Op.clear))

/-- the operations after the last `Clear` (the whole history if it never clears) -/
def lastSeg : List (Op α) → List (Op α)
  | [] => []
  | op :: ops => if cleared ops then lastSeg ops else if op = Op.clear then ops else op :: ops

theorem cleared_false_iff (ops : List (Op α)) : cleared ops = false ↔ Op.clear ∉ ops := by
  simp [cleared]
  constructor
  · intro h hm; exact h _ hm rfl
  · intro h x hx e; exact h (e ▸ hx)

/-- `lastSeg` really is the part after the last `Clear`. -/
theorem lastSeg_spec (ops : List (Op α)) :
    Op.clear ∉ lastSeg ops ∧
    ((cleared ops = false ∧ lastSeg ops = ops) ∨
     (cleared ops = true ∧ ∃ pre, ops = pre ++ Op.clear :: lastSeg ops)) := by
  induction ops with
  | nil => simp [lastSeg, cleared]
  | cons op ops ih =>
    obtain ⟨ih1, ih2⟩ := ih
    by_cases hcl : cleared ops = true
    · have hl : lastSeg (op :: ops) = lastSeg ops := by simp [lastSeg, hcl]
      rw [hl]
      refine ⟨ih1, Or.inr ⟨by simp [cleared] at hcl ⊢; exact Or.inr hcl, ?_⟩⟩
      rcases ih2 with ⟨h, _⟩ | ⟨_, pre, hp⟩
      · rw [h] at hcl; cases hcl
      · exact ⟨op :: pre, by rw [List.cons_append, ← hp]⟩
    · have hcf : cleared ops = false := by simpa using hcl
      have hno : Op.clear ∉ ops := (cleared_false_iff ops).1 hcf
      by_cases hop : op = Op.clear
      · have hl : lastSeg (op :: ops) = ops := by simp [lastSeg, hcf, hop]
        rw [hl]
        exact ⟨hno, Or.inr ⟨by simp [cleared, hop], [], by simp [hop]⟩⟩
      · have hl : lastSeg (op :: ops) = op :: ops := by simp [lastSeg, hcf, hop]
        rw [hl]
        have hno' : Op.clear ∉ op :: ops := by
          intro h
          rcases List.mem_cons.1 h with h | h
          · exact hop h.symm
          · exact hno h
        exact ⟨hno', Or.inl ⟨(cleared_false_iff _).2 hno', rfl⟩⟩

/-- the content the last segment starts from: the initial content, or nothing after a `Clear` -/
def base (s : List α) (ops : List (Op α)) : List α := if cleared ops then [] else s

/-- the answers given to the operations of the last segment -/
def lastOuts (ops : List (Op α)) (outs : List (Out α)) : List (Out α) :=
  outs.drop (ops.length - (lastSeg ops).length)

/-- **Conservation and order, EVERY history** (with or without `Clear`s): since the last `Clear` (or
since the start), dequeued values followed by the content are the starting content followed by the
enqueued values. -/
theorem conservation_since_clear (s : List α) (ops : List (Op α)) :
    dequeued (lastOuts ops (run s ops).2) ++ (run s ops).1 = base s ops ++ enqueued (lastSeg ops) := by
  obtain ⟨hno, h | ⟨hc, pre, hp⟩⟩ := lastSeg_spec ops
  · obtain ⟨hc, hl⟩ := h
    simp only [lastOuts, base, hc, hl]
    simpa using conservation s ops ((cleared_false_iff ops).1 hc)
  · have hlen : ops.length - (lastSeg ops).length = pre.length + 1 := by
      have := congrArg List.length hp
      simp at this; omega
    simp only [lastOuts, base, hc, hlen]
    have := conservation_split s pre (lastSeg ops) hno
    rw [← hp] at this
    simpa using this

/-- Everything after the last `Clear` is a run of the last segment from its starting content. -/
theorem run_since_clear (s : List α) (ops : List (Op α)) :
    (run s ops).1 = (run (base s ops) (lastSeg ops)).1 ∧
    lastOuts ops (run s ops).2 = (run (base s ops) (lastSeg ops)).2 := by
  obtain ⟨_, h | ⟨hc, pre, hp⟩⟩ := lastSeg_spec ops
  · obtain ⟨hc, hl⟩ := h
    simp [lastOuts, base, hc, hl]
  · have hlen : ops.length - (lastSeg ops).length = pre.length + 1 := by
      have := congrArg List.length hp
      simp at this; omega
    have hl : pre.length + 1 = ((run s pre).2 ++ [(step (run s pre).1 Op.clear).2]).length := by
      simp [run_length]
    simp only [lastOuts, base, hc, hlen]
    generalize lastSeg ops = suf at hp
    subst hp
    rw [run_append, run_cons]
    refine ⟨rfl, ?_⟩
    have e : (run s pre).2 ++ (step (run s pre).1 Op.clear).2 :: (run (step (run s pre).1 Op.clear).1 suf).2
        = ((run s pre).2 ++ [(step (run s pre).1 Op.clear).2]) ++ (run (step (run s pre).1 Op.clear).1 suf).2 := by
      simp
    simp only [e, hl, List.drop_left]
    rfl

example : dequeued (run [1] [.enqueue 2, .dequeue, .peek, .enqueue 3, .dequeue, .dequeue, .dequeue,
      .enqueue (4 : Int), .size]).2 = [1, 2, 3] ∧
    (run [1] [.enqueue 2, .dequeue, .peek, .enqueue 3, .dequeue, .dequeue, .dequeue,
      .enqueue (4 : Int), .size]).1 = [4] ∧
    enqueued [.enqueue 2, .dequeue, .peek, .enqueue 3, .dequeue, .dequeue, .dequeue,
      .enqueue (4 : Int), .size] = [2, 3, 4] := by decide

example : lastSeg [.enqueue (1 : Int), .clear, .enqueue 2, .clear, .enqueue 3, .dequeue, .enqueue 4]
      = [.enqueue 3, .dequeue, .enqueue 4] ∧
    base [7] [.enqueue (1 : Int), .clear, .enqueue 2, .clear, .enqueue 3, .dequeue, .enqueue 4] = [] ∧
    lastOuts [.enqueue (1 : Int), .clear, .enqueue 2, .clear, .enqueue 3, .dequeue, .enqueue 4]
      (run [7] [.enqueue (1 : Int), .clear, .enqueue 2, .clear, .enqueue 3, .dequeue, .enqueue 4]).2
      = [.unit, .deq 3 false, .unit] := by decide

/-! ## (b) Size -/

/-- **Size, whole histories.**  The final length is `|starting content| + #enqueues − #successful
dequeues`, both counted since the last `Clear` (or the start); in particular the right-hand side is
never negative. -/
theorem final_size (s : List α) (ops : List (Op α)) :
    ((run s ops).1.length : Int) =
      (base s ops).length + (enqueued (lastSeg ops)).length
        - (dequeued (lastOuts ops (run s ops).2)).length := by
  have := congrArg List.length (conservation_since_clear s ops)
  simp only [List.length_append] at this
  omega

/-- The same as an equation in `Nat` (no truncated subtraction). -/
theorem final_size_nat (s : List α) (ops : List (Op α)) :
    (run s ops).1.length + (dequeued (lastOuts ops (run s ops).2)).length =
      (base s ops).length + (enqueued (lastSeg ops)).length := by
  have := congrArg List.length (conservation_since_clear s ops)
  simp only [List.length_append] at this
  omega

/-- A `Size` call issued after any history answers exactly that number. -/
theorem size_answer_final (s : List α) (ops : List (Op α)) :
    (run s (ops ++ [Op.size])).2.getLast? =
      some (Out.int ((base s ops).length + (enqueued (lastSeg ops)).length
        - (dequeued (lastOuts ops (run s ops).2)).length)) := by
  rw [run_append, ← final_size]
  simp [run, step]

/-- Every `Size` observation inside a history is the length of the abstract queue at that point … -/
theorem size_observation (s : List α) (pre post : List (Op α)) :
    (run s (pre ++ Op.size :: post)).2[pre.length]? = some (Out.int (run s pre).1.length) := by
  rw [observation]; rfl

/-- … which is the count of the history so far: `|start| + #enqueues − #successful dequeues` since
the last `Clear`. -/
theorem size_observation_counts (s : List α) (pre post : List (Op α)) :
    (run s (pre ++ Op.size :: post)).2[pre.length]? =
      some (Out.int ((base s pre).length + (enqueued (lastSeg pre)).length
        - (dequeued (lastOuts pre (run s pre).2)).length)) := by
  rw [size_observation, final_size]

/-! ## (c) Peek, Search, Dequeue on empty — at any point of any history -/

/-- operations that only observe -/
def readOnly : Op α → Bool
  | .peek | .search _ | .size => true
  | _ => false

theorem run_readOnly (s : List α) (mid : List (Op α)) (h : ∀ op ∈ mid, readOnly op = true) :
    (run s mid).1 = s := by
  induction mid generalizing s with
  | nil => rfl
  | cons op mid ih =>
    have h1 := h op List.mem_cons_self
    have h2 : ∀ o ∈ mid, readOnly o = true := fun o ho => h o (List.mem_cons_of_mem _ ho)
    rw [run_cons]
    cases op <;> simp [readOnly] at h1 <;> simpa [step] using ih s h2

/-- **Peek shows what the next Dequeue returns**, at any point of any history: if a `Peek` is
followed (after any number of observing calls) by a `Dequeue`, then both answer the same value, the
`Dequeue` succeeds iff the queue was non-empty, and on the empty queue both answer the zero value. -/
theorem peek_then_dequeue (s : List α) (pre mid post : List (Op α))
    (hm : ∀ op ∈ mid, readOnly op = true) :
    ∃ v e, (run s (pre ++ Op.peek :: (mid ++ Op.dequeue :: post))).2[pre.length]? = some (Out.val v) ∧
      (run s (pre ++ Op.peek :: (mid ++ Op.dequeue :: post))).2[pre.length + 1 + mid.length]?
        = some (Out.deq v e) ∧
      (e = true ↔ (run s pre).1 = []) ∧ ((run s pre).1 = [] → v = default) := by
  have h1 := observation s pre (mid ++ Op.dequeue :: post) Op.peek
  have e2 : pre ++ Op.peek :: (mid ++ Op.dequeue :: post) = (pre ++ Op.peek :: mid) ++ Op.dequeue :: post := by
    simp
  have h2 := observation s (pre ++ Op.peek :: mid) post Op.dequeue
  rw [← e2] at h2
  have hl : (pre ++ Op.peek :: mid).length = pre.length + 1 + mid.length := by simp; omega
  rw [hl] at h2
  have hc : (run s (pre ++ Op.peek :: mid)).1 = (run s pre).1 := by
    rw [run_append, run_cons]
    simpa [step] using run_readOnly (run s pre).1 mid hm
  rw [hc] at h2
  rw [h1, h2]
  cases (run s pre).1 with
  | nil => exact ⟨default, true, by simp [step]⟩
  | cons x r => exact ⟨x, false, by simp [step]⟩

/-- enqueues may also come in between when the queue is not empty: the oldest element stays the
next to be handed back -/
def noRemoval : Op α → Bool
  | .dequeue | .clear => false
  | _ => true

theorem head_stable (x : α) (r : List α) (mid : List (Op α))
    (h : ∀ op ∈ mid, noRemoval op = true) : ∃ r', (run (x :: r) mid).1 = x :: r' := by
  induction mid generalizing r with
  | nil => exact ⟨r, rfl⟩
  | cons op mid ih =>
    have h1 := h op List.mem_cons_self
    have h2 : ∀ o ∈ mid, noRemoval o = true := fun o ho => h o (List.mem_cons_of_mem _ ho)
    rw [run_cons]
    cases op <;> simp [noRemoval] at h1
    · simpa [step] using ih (r ++ [_]) h2
    · simpa [step] using ih r h2
    · simpa [step] using ih r h2
    · simpa [step] using ih r h2

/-- **Peek = next Dequeue on a non-empty queue, with enqueues in between**: any calls except
`Dequeue`/`Clear` may separate the `Peek` from the next `Dequeue`. -/
theorem peek_then_dequeue_nonempty (s : List α) (pre mid post : List (Op α))
    (hm : ∀ op ∈ mid, noRemoval op = true) (hne : (run s pre).1 ≠ []) :
    ∃ v, (run s (pre ++ Op.peek :: (mid ++ Op.dequeue :: post))).2[pre.length]? = some (Out.val v) ∧
      (run s (pre ++ Op.peek :: (mid ++ Op.dequeue :: post))).2[pre.length + 1 + mid.length]?
        = some (Out.deq v false) := by
  have h1 := observation s pre (mid ++ Op.dequeue :: post) Op.peek
  have e2 : pre ++ Op.peek :: (mid ++ Op.dequeue :: post) = (pre ++ Op.peek :: mid) ++ Op.dequeue :: post := by
    simp
  have h2 := observation s (pre ++ Op.peek :: mid) post Op.dequeue
  rw [← e2] at h2
  have hl : (pre ++ Op.peek :: mid).length = pre.length + 1 + mid.length := by simp; omega
  rw [hl] at h2
  rw [h1, h2]
  cases hs : (run s pre).1 with
  | nil => exact absurd hs hne
  | cons x r =>
    obtain ⟨r', hr'⟩ := head_stable x r mid hm
    have hc : (run s (pre ++ Op.peek :: mid)).1 = x :: r' := by
      rw [run_append, run_cons, hs]
      simpa [step] using hr'
    exact ⟨x, by simp [step], by simp [hc, step]⟩

/-- **Search reports exactly the elements currently held**, at any point of any history. -/
theorem search_observation (s : List α) (pre post : List (Op α)) (x : α) :
    (run s (pre ++ Op.search x :: post)).2[pre.length]? = some (Out.bool (decide (x ∈ (run s pre).1))) := by
  rw [observation]; rfl

/-- … in terms of the history alone (no `Clear` so far): `x` is reported iff it is among the initial
and enqueued values that have not been handed back yet. -/
theorem search_observation_history (s : List α) (pre post : List (Op α)) (x : α) (hc : Op.clear ∉ pre) :
    (run s (pre ++ Op.search x :: post)).2[pre.length]? =
      some (Out.bool (decide (x ∈ (s ++ enqueued pre).drop (dequeued (run s pre).2).length))) := by
  rw [search_observation, ← content_is_rest s pre hc]

/-- **Dequeue / Peek on an empty queue report emptiness and change nothing**, at any point. -/
theorem dequeue_empty_observation (s : List α) (pre post : List (Op α)) (he : (run s pre).1 = []) :
    (run s (pre ++ Op.dequeue :: post)).2[pre.length]? = some (Out.deq default true) ∧
    (run s (pre ++ [Op.dequeue])).1 = [] ∧
    (run s (pre ++ Op.peek :: post)).2[pre.length]? = some (Out.val default) ∧
    (run s (pre ++ [Op.peek])).1 = [] := by
  refine ⟨?_, ?_, ?_, ?_⟩
  · rw [observation, he]; rfl
  · rw [run_append, he]; rfl
  · rw [observation, he]; rfl
  · rw [run_append, he]; rfl

/-- Conversely a `Dequeue` reports emptiness only on the empty queue. -/
theorem dequeue_reports_empty_iff (s : List α) (pre post : List (Op α)) :
    (∃ v, (run s (pre ++ Op.dequeue :: post)).2[pre.length]? = some (Out.deq v true)) ↔
      (run s pre).1 = [] := by
  rw [observation]
  cases (run s pre).1 <;> simp [step]

/-! ## Transfer to the models -/

/-- Slice-backed `Queue`: conservation and order for every history. -/
theorem queue_conservation (s : List α) (ops : List (Op α)) :
    dequeued (lastOuts ops (Model.Queue.run s ops).2) ++ (Model.Queue.run s ops).1 =
      base s ops ++ enqueued (lastSeg ops) := by
  rw [C05.queue_refines]; exact conservation_since_clear s ops

/-- Slice-backed `Queue` from `New()`, history without `Clear`. -/
theorem queue_conservation_empty (ops : List (Op α)) (hc : Op.clear ∉ ops) :
    dequeued (Model.Queue.run ([] : List α) ops).2 ++ (Model.Queue.run ([] : List α) ops).1 =
      enqueued ops := by
  rw [C05.queue_refines]; exact conservation_empty ops hc

theorem queue_final_size (s : List α) (ops : List (Op α)) :
    ((Model.Queue.run s ops).1.length : Int) =
      (base s ops).length + (enqueued (lastSeg ops)).length
        - (dequeued (lastOuts ops (Model.Queue.run s ops).2)).length := by
  rw [C05.queue_refines]; exact final_size s ops

theorem queue_size_observation_counts (s : List α) (pre post : List (Op α)) :
    (Model.Queue.run s (pre ++ Op.size :: post)).2[pre.length]? =
      some (Out.int ((base s pre).length + (enqueued (lastSeg pre)).length
        - (dequeued (lastOuts pre (Model.Queue.run s pre).2)).length)) := by
  rw [C05.queue_refines, C05.queue_refines]; exact size_observation_counts s pre post

theorem queue_peek_then_dequeue (s : List α) (pre mid post : List (Op α))
    (hm : ∀ op ∈ mid, readOnly op = true) :
    ∃ v e, (Model.Queue.run s (pre ++ Op.peek :: (mid ++ Op.dequeue :: post))).2[pre.length]?
        = some (Out.val v) ∧
      (Model.Queue.run s (pre ++ Op.peek :: (mid ++ Op.dequeue :: post))).2[pre.length + 1 + mid.length]?
        = some (Out.deq v e) ∧
      (e = true ↔ (Model.Queue.run s pre).1 = []) ∧ ((Model.Queue.run s pre).1 = [] → v = default) := by
  rw [C05.queue_refines, C05.queue_refines]; exact peek_then_dequeue s pre mid post hm

theorem queue_search_observation (s : List α) (pre post : List (Op α)) (x : α) :
    (Model.Queue.run s (pre ++ Op.search x :: post)).2[pre.length]? =
      some (Out.bool (decide (x ∈ (Model.Queue.run s pre).1))) := by
  rw [C05.queue_refines, C05.queue_refines]; exact search_observation s pre post x

/-! ### Linked queue

`LQueue.Dequeue` has no error result (its answers are compared after `C05.obsLinked`, which erases
the flag), so the successful dequeues cannot be read off the answers alone: they are the `Dequeue`s
issued while the count `|start| + #enqueues − #successful dequeues` (since the last `Clear`) is
positive.  `dequeuedL n` reads them off the history and the answers, `n` being that count. -/

def dequeuedL : Nat → List (Op α) → List (Out α) → List α
  | n, op :: ops, o :: os =>
    match op with
    | .enqueue _ => dequeuedL (n + 1) ops os
    | .dequeue =>
      if n = 0 then dequeuedL 0 ops os
      else (match o with | .val v => [v] | _ => []) ++ dequeuedL (n - 1) ops os
    | .clear => dequeuedL 0 ops os
    | _ => dequeuedL n ops os
  | _, _, _ => []

/-- On the answers of the abstract FIFO with the flag erased, `dequeuedL` finds exactly the
successfully dequeued values. -/
theorem dequeuedL_eq (s : List α) (ops : List (Op α)) :
    dequeuedL s.length ops ((run s ops).2.map C05.obsLinked) = dequeued (run s ops).2 := by
  induction ops generalizing s with
  | nil => rfl
  | cons op ops ih =>
    rw [run_cons]
    cases op with
    | enqueue x => simpa [dequeuedL, dequeued, step] using ih (s ++ [x])
    | dequeue =>
      cases s with
      | nil => simpa [dequeuedL, dequeued, step] using ih []
      | cons x r => simpa [dequeuedL, dequeued, step, C05.obsLinked] using ih r
    | peek => simpa [dequeuedL, dequeued, step] using ih s
    | search x => simpa [dequeuedL, dequeued, step] using ih s
    | size => simpa [dequeuedL, dequeued, step] using ih s
    | clear => simpa [dequeuedL, dequeued, step] using ih []

/-- The successful dequeues read off a history of the linked queue are those of the abstract FIFO. -/
theorem lqueue_dequeuedL (t : α) (ops : List (Op α)) :
    dequeuedL (base [t] ops).length (lastSeg ops)
        (lastOuts ops (Model.LQueue.run (Model.LQueue.new t) ops).2) =
      dequeued (lastOuts ops (run [t] ops).2) := by
  obtain ⟨_, r2⟩ := run_since_clear [t] ops
  have : lastOuts ops ((run [t] ops).2.map C05.obsLinked) =
      (lastOuts ops (run [t] ops).2).map C05.obsLinked := by
    simp [lastOuts, List.map_drop]
  rw [C05.lqueue_refines, this, r2, dequeuedL_eq]

/-- Linked `LQueue` from `NewLinked(t)` (which holds `t`): conservation and order for every history
— since the last `Clear`, the dequeued values followed by the content are the starting content
followed by the enqueued values. -/
theorem lqueue_conservation (t : α) (ops : List (Op α)) :
    dequeuedL (base [t] ops).length (lastSeg ops)
        (lastOuts ops (Model.LQueue.run (Model.LQueue.new t) ops).2) ++
      C05.absL (Model.LQueue.run (Model.LQueue.new t) ops).1 =
      base [t] ops ++ enqueued (lastSeg ops) := by
  obtain ⟨_, ha, _⟩ := C05.lqueue_run_refines (Model.LQueue.new t) (C05.invL_new t).1 ops
  rw [(C05.invL_new t).2] at ha
  rw [lqueue_dequeuedL, ha]
  exact conservation_since_clear [t] ops

/-- Linked `LQueue`, history without `Clear`. -/
theorem lqueue_conservation_noclear (t : α) (ops : List (Op α)) (hc : Op.clear ∉ ops) :
    dequeuedL 1 ops (Model.LQueue.run (Model.LQueue.new t) ops).2 ++
      C05.absL (Model.LQueue.run (Model.LQueue.new t) ops).1 = t :: enqueued ops := by
  obtain ⟨ho, ha, _⟩ := C05.lqueue_run_refines (Model.LQueue.new t) (C05.invL_new t).1 ops
  rw [(C05.invL_new t).2] at ho ha
  rw [ho, ha]
  have := dequeuedL_eq [t] ops
  simp only [List.length_singleton] at this
  rw [this]
  simpa using conservation [t] ops hc

/-- Linked `LQueue`: every `Size` observation is the count of the history so far. -/
theorem lqueue_size_observation_counts (t : α) (pre post : List (Op α)) :
    (Model.LQueue.run (Model.LQueue.new t) (pre ++ Op.size :: post)).2[pre.length]? =
      some (Out.int ((base [t] pre).length + (enqueued (lastSeg pre)).length
        - (dequeuedL (base [t] pre).length (lastSeg pre)
            (lastOuts pre (Model.LQueue.run (Model.LQueue.new t) pre).2)).length)) := by
  rw [lqueue_dequeuedL, C05.lqueue_refines, List.getElem?_map, size_observation_counts]
  rfl

example : dequeuedL 1 [.enqueue 2, .dequeue, .peek, .dequeue, .dequeue, .enqueue (0 : Int), .dequeue]
    (Model.LQueue.run (Model.LQueue.new (1 : Int))
      [.enqueue 2, .dequeue, .peek, .dequeue, .dequeue, .enqueue 0, .dequeue]).2 = [1, 2, 0] := by
  decide

end GoguVerif.Theorems.C05More
