import GoguVerif.Gen.Linked
import GoguVerif.Model.LQueue
import GoguVerif.Model.LStack
/-!
# The regenerated tie for the linked containers (C05 `queue.LQueue`, C06 `stack.LStack`)

`Gen/Linked.lean` is produced on every run by the translator (translator/frag_linked.go) from `queue/lqueue.go` and
`stack/lstack.go`: every method with the fields of its pointer receiver as variables (`list`, `n`), a method that
changes a field returning `(results, (list, n))`; the `*list.DList` field is the sequence the list holds and every call
`l.list.M(args)` is the function of `Model/DSeq.lean` for `M`.  That contract of package `list` is ASSUMED at this layer
(by the translator and by the hand-written models alike) and is discharged by C19 (`Theorems/C19.lean:
dlist_realises_dseq`: the pointer-level model of dlist.go realises exactly these sequence operations).

The theorems below state, for ALL states (any sequence, any counter — also states no history reaches), all arguments
and every element type with decidable equality and a zero value, that the regenerated method computes exactly the state
and the answer of the hand-written model's `step` (`Model.LQueue.step`, `Model.LStack.step`), which is what the
theorems of C05 / C06 about the linked containers are about.  This includes the behaviour of `LStack.Pop` behind the
known findings F12a/F12b (the answer is the value of the NEW last node, the zero value on a single node; the counter is
decremented only when positive), which the model mirrors.  None of the regenerated definitions can panic: they are
total functions into plain values (the `DSeq` contract is total).
-/
namespace GoguVerif.Theorems.GenTieLinked
open GoguVerif
open GoguVerif.Gen.Linked

variable {α : Type} [Inhabited α] [DecidableEq α]

/-! ## queue.LQueue (C05) -/

section Queue
open GoguVerif.Spec.C05

/-- `NewLinked(t)`: the regenerated constructor builds the model's initial state. -/
theorem lqueue_new_tie (t : α) :
    Model.LQueue.new t = { list := (queue.NewLinked t).1, n := (queue.NewLinked t).2 } := by
  simp [Model.LQueue.new, queue.NewLinked]

theorem lqueue_enqueue_tie (s : Model.LQueue.St α) (x : α) :
    Model.LQueue.step s (.enqueue x) =
      ({ list := (queue.LQueue_Enqueue s.list s.n x).2.1, n := (queue.LQueue_Enqueue s.list s.n x).2.2 }, Out.unit) := by
  by_cases h : s.n = 0 <;> simp [Model.LQueue.step, queue.LQueue_Enqueue, h]

theorem lqueue_dequeue_tie (s : Model.LQueue.St α) :
    Model.LQueue.step s .dequeue =
      ({ list := (queue.LQueue_Dequeue s.list s.n).2.1, n := (queue.LQueue_Dequeue s.list s.n).2.2 },
        Out.val (queue.LQueue_Dequeue s.list s.n).1) := by
  obtain ⟨l, n⟩ := s
  by_cases h : n = 0 <;> simp [Model.LQueue.step, queue.LQueue_Dequeue, h]

theorem lqueue_peek_tie (s : Model.LQueue.St α) :
    Model.LQueue.step s .peek = (s, Out.val (queue.LQueue_Peek s.list s.n)) := by
  by_cases h : s.n = 0 <;> simp [Model.LQueue.step, queue.LQueue_Peek, h]

theorem lqueue_search_tie (s : Model.LQueue.St α) (x : α) :
    Model.LQueue.step s (.search x) = (s, Out.bool (queue.LQueue_Search s.list s.n x)) := by
  by_cases h : s.n = 0 <;> simp [Model.LQueue.step, queue.LQueue_Search, h]

theorem lqueue_size_tie (s : Model.LQueue.St α) :
    Model.LQueue.step s .size = (s, Out.int (queue.LQueue_Size s.list s.n)) := by
  simp [Model.LQueue.step, queue.LQueue_Size]

theorem lqueue_clear_tie (s : Model.LQueue.St α) :
    Model.LQueue.step s .clear =
      ({ list := (queue.LQueue_Clear s.list s.n).2.1, n := (queue.LQueue_Clear s.list s.n).2.2 }, Out.unit) := by
  simp [Model.LQueue.step, queue.LQueue_Clear]

/-- one step of the linked queue computed by the REGENERATED methods only -/
def lqueueGenStep (s : Model.LQueue.St α) : Op α → Model.LQueue.St α × Out α
  | .enqueue x => let r := queue.LQueue_Enqueue s.list s.n x; ({ list := r.2.1, n := r.2.2 }, .unit)
  | .dequeue => let r := queue.LQueue_Dequeue s.list s.n; ({ list := r.2.1, n := r.2.2 }, .val r.1)
  | .peek => (s, .val (queue.LQueue_Peek s.list s.n))
  | .search x => (s, .bool (queue.LQueue_Search s.list s.n x))
  | .size => (s, .int (queue.LQueue_Size s.list s.n))
  | .clear => let r := queue.LQueue_Clear s.list s.n; ({ list := r.2.1, n := r.2.2 }, .unit)

def lqueueGenRun (s : Model.LQueue.St α) : List (Op α) → Model.LQueue.St α × List (Out α)
  | [] => (s, [])
  | op :: ops =>
    let (s', o) := lqueueGenStep s op
    let (s'', os) := lqueueGenRun s' ops
    (s'', o :: os)

/-- every operation: the regenerated step IS the model's step -/
theorem lqueue_step_tie (s : Model.LQueue.St α) (op : Op α) : lqueueGenStep s op = Model.LQueue.step s op := by
  cases op with
  | enqueue x => rw [lqueue_enqueue_tie]; rfl
  | dequeue => rw [lqueue_dequeue_tie]; rfl
  | peek => rw [lqueue_peek_tie]; rfl
  | search x => rw [lqueue_search_tie]; rfl
  | size => rw [lqueue_size_tie]; rfl
  | clear => rw [lqueue_clear_tie]; rfl

/-- every history from every state: running the regenerated methods = running the model -/
theorem lqueue_run_tie (s : Model.LQueue.St α) (ops : List (Op α)) : lqueueGenRun s ops = Model.LQueue.run s ops := by
  induction ops generalizing s with
  | nil => rfl
  | cons op ops ih => simp only [lqueueGenRun, Model.LQueue.run, lqueue_step_tie, ih]

end Queue

/-! ## stack.LStack (C06) -/

section Stack
open GoguVerif.Spec.C06

theorem lstack_new_tie (t : α) :
    Model.LStack.new t = { list := (stack.NewLinked t).1, n := (stack.NewLinked t).2 } := by
  simp [Model.LStack.new, stack.NewLinked]

theorem lstack_push_tie (s : Model.LStack.St α) (x : α) :
    Model.LStack.step s (.push x) =
      ({ list := (stack.LStack_Push s.list s.n x).2.1, n := (stack.LStack_Push s.list s.n x).2.2 }, Out.unit) := by
  simp [Model.LStack.step, stack.LStack_Push]

/-- incl. the known-finding behaviour: the answer is `DSeq.pop`'s node (the new last value / zero value), the counter
goes down only when positive -/
theorem lstack_pop_tie (s : Model.LStack.St α) :
    Model.LStack.step s .pop =
      ({ list := (stack.LStack_Pop s.list s.n).2.1, n := (stack.LStack_Pop s.list s.n).2.2 },
        Out.val (stack.LStack_Pop s.list s.n).1) := by
  by_cases h : s.n > 0 <;> simp [Model.LStack.step, stack.LStack_Pop, h]

theorem lstack_peek_tie (s : Model.LStack.St α) :
    Model.LStack.step s .peek = (s, Out.val (stack.LStack_Peek s.list s.n)) := by
  simp [Model.LStack.step, stack.LStack_Peek]

theorem lstack_search_tie (s : Model.LStack.St α) (x : α) :
    Model.LStack.step s (.search x) = (s, Out.bool (stack.LStack_Search s.list s.n x)) := by
  simp [Model.LStack.step, stack.LStack_Search]

theorem lstack_size_tie (s : Model.LStack.St α) :
    Model.LStack.step s .size = (s, Out.int (stack.LStack_Size s.list s.n)) := by
  simp [Model.LStack.step, stack.LStack_Size]

/-- one step of the linked stack computed by the REGENERATED methods only -/
def lstackGenStep (s : Model.LStack.St α) : Op α → Model.LStack.St α × Out α
  | .push x => let r := stack.LStack_Push s.list s.n x; ({ list := r.2.1, n := r.2.2 }, .unit)
  | .pop => let r := stack.LStack_Pop s.list s.n; ({ list := r.2.1, n := r.2.2 }, .val r.1)
  | .peek => (s, .val (stack.LStack_Peek s.list s.n))
  | .search x => (s, .bool (stack.LStack_Search s.list s.n x))
  | .size => (s, .int (stack.LStack_Size s.list s.n))

def lstackGenRun (s : Model.LStack.St α) : List (Op α) → Model.LStack.St α × List (Out α)
  | [] => (s, [])
  | op :: ops =>
    let (s', o) := lstackGenStep s op
    let (s'', os) := lstackGenRun s' ops
    (s'', o :: os)

theorem lstack_step_tie (s : Model.LStack.St α) (op : Op α) : lstackGenStep s op = Model.LStack.step s op := by
  cases op with
  | push x => rw [lstack_push_tie]; rfl
  | pop => rw [lstack_pop_tie]; rfl
  | peek => rw [lstack_peek_tie]; rfl
  | search x => rw [lstack_search_tie]; rfl
  | size => rw [lstack_size_tie]; rfl

theorem lstack_run_tie (s : Model.LStack.St α) (ops : List (Op α)) : lstackGenRun s ops = Model.LStack.run s ops := by
  induction ops generalizing s with
  | nil => rfl
  | cons op ops ih => simp only [lstackGenRun, Model.LStack.run, lstack_step_tie, ih]

end Stack

/-! ## non-vacuity: the regenerated definitions compute (element type `Int`, zero value 0) -/

example : queue.NewLinked (7 : Int) = ([7], 1) := by rfl
example : queue.LQueue_Enqueue [0] 0 (5 : Int) = ((), ([5], 1)) := by decide
example : queue.LQueue_Enqueue [4] 1 (5 : Int) = ((), ([4, 5], 2)) := by decide
example : queue.LQueue_Dequeue [4, 5, 6] 3 = ((4 : Int), ([5, 6], 2)) := by decide
example : queue.LQueue_Dequeue [4] 1 = ((4 : Int), ([0], 0)) := by decide
example : queue.LQueue_Dequeue [0] 0 = ((0 : Int), ([0], 0)) := by decide
example : queue.LQueue_Peek [4, 5] 2 = (4 : Int) := by decide
example : queue.LQueue_Search [4, 5] 2 (5 : Int) = true := by decide
example : queue.LQueue_Search [5] 0 (5 : Int) = false := by decide          -- the stale head value is not found
example : queue.LQueue_Clear [4, 5] 2 = ((), ([(4 : Int)], 0)) := by decide
-- the known findings of LStack.Pop, as the regenerated code computes them:
example : stack.LStack_Pop [4, 5, 6] 3 = ((5 : Int), ([4, 5], 2)) := by decide   -- answers the NEW last value (F12a)
example : stack.LStack_Pop [4] 1 = ((0 : Int), ([4], 0)) := by decide            -- single node: zero value, node stays (F12b)
example : stack.LStack_Pop [4] 0 = ((0 : Int), ([4], 0)) := by decide
example : stack.LStack_Push [4] 1 (9 : Int) = ((), ([4, 9], 2)) := by decide
example : stack.LStack_Peek [4, 9] 2 = (9 : Int) := by decide
example : stack.LStack_Search [4, 9] 2 (4 : Int) = true := by decide

end GoguVerif.Theorems.GenTieLinked
