import GoguVerif.Lemmas.C12
import GoguVerif.Lemmas.C12Zip
import GoguVerif.Lemmas.C12Str
/-!
# C12 — property theorems: for ALL inputs (all slices, sizes, counts, callbacks, matrices, nestings,
random index streams, strings) the answer of the MODEL of each helper satisfies the specification
clause of `Spec/C12.lean`, and the model panics exactly outside the stated domain.
-/
namespace GoguVerif.Theorems.C12
open GoguVerif.Model.C12 GoguVerif.Spec.C12 GoguVerif.Lemmas.C12

variable {α β κ σ : Type}

/-! ## order-preserving splits -/

theorem partition_spec (s : List α) (p : α → Bool) :
    PartitionOK p s (partition s p).1 (partition s p).2 := by
  unfold partition
  rw [partitionLoop_eq]
  exact ⟨by simpa using keepOK_filter p s, by simpa using keepOK_filter (fun x => !p x) s⟩

theorem filter_spec (s : List α) (p : α → Bool) : FilterOK p s (filter s p) := by
  unfold filter FilterOK
  rw [filterLoop_eq]
  simpa using keepOK_filter p s

theorem reject_spec (s : List α) (p : α → Bool) : RejectOK p s (reject s p) := by
  unfold reject RejectOK
  rw [rejectLoop_eq _ _ _ (Nat.zero_le _)]
  simpa using keepOK_filter (fun x => !p x) s

theorem dropWhile_spec (s : List α) (p : α → Bool) : DropWhileOK p s (dropWhile s p) := by
  unfold dropWhile DropWhileOK
  rw [dropWhileLoop_eq]
  simpa using keepOK_filter (fun x => !p x) s

/-- `DropRightWhile` never reaches its index panic and answers the rejected part of the reversed slice. -/
theorem dropRightWhile_spec (s : List α) (p : α → Bool) :
    ∃ r, dropRightWhile s p = .ok r ∧ DropRightWhileOK p s r := by
  refine ⟨_, dropRightWhileLoop_eq p s s.length [] (Nat.le_refl _), ?_⟩
  unfold DropRightWhileOK
  simpa using keepOK_filter (fun x => !p x) s.reverse

/-- The split clauses leave no freedom: an answer accepted by the monitor IS the filtered list
(so "every element exactly once, in the part its predicate dictates, order kept" is what is checked). -/
theorem keepOK_iff (p : α → Bool) (s r : List α) : KeepOK p s r ↔ r = s.filter p :=
  ⟨keepOK_unique p s r, fun h => h ▸ keepOK_filter p s⟩

/-! ## Merge, Drop -/

theorem merge_spec (s : List α) (params : List (List α)) : MergeOK s params (merge s params) := by
  unfold merge MergeOK
  rw [mergeLoop_eq]; simp

/-- `Drop` never panics (its slice expressions are in range) and removes `min |n| len` elements from
the front (`n > 0`) or the back (`n < 0`). -/
theorem drop_spec (s : List α) (n : Int) : ∃ r, drop s n = .ok r ∧ DropOK s n r := by
  unfold drop abs
  by_cases hlt : n > -(s.length : Int) ∧ n < (s.length : Int)
  · rw [if_pos hlt]
    by_cases hpos : n > 0
    · rw [if_pos hpos]
      have hn : n = ((n.toNat : Nat) : Int) := by omega
      have hk : n.toNat < s.length := by omega
      refine ⟨(s.take s.length).drop n.toNat, ?_, ?_⟩
      · have h := sliceOf_ok s n.toNat s.length (by omega) (Nat.le_refl _)
        rw [← hn] at h
        exact h
      · rw [List.take_length]
        refine ⟨?_, fun _ => List.drop_suffix _ _, fun h => by omega, fun h => by omega⟩
        simp only [List.length_drop]; omega
    · rw [if_neg hpos]
      have habs : (if n < 0 then -n else n) = (n.natAbs : Int) := by split <;> omega
      have hk : n.natAbs < s.length := by omega
      have hhi : (s.length : Int) - (if n < 0 then -n else n) = ((s.length - n.natAbs : Nat) : Int) := by
        rw [habs]; omega
      refine ⟨(s.take (s.length - n.natAbs)).drop 0, ?_, ?_⟩
      · rw [hhi]
        exact sliceOf_ok s 0 (s.length - n.natAbs) (Nat.zero_le _) (Nat.sub_le _ _)
      · simp only [List.drop_zero]
        refine ⟨?_, fun h => by omega, fun _ => List.take_prefix _ _, fun h => ?_⟩
        · simp only [List.length_take]; omega
        · subst h; simp
  · rw [if_neg hlt]
    have hge : s.length ≤ n.natAbs := by omega
    refine ⟨[], rfl, ?_, fun _ => List.nil_suffix, fun _ => List.nil_prefix, fun h => ?_⟩
    · simp only [List.length_nil]; omega
    · subst h
      have : s.length = 0 := by simpa using hge
      exact (List.eq_nil_of_length_eq_zero this).symm

/-! ## iterators: once per element, in index order (for EVERY state-passing callback) -/

/-- `Map` never reaches its index panic, and what it does to an arbitrary stateful callback is exactly
`callsInOrder`: one call per element, in index order; the i-th result is stored at position i. -/
theorem map_calls_in_order [Inhabited β] (s : List α) (fn : α → σ → β × σ) (st : σ) :
    map s fn st = .ok (callsInOrder fn s st) := by
  unfold map
  have := mapLoop_eq fn s [] (List.replicate s.length default) st (by simp)
  simpa using this

/-- with the logging callback of the harness: the visit log is `s`, the result is the image list -/
theorem map_spec [Inhabited β] (s : List α) (f : α → β) :
    ∃ r log, map s (fun x (lg : List α) => (f x, lg ++ [x])) [] = .ok (r, log) ∧ MapOK f s r log := by
  refine ⟨s.map f, s, ?_, rfl, rfl⟩
  rw [map_calls_in_order, callsInOrder_logging]; simp

/-- `ForEach` folds the callback's state over the slice from the left … -/
theorem forEach_in_order (s : List α) (fn : α → σ → σ) (st : σ) :
    forEach fn s st = s.foldl (fun st x => fn x st) st := forEach_eq fn s st

theorem forEach_spec (s : List α) : ForEachOK s (forEach (fun x (lg : List α) => lg ++ [x]) s []) := by
  unfold ForEachOK
  rw [forEach_eq]
  have : ∀ (l lg : List α), l.foldl (fun st x => st ++ [x]) lg = lg ++ l := by
    intro l; induction l with
    | nil => simp
    | cons v r ih => intro lg; simp [ih]
  simpa using this s []

/-- … `ForEachRight` over the reversed slice, without ever reaching its index panic. -/
theorem forEachRight_in_order (s : List α) (fn : α → σ → σ) (st : σ) :
    forEachRight s fn st = .ok (s.reverse.foldl (fun st x => fn x st) st) := by
  unfold forEachRight
  rw [forEachRightLoop_eq _ _ _ _ (Nat.le_refl _)]; simp

theorem forEachRight_spec (s : List α) :
    ∃ log, forEachRight s (fun x (lg : List α) => lg ++ [x]) [] = .ok log ∧ ForEachRightOK s log := by
  refine ⟨_, forEachRight_in_order s _ _, ?_⟩
  unfold ForEachRightOK
  have : ∀ (l lg : List α), l.foldl (fun st x => st ++ [x]) lg = lg ++ l := by
    intro l; induction l with
    | nil => simp
    | cons v r ih => intro lg; simp [ih]
  simpa using this s.reverse []

/-- `Reduce` threads accumulator and callback state through the slice from the left. -/
theorem reduce_in_order (s : List α) (fn : α → β → σ → β × σ) (init : β) (st : σ) :
    reduce fn s init st = s.foldl (fun p x => fn x p.1 p.2) (init, st) := reduce_eq fn s init st

theorem reduce_spec (s : List α) (f : α → β → β) (init : β) :
    ReduceOK f s init (reduce (fun x acc (lg : List α) => (f x acc, lg ++ [x])) s init []).1
      (reduce (fun x acc (lg : List α) => (f x acc, lg ++ [x])) s init []).2 := by
  rw [reduce_eq]
  have : ∀ (l lg : List α) (a : β),
      l.foldl (fun (p : β × List α) x => (f x p.1, p.2 ++ [x])) (a, lg) =
        (l.foldl (fun acc x => f x acc) a, lg ++ l) := by
    intro l; induction l with
    | nil => simp
    | cons v r ih => intro lg a; simp [ih]
  rw [this]
  exact ⟨by simp, rfl⟩

/-! ## Flatten -/

/-- `Flatten` answers the leaves, left to right, of every well-formed nesting of any depth, and an
error exactly for the nestings that contain a value of a foreign type. -/
theorem flatten_eq (n : Nested α) :
    flatten n = if (toSpec n).wellFormed then some (toSpec n).leaves else none := by
  unfold flatten
  rw [baseFlatten_eq]; simp

theorem flatten_spec (n : Nested α) : FlattenOK (toSpec n) (flatten n) := by
  intro h
  rw [flatten_eq, if_pos h]

/-! ## Reverse, Shuffle -/

/-- `Reverse` never reaches an index panic and its answer lists the slice backwards … -/
theorem reverse_spec (s : List α) : ∃ r, reverse s = .ok r ∧ Reversed s r := by
  obtain ⟨r, hr, hlen, hget⟩ := reverseLoop_spec s 0 s.length (Nat.le_refl _) (Nat.zero_le _)
  refine ⟨r, hr, hlen, fun i hi => ?_⟩
  rw [hget i, if_pos ⟨Nat.zero_le _, hi⟩]
  congr 1; omega

/-- … i.e. it IS the reversed list … -/
theorem reverse_eq (s : List α) : reverse s = .ok s.reverse := by
  obtain ⟨r, hr, h⟩ := reverse_spec s
  rw [hr, (reversed_iff s r).mp h]

/-- … and it is an involution: what one `reverse s => r rr` line of the protocol must show. -/
theorem reverse_involution (s : List α) :
    ∃ r rr, reverse s = .ok r ∧ reverse r = .ok rr ∧ ReverseOK s r rr := by
  refine ⟨s.reverse, s, reverse_eq s, ?_, (reversed_iff s _).mpr rfl, rfl⟩
  rw [reverse_eq, List.reverse_reverse]

/-- For EVERY stream of random numbers `rnd`, `Shuffle` never reaches an index panic and answers a
permutation of its argument. -/
theorem shuffle_spec (rnd : Nat → Nat) (s : List α) : ∃ r, shuffle rnd s = .ok r ∧ ShuffleOK s r :=
  shuffleLoop_spec rnd s.length 0 s (Nat.le_refl _)

/-! ## Chunk -/

/-- For every slice and every size > 0, `Chunk` never reaches a slice-bounds panic and cuts the slice
into pieces of length `size`, the last one shorter but non-empty when `size ∤ len`. -/
theorem chunk_spec (s : List α) (n : Int) (h : 0 < n) :
    ∃ r, chunk s n = .ok r ∧ ChunkOK s n.toNat r := by
  unfold chunk
  rw [if_neg (by omega)]
  exact chunkLoop_spec s n.toNat (by omega) s.length 0 [] 0 (by omega) (chunkInv_init s n.toNat (by omega))

example : (0 : Int) < 3 := by decide

/-- The deliberate panic: exactly for sizes ≤ 0. -/
theorem chunk_panics (s : List α) (n : Int) (h : n ≤ 0) : chunk s n = .panic := by
  unfold chunk
  rw [if_pos h]

example : (-2 : Int) ≤ 0 := by decide
example : ChunkOK [1, 2, 3, 4, 5] 2 [[1, 2], [3, 4], [5]] := by decide

/-- `ChunkOK` leaves no freedom (two answers accepted by the monitor are equal). -/
theorem chunkOK_unique (s : List α) (n : Nat) (r₁ r₂ : List (List α))
    (h₁ : ChunkOK s n r₁) (h₂ : ChunkOK s n r₂) : r₁ = r₂ := by
  induction r₁ generalizing s r₂ with
  | nil =>
    obtain ⟨hf, _⟩ := h₁
    obtain ⟨hf2, hne2, _⟩ := h₂
    cases r₂ with
    | nil => rfl
    | cons c r =>
      have hc := hne2 c (by simp)
      simp only [List.flatten_nil] at hf
      rw [← hf] at hf2
      simp only [List.flatten_cons, List.append_eq_nil_iff] at hf2
      exact absurd hf2.1 hc
  | cons c₁ t₁ ih =>
    obtain ⟨hf1, hne1, hl1, hle1⟩ := h₁
    obtain ⟨hf2, hne2, hl2, hle2⟩ := h₂
    cases r₂ with
    | nil =>
      have hc := hne1 c₁ (by simp)
      simp only [List.flatten_nil] at hf2
      rw [← hf2] at hf1
      simp only [List.flatten_cons, List.append_eq_nil_iff] at hf1
      exact absurd hf1.1 hc
    | cons c₂ t₂ =>
      -- the first chunks have the same length: n, unless they are the only (last) chunk
      have key : c₁ = c₂ ∧ t₁.flatten = t₂.flatten := by
        have hfl : c₁ ++ t₁.flatten = c₂ ++ t₂.flatten := by
          simpa only [List.flatten_cons] using hf1.trans hf2.symm
        have hlen : c₁.length = c₂.length := by
          have e1 : c₁.length ≤ n := hle1 c₁ (by simp)
          have e2 : c₂.length ≤ n := hle2 c₂ (by simp)
          have ht := congrArg List.length hfl
          simp only [List.length_append] at ht
          cases t₁ with
          | nil =>
            cases t₂ with
            | nil => simpa using ht
            | cons d₂ u₂ =>
              have : c₂.length = n := hl2 c₂ (by simp [List.dropLast])
              simp only [List.flatten_nil, List.length_nil] at ht
              omega
          | cons d₁ u₁ =>
            have f1 : c₁.length = n := hl1 c₁ (by simp [List.dropLast])
            cases t₂ with
            | nil =>
              simp only [List.flatten_nil, List.length_nil] at ht
              omega
            | cons d₂ u₂ =>
              have : c₂.length = n := hl2 c₂ (by simp [List.dropLast])
              omega
        exact List.append_inj hfl hlen
      obtain ⟨hc, hrest⟩ := key
      subst hc
      have h1' : ChunkOK t₁.flatten n t₁ :=
        ⟨rfl, fun c hc => hne1 c (List.mem_cons_of_mem _ hc),
         fun c hc => hl1 c (by
           cases t₁ with
           | nil => simp at hc
           | cons d u => simp only [List.dropLast_cons_cons]; exact List.mem_cons_of_mem _ hc),
         fun c hc => hle1 c (List.mem_cons_of_mem _ hc)⟩
      have h2' : ChunkOK t₁.flatten n t₂ :=
        ⟨hrest.symm, fun c hc => hne2 c (List.mem_cons_of_mem _ hc),
         fun c hc => hl2 c (by
           cases t₂ with
           | nil => simp at hc
           | cons d u => simp only [List.dropLast_cons_cons]; exact List.mem_cons_of_mem _ hc),
         fun c hc => hle2 c (List.mem_cons_of_mem _ hc)⟩
      rw [ih t₁.flatten t₂ h1' h2']

/-! ## GroupBy -/

/-- `GroupBy` (= `mapByIndex(slice, Map(slice, fn))`) reaches neither index panic, and its map holds,
under distinct keys, for every key the part of the slice with that key, in order; every element is in
the group of its key. -/
theorem groupBy_spec [DecidableEq κ] [Inhabited κ] (s : List α) (fn : α → κ) :
    ∃ g, groupBy s fn = .ok g ∧ GroupOK fn s g := by
  unfold groupBy
  rw [mapPure_eq]
  exact mapByIndexLoop_spec fn s (s.map fn) 0 [] (by simp)
    ⟨by simp, by simp, by simp⟩

/-- The Go map has no order: the clause holds for every listing of the same entries (the model's
association list is one of them; the harness prints the entries sorted by key). -/
theorem groupOK_perm [DecidableEq κ] (fn : α → κ) (s : List α) (g g' : List (κ × List α))
    (h : GroupOK fn s g) (hp : g'.Perm g) : GroupOK fn s g' := by
  obtain ⟨hnd, hgrp, hcov⟩ := h
  refine ⟨(hp.map _).nodup_iff.mpr hnd, fun e he => hgrp e (hp.mem_iff.mp he), fun x hx => ?_⟩
  obtain ⟨e, he, hk⟩ := hcov x hx
  exact ⟨e, hp.mem_iff.mpr he, hk⟩

example : GroupOK (fun x : Int => x.tmod 2) [1, 2, 3] [(1, [1, 3]), (0, [2])] := by decide
example : List.Perm [((0 : Int), [(2 : Int)]), (1, [1, 3])] [(1, [1, 3]), (0, [2])] := by decide

/-- `GroupOK` pins every group down: it is the filtered slice. -/
theorem groupOK_group [DecidableEq κ] (fn : α → κ) (s : List α) (g : List (κ × List α))
    (h : GroupOK fn s g) (e : κ × List α) (he : e ∈ g) :
    e.2 = s.filter (fun x => decide (fn x = e.1)) :=
  (keepOK_iff _ _ _).mp (h.2.1 e he).2

/-! ## Zip / Unzip -/

/-- On every square matrix (any size, 0 × 0 included) `Zip` reaches none of its index panics and answers
the transpose. -/
theorem zip_spec [Inhabited α] (m : List (List α)) (h : Square m) :
    ∃ r, zip m = .ok r ∧ TransposeOK m r := zipWith_ok false m h

theorem unzip_spec [Inhabited α] (m : List (List α)) (h : Square m) :
    ∃ r, unzip m = .ok r ∧ TransposeOK m r := zipWith_ok true m h

example : Square [[1, 2], [3, 4]] := by decide

/-- The deliberate panics: exactly on the non-square (ragged, or rows ≠ columns) inputs. -/
theorem zip_panics [Inhabited α] (m : List (List α)) (h : ¬ Square m) : zip m = .panic :=
  zipWith_panic false m h

theorem unzip_panics [Inhabited α] (m : List (List α)) (h : ¬ Square m) : unzip m = .panic :=
  zipWith_panic true m h

example : ¬ Square [[1, 2], [3]] := by decide

/-- `Zip` and `Unzip` undo each other on square matrices: what one `zip m => r back` /
`unzip m => r back` protocol line must show. -/
theorem zip_unzip [Inhabited α] (m : List (List α)) (h : Square m) :
    ∃ r, zip m = .ok r ∧ unzip r = .ok m ∧ ZipOK m r m := by
  obtain ⟨r, hr, ht⟩ := zip_spec m h
  obtain ⟨m', hm', ht'⟩ := unzip_spec r ht.2.1
  have : m' = m := transpose_twice m r m' h ht ht'
  subst this
  exact ⟨r, hr, hm', ht, rfl⟩

theorem unzip_zip [Inhabited α] (m : List (List α)) (h : Square m) :
    ∃ r, unzip m = .ok r ∧ zip r = .ok m ∧ ZipOK m r m := by
  obtain ⟨r, hr, ht⟩ := unzip_spec m h
  obtain ⟨m', hm', ht'⟩ := zip_spec r ht.2.1
  have : m' = m := transpose_twice m r m' h ht ht'
  subst this
  exact ⟨r, hr, hm', ht, rfl⟩

/-! ## ReverseStr -/

/-- `ReverseStr` never panics: decode (Go's lenient decoder), reverse, encode. -/
theorem reverseStr_eq (s : List Nat) : reverseStr s = .ok (encodeRunes (decodeRunes s).reverse) := by
  unfold reverseStr
  rw [reverse_eq]

/-- On the UTF-8 form of ANY sequence of Unicode scalar values, `ReverseStr` answers the UTF-8 form of
the reversed sequence … -/
theorem reverseStr_utf8 (rs : List Nat) (h : ∀ x ∈ rs, Scalar x) :
    reverseStr (utf8All rs) = .ok (utf8All rs.reverse) := by
  rw [reverseStr_eq, decodeRunes_utf8All rs h,
    encodeRunes_eq_utf8All rs.reverse (fun x hx => h x (List.mem_reverse.mp hx))]

example : ∀ x ∈ [0x61, 0xE9, 0x20AC, 0x1F600], Scalar x := by decide

/-- … hence it is an involution on valid UTF-8: what one `reversestr s => r rr` line must show. -/
theorem reverseStr_spec (s : List Nat) :
    ∃ r rr, reverseStr s = .ok r ∧ reverseStr r = .ok rr ∧ ReverseStrOK s r rr := by
  refine ⟨_, _, reverseStr_eq s, reverseStr_eq _, ?_⟩
  intro rs hrs hs
  subst hs
  have h1 := reverseStr_utf8 rs hrs
  rw [reverseStr_eq] at h1
  injection h1 with h1
  refine ⟨h1, ?_⟩
  have h2 := reverseStr_utf8 rs.reverse (fun x hx => hrs x (List.mem_reverse.mp hx))
  rw [List.reverse_reverse, reverseStr_eq, ← h1] at h2
  injection h2

/-- The monitor used by the driver for `reversestr` lines decides exactly the property clause
(`parse?` = the strict decoder of Unicode table 3-7 is sound and complete for `utf8All`). -/
theorem reverseStrCheck_iff (s r rr : List Nat) :
    reverseStrCheck s r rr = true ↔ ReverseStrOK s r rr := by
  unfold reverseStrCheck ReverseStrOK
  constructor
  · intro h rs hrs hs
    rw [hs, parse?_utf8All rs hrs] at h
    simp only [Bool.and_eq_true, beq_iff_eq] at h
    exact ⟨h.1, by rw [hs]; exact h.2⟩
  · intro h
    cases hp : parse? s with
    | none => rfl
    | some rs =>
      obtain ⟨h1, h2⟩ := parse?_sound s rs hp
      obtain ⟨h3, h4⟩ := h rs h2 h1
      simp [h3, h4]

end GoguVerif.Theorems.C12
