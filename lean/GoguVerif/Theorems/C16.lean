import GoguVerif.Model.Store
import GoguVerif.Spec.C16
import GoguVerif.Gen.Effects
/-!
# C16 — property theorems (helpers do not disturb their arguments or each other's results)

Two parts.

1. **Decided table** (`effects_ok`): the per-helper write/alias classification that the translator
   REGENERATES from /repo's source on every run (`Gen/Effects.lean`) is decided to put every exported
   helper into one of the admitted classes: writes through no parameter; only the self-assignment
   idiom; in the in-place allow-list of the property with exactly the designated argument; or one of
   the call-count wrappers whose caller-owned counter / cache are their state by contract (C18's
   business, outside C16).  Results that may alias an argument are admitted only for the
   view-returner `Drop` and the in-place helpers that return their argument.
2. **Store theorems**: what those classes mean in the slice-store model — for every program, every
   store, every size.
-/
namespace GoguVerif.Theorems.C16
open GoguVerif Model.Store

/-! ## 1. the regenerated effect table -/

/-- in-place by contract (property statement), with the designated parameter -/
def inPlaceAllow : List (String × List Nat) :=
  [("Reverse", [0]), ("Reject", [0]), ("Omit", [0]), ("OmitBy", [0]), ("heap.FromSlice", [0]), ("heap.Sort", [0])]

/-- call-count wrappers: the caller-owned counter (parameter 0) and the cache are their state -/
def statefulWrappers : List (String × List Nat) := [("After", [0]), ("Before", [0, 1]), ("Once", [0])]

/-- helpers whose result may alias a parameter: views and in-place helpers returning their argument -/
def aliasAllow : List (String × List Nat) :=
  [("Drop", [0]), ("Reverse", [0]), ("Reject", [0]), ("Omit", [0]), ("OmitBy", [0])]

def entryOk (e : EffectEntry) : Bool :=
  (e.writes.isEmpty || e.selfAssignOnly || inPlaceAllow.contains (e.name, e.writes) ||
    statefulWrappers.contains (e.name, e.writes)) &&
  (e.aliases.isEmpty || aliasAllow.contains (e.name, e.aliases))

/-- the in-place allow list of the theorem is the one of the specification (the monitor's) and of the
property statement -/
theorem allow_lists_agree :
    inPlaceAllow.map (·.1) = ["Reverse", "Reject", "Omit", "OmitBy", "heap.FromSlice", "heap.Sort"] ∧
    (Spec.C16.inPlace.map (·.1)).isPerm (inPlaceAllow.map (·.1)) = true := by decide

/-- OBLIGATION re-checked against the current source on every run: every exported helper is in an
admitted class. -/
theorem effects_ok : Gen.effects.all entryOk = true := by decide

/-- the helpers the property names as in-place are present in the table, write exactly their
designated parameter, and nothing that is not listed writes through a parameter -/
theorem effects_exact :
    (Gen.effects.filter (fun e => !e.writes.isEmpty && !e.selfAssignOnly)).map (fun e => (e.name, e.writes)) =
      [("After", [0]), ("Before", [0, 1]), ("Omit", [0]), ("OmitBy", [0]), ("Once", [0]), ("Reject", [0]),
       ("Reverse", [0]), ("heap.FromSlice", [0]), ("heap.Sort", [0])] := by decide

/-! ## 2. store theorems -/

theorem setCell_length (σ : Store) (a i : Nat) (v : Int) : (setCell σ a i v).length = σ.length := by
  simp [setCell]

theorem setCell_other (σ : Store) (a b i : Nat) (v : Int) (h : b ≠ a) :
    (setCell σ b i v)[a]? = σ[a]? := by
  simp [setCell, List.getElem?_modify_ne _ _ h]

theorem write_length (σ σ' : Store) (s : Slice) (i : Nat) (v : Int) (h : write σ s i v = some σ') :
    σ'.length = σ.length := by
  unfold write at h
  split at h
  · cases h; exact setCell_length _ _ _ _
  · cases h

theorem write_other (σ σ' : Store) (s : Slice) (i : Nat) (v : Int) (a : Nat)
    (h : write σ s i v = some σ') (ha : s.arr ≠ a) : σ'[a]? = σ[a]? := by
  unfold write at h
  split at h
  · cases h; exact setCell_other _ _ _ _ _ ha
  · cases h

theorem append_length_ge (σ : Store) (s : Slice) (v : Int) : σ.length ≤ (append σ s v).1.length := by
  unfold append
  split
  · simp [setCell_length]
  · simp

theorem append_other (σ : Store) (s : Slice) (v : Int) (a : Nat) (ha : a < σ.length) (hs : s.arr ≠ a) :
    (append σ s v).1[a]? = σ[a]? := by
  unfold append
  split
  · exact setCell_other _ _ _ _ _ hs
  · simp [List.getElem?_append_left ha]

theorem append_arr_ge (σ : Store) (s : Slice) (v : Int) (base : Nat) (hb : base ≤ s.arr)
    (hσ : base ≤ σ.length) : base ≤ (append σ s v).2.arr := by
  unfold append
  split
  · exact hb
  · exact hσ

theorem step_length_ge (base : Nat) (m : Machine) (i : Instr) : m.σ.length ≤ (step base m i).σ.length := by
  cases i with
  | alloc len cap => simp [step, alloc]
  | write r i v =>
    simp only [step]
    split
    · split
      · split
        · rename_i h; simp [write_length _ _ _ _ _ h]
        · exact Nat.le_refl _
      · exact Nat.le_refl _
    · exact Nat.le_refl _
  | append r v =>
    simp only [step]
    split
    · split
      · exact append_length_ge _ _ _
      · exact Nat.le_refl _
    · exact Nat.le_refl _
  | reslice r lo hi =>
    simp only [step]
    split
    · split <;> exact Nat.le_refl _
    · exact Nat.le_refl _

/-- one disciplined instruction leaves every pre-existing array (index `< base`) unchanged -/
theorem step_frame (base : Nat) (m : Machine) (i : Instr) (hb : base ≤ m.σ.length) (a : Nat) (ha : a < base) :
    (step base m i).σ[a]? = m.σ[a]? := by
  cases i with
  | alloc len cap =>
    simp only [step, alloc]
    exact List.getElem?_append_left (by omega)
  | write r i v =>
    simp only [step]
    split
    · split
      · split
        · rename_i s _ hbs σ' h
          exact write_other _ _ _ _ _ _ h (by omega)
        · rfl
      · rfl
    · rfl
  | append r v =>
    simp only [step]
    split
    · split
      · rename_i s _ hbs
        exact append_other _ _ _ _ (by omega) (by omega)
      · rfl
    · rfl
  | reslice r lo hi =>
    simp only [step]
    split
    · split <;> rfl
    · rfl

/-- **Frame theorem (i)**: ANY program obeying the builder discipline leaves EVERY pre-existing array
unchanged in all cells — the spare capacity behind every argument included — whatever the store, the
registers, and the length of the program. -/
theorem run_frame (base : Nat) (prog : List Instr) (m : Machine) (hb : base ≤ m.σ.length)
    (a : Nat) (ha : a < base) : (run base m prog).σ[a]? = m.σ[a]? := by
  induction prog generalizing m with
  | nil => rfl
  | cons i is ih =>
    simp only [run]
    rw [ih (step base m i) (Nat.le_trans hb (step_length_ge base m i)), step_frame base m i hb a ha]

/-- registers that point into pre-existing storage are only ever created by re-slicing: every register
of the result either existed before, or points into fresh storage, or is a view (same array) of a
register that was there — so results built by alloc/append are disjoint from all arguments. -/
theorem step_regs_fresh_or_view (base : Nat) (m : Machine) (i : Instr) (hb : base ≤ m.σ.length)
    (hreg : ∀ s ∈ m.regs, s.arr < base ∨ base ≤ s.arr) :
    ∀ s ∈ (step base m i).regs, s ∈ m.regs ∨ base ≤ s.arr ∨ ∃ s0 ∈ m.regs, s.arr = s0.arr := by
  intro s hs
  cases i with
  | alloc len cap =>
    simp only [step, alloc, List.mem_append, List.mem_singleton] at hs
    rcases hs with h | h
    · exact Or.inl h
    · subst h; exact Or.inr (Or.inl hb)
  | write r i v =>
    simp only [step] at hs
    split at hs
    · split at hs
      · split at hs <;> exact Or.inl hs
      · exact Or.inl hs
    · exact Or.inl hs
  | append r v =>
    simp only [step] at hs
    split at hs
    · split at hs
      · rename_i s0 hs0 hbs
        rcases List.mem_or_eq_of_mem_set hs with h | h
        · exact Or.inl h
        · subst h; exact Or.inr (Or.inl (append_arr_ge _ _ _ _ hbs hb))
      · exact Or.inl hs
    · exact Or.inl hs
  | reslice r lo hi =>
    simp only [step] at hs
    split at hs
    · rename_i s0 hs0
      split at hs
      · rename_i s' hre
        simp only [List.mem_append, List.mem_singleton] at hs
        rcases hs with h | h
        · exact Or.inl h
        · subst h
          refine Or.inr (Or.inr ⟨s0, List.mem_of_getElem? hs0, ?_⟩)
          unfold reslice at hre
          split at hre
          · cases hre; rfl
          · cases hre
      · exact Or.inl hs
    · exact Or.inl hs

/-- **(ii) views write nothing**: a helper that only re-slices (`Drop`, `Chunk`) leaves the whole
store unchanged. -/
theorem run_views_only (base : Nat) (prog : List Instr) (m : Machine)
    (h : ∀ i ∈ prog, ∃ r lo hi, i = .reslice r lo hi) : (run base m prog).σ = m.σ := by
  induction prog generalizing m with
  | nil => rfl
  | cons i is ih =>
    obtain ⟨r, lo, hi, rfl⟩ := h i (by simp)
    simp only [run]
    rw [ih _ (fun j hj => h j (by simp [hj]))]
    simp only [step]
    split
    · split <;> rfl
    · rfl

/-- **(iii) self-assignment** (`PartitionMap`'s `m[k] = v` inside `for k, v := range m`): writing back
the value just read leaves the store unchanged. -/
theorem write_back_same (σ σ' : Store) (s : Slice) (i : Nat) (v : Int)
    (hr : read σ s i = some v) (hw : write σ s i v = some σ') : σ' = σ := by
  unfold Model.Store.read at hr
  unfold write at hw
  split at hw
  · rename_i hi
    simp only [hi, if_true] at hr
    cases hw
    cases ha : σ[s.arr]? with
    | none => simp [ha] at hr
    | some arr =>
      simp only [ha, Option.bind_some] at hr
      apply List.ext_getElem?
      intro j
      simp only [setCell, List.getElem?_modify]
      by_cases hj : s.arr = j
      · subst hj
        simp only [if_true, ha, Option.map_eq_map, Option.map_some, Option.some.injEq]
        have hlt : s.off + i < arr.length := by
          rcases Nat.lt_or_ge (s.off + i) arr.length with h | h
          · exact h
          · simp [List.getElem?_eq_none h] at hr
        have : arr[s.off + i] = v := by
          have := List.getElem?_eq_getElem hlt
          rw [this] at hr; exact Option.some.inj hr
        rw [← this]; exact List.set_getElem_self hlt
      · simp [hj]
  · cases hw

/-- **(iv) in-place helpers** touch only their one designated argument: every other array is
unchanged, and in the designated array every cell outside the argument's window `[off, off+len)` —
in particular the spare capacity behind it — is unchanged. -/
theorem runInPlace_frame (m : Machine) (r : Nat) (ws : List (Nat × Int)) (s : Slice)
    (hs : m.regs[r]? = some s) :
    (∀ a, a ≠ s.arr → (runInPlace m r ws).σ[a]? = m.σ[a]?) ∧
    (∀ j, (j < s.off ∨ s.off + s.len ≤ j) →
      ((runInPlace m r ws).σ[s.arr]?).bind (·[j]?) = (m.σ[s.arr]?).bind (·[j]?)) := by
  induction ws generalizing m with
  | nil => exact ⟨fun _ _ => rfl, fun _ _ => rfl⟩
  | cons w ws ih =>
    obtain ⟨i, v⟩ := w
    simp only [runInPlace, hs]
    cases hw : write m.σ s i v with
    | none => exact ih m hs
    | some σ' =>
      obtain ⟨h1, h2⟩ := ih { m with σ := σ' } hs
      refine ⟨fun a ha => ?_, fun j hj => ?_⟩
      · rw [h1 a ha]; exact write_other _ _ _ _ _ _ hw (Ne.symm ha)
      · rw [h2 j hj]
        unfold write at hw
        split at hw
        · rename_i hi
          cases hw
          simp only [setCell, List.getElem?_modify_eq]
          cases m.σ[s.arr]? with
          | none => rfl
          | some arr =>
            simp only [Option.map_eq_map, Option.map_some, Option.bind_some]
            exact List.getElem?_set_ne (by omega)
        · cases hw

/-- **(v) the counterexample behind `Merge`**: `append(arg, v)` with spare capacity DOES write the
argument's backing array (the cell just behind the argument). -/
theorem undisciplined_append_writes (m : Machine) (r : Nat) (v : Int) (s : Slice) (arr : List Int)
    (hs : m.regs[r]? = some s) (hcap : s.len < s.cap) (ha : m.σ[s.arr]? = some arr)
    (hlen : s.off + s.len < arr.length) :
    ((undisciplinedAppend m r v).σ[s.arr]?).bind (·[s.off + s.len]?) = some v := by
  simp only [undisciplinedAppend, hs, append, hcap, if_true, setCell, List.getElem?_modify_eq, ha,
    Option.map_eq_map, Option.map_some, Option.bind_some]
  exact List.getElem?_set_self hlen

/-- concrete instance: two results of an undisciplined `append(arg, …)` share the argument's storage
and the second call rewrites what the first returned — while the disciplined builder (copy first)
returns disjoint storage and leaves the argument's spare capacity alone. -/
example :
    let m0 : Machine := { σ := [[1, 2, -777, -777]], regs := [{ arr := 0, off := 0, len := 2, cap := 4 }] }
    let m1 := undisciplinedAppend m0 0 7          -- first result: [1,2,7] in the argument's array
    let m2 := undisciplinedAppend m0 0 9          -- second call on the same argument
    elems m1.σ { arr := 0, off := 0, len := 3, cap := 4 } = [1, 2, 7] ∧
    elems { m1 with σ := m2.σ }.σ { arr := 0, off := 0, len := 3, cap := 4 } = [1, 2, 9] ∧
    (run 1 m0 [.alloc 0 2, .append 1 1, .append 1 2, .append 1 7]).σ[0]? = some [1, 2, -777, -777] := by
  decide

end GoguVerif.Theorems.C16
